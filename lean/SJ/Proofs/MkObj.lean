import SJ.Proofs.CanonM
/-!
# Objects: folding the map insertion = the declarative `objectOf` (property C02, map level)

* `bytesLt` (model copy = spec copy) is a strict total order on byte lists and coincides with the
  lexicographic order `<` of `List UInt8` (Rust `String`/`[u8]` order);
* `mkObj_eq_objectOf`: folding `btInsert` (default) or `ixInsert` (`preserve_order`) over the members
  in source order gives exactly `Spec.Canon.objectOf`, for all member lists;
* `canonM_eq_canon`: hence the machine-built denotation is the specified one.
-/
namespace SJ.Proofs.MkObj
open SJ SJ.Spec.Grammar SJ.Spec.Denote SJ.Model.Machine SJ.Proofs.CanonM
open SJ.Spec.Canon (lookupLast distinctKeys insertSorted sortKeys objectOf)

/-! ## the two `bytesLt` copies -/

theorem bytesLt_eq : Model.Machine.bytesLt = Spec.Canon.bytesLt := by
  funext a b
  induction a generalizing b with
  | nil => cases b <;> rfl
  | cons x xs ih =>
    cases b with
    | nil => rfl
    | cons y ys => simp only [Model.Machine.bytesLt, Spec.Canon.bytesLt, ih]

/-! ## `bytesLt` is a strict total order -/

theorem bytesLt_cons (x y : UInt8) (xs ys : Bytes) :
    bytesLt (x :: xs) (y :: ys) = true ↔ x < y ∨ (x = y ∧ bytesLt xs ys = true) := by
  simp only [bytesLt]
  have hx := UInt8.lt_iff_toNat_lt (a := x) (b := y)
  have hy := UInt8.lt_iff_toNat_lt (a := y) (b := x)
  have he : x = y ↔ x.toNat = y.toNat := UInt8.toNat_inj.symm
  by_cases h1 : x < y
  · simp [h1]
  · by_cases h2 : y < x
    · have : ¬ x = y := by rw [he]; rw [hx] at h1; rw [hy] at h2; omega
      simp [h1, h2, this, GT.gt]
    · have : x = y := by rw [he]; rw [hx] at h1; rw [hy] at h2; omega
      simp [this, GT.gt]

theorem bytesLt_irrefl (a : Bytes) : bytesLt a a = false := by
  induction a with
  | nil => rfl
  | cons x xs ih =>
    cases h : bytesLt (x :: xs) (x :: xs) with
    | false => rfl
    | true =>
      rw [bytesLt_cons] at h
      rcases h with h | ⟨_, h⟩
      · exact absurd h (UInt8.lt_irrefl x)
      · rw [ih] at h; cases h

theorem bytesLt_trans {a b c : Bytes} (h1 : bytesLt a b = true) (h2 : bytesLt b c = true) :
    bytesLt a c = true := by
  induction a generalizing b c with
  | nil =>
    cases b with
    | nil => cases h1
    | cons y ys => cases c with
      | nil => cases h2
      | cons z zs => rfl
  | cons x xs ih =>
    cases b with
    | nil => cases h1
    | cons y ys =>
      cases c with
      | nil => cases h2
      | cons z zs =>
        rw [bytesLt_cons] at h1 h2 ⊢
        rcases h1 with h1 | ⟨rfl, h1⟩
        · rcases h2 with h2 | ⟨rfl, h2⟩
          · exact .inl (UInt8.lt_trans h1 h2)
          · exact .inl h1
        · rcases h2 with h2 | ⟨rfl, h2⟩
          · exact .inl h2
          · exact .inr ⟨rfl, ih h1 h2⟩

/-- trichotomy / connectedness -/
theorem bytesLt_total (a b : Bytes) : bytesLt a b = true ∨ a = b ∨ bytesLt b a = true := by
  induction a generalizing b with
  | nil => cases b with
    | nil => exact .inr (.inl rfl)
    | cons y ys => exact .inl rfl
  | cons x xs ih =>
    cases b with
    | nil => exact .inr (.inr rfl)
    | cons y ys =>
      rw [bytesLt_cons, bytesLt_cons]
      have hx := UInt8.lt_iff_toNat_lt (a := x) (b := y)
      have hy := UInt8.lt_iff_toNat_lt (a := y) (b := x)
      have he : x = y ↔ x.toNat = y.toNat := UInt8.toNat_inj.symm
      by_cases h1 : x < y
      · exact .inl (.inl h1)
      · by_cases h2 : y < x
        · exact .inr (.inr (.inl h2))
        · have : x = y := by rw [he]; rw [hx] at h1; rw [hy] at h2; omega
          subst this
          rcases ih ys with h | h | h
          · exact .inl (.inr ⟨rfl, h⟩)
          · exact .inr (.inl (by rw [h]))
          · exact .inr (.inr (.inr ⟨rfl, h⟩))

theorem bytesLt_asymm {a b : Bytes} (h : bytesLt a b = true) : bytesLt b a = false := by
  cases h' : bytesLt b a with
  | false => rfl
  | true => have := bytesLt_trans h h'; rw [bytesLt_irrefl] at this; cases this

theorem bytesLt_ne {a b : Bytes} (h : bytesLt a b = true) : a ≠ b := by
  rintro rfl; rw [bytesLt_irrefl] at h; cases h

/-- `bytesLt` is the lexicographic order of `List UInt8` (what Rust's `Ord for String`/`[u8]` is) -/
theorem bytesLt_iff_lt (a b : Bytes) : bytesLt a b = true ↔ a < b := by
  induction a generalizing b with
  | nil => cases b <;> simp [bytesLt]
  | cons x xs ih =>
    cases b with
    | nil => simp [bytesLt]
    | cons y ys => rw [bytesLt_cons, List.cons_lt_cons_iff, ih]

/-! ## association lists: keys, first-match lookup, reconstruction from keys -/

def keys (m : List (Bytes × JV)) : List Bytes := m.map Prod.fst

/-- first entry with key `k` (on a map with distinct keys: *the* entry) -/
def find (k : Bytes) : List (Bytes × JV) → Option JV
  | [] => none
  | (k', v) :: r => if k' = k then some v else find k r

theorem find_none_of_not_mem {k : Bytes} {m : List (Bytes × JV)} (h : k ∉ keys m) : find k m = none := by
  induction m with
  | nil => rfl
  | cons kv r ih =>
    obtain ⟨k', v⟩ := kv
    simp only [keys, List.map_cons, List.mem_cons, not_or] at h
    simp only [find, if_neg (Ne.symm h.1)]
    exact ih h.2

theorem filterMap_congr' {α β} {f g : α → Option β} {l : List α} (h : ∀ x ∈ l, f x = g x) :
    l.filterMap f = l.filterMap g := by
  induction l with
  | nil => rfl
  | cons x r ih =>
    simp only [List.filterMap_cons, h x (List.mem_cons_self ..)]
    rw [ih (fun y hy => h y (List.mem_cons_of_mem _ hy))]

theorem nodup_reverse' {α} {l : List α} (h : l.Nodup) : l.reverse.Nodup := by
  simp only [List.Nodup, List.pairwise_reverse] at h ⊢
  exact h.imp (fun h => Ne.symm h)

/-- a map with distinct keys is determined by its key sequence and its lookup function -/
theorem recon (m : List (Bytes × JV)) (hn : (keys m).Nodup) :
    (keys m).filterMap (fun k => (find k m).map (k, ·)) = m := by
  induction m with
  | nil => rfl
  | cons kv r ih =>
    obtain ⟨k, v⟩ := kv
    simp only [keys, List.map_cons, List.nodup_cons] at hn
    simp only [keys, List.map_cons, List.filterMap_cons, find, if_true, Option.map_some]
    congr 1
    conv => rhs; rw [← ih hn.2]
    apply filterMap_congr'
    intro k' hk'
    have : k ≠ k' := by rintro rfl; exact hn.1 hk'
    simp only [if_neg this]

/-! ## the spec side, one member at a time -/

theorem lookupLast_snoc (k k' : Bytes) (v : JV) (pre : List (Bytes × JV)) :
    lookupLast k (pre ++ [(k', v)]) = if k' = k then some v else lookupLast k pre := by
  simp [lookupLast, List.foldl_append]

theorem distinctKeys_snoc (pre : List (Bytes × JV)) (k : Bytes) (v : JV) (seen : List Bytes) :
    distinctKeys (pre ++ [(k, v)]) seen =
      if k ∈ distinctKeys pre seen then distinctKeys pre seen else distinctKeys pre seen ++ [k] := by
  induction pre generalizing seen with
  | nil =>
    simp only [List.nil_append, distinctKeys, List.contains_iff_mem, List.mem_reverse]
    split <;> simp
  | cons kv r ih =>
    obtain ⟨k', v'⟩ := kv
    simp only [List.cons_append, distinctKeys]
    split <;> exact ih _

theorem mem_distinctKeys (ms : List (Bytes × JV)) (seen : List Bytes) (k : Bytes) :
    k ∈ distinctKeys ms seen ↔ k ∈ seen ∨ k ∈ keys ms := by
  induction ms generalizing seen with
  | nil => simp [distinctKeys, keys]
  | cons kv r ih =>
    obtain ⟨k', v'⟩ := kv
    simp only [distinctKeys, List.contains_iff_mem, keys, List.map_cons, List.mem_cons]
    split
    · rename_i h
      rw [ih]; simp only [keys]
      constructor
      · rintro (h1 | h1); exact .inl h1; exact .inr (.inr h1)
      · rintro (h1 | rfl | h1); exact .inl h1; exact .inl h; exact .inr h1
    · rw [ih]; simp only [keys, List.mem_cons]
      constructor
      · rintro ((rfl | h1) | h1); exact .inr (.inl rfl); exact .inl h1; exact .inr (.inr h1)
      · rintro (h1 | rfl | h1); exact .inl (.inr h1); exact .inl (.inl rfl); exact .inr h1

theorem nodup_distinctKeys (ms : List (Bytes × JV)) (seen : List Bytes) (hs : seen.Nodup) :
    (distinctKeys ms seen).Nodup := by
  induction ms generalizing seen with
  | nil => simpa [distinctKeys] using nodup_reverse' hs
  | cons kv r ih =>
    obtain ⟨k', v'⟩ := kv
    simp only [distinctKeys, List.contains_iff_mem]
    split
    · exact ih _ hs
    · rename_i h; exact ih _ (List.nodup_cons.2 ⟨h, hs⟩)

/-! ## `preserve_order`: `ixInsert` -/

theorem keys_ixInsert (k : Bytes) (v : JV) (m : List (Bytes × JV)) :
    keys (ixInsert k v m) = if k ∈ keys m then keys m else keys m ++ [k] := by
  induction m with
  | nil => simp [ixInsert, keys]
  | cons kv r ih =>
    obtain ⟨k', v'⟩ := kv
    simp only [ixInsert]
    by_cases h : k = k'
    · subst h; simp [keys]
    · rw [if_neg h]
      simp only [keys, List.map_cons, List.mem_cons, h, false_or] at ih ⊢
      rw [ih]; split <;> simp [*]

theorem find_ixInsert (k k0 : Bytes) (v0 : JV) (m : List (Bytes × JV)) :
    find k (ixInsert k0 v0 m) = if k0 = k then some v0 else find k m := by
  induction m with
  | nil => simp [ixInsert, find]
  | cons kv r ih =>
    obtain ⟨k', v'⟩ := kv
    simp only [ixInsert]
    by_cases h : k0 = k'
    · subst h; simp only [if_true, find]; split <;> rfl
    · simp only [if_neg h, find, ih]
      by_cases h2 : k' = k
      · subst h2; simp [h]
      · simp [h2]

/-! ## default build: `btInsert` -/

/-- strictly ascending w.r.t. `bytesLt` -/
def Sorted (ks : List Bytes) : Prop := ks.Pairwise (fun a b => bytesLt a b = true)

theorem Sorted.nodup {ks : List Bytes} (h : Sorted ks) : ks.Nodup :=
  List.Pairwise.imp (fun h => bytesLt_ne h) h

theorem mem_insertSorted (k k0 : Bytes) (l : List Bytes) :
    k ∈ insertSorted k0 l ↔ k = k0 ∨ k ∈ l := by
  induction l with
  | nil => simp [insertSorted]
  | cons x r ih =>
    simp only [insertSorted]
    split
    · simp
    · simp only [List.mem_cons, ih]
      constructor
      · rintro (h | h | h); exact .inr (.inl h); exact .inl h; exact .inr (.inr h)
      · rintro (h | h | h); exact .inr (.inl h); exact .inl h; exact .inr (.inr h)

theorem sorted_insertSorted (k : Bytes) (l : List Bytes) (hs : Sorted l) (hk : k ∉ l) :
    Sorted (insertSorted k l) := by
  induction l with
  | nil => simp [insertSorted, Sorted]
  | cons x r ih =>
    simp only [Sorted, List.pairwise_cons] at hs
    simp only [List.mem_cons, not_or] at hk
    simp only [insertSorted, ← bytesLt_eq]
    split
    · rename_i hlt
      simp only [Sorted, List.pairwise_cons, List.mem_cons]
      refine ⟨?_, hs⟩
      rintro y (rfl | hy)
      · exact hlt
      · exact bytesLt_trans hlt (hs.1 y hy)
    · rename_i hlt
      have hxk : bytesLt x k = true := by
        rcases bytesLt_total k x with h | h | h
        · exact absurd h hlt
        · exact absurd h hk.1
        · exact h
      simp only [Sorted, List.pairwise_cons]
      refine ⟨?_, ih hs.2 hk.2⟩
      intro y hy
      rw [mem_insertSorted] at hy
      rcases hy with rfl | hy
      · exact hxk
      · exact hs.1 y hy

theorem keys_btInsert_new (k : Bytes) (v : JV) (m : List (Bytes × JV)) (hk : k ∉ keys m) :
    keys (btInsert k v m) = insertSorted k (keys m) := by
  induction m with
  | nil => simp [btInsert, keys, insertSorted]
  | cons kv r ih =>
    obtain ⟨k', v'⟩ := kv
    simp only [keys, List.map_cons, List.mem_cons, not_or] at hk
    simp only [btInsert, if_neg hk.1, keys, List.map_cons, insertSorted, ← bytesLt_eq]
    split
    · rfl
    · simp only [List.map_cons]; congr 1; exact ih hk.2

theorem keys_btInsert_old (k : Bytes) (v : JV) (m : List (Bytes × JV)) (hs : Sorted (keys m))
    (hk : k ∈ keys m) : keys (btInsert k v m) = keys m := by
  induction m with
  | nil => simp [keys] at hk
  | cons kv r ih =>
    obtain ⟨k', v'⟩ := kv
    simp only [keys, List.map_cons, List.mem_cons, Sorted, List.pairwise_cons] at hk hs
    simp only [btInsert]
    by_cases h : k = k'
    · subst h; simp [keys]
    · have hk' : k ∈ keys r := by rcases hk with hk | hk; exact absurd hk h; exact hk
      have : bytesLt k k' = false := bytesLt_asymm (hs.1 k hk')
      simp only [if_neg h, this, Bool.false_eq_true, if_false, keys, List.map_cons]
      congr 1
      exact ih hs.2 hk'

theorem find_btInsert (k k0 : Bytes) (v0 : JV) (m : List (Bytes × JV)) :
    find k (btInsert k0 v0 m) = if k0 = k then some v0 else find k m := by
  induction m with
  | nil => simp [btInsert, find]
  | cons kv r ih =>
    obtain ⟨k', v'⟩ := kv
    simp only [btInsert]
    by_cases h : k0 = k'
    · subst h; simp only [if_true, find]; split <;> simp [*]
    · simp only [if_neg h]
      split
      · simp only [find]
      · simp only [find, ih]
        by_cases h2 : k' = k
        · subst h2; simp [h]
        · simp [h2]

theorem mem_sortKeys_aux (ks acc : List Bytes) (k : Bytes) :
    k ∈ ks.foldl (fun acc k => insertSorted k acc) acc ↔ k ∈ acc ∨ k ∈ ks := by
  induction ks generalizing acc with
  | nil => simp
  | cons x r ih =>
    simp only [List.foldl_cons, ih, mem_insertSorted, List.mem_cons]
    constructor
    · rintro ((h | h) | h); exact .inr (.inl h); exact .inl h; exact .inr (.inr h)
    · rintro (h | h | h); exact .inl (.inr h); exact .inl (.inl h); exact .inr h

theorem mem_sortKeys (ks : List Bytes) (k : Bytes) : k ∈ sortKeys ks ↔ k ∈ ks := by
  simp [sortKeys, mem_sortKeys_aux]

theorem sortKeys_snoc (ks : List Bytes) (k : Bytes) :
    sortKeys (ks ++ [k]) = insertSorted k (sortKeys ks) := by
  simp [sortKeys, List.foldl_append]

/-! ## the fold, one member at a time -/

theorem snoc_ind {α : Type} {P : List α → Prop} (nil : P [])
    (snoc : ∀ pre x, P pre → P (pre ++ [x])) : ∀ l, P l := by
  have h : ∀ l : List α, P l.reverse := by
    intro l
    induction l with
    | nil => exact nil
    | cons x l ih => rw [List.reverse_cons]; exact snoc _ _ ih
  intro l
  rw [← List.reverse_reverse l]
  exact h _

/-- the key sequence `objectOf` prescribes -/
def specKeys (po : Bool) (ms : List (Bytes × JV)) : List Bytes :=
  if po then distinctKeys ms [] else sortKeys (distinctKeys ms [])

def ins (cfg : Cfg) (m : List (Bytes × JV)) (kv : Bytes × JV) : List (Bytes × JV) :=
  if cfg.po then ixInsert kv.1 kv.2 m else btInsert kv.1 kv.2 m

def build (cfg : Cfg) (ms : List (Bytes × JV)) : List (Bytes × JV) := ms.foldl (ins cfg) []

theorem mkObj_eq_build (cfg : Cfg) (ms : List (Bytes × JV)) : mkObj cfg ms = .obj (build cfg ms) := rfl

theorem build_snoc (cfg : Cfg) (pre : List (Bytes × JV)) (kv : Bytes × JV) :
    build cfg (pre ++ [kv]) = ins cfg (build cfg pre) kv := by
  simp [build, List.foldl_append]

theorem find_build (cfg : Cfg) (ms : List (Bytes × JV)) (k : Bytes) :
    find k (build cfg ms) = lookupLast k ms := by
  induction ms using snoc_ind with
  | nil => rfl
  | snoc pre kv ih =>
    obtain ⟨k0, v0⟩ := kv
    rw [build_snoc, lookupLast_snoc, ← ih]
    unfold ins
    split
    · exact find_ixInsert ..
    · exact find_btInsert ..

/-- default build: the keys of the fold are strictly ascending and are the sorted distinct keys -/
theorem keys_build_bt (cfg : Cfg) (hpo : cfg.po = false) (ms : List (Bytes × JV)) :
    keys (build cfg ms) = sortKeys (distinctKeys ms []) ∧ Sorted (keys (build cfg ms)) := by
  induction ms using snoc_ind with
  | nil => exact ⟨rfl, List.Pairwise.nil⟩
  | snoc pre kv ih =>
    obtain ⟨k0, v0⟩ := kv
    obtain ⟨ih1, ih2⟩ := ih
    rw [build_snoc, distinctKeys_snoc]
    simp only [ins, hpo, Bool.false_eq_true, if_false]
    by_cases hk : k0 ∈ distinctKeys pre []
    · have hk' : k0 ∈ keys (build cfg pre) := by rw [ih1, mem_sortKeys]; exact hk
      rw [if_pos hk, keys_btInsert_old _ _ _ ih2 hk']
      exact ⟨ih1, ih2⟩
    · have hk' : k0 ∉ keys (build cfg pre) := by rw [ih1, mem_sortKeys]; exact hk
      rw [if_neg hk, keys_btInsert_new _ _ _ hk', sortKeys_snoc, ← ih1]
      exact ⟨rfl, sorted_insertSorted _ _ ih2 hk'⟩

/-- `preserve_order`: the keys of the fold are the distinct keys in first-occurrence order -/
theorem keys_build_ix (cfg : Cfg) (hpo : cfg.po = true) (ms : List (Bytes × JV)) :
    keys (build cfg ms) = distinctKeys ms [] := by
  induction ms using snoc_ind with
  | nil => rfl
  | snoc pre kv ih =>
    obtain ⟨k0, v0⟩ := kv
    rw [build_snoc, distinctKeys_snoc]
    simp only [ins, hpo, if_true]
    rw [keys_ixInsert, ih]

theorem keys_build (cfg : Cfg) (ms : List (Bytes × JV)) : keys (build cfg ms) = specKeys cfg.po ms := by
  unfold specKeys
  cases h : cfg.po with
  | false => simpa using (keys_build_bt cfg h ms).1
  | true => simpa using keys_build_ix cfg h ms

theorem nodup_keys_build (cfg : Cfg) (ms : List (Bytes × JV)) : (keys (build cfg ms)).Nodup := by
  cases h : cfg.po with
  | false => exact (keys_build_bt cfg h ms).2.nodup
  | true => rw [keys_build_ix cfg h ms]; exact nodup_distinctKeys ms [] List.nodup_nil

/-- **Folding the map insertion over the members in source order is `objectOf`** — for the
    `BTreeMap` (default) and the `IndexMap` (`preserve_order`) build, all member lists. -/
theorem mkObj_eq_objectOf (cfg : Cfg) (ms : List (Bytes × JV)) :
    mkObj cfg ms = objectOf (specCfg cfg) ms := by
  rw [mkObj_eq_build]
  have h := recon (build cfg ms) (nodup_keys_build cfg ms)
  simp only [find_build, keys_build] at h
  rw [← h]
  simp only [objectOf, specCfg, specKeys]
  rfl

/-! ## readable consequences (used by `Props/C02Map.lean`) -/

/-- the distinct elements of a list in order of first occurrence -/
def firstOccurrences : List Bytes → List Bytes
  | [] => []
  | k :: r => k :: (firstOccurrences r).filter (· != k)

theorem distinctKeys_eq_firstOccurrences (ms : List (Bytes × JV)) (seen : List Bytes) :
    distinctKeys ms seen = seen.reverse ++ (firstOccurrences (keys ms)).filter (fun k => !seen.contains k) := by
  induction ms generalizing seen with
  | nil => simp [distinctKeys, keys, firstOccurrences]
  | cons kv r ih =>
    obtain ⟨k, v⟩ := kv
    simp only [distinctKeys, keys, List.map_cons, firstOccurrences]
    split
    · rename_i h
      rw [ih, List.filter_cons]
      simp only [h, Bool.not_true, Bool.false_eq_true, if_false, List.filter_filter, keys]
      congr 1
      apply List.filter_congr
      intro x _
      by_cases hx : x = k
      · subst hx; simpa using h
      · simp [hx]
    · rename_i h
      rw [ih, List.filter_cons]
      simp only [h, Bool.not_false, if_true, List.filter_filter, keys, List.reverse_cons,
        List.append_assoc, List.singleton_append]
      congr 2
      apply List.filter_congr
      intro x _
      by_cases hx : x = k
      · subst hx; simp
      · simp [hx]

theorem distinctKeys_nil (ms : List (Bytes × JV)) :
    distinctKeys ms [] = firstOccurrences (keys ms) := by
  rw [distinctKeys_eq_firstOccurrences]
  simp [List.filter_eq_self]

theorem find_eq_lookup (k : Bytes) (m : List (Bytes × JV)) : find k m = m.lookup k := by
  induction m with
  | nil => rfl
  | cons kv r ih =>
    obtain ⟨k', v⟩ := kv
    simp only [find, List.lookup_cons, ih]
    by_cases h : k' = k
    · subst h; simp
    · have : (k == k') = false := by simpa using Ne.symm h
      simp [h, this]

theorem lookupLast_of_last (k : Bytes) (v : JV) (pre post : List (Bytes × JV)) (h : k ∉ keys post) :
    lookupLast k (pre ++ (k, v) :: post) = some v := by
  have aux : ∀ (post : List (Bytes × JV)) (acc : Option JV), k ∉ keys post →
      post.foldl (fun acc kv => if kv.1 = k then some kv.2 else acc) acc = acc := by
    intro post
    induction post with
    | nil => intros; rfl
    | cons kv r ih =>
      intro acc hk
      simp only [keys, List.map_cons, List.mem_cons, not_or] at hk
      simp only [List.foldl_cons, if_neg (Ne.symm hk.1)]
      exact ih _ hk.2
  simp only [lookupLast, List.foldl_append, List.foldl_cons, if_true]
  exact aux post _ h

theorem mem_keys_build (cfg : Cfg) (ms : List (Bytes × JV)) (k : Bytes) :
    k ∈ keys (build cfg ms) ↔ k ∈ keys ms := by
  rw [keys_build, specKeys]
  cases cfg.po <;> simp [mem_sortKeys, mem_distinctKeys]

/-! ## `canonM = canon` -/

mutual
theorem canonM_eq_canon (cfg : Cfg) : (t : CST) → canonM cfg t = Spec.Canon.canon (specCfg cfg) t
  | .null => by simp only [canonM, Spec.Canon.canon]
  | .true_ => by simp only [canonM, Spec.Canon.canon]
  | .false_ => by simp only [canonM, Spec.Canon.canon]
  | .num p => by simp only [canonM, Spec.Canon.canon]
  | .str s => by simp only [canonM, Spec.Canon.canon]
  | .arr xs => by simp only [canonM, Spec.Canon.canon, canonMList_eq_canonList cfg xs]
  | .obj ms => by
    simp only [canonM, Spec.Canon.canon, canonMMembers_eq_canonMembers cfg ms]
    congr 1
    funext ms
    exact mkObj_eq_objectOf cfg ms
theorem canonMList_eq_canonList (cfg : Cfg) :
    (xs : List CST) → canonMList cfg xs = Spec.Canon.canonList (specCfg cfg) xs
  | [] => by simp only [canonMList, Spec.Canon.canonList]
  | x :: xs => by
    simp only [canonMList, Spec.Canon.canonList, canonM_eq_canon cfg x, canonMList_eq_canonList cfg xs]
    rfl
theorem canonMMembers_eq_canonMembers (cfg : Cfg) :
    (ms : List (List StrItem × CST)) → canonMMembers cfg ms = Spec.Canon.canonMembers (specCfg cfg) ms
  | [] => by simp only [canonMMembers, Spec.Canon.canonMembers]
  | (k, x) :: ms => by
    simp only [canonMMembers, Spec.Canon.canonMembers, canonM_eq_canon cfg x,
      canonMMembers_eq_canonMembers cfg ms]
    rfl
end

end SJ.Proofs.MkObj
