import SJ.Model.Lexical
import SJ.Proofs.Ieee
import SJ.Proofs.LexTables
import Mathlib.Tactic.Ring
import Mathlib.Tactic.Linarith
/-!
# C07: lexical's rounding and packing (`rounding.rs`, `float.rs`) compute IEEE round-to-nearest-even

* `roundNearestTieEven_eq`: `round_nearest_tie_even(fp, shift)` = `rne (mant / 2^shift)`;
* `FCok`: the constants of `impl Float for f32/f64` are those of the IEEE formats `b32`/`b64`;
* `pack`: normalise → `round_to_float` → carry → `avoid_overflow` → `into_float` yields the bit pattern
  `k·2^mbits + significand` (or the subnormal significand, or infinity) for any rounding step;
* `intoFloat_eq_roundMag` (nearest), `intoDownwardFloat_eq_floorMag` (toward zero), `bhRound_eq_roundMag` (sticky).
-/
namespace SJ.Proofs.LexRound
open SJ SJ.Gen SJ.Model.Lexical SJ.Spec.Ieee SJ.Proofs.Ieee

/-- the constants of `impl Float for f32/f64` (`num.rs`) are those of the IEEE format `F` -/
structure FCok (c : FC) (F : Fmt) : Prop where
  mb1 : 1 ≤ F.mbits
  mb62 : F.mbits + F.ebits ≤ 63
  eb : 2 ≤ F.ebits
  qbig : F.mbits + 2 ≤ F.qexp
  qmax : F.qexp + 2 ≤ 2 ^ F.ebits - 1
  size : c.mantissaSize = F.mbits
  bias : c.exponentBias = (F.qexp : Int) + 1
  den : c.denormalExponent = -(F.qexp : Int)
  maxe : c.maxExponent = ((2 ^ F.ebits - 1 : Nat) : Int) - ((F.qexp : Int) + 1)
  shift : c.defaultShift = 63 - (F.mbits : Int)
  carry : c.carryMask = 2 ^ (F.mbits + 1)
  hidden : c.hiddenBitMask = 2 ^ F.mbits
  mmask : c.mantissaMask = 2 ^ F.mbits - 1
  emask : c.exponentMask = F.infBits
  infb : c.infinityBits = F.infBits
  bits : c.bits = F.mbits + F.ebits + 1
  maxd : c.maxDigits ≥ 22
  /-- a midpoint between adjacent floats has at most `MAX_DIGITS - 1` significant decimal digits -/
  digits_ok : 2 ^ (F.mbits + 2) * 5 ^ (F.qexp + 1) < 10 ^ (c.maxDigits - 1)
  /-- `10^400` is beyond the finite range, `10^-401` below half the least subnormal -/
  huge400 : 2 ^ (F.mbits + 1) * 2 ^ (2 ^ F.ebits - 3) ≤ 10 ^ 400 * 2 ^ F.qexp
  tiny400 : 2 * 2 ^ F.qexp ≤ 10 ^ 401
  /-- integers below `2^80` are far inside the finite range -/
  finbig : 2 ^ 80 * 2 ^ F.qexp * 2 < (4 * 2 ^ F.mbits - 1) * 2 ^ (2 ^ F.ebits - 3)
  /-- a decimal with `MAX_DIGITS - 1` integer digits is beyond the finite range -/
  tenbig : 2 ^ (F.mbits + 1) * 2 ^ (2 ^ F.ebits - 3) ≤ 10 ^ (c.maxDigits - 1) * 2 ^ F.qexp

theorem fcok64 : FCok f64Consts b64 := by
  rw [SJ.Proofs.LexTables.f64_consts]
  constructor <;> decide +kernel

theorem fcok32 : FCok f32Consts b32 := by
  rw [SJ.Proofs.LexTables.f32_consts]
  constructor <;> decide +kernel

theorem fcok (single : Bool) : FCok (fc single) (if single then b32 else b64) := by
  cases single
  · exact fcok64
  · exact fcok32

theorem and_two_pow' (x n : Nat) : x &&& 2 ^ n = if x.testBit n then 2 ^ n else 0 := by
  apply Nat.eq_of_testBit_eq
  intro i
  rw [Nat.testBit_and, Nat.testBit_two_pow]
  by_cases h : x.testBit n
  · rw [if_pos h, Nat.testBit_two_pow]
    by_cases hi : n = i
    · subst hi; simp [h]
    · simp [hi]
  · rw [if_neg h]
    by_cases hi : n = i
    · subst hi; simp [h]
    · simp [hi]

theorem testBit_top (x n : Nat) (hx : x < 2 ^ (n + 1)) : x.testBit n = decide (2 ^ n ≤ x) := by
  by_cases h : 2 ^ n ≤ x
  · have : x = 2 ^ n + (x - 2 ^ n) := by omega
    rw [this, Nat.testBit_two_pow_add_eq, Nat.testBit_lt_two_pow (by rw [Nat.pow_succ] at hx; omega)]
    simp
  · rw [Nat.testBit_lt_two_pow (by omega)]; simp [h]

/-- the carry / hidden-bit tests: `x & 2^n == 2^n` for `x < 2^(n+1)` -/
theorem and_pow_beq (x n : Nat) (hx : x < 2 ^ (n + 1)) : (x &&& 2 ^ n == 2 ^ n) = decide (2 ^ n ≤ x) := by
  rw [and_two_pow', testBit_top x n hx]
  have hp : 0 < 2 ^ n := Nat.pos_of_ne_zero (by simp)
  by_cases h : 2 ^ n ≤ x
  · simp [h]
  · simp [h]; omega

theorem and_pow_beq_zero (x n : Nat) (hx : x < 2 ^ (n + 1)) : (x &&& 2 ^ n == 0) = decide (x < 2 ^ n) := by
  rw [and_two_pow', testBit_top x n hx]
  have hp : 0 < 2 ^ n := Nat.pos_of_ne_zero (by simp)
  by_cases h : 2 ^ n ≤ x
  · have h1 : ¬ (x < 2 ^ n) := by omega
    have h2 : (2 ^ n == 0) = false := by simp
    simp [h, h1]
  · have h1 : x < 2 ^ n := by omega
    simp [h, h1]

theorem u64_of_lt {x : Nat} (h : x < 2 ^ 64) : u64 x = x := Nat.mod_eq_of_lt h

theorem lowerNMask_eq (n : Nat) (h : n ≤ 64) : lowerNMask n = 2 ^ n - 1 := by
  unfold lowerNMask
  by_cases h64 : n = 64
  · subst h64; simp
  · have hlt : n < 64 := by omega
    have : (n == 64) = false := by simpa using h64
    rw [this]; simp only [Bool.false_eq_true, if_false]
    rw [Nat.one_shiftLeft, u64_of_lt (Nat.pow_lt_pow_right (by decide) hlt)]

theorem lowerNHalfway_eq (n : Nat) (h1 : 1 ≤ n) (h : n ≤ 64) : lowerNHalfway n = 2 ^ (n - 1) := by
  unfold lowerNHalfway
  have : (n == 0) = false := by simp; omega
  rw [this]; simp only [Bool.false_eq_true, if_false]
  rw [Nat.one_shiftLeft, u64_of_lt (Nat.pow_lt_pow_right (by decide) (by omega))]

theorem overflowingShr_eq (fp : ExtFloat) (s : Nat) (hs : s ≤ 64) (hm : fp.mant < 2 ^ 64) :
    overflowingShr fp s = { mant := fp.mant / 2 ^ s, exp := fp.exp + s } := by
  unfold overflowingShr
  by_cases h64 : s = 64
  · subst h64; simp; omega
  · have : (s == 64) = false := by simpa using h64
    rw [this]; simp [Nat.shiftRight_eq_div_pow]

/-- `round_nearest_tie_even(fp, shift)` is round-half-even of `mant / 2^shift` -/
theorem roundNearestTieEven_eq (fp : ExtFloat) (s : Nat) (h1 : 1 ≤ s) (hs : s ≤ 64) (hm : fp.mant < 2 ^ 64) :
    roundNearestTieEven fp s = { mant := rne fp.mant (2 ^ s), exp := fp.exp + s } := by
  have hP : 0 < 2 ^ s := Nat.pos_of_ne_zero (by simp)
  have hhalf : 2 * 2 ^ (s - 1) = 2 ^ s := by
    have : s = (s - 1) + 1 := by omega
    conv_rhs => rw [this, Nat.pow_succ]
    ring
  have hq : fp.mant / 2 ^ s < 2 ^ 63 := by
    rw [Nat.div_lt_iff_lt_mul hP]
    calc fp.mant < 2 ^ 64 := hm
      _ = 2 ^ 63 * 2 ^ 1 := by norm_num
      _ ≤ 2 ^ 63 * 2 ^ s := Nat.mul_le_mul_left _ (Nat.pow_le_pow_right (by decide) h1)
  have hr := Nat.mod_lt fp.mant hP
  unfold roundNearestTieEven roundNearest tieEven
  simp only [lowerNMask_eq s hs, lowerNHalfway_eq s h1 hs, overflowingShr_eq fp s hs hm,
    Nat.and_two_pow_sub_one_eq_mod, Nat.and_one_is_mod]
  unfold rne
  simp only []
  by_cases ha : 2 * (fp.mant % 2 ^ s) < 2 ^ s
  · have h1' : ¬ (fp.mant % 2 ^ s > 2 ^ (s - 1)) := by omega
    have h2' : (fp.mant % 2 ^ s == 2 ^ (s - 1)) = false := by simp; omega
    simp [ha, h1', h2']
  · by_cases hb : 2 ^ s < 2 * (fp.mant % 2 ^ s)
    · have h1' : (fp.mant % 2 ^ s > 2 ^ (s - 1)) := by omega
      simp [ha, hb, h1', u64_of_lt (show fp.mant / 2 ^ s + 1 < 2 ^ 64 by omega)]
    · have h1' : ¬ (fp.mant % 2 ^ s > 2 ^ (s - 1)) := by omega
      have h2' : (fp.mant % 2 ^ s == 2 ^ (s - 1)) = true := by simp; omega
      by_cases he : fp.mant / 2 ^ s % 2 = 0
      · simp [ha, hb, h1', h2', he]
      · have : fp.mant / 2 ^ s % 2 = 1 := by omega
        simp [ha, hb, h1', h2', this, u64_of_lt (show fp.mant / 2 ^ s + 1 < 2 ^ 64 by omega)]


/-! ## packing: `into_float` -/

def clampInf (F : Fmt) (r : Nat) : Nat := if r < F.infBits then r else F.infBits

theorem pow_pos' (n : Nat) : 0 < 2 ^ n := Nat.pos_of_ne_zero (by simp)

/-- a significand with its hidden bit and an exponent not below the subnormal one pack to
    `(e + qexp)·2^mbits + sig` (exponent field `e + qexp + 1`, hidden bit dropped), or to infinity -/
theorem intoFloatBits_normal {c : FC} {F : Fmt} (h : FCok c F) (sig : Nat) (e : Int)
    (hs1 : 2 ^ F.mbits ≤ sig) (hs2 : sig < 2 ^ (F.mbits + 1)) (he : -(F.qexp : Int) ≤ e) :
    intoFloatBits c { mant := sig, exp := e } = clampInf F ((e + F.qexp).toNat * 2 ^ F.mbits + sig) := by
  have hP := pow_pos' F.mbits
  have hP2 : 2 ^ (F.mbits + 1) = 2 * 2 ^ F.mbits := by rw [Nat.pow_succ]; ring
  obtain ⟨K, hK⟩ : ∃ K : Nat, e + F.qexp = K := ⟨(e + F.qexp).toNat, by omega⟩
  have hKt : (e + (F.qexp : Int)).toNat = K := by omega
  have hE : 1 ≤ 2 ^ F.ebits - 1 := by
    have : 2 ^ 2 ≤ 2 ^ F.ebits := Nat.pow_le_pow_right (by decide) h.eb
    omega
  unfold intoFloatBits clampInf
  rw [hKt]
  have hne : (sig == 0) = false := by simp; omega
  have hlt : ¬ (e < c.denormalExponent) := by rw [h.den]; omega
  simp only [hne, hlt, decide_false, Bool.or_self, Bool.false_eq_true, if_false]
  rw [h.maxe, h.infb]
  by_cases hov : e ≥ ((2 ^ F.ebits - 1 : Nat) : Int) - ((F.qexp : Int) + 1)
  · rw [if_pos hov]
    have hK2 : 2 ^ F.ebits - 1 ≤ K + 1 := by omega
    have : ¬ (K * 2 ^ F.mbits + sig < F.infBits) := by
      unfold Fmt.infBits
      have : (2 ^ F.ebits - 1) * 2 ^ F.mbits ≤ (K + 1) * 2 ^ F.mbits := Nat.mul_le_mul_right _ hK2
      rw [Nat.succ_mul] at this
      omega
    rw [if_neg this]
  · rw [if_neg hov]
    have hK2 : K + 2 ≤ 2 ^ F.ebits - 1 := by omega
    have hlt2 : K * 2 ^ F.mbits + sig < F.infBits := by
      unfold Fmt.infBits
      have : (K + 2) * 2 ^ F.mbits ≤ (2 ^ F.ebits - 1) * 2 ^ F.mbits := Nat.mul_le_mul_right _ hK2
      have e2 : (K + 2) * 2 ^ F.mbits = K * 2 ^ F.mbits + 2 * 2 ^ F.mbits := by ring
      omega
    rw [if_pos hlt2]
    -- the exponent field
    have hhid : (sig &&& c.hiddenBitMask == 0) = false := by
      rw [h.hidden, and_pow_beq_zero sig F.mbits hs2]; simp; omega
    simp only [hhid, Bool.and_false, Bool.false_eq_true, if_false]
    rw [h.bias, h.size, h.mmask, Nat.and_two_pow_sub_one_eq_mod, h.bits]
    have hexpf : (e + ((F.qexp : Int) + 1)).toNat = K + 1 := by omega
    rw [hexpf, Int.toNat_natCast, Nat.shiftLeft_eq]
    have hbound : (K + 1) * 2 ^ F.mbits + 2 ^ F.mbits ≤ 2 ^ (F.mbits + F.ebits) := by
      have h1 : (K + 2) * 2 ^ F.mbits ≤ 2 ^ F.ebits * 2 ^ F.mbits := Nat.mul_le_mul_right _ (by omega)
      have e2 : (K + 2) * 2 ^ F.mbits = (K + 1) * 2 ^ F.mbits + 2 ^ F.mbits := by ring
      rw [Nat.pow_add, Nat.mul_comm (2 ^ F.mbits)]; omega
    have hle63 : 2 ^ (F.mbits + F.ebits) ≤ 2 ^ 63 := Nat.pow_le_pow_right (by decide) h.mb62
    have hmod : sig % 2 ^ F.mbits = sig - 2 ^ F.mbits := by
      rw [Nat.mod_eq_sub_mod hs1, Nat.mod_eq_of_lt (by omega)]
    rw [u64_of_lt (by omega), hmod, Nat.or_comm, ← Nat.shiftLeft_eq,
      ← Nat.shiftLeft_add_eq_or_of_lt (by omega), Nat.shiftLeft_eq]
    rw [Nat.mod_eq_of_lt]
    · rw [Nat.succ_mul]; omega
    · have : 2 ^ (F.mbits + F.ebits) < 2 ^ (F.mbits + F.ebits + 1) := Nat.pow_lt_pow_right (by decide) (by omega)
      omega

/-- at the subnormal exponent a significand `≤ 2^mbits` packs to itself (`2^mbits` is the least normal) -/
theorem intoFloatBits_denormal {c : FC} {F : Fmt} (h : FCok c F) (sig : Nat) (hs : sig ≤ 2 ^ F.mbits) :
    intoFloatBits c { mant := sig, exp := -(F.qexp : Int) } = sig := by
  have hP := pow_pos' F.mbits
  have hE : 4 ≤ 2 ^ F.ebits := by
    have : 2 ^ 2 ≤ 2 ^ F.ebits := Nat.pow_le_pow_right (by decide) h.eb
    omega
  unfold intoFloatBits
  by_cases h0 : sig = 0
  · subst h0; simp
  · have hne : (sig == 0) = false := by simpa using h0
    have hlt : ¬ (-(F.qexp : Int) < c.denormalExponent) := by rw [h.den]; omega
    have hmax : ¬ (-(F.qexp : Int) ≥ c.maxExponent) := by rw [h.maxe]; omega
    simp only [hne, hlt, hmax, decide_false, Bool.or_self, Bool.false_eq_true, if_false]
    have heq : (-(F.qexp : Int) == c.denormalExponent) = true := by rw [h.den]; simp
    rw [heq, h.hidden, and_pow_beq_zero sig F.mbits (by rw [Nat.pow_succ]; omega), h.mmask,
      Nat.and_two_pow_sub_one_eq_mod, h.bias, h.size, h.bits]
    have hbig : 2 ^ F.mbits * 2 < 2 ^ (F.mbits + F.ebits + 1) := by
      have := Nat.pow_lt_pow_right (show 1 < 2 by decide) (show F.mbits + 1 < F.mbits + F.ebits + 1 by have := h.eb; omega)
      rwa [Nat.pow_succ] at this
    by_cases hlt2 : sig < 2 ^ F.mbits
    · simp only [hlt2, decide_true, Bool.and_self, if_true]
      rw [Nat.zero_shiftLeft, Nat.mod_eq_of_lt hlt2]
      simp only [u64, Nat.zero_mod, Nat.or_zero]
      exact Nat.mod_eq_of_lt (by omega)
    · have hsig : sig = 2 ^ F.mbits := by omega
      simp only [hlt2, decide_false, Bool.and_false, Bool.false_eq_true, if_false]
      have : (-(F.qexp : Int) + ((F.qexp : Int) + 1)).toNat = 1 := by omega
      have h64 : 2 ^ F.mbits < 2 ^ 64 := Nat.pow_lt_pow_right (by decide) (by have := h.mb62; omega)
      rw [this, Int.toNat_natCast, Nat.shiftLeft_eq, hsig, Nat.mod_self, Nat.zero_or, Nat.one_mul,
        u64_of_lt h64, Nat.mod_eq_of_lt (by omega)]

/-- `avoid_overflow` never fires on a significand that carries its hidden bit -/
theorem avoidOverflow_noop {c : FC} {F : Fmt} (h : FCok c F) (sig : Nat) (e : Int)
    (hs1 : 2 ^ F.mbits ≤ sig) (hs2 : sig < 2 ^ (F.mbits + 1)) :
    avoidOverflow c { mant := sig, exp := e } = { mant := sig, exp := e } := by
  unfold avoidOverflow
  simp only []
  split
  · split
    · rename_i h1 h2
      have hbit : ((c.mantissaSize + 1).toNat) = F.mbits + 1 := by rw [h.size]; omega
      rw [hbit]
      have hn1 : 1 ≤ (e - c.maxExponent + 1).toNat := by omega
      have hn2 : (e - c.maxExponent + 1).toNat ≤ F.mbits + 1 := by rw [h.size] at h2; omega
      generalize (e - c.maxExponent + 1).toNat = n at *
      have htb : (sig &&& internalNMask (F.mbits + 1) n).testBit F.mbits = true := by
        unfold internalNMask
        rw [lowerNMask_eq _ (by have := h.mb62; omega), lowerNMask_eq _ (by have := h.mb62; omega)]
        rw [Nat.testBit_and, Nat.testBit_xor, Nat.testBit_two_pow_sub_one, Nat.testBit_two_pow_sub_one,
          testBit_top sig F.mbits hs2]
        have : ¬ (F.mbits < F.mbits + 1 - n) := by omega
        simp [hs1, this]
      have hnz : (sig &&& internalNMask (F.mbits + 1) n == 0) = false := by
        rw [beq_eq_false_iff_ne]
        intro h0; rw [h0] at htb; simp at htb
      rw [hnz]; simp
    · rfl
  · rfl

theorem avoidOverflow_small {c : FC} (fp : ExtFloat) (he : fp.exp < c.maxExponent) : avoidOverflow c fp = fp := by
  unfold avoidOverflow
  rw [if_neg (by omega)]

/-- an abstract rounding step: shifts by `s` and rounds `M / 2^s` down or up -/
structure AlgOk (alg : ExtFloat → Nat → ExtFloat) (g : Nat → Nat → Nat) : Prop where
  eq : ∀ (fp : ExtFloat) (s : Nat), 1 ≤ s → s ≤ 64 → fp.mant < 2 ^ 64 →
    alg fp s = { mant := g fp.mant s, exp := fp.exp + s }
  lo : ∀ M s, M / 2 ^ s ≤ g M s
  hi : ∀ M s, g M s ≤ M / 2 ^ s + 1

/-- the pattern produced from a normalised `M · 2^E` (`2^63 ≤ M < 2^64`) by the rounding step `g` -/
def packSpec (F : Fmt) (g : Nat → Nat → Nat) (M : Nat) (E : Int) : Nat :=
  if -(F.qexp : Int) ≤ E + ((63 - F.mbits : Nat) : Int) then
    (E + ((63 - F.mbits : Nat) : Int) + F.qexp).toNat * 2 ^ F.mbits + g M (63 - F.mbits)
  else if -(F.qexp : Int) - E ≤ 64 then g M (-(F.qexp : Int) - E).toNat
  else 0

/-- **packing.** `round_to_float` → carry → `avoid_overflow` → `into_float` on a normalised extended float -/
theorem pack {c : FC} {F : Fmt} (h : FCok c F) {alg : ExtFloat → Nat → ExtFloat} {g : Nat → Nat → Nat}
    (ha : AlgOk alg g) (M : Nat) (E : Int) (hM1 : 2 ^ 63 ≤ M) (hM2 : M < 2 ^ 64) :
    intoFloatBits c (avoidOverflow c (roundToFloat c alg { mant := M, exp := E })) =
      clampInf F (packSpec F g M E) := by
  have hmb := h.mb62
  have heb := h.eb
  have hqmax := h.qmax
  have hP := pow_pos' F.mbits
  have hP2 : 2 ^ (F.mbits + 1) = 2 * 2 ^ F.mbits := by rw [Nat.pow_succ]; ring
  obtain ⟨d, hd⟩ : ∃ d : Nat, d = 63 - F.mbits := ⟨_, rfl⟩
  have hd1 : 1 ≤ d := by omega
  have hshift : c.defaultShift = (d : Int) := by rw [h.shift]; omega
  have h63 : (2 : Nat) ^ 63 = 2 ^ F.mbits * 2 ^ d := by rw [← Nat.pow_add]; congr 1; omega
  have h64 : (2 : Nat) ^ 64 = 2 * 2 ^ F.mbits * 2 ^ d := by
    have : (2 : Nat) ^ 64 = 2 * 2 ^ 63 := by norm_num
    rw [this, h63]; ring
  have hE4 : 4 ≤ 2 ^ F.ebits := by
    have : 2 ^ 2 ≤ 2 ^ F.ebits := Nat.pow_le_pow_right (by decide) h.eb
    omega
  unfold roundToFloat packSpec
  simp only []
  rw [hshift, h.den, ← hd, Int.toNat_natCast]
  by_cases hN : E + (d : Int) < -(F.qexp : Int)
  · -- subnormal range
    have hN' : ¬ (-(F.qexp : Int) ≤ E + (d : Int)) := by omega
    simp only [if_pos hN, if_neg hN']
    by_cases h64' : -(F.qexp : Int) - E ≤ (u64Full : Int)
    · have hle : -(F.qexp : Int) - E ≤ 64 := h64'
      simp only [if_pos h64', if_pos hle]
      obtain ⟨s, hs⟩ : ∃ s : Nat, -(F.qexp : Int) - E = s := ⟨(-(F.qexp : Int) - E).toNat, by omega⟩
      have hst : (-(F.qexp : Int) - E).toNat = s := by omega
      rw [hst, ha.eq _ s (by omega) (by omega) hM2]
      simp only []
      have hEs : E + (s : Int) = -(F.qexp : Int) := by omega
      rw [hEs]
      -- the significand is at most 2^mbits
      have hq : M / 2 ^ s < 2 ^ F.mbits := by
        rw [Nat.div_lt_iff_lt_mul (pow_pos' s)]
        have : 2 ^ (d + 1) ≤ 2 ^ s := Nat.pow_le_pow_right (by decide) (by omega)
        have e2 : 2 ^ F.mbits * 2 ^ (d + 1) = 2 ^ 64 := by rw [← Nat.pow_add]; congr 1; omega
        calc M < 2 ^ 64 := hM2
          _ = 2 ^ F.mbits * 2 ^ (d + 1) := e2.symm
          _ ≤ 2 ^ F.mbits * 2 ^ s := Nat.mul_le_mul_left _ this
      have hg : g M s ≤ 2 ^ F.mbits := by have := ha.hi M s; omega
      have hcar : (g M s &&& c.carryMask == c.carryMask) = false := by
        rw [h.carry, and_pow_beq _ _ (by rw [Nat.pow_succ, hP2]; omega)]; simp; omega
      simp only [hcar, Bool.false_eq_true, if_false]
      rw [avoidOverflow_small _ (by simp only []; rw [h.maxe]; omega), intoFloatBits_denormal h _ hg]
      unfold clampInf
      rw [if_pos]
      unfold Fmt.infBits
      have : 3 * 2 ^ F.mbits ≤ (2 ^ F.ebits - 1) * 2 ^ F.mbits := Nat.mul_le_mul_right _ (by omega)
      omega
    · have hle : ¬ (-(F.qexp : Int) - E ≤ 64) := h64'
      simp only [if_neg h64', if_neg hle]
      have : ((0 : Nat) &&& c.carryMask == c.carryMask) = false := by
        rw [h.carry, Nat.zero_and]; simp; have := pow_pos' (F.mbits + 1); omega
      simp only [this, Bool.false_eq_true, if_false]
      rw [avoidOverflow_small _ (by simp only []; rw [h.maxe]; omega)]
      simp [intoFloatBits, clampInf, Fmt.infBits]
      omega
  · -- normal range
    have hN' : -(F.qexp : Int) ≤ E + (d : Int) := by omega
    simp only [if_neg hN, if_pos hN']
    rw [ha.eq _ d hd1 (by omega) hM2]
    simp only []
    have hq1 : 2 ^ F.mbits ≤ M / 2 ^ d := by
      rw [Nat.le_div_iff_mul_le (pow_pos' d)]; omega
    have hq2 : M / 2 ^ d < 2 * 2 ^ F.mbits := by
      rw [Nat.div_lt_iff_lt_mul (pow_pos' d)]; omega
    have hg1 := ha.lo M d
    have hg2 := ha.hi M d
    have hP4 : 2 ^ (F.mbits + 1 + 1) = 4 * 2 ^ F.mbits := by rw [Nat.pow_succ, Nat.pow_succ]; ring
    by_cases hc : g M d = 2 * 2 ^ F.mbits
    · have hcar : (g M d &&& c.carryMask == c.carryMask) = true := by
        rw [h.carry, and_pow_beq _ _ (by omega)]; simp; omega
      simp only [hcar, if_true]
      have hshr : shr { mant := g M d, exp := E + (d : Int) } 1 = { mant := 2 ^ F.mbits, exp := E + (d : Int) + 1 } := by
        unfold shr; simp only [Nat.shiftRight_eq_div_pow, hc]
        congr 1
        omega
      rw [hshr, avoidOverflow_noop h _ _ (Nat.le_refl _) (by omega),
        intoFloatBits_normal h _ _ (Nat.le_refl _) (by omega) (by omega)]
      congr 1
      have : (E + (d : Int) + 1 + F.qexp).toNat = (E + (d : Int) + F.qexp).toNat + 1 := by omega
      rw [this, hc]; ring
    · have hcar : (g M d &&& c.carryMask == c.carryMask) = false := by
        rw [h.carry, and_pow_beq _ _ (by omega)]; simp; omega
      simp only [hcar, Bool.false_eq_true, if_false]
      rw [avoidOverflow_noop h _ _ (by omega) (by omega),
        intoFloatBits_normal h _ _ (by omega) (by omega) (by omega)]

/-! ## the specification side: `roundMag` of a dyadic value -/

/-- value `m · 2^e` in units of `2^-qexp` as the fraction `sNum / sDen` -/
def sNum (F : Fmt) (m : Nat) (e : Int) : Nat := m * 2 ^ (e + F.qexp).toNat
def sDen (F : Fmt) (e : Int) : Nat := 2 ^ (-(e + (F.qexp : Int))).toNat

theorem sDen_pos (F : Fmt) (e : Int) : 0 < sDen F e := pow_pos' _

/-- shifting the significand left and lowering the exponent does not change the value -/
theorem scaled_shift (F : Fmt) (m : Nat) (e : Int) (s : Nat) :
    sNum F m e * sDen F (e - s) = sNum F (m * 2 ^ s) (e - s) * sDen F e := by
  unfold sNum sDen
  have : (e + (F.qexp : Int)).toNat + (-(e - (s : Int) + (F.qexp : Int))).toNat
      = s + (e - (s : Int) + (F.qexp : Int)).toNat + (-(e + (F.qexp : Int))).toNat := by omega
  calc m * 2 ^ (e + (F.qexp : Int)).toNat * 2 ^ (-(e - (s : Int) + (F.qexp : Int))).toNat
      = m * 2 ^ ((e + (F.qexp : Int)).toNat + (-(e - (s : Int) + (F.qexp : Int))).toNat) := by
        rw [Nat.pow_add]; ring
    _ = m * 2 ^ (s + (e - (s : Int) + (F.qexp : Int)).toNat + (-(e + (F.qexp : Int))).toNat) := by rw [this]
    _ = m * 2 ^ s * 2 ^ (e - (s : Int) + (F.qexp : Int)).toNat * 2 ^ (-(e + (F.qexp : Int))).toNat := by
        rw [Nat.pow_add, Nat.pow_add]; ring

theorem log2_eq_of {x n : Nat} (h1 : 2 ^ n ≤ x) (h2 : x < 2 ^ (n + 1)) : x.log2 = n := by
  have hx : x ≠ 0 := by have := pow_pos' n; omega
  exact (Nat.log2_eq_iff hx).2 ⟨h1, h2⟩

theorem log2_lt_of {x n : Nat} (h : x < 2 ^ n) : x.log2 < n ∨ x = 0 := by
  by_cases hx : x = 0
  · right; exact hx
  · left; exact (Nat.log2_lt hx).2 h

/-- nearest-even rounding step -/
def gRne (M s : Nat) : Nat := rne M (2 ^ s)

theorem roundNearestTieEven_algOk : AlgOk roundNearestTieEven gRne where
  eq := fun fp s h1 hs hm => roundNearestTieEven_eq fp s h1 hs hm
  lo := fun M s => rne_ge_div M (2 ^ s)
  hi := fun M s => rne_le_div_succ M (2 ^ s)

/-- **the specification on a normalised dyadic value** is the packed pattern with the nearest-even step -/
theorem roundMag_normalized {F : Fmt} (hmb : F.mbits ≤ 62) (M : Nat) (E : Int) (hM1 : 2 ^ 63 ≤ M) (hM2 : M < 2 ^ 64) :
    roundMag F (sNum F M E) (sDen F E) = packSpec F gRne M E := by
  have hP := pow_pos' F.mbits
  obtain ⟨d, hd⟩ : ∃ d : Nat, d = 63 - F.mbits := ⟨_, rfl⟩
  have h63 : (2 : Nat) ^ 63 = 2 ^ F.mbits * 2 ^ d := by rw [← Nat.pow_add]; congr 1; omega
  have h64 : (2 : Nat) ^ 64 = 2 ^ (F.mbits + 1) * 2 ^ d := by rw [← Nat.pow_add]; congr 1; omega
  unfold packSpec
  rw [← hd]
  by_cases hN : -(F.qexp : Int) ≤ E + (d : Int)
  · rw [if_pos hN]
    obtain ⟨K, hK⟩ : ∃ K : Nat, E + (d : Int) + F.qexp = K := ⟨(E + (d : Int) + F.qexp).toNat, by omega⟩
    have hKt : (E + (d : Int) + (F.qexp : Int)).toNat = K := by omega
    rw [hKt]
    -- move to the representation (M·2^K) / 2^d
    have hcong : roundMag F (sNum F M E) (sDen F E) = roundMag F (M * 2 ^ K) (2 ^ d) := by
      apply roundMag_congr F _ _ _ _ (sDen_pos F E) (pow_pos' d)
      unfold sNum sDen
      have : (E + (F.qexp : Int)).toNat + d = K + (-(E + (F.qexp : Int))).toNat := by omega
      calc M * 2 ^ (E + (F.qexp : Int)).toNat * 2 ^ d = M * 2 ^ ((E + (F.qexp : Int)).toNat + d) := by rw [Nat.pow_add]; ring
        _ = M * 2 ^ (K + (-(E + (F.qexp : Int))).toNat) := by rw [this]
        _ = M * 2 ^ K * 2 ^ (-(E + (F.qexp : Int))).toNat := by rw [Nat.pow_add]; ring
    rw [hcong, roundMag_eq]
    have hk : kOf F (M * 2 ^ K) (2 ^ d) = K := by
      unfold kOf
      have hlog : (M * 2 ^ K / 2 ^ d).log2 = F.mbits + K := by
        apply log2_eq_of
        · rw [Nat.le_div_iff_mul_le (pow_pos' d)]
          calc 2 ^ (F.mbits + K) * 2 ^ d = 2 ^ F.mbits * 2 ^ d * 2 ^ K := by rw [Nat.pow_add]; ring
            _ = 2 ^ 63 * 2 ^ K := by rw [h63]
            _ ≤ M * 2 ^ K := Nat.mul_le_mul_right _ hM1
        · rw [Nat.div_lt_iff_lt_mul (pow_pos' d)]
          calc M * 2 ^ K < 2 ^ 64 * 2 ^ K := Nat.mul_lt_mul_of_pos_right hM2 (pow_pos' K)
            _ = 2 ^ (F.mbits + K + 1) * 2 ^ d := by rw [h64, Nat.pow_add, Nat.pow_add, Nat.pow_add]; ring
      rw [hlog]; omega
    rw [hk]
    congr 1
    unfold gRne
    apply rne_congr _ _ _ _ (Nat.mul_pos (pow_pos' d) (pow_pos' K)) (pow_pos' d)
    ring
  · rw [if_neg hN]
    have hnum : sNum F M E = M := by
      unfold sNum
      have : (E + (F.qexp : Int)).toNat = 0 := by omega
      rw [this]; simp
    obtain ⟨s, hs⟩ : ∃ s : Nat, -(F.qexp : Int) - E = s := ⟨(-(F.qexp : Int) - E).toNat, by omega⟩
    have hst : (-(F.qexp : Int) - E).toNat = s := by omega
    have hden : sDen F E = 2 ^ s := by
      unfold sDen; congr 1; omega
    rw [hnum, hden, hst, roundMag_eq]
    have hsd : d + 1 ≤ s := by omega
    have hq : M / 2 ^ s < 2 ^ F.mbits := by
      rw [Nat.div_lt_iff_lt_mul (pow_pos' s)]
      have : 2 ^ (d + 1) ≤ 2 ^ s := Nat.pow_le_pow_right (by decide) hsd
      have e2 : 2 ^ F.mbits * 2 ^ (d + 1) = 2 ^ 64 := by rw [← Nat.pow_add]; congr 1; omega
      calc M < 2 ^ 64 := hM2
        _ = 2 ^ F.mbits * 2 ^ (d + 1) := e2.symm
        _ ≤ 2 ^ F.mbits * 2 ^ s := Nat.mul_le_mul_left _ this
    have hk : kOf F M (2 ^ s) = 0 := by
      unfold kOf
      rcases log2_lt_of hq with h | h
      · omega
      · rw [h]; simp [Nat.log2]
    rw [hk]
    simp only [Nat.zero_mul, Nat.zero_add, Nat.pow_zero, Nat.mul_one]
    by_cases h64' : -(F.qexp : Int) - E ≤ 64
    · rw [if_pos h64']; rfl
    · rw [if_neg h64']
      have hs65 : 65 ≤ s := by omega
      have hbig : 2 ^ 65 ≤ 2 ^ s := Nat.pow_le_pow_right (by decide) hs65
      unfold rne
      have h0 : M / 2 ^ s = 0 := Nat.div_eq_of_lt (by omega)
      have hm : M % 2 ^ s = M := Nat.mod_eq_of_lt (by omega)
      simp only [h0, hm]
      rw [if_pos (by omega)]

/-! ## `into_float` on an arbitrary non-zero extended float -/

theorem normalize_spec (fp : ExtFloat) (h0 : 0 < fp.mant) (h64 : fp.mant < 2 ^ 64) :
    ∃ s : Nat, s ≤ 63 ∧ normalize fp = ({ mant := fp.mant * 2 ^ s, exp := fp.exp - s }, s) ∧
      2 ^ 63 ≤ fp.mant * 2 ^ s ∧ fp.mant * 2 ^ s < 2 ^ 64 := by
  have hne : fp.mant ≠ 0 := by omega
  have hl1 := Nat.log2_self_le hne
  have hl2 := @Nat.lt_log2_self fp.mant
  have hl63 : fp.mant.log2 ≤ 63 := by
    by_contra hc
    have : 2 ^ 64 ≤ 2 ^ fp.mant.log2 := Nat.pow_le_pow_right (by decide) (by omega)
    omega
  refine ⟨63 - fp.mant.log2, by omega, ?_, ?_, ?_⟩
  · unfold normalize leadingZeros shl
    have : (fp.mant == 0) = false := by simpa using hne
    simp only [this, Bool.false_eq_true, if_false, Nat.shiftLeft_eq]
    congr 2
    apply u64_of_lt
    calc fp.mant * 2 ^ (63 - fp.mant.log2) < 2 ^ (fp.mant.log2 + 1) * 2 ^ (63 - fp.mant.log2) :=
          Nat.mul_lt_mul_of_pos_right hl2 (pow_pos' _)
      _ = 2 ^ 64 := by rw [← Nat.pow_add]; congr 1; omega
  · calc 2 ^ 63 = 2 ^ fp.mant.log2 * 2 ^ (63 - fp.mant.log2) := by rw [← Nat.pow_add]; congr 1; omega
      _ ≤ fp.mant * 2 ^ (63 - fp.mant.log2) := Nat.mul_le_mul_right _ hl1
  · calc fp.mant * 2 ^ (63 - fp.mant.log2) < 2 ^ (fp.mant.log2 + 1) * 2 ^ (63 - fp.mant.log2) :=
          Nat.mul_lt_mul_of_pos_right hl2 (pow_pos' _)
      _ = 2 ^ 64 := by rw [← Nat.pow_add]; congr 1; omega

/-- **`into_float` is IEEE round-to-nearest-even of the extended value** (infinity on overflow) -/
theorem intoFloat_eq_roundMag {c : FC} {F : Fmt} (h : FCok c F) (fp : ExtFloat) (h0 : 0 < fp.mant)
    (h64 : fp.mant < 2 ^ 64) :
    intoFloat c fp = clampInf F (roundMag F (sNum F fp.mant fp.exp) (sDen F fp.exp)) := by
  obtain ⟨s, _, hn, hM1, hM2⟩ := normalize_spec fp h0 h64
  unfold intoFloat roundToNative
  rw [hn]
  simp only []
  rw [pack h roundNearestTieEven_algOk _ _ hM1 hM2,
    ← roundMag_normalized (by have := h.mb62; have := h.eb; omega) _ _ hM1 hM2]
  congr 1
  exact roundMag_congr F _ _ _ _ (sDen_pos F _) (sDen_pos F _) (scaled_shift F fp.mant fp.exp s).symm

/-! ## rounding toward zero (`into_downward_float`) -/

def gDown (M s : Nat) : Nat := M / 2 ^ s

theorem roundDownward_algOk : AlgOk roundDownward gDown where
  eq := fun fp s _ hs hm => by unfold roundDownward gDown; exact overflowingShr_eq fp s hs hm
  lo := fun _ _ => Nat.le_refl _
  hi := fun _ _ => Nat.le_succ _

/-- round toward zero to a bit pattern: the largest finite pattern whose magnitude is `≤ a/b` -/
def floorMag (F : Fmt) (a b : Nat) : Nat := kOf F a b * 2 ^ F.mbits + a / (b * 2 ^ kOf F a b)

theorem floorMag_congr (F : Fmt) (a b a' b' : Nat) (hb : 0 < b) (hb' : 0 < b') (h : a * b' = a' * b) :
    floorMag F a b = floorMag F a' b' := by
  have hq : a / b = a' / b' := div_congr a b a' b' hb hb' h
  have hk : kOf F a b = kOf F a' b' := by unfold kOf; rw [hq]
  unfold floorMag
  rw [hk]
  congr 1
  apply div_congr _ _ _ _ (Nat.mul_pos hb (pow_pos' _)) (Nat.mul_pos hb' (pow_pos' _))
  calc a * (b' * 2 ^ kOf F a' b') = a * b' * 2 ^ kOf F a' b' := by ring
    _ = a' * b * 2 ^ kOf F a' b' := by rw [h]
    _ = a' * (b * 2 ^ kOf F a' b') := by ring

theorem floorMag_normalized {F : Fmt} (hmb : F.mbits ≤ 62) (M : Nat) (E : Int) (hM1 : 2 ^ 63 ≤ M) (hM2 : M < 2 ^ 64) :
    floorMag F (sNum F M E) (sDen F E) = packSpec F gDown M E := by
  have hP := pow_pos' F.mbits
  obtain ⟨d, hd⟩ : ∃ d : Nat, d = 63 - F.mbits := ⟨_, rfl⟩
  have h63 : (2 : Nat) ^ 63 = 2 ^ F.mbits * 2 ^ d := by rw [← Nat.pow_add]; congr 1; omega
  have h64 : (2 : Nat) ^ 64 = 2 ^ (F.mbits + 1) * 2 ^ d := by rw [← Nat.pow_add]; congr 1; omega
  unfold packSpec
  rw [← hd]
  by_cases hN : -(F.qexp : Int) ≤ E + (d : Int)
  · rw [if_pos hN]
    obtain ⟨K, hK⟩ : ∃ K : Nat, E + (d : Int) + F.qexp = K := ⟨(E + (d : Int) + F.qexp).toNat, by omega⟩
    have hKt : (E + (d : Int) + (F.qexp : Int)).toNat = K := by omega
    rw [hKt]
    have hcong : floorMag F (sNum F M E) (sDen F E) = floorMag F (M * 2 ^ K) (2 ^ d) := by
      apply floorMag_congr F _ _ _ _ (sDen_pos F E) (pow_pos' d)
      unfold sNum sDen
      have : (E + (F.qexp : Int)).toNat + d = K + (-(E + (F.qexp : Int))).toNat := by omega
      calc M * 2 ^ (E + (F.qexp : Int)).toNat * 2 ^ d = M * 2 ^ ((E + (F.qexp : Int)).toNat + d) := by rw [Nat.pow_add]; ring
        _ = M * 2 ^ (K + (-(E + (F.qexp : Int))).toNat) := by rw [this]
        _ = M * 2 ^ K * 2 ^ (-(E + (F.qexp : Int))).toNat := by rw [Nat.pow_add]; ring
    rw [hcong]
    unfold floorMag
    have hk : kOf F (M * 2 ^ K) (2 ^ d) = K := by
      unfold kOf
      have hlog : (M * 2 ^ K / 2 ^ d).log2 = F.mbits + K := by
        apply log2_eq_of
        · rw [Nat.le_div_iff_mul_le (pow_pos' d)]
          calc 2 ^ (F.mbits + K) * 2 ^ d = 2 ^ F.mbits * 2 ^ d * 2 ^ K := by rw [Nat.pow_add]; ring
            _ = 2 ^ 63 * 2 ^ K := by rw [h63]
            _ ≤ M * 2 ^ K := Nat.mul_le_mul_right _ hM1
        · rw [Nat.div_lt_iff_lt_mul (pow_pos' d)]
          calc M * 2 ^ K < 2 ^ 64 * 2 ^ K := Nat.mul_lt_mul_of_pos_right hM2 (pow_pos' K)
            _ = 2 ^ (F.mbits + K + 1) * 2 ^ d := by rw [h64, Nat.pow_add, Nat.pow_add, Nat.pow_add]; ring
      rw [hlog]; omega
    rw [hk]
    congr 1
    unfold gDown
    apply div_congr _ _ _ _ (Nat.mul_pos (pow_pos' d) (pow_pos' K)) (pow_pos' d)
    ring
  · rw [if_neg hN]
    have hnum : sNum F M E = M := by
      unfold sNum
      have : (E + (F.qexp : Int)).toNat = 0 := by omega
      rw [this]; simp
    obtain ⟨s, hs⟩ : ∃ s : Nat, -(F.qexp : Int) - E = s := ⟨(-(F.qexp : Int) - E).toNat, by omega⟩
    have hst : (-(F.qexp : Int) - E).toNat = s := by omega
    have hden : sDen F E = 2 ^ s := by
      unfold sDen; congr 1; omega
    rw [hnum, hden, hst]
    unfold floorMag
    have hsd : d + 1 ≤ s := by omega
    have hq : M / 2 ^ s < 2 ^ F.mbits := by
      rw [Nat.div_lt_iff_lt_mul (pow_pos' s)]
      have : 2 ^ (d + 1) ≤ 2 ^ s := Nat.pow_le_pow_right (by decide) hsd
      have e2 : 2 ^ F.mbits * 2 ^ (d + 1) = 2 ^ 64 := by rw [← Nat.pow_add]; congr 1; omega
      calc M < 2 ^ 64 := hM2
        _ = 2 ^ F.mbits * 2 ^ (d + 1) := e2.symm
        _ ≤ 2 ^ F.mbits * 2 ^ s := Nat.mul_le_mul_left _ this
    have hk : kOf F M (2 ^ s) = 0 := by
      unfold kOf
      rcases log2_lt_of hq with h | h
      · omega
      · rw [h]; simp [Nat.log2]
    rw [hk]
    simp only [Nat.zero_mul, Nat.zero_add, Nat.pow_zero, Nat.mul_one]
    by_cases h64' : -(F.qexp : Int) - E ≤ 64
    · rw [if_pos h64']; rfl
    · rw [if_neg h64']
      have hs65 : 65 ≤ s := by omega
      have hbig : 2 ^ 65 ≤ 2 ^ s := Nat.pow_le_pow_right (by decide) hs65
      exact Nat.div_eq_of_lt (by omega)

/-- **`into_downward_float` rounds the extended value toward zero** -/
theorem intoDownwardFloat_eq_floorMag {c : FC} {F : Fmt} (h : FCok c F) (fp : ExtFloat) (h0 : 0 < fp.mant)
    (h64 : fp.mant < 2 ^ 64) :
    intoDownwardFloat c fp = clampInf F (floorMag F (sNum F fp.mant fp.exp) (sDen F fp.exp)) := by
  obtain ⟨s, _, hn, hM1, hM2⟩ := normalize_spec fp h0 h64
  unfold intoDownwardFloat roundToNative
  rw [hn]
  simp only []
  rw [pack h roundDownward_algOk _ _ hM1 hM2,
    ← floorMag_normalized (by have := h.mb62; have := h.eb; omega) _ _ hM1 hM2]
  congr 1
  exact floorMag_congr F _ _ _ _ (sDen_pos F _) (sDen_pos F _) (scaled_shift F fp.mant fp.exp s).symm

/-! ## bhcomp's rounding with a sticky flag -/

/-- nearest-even step when the true value lies strictly above `M` (some lower bit was dropped): round `M + ½` -/
def gSticky (t : Bool) (M s : Nat) : Nat := if t then rne (2 * M + 1) (2 ^ (s + 1)) else rne M (2 ^ s)

theorem sticky_div (M s : Nat) : (2 * M + 1) / 2 ^ (s + 1) = M / 2 ^ s := by
  rw [Nat.pow_succ, Nat.mul_comm (2 ^ s) 2, ← Nat.div_div_eq_div_mul]
  congr 1; omega

theorem sticky_mod (M s : Nat) : (2 * M + 1) % 2 ^ (s + 1) = 2 * (M % 2 ^ s) + 1 := by
  have h1 := Nat.div_add_mod (2 * M + 1) (2 ^ (s + 1))
  have h2 := Nat.div_add_mod M (2 ^ s)
  rw [sticky_div] at h1
  have hp : 2 ^ (s + 1) = 2 * 2 ^ s := by rw [Nat.pow_succ]; ring
  rw [hp] at h1 ⊢
  have : 2 * 2 ^ s * (M / 2 ^ s) = 2 * (2 ^ s * (M / 2 ^ s)) := by ring
  omega

theorem bhRound_true_eq (fp : ExtFloat) (s : Nat) (h1 : 1 ≤ s) (hs : s ≤ 64) (hm : fp.mant < 2 ^ 64) :
    bhRoundNearestTieEven true fp s = { mant := rne (2 * fp.mant + 1) (2 ^ (s + 1)), exp := fp.exp + s } := by
  have hP : 0 < 2 ^ s := pow_pos' s
  have hhalf : 2 * 2 ^ (s - 1) = 2 ^ s := by
    have : s = (s - 1) + 1 := by omega
    conv_rhs => rw [this, Nat.pow_succ]
    ring
  have hp : 2 ^ (s + 1) = 2 * 2 ^ s := by rw [Nat.pow_succ]; ring
  have hq : fp.mant / 2 ^ s < 2 ^ 63 := by
    rw [Nat.div_lt_iff_lt_mul hP]
    calc fp.mant < 2 ^ 64 := hm
      _ = 2 ^ 63 * 2 ^ 1 := by norm_num
      _ ≤ 2 ^ 63 * 2 ^ s := Nat.mul_le_mul_left _ (Nat.pow_le_pow_right (by decide) h1)
  have hr := Nat.mod_lt fp.mant hP
  unfold bhRoundNearestTieEven roundNearest tieEven
  simp only [lowerNMask_eq s hs, lowerNHalfway_eq s h1 hs, overflowingShr_eq fp s hs hm,
    Nat.and_two_pow_sub_one_eq_mod, Nat.and_one_is_mod, Bool.and_true]
  unfold rne
  simp only [sticky_div, sticky_mod]
  by_cases ha : fp.mant % 2 ^ s < 2 ^ (s - 1)
  · have h1' : ¬ (fp.mant % 2 ^ s > 2 ^ (s - 1)) := by omega
    have h2' : (fp.mant % 2 ^ s == 2 ^ (s - 1)) = false := by simp; omega
    have h3 : 2 * (2 * (fp.mant % 2 ^ s) + 1) < 2 ^ (s + 1) := by omega
    simp [h1', h2', h3]
  · have h3 : ¬ (2 * (2 * (fp.mant % 2 ^ s) + 1) < 2 ^ (s + 1)) := by omega
    have h4 : 2 ^ (s + 1) < 2 * (2 * (fp.mant % 2 ^ s) + 1) := by omega
    by_cases hb : fp.mant % 2 ^ s = 2 ^ (s - 1)
    · have h2' : (fp.mant % 2 ^ s == 2 ^ (s - 1)) = true := by simp [hb]
      simp [h2', h3, h4, u64_of_lt (show fp.mant / 2 ^ s + 1 < 2 ^ 64 by omega)]
    · have h1' : (fp.mant % 2 ^ s > 2 ^ (s - 1)) := by omega
      have h2' : (fp.mant % 2 ^ s == 2 ^ (s - 1)) = false := by simp [hb]
      simp [h1', h2', h3, h4, u64_of_lt (show fp.mant / 2 ^ s + 1 < 2 ^ 64 by omega)]

theorem bhRound_false_eq (fp : ExtFloat) (s : Nat) : bhRoundNearestTieEven false fp s = roundNearestTieEven fp s := by
  unfold bhRoundNearestTieEven roundNearestTieEven
  simp

theorem bhRound_algOk (t : Bool) : AlgOk (bhRoundNearestTieEven t) (gSticky t) := by
  cases t
  · refine ⟨fun fp s h1 hs hm => ?_, fun M s => ?_, fun M s => ?_⟩
    · rw [bhRound_false_eq]; exact roundNearestTieEven_eq fp s h1 hs hm
    · exact rne_ge_div M (2 ^ s)
    · exact rne_le_div_succ M (2 ^ s)
  · refine ⟨fun fp s h1 hs hm => ?_, fun M s => ?_, fun M s => ?_⟩
    · exact bhRound_true_eq fp s h1 hs hm
    · have := rne_ge_div (2 * M + 1) (2 ^ (s + 1)); rw [sticky_div] at this; exact this
    · have := rne_le_div_succ (2 * M + 1) (2 ^ (s + 1)); rw [sticky_div] at this; exact this

end SJ.Proofs.LexRound
