import SJ.Proofs.ReadSlice
import SJ.Proofs.ReadIo
/-!
# The two readers' `parse_str` / `ignore_str` as observed by a caller, against the machine

`Obs` is what `de.rs` sees of a call: the decoded bytes and the index behind the closing quote, or the error code
and the index `read.position()` counts. `machStrObs` / `machIgnObs` are the machine's side: iterated `stepStr`
(`strRun`) and `endStr`. This file instantiates the loop theorems of `Proofs/ReadSlice.lean` / `Proofs/ReadIo.lean`
at the entry points, and adds the machine facts the property theorems of `Props/C09Readers.lean` combine them with
(source independence of `strRun`, UTF-8 at the closing quote on valid input, the `escaped` flag).
-/
namespace SJ.Proofs.ReadTop
open SJ SJ.Gen SJ.Model.Machine SJ.Model.LineCol SJ.Model.ReadEscape SJ.Proofs.ReadMach SJ.Proofs.ReadEscape
open SJ.Model.ReadSlice (Reference SliceRead)
open SJ.Model.ReadIo (IoRead)

/-- what a caller of `parse_str` / `ignore_str` observes: the decoded bytes and the index behind the closing
    quote, or the error code and the index `read.position()` counts -/
inductive Obs where
  | ok (bytes : Bytes) (j : Nat)
  | err (c : Code) (j : Nat)
  | fuel
deriving Repr, DecidableEq

/-- `SliceRead`: `index` is both the next byte's index and what `position()` = `position_of_index(index)` counts -/
def sliceObs : Res Reference SliceRead → Obs
  | .ok ref r => .ok ref.bytes r.index
  | .err c r => .err c r.index
  | .fuel => .fuel

def sliceObsU : Res Unit SliceRead → Obs
  | .ok _ r => .ok [] r.index
  | .err c r => .err c r.index
  | .fuel => .fuel

/-- `IoRead`: `iter.byte_offset()` = bytes pulled; it is what `position()` = `(iter.line(), iter.col())` counts -/
def ioObs : Res Reference IoRead → Obs
  | .ok ref r => .ok ref.bytes r.iter.byteOffset
  | .err c r => .err c r.iter.byteOffset
  | .fuel => .fuel

def ioObsU : Res Unit IoRead → Obs
  | .ok _ r => .ok [] r.iter.byteOffset
  | .err c r => .err c r.iter.byteOffset
  | .fuel => .fuel

/-- the machine on a string literal, from the byte after the opening quote (index `i`): iterated `stepStr`
    (`strRun`), then `endStr` at the closing quote -/
def machStrObs (env : Env) (stk : List Frame) (isKey : Bool) (i : Nat) (xs : Bytes) : Obs :=
  match strRun env stk { isKey := isKey } i xs with
  | .closed st j _ =>
    match endStr env { mode := .str st, stack := stk } st with
    | .err c a => .err c (errIdx env a (j - 1))
    | _ => .ok st.out.reverse j
  | .err c j => .err c j

/-- the same for skipped content, where the decoded bytes are not observable -/
def machIgnObs (env : Env) (stk : List Frame) (isKey : Bool) (i : Nat) (xs : Bytes) : Obs :=
  match strRun env stk { isKey := isKey } i xs with
  | .closed st j _ =>
    match endStr env { mode := .str st, stack := stk } st with
    | .err c a => .err c (errIdx env a (j - 1))
    | _ => .ok [] j
  | .err c j => .err c j

/-- the machine's shape invariant as far as strings are concerned: a key is read inside an object -/
def KeyOK (stk : List Frame) (isKey : Bool) : Prop := isKey = true → ∃ ms k fs, stk = .obj ms k :: fs

theorem stepStr_keeps (env : Env) (stk : List Frame) (st : StrSt) (b : UInt8) (st1 : StrSt)
    (hc : isClose st b = false)
    (h1 : stepStr env { mode := .str st, stack := stk } st b = .next { mode := .str st1, stack := stk }) :
    st1.isKey = st.isKey ∧ (st.escaped = true → st1.escaped = true) := by
  obtain ⟨out, esc, isKey, escaped⟩ := st
  cases esc with
  | none =>
    simp [isClose] at hc
    simp only [stepStr, beq_iff_eq, hc, if_false] at h1
    repeat' split at h1
    all_goals first
      | (simp only [Step.next.injEq, St.mk.injEq, Mode.str.injEq, and_true] at h1; subst h1; exact ⟨rfl, by simp⟩)
      | (simp at h1; done)
  | bs =>
    simp only [stepStr] at h1
    repeat' split at h1
    all_goals first
      | (simp only [Step.next.injEq, St.mk.injEq, Mode.str.injEq, and_true] at h1; subst h1; exact ⟨rfl, by simp⟩)
      | (simp at h1; done)
  | hex acc lead =>
    simp only [stepStr] at h1
    repeat' split at h1
    all_goals first
      | (simp only [Step.next.injEq, St.mk.injEq, Mode.str.injEq, and_true] at h1; subst h1; exact ⟨rfl, by simp⟩)
      | (simp at h1; done)
  | lead1 n1 =>
    simp only [stepStr] at h1
    repeat' split at h1
    all_goals first
      | (simp only [Step.next.injEq, St.mk.injEq, Mode.str.injEq, and_true] at h1; subst h1; exact ⟨rfl, by simp⟩)
      | (simp at h1; done)
  | lead2 n1 =>
    simp only [stepStr] at h1
    repeat' split at h1
    all_goals first
      | (simp only [Step.next.injEq, St.mk.injEq, Mode.str.injEq, and_true] at h1; subst h1; exact ⟨rfl, by simp⟩)
      | (simp at h1; done)

/-- induction principle in disguise: a property of `(st, i)` that is kept by every non-closing step holds at the
    closing quote -/
theorem strRun_closed_inv (env : Env) (stk : List Frame) (P : StrSt → Prop)
    (hP : ∀ st b st1, isClose st b = false → P st →
      stepStr env { mode := .str st, stack := stk } st b = .next { mode := .str st1, stack := stk } → P st1) :
    ∀ (xs : Bytes) (st : StrSt) (i : Nat) (st' : StrSt) (j : Nat) (rest : Bytes), P st →
      strRun env stk st i xs = .closed st' j rest → P st' ∧ i < j := by
  intro xs
  induction xs with
  | nil => intro st i st' j rest _ h; simp [strRun] at h
  | cons b bs ih =>
    intro st i st' j rest hp h
    simp only [strRun] at h
    cases hc : isClose st b with
    | true =>
      simp only [hc, if_true, StrRes.closed.injEq] at h
      obtain ⟨rfl, rfl, _⟩ := h
      exact ⟨hp, Nat.lt_succ_self _⟩
    | false =>
      simp only [hc, Bool.false_eq_true, if_false] at h
      rcases stepStr_open env stk st b hc with ⟨st1, h1⟩ | ⟨c, h1⟩
      · rw [h1] at h; simp only at h
        obtain ⟨h2, h3⟩ := ih st1 (i + 1) st' j rest (hP st b st1 hc hp h1) h
        exact ⟨h2, by omega⟩
      · rw [h1] at h; simp at h

theorem strRun_isKey (env : Env) (stk : List Frame) (xs : Bytes) (st : StrSt) (i : Nat) (st' : StrSt) (j : Nat)
    (rest : Bytes) (h : strRun env stk st i xs = .closed st' j rest) : st'.isKey = st.isKey ∧ i < j :=
  strRun_closed_inv env stk (fun s => s.isKey = st.isKey)
    (fun s b s1 hc hp h1 => (stepStr_keeps env stk s b s1 hc h1).1.trans hp) xs st i st' j rest rfl h

theorem strRun_escaped_mono (env : Env) (stk : List Frame) (xs : Bytes) (st : StrSt) (i : Nat) (st' : StrSt) (j : Nat)
    (rest : Bytes) (he : st.escaped = true) (h : strRun env stk st i xs = .closed st' j rest) : st'.escaped = true :=
  (strRun_closed_inv env stk (fun s => s.escaped = true)
    (fun s b s1 hc hp h1 => (stepStr_keeps env stk s b s1 hc h1).2 hp) xs st i st' j rest he h).1

/-- `endStr` under the shape invariant: the UTF-8 check of byte sources is its only failure -/
theorem endStr_obs (env : Env) (stk : List Frame) (st : StrSt) (hk : KeyOK stk st.isKey) (j : Nat) (hj : 0 < j)
    (okv : Obs) :
    (match endStr env { mode := .str st, stack := stk } st with
      | .err c a => Obs.err c (errIdx env a (j - 1))
      | _ => okv) =
    if env.tgt = .value && env.src != .str && !Spec.Utf8.validUtf8 st.out.reverse then .err .InvalidUnicodeCodePoint j
    else okv := by
  unfold endStr
  simp only
  by_cases h1 : (decide (env.tgt = .value) && env.src != .str && !Spec.Utf8.validUtf8 st.out.reverse) = true
  · simp only [h1, if_true, errIdx_incl]
    congr 1; omega
  · simp only [h1, Bool.false_eq_true, if_false]
    cases hkey : st.isKey with
    | false => simp
    | true =>
      obtain ⟨ms, k, fs, rfl⟩ := hk hkey
      simp

theorem sub_self (bs : Bytes) (i : Nat) : Model.ReadSlice.sub bs i i = [] := by
  simp [Model.ReadSlice.sub]

/-- **the slice reader's `parse_str`-family refines the machine's string steps** (any `result` closure that
    answers like `as_str` / the unchecked closures: the bytes unchanged, or an error at the reader it is given) -/
theorem slice_parseStrBytes_obs (cfg : Cfg) (src : Src) (stk : List Frame) (isKey : Bool) (bs : Bytes) (i : Nat)
    (hi : i ≤ bs.length) (result : SliceRead → Bytes → Res Bytes SliceRead) :
    ∃ st' : Option (StrSt × Nat),
      (match st' with
        | some (st', j) => strRun ⟨cfg, src, .value⟩ stk { isKey := isKey } i (bs.drop i) = .closed st' j (bs.drop j) ∧
            j ≤ bs.length ∧
            Model.ReadSlice.parseStrBytes true result ⟨bs, i⟩ = ReadSlice.wrap st'.escaped (result ⟨bs, j⟩ st'.out.reverse)
        | none => ∃ c j, strRun ⟨cfg, src, .value⟩ stk { isKey := isKey } i (bs.drop i) = .err c j ∧ j ≤ bs.length ∧
            Model.ReadSlice.parseStrBytes true result ⟨bs, i⟩ = .err c ⟨bs, j⟩) := by
  have h := ReadSlice.parseStrLoop_validate bs ⟨cfg, src, .value⟩ rfl stk result (Model.ReadSlice.fuelFor ⟨bs, i⟩) i [] i
    { isKey := isKey } hi (Nat.le_refl _) rfl (by simp [sub_self]) rfl (by simp [Model.ReadSlice.fuelFor])
  unfold Model.ReadSlice.parseStrBytes
  cases hr : strRun ⟨cfg, src, .value⟩ stk { isKey := isKey } i (bs.drop i) with
  | closed st' j rest =>
    rw [hr] at h
    obtain ⟨r', hA, hres⟩ := h
    have hr' := hA.eq; subst hr'
    obtain ⟨_, _, hj, hx, _⟩ := hA
    subst hx
    exact ⟨some (st', j), rfl, hj, hres⟩
  | err c j =>
    rw [hr] at h
    obtain ⟨r', xs', hres, hA⟩ := h
    have hr' := hA.eq; subst hr'
    exact ⟨none, c, j, rfl, hA.2.2.1, hres⟩

theorem sliceObs_wrap_asStr (esc : Bool) (bs bytes : Bytes) (j : Nat) :
    sliceObs (ReadSlice.wrap esc (Model.ReadSlice.asStr (⟨bs, j⟩ : SliceRead) bytes)) =
      if Spec.Utf8.validUtf8 bytes then .ok bytes j else .err .InvalidUnicodeCodePoint j := by
  unfold Model.ReadSlice.asStr
  cases Spec.Utf8.validUtf8 bytes <;> cases esc <;> rfl

theorem sliceObs_wrap_noCheck (esc : Bool) (bs bytes : Bytes) (j : Nat) :
    sliceObs (ReadSlice.wrap esc (Model.ReadSlice.noCheck (⟨bs, j⟩ : SliceRead) bytes)) = .ok bytes j := by
  cases esc <;> rfl

/-- `SliceRead::parse_str` = the machine's string steps with `src = .slice` -/
theorem slice_str_refines (cfg : Cfg) (stk : List Frame) (isKey : Bool) (hk : KeyOK stk isKey) (bs : Bytes) (i : Nat)
    (hi : i ≤ bs.length) :
    sliceObs (Model.ReadSlice.parseStr ⟨bs, i⟩) = machStrObs ⟨cfg, .slice, .value⟩ stk isKey i (bs.drop i) := by
  obtain ⟨o, h⟩ := slice_parseStrBytes_obs cfg .slice stk isKey bs i hi Model.ReadSlice.asStr
  unfold machStrObs Model.ReadSlice.parseStr
  match o, h with
  | some (st', j), ⟨h1, _, h3⟩ =>
    obtain ⟨hkey, hij⟩ := strRun_isKey _ _ _ _ _ _ _ _ h1
    rw [h1, h3]; simp only
    rw [endStr_obs _ stk st' (by rw [hkey]; exact hk) j (by omega), sliceObs_wrap_asStr]
    cases Spec.Utf8.validUtf8 st'.out.reverse <;> simp
  | none, ⟨c, j, h1, _, h2⟩ =>
    rw [h1, h2]; simp [sliceObs]

/-- `StrRead::parse_str` = the machine's string steps with `src = .str` (no UTF-8 check on either side) -/
theorem strread_str_refines (cfg : Cfg) (stk : List Frame) (isKey : Bool) (hk : KeyOK stk isKey) (bs : Bytes) (i : Nat)
    (hi : i ≤ bs.length) :
    sliceObs (Model.ReadSlice.strParseStr ⟨bs, i⟩) = machStrObs ⟨cfg, .str, .value⟩ stk isKey i (bs.drop i) := by
  obtain ⟨o, h⟩ := slice_parseStrBytes_obs cfg .str stk isKey bs i hi Model.ReadSlice.noCheck
  unfold machStrObs Model.ReadSlice.strParseStr
  match o, h with
  | some (st', j), ⟨h1, _, h3⟩ =>
    obtain ⟨hkey, hij⟩ := strRun_isKey _ _ _ _ _ _ _ _ h1
    rw [h1, h3]; simp only
    rw [endStr_obs _ stk st' (by rw [hkey]; exact hk) j (by omega), sliceObs_wrap_noCheck]
    simp
  | none, ⟨c, j, h1, _, h2⟩ =>
    rw [h1, h2]; simp [sliceObs]

/-! ## the reader -/

theorem io_at (bs : Bytes) (i : Nat) (hi : i ≤ bs.length) : ReadIo.A bs (IoPos.at bs i false) (bs.drop i) i false :=
  ReadIo.A.of_clean (Proofs.LineCol.inv_at bs i false hi) rfl

theorem io_eq_at {bs : Bytes} {r : IoRead} {xs : Bytes} {j : Nat} (h : ReadIo.A bs r xs j false) :
    r = IoPos.at bs j false ∧ j ≤ bs.length ∧ xs = bs.drop j := by
  obtain ⟨hi, hc, _, hx⟩ := h.clean
  refine ⟨?_, hi.le, hx⟩
  obtain ⟨it, ch, rest⟩ := r
  simp only at hc; subst hc
  simp only [IoPos.at, Bool.false_eq_true, if_false, IoPos.mk.injEq, true_and]
  exact ⟨hi.iter, hi.rest⟩

theorem io_parseStrBytes_obs (cfg : Cfg) (stk : List Frame) (isKey : Bool) (bs : Bytes) (i : Nat)
    (hi : i ≤ bs.length) (result : IoRead → Bytes → Res Bytes IoRead) :
    ∃ st' : Option (StrSt × Nat),
      (match st' with
        | some (st', j) => strRun ⟨cfg, .reader, .value⟩ stk { isKey := isKey } i (bs.drop i) = .closed st' j (bs.drop j) ∧
            j ≤ bs.length ∧
            Model.ReadIo.parseStrBytes true result (IoPos.at bs i false) = result (IoPos.at bs j false) st'.out.reverse
        | none => ∃ c j, strRun ⟨cfg, .reader, .value⟩ stk { isKey := isKey } i (bs.drop i) = .err c j ∧ j ≤ bs.length ∧
            Model.ReadIo.parseStrBytes true result (IoPos.at bs i false) = .err c (IoPos.at bs j false)) := by
  have hA := io_at bs i hi
  have h := ReadIo.parseStrLoop_validate bs ⟨cfg, .reader, .value⟩ rfl stk result
    (Model.ReadIo.fuelFor (IoPos.at bs i false)) _ _ i false { isKey := isKey } hA rfl
    (by simp [Model.ReadIo.fuelFor, Model.ReadIo.IoPos.pending, IoPos.at])
  unfold Model.ReadIo.parseStrBytes
  cases hr : strRun ⟨cfg, .reader, .value⟩ stk { isKey := isKey } i (bs.drop i) with
  | closed st' j rest =>
    rw [hr] at h
    obtain ⟨r', hA', hres⟩ := h
    obtain ⟨rfl, hj, rfl⟩ := io_eq_at hA'
    exact ⟨some (st', j), rfl, hj, hres⟩
  | err c j =>
    rw [hr] at h
    obtain ⟨r', xs', hres, hA'⟩ := h
    obtain ⟨rfl, hj, _⟩ := io_eq_at hA'
    exact ⟨none, c, j, rfl, hj, hres⟩

theorem at_byteOffset (bs : Bytes) (j : Nat) (hj : j ≤ bs.length) : (IoPos.at bs j false).iter.byteOffset = j :=
  (Proofs.LineCol.feed_lineCol bs j hj).2

/-- `IoRead::parse_str` = the machine's string steps with `src = .reader` -/
theorem io_str_refines (cfg : Cfg) (stk : List Frame) (isKey : Bool) (hk : KeyOK stk isKey) (bs : Bytes) (i : Nat)
    (hi : i ≤ bs.length) :
    ioObs (Model.ReadIo.parseStr (IoPos.at bs i false)) = machStrObs ⟨cfg, .reader, .value⟩ stk isKey i (bs.drop i) := by
  obtain ⟨o, h⟩ := io_parseStrBytes_obs cfg stk isKey bs i hi Model.ReadSlice.asStr
  unfold machStrObs Model.ReadIo.parseStr
  match o, h with
  | some (st', j), ⟨h1, hj, h3⟩ =>
    obtain ⟨hkey, hij⟩ := strRun_isKey _ _ _ _ _ _ _ _ h1
    rw [h1, h3]; simp only
    rw [endStr_obs _ stk st' (by rw [hkey]; exact hk) j (by omega)]
    unfold Model.ReadSlice.asStr
    cases Spec.Utf8.validUtf8 st'.out.reverse <;> simp [ioObs, at_byteOffset bs j hj, Reference.bytes]
  | none, ⟨c, j, h1, hj, h2⟩ =>
    rw [h1, h2]; simp [ioObs, at_byteOffset bs j hj]

/-! ## `ignore_str` -/

theorem slice_ignore_refines (cfg : Cfg) (stk : List Frame) (isKey : Bool) (hk : KeyOK stk isKey) (bs : Bytes) (i : Nat)
    (hi : i ≤ bs.length) :
    sliceObsU (Model.ReadSlice.ignoreStr ⟨bs, i⟩) = machIgnObs ⟨cfg, .slice, .ignored⟩ stk isKey i (bs.drop i) := by
  have h := ReadSlice.ignoreStrLoop_spec bs ⟨cfg, .slice, .ignored⟩ rfl stk (Model.ReadSlice.fuelFor ⟨bs, i⟩) i
    { isKey := isKey } hi rfl (by simp [Model.ReadSlice.fuelFor])
  unfold machIgnObs Model.ReadSlice.ignoreStr
  cases hr : strRun ⟨cfg, .slice, .ignored⟩ stk { isKey := isKey } i (bs.drop i) with
  | closed st' j rest =>
    rw [hr] at h
    obtain ⟨r', hA, hres⟩ := h
    have hr' := hA.eq; subst hr'
    obtain ⟨hkey, hij⟩ := strRun_isKey _ _ _ _ _ _ _ _ hr
    simp only
    rw [endStr_obs _ stk st' (by rw [hkey]; exact hk) j (by omega), hres]
    simp [sliceObsU]
  | err c j =>
    rw [hr] at h
    obtain ⟨r', xs', hres, hA⟩ := h
    have hr' := hA.eq; subst hr'
    rw [hres]; rfl

theorem io_ignore_refines (cfg : Cfg) (stk : List Frame) (isKey : Bool) (hk : KeyOK stk isKey) (bs : Bytes) (i : Nat)
    (hi : i ≤ bs.length) :
    ioObsU (Model.ReadIo.ignoreStr (IoPos.at bs i false)) = machIgnObs ⟨cfg, .reader, .ignored⟩ stk isKey i (bs.drop i) ∧
    (∀ r', Model.ReadIo.ignoreStr (IoPos.at bs i false) = .ok () r' → ∃ j, j ≤ bs.length ∧ r' = IoPos.at bs j false) ∧
    (∀ c r', Model.ReadIo.ignoreStr (IoPos.at bs i false) = .err c r' → ∃ j, j ≤ bs.length ∧ r' = IoPos.at bs j false) := by
  have hA := io_at bs i hi
  have h := ReadIo.ignoreStrLoop_spec bs ⟨cfg, .reader, .ignored⟩ rfl stk
    (Model.ReadIo.fuelFor (IoPos.at bs i false)) _ _ i false { isKey := isKey } hA rfl
    (by simp [Model.ReadIo.fuelFor, Model.ReadIo.IoPos.pending, IoPos.at])
  unfold machIgnObs Model.ReadIo.ignoreStr
  cases hr : strRun ⟨cfg, .reader, .ignored⟩ stk { isKey := isKey } i (bs.drop i) with
  | closed st' j rest =>
    rw [hr] at h
    obtain ⟨r', hA', hres⟩ := h
    obtain ⟨rfl, hj, rfl⟩ := io_eq_at hA'
    obtain ⟨hkey, hij⟩ := strRun_isKey _ _ _ _ _ _ _ _ hr
    simp only
    rw [endStr_obs _ stk st' (by rw [hkey]; exact hk) j (by omega), hres]
    refine ⟨by simp [ioObsU, at_byteOffset bs j hj], fun r' h' => ?_, fun c r' h' => by simp at h'⟩
    simp only [Res.ok.injEq, true_and] at h'
    exact ⟨j, hj, h'.symm⟩
  | err c j =>
    rw [hr] at h
    obtain ⟨r', xs', hres, hA'⟩ := h
    obtain ⟨rfl, hj, _⟩ := io_eq_at hA'
    rw [hres]
    refine ⟨by simp [ioObsU, at_byteOffset bs j hj], fun r' h' => by simp at h', fun c' r' h' => ?_⟩
    simp only [Res.err.injEq] at h'
    exact ⟨j, hj, h'.2.symm⟩

/-! ## the machine treats the two byte sources alike on strings; `&str` on valid UTF-8 -/

theorem endStr_slice_reader (cfg : Cfg) (tgt : Tgt) (s : St) (st : StrSt) :
    endStr ⟨cfg, .slice, tgt⟩ s st = endStr ⟨cfg, .reader, tgt⟩ s st := by
  have h1 : (Src.slice != Src.str) = true := rfl
  have h2 : (Src.reader != Src.str) = true := rfl
  unfold endStr
  simp only [h1, h2]

theorem machStrObs_slice_reader (cfg : Cfg) (tgt : Tgt) (stk : List Frame) (isKey : Bool) (i : Nat) (xs : Bytes) :
    machStrObs ⟨cfg, .slice, tgt⟩ stk isKey i xs = machStrObs ⟨cfg, .reader, tgt⟩ stk isKey i xs := by
  unfold machStrObs
  rw [strRun_src ⟨cfg, .slice, tgt⟩ ⟨cfg, .reader, tgt⟩ rfl]
  cases strRun ⟨cfg, .reader, tgt⟩ stk { isKey := isKey } i xs with
  | closed st j rest =>
    simp only [endStr_slice_reader]
    cases he : endStr ⟨cfg, .reader, tgt⟩ { mode := .str st, stack := stk } st with
    | next s' => rfl
    | again s' => rfl
    | err c a =>
      obtain rfl := (Proofs.Machine.endStr_err _ _ _ _ _ he).1
      simp [errIdx_incl]
  | err c j => rfl

theorem machIgnObs_slice_reader (cfg : Cfg) (tgt : Tgt) (stk : List Frame) (isKey : Bool) (i : Nat) (xs : Bytes) :
    machIgnObs ⟨cfg, .slice, tgt⟩ stk isKey i xs = machIgnObs ⟨cfg, .reader, tgt⟩ stk isKey i xs := by
  unfold machIgnObs
  rw [strRun_src ⟨cfg, .slice, tgt⟩ ⟨cfg, .reader, tgt⟩ rfl]
  cases strRun ⟨cfg, .reader, tgt⟩ stk { isKey := isKey } i xs with
  | closed st j rest =>
    simp only [endStr_slice_reader]
    cases he : endStr ⟨cfg, .reader, tgt⟩ { mode := .str st, stack := stk } st with
    | next s' => rfl
    | again s' => rfl
    | err c a =>
      obtain rfl := (Proofs.Machine.endStr_err _ _ _ _ _ he).1
      simp [errIdx_incl]
  | err c j => rfl

/-- on valid UTF-8 input the decoded bytes at the closing quote are valid UTF-8 -/
theorem strRun_closed_utf8 (env : Env) (stk : List Frame) : ∀ (xs : Bytes) (st : StrSt) (i : Nat) (st' : StrSt) (j : Nat)
    (rest : Bytes), Proofs.Utf8.UInv { mode := .str st, stack := stk } xs →
    strRun env stk st i xs = .closed st' j rest → Spec.Utf8.validUtf8 st'.out.reverse = true := by
  intro xs
  induction xs with
  | nil => intro st i st' j rest _ h; simp [strRun] at h
  | cons b bs ih =>
    intro st i st' j rest hu h
    simp only [strRun] at h
    cases hc : isClose st b with
    | true =>
      simp only [hc, if_true, StrRes.closed.injEq] at h
      obtain ⟨rfl, rfl, _⟩ := h
      obtain ⟨out, esc, isKey, escaped⟩ := st
      cases esc <;> simp [isClose] at hc
      subst hc
      simp only [Proofs.Utf8.UInv] at hu
      exact (Proofs.Utf8.validUtf8_ascii_split (a := out.reverse) Proofs.Utf8.quote_ascii (by simpa using hu)).1
    | false =>
      simp only [hc, Bool.false_eq_true, if_false] at h
      have hstep := Proofs.Utf8.stepStr_uinv env { mode := .str st, stack := stk } st b bs rfl hu
      rcases stepStr_open env stk st b hc with ⟨st1, h1⟩ | ⟨c, h1⟩
      · rw [h1] at h hstep; simp only at h
        exact ih st1 (i + 1) st' j rest hstep h
      · rw [h1] at h; simp at h

/-- `&str` = slice: on valid UTF-8 input `StrRead::parse_str` and `SliceRead::parse_str` return the same -/
theorem strread_eq_slice (bs : Bytes) (i : Nat) (hi : i ≤ bs.length) (hu : Spec.Utf8.validUtf8 (bs.drop i) = true) :
    Model.ReadSlice.strParseStr ⟨bs, i⟩ = Model.ReadSlice.parseStr ⟨bs, i⟩ := by
  obtain ⟨o, h⟩ := slice_parseStrBytes_obs {} .slice [] false bs i hi Model.ReadSlice.asStr
  obtain ⟨o', h'⟩ := slice_parseStrBytes_obs {} .slice [] false bs i hi Model.ReadSlice.noCheck
  unfold Model.ReadSlice.strParseStr Model.ReadSlice.parseStr
  match o, h, o', h' with
  | some (st', j), ⟨h1, _, h3⟩, some (st2, j2), ⟨h1', _, h3'⟩ =>
    rw [h1] at h1'
    simp only [StrRes.closed.injEq] at h1'
    obtain ⟨rfl, rfl, _⟩ := h1'
    have hv := strRun_closed_utf8 _ [] _ _ _ _ _ _ (by simpa [Proofs.Utf8.UInv] using hu) h1
    rw [h3, h3']
    simp [Model.ReadSlice.asStr, Model.ReadSlice.noCheck, hv]
  | some (st', j), ⟨h1, _, _⟩, none, ⟨c, j2, h1', _⟩ => rw [h1] at h1'; cases h1'
  | none, ⟨c, j, h1, _⟩, some (st2, j2), ⟨h1', _⟩ => rw [h1] at h1'; cases h1'
  | none, ⟨c, j, h1, _, h2⟩, none, ⟨c2, j2, h1', _, h2'⟩ =>
    rw [h1] at h1'
    simp only [StrRes.err.injEq] at h1'
    obtain ⟨rfl, rfl⟩ := h1'
    rw [h2, h2']

/-! ## borrowed vs copied -/

/-- a literal that closes is `body ++ '"' :: rest` -/
theorem strRun_closed_shape (env : Env) (stk : List Frame) : ∀ (xs : Bytes) (st : StrSt) (i : Nat) (st' : StrSt) (j : Nat)
    (rest : Bytes), strRun env stk st i xs = .closed st' j rest →
    ∃ body, xs = body ++ 0x22 :: rest ∧ j = i + body.length + 1 := by
  intro xs
  induction xs with
  | nil => intro st i st' j rest h; simp [strRun] at h
  | cons b bs ih =>
    intro st i st' j rest h
    simp only [strRun] at h
    cases hc : isClose st b with
    | true =>
      simp only [hc, if_true, StrRes.closed.injEq] at h
      obtain ⟨_, rfl, rfl⟩ := h
      have : b = 0x22 := by simp [isClose] at hc; exact hc.2
      exact ⟨[], by simp [this], rfl⟩
    | false =>
      simp only [hc, Bool.false_eq_true, if_false] at h
      rcases stepStr_open env stk st b hc with ⟨st1, h1⟩ | ⟨c, h1⟩
      · rw [h1] at h; simp only at h
        obtain ⟨body, rfl, rfl⟩ := ih st1 (i + 1) st' j rest h
        exact ⟨b :: body, rfl, by simp; omega⟩
      · rw [h1] at h; simp at h

/-- the machine's `escaped` flag at the closing quote says whether the body holds a backslash; without one the
    decoded bytes are the body -/
theorem strRun_escaped (env : Env) (stk : List Frame) : ∀ (xs : Bytes) (st : StrSt) (i : Nat) (st' : StrSt) (j : Nat)
    (rest : Bytes), st.esc = .none → st.escaped = false → strRun env stk st i xs = .closed st' j rest →
    ∃ body, xs = body ++ 0x22 :: rest ∧ j = i + body.length + 1 ∧ (st'.escaped = true ↔ (0x5c : UInt8) ∈ body) ∧
      (st'.escaped = false → st'.out = body.reverse ++ st.out) := by
  intro xs
  induction xs with
  | nil => intro st i st' j rest _ _ h; simp [strRun] at h
  | cons b bs ih =>
    intro st i st' j rest hst hesc h
    by_cases hq : b = 0x22
    · subst hq
      rw [strRun_quote env stk st hst] at h
      simp only [StrRes.closed.injEq] at h
      obtain ⟨rfl, rfl, rfl⟩ := h
      exact ⟨[], rfl, rfl, by simp [hesc], fun _ => rfl⟩
    · by_cases hb : b = 0x5c
      · subst hb
        rw [strRun_backslash env stk st hst] at h
        have he := strRun_escaped_mono env stk _ _ _ _ _ _ rfl h
        obtain ⟨body, rfl, rfl⟩ := strRun_closed_shape env stk _ _ _ _ _ _ h
        exact ⟨0x5c :: body, rfl, by simp; omega, by simp [he], fun h' => by rw [he] at h'; cases h'⟩
      · by_cases hc : b < 0x20
        · rw [strRun_ctrl env stk st hst i b bs hq hb hc] at h; cases h
        · rw [strRun_plain env stk st hst i b bs hq hb hc] at h
          obtain ⟨body, rfl, rfl, h1, h2⟩ := ih { st with out := b :: st.out } (i + 1) st' j rest hst hesc h
          refine ⟨b :: body, rfl, by simp; omega, ?_, fun h' => by simp [h2 h']⟩
          rw [h1]; simp only [List.mem_cons]
          exact ⟨fun h => .inr h, fun h => h.resolve_left (fun h' => hb h'.symm)⟩

/-- **C05 (borrowed).** When `SliceRead::parse_str` succeeds the input from the opening quote on is
    `body ++ '"' :: rest` with the reader left right behind that quote; the result is `Reference::Borrowed`
    exactly when `body` holds no backslash, and then the borrowed bytes are `body` — the subslice between the
    quotes -/
theorem slice_borrowed (bs : Bytes) (i : Nat) (hi : i ≤ bs.length) (ref : Reference) (r' : SliceRead)
    (h : Model.ReadSlice.parseStr ⟨bs, i⟩ = .ok ref r') :
    ∃ body, bs.drop i = body ++ 0x22 :: bs.drop r'.index ∧ r' = ⟨bs, i + body.length + 1⟩ ∧
      (ref.isBorrowed = true ↔ (0x5c : UInt8) ∉ body) ∧ (ref.isBorrowed = true → ref.bytes = body) := by
  obtain ⟨o, ho⟩ := slice_parseStrBytes_obs {} .slice [] false bs i hi Model.ReadSlice.asStr
  unfold Model.ReadSlice.parseStr at h
  match o, ho with
  | none, ⟨c, j, _, _, h2⟩ => rw [h2] at h; cases h
  | some (st', j), ⟨h1, hj, h3⟩ =>
    rw [h3] at h
    obtain ⟨body, hx, rfl, hes, hout⟩ := strRun_escaped _ _ _ _ _ _ _ _ rfl rfl h1
    unfold Model.ReadSlice.asStr at h
    cases hv : Spec.Utf8.validUtf8 st'.out.reverse with
    | false => rw [hv] at h; simp [ReadSlice.wrap] at h
    | true =>
      rw [hv] at h
      simp only [if_true, ReadSlice.wrap, Res.ok.injEq] at h
      obtain ⟨rfl, rfl⟩ := h
      refine ⟨body, hx, rfl, ?_, ?_⟩
      · cases he : st'.escaped with
        | false => simp [Reference.isBorrowed, ← hes, he]
        | true => simp [Reference.isBorrowed, ← hes, he]
      · cases he : st'.escaped with
        | false => intro _; simp [Reference.bytes, hout he]
        | true => simp [Reference.isBorrowed]

end SJ.Proofs.ReadTop
