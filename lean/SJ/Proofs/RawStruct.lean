import SJ.Proofs.RawStructElem
import SJ.Proofs.TypedAgreeEnum
/-!
# C19 helper lemmas: a struct whose fields are `Box<RawValue>` / `Option<Box<RawValue>>`

The input of derive's `visit_map` is an object text; with raw fields only (`RawOnly`) EVERY member's value — a known
field's, captured; an unknown field's, skipped by the same scanner — is one grammar value, so the text decomposes
exactly like the map of `SJ/Proofs/RawMap.lean`: `MInner inner ms` with `ms : List Mem` (key items, decoded key, value
text). What the visitor makes of the members is the pure function `assign` (first match of the name in `FIELDS`, a
second member for a filled slot is `duplicate_field`, an unknown name is skipped or — `deny_unknown_fields` — refused),
followed by `finishSlots` (`missing_field`).

* `fieldLoop_sound` / `fieldLoop_inner`: the loop succeeds exactly on such texts, with `assign`'s slots;
* `rawStructTop_sound` / `rawStructTop_complete`: the whole document (object form).
-/
namespace SJ.Proofs.RawStruct
open SJ SJ.Gen SJ.Model.Machine SJ.Model.Stream SJ.Proofs.Machine SJ.Proofs.Complete SJ.Proofs.StreamValues
open SJ.Spec.Grammar (CST StrItem Ws Derives JsonText StrWF strBytes)
open SJ.Model.Typed
open SJ.Model.FromValue (nameIndex)
open SJ.Model.RawNested SJ.Model.RawStruct SJ.Proofs.RawSpan SJ.Proofs.RawNested SJ.Proofs.RawKey SJ.Proofs.RawMap
open SJ.Proofs.Typed (bind_ok)

/-- every field is `Box<RawValue>` or `Option<Box<RawValue>>` -/
def RawOnly (fs : List (Bytes × FieldTy)) : Prop := ∀ f ∈ fs, f.2 = .raw ∨ f.2 = .optRaw

/-- what one member must be for the struct to take it: the key a string of the target; the value one grammar value;
    valid UTF-8 on byte sources when it is captured (the key names a field) — a skipped value is not checked -/
def FieldOK (env : SJ.Model.Typed.Env) (fs : List (Bytes × FieldTy)) (m : Mem) : Prop :=
  KeyOK env m.1 m.2.1 ∧ (∃ t, Derives m.2.2 t) ∧
    ((nameIndex (names fs) m.2.1).isSome = true → env.src ≠ .str → Spec.Utf8.validUtf8 m.2.2 = true)

/-- derive's `visit_map` on one member, given the slots filled so far (`none` = the visitor's error) -/
def assign1 (fs : List (Bytes × FieldTy)) (deny : Bool) (slots : List (Option TVal)) (m : Mem) : Option (List (Option TVal)) :=
  match nameIndex (names fs) m.2.1 with
  | some i =>
    match slots.getD i none with
    | some _ => none                                          -- duplicate_field
    | none =>
      match fs[i]? with
      | some (_, .raw) => some (slots.set i (some (.str m.2.2)))
      | some (_, .optRaw) => some (slots.set i (some (optVal m.2.2)))
      | _ => none
  | none => if deny then none else some slots                -- unknown_field / skipped

def assign (fs : List (Bytes × FieldTy)) (deny : Bool) : List Mem → List (Option TVal) → Option (List (Option TVal))
  | [], slots => some slots
  | m :: ms, slots => (assign1 fs deny slots m).bind (assign fs deny ms)

theorem fieldLoop_unfold (env : SJ.Model.Typed.Env) (t : Nat) (fs : List (Bytes × FieldTy)) (deny : Bool) (n : Nat) (first : Bool)
    (slots : List (Option TVal)) (rest : Bytes) (pos : Nat) :
    fieldLoop env t fs deny (n + 1) first slots rest pos =
      (hasNextKey env first rest pos).bind fun more r p =>
        if !more then .ok slots r p
        else
          (parseStr env (r.drop 1) (p + 1)).bind fun name r1 p1 =>
            match nameIndex (names fs) name with
            | some i =>
              (match slots.getD i none with
               | some _ => .raw r1 p1
               | none =>
                 (parseObjectColon env r1 p1).bind fun _ r2 p2 =>
                   match fs[i]? with
                   | some (_, ty) =>
                     (deField env t ty r2 p2).bind fun v r3 p3 => fieldLoop env t fs deny n false (slots.set i (some v)) r3 p3
                   | none => .raw r2 p2)
            | none =>
              if deny then .raw r1 p1
              else
                (parseObjectColon env r1 p1).bind fun _ r2 p2 =>
                  (ignoreValue env r2 p2).bind fun _ r3 p3 => fieldLoop env t fs deny n false slots r3 p3 := rfl

/-- one entry after `has_next_key` said yes: the member, the slots after it, and the rest of the loop -/
theorem entry_sound (env : SJ.Model.Typed.Env) (t : Nat) (fs : List (Bytes × FieldTy)) (hfs : RawOnly fs) (deny : Bool) (n : Nat)
    (slots : List (Option TVal)) (r' : Bytes) (p : Nat) (out : List (Option TVal)) (r1 : Bytes) (p1 : Nat)
    (h : ((parseStr env r' (p + 1)).bind fun name ra pa =>
            match nameIndex (names fs) name with
            | some i =>
              (match slots.getD i none with
               | some _ => .raw ra pa
               | none =>
                 (parseObjectColon env ra pa).bind fun _ r2 p2 =>
                   match fs[i]? with
                   | some (_, ty) =>
                     (deField env t ty r2 p2).bind fun v r3 p3 => fieldLoop env t fs deny n false (slots.set i (some v)) r3 p3
                   | none => .raw r2 p2)
            | none =>
              if deny then .raw ra pa
              else
                (parseObjectColon env ra pa).bind fun _ r2 p2 =>
                  (ignoreValue env r2 p2).bind fun _ r3 p3 => fieldLoop env t fs deny n false slots r3 p3) = .ok out r1 p1) :
    ∃ (m : Mem) (w₃ w₄ : Bytes) (slots' : List (Option TVal)) (r3 : Bytes) (p3 : Nat), FieldOK env fs m ∧ Ws w₃ ∧ Ws w₄ ∧
      assign1 fs deny slots m = some slots' ∧
      0x22 :: r' = strBytes m.1 ++ w₃ ++ [0x3a] ++ w₄ ++ m.2.2 ++ r3 ∧
      p3 = p + (strBytes m.1 ++ w₃ ++ [0x3a] ++ w₄ ++ m.2.2).length ∧
      fieldLoop env t fs deny n false slots' r3 p3 = .ok out r1 p1 := by
  obtain ⟨name, ra, pa, hk, hA⟩ := bind_ok h
  clear h
  obtain ⟨items, hra, hpa, hkey⟩ := parseStr_sound env r' p name ra pa hk
  cases hni : nameIndex (names fs) name with
  | some i =>
    rw [hni] at hA
    simp only at hA
    cases hsl : slots.getD i none with
    | some _ => rw [hsl] at hA; cases hA
    | none =>
      rw [hsl] at hA
      simp only at hA
      obtain ⟨u, rb, pb, hc, hB⟩ := bind_ok hA
      clear hA
      obtain ⟨w₃, hw₃, rfl, hpb⟩ := parseObjectColon_ok env ra pa rb pb hc
      cases hfi : fs[i]? with
      | none => rw [hfi] at hB; cases hB
      | some f =>
        obtain ⟨fname, ty⟩ := f
        rw [hfi] at hB
        simp only at hB
        obtain ⟨v, rc, pc, hv, hC⟩ := bind_ok hB
        clear hB
        have hmem : (fname, ty) ∈ fs := List.mem_of_getElem? hfi
        rcases hfs _ hmem with hty | hty
        · -- `Box<RawValue>`
          simp only at hty; subst hty
          obtain ⟨w₄, c, rfl, rfl, hw₄, hpc, _, hder, hutf⟩ := deRaw_sound env rb pb v rc pc hv
          refine ⟨(items, name, c), w₃, w₄, slots.set i (some (.str c)), rc, pc, ⟨hkey, hder, fun _ => hutf⟩, hw₃, hw₄, ?_, ?_, ?_, hC⟩
          · simp only [assign1, hni, hsl, hfi]
          · rw [hra]; simp
          · simp only [List.length_append, List.length_cons, List.length_nil] at hpc ⊢; omega
        · -- `Option<Box<RawValue>>`
          simp only at hty; subst hty
          obtain ⟨w₄, c, rfl, rfl, hw₄, hpc, hder, hutf⟩ := deOptRaw_sound env rb pb v rc pc hv
          refine ⟨(items, name, c), w₃, w₄, slots.set i (some (optVal c)), rc, pc, ⟨hkey, hder, fun _ => hutf⟩, hw₃, hw₄, ?_, ?_, ?_, hC⟩
          · simp only [assign1, hni, hsl, hfi]
          · rw [hra]; simp
          · simp only [List.length_append, List.length_cons, List.length_nil] at hpc ⊢; omega
  | none =>
    rw [hni] at hA
    simp only at hA
    cases hdn : deny with
    | true => rw [hdn] at hA; cases hA
    | false =>
      rw [hdn] at hA
      simp only [Bool.false_eq_true, if_false] at hA
      obtain ⟨u, rb, pb, hc, hB⟩ := bind_ok hA
      clear hA
      obtain ⟨w₃, hw₃, rfl, hpb⟩ := parseObjectColon_ok env ra pa rb pb hc
      obtain ⟨u', rc, pc, hv, hC⟩ := bind_ok hB
      clear hB
      obtain ⟨w₄, c, rfl, hw₄, hpc, hder⟩ := ignoreValue_sound env rb pb rc pc hv
      refine ⟨(items, name, c), w₃, w₄, slots, rc, pc, ⟨hkey, hder, fun hx => by simp [hni] at hx⟩, hw₃, hw₄, ?_, ?_, ?_, hC⟩
      · simp [assign1, hni]
      · rw [hra]; simp
      · simp only [List.length_append, List.length_cons, List.length_nil] at hpc ⊢; omega

theorem fieldLoop_sound (env : SJ.Model.Typed.Env) (t : Nat) (fs : List (Bytes × FieldTy)) (hfs : RawOnly fs) (deny : Bool) :
    ∀ (n : Nat) (first : Bool) (slots : List (Option TVal)) (rest : Bytes) (pos : Nat) (out : List (Option TVal)) (r1 : Bytes)
      (p1 : Nat), fieldLoop env t fs deny n first slots rest pos = .ok out r1 p1 →
    ∃ (ms : List Mem) (r1' : Bytes), (∀ m ∈ ms, FieldOK env fs m) ∧ assign fs deny ms slots = some out ∧ r1 = 0x7d :: r1' ∧
      ∃ used, rest = used ++ r1 ∧ p1 = pos + used.length ∧
        (first = true → MInner used ms) ∧ (first = false → MTail used ms) := by
  intro n
  induction n with
  | zero => intro first slots rest pos out r1 p1 h; simp [fieldLoop] at h
  | succ n ih =>
    intro first slots rest pos out r1 p1 h
    rw [fieldLoop_unfold] at h
    obtain ⟨more, r, p, hh, h⟩ := bind_ok h
    have entry : ∀ (r' : Bytes), r = 0x22 :: r' → more = true →
        ∃ (m : Mem) (w₃ w₄ : Bytes) (ms : List Mem) (r1' used : Bytes), (∀ m' ∈ m :: ms, FieldOK env fs m') ∧
          assign fs deny (m :: ms) slots = some out ∧ r1 = 0x7d :: r1' ∧ Ws w₃ ∧ Ws w₄ ∧
          r = strBytes m.1 ++ w₃ ++ [0x3a] ++ w₄ ++ m.2.2 ++ used ++ r1 ∧
          p1 = p + (strBytes m.1 ++ w₃ ++ [0x3a] ++ w₄ ++ m.2.2 ++ used).length ∧ MTail used ms := by
      intro r' hr hmore
      subst hmore hr
      simp only [Bool.not_true, Bool.false_eq_true, if_false, List.drop_succ_cons, List.drop_zero] at h
      obtain ⟨m, w₃, w₄, slots', r3, p3, hok, hw₃, hw₄, ha, hbytes, hp3, hrest⟩ :=
        entry_sound env t fs hfs deny n slots r' p out r1 p1 h
      obtain ⟨ms, r1', hms, hass, hr1, used, hused, hp1, _, htail⟩ := ih false slots' r3 p3 out r1 p1 hrest
      refine ⟨m, w₃, w₄, ms, r1', used, ?_, ?_, hr1, hw₃, hw₄, ?_, ?_, htail rfl⟩
      · intro m' hm'
        simp only [List.mem_cons] at hm'
        rcases hm' with rfl | hm'
        · exact hok
        · exact hms m' hm'
      · simp [assign, ha, hass]
      · rw [hbytes, hused]; simp
      · rw [hp1, hp3]; simp only [List.length_append]; omega
    rcases hasNextKey_ok env first rest pos more r p hh with
      ⟨rfl, w, r', hw, hrest, hr, hp⟩ | ⟨hmore, hfirst, w, r', hw, hrest, hr, hp⟩ |
      ⟨hmore, hfirst, w₁, w₂, r', h₁, h₂, hrest, hr, hp⟩
    · simp only [Bool.not_false, if_true, Res.ok.injEq] at h
      obtain ⟨rfl, rfl, rfl⟩ := h
      refine ⟨[], r', by simp, rfl, hr, w, hrest, hp, ?_, ?_⟩
      · intro _; exact hw
      · intro _; exact MTail.nil w hw
    · obtain ⟨m, w₃, w₄, ms, r1', used, hms, hass, hr1, hw₃, hw₄, hbytes, hp1, htail⟩ := entry r' hr hmore
      obtain ⟨k, s, c⟩ := m
      refine ⟨(k, s, c) :: ms, r1', hms, hass, hr1, w ++ strBytes k ++ w₃ ++ [0x3a] ++ w₄ ++ c ++ used, ?_, ?_, ?_, ?_⟩
      · rw [hrest, hbytes]; simp
      · rw [hp1, hp]; simp only [List.length_append]; omega
      · intro _; exact ⟨w, w₃, w₄, used, hw, hw₃, hw₄, rfl, htail⟩
      · intro hf; rw [hfirst] at hf; cases hf
    · obtain ⟨m, w₃, w₄, ms, r1', used, hms, hass, hr1, hw₃, hw₄, hbytes, hp1, htail⟩ := entry r' hr hmore
      obtain ⟨k, s, c⟩ := m
      refine ⟨(k, s, c) :: ms, r1', hms, hass, hr1,
        w₁ ++ [0x2c] ++ w₂ ++ strBytes k ++ w₃ ++ [0x3a] ++ w₄ ++ c ++ used, ?_, ?_, ?_, ?_⟩
      · rw [hrest, hbytes]; simp
      · rw [hp1, hp]; simp only [List.length_append, List.length_cons, List.length_nil]; omega
      · intro hf; rw [hfirst] at hf; cases hf
      · intro _; exact MTail.cons w₁ w₂ k s w₃ w₄ c used ms h₁ h₂ hw₃ hw₄ htail

/-! ## completeness -/

/-- one entry, completeness: the member is consumed and the loop goes on with the slots `assign1` gives -/
theorem entry_complete (env : SJ.Model.Typed.Env) (hflt : env.flt = false) (t : Nat) (fs : List (Bytes × FieldTy)) (deny : Bool)
    (n : Nat) (slots slots' : List (Option TVal)) (m : Mem) (hm : FieldOK env fs m) (ha : assign1 fs deny slots m = some slots')
    (w₃ w₄ follow : Bytes) (h₃ : Ws w₃) (h₄ : Ws w₄) (pos : Nat) (hfollow : ∀ d r', follow = d :: r' → numCont d = false) :
    ((parseStr env ((strBytes m.1 ++ w₃ ++ [0x3a] ++ w₄ ++ m.2.2 ++ follow).drop 1) (pos + 1)).bind fun name ra pa =>
        match nameIndex (names fs) name with
        | some i =>
          (match slots.getD i none with
           | some _ => .raw ra pa
           | none =>
             (parseObjectColon env ra pa).bind fun _ r2 p2 =>
               match fs[i]? with
               | some (_, ty) =>
                 (deField env t ty r2 p2).bind fun v r3 p3 => fieldLoop env t fs deny n false (slots.set i (some v)) r3 p3
               | none => .raw r2 p2)
        | none =>
          if deny then .raw ra pa
          else
            (parseObjectColon env ra pa).bind fun _ r2 p2 =>
              (ignoreValue env r2 p2).bind fun _ r3 p3 => fieldLoop env t fs deny n false slots r3 p3) =
      fieldLoop env t fs deny n false slots' follow (pos + (strBytes m.1 ++ w₃ ++ [0x3a] ++ w₄ ++ m.2.2).length) := by
  obtain ⟨k0, s, c⟩ := m
  obtain ⟨hkey, ⟨tr, hd⟩, hutf⟩ := hm
  simp only at hkey hd hutf ha ⊢
  have e1 : strBytes k0 ++ w₃ ++ [0x3a] ++ w₄ ++ c ++ follow = strBytes k0 ++ (w₃ ++ 0x3a :: (w₄ ++ c ++ follow)) := by simp
  rw [e1, parseStr_complete env hflt k0 s hkey (w₃ ++ 0x3a :: (w₄ ++ c ++ follow)) pos]
  simp only [Res.bind]
  have hlen : pos + (strBytes k0).length + w₃.length + 1 + w₄.length + c.length =
      pos + (strBytes k0 ++ w₃ ++ [0x3a] ++ w₄ ++ c).length := by
    simp only [List.length_append, List.length_cons, List.length_nil]; omega
  unfold assign1 at ha
  simp only at ha
  cases hni : nameIndex (names fs) s with
  | some i =>
    rw [hni] at ha hutf
    simp only at ha ⊢
    cases hsl : slots.getD i none with
    | some _ => rw [hsl] at ha; cases ha
    | none =>
      rw [hsl] at ha
      simp only at ha ⊢
      rw [parseObjectColon_ws env w₃ _ _ h₃]
      simp only []
      cases hfi : fs[i]? with
      | none => rw [hfi] at ha; cases ha
      | some f =>
        obtain ⟨fname, ty⟩ := f
        rw [hfi] at ha
        cases ty with
        | raw =>
          simp only [Option.some.injEq] at ha
          subst ha
          have hde := deRaw_complete env hflt w₄ c follow tr (pos + (strBytes k0).length + w₃.length + 1) h₄ hd
            (hutf rfl) (fun _ => hfollow)
          simp only [deField, hde, hlen]
        | optRaw =>
          simp only [Option.some.injEq] at ha
          subst ha
          have hde := deOptRaw_complete env hflt w₄ c follow tr (pos + (strBytes k0).length + w₃.length + 1) h₄ hd
            (hutf rfl) (fun _ => hfollow)
          simp only [deField, hde, hlen]
        | typed sch => cases ha
  | none =>
    rw [hni] at ha
    simp only at ha ⊢
    cases hdn : deny with
    | true => rw [hdn] at ha; simp at ha
    | false =>
      rw [hdn] at ha
      simp only [Bool.false_eq_true, if_false, Option.some.injEq] at ha ⊢
      subst ha
      rw [parseObjectColon_ws env w₃ _ _ h₃]
      simp only []
      have hig := ignoreValue_complete env hflt w₄ c follow tr (pos + (strBytes k0).length + w₃.length + 1) h₄ hd
        (fun _ => hfollow)
      simp only [hig, hlen]

theorem fieldLoop_tail (env : SJ.Model.Typed.Env) (hflt : env.flt = false) (t : Nat) (fs : List (Bytes × FieldTy)) (deny : Bool)
    {tail : Bytes} {ms : List Mem} (ht : MTail tail ms) :
    (∀ m ∈ ms, FieldOK env fs m) → ∀ (n : Nat) (slots out : List (Option TVal)) (r : Bytes) (pos : Nat), ms.length < n →
    assign fs deny ms slots = some out →
    fieldLoop env t fs deny n false slots (tail ++ 0x7d :: r) pos = .ok out (0x7d :: r) (pos + tail.length) := by
  induction ht with
  | nil w hw =>
    intro _ n slots out r pos hn ha
    cases n with
    | zero => omega
    | succ n =>
      simp only [assign, Option.some.injEq] at ha
      subst ha
      rw [fieldLoop_unfold, hasNextKey_close env false w r pos hw]
      simp [Res.bind]
  | cons w₁ w₂ k s w₃ w₄ c rest ms h₁ h₂ h₃ h₄ ht' ih =>
    intro hcap n slots out r pos hn ha
    cases n with
    | zero => omega
    | succ n =>
      simp only [assign] at ha
      cases ha1 : assign1 fs deny slots (k, s, c) with
      | none => rw [ha1] at ha; cases ha
      | some slots' =>
        rw [ha1] at ha
        simp only [Option.bind] at ha
        obtain ⟨kr, hkr⟩ := strBytes_cons k
        have hin : w₁ ++ [0x2c] ++ w₂ ++ strBytes k ++ w₃ ++ [0x3a] ++ w₄ ++ c ++ rest ++ 0x7d :: r =
            w₁ ++ [0x2c] ++ w₂ ++ 0x22 :: (kr ++ w₃ ++ [0x3a] ++ w₄ ++ c ++ rest ++ 0x7d :: r) := by rw [hkr]; simp
        have hin2 : 0x22 :: (kr ++ w₃ ++ [0x3a] ++ w₄ ++ c ++ rest ++ 0x7d :: r) =
            strBytes k ++ w₃ ++ [0x3a] ++ w₄ ++ c ++ (rest ++ 0x7d :: r) := by rw [hkr]; simp
        rw [fieldLoop_unfold, hin, hasNextKey_comma env w₁ w₂ _ pos h₁ h₂, hin2]
        simp only [Res.bind, Bool.not_true, Bool.false_eq_true, if_false]
        have := entry_complete env hflt t fs deny n slots slots' (k, s, c) (hcap _ (by simp)) ha1 w₃ w₄ (rest ++ 0x7d :: r) h₃ h₄
          (pos + w₁.length + 1 + w₂.length) (mtail_follow ht' r)
        simp only [Res.bind] at this
        rw [this]
        rw [ih (fun m' hm' => hcap m' (by simp [hm'])) n slots' out r _ (by simp at hn; omega) ha]
        simp only [List.length_append, List.length_cons, List.length_nil, Res.ok.injEq, true_and]
        omega

theorem fieldLoop_inner (env : SJ.Model.Typed.Env) (hflt : env.flt = false) (t : Nat) (fs : List (Bytes × FieldTy)) (deny : Bool)
    (inner : Bytes) (ms : List Mem) (hin : MInner inner ms) (hcap : ∀ m ∈ ms, FieldOK env fs m) (n : Nat)
    (slots out : List (Option TVal)) (r : Bytes) (pos : Nat) (hn : ms.length < n) (ha : assign fs deny ms slots = some out) :
    fieldLoop env t fs deny n true slots (inner ++ 0x7d :: r) pos = .ok out (0x7d :: r) (pos + inner.length) := by
  cases ms with
  | nil =>
    cases n with
    | zero => omega
    | succ n =>
      simp only [assign, Option.some.injEq] at ha
      subst ha
      rw [fieldLoop_unfold, hasNextKey_close env true inner r pos hin]
      simp [Res.bind]
  | cons m ms =>
    obtain ⟨k, s, c⟩ := m
    obtain ⟨w, w₃, w₄, tail, hw, h₃, h₄, rfl, ht⟩ := hin
    cases n with
    | zero => omega
    | succ n =>
      simp only [assign] at ha
      cases ha1 : assign1 fs deny slots (k, s, c) with
      | none => rw [ha1] at ha; cases ha
      | some slots' =>
        rw [ha1] at ha
        simp only [Option.bind] at ha
        obtain ⟨kr, hkr⟩ := strBytes_cons k
        have hin : w ++ strBytes k ++ w₃ ++ [0x3a] ++ w₄ ++ c ++ tail ++ 0x7d :: r =
            w ++ 0x22 :: (kr ++ w₃ ++ [0x3a] ++ w₄ ++ c ++ tail ++ 0x7d :: r) := by rw [hkr]; simp
        have hin2 : 0x22 :: (kr ++ w₃ ++ [0x3a] ++ w₄ ++ c ++ tail ++ 0x7d :: r) =
            strBytes k ++ w₃ ++ [0x3a] ++ w₄ ++ c ++ (tail ++ 0x7d :: r) := by rw [hkr]; simp
        rw [fieldLoop_unfold, hin, hasNextKey_first env w _ pos hw, hin2]
        simp only [Res.bind, Bool.not_true, Bool.false_eq_true, if_false]
        have := entry_complete env hflt t fs deny n slots slots' (k, s, c) (hcap _ (by simp)) ha1 w₃ w₄ (tail ++ 0x7d :: r) h₃ h₄
          (pos + w.length) (mtail_follow ht r)
        simp only [Res.bind] at this
        rw [this]
        rw [fieldLoop_tail env hflt t fs deny ht (fun m' hm' => hcap m' (by simp [hm'])) n slots' out r _ (by simp at hn; omega) ha]
        simp only [List.length_append, List.length_cons, List.length_nil, Res.ok.injEq, true_and]
        omega

/-! ## the whole document (object form) -/

theorem tooDeep_zero' (env : SJ.Model.Typed.Env) : tooDeep env 0 = false := tooDeep_zero env

/-- **struct with raw fields (soundness)**: a successful run on a document whose first byte (after whitespace) is `{` -/
theorem rawStructTop_sound (env : SJ.Model.Typed.Env) (fs : List (Bytes × FieldTy)) (hfs : RawOnly fs) (deny : Bool) (bs : Bytes)
    (v : TVal) (h : rawStructTop env fs deny bs = .ok v) (w₀ r₀ : Bytes) (h₀ : Ws w₀) (hbs : bs = w₀ ++ 0x7b :: r₀) :
    ∃ (ms : List Mem) (inner w₃ : Bytes) (slots : List (Option TVal)) (vs : List TVal), v = .struct_ vs ∧
      bs = w₀ ++ [0x7b] ++ inner ++ [0x7d] ++ w₃ ∧ Ws w₃ ∧ MInner inner ms ∧ (∀ m ∈ ms, FieldOK env fs m) ∧
      assign fs deny ms (fs.map fun _ => none) = some slots ∧ finishSlots fs slots = .ok vs := by
  unfold rawStructTop finishTop at h
  cases hr : deRawStruct env 0 fs deny bs 0 with
  | err c i => rw [hr] at h; simp at h
  | data i => rw [hr] at h; simp at h
  | raw r p => rw [hr] at h; simp at h
  | io => rw [hr] at h; simp at h
  | fuel => rw [hr] at h; simp at h
  | ok v' rest pos =>
    rw [hr] at h
    simp only at h
    generalize hsk3 : skipWs rest pos = sk3 at h
    obtain ⟨r3, p3⟩ := sk3
    cases r3 with
    | cons _ _ => simp at h
    | nil =>
      have hw3 := skipWs_nil_ws rest pos p3 hsk3
      simp only at h
      split at h
      · cases h
      · simp only [Top.ok.injEq] at h; subst h
        unfold deRawStruct at hr
        rw [hbs, withPeek_ws env _ w₀ 0x7b r₀ 0 _ h₀ (by decide)] at hr
        have h5b : ((0x7b : UInt8) == 0x5b) = false := by decide
        simp only [h5b, Bool.false_eq_true, if_false, beq_self_eq_true, if_true, tooDeep_zero] at hr
        unfold closeWith at hr
        cases hv : fieldVisitMap env (0 + 1) fs deny r₀ (0 + w₀.length + 1) with
        | err c i => rw [hv] at hr; simp at hr
        | data i => rw [hv] at hr; simp at hr
        | raw r p => rw [hv] at hr; simp at hr
        | io => rw [hv] at hr; simp at hr
        | fuel => rw [hv] at hr; simp at hr
        | ok x r2 p2 =>
          rw [hv] at hr
          simp only at hr
          unfold fieldVisitMap at hv
          obtain ⟨slots, ra, pa, hl, hfin⟩ := bind_ok hv
          obtain ⟨ms, r2', hms, hass, hra, used, hused, _, hinner, _⟩ :=
            fieldLoop_sound env (0 + 1) fs hfs deny _ true _ r₀ (0 + w₀.length + 1) slots ra pa hl
          subst hra
          cases hfs' : finishSlots fs slots with
          | error e => rw [hfs'] at hfin; cases hfin
          | ok vs =>
            rw [hfs'] at hfin
            simp only [Res.ok.injEq] at hfin
            obtain ⟨rfl, rfl, rfl⟩ := hfin
            rw [endMap_close] at hr
            simp only [Res.bind, Res.ok.injEq] at hr
            obtain ⟨rfl, rfl, rfl⟩ := hr
            refine ⟨ms, used, r2', slots, vs, rfl, ?_, hw3, hinner rfl, hms, hass, hfs'⟩
            rw [hbs, hused]; simp

/-- **struct with raw fields (completeness)** -/
theorem rawStructTop_complete (env : SJ.Model.Typed.Env) (hflt : env.flt = false) (fs : List (Bytes × FieldTy)) (deny : Bool)
    (ms : List Mem) (w₀ inner w₃ : Bytes) (slots : List (Option TVal)) (vs : List TVal) (h₀ : Ws w₀) (h₃ : Ws w₃)
    (hin : MInner inner ms) (hcap : ∀ m ∈ ms, FieldOK env fs m)
    (hass : assign fs deny ms (fs.map fun _ => none) = some slots) (hfin : finishSlots fs slots = .ok vs) :
    rawStructTop env fs deny (w₀ ++ [0x7b] ++ inner ++ [0x7d] ++ w₃) = .ok (.struct_ vs) := by
  have hbs : w₀ ++ [0x7b] ++ inner ++ [0x7d] ++ w₃ = w₀ ++ 0x7b :: (inner ++ 0x7d :: w₃) := by simp
  unfold rawStructTop deRawStruct
  rw [hbs, withPeek_ws env _ w₀ 0x7b _ 0 _ h₀ (by decide)]
  have h5b : ((0x7b : UInt8) == 0x5b) = false := by decide
  simp only [h5b, Bool.false_eq_true, if_false, beq_self_eq_true, if_true, tooDeep_zero]
  have hn : ms.length < (inner ++ 0x7d :: w₃).length + 1 := by
    have := minner_length hin
    simp only [List.length_append, List.length_cons]; omega
  unfold fieldVisitMap
  rw [fieldLoop_inner env hflt (0 + 1) fs deny inner ms hin hcap _ _ slots w₃ _ hn hass]
  simp only [Res.bind, hfin, closeWith, endMap_close]
  simp only [finishTop, skipWs_all_ws w₃ _ h₃, hflt]
  simp

end SJ.Proofs.RawStruct
