import SJ.Proofs.MachineRvScan
import SJ.Proofs.MachineRvTail
/-!
# From the start of the input to the first key of a top-level object whose first key is the raw token

`top_prefix`: on `ws { ws "key"` with the key decoding to `raw::TOKEN`, `MachineRv` arrives in the state `afterRawKey []`
(the machine's own steps: neither trigger fires before the key is closed — shown with the two scans).
-/
namespace SJ.Proofs.MachineRv
open SJ SJ.Gen SJ.Model SJ.Model.Machine SJ.Proofs.Sound
open SJ.Spec.Grammar (StrItem StrWF strBytes Ws)
open SJ.Spec.Denote (decodeItems)
open SJ.Spec.PrivateToken (LexSt LMode lexStep lexRun)
open SJ.Spec.PrivateTokenRv (rawHitStep rawScan hasRawTokenFirstKey)
open SJ.Model.MachineRv (REnv RPhase stepRaw parseFuel parseTop nestedResult escalate ofAp Expect Msg)
open SJ.Model.MachineRv renaming step1 → rstep1, step → rstep, run → rrun, Outcome → ROut, Step → RStep, St → RSt,
  finish → rfinish, init → rinit, triggered → rtriggered, liftStep → rliftStep, Fail → RFail
open SJ.Proofs.MachineAp (ASt arun astep TrigFree lexRun_cons lexRun_append lexRun_ws)
open SJ.Proofs.Complete (Feeds feedS)

/-- `MachineAp` fed a prefix -/
def afeed (env : Env) (a : ASt) : Bytes → Except MachineAp.Fail ASt
  | [] => .ok a
  | b :: bs => match MachineAp.step env a b with
    | .ok a' => afeed env a' bs
    | .error e => .error e

theorem afeed_base (env : Env) : ∀ (xs : Bytes) (s s' : St), Feeds env s xs s' → TrigFree env s xs →
    afeed env (.base s) xs = .ok (.base s')
  | [], s, s', h, _ => by
    have : s = s' := by simpa [Feeds, feedS] using h
    subst this; rfl
  | b :: xs, s, s', h, ht => by
    obtain ⟨ht1, ht2⟩ := ht
    unfold Feeds at h
    simp only [feedS] at h
    cases hs : step env s b with
    | error e => rw [hs] at h; cases h
    | ok s1 =>
      rw [hs] at h
      have hstep : MachineAp.step env (.base s) b = .ok (.base s1) := by
        rw [SJ.Proofs.MachineAp.step_base_eq env s b ht1, hs]; rfl
      simp only [afeed, hstep]
      exact afeed_base env xs s1 s' h (ht2 s1 hs)

theorem rrun_ap_prefix (f : Bytes → ROut) (renv : REnv) : ∀ (xs : Bytes) (a a' : ASt) (i : Nat) (r : Bytes),
    afeed renv.env a xs = .ok a' → TrigFreeRv renv a xs →
    rrun f renv (.ap a) i (xs ++ r) = rrun f renv (.ap a') (i + xs.length) r
  | [], a, a', i, r, h, _ => by
    simp only [afeed, Except.ok.injEq] at h
    subst h; simp
  | b :: xs, a, a', i, r, h, ht => by
    obtain ⟨ht1, ht2⟩ := ht
    simp only [afeed] at h
    cases hs : MachineAp.step renv.env a b with
    | error e => rw [hs] at h; cases h
    | ok a1 =>
      rw [hs] at h
      have hstep : rstep f renv (.ap a) b = .ok (.ap a1) := by rw [rstep_ap_eq f renv a b ht1, hs]; rfl
      rw [List.cons_append, rrun_cons_ok f renv _ _ i b _ hstep, rrun_ap_prefix f renv xs a1 a' (i + 1) r h (ht2 a1 hs)]
      congr 1; simp; omega

theorem trigFreeRv_snoc (renv : REnv) (b : UInt8) (hb : (b == 0x3a) = false) : ∀ (xs : Bytes) (a : ASt),
    TrigFreeRv renv a xs → TrigFreeRv renv a (xs ++ [b])
  | [], _, _ => ⟨fun m _ => rtriggered_not_colon renv m b hb, fun _ _ => trivial⟩
  | _ :: xs, _, h => ⟨h.1, fun a' ha' => trigFreeRv_snoc renv b hb xs a' (h.2 a' ha')⟩

theorem raw_token_utf8 : Spec.Utf8.validUtf8 MachineRv.token = true := by decide +kernel

/-- the run over `ws { ws "key"`, the key decoding to the raw token -/
theorem top_prefix (f : Bytes → ROut) (renv : REnv) (hv : renv.env.tgt = .value) (w₀ w₁ : Bytes) (k : List StrItem)
    (hw₀ : Ws w₀) (hw₁ : Ws w₁) (hk : StrWF k = true) (hkt : decodeItems k = some MachineRv.token) (r : Bytes) :
    rrun f renv rinit 0 (w₀ ++ [0x7b] ++ w₁ ++ strBytes k ++ r) =
      rrun f renv (afterRawKey []) (w₀ ++ [0x7b] ++ w₁ ++ strBytes k).length r := by
  -- the machine's own run over the prefix
  have hside : SJ.Proofs.Complete.SideStr renv.env k := fun _ =>
    ⟨SJ.Proofs.MachineAp.paired_of_decode k _ hkt, fun _ => by rw [hkt]; simpa using raw_token_utf8⟩
  obtain ⟨kb, hkb, hkey⟩ := SJ.Proofs.Complete.drive_key renv.env k hk hside .objFirst (.inl rfl) [] [] []
  have hkb' : kb = MachineRv.token := by
    have := hkb hv; rw [hkt] at this; exact (Option.some.inj this).symm
  subst hkb'
  have hopen : step renv.env ⟨.val .top, []⟩ 0x7b = .ok ⟨.objFirst, [.obj [] []]⟩ := by
    simp [step, step1, startValue, isWs, Gen.wsBytes, isDigit, depthExceeded, Gen.remainingDepthInit]
  have hfeeds : Feeds renv.env init (w₀ ++ [0x7b] ++ w₁ ++ strBytes k) ⟨.afterKey, [.obj [] MachineRv.token]⟩ :=
    Feeds.append (Feeds.append (Feeds.append (SJ.Proofs.Complete.feeds_ws renv.env init trivial w₀ hw₀) (Feeds.one hopen))
      (SJ.Proofs.Complete.feeds_ws renv.env _ (SJ.Proofs.Complete.wsStable_objFirst _) w₁ hw₁)) hkey
  have hq : w₀ ++ [0x7b] ++ w₁ ++ strBytes k = (w₀ ++ [0x7b] ++ w₁ ++ 0x22 :: k.flatMap StrItem.bytes) ++ [0x22] := by
    simp [strBytes]
  have h1 : lexRun ({} : LexSt) [0x7b] = { mode := .out true, hit := false } := rfl
  -- the Number-token scan has no hit before the closing quote of the key
  have hscan : (lexRun {} (w₀ ++ [0x7b] ++ w₁ ++ 0x22 :: k.flatMap StrItem.bytes)).hit = false := by
    rw [lexRun_append, lexRun_append, lexRun_append, lexRun_ws w₀ {} false rfl hw₀]
    rw [h1, lexRun_ws w₁ _ true rfl hw₁, lexRun_cons]
    have h2 : lexStep { mode := .out true, hit := false } 0x22 = { mode := .str true [] false, hit := false } := rfl
    rw [h2]
    exact (SJ.Proofs.MachineAp.lex_items k _ true [] hk rfl).2
  have htrig : TrigFree renv.env init (w₀ ++ [0x7b] ++ w₁ ++ strBytes k) := by
    apply SJ.Proofs.MachineAp.trigFree_of_scan_prefix renv.env hv _ {} init (.inl (SJ.Proofs.MachineAp.sync_init renv.env))
    intro ys zs hx hz
    rw [hq] at hx
    obtain ⟨zs', hzs⟩ := SJ.Proofs.MachineAp.split_last hx.symm hz
    cases hh : (lexRun {} ys).hit with
    | false => rfl
    | true =>
      rw [hzs, lexRun_append, SJ.Proofs.MachineAp.lexRun_hit_mono zs' _ hh] at hscan
      cases hscan
  -- nor has the raw scan
  have hraw : hasRawTokenFirstKey (w₀ ++ [0x7b] ++ w₁ ++ 0x22 :: k.flatMap StrItem.bytes) = false := by
    unfold hasRawTokenFirstKey
    rw [rawScan_append, rawScan_append, rawScan_append, rawScan_ws w₀ {} false false rfl hw₀,
      lexRun_append, lexRun_append, lexRun_ws w₀ {} false rfl hw₀, rawScan_one {} false false 0x7b rfl, h1,
      rawScan_ws w₁ _ true false rfl hw₁, lexRun_ws w₁ _ true rfl hw₁]
    exact rawScan_open _ true false k rfl hk
  have htrigRv : TrigFreeRv renv (.base init) (w₀ ++ [0x7b] ++ w₁ ++ strBytes k) := by
    rw [hq]
    apply trigFreeRv_snoc renv 0x22 (by decide)
    exact trigFreeRv_of_scan renv hv _ {} false _ init (.base (SJ.Proofs.MachineAp.eqv_refl init))
      (.inl (SJ.Proofs.MachineAp.sync_init renv.env)) (hitInv_of_mode (by simp [init])) hraw
  have := rrun_ap_prefix f renv _ _ _ 0 r (afeed_base renv.env _ init _ hfeeds htrig) htrigRv
  show rrun f renv (.ap (.base init)) 0 _ = rrun f renv (.ap (.base ⟨.afterKey, [.obj [] MachineRv.token]⟩)) _ r
  simpa using this

end SJ.Proofs.MachineRv
