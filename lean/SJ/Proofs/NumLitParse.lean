import SJ.Proofs.NumLinkParser
/-!
# `Spec.Decimal.NumLit.parse` on the bytes of a grammatical number literal

`NumLit.parse` is the specification's own reader of RFC 8259 numbers (used by the C08 driver to obtain
the exact value of a literal). `parse_bytes`: for every `p : NumParts` with `p.WF`, it reads `p.bytes`
as `litOf p` — so the `NumLit` the parser-level C08 theorems speak about is what the specification
reads off the bytes.
-/
namespace SJ.Proofs.NumLinkParser
open SJ SJ.Spec.Decimal SJ.Proofs.Complete
open SJ.Spec.Grammar (NumParts isInt isFrac isExp)

/-! ## `Spec.Decimal.NumLit.parse` reads the bytes of a grammatical literal as `litOf` -/

theorem takeDigits_append (ds rest : Bytes) (hds : ds.all isDigit = true)
    (hrest : ∀ c r, rest = c :: r → isDigit c = false) : takeDigits (ds ++ rest) = (ds, rest) := by
  unfold takeDigits
  induction ds with
  | nil =>
    cases rest with
    | nil => rfl
    | cons c r => simp [hrest c r rfl]
  | cons d ds ih =>
    simp only [List.all_cons, Bool.and_eq_true] at hds
    simp only [List.cons_append, List.takeWhile, List.dropWhile, hds.1]
    have := ih hds.2
    simp only [Prod.mk.injEq] at this ⊢
    exact ⟨by rw [this.1], this.2⟩

/-- `NumLit.parse` after the optional sign and the integer/fraction part -/
def parseExp (neg : Bool) (int frac rest : Bytes) : Option NumLit :=
  match rest with
  | [] => some ⟨neg, int, frac, false, []⟩
  | c :: r =>
    if c == 0x65 || c == 0x45 then
      let (eneg, r) := match r with
        | 0x2d :: r' => (true, r')
        | 0x2b :: r' => (false, r')
        | _ => (false, r)
      let (ex, r') := takeDigits r
      if ex.isEmpty || !r'.isEmpty then none else some ⟨neg, int, frac, eneg, ex⟩
    else none

def intOk (int : Bytes) : Bool :=
  match int with
  | [] => false
  | [_] => true
  | d :: _ => d != 0x30

def fracRes (rest : Bytes) : Option (Bytes × Bytes) :=
  match rest with
  | 0x2e :: r =>
    let (fr, r') := takeDigits r
    if fr.isEmpty then none else some (fr, r')
  | _ => some ([], rest)

/-- `NumLit.parse` after the optional sign -/
def parseRest (neg : Bool) (bs : Bytes) : Option NumLit :=
  let (int, rest) := takeDigits bs
  if !intOk int then none else
  match fracRes rest with
  | none => none
  | some (frac, rest) => parseExp neg int frac rest

theorem parse_minus (r : Bytes) : NumLit.parse (0x2d :: r) = parseRest true r := rfl

theorem parse_nominus (d : UInt8) (r : Bytes) (h : d ≠ 0x2d) :
    NumLit.parse (d :: r) = parseRest false (d :: r) := by
  unfold NumLit.parse
  split
  rename_i heq
  split at heq
  · rename_i h'; simp at h'; exact absurd h'.1 h
  · cases heq; rfl

theorem not_digit (c : UInt8) (h : c = 0x2d ∨ c = 0x2b ∨ c = 0x2e ∨ c = 0x65 ∨ c = 0x45) :
    isDigit c = false := by
  rcases h with rfl | rfl | rfl | rfl | rfl <;> decide

theorem takeDigits_all (ds : Bytes) (hds : ds.all isDigit = true) : takeDigits ds = (ds, []) := by
  have := takeDigits_append ds [] hds (by intro c r h; cases h)
  simpa using this

theorem parseExp_exp (neg : Bool) (int fr exp : Bytes) (he : isExp exp = true) :
    parseExp neg int fr exp = some ⟨neg, int, fr, ((expOf exp).map (·.1)).getD false,
      ((expOf exp).map (·.2)).getD []⟩ := by
  by_cases hne : exp = []
  · subst hne; rfl
  · obtain ⟨c, sgn, en, d, ds, rfl, hc, hs, hd, hds, hexpOf⟩ := exp_shape exp he hne
    rw [hexpOf]
    have hdd : (d :: ds).all isDigit = true := by
      simp only [List.all_cons, Bool.and_eq_true]; exact ⟨hd, hds⟩
    have htd := takeDigits_all (d :: ds) hdd
    have hd1 : d ≠ 0x2d := by rintro rfl; exact absurd hd (by decide)
    have hd2 : d ≠ 0x2b := by rintro rfl; exact absurd hd (by decide)
    unfold parseExp
    simp only [hc, if_true]
    rcases hs with ⟨rfl, rfl⟩ | ⟨rfl, rfl⟩ | ⟨rfl, rfl⟩
    · simp only [List.nil_append]
      split
      · rename_i heq; simp at heq; exact absurd heq.1 hd1
      · rename_i heq; simp at heq; exact absurd heq.1 hd2
      · simp only [htd]; simp
    · simp only [List.cons_append, List.nil_append, htd]
      simp
    · simp only [List.cons_append, List.nil_append, htd]
      simp

theorem exp_head (exp : Bytes) (he : isExp exp = true) : ∀ c r, exp = c :: r → isDigit c = false ∧ c ≠ 0x2e := by
  intro c r h
  subst h
  simp only [isExp, Bool.and_eq_true, Bool.or_eq_true, beq_iff_eq] at he
  rcases he.1 with rfl | rfl <;> exact ⟨by decide, by decide⟩

theorem intOk_of_isInt (int : Bytes) (hi : isInt int = true) : intOk int = true := by
  unfold intOk
  rcases int_shape int hi with rfl | ⟨d, ds, rfl, _, hz, _⟩
  · rfl
  · cases ds with
    | nil => rfl
    | cons x xs => simp only [bne_iff_ne, ne_eq]; simpa using hz

theorem parseRest_bytes (neg : Bool) (int frac exp : Bytes) (hi : isInt int = true)
    (hf : isFrac frac = true) (he : isExp exp = true) :
    parseRest neg (int ++ frac ++ exp) = some ⟨neg, int, frac.drop 1,
      ((expOf exp).map (·.1)).getD false, ((expOf exp).map (·.2)).getD []⟩ := by
  have hid : int.all isDigit = true := isInt_all int hi
  have hfd : (frac.drop 1).all isDigit = true := isFrac_all frac hf
  have hhead : ∀ c r, frac ++ exp = c :: r → isDigit c = false := by
    intro c r h
    cases frac with
    | nil => exact (exp_head exp he c r (by simpa using h)).1
    | cons x xs =>
      simp only [isFrac, Bool.and_eq_true, beq_iff_eq] at hf
      simp only [List.cons_append, List.cons.injEq] at h
      rw [← h.1, hf.1.1]; decide
  unfold parseRest
  rw [List.append_assoc, takeDigits_append int (frac ++ exp) hid hhead]
  simp only [intOk_of_isInt int hi, Bool.not_true, Bool.false_eq_true, if_false]
  cases frac with
  | nil =>
    simp only [List.nil_append, List.drop_nil]
    have hfr : fracRes exp = some ([], exp) := by
      unfold fracRes
      split
      · rename_i r
        exact absurd rfl (exp_head _ he _ r rfl).2
      · rfl
    rw [hfr]
    exact parseExp_exp neg int [] exp he
  | cons x fds =>
    simp only [isFrac, Bool.and_eq_true, beq_iff_eq, Bool.not_eq_true'] at hf
    obtain ⟨⟨rfl, hne⟩, _⟩ := hf
    simp only [List.drop_succ_cons, List.drop_zero] at hfd ⊢
    have hfr : fracRes (0x2e :: fds ++ exp) = some (fds, exp) := by
      unfold fracRes
      simp only [List.cons_append]
      rw [takeDigits_append fds exp hfd (fun c r h => (exp_head exp he c r h).1)]
      simp only [hne, Bool.false_eq_true, if_false]
    rw [hfr]
    exact parseExp_exp neg int fds exp he

/-- **`Spec.Decimal.NumLit.parse` (the specification's own reader of RFC 8259 numbers) reads the bytes
    of a grammatical literal as `litOf`.** -/
theorem parse_bytes (p : NumParts) (hwf : p.WF = true) : NumLit.parse p.bytes = some (litOf p) := by
  obtain ⟨minus, int, frac, exp⟩ := p
  simp only [NumParts.WF, Bool.and_eq_true] at hwf
  obtain ⟨⟨hi, hf⟩, he⟩ := hwf
  have hlit : litOf ⟨minus, int, frac, exp⟩ = ⟨minus, int, frac.drop 1,
      ((expOf exp).map (·.1)).getD false, ((expOf exp).map (·.2)).getD []⟩ := by
    unfold litOf NumLink.toNumLit
    simp only [Spec.Canon.partsOf, fracOf_getD]
    rfl
  rw [hlit]
  cases minus with
  | true =>
    simp only [NumParts.bytes, if_true, List.cons_append, List.nil_append]
    rw [parse_minus]
    exact parseRest_bytes true int frac exp hi hf he
  | false =>
    simp only [NumParts.bytes, Bool.false_eq_true, if_false, List.nil_append]
    rcases int_shape int hi with rfl | ⟨d, ds, rfl, hd, _, _⟩
    · rw [show ([0x30] ++ frac ++ exp : Bytes) = 0x30 :: (frac ++ exp) by simp,
        parse_nominus _ _ (by decide)]
      have := parseRest_bytes false [0x30] frac exp hi hf he
      simpa using this
    · have hd' : d ≠ 0x2d := by rintro rfl; exact absurd hd (by decide)
      rw [show (d :: ds ++ frac ++ exp : Bytes) = d :: (ds ++ frac ++ exp) by simp, parse_nominus _ _ hd']
      have := parseRest_bytes false (d :: ds) frac exp hi hf he
      simpa using this

end SJ.Proofs.NumLinkParser
