import SJ.Proofs.FloatZero
/-!
# `f64_from_parts`: everything below half the least subnormal is `±0`

`FloatZero.f64FromParts_underflow` shows `±0` for a value `significand · 10^exponent ≤ 2^-1076`. Between `2^-1076` and
`2^-1075` (values that still round to zero) the relative-error analysis cannot decide: the result depends on the
directions of three roundings (`significand as f64`, `/ 1e308`, `/ 1e<j>`). It is decided here by

* monotonicity: nearest-even rounding is monotone, so `significand ↦ |(significand as f64) / 1e308|` is monotone;
* evaluation: such values exist only for `exponent = -(308 + j)`, `16 ≤ j ≤ 35`; for each of these twenty exponents the
  largest `u64` significand `S` with `S · 10^exponent < 2^-1075` is computed (`tinyS`), and the kernel evaluates that
  `2 · |(S as f64) / 1e308| ≤ 1e<j> · 2^-1074` — the last division then rounds to zero (a tie goes to the even `0`).
-/
namespace SJ.Proofs.FloatDefault
open SJ SJ.Spec.Ieee SJ.Spec.Decimal SJ.Model.FloatDefault SJ.Proofs.Ieee

/-- nearest-even rounding is monotone (same denominator, non-negative values) -/
theorem round_mono (n1 n2 d : Nat) (hd : 0 < d) (hle : n1 ≤ n2) (r1 r2 : UInt64)
    (h1 : roundNE64 false n1 d = some r1) (h2 : roundNE64 false n2 d = some r2) : F64.mag r1 ≤ F64.mag r2 := by
  obtain ⟨a1, a2⟩ := roundNE64_correct false n1 d hd
  obtain ⟨b1, b2⟩ := roundNE64_correct false n2 d hd
  have hn1 : ¬ Overflows64 n1 d := fun ho => by rw [a2 ho] at h1; cases h1
  have hn2 : ¬ Overflows64 n2 d := fun ho => by rw [b2 ho] at h2; cases h2
  obtain ⟨x1, hx1, hf1, _, hm1, _⟩ := a1 hn1
  obtain ⟨x2, hx2, hf2, _, hm2, _⟩ := b1 hn2
  rw [h1] at hx1; cases hx1
  rw [h2] at hx2; cases hx2
  by_contra hc
  have hgt : F64.mag r2 < F64.mag r1 := by omega
  -- each is at least as close to its own input as the other one
  have d1 := hm1 r2 hf2
  have d2 := hm2 r1 hf1
  unfold dist64 at d1 d2
  rw [F64.scaled_eq_mag _ hf1, F64.scaled_eq_mag _ hf2] at d1 d2
  have hA : F64.mag r2 * d < F64.mag r1 * d := Nat.mul_lt_mul_of_pos_right hgt hd
  have hT : n1 * 2 ^ 1074 ≤ n2 * 2 ^ 1074 := Nat.mul_le_mul_right _ hle
  generalize F64.mag r1 * d = A1 at d1 d2 hA
  generalize F64.mag r2 * d = A2 at d1 d2 hA
  have hteq : n1 * 2 ^ 1074 = n2 * 2 ^ 1074 := by
    generalize n1 * 2 ^ 1074 = T1 at d1 hT ⊢
    generalize n2 * 2 ^ 1074 = T2 at d2 hT ⊢
    omega
  have hneq : n1 = n2 := Nat.eq_of_mul_eq_mul_right (Nat.two_pow_pos 1074) hteq
  subst hneq
  rw [h1] at h2
  cases h2
  omega

/-- `s ↦ |s as f64|` is monotone -/
theorem ofU64_mono (s s' : Nat) (hle : s ≤ s') (hs' : s' < 2 ^ 64) : F64.mag (F64.ofU64 s) ≤ F64.mag (F64.ofU64 s') := by
  obtain ⟨h1, _, _⟩ := F64.ofU64_finite s (by omega)
  obtain ⟨h2, _, _⟩ := F64.ofU64_finite s' hs'
  exact round_mono s s' 1 Nat.one_pos hle _ _ h1 h2

/-- division of non-negative finite doubles by a fixed power of ten is monotone -/
theorem div_pow_mono (f f' pow : UInt64) (hf : F64.isFinite f = true) (hs : F64.sign f = false)
    (hf' : F64.isFinite f' = true) (hs' : F64.sign f' = false) (hle : F64.mag f ≤ F64.mag f')
    (hp : F64.isFinite pow = true) (hps : F64.sign pow = false) (hpz : F64.isZero pow = false)
    (hpm : 2 ^ 1074 ≤ F64.mag pow) : F64.mag (F64.div f pow) ≤ F64.mag (F64.div f' pow) := by
  have hB : 0 < F64.mag pow := by have := two_pow_pos' 1074; omega
  obtain ⟨g1, _⟩ := div_pow_finite f pow hf hs hp hps hpz hpm
  obtain ⟨g2, _⟩ := div_pow_finite f' pow hf' hs' hp hps hpz hpm
  have e1 := F64.div_finite f pow hf hp hpz
  have e2 := F64.div_finite f' pow hf' hp hpz
  rw [hs, hps] at e1
  rw [hs', hps] at e2
  have c1 : roundNE64 false (F64.mag f) (F64.mag pow) = some (F64.div f pow) := by
    rcases roundOrInf_cases (false != false) (F64.mag f) (F64.mag pow) hB with ⟨_, hr, _, _⟩ | ⟨_, hinf⟩
    · rw [e1]; exact hr
    · rw [e1, hinf, F64.inf_not_finite] at g1; cases g1
  have c2 : roundNE64 false (F64.mag f') (F64.mag pow) = some (F64.div f' pow) := by
    rcases roundOrInf_cases (false != false) (F64.mag f') (F64.mag pow) hB with ⟨_, hr, _, _⟩ | ⟨_, hinf⟩
    · rw [e2]; exact hr
    · rw [e2, hinf, F64.inf_not_finite] at g2; cases g2
  exact round_mono _ _ _ hB hle _ _ c1 c2

/-- for `exponent = -(308 + 16 + i)`: the largest `u64` significand `S` with `S · 10^exponent < 2^-1075`
    (`⌈10^(324+i) / 2^1075⌉ − 1`, capped at `u64::MAX` for `i = 19`) -/
def tinyS : List Nat :=
  [2, 24, 247, 2470, 24703, 247032, 2470328, 24703282, 247032822, 2470328229, 24703282292, 247032822920, 2470328229206,
   24703282292062, 247032822920623, 2470328229206232, 24703282292062327, 247032822920623272, 2470328229206232720,
   18446744073709551615]

/-- the table is what it says, and for each of its entries the first quotient is at most half of `1e<j>·2^-1074` -/
theorem tinyS_ok : ∀ i ∈ List.range 20,
    (tinyS.getD i 0 < 2 ^ 64 ∧ 1 ≤ tinyS.getD i 0) ∧
    (10 ^ (324 + i) ≤ (tinyS.getD i 0 + 1) * 2 ^ 1075 ∨ tinyS.getD i 0 = 2 ^ 64 - 1) ∧
    2 * (F64.mag (F64.div (F64.ofU64 (tinyS.getD i 0)) (litPow10 308)) * 2 ^ 1074) ≤ F64.mag (litPow10 (16 + i)) := by
  decide +kernel

theorem tiny_nums : (10 : Nat) ^ 323 < 2 ^ 1075 ∧ 2 ^ 64 * 2 ^ 1076 ≤ 10 ^ 344 := by decide +kernel

/-- **Underflow, sharp:** every value `significand · 10^exponent` below `2^-1075` (half the least subnormal: the whole
    interval that rounds to zero) is deserialised to `±0`, for every `u64` significand and every exponent -/
theorem f64FromParts_underflow_sharp (positive : Bool) (s : Nat) (e : Int) (hs : s < 2 ^ 64) (he : e < 0)
    (hx : s * 2 ^ 1075 < 10 ^ e.natAbs) : f64FromParts positive s e = some (F64.zero (!positive)) := by
  rcases Nat.eq_zero_or_pos s with h0 | hs1
  · subst h0; exact f64FromParts_zero positive e
  obtain ⟨t1, t2⟩ := tiny_nums
  rcases Int.lt_or_le e (-343) with h1 | h1
  · -- below 2^-1076 anyway
    apply f64FromParts_underflow positive s e hs he
    have h3 : (10 : Nat) ^ 344 ≤ 10 ^ e.natAbs := Nat.pow_le_pow_right (by decide) (by omega)
    have h4 : s * 2 ^ 1076 ≤ 2 ^ 64 * 2 ^ 1076 := Nat.mul_le_mul_right _ (by omega)
    omega
  rcases Int.lt_or_le (-324) e with h2 | h2
  · exfalso
    have h3 : 10 ^ e.natAbs ≤ 10 ^ 323 := Nat.pow_le_pow_right (by decide) (by omega)
    have h5 : 1 * 2 ^ 1075 ≤ s * 2 ^ 1075 := Nat.mul_le_mul_right _ hs1
    omega
  -- `e = -(324 + i)`, `i < 20`
  obtain ⟨i, hi, hei⟩ : ∃ i : Nat, i < 20 ∧ e = -((324 + i : Nat) : Int) := ⟨e.natAbs - 324, by omega, by omega⟩
  obtain ⟨⟨hS64, hS1⟩, hSmax, hStiny⟩ := tinyS_ok i (List.mem_range.2 hi)
  generalize tinyS.getD i 0 = S at hS64 hS1 hSmax hStiny
  have hen : e.natAbs = 324 + i := by omega
  have hsS : s ≤ S := by
    rcases hSmax with h | h
    · rw [hen] at hx
      have : s * 2 ^ 1075 < (S + 1) * 2 ^ 1075 := by omega
      have := Nat.lt_of_mul_lt_mul_right this
      omega
    · omega
  -- the run of the loop, as in `f64FromParts_near_underflow`
  obtain ⟨n, hn⟩ : ∃ n, fuelFor e = n + 1 + 1 := ⟨e.natAbs, rfl⟩
  have hbig : Gen.fromPartsBigExp = 308 := rfl
  have hstep : (Gen.fromPartsStep : Int) = 308 := rfl
  have hidx : ¬ wrappingAbsUsize e < 309 := by
    unfold wrappingAbsUsize i32Min; split <;> omega
  have hidx' : wrappingAbsUsize (e + 308) = 16 + i := by
    rw [wrappingAbsUsize_small _ (by omega) (by omega)]; omega
  obtain ⟨_, hf0, hs0⟩ := F64.ofU64_finite s hs
  obtain ⟨_, hF0, hS0⟩ := F64.ofU64_finite S hS64
  obtain ⟨hp8, hps8, hpz8, hpm8⟩ := litPow10_facts 308 (by decide)
  obtain ⟨hpj, hpsj, hpzj, hpmj⟩ := litPow10_facts (16 + i) (by omega)
  obtain ⟨hf1, hs1'⟩ := div_pow_finite _ _ hf0 hs0 hp8 hps8 hpz8 hpm8
  have hBj : 0 < F64.mag (litPow10 (16 + i)) := by have := two_pow_pos' 1074; omega
  have hmono : F64.mag (F64.div (F64.ofU64 s) (litPow10 308)) ≤ F64.mag (F64.div (F64.ofU64 S) (litPow10 308)) :=
    div_pow_mono _ _ _ hf0 hs0 hF0 hS0 (ofU64_mono s S hsS hS64) hp8 hps8 hpz8 hpm8
  have hz : F64.div (F64.div (F64.ofU64 s) (litPow10 308)) (litPow10 (16 + i)) = 0 := by
    rw [F64.div_finite _ _ hf1 hpj hpzj, hs1', hpsj]
    have hc : 2 * (F64.mag (F64.div (F64.ofU64 s) (litPow10 308)) * 2 ^ 1074) ≤ F64.mag (litPow10 (16 + i)) := by
      have := Nat.mul_le_mul_right (2 ^ 1074) hmono
      omega
    rw [roundOrInf_of_tiny _ _ _ hBj hc]; rfl
  unfold f64FromParts
  rw [hn, loop_none_arm _ _ e hidx, ofU64_not_zero s hs1 hs]
  simp only [Bool.false_eq_true, if_false]
  rw [if_neg (by omega), hbig, hstep, loop_some_arm _ _ _ (by rw [hidx']; omega), if_neg (by omega), hidx', hz]
  cases positive <;> rfl

end SJ.Proofs.FloatDefault
