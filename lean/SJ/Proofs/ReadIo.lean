import SJ.Model.ReadIo
import SJ.Proofs.ReadEscape
import SJ.Proofs.LineCol
/-!
# `IoRead` is a lawful reader, and its string loops refine the machine

`A bs r xs k p`: the `IoRead` state `r` over the input `bs` satisfies the bookkeeping invariant of
`Proofs/LineCol.lean` (`Inv`: the three counters of `LineColIterator` are those after `k` bytes, plus one when a
byte waits in the peek slot), and will still deliver `xs`. `lawful` proves the laws the generic free functions
need (`Proofs/ReadEscape.lean`) of `IoPos.next` / `peek` / `discard` and of `IoRead::decode_hex_escape` (four
pulls, then the table lookup). `parseStrLoop_validate` / `ignoreStrLoop_spec`: the byte-by-byte loops of
`IoRead::parse_str_bytes(.., true, ..)` and `IoRead::ignore_str` do what the machine's iterated `stepStr` does.
-/
namespace SJ.Proofs.ReadIo
open SJ SJ.Gen SJ.Model.Machine SJ.Model.LineCol SJ.Model.ReadEscape SJ.Model.ReadIo SJ.Proofs.ReadMach SJ.Proofs.ReadEscape
open SJ.Proofs.LineCol

/-- the reader over `bs` will still deliver `xs`, has consumed `k` bytes, and `p` says whether a byte waits in
    the peek slot (then `k + 1` bytes have been pulled from the iterator) -/
def A (bs : Bytes) (r : IoRead) (xs : Bytes) (k : Nat) (p : Bool) : Prop :=
  Inv bs r (k + (if p then 1 else 0)) ∧ xs = r.ch.toList ++ r.rest ∧ p = r.ch.isSome

/-- the index `IoRead::position()` counts: every byte pulled from the iterator -/
def pos (r : IoRead) : Nat := r.iter.byteOffset

theorem pair_fst {α β : Type} {p : α × β} {a : α} (h : p.1 = a) : p = (a, p.2) := by
  cases p; simp_all

theorem A.clean {bs : Bytes} {r : IoRead} {xs : Bytes} {k : Nat} (h : A bs r xs k false) :
    Inv bs r k ∧ r.ch = none ∧ r.rest = xs ∧ xs = bs.drop k := by
  obtain ⟨hi, hx, hp⟩ := h
  have hc : r.ch = none := by
    cases hch : r.ch with
    | none => rfl
    | some c => rw [hch] at hp; simp at hp
  simp only [Bool.false_eq_true, if_false, Nat.add_zero] at hi
  refine ⟨hi, hc, by simp [hx, hc], ?_⟩
  rw [hx, hc, hi.rest]; rfl

theorem A.of_clean {bs : Bytes} {r : IoRead} {k : Nat} (hi : Inv bs r k) (hc : r.ch = none) :
    A bs r (bs.drop k) k false :=
  ⟨by simpa using hi, by simp [hc, hi.rest], by simp [hc]⟩

theorem pos_eq {bs : Bytes} {r : IoRead} {xs : Bytes} {k : Nat} {p : Bool} (h : A bs r xs k p) :
    pos r = k + (if p then 1 else 0) := by
  unfold pos; rw [h.1.iter]; exact (feed_lineCol bs _ h.1.le).2

theorem next_nil {bs : Bytes} {r : IoRead} {k : Nat} {p : Bool} (h : A bs r [] k p) :
    ∃ r', IoPos.next r = (none, r') ∧ A bs r' [] k false := by
  obtain ⟨hi, hx, hp⟩ := h
  have hc : r.ch = none := by cases hch : r.ch <;> simp_all
  have hr : r.rest = [] := by cases hre : r.rest <;> simp_all
  have hpf : p = false := by simp [hp, hc]
  subst hpf
  simp only [Bool.false_eq_true, if_false, Nat.add_zero] at hi
  rcases hi.next_spec with ⟨h1, _⟩ | ⟨_, _, h3, h4, h5⟩ | ⟨_, h2, _⟩
  · simp [hc] at h1
  · refine ⟨r.next.2, pair_fst h5, ?_⟩
    have := A.of_clean h3 h4
    rwa [← h3.rest, show r.next.2.rest = [] from ?_] at this
    rw [h3.rest, ← hi.rest, hr]
  · exfalso
    have := hi.rest; rw [hr] at this
    have hl := congrArg List.length this; simp at hl; omega

theorem next_cons {bs : Bytes} {r : IoRead} {b : UInt8} {xs : Bytes} {k : Nat} {p : Bool} (h : A bs r (b :: xs) k p) :
    ∃ r', IoPos.next r = (some b, r') ∧ A bs r' xs (k + 1) false := by
  obtain ⟨hi, hx, hp⟩ := h
  cases hc : r.ch with
  | some c =>
    have hpt : p = true := by simp [hp, hc]
    subst hpt
    simp only [if_true] at hi
    rw [hc] at hx; simp at hx
    obtain ⟨rfl, rfl⟩ := hx
    rcases hi.next_spec with ⟨_, h2, h3, h4⟩ | ⟨h1, _⟩ | ⟨h1, _⟩
    · refine ⟨r.next.2, pair_fst (by rw [h4, hc]), ?_⟩
      have := A.of_clean h2 h3
      rwa [← hi.rest] at this
    · simp [hc] at h1
    · simp [hc] at h1
  | none =>
    have hpf : p = false := by simp [hp, hc]
    subst hpf
    simp only [Bool.false_eq_true, if_false, Nat.add_zero] at hi
    rw [hc] at hx; simp at hx
    have hd : bs.drop k = b :: xs := by rw [← hi.rest, ← hx]
    obtain ⟨hlt, _, hdrop, hget⟩ := take_succ_getElem bs k b xs hd
    rcases hi.next_spec with ⟨h1, _⟩ | ⟨_, h2, _⟩ | ⟨_, _, h3, h4, h5⟩
    · simp [hc] at h1
    · omega
    · refine ⟨r.next.2, pair_fst (by rw [h5, hget]), ?_⟩
      have := A.of_clean h3 h4
      rwa [hdrop] at this

theorem peek_nil {bs : Bytes} {r : IoRead} {k : Nat} (h : A bs r [] k false) :
    ∃ r', IoPos.peek r = (none, r') ∧ A bs r' [] k false := by
  obtain ⟨hi, hc, hr, hx⟩ := h.clean
  rcases hi.peek_spec with ⟨h1, _⟩ | ⟨_, _, h3, h4, h5⟩ | ⟨_, h2, _⟩
  · simp [hc] at h1
  · refine ⟨r.peek.2, pair_fst h5, ?_⟩
    have := A.of_clean h3 h4
    rwa [← hx] at this
  · exfalso
    have hl := congrArg List.length hx; simp at hl; omega

theorem peek_cons {bs : Bytes} {r : IoRead} {b : UInt8} {xs : Bytes} {k : Nat} (h : A bs r (b :: xs) k false) :
    ∃ r' p', IoPos.peek r = (some b, r') ∧ A bs r' (b :: xs) k p' ∧ A bs (IoPos.discard r') xs (k + 1) false := by
  obtain ⟨hi, hc, hr, hx⟩ := h.clean
  obtain ⟨hlt, _, hdrop, hget⟩ := take_succ_getElem bs k b xs hx.symm
  rcases hi.peek_spec with ⟨h1, _⟩ | ⟨_, h2, _⟩ | ⟨_, _, h3, h4, h5⟩
  · simp [hc] at h1
  · omega
  · refine ⟨r.peek.2, true, pair_fst (by rw [h5, hget]), ⟨by simpa using h3, ?_, by simp [h4, hget]⟩, ?_⟩
    · rw [h4, hget, h3.rest, hdrop]; rfl
    · have hd : Inv bs (IoPos.discard r.peek.2) (k + 1) := ⟨h3.le, h3.iter, h3.rest, .inl rfl⟩
      have := A.of_clean hd rfl
      rwa [hdrop] at this

theorem nextOrEof_nil' {bs : Bytes} {r : IoRead} {k : Nat} {p : Bool} (h : A bs r [] k p) :
    ∃ r', nextOrEof IoPos.next r = .err .EofWhileParsingString r' ∧ A bs r' [] k false := by
  obtain ⟨r', h1, h2⟩ := next_nil h
  exact ⟨r', by simp [nextOrEof, h1], h2⟩

theorem nextOrEof_cons' {bs : Bytes} {r : IoRead} {b : UInt8} {xs : Bytes} {k : Nat} {p : Bool} (h : A bs r (b :: xs) k p) :
    ∃ r', nextOrEof IoPos.next r = .ok b r' ∧ A bs r' xs (k + 1) false := by
  obtain ⟨r', h1, h2⟩ := next_cons h
  exact ⟨r', by simp [nextOrEof, h1], h2⟩

/-- `IoRead::decode_hex_escape` on an input that ends before the fourth byte: everything is pulled, then
    `EofWhileParsingString` -/
theorem hex_eof {bs : Bytes} {r : IoRead} {xs : Bytes} {k : Nat} (h : A bs r xs k false) (hl : xs.length < 4) :
    ∃ r', Model.ReadIo.decodeHexEscape r = .err .EofWhileParsingString r' ∧ A bs r' [] (k + xs.length) false := by
  unfold Model.ReadIo.decodeHexEscape
  match xs, hl, h with
  | [], _, h =>
    obtain ⟨r1, e1, h1⟩ := nextOrEof_nil' h
    exact ⟨r1, by simp only [e1], h1⟩
  | [a], _, h =>
    obtain ⟨r1, e1, h1⟩ := nextOrEof_cons' h
    obtain ⟨r2, e2, h2⟩ := nextOrEof_nil' h1
    exact ⟨r2, by simp only [e1, e2], h2⟩
  | [a, b], _, h =>
    obtain ⟨r1, e1, h1⟩ := nextOrEof_cons' h
    obtain ⟨r2, e2, h2⟩ := nextOrEof_cons' h1
    obtain ⟨r3, e3, h3⟩ := nextOrEof_nil' h2
    exact ⟨r3, by simp only [e1, e2, e3], h3⟩
  | [a, b, c], _, h =>
    obtain ⟨r1, e1, h1⟩ := nextOrEof_cons' h
    obtain ⟨r2, e2, h2⟩ := nextOrEof_cons' h1
    obtain ⟨r3, e3, h3⟩ := nextOrEof_cons' h2
    obtain ⟨r4, e4, h4⟩ := nextOrEof_nil' h3
    exact ⟨r4, by simp only [e1, e2, e3, e4], h4⟩

/-- four bytes are pulled, then looked at -/
theorem hex_ok {bs : Bytes} {r : IoRead} {a b c d : UInt8} {xs : Bytes} {k : Nat} (h : A bs r (a :: b :: c :: d :: xs) k false) :
    ∃ r', A bs r' xs (k + 4) false ∧
      Model.ReadIo.decodeHexEscape r = (match Model.Hex.decodeFourHex a b c d with
        | some n => .ok n r'
        | none => .err .InvalidEscape r') := by
  unfold Model.ReadIo.decodeHexEscape
  obtain ⟨r1, e1, h1⟩ := nextOrEof_cons' h
  obtain ⟨r2, e2, h2⟩ := nextOrEof_cons' h1
  obtain ⟨r3, e3, h3⟩ := nextOrEof_cons' h2
  obtain ⟨r4, e4, h4⟩ := nextOrEof_cons' h3
  refine ⟨r4, h4, ?_⟩
  simp only [e1, e2, e3, e4]
  cases Model.Hex.decodeFourHex a b c d <;> rfl

/-- **`IoRead` is a lawful reader** -/
theorem lawful (bs : Bytes) : Lawful Model.ReadIo.ops (A bs) pos :=
  { pos_eq := pos_eq, next_nil := next_nil, next_cons := next_cons, peek_nil := peek_nil, peek_cons := peek_cons,
    hex_eof := hex_eof, hex_ok := hex_ok }

/-! ## `IoRead::parse_str_bytes(scratch, validate = true, result)` against the machine -/

/-- the loop's outcome `res` is what the machine's `strRun` says: at the closing quote the `result` closure is
    applied to the machine's decoded bytes with the reader right behind the quote; an error carries the same code
    and the reader's `position()` counts the machine's index -/
def LoopOK (bs : Bytes) (result : IoRead → Bytes → Res Bytes IoRead) (res : Res Bytes IoRead) : StrRes → Prop
  | .closed st' j rest => ∃ r', A bs r' rest j false ∧ res = result r' st'.out.reverse
  | .err c j => ∃ r' xs', res = .err c r' ∧ A bs r' xs' j false

theorem isEscape_true (ch : UInt8) :
    Model.Swar.isEscape ch true = (ch == 0x22 || ch == 0x5c || decide (ch < 0x20)) := by
  simp [Model.Swar.isEscape, Gen.isEscapeA, Gen.isEscapeB, Gen.isEscapeCtrlBound]
  rfl

theorem parseStrLoop_validate (bs : Bytes) (env : Env) (henv : env.tgt = .value) (stk : List Frame)
    (result : IoRead → Bytes → Res Bytes IoRead) :
    ∀ (fuel : Nat) (r : IoRead) (xs : Bytes) (k : Nat) (p : Bool) (st : StrSt), A bs r xs k p → st.esc = .none →
      xs.length < fuel →
      LoopOK bs result (parseStrLoop true result fuel r st.out.reverse) (strRun env stk st k xs) := by
  intro fuel
  induction fuel with
  | zero => intro r xs k p st _ _ h; omega
  | succ fuel ih =>
    intro r xs k p st hA hst hlen
    unfold parseStrLoop
    match xs, hA, hlen with
    | [], hA, _ =>
      obtain ⟨r1, e1, h1⟩ := nextOrEof_nil' hA
      simp only [e1, strRun_nil, LoopOK]
      exact ⟨r1, _, rfl, h1⟩
    | ch :: ys, hA, hlen =>
      obtain ⟨r1, e1, h1⟩ := nextOrEof_cons' hA
      simp only [e1, isEscape_true]
      simp only [List.length_cons] at hlen
      by_cases hq : ch = 0x22
      · subst hq
        simp only [beq_self_eq_true, Bool.true_or, Bool.not_true, Bool.false_eq_true, if_false, if_true]
        rw [strRun_quote env stk st hst]
        exact ⟨r1, h1, rfl⟩
      · by_cases hb : ch = 0x5c
        · subst hb
          have : ((0x5c : UInt8) == 0x22) = false := by decide
          simp only [this, beq_self_eq_true, Bool.true_or, Bool.or_true, Bool.not_true, Bool.false_eq_true, if_false, if_true]
          rw [strRun_backslash env stk st hst]
          obtain ⟨f, rfl⟩ : ∃ f, fuel = f + 1 := ⟨fuel - 1, by omega⟩
          have hag := parseEscape_validate (lawful bs) env stk henv f h1 { st with esc := .bs, escaped := true } rfl
          rcases hag with ⟨sc, r', xs', k', e2, hA', hl', _, hrun⟩ | ⟨c, r', xs', j', e2, hA', hrun⟩
          · simp only at e2
            simp only [e2, hrun]
            have := ih r' xs' k' false { st with out := sc.reverse, esc := .none, escaped := true } hA' rfl (by omega)
            simpa using this
          · simp only at e2
            simp only [e2, hrun, LoopOK]
            exact ⟨r', _, rfl, hA'⟩
        · have hq' : (ch == 0x22) = false := by simpa using hq
          have hb' : (ch == 0x5c) = false := by simpa using hb
          simp only [hq', hb', Bool.false_or, Bool.false_eq_true, if_false]
          by_cases hc : ch < 0x20
          · simp only [hc, decide_true, Bool.not_true, Bool.false_eq_true, if_false, if_true]
            rw [strRun_ctrl env stk st hst k ch ys hq hb hc]
            exact ⟨r1, _, rfl, h1⟩
          · simp only [hc, decide_false, Bool.not_false, if_true]
            rw [strRun_plain env stk st hst k ch ys hq hb hc]
            have := ih r1 ys (k + 1) false { st with out := ch :: st.out } h1 hst (by omega)
            simpa using this

/-! ## `IoRead::ignore_str` against the machine (skipped content) -/

def LoopOKI (bs : Bytes) (res : Res Unit IoRead) : StrRes → Prop
  | .closed _ j rest => ∃ r', A bs r' rest j false ∧ res = .ok () r'
  | .err c j => ∃ r' xs', res = .err c r' ∧ A bs r' xs' j false

theorem ignoreStrLoop_spec (bs : Bytes) (env : Env) (henv : env.tgt = .ignored) (stk : List Frame) :
    ∀ (fuel : Nat) (r : IoRead) (xs : Bytes) (k : Nat) (p : Bool) (st : StrSt), A bs r xs k p → st.esc = .none →
      xs.length < fuel → LoopOKI bs (ignoreStrLoop fuel r) (strRun env stk st k xs) := by
  intro fuel
  induction fuel with
  | zero => intro r xs k p st _ _ h; omega
  | succ fuel ih =>
    intro r xs k p st hA hst hlen
    unfold ignoreStrLoop
    match xs, hA, hlen with
    | [], hA, _ =>
      obtain ⟨r1, e1, h1⟩ := nextOrEof_nil' hA
      simp only [e1, strRun_nil, LoopOKI]
      exact ⟨r1, _, rfl, h1⟩
    | ch :: ys, hA, hlen =>
      obtain ⟨r1, e1, h1⟩ := nextOrEof_cons' hA
      simp only [e1, isEscape_true]
      simp only [List.length_cons] at hlen
      by_cases hq : ch = 0x22
      · subst hq
        simp only [beq_self_eq_true, Bool.true_or, Bool.not_true, Bool.false_eq_true, if_false, if_true]
        rw [strRun_quote env stk st hst]
        exact ⟨r1, h1, rfl⟩
      · by_cases hb : ch = 0x5c
        · subst hb
          have : ((0x5c : UInt8) == 0x22) = false := by decide
          simp only [this, beq_self_eq_true, Bool.true_or, Bool.or_true, Bool.not_true, Bool.false_eq_true, if_false, if_true]
          rw [strRun_backslash env stk st hst]
          have hag := ignoreEscape_spec (lawful bs) env stk henv h1 { st with esc := .bs, escaped := true } rfl
          rcases hag with ⟨r', xs', k', st', e2, hA', hl', hst', hrun⟩ | ⟨c, r', xs', j', e2, hA', hrun⟩
          · simp only [e2, hrun]
            exact ih r' xs' k' false st' hA' hst' (by omega)
          · simp only [e2, hrun, LoopOKI]
            exact ⟨r', _, rfl, hA'⟩
        · have hq' : (ch == 0x22) = false := by simpa using hq
          have hb' : (ch == 0x5c) = false := by simpa using hb
          simp only [hq', hb', Bool.false_or, Bool.false_eq_true, if_false]
          by_cases hc : ch < 0x20
          · simp only [hc, decide_true, Bool.not_true, Bool.false_eq_true, if_false]
            rw [strRun_ctrl env stk st hst k ch ys hq hb hc]
            exact ⟨r1, _, rfl, h1⟩
          · simp only [hc, decide_false, Bool.not_false, if_true]
            rw [strRun_plain env stk st hst k ch ys hq hb hc]
            exact ih r1 ys (k + 1) false { st with out := ch :: st.out } h1 hst (by omega)

end SJ.Proofs.ReadIo
