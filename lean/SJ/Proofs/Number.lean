import SJ.Spec.Number
import SJ.Spec.Recognise
/-!
# Helper lemmas on number literals: `decimal`, `splitNumber`, `IsNumber`
-/
namespace SJ.Proofs.Number
open SJ SJ.Spec.Grammar SJ.Spec.Number

/-! ## `splitNumber` is a partition of the bytes -/

theorem splitMinus_bytes (bs : Bytes) :
    (if (splitMinus bs).1 then [0x2d] else []) ++ (splitMinus bs).2 = bs := by
  cases bs with
  | nil => rfl
  | cons c r =>
    simp only [splitMinus]
    split
    · rename_i h; simp at h; simp [h]
    · simp

theorem splitNumber_bytes (bs : Bytes) : (splitNumber bs).bytes = bs := by
  have h1 := splitMinus_bytes bs
  have h2 := List.takeWhile_append_dropWhile (p := isDigit) (l := (splitMinus bs).2)
  simp only [splitNumber]
  generalize List.dropWhile isDigit (splitMinus bs).2 = rest at h2 ⊢
  cases rest with
  | nil =>
    simp only [NumParts.bytes, List.append_nil] at h2 ⊢
    rw [h2]; exact h1
  | cons c r' =>
    by_cases hc : (c == 0x2e) = true
    · have h3 := List.takeWhile_append_dropWhile (p := isDigit) (l := r')
      simp only [hc, if_true, NumParts.bytes]
      rw [List.append_assoc, List.append_assoc, List.cons_append, h3, h2]
      exact h1
    · have hc' : (c == 0x2e) = false := by simpa using hc
      simp only [hc', NumParts.bytes, List.append_nil, Bool.false_eq_true, if_false]
      rw [List.append_assoc, h2]; exact h1

/-! ## digits -/

theorem isDigit_ofNat (k : Nat) (h : k < 10) : isDigit (UInt8.ofNat (0x30 + k)) = true := by
  have : ∀ k, k < 10 → isDigit (UInt8.ofNat (0x30 + k)) = true := by decide
  exact this k h

theorem isDigit19_ofNat (k : Nat) (h : k < 10) (h0 : 0 < k) : isDigit19 (UInt8.ofNat (0x30 + k)) = true := by
  have : ∀ k, k < 10 → 0 < k → isDigit19 (UInt8.ofNat (0x30 + k)) = true := by decide
  exact this k h h0

theorem digitsAux_spec (fuel n : Nat) (acc : Bytes) (hf : n < fuel) (hn : 0 < n)
    (hacc : acc.all isDigit = true) :
    ∃ d ds, digitsAux fuel n acc = d :: ds ∧ isDigit19 d = true ∧ ds.all isDigit = true := by
  induction fuel generalizing n acc with
  | zero => omega
  | succ fuel ih =>
    simp only [digitsAux]
    split
    · rename_i h10
      refine ⟨_, _, rfl, ?_, hacc⟩
      rw [Nat.mod_eq_of_lt h10]; exact isDigit19_ofNat n h10 hn
    · rename_i h10
      apply ih
      · omega
      · omega
      · simp only [List.all_cons, hacc, Bool.and_true]
        exact isDigit_ofNat _ (Nat.mod_lt _ (by omega))

theorem natDigits_isInt (n : Nat) : isInt (natDigits n) = true := by
  by_cases hn : n = 0
  · subst hn; decide
  · obtain ⟨d, ds, h, hd, hds⟩ := digitsAux_spec (n + 1) n [] (by omega) (by omega) rfl
    simp only [natDigits, h]
    cases ds with
    | nil =>
      simp only [isInt]
      simp only [isDigit19, Bool.and_eq_true, decide_eq_true_eq] at hd
      simp only [isDigit, Bool.and_eq_true, decide_eq_true_eq]
      refine ⟨?_, hd.2⟩
      have := hd.1
      rw [UInt8.le_iff_toNat_le] at this ⊢
      simp at this ⊢; omega
    | cons e es => simp only [isInt, hd, hds, Bool.and_self]

/-- the parts of `decimal n` -/
def decimalParts (n : Int) : NumParts :=
  { minus := decide (n < 0), int := natDigits n.natAbs, frac := [], exp := [] }

theorem decimalParts_wf (n : Int) : (decimalParts n).WF = true := by
  simp [decimalParts, NumParts.WF, natDigits_isInt, isFrac, isExp]

theorem decimalParts_bytes (n : Int) : (decimalParts n).bytes = decimal n := by
  simp only [decimalParts, NumParts.bytes, decimal]
  by_cases h : n < 0 <;> simp [h]

theorem decimal_isNumber (n : Int) : IsNumber (decimal n) := ⟨_, decimalParts_wf n, decimalParts_bytes n⟩

/-! ## uniqueness of the decomposition -/

theorem span_append (p : UInt8 → Bool) (a b : Bytes) (ha : a.all p = true)
    (hb : ∀ c r, b = c :: r → p c = false) :
    (a ++ b).takeWhile p = a ∧ (a ++ b).dropWhile p = b := by
  induction a with
  | nil =>
    cases b with
    | nil => simp
    | cons c r => simp [hb c r rfl]
  | cons x a ih =>
    simp only [List.all_cons, Bool.and_eq_true] at ha
    simp [ha.1, ih ha.2]

theorem isDigit19_isDigit (d : UInt8) (h : isDigit19 d = true) : isDigit d = true := by
  simp only [isDigit19, isDigit, Bool.and_eq_true, decide_eq_true_eq] at h ⊢
  refine ⟨?_, h.2⟩
  have := h.1
  rw [UInt8.le_iff_toNat_le] at this ⊢
  simp at this ⊢; omega

theorem isInt_all (ds : Bytes) (h : isInt ds = true) : ds.all isDigit = true ∧ ds ≠ [] := by
  match ds, h with
  | [d], h => simpa [isInt] using h
  | d :: e :: es, h =>
    simp only [isInt, Bool.and_eq_true] at h
    simp only [List.all_cons, Bool.and_eq_true, ne_eq, reduceCtorEq, not_false_eq_true, and_true]
    exact ⟨isDigit19_isDigit d h.1, by simpa using h.2⟩

theorem isDigit_ne (d : UInt8) (h : isDigit d = true) :
    (d == 0x2d) = false ∧ (d == 0x2e) = false ∧ (d == 0x65) = false ∧ (d == 0x45) = false := by
  simp only [isDigit, Bool.and_eq_true, decide_eq_true_eq] at h
  obtain ⟨h1, h2⟩ := h
  rw [UInt8.le_iff_toNat_le] at h1 h2
  simp only [beq_eq_false_iff_ne, ne_eq, ← UInt8.toNat_inj]
  simp at h1 h2 ⊢; omega

theorem isExp_head (e : Bytes) (h : isExp e = true) : ∀ c r, e = c :: r → isDigit c = false ∧ (c == 0x2e) = false := by
  intro c r he
  subst he
  simp only [isExp, Bool.and_eq_true, Bool.or_eq_true, beq_iff_eq] at h
  rcases h.1 with h | h <;> subst h <;> decide

theorem splitNumber_parts (p : NumParts) (h : p.WF = true) : splitNumber p.bytes = p := by
  obtain ⟨m, int, frac, exp⟩ := p
  simp only [NumParts.WF, Bool.and_eq_true] at h
  obtain ⟨⟨hi, hf⟩, he⟩ := h
  obtain ⟨hia, hine⟩ := isInt_all int hi
  obtain ⟨d, ds, rfl⟩ := List.exists_cons_of_ne_nil hine
  have hd : isDigit d = true := by simp only [List.all_cons, Bool.and_eq_true] at hia; exact hia.1
  -- the minus sign
  have hm : splitMinus (NumParts.bytes ⟨m, d :: ds, frac, exp⟩) = (m, (d :: ds) ++ (frac ++ exp)) := by
    cases m with
    | true => simp [NumParts.bytes, splitMinus]
    | false => simp [NumParts.bytes, splitMinus, (isDigit_ne d hd).1]
  -- the integer part
  have hrest : ∀ c r, frac ++ exp = c :: r → isDigit c = false := by
    intro c r hcr
    cases frac with
    | nil => exact (isExp_head exp he c r (by simpa using hcr)).1
    | cons c' fr =>
      simp only [List.cons_append, List.cons.injEq] at hcr
      simp only [isFrac, Bool.and_eq_true, beq_iff_eq] at hf
      rw [← hcr.1, hf.1.1]; decide
  obtain ⟨ht, hdr⟩ := span_append isDigit (d :: ds) (frac ++ exp) hia hrest
  simp only [splitNumber, hm, ht, hdr]
  cases frac with
  | nil =>
    cases exp with
    | nil => rfl
    | cons c r => simp [(isExp_head (c :: r) he c r rfl).2]
  | cons c fr =>
    simp only [isFrac, Bool.and_eq_true, beq_iff_eq, Bool.not_eq_true'] at hf
    obtain ⟨⟨hc, _⟩, hfr⟩ := hf
    obtain ⟨ht2, hd2⟩ := span_append isDigit fr exp hfr (fun c r h => (isExp_head exp he c r h).1)
    simp [hc, ht2, hd2]

theorem splitNumber_of_isNumber (bs : Bytes) (h : IsNumber bs) :
    (splitNumber bs).WF = true ∧ (splitNumber bs).bytes = bs := by
  obtain ⟨p, hp, rfl⟩ := h
  rw [splitNumber_parts p hp]; exact ⟨hp, rfl⟩

theorem isNumber_iff (bs : Bytes) : isNumber bs = true ↔ IsNumber bs := by
  constructor
  · intro h
    simp only [isNumber, Bool.and_eq_true, beq_iff_eq] at h
    exact ⟨_, h.1, h.2⟩
  · intro h
    have := splitNumber_of_isNumber bs h
    simp [isNumber, this.1, this.2]

/-! ## the alphabet of number literals -/
open SJ.Spec.Recognise in
theorem isDigit_numByte (b : UInt8) (h : isDigit b = true) : isNumByte b = true := by
  simp [isNumByte, h]

open SJ.Spec.Recognise in
theorem all_digit_numByte (ds : Bytes) (h : ds.all isDigit = true) : ds.all isNumByte = true := by
  simp only [List.all_eq_true] at h ⊢
  exact fun b hb => isDigit_numByte b (h b hb)

open SJ.Spec.Recognise in
theorem parts_numBytes (p : NumParts) (h : p.WF = true) : p.bytes.all isNumByte = true := by
  obtain ⟨m, int, frac, exp⟩ := p
  simp only [NumParts.WF, Bool.and_eq_true] at h
  obtain ⟨⟨hi, hf⟩, he⟩ := h
  have h1 : (if m = true then [0x2d] else ([] : Bytes)).all isNumByte = true := by cases m <;> decide
  have h2 := all_digit_numByte int (isInt_all int hi).1
  have h3 : frac.all isNumByte = true := by
    cases frac with
    | nil => rfl
    | cons c fr =>
      simp only [isFrac, Bool.and_eq_true, beq_iff_eq] at hf
      simp only [List.all_cons, Bool.and_eq_true]
      exact ⟨by rw [hf.1.1]; decide, all_digit_numByte fr hf.2⟩
  have h4 : exp.all isNumByte = true := by
    cases exp with
    | nil => rfl
    | cons c r =>
      simp only [isExp, Bool.and_eq_true, Bool.or_eq_true, beq_iff_eq] at he
      obtain ⟨hc, hr⟩ := he
      have hc' : isNumByte c = true := by rcases hc with h | h <;> subst h <;> decide
      cases r with
      | nil => simp at hr
      | cons s ds =>
        simp only [List.all_cons, Bool.and_eq_true, hc', true_and]
        simp only at hr
        by_cases hs : s = 0x2d ∨ s = 0x2b
        · rw [if_pos hs] at hr
          simp only [Bool.and_eq_true] at hr
          refine ⟨?_, all_digit_numByte ds hr.2⟩
          rcases hs with h | h <;> subst h <;> decide
        · rw [if_neg hs] at hr
          simp only [Bool.and_eq_true] at hr
          exact ⟨isDigit_numByte s hr.1, all_digit_numByte ds hr.2⟩
  simp only [NumParts.bytes, List.all_append, h1, h2, h3, h4, Bool.and_self]

open SJ.Spec.Recognise in
theorem isNumber_numBytes (bs : Bytes) (h : IsNumber bs) : bs.all isNumByte = true := by
  obtain ⟨p, hp, rfl⟩ := h
  exact parts_numBytes p hp

end SJ.Proofs.Number
