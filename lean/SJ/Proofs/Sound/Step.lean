import SJ.Proofs.Sound.Shape
/-!
# Every successful step of the machine preserves the shape invariant
-/
namespace SJ.Proofs.Sound
open SJ SJ.Spec.Grammar SJ.Spec.Denote SJ.Model.Machine SJ.Proofs.CanonM

/-- what the invariant demands of a step result after consuming `cs` and looking at `b` -/
def StepInv (env : Env) (cs : Bytes) (b : UInt8) : Step → Prop
  | .next s' => Inv env s' (cs ++ [b])
  | .again s' => Inv env s' cs
  | .err _ _ => True

theorem startValue_inv (env : Env) (s : St) (b : UInt8) (cs : Bytes) (hp : ValPos env s.stack cs) :
    StepInv env cs b (startValue env s b) := by
  obtain ⟨mode, fs⟩ := s
  simp only at hp
  unfold startValue
  repeat' split
  all_goals (try simp only [beq_iff_eq] at *)
  all_goals (try subst b)
  all_goals simp only [StepInv]
  · exact .lit _ _ fs cs [0x6e] .null _ hp Derives.null (Sem.null hp.depth) rfl
  · rename_i hv _
    exact .lit _ _ fs cs [0x74] .true_ _ hp Derives.true_ (by simpa [hv] using Sem.true_ (env := env) hp.depth) rfl
  · rename_i hv _
    exact .lit _ _ fs cs [0x74] .true_ _ hp Derives.true_ (by simpa [hv] using Sem.true_ (env := env) hp.depth) rfl
  · rename_i hv _ _
    exact .lit _ _ fs cs [0x66] .false_ _ hp Derives.false_ (by simpa [hv] using Sem.false_ (env := env) hp.depth) rfl
  · rename_i hv _ _
    exact .lit _ _ fs cs [0x66] .false_ _ hp Derives.false_ (by simpa [hv] using Sem.false_ (env := env) hp.depth) rfl
  · refine .num _ fs cs _ hp ⟨[], by simp [numParts, NumParts.bytes], ?_⟩ (by simp)
    simp [PhaseInv, NoFrac, NoExp]
  · refine .num _ fs cs _ hp ⟨[], by simp [numParts, NumParts.bytes], ?_⟩ (by simp)
    simp [PhaseInv, NoFrac, NoExp]
  · rename_i hd _ _ _ _ h0
    refine .num _ fs cs _ hp ⟨[], by simp [numParts, NumParts.bytes], ?_⟩ (by simp)
    simp only [PhaseInv, NoFrac, NoExp, and_self, and_true]
    exact Int19.one (by simpa using h0) hd
  · exact .strVal _ fs cs [] [] _ hp rfl (StrInv.init env false) (by simp)
  · rename_i hde _ _ _ _ _ _ _
    have hd : DepthOK env (fs.length + 1) := by
      intro hv hl
      simp [depthExceeded, hv, hl, Gen.remainingDepthInit] at hde; omega
    exact .val _ _ _ (.arr fs cs [] [] _ hp hd (.inl ⟨rfl, Ws.nil⟩) (by simp))
      (fun _ => ⟨fs, cs, [], rfl, hp, hd, Ws.nil, by simp⟩)
  · rename_i hde _ _ _ _ _ _ _ _
    have hd : DepthOK env (fs.length + 1) := by
      intro hv hl
      simp [depthExceeded, hv, hl, Gen.remainingDepthInit] at hde; omega
    exact .objFirst _ fs cs [] _ hp hd Ws.nil (by simp)

theorem step1_val (env : Env) (ctx : ValCtx) (fs : List Frame) (cs : Bytes) (b : UInt8)
    (hp : ValPos env fs cs)
    (hf : ctx = .arrFirst → ∃ fs' pre w, fs = .arr [] :: fs' ∧ ValPos env fs' pre ∧ DepthOK env (fs'.length + 1) ∧
        Ws w ∧ cs = pre ++ [0x5b] ++ w) :
    StepInv env cs b (step1 env ⟨.val ctx, fs⟩ b) := by
  unfold step1
  simp only
  split
  · rename_i hw
    refine .val ctx fs _ (hp.ws hw) (fun hc => ?_)
    obtain ⟨fs', pre, w, h1, h2, h3, h4, h5⟩ := hf hc
    exact ⟨fs', pre, w ++ [b], h1, h2, h3, Ws.snoc h4 hw, by simp [h5]⟩
  split
  · rename_i hb
    simp only [Bool.and_eq_true, beq_iff_eq, decide_eq_true_eq] at hb
    obtain ⟨rfl, hc⟩ := hb
    obtain ⟨fs', pre, w, rfl, h2, h3, h4, rfl⟩ := hf hc
    simp only [closeArr, StepInv]
    exact Inv.complete h2 (Derives.arrEmpty w h4) (Sem.arrEmpty h3) (by simp)
  split
  · trivial
  · exact startValue_inv env ⟨.val ctx, fs⟩ b cs hp

theorem step1_lit (env : Env) (rest : Bytes) (v : JV) (fs : List Frame) (pre done : Bytes) (t : CST) (cs : Bytes)
    (b : UInt8) (hp : ValPos env fs pre) (hd : Derives (done ++ rest) t) (hs : Sem env fs.length t v)
    (hc : cs = pre ++ done) : StepInv env cs b (step1 env ⟨.lit rest v, fs⟩ b) := by
  unfold step1
  simp only
  split
  · trivial
  · rename_i e es
    split
    · rename_i hb; simp only [beq_iff_eq] at hb; subst hb
      split
      · rename_i he; simp only [List.isEmpty_iff] at he; subst he
        exact Inv.complete hp hd hs (by simp [hc])
      · exact .lit es v fs pre (done ++ [b]) t _ hp (by simpa using hd) hs (by simp [hc])
    · trivial

theorem step1_num (env : Env) (n : NumSt) (fs : List Frame) (pre cs : Bytes) (b : UInt8)
    (hp : ValPos env fs pre) (hn : NumInv n) (hc : cs = pre ++ n.raw.reverse) :
    StepInv env cs b (step1 env ⟨.num n, fs⟩ b) := by
  unfold step1
  simp only
  cases h : stepNum env ⟨.num n, fs⟩ n b with
  | next s' =>
    obtain ⟨n', rfl, hr, hn'⟩ := stepNum_next env _ n b s' hn h
    exact .num n' fs pre _ hp hn' (by simp [hc, hr])
  | again s' =>
    obtain ⟨he, hf⟩ := stepNum_again env _ n b s' h
    obtain ⟨p, v, hd, rfl, hs⟩ := endNumber_sem env _ n s' hn hf hp.depth he
    exact Inv.complete hp hd hs hc
  | err c a => trivial


theorem step1_strVal (env : Env) (st : StrSt) (fs : List Frame) (pre : Bytes) (items : List StrItem)
    (tail cs : Bytes) (b : UInt8) (hp : ValPos env fs pre) (hk : st.isKey = false) (hi : StrInv env st items tail)
    (hc : cs = pre ++ [0x22] ++ items.flatMap StrItem.bytes ++ tail) :
    StepInv env cs b (step1 env ⟨.str st, fs⟩ b) := by
  unfold step1
  simp only
  cases h : stepStr env ⟨.str st, fs⟩ st b with
  | next s' =>
    rcases stepStr_next env _ st b s' items tail hi h with
      ⟨st', items', tail', rfl, hk', hi', hb⟩ | ⟨rfl, rfl, he⟩
    · refine .strVal st' fs pre items' tail' _ hp (hk' ▸ hk) hi' ?_
      simp only [hc, List.append_assoc] at hb ⊢; rw [hb]
    · obtain ⟨hd, hr⟩ := endStr_sem env _ st s' items hi.sv he
      rcases hr with ⟨hk', _⟩ | ⟨_, v, rfl, hs⟩
      · simp [hk] at hk'
      · exact Inv.complete hp hd (hs _ hp.depth) (by simp [hc, strBytes])
  | again s' => exact absurd h (stepStr_not_again env _ st b s')
  | err c a => trivial

theorem step1_strKey (env : Env) (st : StrSt) (fs : List Frame) (pre : Bytes) (mems : List (Bytes × JV))
    (key inner : Bytes) (items : List StrItem) (tail cs : Bytes) (b : UInt8)
    (hp : ValPos env fs pre) (hd : DepthOK env (fs.length + 1)) (ho : ObjPre env (fs.length + 1) mems inner)
    (hk : st.isKey = true) (hi : StrInv env st items tail)
    (hc : cs = pre ++ [0x7b] ++ inner ++ [0x22] ++ items.flatMap StrItem.bytes ++ tail) :
    StepInv env cs b (step1 env ⟨.str st, .obj mems key :: fs⟩ b) := by
  unfold step1
  simp only
  cases h : stepStr env ⟨.str st, .obj mems key :: fs⟩ st b with
  | next s' =>
    rcases stepStr_next env _ st b s' items tail hi h with
      ⟨st', items', tail', rfl, hk', hi', hb⟩ | ⟨rfl, rfl, he⟩
    · refine .strKey st' fs pre mems key inner items' tail' _ hp hd ho (hk' ▸ hk) hi' ?_
      simp only [hc, List.append_assoc] at hb ⊢; rw [hb]
    · obtain ⟨hder, hr⟩ := endStr_sem env _ st s' items hi.sv he
      rcases hr with ⟨_, hks, ms, k0, fs', hst, rfl⟩ | ⟨hk', _⟩
      · simp only [List.cons.injEq, Frame.obj.injEq] at hst
        obtain ⟨⟨rfl, rfl⟩, rfl⟩ := hst
        exact .afterKey _ _ fs pre inner items [] _ hp hd ho hi.sv.wf hks Ws.nil (by simp [hc, strBytes])
      · simp [hk] at hk'
  | again s' => exact absurd h (stepStr_not_again env _ st b s')
  | err c a => trivial


theorem step1_afterElem (env : Env) (es : List JV) (fs : List Frame) (pre inner w cs : Bytes) (b : UInt8)
    (hp : ValPos env fs pre) (hd : DepthOK env (fs.length + 1)) (hb : ArrBody env (fs.length + 1) es inner)
    (hw : Ws w) (hc : cs = pre ++ [0x5b] ++ inner ++ w) :
    StepInv env cs b (step1 env ⟨.afterElem, .arr es :: fs⟩ b) := by
  unfold step1
  simp only
  split
  · rename_i hws
    exact .afterElem es fs pre inner (w ++ [b]) _ hp hd hb (Ws.snoc hw hws) (by simp [hc])
  split
  · rename_i hb'; simp only [beq_iff_eq] at hb'; subst hb'
    exact .val _ _ _ (.arr fs pre es _ _ hp hd (hb.comma hw) (by simp [hc])) (by simp)
  split
  · rename_i hb'; simp only [beq_iff_eq] at hb'; subst hb'
    simp only [closeArr, StepInv]
    obtain ⟨t, hder, hs⟩ := hb.close hw
    exact Inv.complete hp hder hs (by simp [hc])
  · trivial

theorem step1_objFirst (env : Env) (key : Bytes) (fs : List Frame) (pre w cs : Bytes) (b : UInt8)
    (hp : ValPos env fs pre) (hd : DepthOK env (fs.length + 1)) (hw : Ws w) (hc : cs = pre ++ [0x7b] ++ w) :
    StepInv env cs b (step1 env ⟨.objFirst, .obj [] key :: fs⟩ b) := by
  unfold step1
  simp only
  split
  · rename_i hws
    exact .objFirst key fs pre (w ++ [b]) _ hp hd (Ws.snoc hw hws) (by simp [hc])
  split
  · rename_i hb'; simp only [beq_iff_eq] at hb'; subst hb'
    simp only [closeObj, StepInv]
    exact Inv.complete hp (Derives.objEmpty w hw) (Sem.objEmpty hd) (by simp [hc])
  split
  · rename_i hb'; simp only [beq_iff_eq] at hb'; subst hb'
    exact .strKey _ fs pre [] key w [] [] _ hp hd (.inl ⟨rfl, hw⟩) rfl (StrInv.init env true) (by simp [hc])
  · trivial

theorem step1_objNextKey (env : Env) (mems : List (Bytes × JV)) (key : Bytes) (fs : List Frame)
    (pre inner cs : Bytes) (b : UInt8)
    (hp : ValPos env fs pre) (hd : DepthOK env (fs.length + 1)) (ho : ObjPre env (fs.length + 1) mems inner)
    (hc : cs = pre ++ [0x7b] ++ inner) :
    StepInv env cs b (step1 env ⟨.objNextKey, .obj mems key :: fs⟩ b) := by
  unfold step1
  simp only
  split
  · rename_i hws
    exact .objNextKey mems key fs pre (inner ++ [b]) _ hp hd (ho.ws hws) (by simp [hc])
  split
  · rename_i hb'; simp only [beq_iff_eq] at hb'; subst hb'
    exact .strKey _ fs pre mems key inner [] [] _ hp hd ho rfl (StrInv.init env true) (by simp [hc])
  split <;> trivial

theorem step1_afterKey (env : Env) (mems : List (Bytes × JV)) (key : Bytes) (fs : List Frame)
    (pre inner : Bytes) (k : List StrItem) (w₁ cs : Bytes) (b : UInt8)
    (hp : ValPos env fs pre) (hd : DepthOK env (fs.length + 1)) (ho : ObjPre env (fs.length + 1) mems inner)
    (hk : StrWF k = true) (hks : KeySem env k key) (hw : Ws w₁)
    (hc : cs = pre ++ [0x7b] ++ inner ++ strBytes k ++ w₁) :
    StepInv env cs b (step1 env ⟨.afterKey, .obj mems key :: fs⟩ b) := by
  unfold step1
  simp only
  split
  · rename_i hws
    exact .afterKey mems key fs pre inner k (w₁ ++ [b]) _ hp hd ho hk hks (Ws.snoc hw hws) (by simp [hc])
  split
  · rename_i hb'; simp only [beq_iff_eq] at hb'; subst hb'
    exact .val _ _ _ (.obj fs pre mems inner k key w₁ [] _ hp hd ho hk hks hw Ws.nil (by simp [hc])) (by simp)
  · trivial

theorem step1_afterMember (env : Env) (mems : List (Bytes × JV)) (key : Bytes) (fs : List Frame)
    (pre inner w cs : Bytes) (b : UInt8)
    (hp : ValPos env fs pre) (hd : DepthOK env (fs.length + 1)) (hb : ObjBody env (fs.length + 1) mems inner)
    (hw : Ws w) (hc : cs = pre ++ [0x7b] ++ inner ++ w) :
    StepInv env cs b (step1 env ⟨.afterMember, .obj mems key :: fs⟩ b) := by
  unfold step1
  simp only
  split
  · rename_i hws
    exact .afterMember mems key fs pre inner (w ++ [b]) _ hp hd hb (Ws.snoc hw hws) (by simp [hc])
  split
  · rename_i hb'; simp only [beq_iff_eq] at hb'; subst hb'
    exact .objNextKey mems key fs pre _ _ hp hd (hb.comma hw) (by simp [hc])
  split
  · rename_i hb'; simp only [beq_iff_eq] at hb'; subst hb'
    simp only [closeObj, StepInv]
    obtain ⟨t, hder, hs⟩ := hb.close hw
    exact Inv.complete hp hder hs (by simp [hc])
  · trivial

theorem step1_done (env : Env) (v : JV) (w vb w' : Bytes) (t : CST) (cs : Bytes) (b : UInt8)
    (hw : Ws w) (hd : Derives vb t) (hs : Sem env 0 t v) (hw' : Ws w') (hc : cs = w ++ vb ++ w') :
    StepInv env cs b (step1 env ⟨.done v, []⟩ b) := by
  unfold step1
  simp only
  split
  · rename_i hws
    exact .done v w vb (w' ++ [b]) t _ hw hd hs (Ws.snoc hw' hws) (by simp [hc])
  · trivial

/-- every step preserves the shape invariant -/
theorem step1_inv (env : Env) (s : St) (cs : Bytes) (b : UInt8) (hi : Inv env s cs) :
    StepInv env cs b (step1 env s b) := by
  cases hi with
  | val ctx fs cs hp hf => exact step1_val env ctx fs cs b hp hf
  | lit rest v fs pre done t cs hp hd hs hc => exact step1_lit env rest v fs pre done t cs b hp hd hs hc
  | num n fs pre cs hp hn hc => exact step1_num env n fs pre cs b hp hn hc
  | strVal st fs pre items tail cs hp hk hi hc => exact step1_strVal env st fs pre items tail cs b hp hk hi hc
  | strKey st fs pre mems key inner items tail cs hp hd ho hk hi hc =>
    exact step1_strKey env st fs pre mems key inner items tail cs b hp hd ho hk hi hc
  | afterElem es fs pre inner w cs hp hd hb hw hc => exact step1_afterElem env es fs pre inner w cs b hp hd hb hw hc
  | objFirst key fs pre w cs hp hd hw hc => exact step1_objFirst env key fs pre w cs b hp hd hw hc
  | objNextKey mems key fs pre inner cs hp hd ho hc => exact step1_objNextKey env mems key fs pre inner cs b hp hd ho hc
  | afterKey mems key fs pre inner k w₁ cs hp hd ho hk hks hw hc =>
    exact step1_afterKey env mems key fs pre inner k w₁ cs b hp hd ho hk hks hw hc
  | afterMember mems key fs pre inner w cs hp hd hb hw hc =>
    exact step1_afterMember env mems key fs pre inner w cs b hp hd hb hw hc
  | done v w vb w' t cs hw hd hs hw' hc => exact step1_done env v w vb w' t cs b hw hd hs hw' hc

theorem step_inv (env : Env) (s : St) (cs : Bytes) (b : UInt8) (s' : St) (hi : Inv env s cs)
    (h : step env s b = .ok s') : Inv env s' (cs ++ [b]) := by
  unfold step at h
  have h1 := step1_inv env s cs b hi
  split at h
  · rename_i s1 e1; rw [e1] at h1; simp only [Except.ok.injEq] at h; subst h; exact h1
  · simp at h
  · rename_i s1 e1; rw [e1] at h1
    have h2 := step1_inv env s1 cs b h1
    split at h
    · rename_i s2 e2; rw [e2] at h2; simp only [Except.ok.injEq] at h; subst h; exact h2
    · simp at h
    · simp at h

theorem feed_inv (env : Env) (s : St) (cs : Bytes) (i : Nat) (xs : Bytes) (s' : St) (j : Nat)
    (hi : Inv env s cs) (h : SJ.Proofs.Machine.feed env s i xs = .ok (s', j)) : Inv env s' (cs ++ xs) := by
  induction xs generalizing s cs i with
  | nil => simp [SJ.Proofs.Machine.feed] at h; simpa [h.1] using hi
  | cons b bs ih =>
    simp only [SJ.Proofs.Machine.feed] at h
    cases hs : step env s b with
    | ok s1 =>
      rw [hs] at h
      have := ih s1 (cs ++ [b]) (i + 1) (step_inv env s cs b s1 hi hs) h
      simpa using this
    | error e => obtain ⟨c, a⟩ := e; rw [hs] at h; cases h

end SJ.Proofs.Sound
