import SJ.Proofs.Sound.Step
/-!
# Soundness of the machine: end of input, and the whole run
-/
namespace SJ.Proofs.Sound
open SJ SJ.Spec.Grammar SJ.Spec.Denote SJ.Model.Machine SJ.Proofs.CanonM SJ.Proofs.Machine

theorem finishMode_complete_ok (env : Env) (fs : List Frame) (v' v : JV)
    (h : finishMode env (Model.Machine.complete fs v') = .ok v) : fs = [] ∧ v' = v := by
  unfold Model.Machine.complete at h
  split at h <;> simp [finishMode] at h
  exact ⟨rfl, h⟩

theorem ValPos.top_inv {env : Env} {pre : Bytes} (h : ValPos env [] pre) : Ws pre := by
  cases h with
  | top w hw => exact hw

theorem finish_inv (env : Env) (s : St) (cs : Bytes) (v : JV) (hi : Inv env s cs) (h : finish env s = .ok v) :
    ∃ t, JsonText cs t ∧ Sem env 0 t v := by
  cases hi with
  | done v' w vb w' t cs hw hd hs hw' hc =>
    simp [finish, finishMode] at h; subst h
    exact ⟨t, ⟨w, vb, w', hc, hw, hw', hd⟩, hs⟩
  | num n fs pre cs hp hn hc =>
    unfold finish at h
    simp only at h
    have key : ∀ (hf : FinalPhase n.phase) s', endNumber env ⟨.num n, fs⟩ n = .ok s' → finishMode env s' = .ok v →
        ∃ t, JsonText cs t ∧ Sem env 0 t v := by
      intro hf s' he hm
      obtain ⟨p, v', hd, rfl, hs⟩ := endNumber_sem env _ n s' hn hf hp.depth he
      obtain ⟨rfl, rfl⟩ := finishMode_complete_ok env _ _ _ hm
      exact ⟨.num p, ⟨pre, _, [], by simp [hc], hp.top_inv, Ws.nil, hd⟩, hs⟩
    split at h
    all_goals first
      | (simp at h; done)
      | (rename_i h1 h2 h3 h4
         have hfp : FinalPhase n.phase := by
           cases hph : n.phase <;> simp_all [FinalPhase]
         split at h
         · rename_i s' he; exact key hfp s' he h
         · simp at h)
  | val ctx fs cs hp hf => cases ctx <;> simp [finish, finishMode] at h
  | lit rest v fs pre done t cs hp hd hs hc => simp [finish, finishMode] at h
  | strVal st fs pre items tail cs hp hk hi hc => simp [finish, finishMode] at h
  | strKey st fs pre mems key inner items tail cs hp hd ho hk hi hc => simp [finish, finishMode] at h
  | afterElem es fs pre inner w cs hp hd hb hw hc => simp [finish, finishMode] at h
  | objFirst key fs pre w cs hp hd hw hc => simp [finish, finishMode] at h
  | objNextKey mems key fs pre inner cs hp hd ho hc => simp [finish, finishMode] at h
  | afterKey mems key fs pre inner k w₁ cs hp hd ho hk hks hw hc => simp [finish, finishMode] at h
  | afterMember mems key fs pre inner w cs hp hd hb hw hc => simp [finish, finishMode] at h

/-- **Soundness of the machine** (both targets): an accepted input is a JSON text whose tree carries the
    returned value and satisfies the side conditions bundled in `Sem` -/
theorem parseTop_sound (env : Env) (bs : Bytes) (v : JV) (h : parseTop env bs = .ok v) :
    ∃ t, JsonText bs t ∧ Sem env 0 t v := by
  unfold parseTop at h
  rw [run_eq_feed_finish] at h
  cases hf : feed env init 0 bs with
  | error e => obtain ⟨c, j⟩ := e; rw [hf] at h; simp at h
  | ok r =>
    obtain ⟨s', j⟩ := r
    rw [hf] at h
    simp only at h
    have hi := feed_inv env init [] 0 bs s' j (Inv.init env) hf
    simp only [List.nil_append] at hi
    cases hfin : finish env s' with
    | ok v' => rw [hfin] at h; simp only [Outcome.ok.injEq] at h; subst h; exact finish_inv env s' bs v' hi hfin
    | error c => rw [hfin] at h; simp at h

/-- `canonMList` is element-wise `canonM`, in order -/
theorem canonMList_get (cfg : Cfg) (ts : List CST) (vs : List JV) (h : canonMList cfg ts = some vs) :
    ts.length = vs.length ∧
    ∀ (i : Nat) (h1 : i < ts.length) (h2 : i < vs.length), canonM cfg ts[i] = some vs[i] := by
  induction ts generalizing vs with
  | nil => simp [canonMList] at h; subst h; simp
  | cons x xs ih =>
    simp only [canonMList] at h
    split at h
    · rename_i v' vs' hx hxs
      simp only [Option.some.injEq] at h; subst h
      obtain ⟨hl, hg⟩ := ih vs' hxs
      refine ⟨by simp [hl], fun i h1 h2 => ?_⟩
      cases i with
      | zero => simpa using hx
      | succ j => simpa using hg j (by simpa using h1) (by simpa using h2)
    · simp at h

end SJ.Proofs.Sound
