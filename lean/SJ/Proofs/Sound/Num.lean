import SJ.Proofs.Sound.Sem
/-!
# Numbers: the scanned `NumSt` is a prefix of a `NumParts` spelling
-/
namespace SJ.Proofs.Sound
open SJ SJ.Spec.Grammar SJ.Spec.Denote SJ.Model.Machine SJ.Model.Num SJ.Proofs.CanonM

/-- the literal scanned so far, as grammar parts; `ep` is the spelling of the exponent marker and
    sign (the machine only keeps them in `raw`) -/
def numParts (n : NumSt) (ep : Bytes) : NumParts :=
  { minus := n.neg, int := n.int.reverse,
    frac := if n.hasFrac then 0x2e :: n.frac.reverse else [],
    exp := if n.hasExp then ep ++ n.expDigits.reverse else [] }

/-- reversed digit list spelling a non-zero-led integer part -/
def Int19 (r : Bytes) : Prop :=
  ∃ d ds, r.reverse = d :: ds ∧ isDigit19 d = true ∧ ds.all Spec.Grammar.isDigit = true

def FracOK (hasFrac : Bool) (frac : Bytes) : Prop :=
  hasFrac = false ∨ (frac ≠ [] ∧ frac.all Spec.Grammar.isDigit = true)

def EpOK (expNeg : Bool) (ep : Bytes) : Prop :=
  (expNeg = false ∧ (ep = [0x65] ∨ ep = [0x45] ∨ ep = [0x65, 0x2b] ∨ ep = [0x45, 0x2b])) ∨
  (expNeg = true ∧ (ep = [0x65, 0x2d] ∨ ep = [0x45, 0x2d]))

def NoFrac (n : NumSt) : Prop := n.hasFrac = false ∧ n.frac = []
def NoExp (n : NumSt) : Prop := n.hasExp = false ∧ n.expNeg = false ∧ n.expDigits = []

def PhaseInv (n : NumSt) (ep : Bytes) : Prop :=
  match n.phase with
  | .afterMinus => n.neg = true ∧ n.int = [] ∧ NoFrac n ∧ NoExp n
  | .zero => n.int = [0x30] ∧ NoFrac n ∧ NoExp n
  | .int => Int19 n.int ∧ NoFrac n ∧ NoExp n
  | .fracStart => isInt n.int.reverse = true ∧ n.hasFrac = true ∧ n.frac = [] ∧ NoExp n
  | .frac => isInt n.int.reverse = true ∧ n.hasFrac = true ∧ n.frac ≠ [] ∧
      n.frac.all Spec.Grammar.isDigit = true ∧ NoExp n
  | .expStart => isInt n.int.reverse = true ∧ FracOK n.hasFrac n.frac ∧ n.hasExp = true ∧ n.expNeg = false ∧
      n.expDigits = [] ∧ (ep = [0x65] ∨ ep = [0x45])
  | .expSign => isInt n.int.reverse = true ∧ FracOK n.hasFrac n.frac ∧ n.hasExp = true ∧ n.expDigits = [] ∧
      ((n.expNeg = false ∧ (ep = [0x65, 0x2b] ∨ ep = [0x45, 0x2b])) ∨
       (n.expNeg = true ∧ (ep = [0x65, 0x2d] ∨ ep = [0x45, 0x2d])))
  | .exp => isInt n.int.reverse = true ∧ FracOK n.hasFrac n.frac ∧ n.hasExp = true ∧ n.expDigits ≠ [] ∧
      n.expDigits.all Spec.Grammar.isDigit = true ∧ EpOK n.expNeg ep

def NumInv (n : NumSt) : Prop := ∃ ep, (numParts n ep).bytes = n.raw.reverse ∧ PhaseInv n ep

/-- phases in which the literal scanned so far is a complete number -/
def FinalPhase : NPhase → Prop
  | .zero | .int | .frac | .exp => True
  | _ => False

theorem isDigit_eq (b : UInt8) : Model.Machine.isDigit b = Spec.Grammar.isDigit b := rfl

theorem Int19.isInt {r : Bytes} (h : Int19 r) : isInt r.reverse = true := by
  obtain ⟨d, ds, e, h1, h2⟩ := h
  rw [e]
  cases ds with
  | nil => simp [Spec.Grammar.isInt, Spec.Grammar.isDigit, isDigit19] at *; exact ⟨by u8, h1.2⟩
  | cons x xs => simp [Spec.Grammar.isInt, h1] at *; exact h2

theorem Int19.push {r : Bytes} {b : UInt8} (h : Int19 r) (hb : Spec.Grammar.isDigit b = true) :
    Int19 (b :: r) := by
  obtain ⟨d, ds, e, h1, h2⟩ := h
  exact ⟨d, ds ++ [b], by simp [e], h1, by simp [h2, hb]⟩

theorem Int19.one {b : UInt8} (h0 : (b == 0x30) = false) (hb : Spec.Grammar.isDigit b = true) :
    Int19 [b] := by
  refine ⟨b, [], by simp, ?_, by simp⟩
  simp [Spec.Grammar.isDigit, isDigit19] at *
  exact ⟨by u8, hb.2⟩

set_option linter.unusedSimpArgs false in
theorem not_digit_of_sign {b : UInt8} (h : Spec.Grammar.isDigit b = true) : b ≠ 0x2d ∧ b ≠ 0x2b := by
  simp [Spec.Grammar.isDigit] at h
  constructor <;> (intro e; subst e; simp at h)

set_option linter.unusedSimpArgs false in
theorem stepNum_next (env : Env) (s : St) (n : NumSt) (b : UInt8) (s' : St) (hi : NumInv n)
    (h : stepNum env s n b = .next s') :
    ∃ n', s' = { s with mode := .num n' } ∧ n'.raw = b :: n.raw ∧ NumInv n' := by
  obtain ⟨ep, hb, hp⟩ := hi
  obtain ⟨phase, neg, int, hasFrac, frac, hasExp, expNeg, expDigits, raw⟩ := n
  unfold stepNum at h
  simp only at h
  unfold PhaseInv at hp
  simp only [NoFrac, NoExp] at hp
  simp only [numParts, NumParts.bytes] at hb
  split at h
  all_goals (simp only at hp)
  all_goals (repeat' split at h)
  all_goals (first | (simp at h; done) | skip)
  all_goals (simp only [Step.next.injEq] at h; subst h; refine ⟨_, rfl, rfl, ?_⟩)
  all_goals (try simp only [isDigit_eq] at *)
  all_goals (try simp only [beq_iff_eq, Bool.or_eq_true] at *)
  all_goals first
    | (refine ⟨ep, ?_, ?_⟩
       · simp [numParts, NumParts.bytes, hp] at hb ⊢; simp [← hb]
       · unfold PhaseInv; simp [hp, FracOK, NoFrac, NoExp, Int19.one, Int19.push, Int19.isInt, *]; done)
    | (refine ⟨[b], ?_, ?_⟩
       · simp [numParts, NumParts.bytes, hp] at hb ⊢; simp [← hb]
       · unfold PhaseInv; simp [hp, FracOK, NoFrac, NoExp, Int19.one, Int19.push, Int19.isInt, *]; done)
    | (refine ⟨ep ++ [b], ?_, ?_⟩
       · simp [numParts, NumParts.bytes, hp] at hb ⊢; simp [← hb]
       · unfold PhaseInv; simp [hp, FracOK, NoFrac, NoExp, Int19.one, Int19.push, Int19.isInt, *]; done)
    | skip
  case h_2.isFalse.isTrue =>
    obtain ⟨rfl, ⟨rfl, rfl⟩, rfl, rfl, rfl⟩ := hp
    rename_i hb46; subst hb46
    refine ⟨ep, ?_, ?_⟩
    · simp [numParts, NumParts.bytes] at hb ⊢; simp [← hb]
    · simp [PhaseInv, NoExp, Spec.Grammar.isInt, Spec.Grammar.isDigit]
  case h_2.isFalse.isFalse.isTrue =>
    obtain ⟨rfl, ⟨rfl, rfl⟩, rfl, rfl, rfl⟩ := hp
    refine ⟨[b], ?_, ?_⟩
    · simp [numParts, NumParts.bytes] at hb ⊢; simp [← hb]
    · simp [PhaseInv, FracOK, Spec.Grammar.isInt, Spec.Grammar.isDigit]; assumption
  case h_3.isFalse.isTrue =>
    obtain ⟨hi, ⟨rfl, rfl⟩, rfl, rfl, rfl⟩ := hp
    rename_i hb46; subst hb46
    refine ⟨ep, ?_, ?_⟩
    · simp [numParts, NumParts.bytes] at hb ⊢; simp [← hb]
    · simp [PhaseInv, NoExp, hi.isInt]
  case h_6.isTrue =>
    obtain ⟨hi, hf, rfl, rfl, rfl, he⟩ := hp
    rename_i hb'; subst hb'
    refine ⟨ep ++ [0x2b], ?_, ?_⟩
    · simp [numParts, NumParts.bytes] at hb ⊢; simp [← hb]
    · simp [PhaseInv, hi, hf]; rcases he with rfl | rfl <;> simp
  case h_6.isFalse.isTrue =>
    obtain ⟨hi, hf, rfl, rfl, rfl, he⟩ := hp
    rename_i hb'; subst hb'
    refine ⟨ep ++ [0x2d], ?_, ?_⟩
    · simp [numParts, NumParts.bytes] at hb ⊢; simp [← hb]
    · simp [PhaseInv, hi, hf]; rcases he with rfl | rfl <;> simp
  case h_6.isFalse.isFalse.isTrue =>
    obtain ⟨hi, hf, rfl, rfl, rfl, he⟩ := hp
    refine ⟨ep, ?_, ?_⟩
    · simp [numParts, NumParts.bytes] at hb ⊢; simp [← hb]
    · simp [PhaseInv, hi, hf, EpOK, *]; rcases he with rfl | rfl <;> simp
  case h_7.isTrue =>
    obtain ⟨hi, hf, rfl, rfl, he⟩ := hp
    refine ⟨ep, ?_, ?_⟩
    · simp [numParts, NumParts.bytes] at hb ⊢; simp [← hb]
    · simp [PhaseInv, hi, hf, EpOK, *]
      rcases he with ⟨rfl, rfl | rfl⟩ | ⟨rfl, rfl | rfl⟩ <;> simp
  case h_8.isTrue.isFalse =>
    obtain ⟨hi, hf, rfl, hne, hd, he⟩ := hp
    refine ⟨ep, ?_, ?_⟩
    · simp [numParts, NumParts.bytes] at hb ⊢; simp [← hb]
    · simp [PhaseInv, hi, hf, he, *]

theorem stepNum_again (env : Env) (s : St) (n : NumSt) (b : UInt8) (s' : St)
    (h : stepNum env s n b = .again s') : endNumber env s n = .ok s' ∧ FinalPhase n.phase := by
  unfold stepNum at h
  simp only at h
  split at h
  all_goals (rename_i hph; simp only [hph, FinalPhase, and_true])
  all_goals (repeat' split at h)
  all_goals (first | (simp at h; done) | (rename_i hs; simp at h; subst h; exact hs))

theorem exp_ok (m : Bool) (i f : Bytes) (expNeg : Bool) (ep ds : Bytes) (he : EpOK expNeg ep) (hne : ds ≠ [])
    (hd : ds.all Spec.Grammar.isDigit = true) :
    isExp (ep ++ ds) = true ∧
    (Spec.Canon.partsOf { minus := m, int := i, frac := f, exp := ep ++ ds }).exp = some (expNeg, ds) := by
  cases ds with
  | nil => simp at hne
  | cons d ds =>
    simp only [List.all_cons, Bool.and_eq_true] at hd
    have hs := not_digit_of_sign hd.1
    rcases he with ⟨rfl, rfl | rfl | rfl | rfl⟩ | ⟨rfl, rfl | rfl⟩ <;>
      simp [Spec.Grammar.isExp, Spec.Canon.partsOf, hd.1, hd.2, hs.1, hs.2]

theorem numInv_final (n : NumSt) (hi : NumInv n) (hf : FinalPhase n.phase) :
    ∃ p : NumParts, p.WF = true ∧ p.bytes = n.raw.reverse ∧ Spec.Canon.partsOf p = n.parts := by
  obtain ⟨ep, hb, hp⟩ := hi
  refine ⟨numParts n ep, ?_, hb, ?_⟩
  · obtain ⟨phase, neg, int, hasFrac, frac, hasExp, expNeg, expDigits, raw⟩ := n
    unfold PhaseInv at hp
    simp only [NoFrac, NoExp] at hp
    cases phase <;> simp only [FinalPhase] at hf <;> simp only at hp
    · obtain ⟨rfl, ⟨rfl, rfl⟩, rfl, rfl, rfl⟩ := hp
      simp [numParts, NumParts.WF, Spec.Grammar.isInt, Spec.Grammar.isDigit, isFrac, isExp]
    · obtain ⟨hi, ⟨rfl, rfl⟩, rfl, rfl, rfl⟩ := hp
      simp [numParts, NumParts.WF, hi.isInt, isFrac, isExp]
    · obtain ⟨hi, rfl, hne, hd, rfl, rfl, rfl⟩ := hp
      simp [numParts, NumParts.WF, hi, isFrac, isExp, hne]; simpa using hd
    · obtain ⟨hi, hfr, rfl, hne, hd, he⟩ := hp
      have := (exp_ok neg int frac expNeg ep expDigits.reverse he (by simpa using hne) (by simpa using hd)).1
      simp only [numParts, NumParts.WF, hi, this, if_true, Bool.true_and, Bool.and_true]
      rcases hfr with rfl | ⟨h1, h2⟩
      · simp [isFrac]
      · cases hasFrac <;> simp [isFrac, h1]; simpa using h2
  · unfold NumSt.parts; rw [← hb]
    obtain ⟨phase, neg, int, hasFrac, frac, hasExp, expNeg, expDigits, raw⟩ := n
    unfold PhaseInv at hp
    simp only [NoFrac, NoExp] at hp
    cases phase <;> simp only [FinalPhase] at hf <;> simp only at hp
    · obtain ⟨rfl, ⟨rfl, rfl⟩, rfl, rfl, rfl⟩ := hp
      simp [numParts, Spec.Canon.partsOf]
    · obtain ⟨hi, ⟨rfl, rfl⟩, rfl, rfl, rfl⟩ := hp
      simp [numParts, Spec.Canon.partsOf]
    · obtain ⟨hi, rfl, hne, hd, rfl, rfl, rfl⟩ := hp
      simp [numParts, Spec.Canon.partsOf]
    · obtain ⟨hi, hfr, rfl, hne, hd, he⟩ := hp
      have := (exp_ok neg int.reverse (if hasFrac then 0x2e :: frac.reverse else []) expNeg ep expDigits.reverse he (by simpa using hne) (by simpa using hd)).2
      simp only [Spec.Canon.partsOf] at this
      simp only [numParts, Spec.Canon.partsOf, if_true, this]
      cases hasFrac <;> simp

theorem numValue_sem (env : Env) (n : NumSt) (p : NumParts) (v : JV)
    (hp : Spec.Canon.partsOf p = n.parts) (hb : p.bytes = n.raw.reverse) (h : numValue env n = .ok v) :
    ∃ x, Spec.Canon.numOf (specCfg env.cfg) p = some x ∧ v = .num x := by
  unfold numValue at h
  simp only at h
  unfold Spec.Canon.numOf Spec.Canon.convert
  simp only [specCfg, hp]
  split at h
  · rename_i hap
    simp only [hap, if_true]
    simp only [Except.ok.injEq] at h
    refine ⟨_, rfl, ?_⟩
    rw [← h, hb]; rfl
  · rename_i hap
    simp only [hap]
    split at h <;> rename_i hc
    all_goals (rw [hc])
    all_goals first | (simp at h; done) | (simp only [Except.ok.injEq] at h; exact ⟨_, by simp, h.symm⟩)

/-- a completed number literal: its bytes derive `.num p`, and the value (or placeholder) the machine
    hands to `complete` is the denotation of `p` -/
theorem endNumber_sem (env : Env) (s : St) (n : NumSt) (s' : St) (hi : NumInv n) (hf : FinalPhase n.phase)
    (hd : DepthOK env s.stack.length) (h : endNumber env s n = .ok s') :
    ∃ p v, Derives n.raw.reverse (.num p) ∧ s' = complete s.stack v ∧ Sem env s.stack.length (.num p) v := by
  obtain ⟨p, hwf, hb, hp⟩ := numInv_final n hi hf
  unfold endNumber at h
  split at h
  · rename_i hv
    split at h
    · rename_i v hnv
      simp only [Except.ok.injEq] at h
      obtain ⟨x, hx, rfl⟩ := numValue_sem env n p v hp hb hnv
      refine ⟨p, _, hb ▸ Derives.num p hwf, h.symm, ⟨fun _ => ?_, fun hi => by simp [hv] at hi⟩⟩
      exact { val := by simp [canonM, hx], sur := by simp [surrogatesPaired],
              utf := fun _ => by simp [Spec.Canon.stringsUtf8],
              rng := by simp [Spec.Canon.numbersInRange, hx],
              dep := fun hl => by have := hd hv hl; simp [depth]; omega }
    · simp at h
  · rename_i hv
    simp only [Except.ok.injEq] at h
    refine ⟨p, _, hb ▸ Derives.num p hwf, h.symm, ⟨fun hv' => absurd hv' hv, fun _ => rfl⟩⟩
end SJ.Proofs.Sound
