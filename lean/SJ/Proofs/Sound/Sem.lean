import SJ.Proofs.Sound.Basics
/-!
# What the shape invariant knows about each completed value, element list and member list
-/
namespace SJ.Proofs.Sound
open SJ SJ.Spec.Grammar SJ.Spec.Denote SJ.Model.Machine SJ.Proofs.CanonM
open SJ.Spec.Canon (stringsUtf8 stringsUtf8List stringsUtf8Members numbersInRange numbersInRangeList numbersInRangeMembers)

/-- the recursion-limit bound applies (target `Value`, limit enabled) -/
def DepthOK (env : Env) (n : Nat) : Prop := env.tgt = .value → env.cfg.limitOff = false → n ≤ 127

/-- value target: `v` is the denotation of `t`, the side conditions hold for `t`, and `t` fits under
    the recursion limit when it sits inside `h` open containers -/
structure SemV (env : Env) (h : Nat) (t : CST) (v : JV) : Prop where
  val : canonM env.cfg t = some v
  sur : surrogatesPaired t = true
  utf : env.src ≠ .str → stringsUtf8 t = true
  rng : numbersInRange (specCfg env.cfg) t = true
  dep : env.cfg.limitOff = false → depth t + h ≤ 127

/-- a completed value: full semantics for the `Value` target, `null` placeholder when skipping -/
structure Sem (env : Env) (h : Nat) (t : CST) (v : JV) : Prop where
  val : env.tgt = .value → SemV env h t v
  ign : env.tgt = .ignored → v = .null

structure KeySemV (env : Env) (k : List StrItem) (kb : Bytes) : Prop where
  val : decodeItems k = some kb
  sur : surrogatesPairedStr k = true
  utf : env.src ≠ .str → Spec.Utf8.validUtf8 kb = true

def KeySem (env : Env) (k : List StrItem) (kb : Bytes) : Prop := env.tgt = .value → KeySemV env k kb

structure ArrSemV (env : Env) (h : Nat) (ts : List CST) (vs : List JV) : Prop where
  val : canonMList env.cfg ts = some vs
  sur : surrogatesPairedList ts = true
  utf : env.src ≠ .str → stringsUtf8List ts = true
  rng : numbersInRangeList (specCfg env.cfg) ts = true
  dep : env.cfg.limitOff = false → depthList ts + h ≤ 127

/-- elements of an open array: trees in source order, values as stored in the frame (reversed) -/
def ArrSem (env : Env) (h : Nat) (ts : List CST) (es : List JV) : Prop :=
  env.tgt = .value → ArrSemV env h ts es.reverse

structure ObjSemV (env : Env) (h : Nat) (ms : List (List StrItem × CST)) (kvs : List (Bytes × JV)) : Prop where
  val : canonMMembers env.cfg ms = some kvs
  sur : surrogatesPairedMembers ms = true
  utf : env.src ≠ .str → stringsUtf8Members ms = true
  rng : numbersInRangeMembers (specCfg env.cfg) ms = true
  dep : env.cfg.limitOff = false → depthMembers ms + h ≤ 127

def ObjSem (env : Env) (h : Nat) (ms : List (List StrItem × CST)) (mems : List (Bytes × JV)) : Prop :=
  env.tgt = .value → ObjSemV env h ms mems.reverse

/-! ### arrays -/

theorem ArrSemV.one {env : Env} {h : Nat} {t : CST} {v : JV} (hs : SemV env h t v) :
    ArrSemV env h [t] [v] where
  val := by simp [canonMList, hs.val]
  sur := by simp [surrogatesPairedList, hs.sur]
  utf := fun hu => by simp [stringsUtf8List, hs.utf hu]
  rng := by simp [numbersInRangeList, hs.rng]
  dep := fun hl => by have := hs.dep hl; simp [depthList]; omega

theorem ArrSemV.snoc {env : Env} {h : Nat} {ts : List CST} {vs : List JV} {t : CST} {v : JV}
    (ha : ArrSemV env h ts vs) (hs : SemV env h t v) : ArrSemV env h (ts ++ [t]) (vs ++ [v]) where
  val := canonMList_snoc _ _ _ _ _ ha.val hs.val
  sur := by simp [surrogatesPairedList_snoc, ha.sur, hs.sur]
  utf := fun hu => by simp [stringsUtf8List_snoc, ha.utf hu, hs.utf hu]
  rng := by simp [numbersInRangeList_snoc, ha.rng, hs.rng]
  dep := fun hl => by
    have := hs.dep hl; have := ha.dep hl
    rw [depthList_snoc]; omega

theorem ArrSemV.close {env : Env} {h : Nat} {ts : List CST} {vs : List JV}
    (ha : ArrSemV env (h + 1) ts vs) : SemV env h (.arr ts) (.arr vs) where
  val := by simp [canonM, ha.val]
  sur := by simp [surrogatesPaired, ha.sur]
  utf := fun hu => by simp [stringsUtf8, ha.utf hu]
  rng := by simp [numbersInRange, ha.rng]
  dep := fun hl => by have := ha.dep hl; simp [depth]; omega

theorem SemV.arrEmpty {env : Env} {h : Nat} (hd : env.cfg.limitOff = false → h + 1 ≤ 127) :
    SemV env h (.arr []) (.arr []) where
  val := by simp [canonM, canonMList]
  sur := by simp [surrogatesPaired, surrogatesPairedList]
  utf := fun _ => by simp [stringsUtf8, stringsUtf8List]
  rng := by simp [numbersInRange, numbersInRangeList]
  dep := fun hl => by have := hd hl; simp [depth, depthList]; omega

theorem ArrSem.one {env : Env} {h : Nat} {t : CST} {v : JV} (hs : Sem env h t v) :
    ArrSem env h [t] [v] := fun hv => by simpa using ArrSemV.one (hs.val hv)

theorem ArrSem.snoc {env : Env} {h : Nat} {ts : List CST} {es : List JV} {t : CST} {v : JV}
    (ha : ArrSem env h ts es) (hs : Sem env h t v) : ArrSem env h (ts ++ [t]) (v :: es) :=
  fun hv => by simpa using (ha hv).snoc (hs.val hv)

theorem ArrSem.close {env : Env} {h : Nat} {ts : List CST} {es : List JV}
    (ha : ArrSem env (h + 1) ts es) :
    Sem env h (.arr ts) (if env.tgt = .value then .arr es.reverse else .null) where
  val := fun hv => by simpa [hv] using (ha hv).close
  ign := fun hi => by simp [hi]

theorem Sem.arrEmpty {env : Env} {h : Nat} (hd : DepthOK env (h + 1)) :
    Sem env h (.arr []) (if env.tgt = .value then .arr ([] : List JV).reverse else .null) where
  val := fun hv => by simpa [hv] using SemV.arrEmpty (hd hv)
  ign := fun hi => by simp [hi]

/-! ### objects -/

theorem ObjSemV.one {env : Env} {h : Nat} {k : List StrItem} {kb : Bytes} {t : CST} {v : JV}
    (hk : KeySemV env k kb) (hs : SemV env h t v) : ObjSemV env h [(k, t)] [(kb, v)] where
  val := by simp [canonMMembers, hs.val, hk.val]
  sur := by simp [surrogatesPairedMembers, hs.sur, hk.sur]
  utf := fun hu => by simp [stringsUtf8Members, hs.utf hu, hk.val, hk.utf hu]
  rng := by simp [numbersInRangeMembers, hs.rng]
  dep := fun hl => by have := hs.dep hl; simp [depthMembers]; omega

theorem ObjSemV.snoc {env : Env} {h : Nat} {ms : List (List StrItem × CST)} {kvs : List (Bytes × JV)}
    {k : List StrItem} {kb : Bytes} {t : CST} {v : JV}
    (ho : ObjSemV env h ms kvs) (hk : KeySemV env k kb) (hs : SemV env h t v) :
    ObjSemV env h (ms ++ [(k, t)]) (kvs ++ [(kb, v)]) where
  val := canonMMembers_snoc _ _ _ _ _ _ _ ho.val hk.val hs.val
  sur := by simp [surrogatesPairedMembers_snoc, ho.sur, hs.sur, hk.sur]
  utf := fun hu => by simp [stringsUtf8Members_snoc, ho.utf hu, hs.utf hu, hk.val, hk.utf hu]
  rng := by simp [numbersInRangeMembers_snoc, ho.rng, hs.rng]
  dep := fun hl => by
    have := hs.dep hl; have := ho.dep hl
    rw [depthMembers_snoc]; omega

theorem ObjSemV.close {env : Env} {h : Nat} {ms : List (List StrItem × CST)} {kvs : List (Bytes × JV)}
    (ho : ObjSemV env (h + 1) ms kvs) : SemV env h (.obj ms) (mkObj env.cfg kvs) where
  val := by simp [canonM, ho.val]
  sur := by simp [surrogatesPaired, ho.sur]
  utf := fun hu => by simp [stringsUtf8, ho.utf hu]
  rng := by simp [numbersInRange, ho.rng]
  dep := fun hl => by have := ho.dep hl; simp [depth]; omega

theorem SemV.objEmpty {env : Env} {h : Nat} (hd : env.cfg.limitOff = false → h + 1 ≤ 127) :
    SemV env h (.obj []) (mkObj env.cfg []) where
  val := by simp [canonM, canonMMembers]
  sur := by simp [surrogatesPaired, surrogatesPairedMembers]
  utf := fun _ => by simp [stringsUtf8, stringsUtf8Members]
  rng := by simp [numbersInRange, numbersInRangeMembers]
  dep := fun hl => by have := hd hl; simp [depth, depthMembers]; omega

theorem ObjSem.one {env : Env} {h : Nat} {k : List StrItem} {kb : Bytes} {t : CST} {v : JV}
    (hk : KeySem env k kb) (hs : Sem env h t v) : ObjSem env h [(k, t)] [(kb, v)] :=
  fun hv => by simpa using ObjSemV.one (hk hv) (hs.val hv)

theorem ObjSem.snoc {env : Env} {h : Nat} {ms : List (List StrItem × CST)} {mems : List (Bytes × JV)}
    {k : List StrItem} {kb : Bytes} {t : CST} {v : JV}
    (ho : ObjSem env h ms mems) (hk : KeySem env k kb) (hs : Sem env h t v) :
    ObjSem env h (ms ++ [(k, t)]) ((kb, v) :: mems) :=
  fun hv => by simpa using (ho hv).snoc (hk hv) (hs.val hv)

theorem ObjSem.close {env : Env} {h : Nat} {ms : List (List StrItem × CST)} {mems : List (Bytes × JV)}
    (ho : ObjSem env (h + 1) ms mems) :
    Sem env h (.obj ms) (if env.tgt = .value then mkObj env.cfg mems.reverse else .null) where
  val := fun hv => by simpa [hv] using (ho hv).close
  ign := fun hi => by simp [hi]

theorem Sem.objEmpty {env : Env} {h : Nat} (hd : DepthOK env (h + 1)) :
    Sem env h (.obj []) (if env.tgt = .value then mkObj env.cfg ([] : List (Bytes × JV)).reverse else .null) where
  val := fun hv => by simpa [hv] using SemV.objEmpty (hd hv)
  ign := fun hi => by simp [hi]

/-! ### scalars -/

theorem tgt_cases (env : Env) : env.tgt = .value ∨ env.tgt = .ignored := by
  cases env.tgt <;> simp

theorem Sem.null {env : Env} {h : Nat} (hd : DepthOK env h) : Sem env h .null .null where
  val := fun hv =>
    { val := by simp [canonM], sur := by simp [surrogatesPaired], utf := fun _ => by simp [stringsUtf8],
      rng := by simp [numbersInRange], dep := fun hl => by have := hd hv hl; simp [depth]; omega }
  ign := fun _ => rfl

theorem Sem.true_ {env : Env} {h : Nat} (hd : DepthOK env h) :
    Sem env h .true_ (if env.tgt = .value then .bool true else .null) where
  val := fun hv =>
    { val := by simp [canonM, hv], sur := by simp [surrogatesPaired], utf := fun _ => by simp [stringsUtf8],
      rng := by simp [numbersInRange], dep := fun hl => by have := hd hv hl; simp [depth]; omega }
  ign := fun hi => by simp [hi]

theorem Sem.false_ {env : Env} {h : Nat} (hd : DepthOK env h) :
    Sem env h .false_ (if env.tgt = .value then .bool false else .null) where
  val := fun hv =>
    { val := by simp [canonM, hv], sur := by simp [surrogatesPaired], utf := fun _ => by simp [stringsUtf8],
      rng := by simp [numbersInRange], dep := fun hl => by have := hd hv hl; simp [depth]; omega }
  ign := fun hi => by simp [hi]

end SJ.Proofs.Sound
