import SJ.Proofs.SharedAux
import SJ.Proofs.CanonM
import SJ.Proofs.Machine
/-!
# Soundness of the byte-step machine — basic lemmas

Whitespace, snoc lemmas for the right-nested `Elems`/`Members`, snoc lemmas for the list-level
side conditions, and the semantic bundles (`Sem`, `ArrSem`, `ObjSem`) that the shape invariant
carries for every completed value.
-/
namespace SJ.Proofs.Sound
open SJ SJ.Spec.Grammar SJ.Spec.Denote SJ.Model.Machine SJ.Proofs.CanonM
open SJ.Spec.Canon (stringsUtf8 stringsUtf8List stringsUtf8Members numbersInRange numbersInRangeList numbersInRangeMembers)

/-- `UInt8` comparisons to `Nat` + `omega` -/
macro "u8" : tactic =>
  `(tactic| (simp [UInt8.le_iff_toNat_le, UInt8.lt_iff_toNat_lt, ← UInt8.toNat_inj] at * <;> omega))

/-! ## whitespace -/

theorem isWs_eq (b : UInt8) : Model.Machine.isWs b = Spec.Grammar.isWs b := by
  simp only [Model.Machine.isWs, Gen.wsBytes, Spec.Grammar.isWs, List.contains_cons, List.contains_nil,
    Bool.or_false]
  cases h1 : (b == 0x20) <;> cases h2 : (b == 0x0a) <;> cases h3 : (b == 0x09) <;> cases h4 : (b == 0x0d) <;> rfl

theorem Ws.nil : Ws [] := by simp [Ws]

theorem Ws.snoc {w : Bytes} {b : UInt8} (hw : Ws w) (hb : Model.Machine.isWs b = true) : Ws (w ++ [b]) := by
  rw [isWs_eq] at hb
  simp [Ws] at *
  exact ⟨hw, hb⟩

theorem Ws.one {b : UInt8} (hb : Model.Machine.isWs b = true) : Ws [b] := by
  simpa using Ws.snoc Ws.nil hb

/-! ## appending at the end of `Elems` / `Members` -/

theorem Elems.snoc {body : Bytes} {ts : List CST} (h : Elems body ts) {w₁ w₂ vb : Bytes} {t : CST}
    (h₁ : Ws w₁) (h₂ : Ws w₂) (hv : Derives vb t) :
    Elems (body ++ w₁ ++ [0x2c] ++ w₂ ++ vb) (ts ++ [t]) := by
  match h with
  | .one bs t' hd =>
    have := Elems.cons bs w₁ w₂ vb t' [t] hd h₁ h₂ (.one vb t hv)
    simpa using this
  | .cons bs w₁' w₂' rest t' ts' hd h₁' h₂' hr =>
    have ih := Elems.snoc hr h₁ h₂ hv
    have := Elems.cons bs w₁' w₂' _ t' _ hd h₁' h₂' ih
    simpa using this

theorem Elems.ne_nil {body : Bytes} {ts : List CST} (h : Elems body ts) : ts ≠ [] := by
  cases h <;> simp

theorem Members.snoc {body : Bytes} {ms : List (List StrItem × CST)} (h : Members body ms)
    {w₃ w₄ w₁ w₂ vb : Bytes} {k : List StrItem} {t : CST}
    (h₃ : Ws w₃) (h₄ : Ws w₄) (hk : StrWF k = true) (h₁ : Ws w₁) (h₂ : Ws w₂) (hv : Derives vb t) :
    Members (body ++ w₃ ++ [0x2c] ++ w₄ ++ strBytes k ++ w₁ ++ [0x3a] ++ w₂ ++ vb) (ms ++ [(k, t)]) := by
  match h with
  | .one k' hk' w₁' w₂' vb' t' h₁' h₂' hd =>
    have := Members.cons k' hk' w₁' w₂' vb' w₃ w₄ _ t' _ h₁' h₂' hd h₃ h₄ (.one k hk w₁ w₂ vb t h₁ h₂ hv)
    simpa using this
  | .cons k' hk' w₁' w₂' vb' w₃' w₄' rest t' ms' h₁' h₂' hd h₃' h₄' hr =>
    have ih := Members.snoc hr h₃ h₄ hk h₁ h₂ hv
    have := Members.cons k' hk' w₁' w₂' vb' w₃' w₄' _ t' _ h₁' h₂' hd h₃' h₄' ih
    simpa using this

theorem Members.ne_nil {body : Bytes} {ms : List (List StrItem × CST)} (h : Members body ms) : ms ≠ [] := by
  cases h <;> simp

/-! ## snoc lemmas for the list-level functions -/

theorem canonMList_snoc (cfg : Cfg) (ts : List CST) (vs : List JV) (t : CST) (v : JV)
    (h : canonMList cfg ts = some vs) (hv : canonM cfg t = some v) :
    canonMList cfg (ts ++ [t]) = some (vs ++ [v]) := by
  induction ts generalizing vs with
  | nil => simp [canonMList] at h; subst h; simp [canonMList, hv]
  | cons x xs ih =>
    simp only [canonMList] at h
    split at h
    · rename_i v' vs' h1 h2
      simp at h; subst h
      simp [canonMList, h1, ih _ h2]
    · simp at h

theorem canonMMembers_snoc (cfg : Cfg) (ms : List (List StrItem × CST)) (kvs : List (Bytes × JV))
    (k : List StrItem) (kb : Bytes) (t : CST) (v : JV)
    (h : canonMMembers cfg ms = some kvs) (hk : decodeItems k = some kb) (hv : canonM cfg t = some v) :
    canonMMembers cfg (ms ++ [(k, t)]) = some (kvs ++ [(kb, v)]) := by
  induction ms generalizing kvs with
  | nil => simp [canonMMembers] at h; subst h; simp [canonMMembers, hv, hk]
  | cons x xs ih =>
    obtain ⟨k', x'⟩ := x
    simp only [canonMMembers] at h
    split at h
    · rename_i kb' v' r' h0 h1 h2
      simp at h; subst h
      simp [canonMMembers, h0, h1, ih _ h2]
    · simp at h

theorem surrogatesPairedList_snoc (ts : List CST) (t : CST) :
    surrogatesPairedList (ts ++ [t]) = (surrogatesPairedList ts && surrogatesPaired t) := by
  induction ts with
  | nil => simp [surrogatesPairedList]
  | cons x xs ih => simp [surrogatesPairedList, ih, Bool.and_assoc]

theorem surrogatesPairedMembers_snoc (ms : List (List StrItem × CST)) (k : List StrItem) (t : CST) :
    surrogatesPairedMembers (ms ++ [(k, t)]) =
      (surrogatesPairedMembers ms && (surrogatesPairedStr k && surrogatesPaired t)) := by
  induction ms with
  | nil => simp [surrogatesPairedMembers]
  | cons x xs ih => obtain ⟨k', x'⟩ := x; simp [surrogatesPairedMembers, ih, Bool.and_assoc]

theorem stringsUtf8List_snoc (ts : List CST) (t : CST) :
    stringsUtf8List (ts ++ [t]) = (stringsUtf8List ts && stringsUtf8 t) := by
  induction ts with
  | nil => simp [stringsUtf8List]
  | cons x xs ih => simp [stringsUtf8List, ih, Bool.and_assoc]

theorem stringsUtf8Members_snoc (ms : List (List StrItem × CST)) (k : List StrItem) (t : CST) :
    stringsUtf8Members (ms ++ [(k, t)]) =
      (stringsUtf8Members ms && ((decodeItems k).all Spec.Utf8.validUtf8 && stringsUtf8 t)) := by
  induction ms with
  | nil => simp [stringsUtf8Members]
  | cons x xs ih => obtain ⟨k', x'⟩ := x; simp [stringsUtf8Members, ih, Bool.and_assoc]

theorem numbersInRangeList_snoc (cfg : Spec.Canon.Cfg) (ts : List CST) (t : CST) :
    numbersInRangeList cfg (ts ++ [t]) = (numbersInRangeList cfg ts && numbersInRange cfg t) := by
  induction ts with
  | nil => simp [numbersInRangeList]
  | cons x xs ih => simp [numbersInRangeList, ih, Bool.and_assoc]

theorem numbersInRangeMembers_snoc (cfg : Spec.Canon.Cfg) (ms : List (List StrItem × CST))
    (k : List StrItem) (t : CST) :
    numbersInRangeMembers cfg (ms ++ [(k, t)]) = (numbersInRangeMembers cfg ms && numbersInRange cfg t) := by
  induction ms with
  | nil => simp [numbersInRangeMembers]
  | cons x xs ih => obtain ⟨k', x'⟩ := x; simp [numbersInRangeMembers, ih, Bool.and_assoc]

theorem depthList_snoc (ts : List CST) (t : CST) :
    depthList (ts ++ [t]) = max (depthList ts) (depth t) := by
  induction ts with
  | nil => simp [depthList]
  | cons x xs ih => simp [depthList, ih, Nat.max_assoc]

theorem depthMembers_snoc (ms : List (List StrItem × CST)) (k : List StrItem) (t : CST) :
    depthMembers (ms ++ [(k, t)]) = max (depthMembers ms) (depth t) := by
  induction ms with
  | nil => simp [depthMembers]
  | cons x xs ih => obtain ⟨k', x'⟩ := x; simp [depthMembers, ih, Nat.max_assoc]

end SJ.Proofs.Sound
