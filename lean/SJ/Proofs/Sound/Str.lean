import SJ.Proofs.Sound.Sem
/-!
# Strings: the scanned `StrSt` is a list of grammar items plus an escape in progress
-/
namespace SJ.Proofs.Sound
open SJ SJ.Spec.Grammar SJ.Spec.Denote SJ.Model.Machine SJ.Proofs.CanonM

theorem decodeItems_uni_plain (a b c d : UInt8) (rest : List StrItem)
    (h1 : ¬isHighSurrogate (uniVal a b c d) = true) (h2 : ¬isLowSurrogate (uniVal a b c d) = true) :
    decodeItems (.uni a b c d :: rest) = (decodeItems rest).map (utf8 (uniVal a b c d) ++ ·) := by
  rw [decodeItems.eq_def]
  simp [h1, h2]

theorem surrogatesPairedStr_uni_plain (a b c d : UInt8) (rest : List StrItem)
    (h1 : ¬isHighSurrogate (uniVal a b c d) = true) (h2 : ¬isLowSurrogate (uniVal a b c d) = true) :
    surrogatesPairedStr (.uni a b c d :: rest) = surrogatesPairedStr rest := by
  rw [surrogatesPairedStr.eq_def]
  simp [h1, h2]

theorem decodeItems_append (xs ys : List StrItem) (a b : Bytes)
    (hx : decodeItems xs = some a) (hy : decodeItems ys = some b) :
    decodeItems (xs ++ ys) = some (a ++ b) := by
  fun_induction decodeItems xs generalizing a
  case case1 => simp at hx; subst hx; simpa using hy
  case case2 ih =>
    simp only [Option.map_eq_some_iff] at hx; obtain ⟨r, hr, rfl⟩ := hx
    simp [decodeItems, ih _ hr]
  case case3 ih =>
    simp only [Option.map_eq_some_iff] at hx; obtain ⟨r, hr, rfl⟩ := hx
    simp [decodeItems, ih _ hr]
  case case4 n h1 _ _ _ _ _ m h2 ih =>
    simp only [Option.map_eq_some_iff] at hx; obtain ⟨r, hr, rfl⟩ := hx
    simp [decodeItems, ih _ hr, h1, h2, n, m] 
  case case5 => simp at hx
  case case6 => simp at hx
  case case7 => simp at hx
  case case8 n h1 h2 ih =>
    simp only [Option.map_eq_some_iff] at hx; obtain ⟨r, hr, rfl⟩ := hx
    rw [List.cons_append, decodeItems_uni_plain _ _ _ _ _ h1 h2, ih _ hr]
    simp [n]

theorem surrogatesPairedStr_append (xs ys : List StrItem)
    (hx : surrogatesPairedStr xs = true) (hy : surrogatesPairedStr ys = true) :
    surrogatesPairedStr (xs ++ ys) = true := by
  fun_induction surrogatesPairedStr xs
  case case1 => simpa using hy
  case case2 n h1 _ _ _ _ _ ih =>
    simp only [Bool.and_eq_true] at hx
    simp [surrogatesPairedStr, h1, hx.1, ih hx.2, n]
  case case3 => simp at hx
  case case4 => simp at hx
  case case5 n h1 h2 ih =>
    rw [List.cons_append, surrogatesPairedStr_uni_plain _ _ _ _ _ h1 h2]; exact ih hx
  case case6 hd rest hne ih =>
    cases hd with
    | uni a b c d => exact absurd rfl (hne a b c d)
    | raw b => simp [surrogatesPairedStr, ih hx]
    | esc c => simp [surrogatesPairedStr, ih hx]

theorem StrWF_append (xs ys : List StrItem) (hx : StrWF xs = true) (hy : StrWF ys = true) :
    StrWF (xs ++ ys) = true := by
  simp [StrWF] at *
  exact ⟨hx, hy⟩

/-- `hex4` succeeds only on four hex digits, with the positional value -/
theorem hex4_some (l : List UInt8) (n : Nat) (h : hex4 l = some n) :
    ∃ a b c d, l = [a, b, c, d] ∧ isHex a = true ∧ isHex b = true ∧ isHex c = true ∧ isHex d = true ∧
      n = uniVal a b c d := by
  unfold hex4 at h
  split at h
  · rename_i a b c d
    refine ⟨a, b, c, d, rfl, ?_⟩
    unfold hexDigitVal at h
    split at h
    · rename_i x y z w hx hy hz hw
      simp only [Option.some.injEq] at h
      split at hx <;> split at hy <;> split at hz <;> split at hw <;> simp_all [uniVal]
    · simp at h
  · simp at h


/-! ## the string scanner invariant -/

/-- a leading-surrogate escape `\uXXXX` (bytes `a b c d`) has been consumed and waits for its partner -/
structure Hi (a b c d : UInt8) (n1 : Nat) : Prop where
  ha : isHex a = true
  hb : isHex b = true
  hc : isHex c = true
  hd : isHex d = true
  val : uniVal a b c d = n1
  hi : isHighSurrogate n1 = true

/-- the bytes of the escape sequence in progress -/
inductive EscInv : EscSt → Bytes → Prop
  | none : EscInv .none []
  | bs : EscInv .bs [0x5c]
  | hex0 (acc : List UInt8) : acc.length < 4 → EscInv (.hex acc none) ([0x5c, 0x75] ++ acc)
  | lead1 (a b c d : UInt8) (n1 : Nat) : Hi a b c d n1 → EscInv (.lead1 n1) [0x5c, 0x75, a, b, c, d]
  | lead2 (a b c d : UInt8) (n1 : Nat) : Hi a b c d n1 → EscInv (.lead2 n1) [0x5c, 0x75, a, b, c, d, 0x5c]
  | hex1 (a b c d : UInt8) (n1 : Nat) (acc : List UInt8) : Hi a b c d n1 → acc.length < 4 →
      EscInv (.hex acc (some n1)) ([0x5c, 0x75, a, b, c, d, 0x5c, 0x75] ++ acc)

/-- completed items: well-formed, and (value target) decoding to the text collected so far -/
structure StrVal (env : Env) (out : Bytes) (items : List StrItem) : Prop where
  wf : StrWF items = true
  val : env.tgt = .value → decodeItems items = some out.reverse ∧ surrogatesPairedStr items = true

structure StrInv (env : Env) (st : StrSt) (items : List StrItem) (tail : Bytes) : Prop where
  sv : StrVal env st.out items
  esc : EscInv st.esc tail

theorem StrVal.nil (env : Env) : StrVal env [] [] :=
  ⟨by simp [StrWF], fun _ => by simp [decodeItems, surrogatesPairedStr]⟩

theorem StrVal.append {env : Env} {out : Bytes} {items new : List StrItem} {bs : Bytes}
    (h : StrVal env out items) (hwf : StrWF new = true)
    (hv : env.tgt = .value → decodeItems new = some bs ∧ surrogatesPairedStr new = true) :
    StrVal env (bs.reverse ++ out) (items ++ new) :=
  ⟨StrWF_append _ _ h.wf hwf, fun hv' => by
    obtain ⟨h1, h2⟩ := h.val hv'
    obtain ⟨h3, h4⟩ := hv hv'
    exact ⟨by simpa using decodeItems_append _ _ _ _ h1 h3, surrogatesPairedStr_append _ _ h2 h4⟩⟩

/-- skipping: the text is not collected -/
theorem StrVal.appendIgn {env : Env} {out : Bytes} {items new : List StrItem}
    (h : StrVal env out items) (hwf : StrWF new = true) (hi : env.tgt = .ignored) :
    StrVal env out (items ++ new) :=
  ⟨StrWF_append _ _ h.wf hwf, fun hv' => by simp [hi] at hv'⟩

theorem StrInv.init (env : Env) (k : Bool) : StrInv env { isKey := k } [] [] :=
  ⟨StrVal.nil env, .none⟩

/-! ## steps -/

/-- what a successful string step yields -/
def StrNext (env : Env) (s : St) (st : StrSt) (items : List StrItem) (tail : Bytes) (b : UInt8) (s' : St) : Prop :=
  (∃ st' items' tail', s' = { s with mode := .str st' } ∧ st'.isKey = st.isKey ∧ StrInv env st' items' tail' ∧
      items'.flatMap StrItem.bytes ++ tail' = items.flatMap StrItem.bytes ++ tail ++ [b]) ∨
  (b = 0x22 ∧ tail = [] ∧ endStr env s st = .next s')

theorem stepStr_none (env : Env) (s : St) (out : Bytes) (k e : Bool) (b : UInt8) (s' : St) (items : List StrItem)
    (hv : StrVal env out items)
    (h : stepStr env s { out := out, esc := .none, isKey := k, escaped := e } b = .next s') :
    StrNext env s { out := out, esc := .none, isKey := k, escaped := e } items [] b s' := by
  unfold stepStr at h
  simp only at h
  split at h
  · rename_i hb; simp only [beq_iff_eq] at hb; exact .inr ⟨hb, rfl, h⟩
  split at h
  · rename_i hb; simp only [beq_iff_eq] at hb; subst hb
    simp only [Step.next.injEq] at h; subst h
    exact .inl ⟨_, items, [0x5c], rfl, rfl, ⟨hv, .bs⟩, by simp⟩
  split at h
  · simp at h
  · rename_i h1 h2 h3
    simp only [Step.next.injEq] at h; subst h
    refine .inl ⟨_, items ++ [.raw b], [], rfl, rfl, ⟨?_, .none⟩, by simp [StrItem.bytes]⟩
    have := hv.append (new := [.raw b]) (bs := [b]) ?_ ?_
    · simpa using this
    · simp [StrWF, StrItem.WF, isUnescaped] at *; exact ⟨⟨by u8, h1⟩, h2⟩
    · intro _; simp [decodeItems, surrogatesPairedStr]

theorem stepStr_bs (env : Env) (s : St) (out : Bytes) (k e : Bool) (b : UInt8) (s' : St) (items : List StrItem)
    (hv : StrVal env out items)
    (h : stepStr env s { out := out, esc := .bs, isKey := k, escaped := e } b = .next s') :
    StrNext env s { out := out, esc := .bs, isKey := k, escaped := e } items [0x5c] b s' := by
  unfold stepStr at h
  simp only at h
  split at h
  · rename_i hb; simp only [beq_iff_eq] at hb; subst hb
    simp only [Step.next.injEq] at h; subst h
    exact .inl ⟨_, items, [0x5c, 0x75], rfl, rfl, ⟨hv, .hex0 [] (by simp)⟩, by simp⟩
  split at h
  · rename_i h1 h2
    simp only [Step.next.injEq] at h; subst h
    refine .inl ⟨_, items ++ [.esc b], [], rfl, rfl, ⟨?_, .none⟩, by simp [StrItem.bytes]⟩
    have := hv.append (new := [.esc b]) (bs := [simpleEscape b]) ?_ ?_
    · simpa using this
    · simp [StrWF, StrItem.WF, h2]
    · intro _; simp [decodeItems, surrogatesPairedStr]
  · simp at h


theorem stepStr_lead1 (env : Env) (s : St) (out : Bytes) (k e : Bool) (b : UInt8) (s' : St) (items : List StrItem)
    (x1 x2 x3 x4 : UInt8) (n1 : Nat) (hh : Hi x1 x2 x3 x4 n1)
    (hv : StrVal env out items)
    (h : stepStr env s { out := out, esc := .lead1 n1, isKey := k, escaped := e } b = .next s') :
    StrNext env s { out := out, esc := .lead1 n1, isKey := k, escaped := e } items [0x5c, 0x75, x1, x2, x3, x4] b s' := by
  unfold stepStr at h
  simp only at h
  split at h
  · rename_i hb; simp only [beq_iff_eq] at hb; subst hb
    simp only [Step.next.injEq] at h; subst h
    exact .inl ⟨_, items, _, rfl, rfl, ⟨hv, .lead2 x1 x2 x3 x4 n1 hh⟩, by simp⟩
  · simp at h

theorem stepStr_lead2 (env : Env) (s : St) (out : Bytes) (k e : Bool) (b : UInt8) (s' : St) (items : List StrItem)
    (x1 x2 x3 x4 : UInt8) (n1 : Nat) (hh : Hi x1 x2 x3 x4 n1)
    (hv : StrVal env out items)
    (h : stepStr env s { out := out, esc := .lead2 n1, isKey := k, escaped := e } b = .next s') :
    StrNext env s { out := out, esc := .lead2 n1, isKey := k, escaped := e } items [0x5c, 0x75, x1, x2, x3, x4, 0x5c] b s' := by
  unfold stepStr at h
  simp only at h
  split at h
  · rename_i hb; simp only [beq_iff_eq] at hb; subst hb
    simp only [Step.next.injEq] at h; subst h
    exact .inl ⟨_, items, _, rfl, rfl, ⟨hv, .hex1 x1 x2 x3 x4 n1 [] hh (by simp)⟩, by simp⟩
  · simp at h

theorem uni_WF {a b c d : UInt8} (ha : isHex a = true) (hb : isHex b = true) (hc : isHex c = true)
    (hd : isHex d = true) : StrWF [.uni a b c d] = true := by
  simp [StrWF, StrItem.WF, ha, hb, hc, hd]

theorem stepStr_hex0 (env : Env) (s : St) (out : Bytes) (k e : Bool) (b : UInt8) (s' : St) (items : List StrItem)
    (acc : List UInt8)
    (hv : StrVal env out items)
    (h : stepStr env s { out := out, esc := .hex acc none, isKey := k, escaped := e } b = .next s') :
    StrNext env s { out := out, esc := .hex acc none, isKey := k, escaped := e } items ([0x5c, 0x75] ++ acc) b s' := by
  unfold stepStr at h
  simp only at h
  split at h
  · rename_i hlen
    simp only [Step.next.injEq] at h; subst h
    exact .inl ⟨_, items, [0x5c, 0x75] ++ (acc ++ [b]), rfl, rfl, ⟨hv, .hex0 _ hlen⟩, by simp⟩
  split at h
  · simp at h
  rename_i hlen n hn
  obtain ⟨a1, a2, a3, a4, hl, h1, h2, h3, h4, rfl⟩ := hex4_some _ _ hn
  have hwf := uni_WF h1 h2 h3 h4
  have hbytes : (items ++ [StrItem.uni a1 a2 a3 a4]).flatMap StrItem.bytes ++ [] =
      items.flatMap StrItem.bytes ++ ([0x5c, 0x75] ++ acc) ++ [b] := by
    simp [StrItem.bytes, ← hl]
  split at h
  · rename_i hign
    simp only [Step.next.injEq] at h; subst h
    exact .inl ⟨_, items ++ [.uni a1 a2 a3 a4], [], rfl, rfl, ⟨hv.appendIgn hwf hign, .none⟩, hbytes⟩
  rename_i hval
  split at h
  · simp at h
  split at h
  · rename_i hlow hhigh
    simp only [Step.next.injEq] at h; subst h
    refine .inl ⟨_, items, [0x5c, 0x75, a1, a2, a3, a4], rfl, rfl,
      ⟨hv, .lead1 a1 a2 a3 a4 _ ⟨h1, h2, h3, h4, rfl, hhigh⟩⟩, by simp [← hl]⟩
  · rename_i hlow hhigh
    simp only [Step.next.injEq] at h; subst h
    refine .inl ⟨_, items ++ [.uni a1 a2 a3 a4], [], rfl, rfl, ⟨?_, .none⟩, hbytes⟩
    refine hv.append hwf (fun _ => ?_)
    have e1 : ¬isHighSurrogate (uniVal a1 a2 a3 a4) = true := hhigh
    have e2 : ¬isLowSurrogate (uniVal a1 a2 a3 a4) = true := hlow
    rw [decodeItems_uni_plain _ _ _ _ _ e1 e2, surrogatesPairedStr_uni_plain _ _ _ _ _ e1 e2]
    simp [decodeItems, surrogatesPairedStr]


theorem decodeItems_pair (x1 x2 x3 x4 a1 a2 a3 a4 : UInt8)
    (hh : isHighSurrogate (uniVal x1 x2 x3 x4) = true) (hl : isLowSurrogate (uniVal a1 a2 a3 a4) = true) :
    decodeItems [.uni x1 x2 x3 x4, .uni a1 a2 a3 a4] =
      some (utf8 (0x10000 + (uniVal x1 x2 x3 x4 - 0xD800) * 0x400 + (uniVal a1 a2 a3 a4 - 0xDC00))) ∧
    surrogatesPairedStr [.uni x1 x2 x3 x4, .uni a1 a2 a3 a4] = true := by
  simp [decodeItems, surrogatesPairedStr, hh, hl]

theorem stepStr_hex1 (env : Env) (s : St) (out : Bytes) (k e : Bool) (b : UInt8) (s' : St) (items : List StrItem)
    (x1 x2 x3 x4 : UInt8) (n1 : Nat) (hh : Hi x1 x2 x3 x4 n1)
    (acc : List UInt8)
    (hv : StrVal env out items)
    (h : stepStr env s { out := out, esc := .hex acc (some n1), isKey := k, escaped := e } b = .next s') :
    StrNext env s { out := out, esc := .hex acc (some n1), isKey := k, escaped := e } items
      ([0x5c, 0x75, x1, x2, x3, x4, 0x5c, 0x75] ++ acc) b s' := by
  unfold stepStr at h
  simp only at h
  split at h
  · rename_i hlen
    simp only [Step.next.injEq] at h; subst h
    exact .inl ⟨_, items, [0x5c, 0x75, x1, x2, x3, x4, 0x5c, 0x75] ++ (acc ++ [b]), rfl, rfl,
      ⟨hv, .hex1 _ _ _ _ _ _ hh hlen⟩, by simp⟩
  split at h
  · simp at h
  rename_i hlen n hn
  obtain ⟨a1, a2, a3, a4, hl, h1, h2, h3, h4, rfl⟩ := hex4_some _ _ hn
  have hwf : StrWF [StrItem.uni x1 x2 x3 x4, StrItem.uni a1 a2 a3 a4] = true := by
    simp [StrWF, StrItem.WF, h1, h2, h3, h4, hh.ha, hh.hb, hh.hc, hh.hd]
  have hbytes : (items ++ [StrItem.uni x1 x2 x3 x4, StrItem.uni a1 a2 a3 a4]).flatMap StrItem.bytes ++ [] =
      items.flatMap StrItem.bytes ++ ([0x5c, 0x75, x1, x2, x3, x4, 0x5c, 0x75] ++ acc) ++ [b] := by
    simp [StrItem.bytes, ← hl]
  split at h
  · rename_i hign
    simp only [Step.next.injEq] at h; subst h
    exact .inl ⟨_, _, [], rfl, rfl, ⟨hv.appendIgn hwf hign, .none⟩, hbytes⟩
  rename_i hval
  split at h
  · simp at h
  · rename_i hlow
    simp only [Step.next.injEq] at h; subst h
    refine .inl ⟨_, _, [], rfl, rfl, ⟨?_, .none⟩, hbytes⟩
    refine hv.append hwf (fun _ => ?_)
    have e2 : isLowSurrogate (uniVal a1 a2 a3 a4) = true := by
      simp [isLowSurrogate] at hlow ⊢; omega
    have := decodeItems_pair x1 x2 x3 x4 a1 a2 a3 a4 (hh.val ▸ hh.hi) e2
    rw [hh.val] at this
    exact this


theorem stepStr_next (env : Env) (s : St) (st : StrSt) (b : UInt8) (s' : St) (items : List StrItem) (tail : Bytes)
    (hi : StrInv env st items tail) (h : stepStr env s st b = .next s') : StrNext env s st items tail b s' := by
  obtain ⟨out, esc, k, e⟩ := st
  obtain ⟨hv, he⟩ := hi
  simp only at hv he
  cases he with
  | none => exact stepStr_none env s out k e b s' items hv h
  | bs => exact stepStr_bs env s out k e b s' items hv h
  | hex0 acc _ => exact stepStr_hex0 env s out k e b s' items acc hv h
  | lead1 x1 x2 x3 x4 n1 hh => exact stepStr_lead1 env s out k e b s' items x1 x2 x3 x4 n1 hh hv h
  | lead2 x1 x2 x3 x4 n1 hh => exact stepStr_lead2 env s out k e b s' items x1 x2 x3 x4 n1 hh hv h
  | hex1 x1 x2 x3 x4 n1 acc hh _ => exact stepStr_hex1 env s out k e b s' items x1 x2 x3 x4 n1 hh acc hv h

theorem endStr_not_again (env : Env) (s : St) (st : StrSt) (s' : St) : endStr env s st ≠ .again s' := by
  unfold endStr; simp only
  repeat' split
  all_goals simp

theorem stepStr_not_again (env : Env) (s : St) (st : StrSt) (b : UInt8) (s' : St) :
    stepStr env s st b ≠ .again s' := by
  unfold stepStr; simp only
  repeat' split
  all_goals first | (simp; done) | exact endStr_not_again env s st s'

/-- the closing quote: the literal derives `.str items`; a key is stored in the open object frame, a value
    string is handed to `complete` -/
theorem endStr_sem (env : Env) (s : St) (st : StrSt) (s' : St) (items : List StrItem)
    (hv : StrVal env st.out items) (h : endStr env s st = .next s') :
    Derives (strBytes items) (.str items) ∧
    ((st.isKey = true ∧ KeySem env items st.out.reverse ∧
        ∃ ms k0 fs, s.stack = .obj ms k0 :: fs ∧ s' = { mode := .afterKey, stack := .obj ms st.out.reverse :: fs }) ∨
     (st.isKey = false ∧ ∃ v, s' = complete s.stack v ∧ ∀ n, DepthOK env n → Sem env n (.str items) v)) := by
  refine ⟨Derives.str items hv.wf, ?_⟩
  unfold endStr at h
  simp only at h
  split at h
  · simp at h
  rename_i hutf
  have hu : env.tgt = .value → env.src ≠ .str → Spec.Utf8.validUtf8 st.out.reverse = true := by
    intro h1 h2
    cases hx : Spec.Utf8.validUtf8 st.out.reverse
    · exfalso; apply hutf; simp [h1, hx]; exact h2
    · rfl
  split at h
  · rename_i hk
    split at h
    · rename_i ms k0 fs hst
      simp only [Step.next.injEq] at h
      exact .inl ⟨hk, fun hval => ⟨(hv.val hval).1, (hv.val hval).2, hu hval⟩, ms, k0, fs, hst, h.symm⟩
    · simp at h
  · rename_i hk
    simp only [Step.next.injEq] at h
    refine .inr ⟨by simpa using hk, _, h.symm, fun n hd => ⟨fun hval => ?_, fun hi => by simp [hi]⟩⟩
    obtain ⟨h1, h2⟩ := hv.val hval
    exact { val := by simp [canonM, h1, hval], sur := by simp [surrogatesPaired, h2],
            utf := fun hs => by simp [Spec.Canon.stringsUtf8, h1, hu hval hs],
            rng := by simp [Spec.Canon.numbersInRange],
            dep := fun hl => by have := hd hval hl; simp [depth]; omega }

end SJ.Proofs.Sound
