import SJ.Proofs.Sound.Num
import SJ.Proofs.Sound.Str
/-!
# The shape invariant: how the consumed bytes decompose along the machine's stack

`ValPos env fs pre` — `pre` is everything consumed up to a position where a value is expected inside
the open containers `fs` (a zipper over `Derives`: each frame contributes its opening bracket, the
completed elements/members with their derivations and semantics, separators and whitespace).
`Inv env s cs` — the state `s` after consuming `cs`, one constructor per mode.
-/
namespace SJ.Proofs.Sound
open SJ SJ.Spec.Grammar SJ.Spec.Denote SJ.Model.Machine SJ.Proofs.CanonM

/-! ## interiors of open containers -/

/-- interior of an open array holding at least one completed element: `ws elems` -/
def ArrBody (env : Env) (h : Nat) (es : List JV) (inner : Bytes) : Prop :=
  ∃ w₁ body ts, inner = w₁ ++ body ∧ Ws w₁ ∧ Elems body ts ∧ ArrSem env h ts es

/-- interior of an open array up to a position where an element is expected -/
def ArrPre (env : Env) (h : Nat) (es : List JV) (inner : Bytes) : Prop :=
  (es = [] ∧ Ws inner) ∨
  (∃ inner' w₂ w₃, inner = inner' ++ w₂ ++ [0x2c] ++ w₃ ∧ ArrBody env h es inner' ∧ Ws w₂ ∧ Ws w₃)

theorem Ws.append {a b : Bytes} (ha : Ws a) (hb : Ws b) : Ws (a ++ b) := by
  simp [Ws] at *; exact ⟨ha, hb⟩

theorem ArrPre.elem {env : Env} {h : Nat} {es : List JV} {inner vb : Bytes} {t : CST} {v : JV}
    (hp : ArrPre env h es inner) (hd : Derives vb t) (hs : Sem env h t v) :
    ArrBody env h (v :: es) (inner ++ vb) := by
  rcases hp with ⟨rfl, hw⟩ | ⟨inner', w₂, w₃, rfl, ⟨w₁, body, ts, rfl, hw₁, he, hsem⟩, hw₂, hw₃⟩
  · exact ⟨inner, vb, [t], rfl, hw, .one vb t hd, ArrSem.one hs⟩
  · refine ⟨w₁, body ++ w₂ ++ [0x2c] ++ w₃ ++ vb, ts ++ [t], by simp, hw₁, Elems.snoc he hw₂ hw₃ hd, hsem.snoc hs⟩

theorem ArrPre.ws {env : Env} {h : Nat} {es : List JV} {inner : Bytes} {b : UInt8}
    (hp : ArrPre env h es inner) (hb : Model.Machine.isWs b = true) : ArrPre env h es (inner ++ [b]) := by
  rcases hp with ⟨rfl, hw⟩ | ⟨inner', w₂, w₃, rfl, hb', hw₂, hw₃⟩
  · exact .inl ⟨rfl, Ws.snoc hw hb⟩
  · exact .inr ⟨inner', w₂, w₃ ++ [b], by simp, hb', hw₂, Ws.snoc hw₃ hb⟩

theorem ArrBody.comma {env : Env} {h : Nat} {es : List JV} {inner w₂ : Bytes}
    (hb : ArrBody env h es inner) (hw : Ws w₂) : ArrPre env h es (inner ++ w₂ ++ [0x2c]) :=
  .inr ⟨inner, w₂, [], by simp, hb, hw, Ws.nil⟩

theorem ArrBody.close {env : Env} {h : Nat} {es : List JV} {inner w₂ : Bytes}
    (hb : ArrBody env (h + 1) es inner) (hw : Ws w₂) :
    ∃ t, Derives ([0x5b] ++ inner ++ w₂ ++ [0x5d]) t ∧
      Sem env h t (if env.tgt = .value then .arr es.reverse else .null) := by
  obtain ⟨w₁, body, ts, rfl, hw₁, he, hsem⟩ := hb
  refine ⟨.arr ts, ?_, hsem.close⟩
  have := Derives.arr w₁ body w₂ ts hw₁ hw (Elems.ne_nil he) he
  simpa using this

/-- interior of an open object holding at least one completed member: `ws members` -/
def ObjBody (env : Env) (h : Nat) (mems : List (Bytes × JV)) (inner : Bytes) : Prop :=
  ∃ w₀ body ms, inner = w₀ ++ body ∧ Ws w₀ ∧ Members body ms ∧ ObjSem env h ms mems

/-- interior of an open object up to a position where a key is expected -/
def ObjPre (env : Env) (h : Nat) (mems : List (Bytes × JV)) (inner : Bytes) : Prop :=
  (mems = [] ∧ Ws inner) ∨
  (∃ inner' w₃ w₄, inner = inner' ++ w₃ ++ [0x2c] ++ w₄ ∧ ObjBody env h mems inner' ∧ Ws w₃ ∧ Ws w₄)

theorem ObjPre.member {env : Env} {h : Nat} {mems : List (Bytes × JV)} {inner w₁ w₂ vb : Bytes}
    {k : List StrItem} {key : Bytes} {t : CST} {v : JV}
    (hp : ObjPre env h mems inner) (hk : StrWF k = true) (hks : KeySem env k key) (hw₁ : Ws w₁) (hw₂ : Ws w₂)
    (hd : Derives vb t) (hs : Sem env h t v) :
    ObjBody env h ((key, v) :: mems) (inner ++ strBytes k ++ w₁ ++ [0x3a] ++ w₂ ++ vb) := by
  rcases hp with ⟨rfl, hw⟩ | ⟨inner', w₃, w₄, rfl, ⟨w₀, body, ms, rfl, hw₀, hm, hsem⟩, hw₃, hw₄⟩
  · exact ⟨inner, _, [(k, t)], by simp only [List.append_assoc], hw, .one k hk w₁ w₂ vb t hw₁ hw₂ hd, ObjSem.one hks hs⟩
  · refine ⟨w₀, _, ms ++ [(k, t)], ?_, hw₀, Members.snoc hm hw₃ hw₄ hk hw₁ hw₂ hd, hsem.snoc hks hs⟩
    simp only [List.append_assoc]

theorem ObjPre.ws {env : Env} {h : Nat} {mems : List (Bytes × JV)} {inner : Bytes} {b : UInt8}
    (hp : ObjPre env h mems inner) (hb : Model.Machine.isWs b = true) : ObjPre env h mems (inner ++ [b]) := by
  rcases hp with ⟨rfl, hw⟩ | ⟨inner', w₃, w₄, rfl, hb', hw₃, hw₄⟩
  · exact .inl ⟨rfl, Ws.snoc hw hb⟩
  · exact .inr ⟨inner', w₃, w₄ ++ [b], by simp, hb', hw₃, Ws.snoc hw₄ hb⟩

theorem ObjBody.comma {env : Env} {h : Nat} {mems : List (Bytes × JV)} {inner w₃ : Bytes}
    (hb : ObjBody env h mems inner) (hw : Ws w₃) : ObjPre env h mems (inner ++ w₃ ++ [0x2c]) :=
  .inr ⟨inner, w₃, [], by simp, hb, hw, Ws.nil⟩

theorem ObjBody.close {env : Env} {h : Nat} {mems : List (Bytes × JV)} {inner w₂ : Bytes}
    (hb : ObjBody env (h + 1) mems inner) (hw : Ws w₂) :
    ∃ t, Derives ([0x7b] ++ inner ++ w₂ ++ [0x7d]) t ∧
      Sem env h t (if env.tgt = .value then mkObj env.cfg mems.reverse else .null) := by
  obtain ⟨w₀, body, ms, rfl, hw₀, hm, hsem⟩ := hb
  refine ⟨.obj ms, ?_, hsem.close⟩
  have := Derives.obj w₀ body w₂ ms hw₀ hw (Members.ne_nil hm) hm
  simpa using this

/-! ## positions -/

/-- `pre` = everything consumed up to a position where a value is expected inside the frames `fs` -/
inductive ValPos (env : Env) : List Frame → Bytes → Prop
  | top (w : Bytes) : Ws w → ValPos env [] w
  | arr (fs : List Frame) (pre : Bytes) (es : List JV) (inner cs : Bytes) :
      ValPos env fs pre → DepthOK env (fs.length + 1) → ArrPre env (fs.length + 1) es inner →
      cs = pre ++ [0x5b] ++ inner → ValPos env (.arr es :: fs) cs
  | obj (fs : List Frame) (pre : Bytes) (mems : List (Bytes × JV)) (inner : Bytes) (k : List StrItem)
      (key w₁ w₂ cs : Bytes) :
      ValPos env fs pre → DepthOK env (fs.length + 1) → ObjPre env (fs.length + 1) mems inner →
      StrWF k = true → KeySem env k key → Ws w₁ → Ws w₂ →
      cs = pre ++ [0x7b] ++ inner ++ strBytes k ++ w₁ ++ [0x3a] ++ w₂ → ValPos env (.obj mems key :: fs) cs

theorem ValPos.depth {env : Env} {fs : List Frame} {pre : Bytes} (h : ValPos env fs pre) :
    DepthOK env fs.length := by
  cases h with
  | top w hw => intro _ _; simp
  | arr fs pre es inner cs hv hd hp hc => simpa using hd
  | obj fs pre mems inner k key w₁ w₂ cs hv hd hp hk hks h1 h2 hc => simpa using hd

theorem ValPos.ws {env : Env} {fs : List Frame} {pre : Bytes} {b : UInt8} (h : ValPos env fs pre)
    (hb : Model.Machine.isWs b = true) : ValPos env fs (pre ++ [b]) := by
  cases h with
  | top w hw => exact .top _ (Ws.snoc hw hb)
  | arr fs pre es inner cs hv hd hp hc =>
    exact .arr fs pre es (inner ++ [b]) _ hv hd (hp.ws hb) (by simp [hc])
  | obj fs pre mems inner k key w₁ w₂ cs hv hd hp hk hks h1 h2 hc =>
    exact .obj fs pre mems inner k key w₁ (w₂ ++ [b]) _ hv hd hp hk hks h1 (Ws.snoc h2 hb) (by simp [hc])

/-- the state after consuming `cs` -/
inductive Inv (env : Env) : St → Bytes → Prop
  | val (ctx : ValCtx) (fs : List Frame) (cs : Bytes) :
      ValPos env fs cs →
      (ctx = .arrFirst → ∃ fs' pre w, fs = .arr [] :: fs' ∧ ValPos env fs' pre ∧ DepthOK env (fs'.length + 1) ∧
        Ws w ∧ cs = pre ++ [0x5b] ++ w) →
      Inv env ⟨.val ctx, fs⟩ cs
  | lit (rest : Bytes) (v : JV) (fs : List Frame) (pre done : Bytes) (t : CST) (cs : Bytes) :
      ValPos env fs pre → Derives (done ++ rest) t → Sem env fs.length t v → cs = pre ++ done →
      Inv env ⟨.lit rest v, fs⟩ cs
  | num (n : NumSt) (fs : List Frame) (pre cs : Bytes) :
      ValPos env fs pre → NumInv n → cs = pre ++ n.raw.reverse → Inv env ⟨.num n, fs⟩ cs
  | strVal (st : StrSt) (fs : List Frame) (pre : Bytes) (items : List StrItem) (tail cs : Bytes) :
      ValPos env fs pre → st.isKey = false → StrInv env st items tail →
      cs = pre ++ [0x22] ++ items.flatMap StrItem.bytes ++ tail → Inv env ⟨.str st, fs⟩ cs
  | strKey (st : StrSt) (fs : List Frame) (pre : Bytes) (mems : List (Bytes × JV)) (key inner : Bytes)
      (items : List StrItem) (tail cs : Bytes) :
      ValPos env fs pre → DepthOK env (fs.length + 1) → ObjPre env (fs.length + 1) mems inner →
      st.isKey = true → StrInv env st items tail →
      cs = pre ++ [0x7b] ++ inner ++ [0x22] ++ items.flatMap StrItem.bytes ++ tail →
      Inv env ⟨.str st, .obj mems key :: fs⟩ cs
  | afterElem (es : List JV) (fs : List Frame) (pre inner w cs : Bytes) :
      ValPos env fs pre → DepthOK env (fs.length + 1) → ArrBody env (fs.length + 1) es inner → Ws w →
      cs = pre ++ [0x5b] ++ inner ++ w → Inv env ⟨.afterElem, .arr es :: fs⟩ cs
  | objFirst (key : Bytes) (fs : List Frame) (pre w cs : Bytes) :
      ValPos env fs pre → DepthOK env (fs.length + 1) → Ws w → cs = pre ++ [0x7b] ++ w →
      Inv env ⟨.objFirst, .obj [] key :: fs⟩ cs
  | objNextKey (mems : List (Bytes × JV)) (key : Bytes) (fs : List Frame) (pre inner cs : Bytes) :
      ValPos env fs pre → DepthOK env (fs.length + 1) → ObjPre env (fs.length + 1) mems inner →
      cs = pre ++ [0x7b] ++ inner → Inv env ⟨.objNextKey, .obj mems key :: fs⟩ cs
  | afterKey (mems : List (Bytes × JV)) (key : Bytes) (fs : List Frame) (pre inner : Bytes) (k : List StrItem)
      (w₁ cs : Bytes) :
      ValPos env fs pre → DepthOK env (fs.length + 1) → ObjPre env (fs.length + 1) mems inner →
      StrWF k = true → KeySem env k key → Ws w₁ → cs = pre ++ [0x7b] ++ inner ++ strBytes k ++ w₁ →
      Inv env ⟨.afterKey, .obj mems key :: fs⟩ cs
  | afterMember (mems : List (Bytes × JV)) (key : Bytes) (fs : List Frame) (pre inner w cs : Bytes) :
      ValPos env fs pre → DepthOK env (fs.length + 1) → ObjBody env (fs.length + 1) mems inner → Ws w →
      cs = pre ++ [0x7b] ++ inner ++ w → Inv env ⟨.afterMember, .obj mems key :: fs⟩ cs
  | done (v : JV) (w vb w' : Bytes) (t : CST) (cs : Bytes) :
      Ws w → Derives vb t → Sem env 0 t v → Ws w' → cs = w ++ vb ++ w' → Inv env ⟨.done v, []⟩ cs

/-- completing a value at a value position -/
theorem Inv.complete {env : Env} {fs : List Frame} {pre vb : Bytes} {t : CST} {v : JV} {cs : Bytes}
    (hp : ValPos env fs pre) (hd : Derives vb t) (hs : Sem env fs.length t v) (hc : cs = pre ++ vb) :
    Inv env (Model.Machine.complete fs v) cs := by
  cases hp with
  | top w hw => exact .done v pre vb [] t cs hw hd hs Ws.nil (by simp [hc])
  | arr fs pre' es inner _ hv hdep hp hc' =>
    exact .afterElem (v :: es) fs pre' (inner ++ vb) [] cs hv hdep (hp.elem hd hs) Ws.nil (by simp [hc, hc'])
  | obj fs pre' mems inner k key w₁ w₂ _ hv hdep hp hk hks h1 h2 hc' =>
    exact .afterMember ((key, v) :: mems) key fs pre' _ [] cs hv hdep (hp.member hk hks h1 h2 hd hs) Ws.nil
      (by simp [hc, hc'])

theorem Inv.init (env : Env) : Inv env init [] :=
  .val .top [] [] (.top [] Ws.nil) (by simp)

end SJ.Proofs.Sound
