import SJ.Model.Ser
import SJ.Spec.Image
/-!
# C03 helper lemmas, part 7: `impl Serialize for Value` — the program of a value is well-formed and
its image is `imageOfValue`
-/
namespace SJ.Proofs.SerValue
open SJ SJ.Model.Ser SJ.Spec.Image SJ.Spec.Program SJ.Spec.Denote

theorem length_ofValues : ∀ xs : List JV, (ofValues xs).length = xs.length
  | [] => rfl
  | x :: xs => by simp [ofValues, length_ofValues xs]
theorem length_ofMembers : ∀ xs : List (Bytes × JV), (ofMembers xs).length = xs.length
  | [] => rfl
  | (k, v) :: xs => by simp [ofMembers, length_ofMembers xs]

mutual
theorem ofValue_wf : ∀ v : JV, valueLitsOK v = true → (ofValue v).wf = true
  | .null, _ => rfl
  | .bool _, _ => rfl
  | .num (.pos _), _ => rfl
  | .num (.neg _), _ => rfl
  | .num (.float _), _ => rfl
  | .num (.lit s), h => by simpa [ofValue, SVal.wf, valueLitsOK] using h
  | .str _, _ => rfl
  | .arr xs, h => by
    simp only [ofValue, SVal.wf, hintOK, length_ofValues, beq_self_eq_true, Bool.true_and]
    exact ofValues_wf xs (by simpa [valueLitsOK] using h)
  | .obj kvs, h => by
    simp only [ofValue, SVal.wf, hintOK, length_ofMembers, beq_self_eq_true, Bool.true_and]
    exact ofMembers_wf kvs (by simpa [valueLitsOK] using h)
theorem ofValues_wf : ∀ xs : List JV, valuesLitsOK xs = true → wfList (ofValues xs) = true
  | [], _ => rfl
  | x :: xs, h => by
    simp only [valuesLitsOK, Bool.and_eq_true] at h
    simp [ofValues, wfList, ofValue_wf x h.1, ofValues_wf xs h.2]
theorem ofMembers_wf : ∀ kvs : List (Bytes × JV), membersLitsOK kvs = true → wfEntries (ofMembers kvs) = true
  | [], _ => rfl
  | (k, v) :: kvs, h => by
    simp only [membersLitsOK, Bool.and_eq_true] at h
    simp [ofMembers, wfEntries, SVal.wf, ofValue_wf v h.1, ofMembers_wf kvs h.2]
end

variable (ext : Ext)
mutual
theorem image_ofValue : ∀ v : JV, image ext (ofValue v) = .ok (imageOfValue ext v)
  | .null => rfl
  | .bool _ => rfl
  | .num (.pos _) => rfl
  | .num (.neg _) => rfl
  | .num (.float _) => rfl
  | .num (.lit _) => rfl
  | .str _ => rfl
  | .arr xs => by simp [ofValue, image, imageOfValue, image_ofValues xs, Except.map]
  | .obj kvs => by simp [ofValue, image, imageOfValue, image_ofMembers kvs, Except.map]
theorem image_ofValues : ∀ xs : List JV, imageList ext (ofValues xs) = .ok (imageOfValues ext xs)
  | [] => rfl
  | x :: xs => by simp [ofValues, imageList, imageOfValues, image_ofValue x, image_ofValues xs]
theorem image_ofMembers : ∀ kvs : List (Bytes × JV), imageEntries ext (ofMembers kvs) = .ok (imageOfMembers ext kvs)
  | [] => rfl
  | (k, v) :: kvs => by
    simp [ofMembers, imageEntries, imageOfMembers, keyText, image_ofValue v, image_ofMembers kvs]
end

end SJ.Proofs.SerValue
