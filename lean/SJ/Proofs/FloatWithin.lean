import SJ.Proofs.FloatSteps
/-!
# From the error bound to `withinUlps 5`

`|M − Y| ≤ 4.02·2^-53·Y + 0.56` (units of `2^-1074`, `Y = num/den·2^1074`) implies that `r` is within 5 ulp of
`num/den`, where the ulp is that of the correctly rounded `num/den` (`Spec.Ieee.ulpOfExact64`): that ulp is
at least one unit and exceeds `2^-53·Y`.
-/
namespace SJ.Proofs.FloatQ
open SJ SJ.Spec.Ieee SJ.Spec.Decimal SJ.Model.FloatDefault SJ.Proofs.Ieee SJ.Proofs.FloatDefault

/-- relative part after the lift to literals: `4.02·2^-53` -/
def αL : ℚ := 402 / 100 * u

theorem ulpOfBits_pos (F : Fmt) (x : Nat) : 1 ≤ ulpOfBits F x := by
  unfold ulpOfBits; exact two_pow_pos' _

/-- the arithmetic of the overflow branch, free of big literals -/
theorem ovf_arith (M d Y W : ℚ) (hd : 0 < d) (hW : 1 ≤ W) (hM : M ≤ (2 ^ 53 - 1) * W) (_hY : 0 ≤ Y)
    (h : |M * d - Y| ≤ 402 / 100 * (1 / 2 ^ 53) * Y + 56 / 100 * d) : |M * d - Y| ≤ 5 * (W * d) := by
  have hlo := (abs_le.1 h).1
  have hMd : M * d ≤ (2 ^ 53 - 1) * W * d := mul_le_mul_of_nonneg_right hM (le_of_lt hd)
  have hWd : d ≤ W * d := by nlinarith
  have hαY : 402 / 100 * (1 / 2 ^ 53) * Y ≤ 403 / 100 * (W * d) := by
    nlinarith
  linarith

theorem withinUlps_of_near (neg : Bool) (num den : Nat) (r : UInt64) (hden : 0 < den)
    (hfin : F64.isFinite r = true) (hsign : F64.sign r = neg)
    (hn : Near αL hE (F64.mag r : ℚ) ((num : ℚ) * c / (den : ℚ))) :
    withinUlps 5 neg num den r = true := by
  unfold withinUlps ulpDist
  rw [hfin, hsign, dist64_eq num den r hfin]
  simp only [Bool.true_and, beq_self_eq_true, decide_eq_true_eq]
  have hdq : (0 : ℚ) < den := by exact_mod_cast hden
  have hcp := c_pos
  -- the hypothesis, multiplied through by `den`
  have hmul : |(F64.mag r : ℚ) * den - num * c| ≤ αL * (num * c) + hE * den := by
    unfold Near at hn
    have e : (F64.mag r : ℚ) - (num : ℚ) * c / den = ((F64.mag r : ℚ) * den - num * c) / den := by
      field_simp
    rw [e, abs_div, abs_of_pos hdq, div_le_iff₀ hdq] at hn
    have e2 : (αL * ((num : ℚ) * c / den) + hE) * den = αL * (num * c) + hE * den := by
      field_simp
    rw [e2] at hn; exact hn
  have hY0 : 0 ≤ (num : ℚ) * c := mul_nonneg (Nat.cast_nonneg num) (le_of_lt hcp)
  suffices hq : ((adiff (F64.mag r * den) (num * 2 ^ 1074) : Nat) : ℚ)
      ≤ ((5 * (ulpOfExact64 num den * den) : Nat) : ℚ) by exact_mod_cast hq
  rw [adiff_cast]
  push_cast
  rw [two_pow_eq_c]
  unfold ulpOfExact64
  simp only
  split
  · -- the correctly rounded value is finite
    have hu := ulp_lower b64 (num * 2 ^ 1074) den hden
    rw [b64_mbits] at hu
    have h1 := ulpOfBits_pos b64 (roundMag b64 (num * 2 ^ 1074) den)
    generalize ulpOfBits b64 (roundMag b64 (num * 2 ^ 1074) den) = U at hu h1 ⊢
    have huq : ((num * 2 ^ 1074 : Nat) : ℚ) < ((2 * 2 ^ 52 * (U * den) : Nat) : ℚ) := by exact_mod_cast hu
    push_cast at huq
    rw [two_pow_eq_c] at huq
    have hU1 : (1 : ℚ) ≤ U := by exact_mod_cast h1
    have hUd : (den : ℚ) ≤ U * den := by nlinarith
    have hα : αL * (num * c) ≤ 402 / 100 * ((U : ℚ) * den) := by
      unfold αL u
      rw [mul_assoc, mul_le_mul_iff_right₀ (by norm_num), div_mul_eq_mul_div, one_mul,
        div_le_iff₀ (by positivity)]
      linarith
    unfold hE at hmul
    linarith
  · -- the correctly rounded value overflows: the ulp of f64::MAX
    have hmax := F64.mag_le_max r hfin
    have hmq : ((F64.mag r : Nat) : ℚ) ≤ (((2 ^ 53 - 1) * 2 ^ 2045 : Nat) : ℚ) := by exact_mod_cast hmax
    have e1 : (((2 ^ 53 - 1 : Nat)) : ℚ) = 2 ^ 53 - 1 := by norm_num
    rw [Nat.cast_mul, e1] at hmq
    have hW1 : (1 : ℚ) ≤ ((2 ^ 2045 : Nat) : ℚ) := by exact_mod_cast two_pow_pos' 2045
    generalize ((2 ^ 2045 : Nat) : ℚ) = W at hmq hW1 ⊢
    unfold αL u hE at hmul
    exact ovf_arith _ _ _ W hdq hW1 hmq hY0 hmul

/-! ## `scale10` on rationals -/

theorem scale10_den_pos (D : Nat) (e : Int) : 0 < (scale10 D e).2 := by
  unfold scale10
  split
  · exact Nat.one_pos
  · exact Nat.pos_of_ne_zero (by simp)

theorem scale10_q (D : Nat) (e : Int) :
    ((scale10 D e).1 : ℚ) / ((scale10 D e).2 : ℚ) = (D : ℚ) * (10 : ℚ) ^ e := by
  unfold scale10
  split
  · rename_i h
    obtain ⟨k, hk⟩ : ∃ k : Nat, e = (k : Int) := ⟨e.toNat, by omega⟩
    subst hk
    simp
  · rename_i h
    obtain ⟨k, hk⟩ : ∃ k : Nat, e = -(k : Int) := ⟨(-e).toNat, by omega⟩
    subst hk
    simp only [neg_neg, Int.toNat_natCast, Nat.cast_pow, Nat.cast_ofNat]
    rw [zpow_neg_nat]; ring

/-- **`f64_from_parts`, every exponent, every `u64` significand:** an accepted result is within 5 ulp
    of `s·10^e` -/
theorem f64FromParts_within5 (positive : Bool) (s : Nat) (e : Int) (r : UInt64) (hs : s < 2 ^ 64)
    (h : f64FromParts positive s e = some r) :
    withinUlps 5 (!positive) (scale10 s e).1 (scale10 s e).2 r = true := by
  obtain ⟨hfin, hsign⟩ := f64FromParts_finite_signed positive s e r hs h
  have hn := parts_near positive s e r hs h
  have hd := scale10_den_pos s e
  have hdq : (0 : ℚ) < ((scale10 s e).2 : ℚ) := by exact_mod_cast hd
  apply withinUlps_of_near _ _ _ r hd hfin hsign
  have e1 : ((scale10 s e).1 : ℚ) * c / ((scale10 s e).2 : ℚ) = (s : ℚ) * (10 : ℚ) ^ e * c := by
    rw [← scale10_q]; field_simp
  rw [e1]
  have hx : 0 ≤ (s : ℚ) * (10 : ℚ) ^ e * c :=
    mul_nonneg (mul_nonneg (Nat.cast_nonneg s) (le_of_lt (zpow_pos (by norm_num) e))) (le_of_lt c_pos)
  exact near_mono hx (by unfold αE αL; have := u_pos; linarith) (le_refl _) hn

end SJ.Proofs.FloatQ
