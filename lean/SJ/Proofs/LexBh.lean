import SJ.Proofs.LexRound
import SJ.Proofs.LexSplit
/-!
# C07 layer (iv): bhcomp — the big-integer slow path returns the correctly rounded value

With `Bigint` as `Nat`: `hi64`/`bit_length`, `large_atof` (exact integer, rounded once with a sticky
flag), `small_atof` (comparison of the digits with `b + h`), `parse_mantissa` (up to `MAX_DIGITS - 1`
digits and one sticky digit), `bhcomp`.
-/
namespace SJ.Proofs.LexBh
open SJ SJ.Gen SJ.Model.Lexical SJ.Spec.Ieee SJ.Proofs.Ieee SJ.Proofs.LexRound
open SJ.Model.Num SJ.Proofs.NumInt SJ.Proofs.LexSplit

/-! ## an integer rounded at a high position: the sticky rule -/

theorem split_div (M j low d : Nat) (hlow : low < 2 ^ j) :
    (M * 2 ^ j + low) / 2 ^ (j + d) = M / 2 ^ d ∧
    (M * 2 ^ j + low) % 2 ^ (j + d) = (M % 2 ^ d) * 2 ^ j + low := by
  have hj := pow_pos' j
  have hd := pow_pos' d
  have hM := Nat.div_add_mod M (2 ^ d)
  have hr := Nat.mod_lt M hd
  rw [Nat.div_mod_unique (pow_pos' (j + d))]
  constructor
  · rw [Nat.pow_add]
    calc M % 2 ^ d * 2 ^ j + low + 2 ^ j * 2 ^ d * (M / 2 ^ d)
        = (2 ^ d * (M / 2 ^ d) + M % 2 ^ d) * 2 ^ j + low := by ring
      _ = M * 2 ^ j + low := by rw [hM]
  · rw [Nat.pow_add]
    have : (M % 2 ^ d + 1) * 2 ^ j ≤ 2 ^ d * 2 ^ j := Nat.mul_le_mul_right _ (by omega)
    rw [Nat.mul_comm (2 ^ j)]
    rw [Nat.add_mul, Nat.one_mul] at this
    omega

/-- rounding `M·2^j + low` at position `j + d` sees only `M` and whether `low ≠ 0` -/
theorem rne_int_sticky (M j low d : Nat) (hlow : low < 2 ^ j) (hd : 1 ≤ d) :
    rne (M * 2 ^ j + low) (2 ^ (j + d)) = gSticky (decide (low ≠ 0)) M d := by
  by_cases h0 : low = 0
  · subst h0
    simp only [ne_eq, not_true_eq_false, decide_false, gSticky, Bool.false_eq_true, if_false, Nat.add_zero]
    apply rne_congr _ _ _ _ (pow_pos' _) (pow_pos' _)
    rw [Nat.pow_add]; ring
  · have ht : decide (low ≠ 0) = true := by simpa using h0
    rw [ht]
    obtain ⟨hq, hr⟩ := split_div M j low d hlow
    have hj := pow_pos' j
    have hpd : 2 ^ (d + 1) = 2 * 2 ^ d := by rw [Nat.pow_succ]; ring
    have hpjd : 2 ^ (j + d) = 2 ^ d * 2 ^ j := by rw [Nat.pow_add]; ring
    have hdeven : ∃ t, 2 ^ d = 2 * t := ⟨2 ^ (d - 1), by
      have : d = (d - 1) + 1 := by omega
      conv_lhs => rw [this, Nat.pow_succ]
      ring⟩
    obtain ⟨t, ht2⟩ := hdeven
    simp only [gSticky, if_true]
    unfold rne
    simp only [hq, hr, sticky_div, sticky_mod]
    generalize M % 2 ^ d = r at *
    generalize M / 2 ^ d = q at *
    by_cases hlt : 2 * r + 1 < 2 ^ d
    · have h1 : 2 * (r * 2 ^ j + low) < 2 ^ (j + d) := by
        rw [hpjd]
        have : (2 * r + 2) * 2 ^ j ≤ 2 ^ d * 2 ^ j := Nat.mul_le_mul_right _ (by omega)
        have e : (2 * r + 2) * 2 ^ j = 2 * (r * 2 ^ j) + 2 * 2 ^ j := by ring
        omega
      have h2 : 2 * (2 * r + 1) < 2 ^ (d + 1) := by omega
      rw [if_pos h1, if_pos h2]
    · have hge : 2 ^ d ≤ 2 * r := by omega
      have h1 : ¬ (2 * (r * 2 ^ j + low) < 2 ^ (j + d)) := by
        rw [hpjd]
        have : 2 ^ d * 2 ^ j ≤ 2 * r * 2 ^ j := Nat.mul_le_mul_right _ hge
        have e : 2 * r * 2 ^ j = 2 * (r * 2 ^ j) := by ring
        omega
      have h1' : 2 ^ (j + d) < 2 * (r * 2 ^ j + low) := by
        rw [hpjd]
        have : 2 ^ d * 2 ^ j ≤ 2 * r * 2 ^ j := Nat.mul_le_mul_right _ hge
        have e : 2 * r * 2 ^ j = 2 * (r * 2 ^ j) := by ring
        omega
      have h2 : ¬ (2 * (2 * r + 1) < 2 ^ (d + 1)) := by omega
      have h2' : 2 ^ (d + 1) < 2 * (2 * r + 1) := by omega
      rw [if_neg h1, if_pos h1', if_neg h2, if_pos h2']

/-! ## `hi64`, `bit_length` -/

theorem hi64_small (N : Nat) (h0 : 0 < N) (hbl : N.log2 + 1 ≤ 64) :
    hi64 N = (N * 2 ^ (64 - (N.log2 + 1)), false) ∧ bitLength N = N.log2 + 1 ∧
    2 ^ 63 ≤ N * 2 ^ (64 - (N.log2 + 1)) ∧ N * 2 ^ (64 - (N.log2 + 1)) < 2 ^ 64 := by
  have hne : N ≠ 0 := by omega
  have hz : (N == 0) = false := by simpa using hne
  have hl1 := Nat.log2_self_le hne
  have hl2 := @Nat.lt_log2_self N
  refine ⟨?_, ?_, ?_, ?_⟩
  · unfold hi64; simp only [hz, Bool.false_eq_true, if_false, if_pos hbl, Nat.shiftLeft_eq]
  · unfold bitLength; simp [hz]
  · calc 2 ^ 63 = 2 ^ N.log2 * 2 ^ (64 - (N.log2 + 1)) := by rw [← Nat.pow_add]; congr 1; omega
      _ ≤ N * 2 ^ (64 - (N.log2 + 1)) := Nat.mul_le_mul_right _ hl1
  · calc N * 2 ^ (64 - (N.log2 + 1)) < 2 ^ (N.log2 + 1) * 2 ^ (64 - (N.log2 + 1)) :=
          Nat.mul_lt_mul_of_pos_right hl2 (pow_pos' _)
      _ = 2 ^ 64 := by rw [← Nat.pow_add]; congr 1; omega

theorem bne_zero_eq (a : Nat) : (a != 0) = decide (a ≠ 0) := by cases a <;> simp

theorem hi64_large (N : Nat) (hbl : 64 < N.log2 + 1) :
    hi64 N = (N / 2 ^ (N.log2 + 1 - 64), decide (N % 2 ^ (N.log2 + 1 - 64) ≠ 0)) ∧ bitLength N = N.log2 + 1 ∧
    2 ^ 63 ≤ N / 2 ^ (N.log2 + 1 - 64) ∧ N / 2 ^ (N.log2 + 1 - 64) < 2 ^ 64 := by
  have hne : N ≠ 0 := by intro h; rw [h] at hbl; simp [Nat.log2] at hbl
  have hz : (N == 0) = false := by simpa using hne
  have hl1 := Nat.log2_self_le hne
  have hl2 := @Nat.lt_log2_self N
  refine ⟨?_, ?_, ?_, ?_⟩
  · unfold hi64
    simp only [hz, Bool.false_eq_true, if_false, if_neg (show ¬ (N.log2 + 1 ≤ 64) by omega),
      Nat.shiftRight_eq_div_pow, bne_zero_eq]
  · unfold bitLength; simp [hz]
  · rw [Nat.le_div_iff_mul_le (pow_pos' _)]
    calc 2 ^ 63 * 2 ^ (N.log2 + 1 - 64) = 2 ^ N.log2 := by rw [← Nat.pow_add]; congr 1; omega
      _ ≤ N := hl1
  · rw [Nat.div_lt_iff_lt_mul (pow_pos' _)]
    calc N < 2 ^ (N.log2 + 1) := hl2
      _ = 2 ^ 64 * 2 ^ (N.log2 + 1 - 64) := by rw [← Nat.pow_add]; congr 1; omega

theorem normalize_normalized (M : Nat) (E : Int) (hM1 : 2 ^ 63 ≤ M) (hM2 : M < 2 ^ 64) :
    (normalize { mant := M, exp := E }).1 = { mant := M, exp := E } := by
  obtain ⟨s, _, hn, h1, h2⟩ := normalize_spec { mant := M, exp := E } (by show 0 < M; omega) hM2
  simp only [] at hn h1 h2
  have hs : s = 0 := by
    by_contra hc
    have : 2 ≤ 2 ^ s := by
      calc 2 = 2 ^ 1 := rfl
        _ ≤ 2 ^ s := Nat.pow_le_pow_right (by decide) (by omega)
    have : M * 2 ≤ M * 2 ^ s := Nat.mul_le_mul_left _ this
    omega
  rw [hn, hs]; simp

/-- **`large_atof`**: an exact positive integer `N·10^e` is rounded once, to nearest-even -/
theorem largeAtof_eq {c : FC} {F : Fmt} (h : FCok c F) (N : Nat) (e : Int) (hN : 0 < N) (_he : 0 ≤ e) :
    largeAtof c N e = clampInf F (roundMag F (N * 10 ^ e.toNat * 2 ^ F.qexp) 1) := by
  have hmb := h.mb62
  have heb := h.eb
  have hB : N * 5 ^ e.toNat * 2 ^ e.toNat = N * 10 ^ e.toNat := by
    have : (10 : Nat) = 5 * 2 := rfl
    rw [this, Nat.mul_pow]; ring
  generalize hBdef : N * 10 ^ e.toNat = B at *
  have hBpos : 0 < B := by rw [← hBdef]; exact Nat.mul_pos hN (Nat.pos_of_ne_zero (by simp))
  unfold largeAtof
  simp only [hB]
  by_cases hbl : B.log2 + 1 ≤ 64
  · obtain ⟨hh, hbit, hM1, hM2⟩ := hi64_small B hBpos hbl
    rw [hh, hbit]
    simp only []
    unfold roundToNative
    rw [normalize_normalized _ _ hM1 hM2, pack h (bhRound_algOk false) _ _ hM1 hM2]
    congr 1
    have hg : packSpec F (gSticky false) = packSpec F gRne := rfl
    rw [hg, ← roundMag_normalized (by omega) _ _ hM1 hM2]
    apply roundMag_congr F _ _ _ _ (sDen_pos F _) Nat.one_pos
    have hs := scaled_shift F B 0 (64 - (B.log2 + 1))
    have e1 : ((B.log2 + 1 : Nat) : Int) - 64 = 0 - ((64 - (B.log2 + 1) : Nat) : Int) := by omega
    have h1 : sNum F B 0 = B * 2 ^ F.qexp := by unfold sNum; simp
    have h2 : sDen F 0 = 1 := by
      unfold sDen
      have : (-((0 : Int) + (F.qexp : Int))).toNat = 0 := by omega
      rw [this]; rfl
    rw [h1, h2] at hs
    rw [e1]
    exact hs.symm
  · have hbl' : 64 < B.log2 + 1 := by omega
    obtain ⟨hh, hbit, hM1, hM2⟩ := hi64_large B hbl'
    rw [hh, hbit]
    simp only []
    unfold roundToNative
    rw [normalize_normalized _ _ hM1 hM2, pack h (bhRound_algOk _) _ _ hM1 hM2]
    congr 1
    obtain ⟨j, hj⟩ : ∃ j : Nat, j = B.log2 + 1 - 64 := ⟨_, rfl⟩
    rw [← hj]
    have hE : ((B.log2 + 1 : Nat) : Int) - 64 = (j : Int) := by omega
    rw [hE]
    obtain ⟨d, hd⟩ : ∃ d : Nat, d = 63 - F.mbits := ⟨_, rfl⟩
    have hd1 : 1 ≤ d := by omega
    unfold packSpec
    rw [← hd, if_pos (by omega)]
    have hKt : ((j : Int) + (d : Int) + (F.qexp : Int)).toNat = j + d + F.qexp := by omega
    rw [hKt]
    -- B = M·2^j + low
    have hsplit : B = B / 2 ^ j * 2 ^ j + B % 2 ^ j := by
      have := Nat.div_add_mod B (2 ^ j); rw [Nat.mul_comm] at this; omega
    have hlow : B % 2 ^ j < 2 ^ j := Nat.mod_lt _ (pow_pos' j)
    rw [roundMag_eq]
    have hlogB : (B * 2 ^ F.qexp / 1).log2 = B.log2 + F.qexp := by
      rw [Nat.div_one]
      have hne : B ≠ 0 := by omega
      apply log2_eq_of
      · rw [Nat.pow_add]; exact Nat.mul_le_mul_right _ (Nat.log2_self_le hne)
      · have : 2 ^ (B.log2 + F.qexp + 1) = 2 ^ (B.log2 + 1) * 2 ^ F.qexp := by rw [← Nat.pow_add]; congr 1; omega
        rw [this]; exact Nat.mul_lt_mul_of_pos_right (@Nat.lt_log2_self B) (pow_pos' _)
    have hk : kOf F (B * 2 ^ F.qexp) 1 = j + d + F.qexp := by
      unfold kOf; rw [hlogB]; omega
    rw [hk]
    congr 1
    rw [Nat.one_mul]
    have : rne (B * 2 ^ F.qexp) (2 ^ (j + d + F.qexp)) = rne B (2 ^ (j + d)) := by
      apply rne_congr _ _ _ _ (pow_pos' _) (pow_pos' _)
      rw [Nat.pow_add (2) (j + d)]; ring
    rw [this]
    conv_rhs => rw [hsplit]
    exact (rne_int_sticky _ _ _ _ hlow hd1).symm

/-! ## bit patterns are ordered like their magnitudes -/

/-- the successor pattern is one unit in the last place above -/
theorem magOfBits_succ (F : Fmt) (u : Nat) :
    magOfBits F (u + 1) = magOfBits F u + 2 ^ (u / 2 ^ F.mbits - 1) := by
  have hP := pow_pos' F.mbits
  unfold magOfBits
  generalize hPdef : 2 ^ F.mbits = P at *
  have hu := Nat.div_add_mod u P
  have hM := Nat.mod_lt u hP
  generalize hE : u / P = E at *
  generalize hMd : u % P = M at *
  by_cases hcarry : M + 1 < P
  · have h1 : (u + 1) / P = E := by
      apply Nat.div_eq_of_lt_le
      · rw [Nat.mul_comm]; omega
      · rw [Nat.succ_mul, Nat.mul_comm]; omega
    have h2 : (u + 1) % P = M + 1 := by
      have := Nat.div_add_mod (u + 1) P
      rw [h1] at this; omega
    simp only [h1, h2]
    by_cases hE0 : E = 0
    · simp [hE0]
    · simp only [hE0, if_false]; ring
  · have hMP : M + 1 = P := by omega
    have h1 : (u + 1) / P = E + 1 := by
      apply Nat.div_eq_of_lt_le
      · rw [Nat.succ_mul, Nat.mul_comm]; omega
      · rw [Nat.succ_mul, Nat.succ_mul, Nat.mul_comm]; omega
    have h2 : (u + 1) % P = 0 := by
      have := Nat.div_add_mod (u + 1) P
      rw [h1] at this
      have : P * (E + 1) = P * E + P := by ring
      omega
    simp only [h1, h2]
    by_cases hE0 : E = 0
    · simp [hE0]; omega
    · simp only [hE0, if_false, Nat.succ_ne_zero, Nat.add_sub_cancel, Nat.add_zero]
      obtain ⟨n, hn⟩ : ∃ n, E = n + 1 := ⟨E - 1, by omega⟩
      subst hn
      simp only [Nat.add_sub_cancel, Nat.pow_succ]
      have : P = M + 1 := hMP.symm
      nlinarith [pow_pos' n]

theorem magOfBits_lt_succ (F : Fmt) (u : Nat) : magOfBits F u < magOfBits F (u + 1) := by
  rw [magOfBits_succ]; have := pow_pos' (u / 2 ^ F.mbits - 1); omega

theorem magOfBits_strictMono (F : Fmt) {u v : Nat} (h : u < v) : magOfBits F u < magOfBits F v := by
  induction v with
  | zero => omega
  | succ v ih =>
    rcases Nat.lt_or_ge u v with h1 | h1
    · exact Nat.lt_trans (ih h1) (magOfBits_lt_succ F v)
    · have : u = v := by omega
      subst this; exact magOfBits_lt_succ F u

theorem magOfBits_mono (F : Fmt) {u v : Nat} (h : u ≤ v) : magOfBits F u ≤ magOfBits F v := by
  rcases Nat.lt_or_ge u v with h1 | h1
  · exact Nat.le_of_lt (magOfBits_strictMono F h1)
  · have : u = v := by omega
    subst this; exact Nat.le_refl _

theorem magOfBits_inj (F : Fmt) {u v : Nat} (h : magOfBits F u = magOfBits F v) : u = v := by
  rcases Nat.lt_trichotomy u v with h1 | h1 | h1
  · have := magOfBits_strictMono F h1; omega
  · exact h1
  · have := magOfBits_strictMono F h1; omega

/-! ## locating the rounded value between two adjacent patterns -/

/-- If `a/bb` lies strictly between the midpoint below `b` and the midpoint above `b + 1`, rounding to
    nearest-even is decided by comparing `a/bb` with `b + h` (the midpoint of `b` and `b + 1`). -/
theorem roundMag_of_near (F : Fmt) (hmb : 1 ≤ F.mbits) (a bb b : Nat) (hbb : 0 < bb)
    (hlo : b = 0 ∨ (magOfBits F (b - 1) + magOfBits F b) * bb < 2 * a)
    (hhi : 2 * a < (magOfBits F (b + 1) + magOfBits F (b + 2)) * bb) :
    roundMag F a bb =
      if 2 * a < (magOfBits F b + magOfBits F (b + 1)) * bb then b
      else if (magOfBits F b + magOfBits F (b + 1)) * bb < 2 * a then b + 1
      else if b % 2 = 0 then b else b + 1 := by
  have n0 := roundMag_nearest F a bb b hbb
  have n1 := roundMag_nearest F a bb (b + 1) hbb
  have sm : ∀ {u v : Nat}, u < v → magOfBits F u * bb < magOfBits F v * bb :=
    fun h => Nat.mul_lt_mul_of_pos_right (magOfBits_strictMono F h) hbb
  have wm : ∀ {u v : Nat}, u ≤ v → magOfBits F u * bb ≤ magOfBits F v * bb :=
    fun h => Nat.mul_le_mul_right _ (magOfBits_mono F h)
  have s01 := sm (show b < b + 1 by omega)
  have s12 := sm (show b + 1 < b + 2 by omega)
  rw [Nat.add_mul] at hhi ⊢
  generalize hR : roundMag F a bb = R at *
  unfold adiff at n0 n1
  rcases Nat.lt_trichotomy R b with hlt | heq | hgt
  · -- R < b is impossible
    exfalso
    have hb1 : 1 ≤ b := by omega
    have w := wm (show R ≤ b - 1 by omega)
    have s := sm (show b - 1 < b by omega)
    rcases hlo with h0 | hlo
    · omega
    · rw [Nat.add_mul] at hlo; omega
  · subst heq
    by_cases c1 : 2 * a < magOfBits F R * bb + magOfBits F (R + 1) * bb
    · rw [if_pos c1]
    · rw [if_neg c1]
      by_cases c2 : magOfBits F R * bb + magOfBits F (R + 1) * bb < 2 * a
      · exfalso; omega
      · rw [if_neg c2]
        have hne : magOfBits F (R + 1) ≠ magOfBits F (roundMag F a bb) := by
          rw [hR]; have := magOfBits_lt_succ F R; omega
        have hd : adiff (magOfBits F (R + 1) * bb) a = adiff (magOfBits F (roundMag F a bb) * bb) a := by
          rw [hR]; unfold adiff; omega
        have := roundMag_tie_even F a bb (R + 1) hbb hmb hne hd
        rw [hR] at this
        rw [if_pos this]
  · rcases Nat.lt_or_ge (b + 1) R with hgt2 | hle
    · exfalso
      have w := wm (show b + 2 ≤ R by omega)
      omega
    · have heq : R = b + 1 := by omega
      subst heq
      by_cases c1 : 2 * a < magOfBits F b * bb + magOfBits F (b + 1) * bb
      · exfalso; omega
      · rw [if_neg c1]
        by_cases c2 : magOfBits F b * bb + magOfBits F (b + 1) * bb < 2 * a
        · rw [if_pos c2]
        · rw [if_neg c2]
          have hne : magOfBits F b ≠ magOfBits F (roundMag F a bb) := by
            rw [hR]; have := magOfBits_lt_succ F b; omega
          have hd : adiff (magOfBits F b * bb) a = adiff (magOfBits F (roundMag F a bb) * bb) a := by
            rw [hR]; unfold adiff; omega
          have := roundMag_tie_even F a bb b hbb hmb hne hd
          rw [hR] at this
          have : ¬ (b % 2 = 0) := by omega
          rw [if_neg this]

/-! ## decoding a finite bit pattern (`num.rs` `mantissa`, `exponent`) -/

theorem and_expmask (F : Fmt) (b : Nat) (hb : b < 2 ^ (F.mbits + F.ebits)) :
    b &&& ((2 ^ F.ebits - 1) * 2 ^ F.mbits) = b / 2 ^ F.mbits * 2 ^ F.mbits := by
  apply Nat.eq_of_testBit_eq
  intro i
  rw [Nat.testBit_and, Nat.testBit_mul_two_pow, Nat.testBit_mul_two_pow, Nat.testBit_two_pow_sub_one,
    Nat.testBit_div_two_pow]
  by_cases h1 : F.mbits ≤ i
  · have e : i - F.mbits + F.mbits = i := by omega
    rw [e]
    by_cases h2 : i - F.mbits < F.ebits
    · simp [h1, h2]
    · have : b.testBit i = false := Nat.testBit_lt_two_pow (Nat.lt_of_lt_of_le hb (Nat.pow_le_pow_right (by decide) (by omega)))
      simp [h1, h2, this]
  · simp [h1]

/-- `mantissa · 2^(exponent + qexp) = magOfBits`, with `exponent + qexp = max(E,1) − 1` -/
theorem decode {c : FC} {F : Fmt} (h : FCok c F) (b : Nat) (hb : b < F.infBits) :
    ∃ m k : Nat, mantissa c b = m ∧ exponent c b = (k : Int) - F.qexp ∧ magOfBits F b = m * 2 ^ k ∧
      k = b / 2 ^ F.mbits - 1 ∧ m < 2 ^ (F.mbits + 1) ∧ m % 2 = b % 2 := by
  have hP := pow_pos' F.mbits
  have hmb1 := h.mb1
  have hinf : F.infBits < 2 ^ (F.mbits + F.ebits) := by
    unfold Fmt.infBits
    rw [Nat.pow_add, Nat.mul_comm (2 ^ F.mbits)]
    exact Nat.mul_lt_mul_of_pos_right (by have := pow_pos' F.ebits; omega) hP
  have hmask := and_expmask F b (by omega)
  have hE : b / 2 ^ F.mbits < 2 ^ F.ebits - 1 := by
    rw [Nat.div_lt_iff_lt_mul hP]; exact hb
  have hPeven : 2 ^ F.mbits % 2 = 0 := by
    obtain ⟨n, hn⟩ : ∃ n, F.mbits = n + 1 := ⟨F.mbits - 1, by omega⟩
    rw [hn, Nat.pow_succ]; omega
  have hbdm := Nat.div_add_mod b (2 ^ F.mbits)
  have hpar : (b % 2 ^ F.mbits) % 2 = b % 2 := by
    have : 2 ^ F.mbits * (b / 2 ^ F.mbits) % 2 = 0 := by
      rw [Nat.mul_mod, hPeven]; simp
    omega
  have hmod := Nat.mod_lt b hP
  unfold mantissa exponent isDenormal magOfBits
  rw [h.emask, h.mmask, Nat.and_two_pow_sub_one_eq_mod]
  have hmask' : b &&& F.infBits = b / 2 ^ F.mbits * 2 ^ F.mbits := hmask
  rw [hmask']
  by_cases hz : b / 2 ^ F.mbits = 0
  · refine ⟨b % 2 ^ F.mbits, 0, ?_, ?_, ?_, ?_, ?_, hpar⟩
    · simp [hz]
    · simp [hz, h.den]
    · simp [hz]
    · simp [hz]
    · rw [Nat.pow_succ]; omega
  · have hnz : (b / 2 ^ F.mbits * 2 ^ F.mbits == 0) = false := by
      rw [beq_eq_false_iff_ne]
      exact Nat.ne_of_gt (Nat.mul_pos (Nat.pos_of_ne_zero hz) hP)
    refine ⟨b % 2 ^ F.mbits + 2 ^ F.mbits, b / 2 ^ F.mbits - 1, ?_, ?_, ?_, rfl, ?_, ?_⟩
    · simp [hnz, h.hidden]
    · simp only [hnz, Bool.false_eq_true, if_false]
      rw [h.size, Int.toNat_natCast, Nat.shiftRight_eq_div_pow, Nat.mul_div_cancel _ hP, h.bias]
      have := Nat.pos_of_ne_zero hz
      generalize b / 2 ^ F.mbits = E at *
      omega
    · simp only [hz, if_false]; ring
    · rw [Nat.pow_succ]; omega
    · omega

/-! ## `small_atof`: comparison of the digits with `b + h` -/

theorem cmp_scale {x y c : Nat} (hc : 0 < c) : (x * c < y * c ↔ x < y) := by
  constructor
  · intro h; exact Nat.lt_of_mul_lt_mul_right h
  · intro h; exact Nat.mul_lt_mul_of_pos_right h hc

/-- **`small_atof`**: for a finite `b` whose neighbourhood contains `N / 10^t` (strictly between the midpoint
    below `b` and the midpoint above `b + 1`), comparing the digits with `b + h` yields the correctly rounded value -/
theorem smallAtof_eq {c : FC} {F : Fmt} (h : FCok c F) (N : Nat) (s : Int) (b : Nat) (hs : s < 0)
    (hb : b < F.infBits)
    (hlo : b = 0 ∨ (magOfBits F (b - 1) + magOfBits F b) * 10 ^ (-s).toNat < 2 * (N * 2 ^ F.qexp))
    (hhi : 2 * (N * 2 ^ F.qexp) < (magOfBits F (b + 1) + magOfBits F (b + 2)) * 10 ^ (-s).toNat) :
    smallAtof c N s b = roundMag F (N * 2 ^ F.qexp) (10 ^ (-s).toNat) := by
  obtain ⟨m, k, hm, he, hmag, hk, hm2, hpar⟩ := decode h b hb
  obtain ⟨t, ht⟩ : ∃ t : Nat, -s = t := ⟨(-s).toNat, by omega⟩
  have htt : (-s).toNat = t := by omega
  have ht1 : 1 ≤ t := by omega
  rw [htt] at hlo hhi ⊢
  have h10 : (10 : Nat) ^ t = 5 ^ t * 2 ^ t := by
    have : (10 : Nat) = 5 * 2 := rfl
    rw [this, Nat.mul_pow]
  rw [roundMag_of_near F h.mb1 _ _ b (Nat.pos_of_ne_zero (by simp)) hlo hhi]
  -- the midpoint above `b`
  have hmid : magOfBits F b + magOfBits F (b + 1) = (2 * m + 1) * 2 ^ k := by
    rw [magOfBits_succ, hmag, ← hk]; ring
  rw [hmid]
  -- the model
  have hm63 : 2 * m + 1 < 2 ^ 64 := by
    have : 2 ^ (F.mbits + 1) ≤ 2 ^ 63 := Nat.pow_le_pow_right (by decide) (by have := h.mb62; have := h.eb; omega)
    omega
  have hbh : bhExtended c b = { mant := 2 * m + 1, exp := (k : Int) - F.qexp - 1 } := by
    unfold bhExtended fromFloat
    rw [hm, he]
    simp only [Nat.shiftLeft_eq, Nat.pow_one]
    have e1 : u64 (m * 2) = m * 2 := u64_of_lt (by omega)
    rw [e1, u64_of_lt (by omega)]
    congr 1; omega
  have hbits : b + 1 < 2 ^ c.bits := by
    rw [h.bits]
    have : F.infBits < 2 ^ (F.mbits + F.ebits) := by
      unfold Fmt.infBits
      rw [Nat.pow_add, Nat.mul_comm (2 ^ F.mbits)]
      exact Nat.mul_lt_mul_of_pos_right (by have := pow_pos' F.ebits; omega) (pow_pos' _)
    have : 2 ^ (F.mbits + F.ebits) < 2 ^ (F.mbits + F.ebits + 1) := Nat.pow_lt_pow_right (by decide) (by omega)
    omega
  have hnext : nextPositive c b = b + 1 := by unfold nextPositive; exact Nat.mod_eq_of_lt hbits
  have heven : roundPositiveEven c b = if b % 2 = 0 then b else b + 1 := by
    unfold roundPositiveEven
    rw [hm, Nat.and_one_is_mod, hpar, hnext]
    by_cases hp : b % 2 = 0
    · simp [hp]
    · have : b % 2 = 1 := by omega
      simp [this]
  unfold smallAtof
  simp only [hbh, hnext, heven]
  -- both comparisons, scaled to a common power of two
  have key : ∀ (real theor X : Nat), real * 2 ^ X = 2 * (N * 2 ^ F.qexp) →
      theor * 2 ^ X = (2 * m + 1) * 2 ^ k * 10 ^ t →
      (if real > theor then b + 1 else if real < theor then b else if b % 2 = 0 then b else b + 1) =
      (if 2 * (N * 2 ^ F.qexp) < (2 * m + 1) * 2 ^ k * 10 ^ t then b
       else if (2 * m + 1) * 2 ^ k * 10 ^ t < 2 * (N * 2 ^ F.qexp) then b + 1
       else if b % 2 = 0 then b else b + 1) := by
    intro real theor X h1 h2
    have i1 : 2 * (N * 2 ^ F.qexp) < (2 * m + 1) * 2 ^ k * 10 ^ t ↔ real < theor := by
      rw [← h1, ← h2]; exact cmp_scale (pow_pos' X)
    have i2 : (2 * m + 1) * 2 ^ k * 10 ^ t < 2 * (N * 2 ^ F.qexp) ↔ theor < real := by
      rw [← h1, ← h2]; exact cmp_scale (pow_pos' X)
    by_cases c1 : real > theor
    · have n1 : ¬ (2 * (N * 2 ^ F.qexp) < (2 * m + 1) * 2 ^ k * 10 ^ t) := fun hh => by have := i1.1 hh; omega
      rw [if_pos c1, if_neg n1, if_pos (i2.2 c1)]
    · rw [if_neg c1]
      by_cases c2 : real < theor
      · rw [if_pos c2, if_pos (i1.2 c2)]
      · have n1 : ¬ (2 * (N * 2 ^ F.qexp) < (2 * m + 1) * 2 ^ k * 10 ^ t) := fun hh => c2 (i1.1 hh)
        have n2 : ¬ ((2 * m + 1) * 2 ^ k * 10 ^ t < 2 * (N * 2 ^ F.qexp)) := fun hh => c1 (i2.1 hh)
        rw [if_neg c2, if_neg n1, if_neg n2]
  by_cases hβ : (k : Int) - F.qexp - 1 - s > 0
  · obtain ⟨β, hβn⟩ : ∃ β : Nat, (k : Int) - F.qexp - 1 - s = β := ⟨((k : Int) - F.qexp - 1 - s).toNat, by omega⟩
    have hβt : ((k : Int) - F.qexp - 1 - s).toNat = β := by omega
    have hneg : ¬ ((k : Int) - F.qexp - 1 - s < 0) := by omega
    simp only [if_pos hβ, if_neg hneg, htt, hβt]
    apply key _ _ (F.qexp + 1)
    · rw [Nat.pow_succ]; ring
    · have : β + (F.qexp + 1) = k + t := by omega
      calc (2 * m + 1) * 5 ^ t * 2 ^ β * 2 ^ (F.qexp + 1) = (2 * m + 1) * 5 ^ t * 2 ^ (β + (F.qexp + 1)) := by
            rw [Nat.pow_add]; ring
        _ = (2 * m + 1) * 5 ^ t * 2 ^ (k + t) := by rw [this]
        _ = (2 * m + 1) * 2 ^ k * 10 ^ t := by rw [h10, Nat.pow_add]; ring
  · rw [if_neg hβ]
    by_cases hneg : (k : Int) - F.qexp - 1 - s < 0
    · obtain ⟨γ, hγn⟩ : ∃ γ : Nat, -((k : Int) - F.qexp - 1 - s) = γ := ⟨(-((k : Int) - F.qexp - 1 - s)).toNat, by omega⟩
      have hγt : (-((k : Int) - F.qexp - 1 - s)).toNat = γ := by omega
      simp only [if_pos hneg, htt, hγt]
      apply key _ _ (k + t)
      · have : γ + (k + t) = F.qexp + 1 := by omega
        calc N * 2 ^ γ * 2 ^ (k + t) = N * 2 ^ (γ + (k + t)) := by rw [Nat.pow_add]; ring
          _ = N * 2 ^ (F.qexp + 1) := by rw [this]
          _ = 2 * (N * 2 ^ F.qexp) := by rw [Nat.pow_succ]; ring
      · rw [h10, Nat.pow_add]; ring
    · simp only [if_neg hneg, htt]
      apply key _ _ (k + t)
      · have : k + t = F.qexp + 1 := by omega
        rw [this, Nat.pow_succ]; ring
      · rw [h10, Nat.pow_add]; ring

/-! ## `parse_mantissa`: up to `MAX_DIGITS - 1` digits and one sticky digit -/

theorem pow10_64_get (i : Nat) (hi : i < 20) : pow10_64.getD i 0 = 10 ^ i :=
  SJ.Proofs.LexTables.pow10_64_correct i (List.mem_range.2 hi)

/-- the loop: `result·10^counter + value` accumulates the digits, at most `maxDigits - i` of them -/
theorem parseMantissaLoop_spec (maxDigits : Nat) (ds : Bytes) (counter value i result : Nat)
    (hc : counter ≤ 18) (hi : i < maxDigits) (hcv : counter = 0 → value = 0) :
    let r := parseMantissaLoop maxDigits 18 ds counter value i result
    r.2.2.2 * 10 ^ r.1 + r.2.1 =
        (result * 10 ^ counter + value) * 10 ^ (min ds.length (maxDigits - i)) + natOfDigits (ds.take (maxDigits - i)) ∧
      r.2.2.1 = i + min ds.length (maxDigits - i) ∧ r.1 ≤ 18 ∧ (r.1 = 0 → r.2.1 = 0) := by
  induction ds generalizing counter value i result with
  | nil => simp [parseMantissaLoop, natOfDigits_nil, hc]; exact hcv
  | cons d ds ih =>
    simp only [parseMantissaLoop]
    have hm : maxDigits - i = (maxDigits - (i + 1)) + 1 := by omega
    by_cases h18 : counter = 18
    · -- flush the limb
      subst h18
      simp only [beq_self_eq_true, if_true]
      rw [pow10_64_get 18 (by decide)]
      by_cases hlast : i + 1 = maxDigits
      · have hbeq : (i + 1 == maxDigits) = true := by simpa using hlast
        simp only [hbeq, if_true]
        have h1 : maxDigits - i = 1 := by omega
        rw [h1]
        simp [natOfDigits]
      · have hbeq : (i + 1 == maxDigits) = false := by simpa using hlast
        simp only [hbeq, Bool.false_eq_true, if_false]
        obtain ⟨e1, e2, e3, e4⟩ := ih (0 + 1) (0 * 10 + dig d) (i + 1) (result * 10 ^ 18 + value) (by omega) (by omega) (by omega)
        refine ⟨?_, ?_, e3, e4⟩
        · rw [e1, hm, List.take_succ_cons]
          have hmin : min (d :: ds).length (maxDigits - (i + 1) + 1) = min ds.length (maxDigits - (i + 1)) + 1 := by
            simp only [List.length_cons]; omega
          rw [hmin]
          have hv : natOfDigits (d :: List.take (maxDigits - (i + 1)) ds) =
              dig d * 10 ^ (min ds.length (maxDigits - (i + 1))) + natOfDigits (List.take (maxDigits - (i + 1)) ds) := by
            rw [natOfDigits_eq_val, val_cons, val_eq, List.length_take]; simp [Nat.min_comm]
          rw [hv, Nat.pow_succ]; ring
        · rw [e2]; simp only [List.length_cons]; omega
    · have hbeq18 : (counter == 18) = false := by simpa using h18
      simp only [hbeq18, Bool.false_eq_true, if_false]
      by_cases hlast : i + 1 = maxDigits
      · have hbeq : (i + 1 == maxDigits) = true := by simpa using hlast
        simp only [hbeq, if_true]
        have h1 : maxDigits - i = 1 := by omega
        rw [h1]
        simp [natOfDigits, Nat.pow_succ]
        constructor
        · ring
        · omega
      · have hbeq : (i + 1 == maxDigits) = false := by simpa using hlast
        simp only [hbeq, Bool.false_eq_true, if_false]
        obtain ⟨e1, e2, e3, e4⟩ := ih (counter + 1) (value * 10 + dig d) (i + 1) result (by omega) (by omega) (by omega)
        refine ⟨?_, ?_, e3, e4⟩
        · rw [e1, hm, List.take_succ_cons]
          have hmin : min (d :: ds).length (maxDigits - (i + 1) + 1) = min ds.length (maxDigits - (i + 1)) + 1 := by
            simp only [List.length_cons]; omega
          rw [hmin]
          have hv : natOfDigits (d :: List.take (maxDigits - (i + 1)) ds) =
              dig d * 10 ^ (min ds.length (maxDigits - (i + 1))) + natOfDigits (List.take (maxDigits - (i + 1)) ds) := by
            rw [natOfDigits_eq_val, val_cons, val_eq, List.length_take]; simp [Nat.min_comm]
          rw [hv, Nat.pow_succ, Nat.pow_succ]; ring
        · rw [e2]; simp only [List.length_cons]; omega

theorem any_nonzero_of_pos (l : Bytes) (h : 0 < natOfDigits l) : l.any (· != 0x30) = true := by
  by_contra hc
  have hall : l.all (· == 0x30) = true := by
    rw [List.all_eq_true]
    intro x hx
    have : ¬ (l.any (· != 0x30) = true) := hc
    rw [List.any_eq_true] at this
    by_contra hne
    exact this ⟨x, hx, by simpa using hne⟩
  have := natOfDigits_all_zero l hall
  omega

/-- (after the repair of C07-zero-tail the sticky `1` is added only when a dropped digit is non-zero; `hnz` says so) -/
theorem parseMantissa_eq (c : FC) (hmax : 2 ≤ c.maxDigits) (integer fraction : Bytes)
    (hnz : c.maxDigits - 1 < (integer ++ fraction).length →
      0 < natOfDigits ((integer ++ fraction).drop (c.maxDigits - 1))) :
    parseMantissa c integer fraction =
      if c.maxDigits - 1 < (integer ++ fraction).length then
        natOfDigits ((integer ++ fraction).take (c.maxDigits - 1)) * 10 + 1
      else natOfDigits (integer ++ fraction) := by
  have hlen : pow10_64.length - 2 = 18 := by rw [SJ.Proofs.LexTables.lengths.2.2.2.2.2.2.2.1]
  unfold parseMantissa
  rw [hlen]
  simp only []
  obtain ⟨e1, e2, e3, e4⟩ := parseMantissaLoop_spec (c.maxDigits - 1) (integer ++ fraction) 0 0 0 0 (by omega) (by omega) (fun _ => rfl)
  generalize parseMantissaLoop (c.maxDigits - 1) 18 (integer ++ fraction) 0 0 0 0 = r at *
  obtain ⟨counter, value, i, result⟩ := r
  simp only [] at e1 e2 e3 e4 ⊢
  simp only [Nat.zero_mul, Nat.zero_add, Nat.sub_zero, Nat.add_zero] at e1 e2
  have hres : (if (counter != 0) = true then result * pow10_64.getD counter 0 + value else result) =
      natOfDigits ((integer ++ fraction).take (c.maxDigits - 1)) := by
    by_cases hc0 : counter = 0
    · have hv := e4 hc0
      subst hc0
      simp only [bne_self_eq_false, Bool.false_eq_true, if_false]
      rw [← e1, hv]; simp
    · have : (counter != 0) = true := by simpa using hc0
      rw [if_pos this, pow10_64_get counter (by omega), e1]
  rw [hres, e2, ← List.length_append]
  by_cases hlt : c.maxDigits - 1 < (integer ++ fraction).length
  · rw [if_pos hlt, if_pos (by omega)]
    have hmin : min (integer ++ fraction).length (c.maxDigits - 1) = c.maxDigits - 1 := by omega
    rw [hmin, any_nonzero_of_pos _ (hnz hlt)]
    rfl
  · rw [if_neg hlt, if_neg (by omega), List.take_of_length_le (by omega)]

/-! ## the digit-count argument behind `MAX_DIGITS` -/

/-- no midpoint `(2m+1)·2^k / 2^(q+1)` lies strictly between two consecutive `K`-digit decimals `D/10^τ`,
    `(D+1)/10^τ`, because such a midpoint has at most `K` significant digits: `2^(mb+2)·5^(q+1) < 10^K` -/
theorem no_critical_inside (mb q K m k D τ : Nat) (hm : m < 2 ^ (mb + 1)) (hD : 10 ^ (K - 1) ≤ D) (hK : 1 ≤ K)
    (hdig : 2 ^ (mb + 2) * 5 ^ (q + 1) < 10 ^ K)
    (h1 : D * 2 ^ (q + 1) < (2 * m + 1) * 2 ^ k * 10 ^ τ) (h2 : (2 * m + 1) * 2 ^ k * 10 ^ τ < (D + 1) * 2 ^ (q + 1)) :
    False := by
  have h10 : ∀ n, (10 : Nat) ^ n = 5 ^ n * 2 ^ n := fun n => by
    have : (10 : Nat) = 5 * 2 := rfl
    rw [this, Nat.mul_pow]
  by_cases hk : q + 1 ≤ k
  · -- an integer strictly between D and D + 1
    obtain ⟨j, hj⟩ : ∃ j, k = (q + 1) + j := ⟨k - (q + 1), by omega⟩
    have e : (2 * m + 1) * 2 ^ k * 10 ^ τ = (2 * m + 1) * 2 ^ j * 10 ^ τ * 2 ^ (q + 1) := by
      rw [hj, Nat.pow_add]; ring
    rw [e, cmp_scale (pow_pos' _)] at h1 h2
    omega
  · obtain ⟨g, hg⟩ : ∃ g, q + 1 = k + g ∧ 1 ≤ g := ⟨q + 1 - k, by omega, by omega⟩
    have e1 : D * 2 ^ (q + 1) = D * 2 ^ g * 2 ^ k := by rw [hg.1, Nat.pow_add]; ring
    have e2 : (D + 1) * 2 ^ (q + 1) = (D + 1) * 2 ^ g * 2 ^ k := by rw [hg.1, Nat.pow_add]; ring
    have e3 : (2 * m + 1) * 2 ^ k * 10 ^ τ = (2 * m + 1) * 10 ^ τ * 2 ^ k := by ring
    rw [e1, e3, cmp_scale (pow_pos' _)] at h1
    rw [e2, e3, cmp_scale (pow_pos' _)] at h2
    by_cases hgt : g ≤ τ
    · obtain ⟨j, hj⟩ : ∃ j, τ = g + j := ⟨τ - g, by omega⟩
      have e : (2 * m + 1) * 10 ^ τ = (2 * m + 1) * 5 ^ τ * 2 ^ j * 2 ^ g := by
        rw [h10 τ]
        have : (2 : Nat) ^ τ = 2 ^ g * 2 ^ j := by rw [hj, Nat.pow_add]
        rw [this]; ring
      rw [e, cmp_scale (pow_pos' _)] at h1 h2
      omega
    · obtain ⟨j, hj⟩ : ∃ j, g = τ + j ∧ 1 ≤ j := ⟨g - τ, by omega, by omega⟩
      -- D·2^j < (2m+1)·5^τ
      have e4 : D * 2 ^ g = D * 2 ^ j * 2 ^ τ := by rw [hj.1, Nat.pow_add]; ring
      have e5 : (2 * m + 1) * 10 ^ τ = (2 * m + 1) * 5 ^ τ * 2 ^ τ := by rw [h10 τ]; ring
      rw [e4, e5, cmp_scale (pow_pos' _)] at h1
      -- chain of inequalities
      have hKK : 10 ^ K = 10 ^ (K - 1) * 10 := by
        have : K = (K - 1) + 1 := by omega
        conv_lhs => rw [this, Nat.pow_succ]
      have s1 : 10 ^ (K - 1) * 2 ^ j ≤ D * 2 ^ j := Nat.mul_le_mul_right _ hD
      have s2 : (2 * m + 1) * 5 ^ τ < 2 ^ (mb + 2) * 5 ^ τ := by
        apply Nat.mul_lt_mul_of_pos_right _ (Nat.pos_of_ne_zero (by simp))
        rw [Nat.pow_succ]; omega
      have s3 : 10 ^ (K - 1) * 2 ^ j < 2 ^ (mb + 2) * 5 ^ τ := by omega
      -- multiply by 10 · 5^j: 10^K · 10^j·... compare with 2^(mb+2) 5^(q+1)
      have hgq : g ≤ q + 1 := by omega
      have s4 : 10 ^ K * 2 ^ j * 5 ^ j < 2 ^ (mb + 2) * 5 ^ τ * 10 * 5 ^ j := by
        have := Nat.mul_lt_mul_of_pos_right s3 (show 0 < 10 * 5 ^ j from Nat.mul_pos (by decide) (Nat.pos_of_ne_zero (by simp)))
        calc 10 ^ K * 2 ^ j * 5 ^ j = 10 ^ (K - 1) * 2 ^ j * (10 * 5 ^ j) := by rw [hKK]; ring
          _ < 2 ^ (mb + 2) * 5 ^ τ * (10 * 5 ^ j) := this
          _ = 2 ^ (mb + 2) * 5 ^ τ * 10 * 5 ^ j := by ring
      -- 2^j·5^j = 10^j ≥ 10 (j ≥ 1), so 10^K · 10 ≤ 10^K · 10^j
      have hj10 : 10 ≤ 2 ^ j * 5 ^ j := by
        rw [← Nat.mul_pow]
        calc 10 = (2 * 5) ^ 1 := by norm_num
          _ ≤ (2 * 5) ^ j := Nat.pow_le_pow_right (by decide) hj.2
      have s5 : 10 ^ K * 10 ≤ 10 ^ K * 2 ^ j * 5 ^ j := by
        rw [Nat.mul_assoc]; exact Nat.mul_le_mul_left _ hj10
      have s6 : 10 ^ K * 10 < 2 ^ (mb + 2) * 5 ^ (τ + j) * 10 := by
        calc 10 ^ K * 10 ≤ 10 ^ K * 2 ^ j * 5 ^ j := s5
          _ < 2 ^ (mb + 2) * 5 ^ τ * 10 * 5 ^ j := s4
          _ = 2 ^ (mb + 2) * 5 ^ (τ + j) * 10 := by rw [Nat.pow_add]; ring
      have s7 : 10 ^ K < 2 ^ (mb + 2) * 5 ^ (τ + j) := Nat.lt_of_mul_lt_mul_right s6
      have s8 : 2 ^ (mb + 2) * 5 ^ (τ + j) ≤ 2 ^ (mb + 2) * 5 ^ (q + 1) :=
        Nat.mul_le_mul_left _ (Nat.pow_le_pow_right (by decide) (by omega))
      omega

theorem val_lt (sig : Nat) (ds : Bytes) (hd : IsDigits ds) : val sig ds < (sig + 1) * 10 ^ ds.length := by
  induction ds generalizing sig with
  | nil => simp [val]
  | cons c cs ih =>
    have hc := dig_lt_10 c (hd c (List.mem_cons_self ..))
    have hcs : IsDigits cs := fun x hx => hd x (List.mem_cons_of_mem _ hx)
    rw [val_cons, List.length_cons, Nat.pow_succ]
    have h1 := ih (sig * 10 + dig c) hcs
    have h2 : (sig * 10 + dig c + 1) * 10 ^ cs.length ≤ (sig * 10 + 10) * 10 ^ cs.length :=
      Nat.mul_le_mul_right _ (by omega)
    have e : (sig + 1) * (10 ^ cs.length * 10) = (sig * 10 + 10) * 10 ^ cs.length := by ring
    omega

theorem natOfDigits_lt (ds : Bytes) (hd : IsDigits ds) : natOfDigits ds < 10 ^ ds.length := by
  have := val_lt 0 ds hd
  rw [natOfDigits_eq_val]; omega

theorem natOfDigits_ge (d : UInt8) (r : Bytes) (hd : IsDigits (d :: r)) (hnz : d ≠ 0x30) :
    10 ^ r.length ≤ natOfDigits (d :: r) := by
  have h1 := hd d (List.mem_cons_self ..)
  have hdig : 1 ≤ dig d := by
    have h48 := UInt8.le_iff_toNat_le.1 h1.1
    change 48 ≤ d.toNat at h48
    have : d.toNat ≠ 48 := fun hh => hnz (UInt8.toNat_inj.1 (by simpa using hh))
    simp only [dig]; omega
  rw [natOfDigits_eq_val, val_cons, val_eq]
  have : 1 * 10 ^ r.length ≤ (0 * 10 + dig d) * 10 ^ r.length := Nat.mul_le_mul_right _ (by omega)
  omega

/-- the midpoint above any pattern is an odd multiple of a power of two with a short odd part -/
theorem mid_form (F : Fmt) (u : Nat) :
    ∃ m k, magOfBits F u + magOfBits F (u + 1) = (2 * m + 1) * 2 ^ k ∧ m < 2 ^ (F.mbits + 1) := by
  have hP := pow_pos' F.mbits
  have hM := Nat.mod_lt u hP
  rw [magOfBits_succ]
  unfold magOfBits
  by_cases hE : u / 2 ^ F.mbits = 0
  · refine ⟨u % 2 ^ F.mbits, 0, ?_, by rw [Nat.pow_succ]; omega⟩
    simp [hE]; ring
  · refine ⟨2 ^ F.mbits + u % 2 ^ F.mbits, u / 2 ^ F.mbits - 1, ?_, by rw [Nat.pow_succ]; omega⟩
    simp only [hE, if_false]; ring

/-- values at or beyond `2^(bias+1)` round to a non-finite pattern -/
theorem roundMag_overflow_of_ge {c : FC} {F : Fmt} (h : FCok c F) (a bb : Nat) (hbb : 0 < bb)
    (hge : 2 ^ (F.mbits + 1) * 2 ^ (2 ^ F.ebits - 3) * bb ≤ a) : F.infBits ≤ roundMag F a bb := by
  have hE4 : 4 ≤ 2 ^ F.ebits := by
    have : 2 ^ 2 ≤ 2 ^ F.ebits := Nat.pow_le_pow_right (by decide) h.eb
    omega
  rw [roundMag_overflow_iff F (2 ^ F.ebits - 3) a bb hbb (by omega) (by omega)]
  have hP := pow_pos' F.mbits
  have : (4 * 2 ^ F.mbits - 1) * 2 ^ (2 ^ F.ebits - 3) * bb ≤ 4 * 2 ^ F.mbits * 2 ^ (2 ^ F.ebits - 3) * bb :=
    Nat.mul_le_mul_right _ (Nat.mul_le_mul_right _ (by omega))
  have e : 4 * 2 ^ F.mbits * 2 ^ (2 ^ F.ebits - 3) * bb = 2 * (2 ^ (F.mbits + 1) * 2 ^ (2 ^ F.ebits - 3) * bb) := by
    rw [Nat.pow_succ]; ring
  omega

/-- **truncation.** With respect to any midpoint between adjacent patterns, the full digit string (`D`, then a
    non-zero tail of `j` digits) and the truncated one (`D`, then the sticky digit `1`) compare alike. -/
theorem cmp_transfer {c : FC} {F : Fmt} (h : FCok c F) (u D τ j tail : Nat)
    (hD : 10 ^ (c.maxDigits - 1 - 1) ≤ D) (ht1 : 0 < tail) (ht2 : tail < 10 ^ j) :
    ((magOfBits F u + magOfBits F (u + 1)) * 10 ^ (τ + j) < 2 * ((D * 10 ^ j + tail) * 2 ^ F.qexp) ↔
      (magOfBits F u + magOfBits F (u + 1)) * 10 ^ (τ + 1) < 2 * ((10 * D + 1) * 2 ^ F.qexp)) ∧
    (2 * ((D * 10 ^ j + tail) * 2 ^ F.qexp) < (magOfBits F u + magOfBits F (u + 1)) * 10 ^ (τ + j) ↔
      2 * ((10 * D + 1) * 2 ^ F.qexp) < (magOfBits F u + magOfBits F (u + 1)) * 10 ^ (τ + 1)) := by
  obtain ⟨m, k, hC, hm⟩ := mid_form F u
  generalize magOfBits F u + magOfBits F (u + 1) = C at *
  have hY : 0 < 2 ^ (F.qexp + 1) := pow_pos' _
  have hJ : 0 < 10 ^ j := Nat.pos_of_ne_zero (by simp)
  -- common shapes
  have eL1 : C * 10 ^ (τ + j) = C * 10 ^ τ * 10 ^ j := by rw [Nat.pow_add]; ring
  have eL2 : C * 10 ^ (τ + 1) = C * 10 ^ τ * 10 := by rw [Nat.pow_succ]; ring
  have eR1 : 2 * ((D * 10 ^ j + tail) * 2 ^ F.qexp) = D * 2 ^ (F.qexp + 1) * 10 ^ j + tail * 2 ^ (F.qexp + 1) := by
    rw [Nat.pow_succ]; ring
  have eR2 : 2 * ((10 * D + 1) * 2 ^ F.qexp) = D * 2 ^ (F.qexp + 1) * 10 + 2 ^ (F.qexp + 1) := by
    rw [Nat.pow_succ]; ring
  have eR1' : (D + 1) * 2 ^ (F.qexp + 1) * 10 ^ j = D * 2 ^ (F.qexp + 1) * 10 ^ j + 10 ^ j * 2 ^ (F.qexp + 1) := by ring
  have eR2' : (D + 1) * 2 ^ (F.qexp + 1) * 10 = D * 2 ^ (F.qexp + 1) * 10 + 10 * 2 ^ (F.qexp + 1) := by ring
  have htail : tail * 2 ^ (F.qexp + 1) < 10 ^ j * 2 ^ (F.qexp + 1) := Nat.mul_lt_mul_of_pos_right ht2 hY
  have htail0 : 0 < tail * 2 ^ (F.qexp + 1) := Nat.mul_pos ht1 hY
  rw [eL1, eL2, eR1, eR2]
  by_cases hA : C * 10 ^ τ ≤ D * 2 ^ (F.qexp + 1)
  · have a1 : C * 10 ^ τ * 10 ^ j ≤ D * 2 ^ (F.qexp + 1) * 10 ^ j := Nat.mul_le_mul_right _ hA
    have a2 : C * 10 ^ τ * 10 ≤ D * 2 ^ (F.qexp + 1) * 10 := Nat.mul_le_mul_right _ hA
    constructor <;> constructor <;> intro _ <;> omega
  · have hB : (D + 1) * 2 ^ (F.qexp + 1) ≤ C * 10 ^ τ := by
      by_contra hc
      apply no_critical_inside F.mbits F.qexp (c.maxDigits - 1) m k D τ hm hD (by have := h.maxd; omega) h.digits_ok
      · rw [← hC]; omega
      · rw [← hC]; omega
    have b1 : (D + 1) * 2 ^ (F.qexp + 1) * 10 ^ j ≤ C * 10 ^ τ * 10 ^ j := Nat.mul_le_mul_right _ hB
    have b2 : (D + 1) * 2 ^ (F.qexp + 1) * 10 ≤ C * 10 ^ τ * 10 := Nat.mul_le_mul_right _ hB
    rw [eR1'] at b1
    rw [eR2'] at b2
    constructor <;> constructor <;> intro _ <;> omega

/-! ## the decimal value as a scaled fraction; the core of `bhcomp` -/

/-- `N · 10^E` in units of `2^-qexp` is `dNum / dDen` -/
def dNum (F : Fmt) (N : Nat) (E : Int) : Nat := N * 10 ^ E.toNat * 2 ^ F.qexp
def dDen (E : Int) : Nat := 10 ^ (-E).toNat
/-- the specification: bits of the value of format `F` nearest to `N · 10^E` (ties to even), `infBits` on overflow -/
def roundDec (F : Fmt) (N : Nat) (E : Int) : Nat := clampInf F (roundMag F (dNum F N E) (dDen E))

theorem dDen_pos (E : Int) : 0 < dDen E := Nat.pos_of_ne_zero (by simp [dDen])

/-- `a/bb` lies strictly between the midpoint below `b` and the midpoint above `b + 1` -/
def NearBelow (F : Fmt) (b a bb : Nat) : Prop :=
  (b = 0 ∨ (magOfBits F (b - 1) + magOfBits F b) * bb < 2 * a) ∧
  2 * a < (magOfBits F (b + 1) + magOfBits F (b + 2)) * bb

theorem clampInf_of_le (F : Fmt) (r : Nat) (h : r ≤ F.infBits) : clampInf F r = r := by
  unfold clampInf; split <;> omega

theorem near_le (F : Fmt) (hmb : 1 ≤ F.mbits) (a bb b : Nat) (hbb : 0 < bb) (hn : NearBelow F b a bb) :
    roundMag F a bb ≤ b + 1 := by
  rw [roundMag_of_near F hmb a bb b hbb hn.1 hn.2]
  split
  · omega
  · split
    · omega
    · split <;> omega

/-- the core of `bhcomp`: significant digits `sig` (first one non-zero) at decimal exponent `E` -/
theorem atof_core {c : FC} {F : Fmt} (h : FCok c F) (sig : Bytes) (hsd : IsDigits sig)
    (hhead : ∀ d r, sig = d :: r → d ≠ 0x30) (hne : sig ≠ []) (E : Int) (b : Nat) (hb : b < F.infBits)
    (hz : c.maxDigits - 1 < sig.length → 0 < natOfDigits (sig.drop (c.maxDigits - 1)))
    (hnear : NearBelow F b (dNum F (natOfDigits sig) E) (dDen E)) :
    (if E + (sig.length : Int) - (min c.maxDigits sig.length : Nat) ≥ 0 then
        largeAtof c (if c.maxDigits - 1 < sig.length then natOfDigits (sig.take (c.maxDigits - 1)) * 10 + 1
                     else natOfDigits sig) (E + (sig.length : Int) - (min c.maxDigits sig.length : Nat))
      else smallAtof c (if c.maxDigits - 1 < sig.length then natOfDigits (sig.take (c.maxDigits - 1)) * 10 + 1
                     else natOfDigits sig) (E + (sig.length : Int) - (min c.maxDigits sig.length : Nat)) b) =
      roundDec F (natOfDigits sig) E := by
  have hmaxd := h.maxd
  have hmb1 := h.mb1
  obtain ⟨K, hK⟩ : ∃ K, K = c.maxDigits - 1 := ⟨_, rfl⟩
  have hK1 : 1 ≤ K := by omega
  have hmaxK : c.maxDigits = K + 1 := by omega
  rw [← hK] at hz ⊢
  rw [hmaxK]
  -- N > 0
  obtain ⟨d0, r0, hsig⟩ : ∃ d r, sig = d :: r := by
    cases sig with
    | nil => exact absurd rfl hne
    | cons d r => exact ⟨d, r, rfl⟩
  have hNge : 10 ^ r0.length ≤ natOfDigits sig := by rw [hsig]; exact natOfDigits_ge d0 r0 (hsig ▸ hsd) (hhead d0 r0 hsig)
  have hNpos : 0 < natOfDigits sig := Nat.lt_of_lt_of_le (Nat.pos_of_ne_zero (by simp)) hNge
  generalize hN : natOfDigits sig = N at *
  by_cases hlen : K < sig.length
  · -- more digits than are read: truncation with a sticky digit
    obtain ⟨j, hj⟩ : ∃ j, sig.length = K + j ∧ 1 ≤ j := ⟨sig.length - K, by omega, by omega⟩
    have htk : (sig.take K).length = K := by rw [List.length_take]; omega
    have hdr : (sig.drop K).length = j := by rw [List.length_drop]; omega
    have hsplit : N = natOfDigits (sig.take K) * 10 ^ j + natOfDigits (sig.drop K) := by
      rw [← hN]; conv_lhs => rw [← List.take_append_drop K sig]
      rw [natOfDigits_append, hdr]
    have htail2 : natOfDigits (sig.drop K) < 10 ^ j := by
      have := natOfDigits_lt (sig.drop K) (isDigits_drop hsd K); rwa [hdr] at this
    have htail1 := hz hlen
    have hDge : 10 ^ (K - 1) ≤ natOfDigits (sig.take K) := by
      obtain ⟨K', hK'⟩ : ∃ K', K = K' + 1 := ⟨K - 1, by omega⟩
      have htake : sig.take K = d0 :: r0.take K' := by rw [hsig, hK', List.take_succ_cons]
      have := natOfDigits_ge d0 (r0.take K') (htake ▸ isDigits_take hsd K) (hhead d0 r0 hsig)
      rw [htake]
      have hl : (r0.take K').length = K' := by
        rw [List.length_take]; rw [hsig, List.length_cons] at hj; omega
      rw [hl] at this
      rw [hK']; simpa using this
    generalize natOfDigits (sig.take K) = D at *
    generalize natOfDigits (sig.drop K) = tail at *
    have hmin : min (K + 1) sig.length = K + 1 := by omega
    rw [if_pos hlen, hmin]
    have hsc : E + (sig.length : Int) - ((K + 1 : Nat) : Int) = E + j - 1 := by rw [hj.1]; push_cast; omega
    rw [hsc]
    have h10K : 10 ^ K = 10 ^ (K - 1) * 10 := by
      have : K = (K - 1) + 1 := by omega
      conv_lhs => rw [this, Nat.pow_succ]
    have hbig := h.tenbig
    rw [← hK] at hbig
    unfold roundDec
    by_cases hsg : E + (j : Int) - 1 ≥ 0
    · -- both overflow
      rw [if_pos hsg, largeAtof_eq h _ _ (by omega) hsg]
      have hov1 : F.infBits ≤ roundMag F ((D * 10 + 1) * 10 ^ (E + (j : Int) - 1).toNat * 2 ^ F.qexp) 1 := by
        apply roundMag_overflow_of_ge h _ _ Nat.one_pos
        rw [Nat.mul_one]
        have hp : 1 ≤ 10 ^ (E + (j : Int) - 1).toNat := Nat.one_le_pow _ _ (by decide)
        have h1 : 10 ^ K ≤ (D * 10 + 1) * 10 ^ (E + (j : Int) - 1).toNat := by
          calc 10 ^ K = 10 ^ (K - 1) * 10 := h10K
            _ ≤ D * 10 := Nat.mul_le_mul_right _ hDge
            _ ≤ (D * 10 + 1) * 1 := by omega
            _ ≤ (D * 10 + 1) * 10 ^ (E + (j : Int) - 1).toNat := Nat.mul_le_mul_left _ hp
        calc 2 ^ (F.mbits + 1) * 2 ^ (2 ^ F.ebits - 3) ≤ 10 ^ K * 2 ^ F.qexp := hbig
          _ ≤ (D * 10 + 1) * 10 ^ (E + (j : Int) - 1).toNat * 2 ^ F.qexp := Nat.mul_le_mul_right _ h1
      have hov2 : F.infBits ≤ roundMag F (dNum F N E) (dDen E) := by
        apply roundMag_overflow_of_ge h _ _ (dDen_pos E)
        unfold dNum dDen
        -- N ≥ 10^(K-1) · 10^j
        have hNbig : 10 ^ (K - 1) * 10 ^ j ≤ N := by
          rw [hsplit]
          have := Nat.mul_le_mul_right (10 ^ j) hDge
          omega
        by_cases hE : 0 ≤ E
        · have : (-E).toNat = 0 := by omega
          rw [this, Nat.pow_zero, Nat.mul_one]
          have hp : 1 ≤ 10 ^ E.toNat := Nat.one_le_pow _ _ (by decide)
          have h1 : 10 ^ K ≤ N * 10 ^ E.toNat := by
            calc 10 ^ K = 10 ^ (K - 1) * 10 ^ 1 := by rw [h10K]
              _ ≤ 10 ^ (K - 1) * 10 ^ j := Nat.mul_le_mul_left _ (Nat.pow_le_pow_right (by decide) hj.2)
              _ ≤ N := hNbig
              _ = N * 1 := by omega
              _ ≤ N * 10 ^ E.toNat := Nat.mul_le_mul_left _ hp
          calc 2 ^ (F.mbits + 1) * 2 ^ (2 ^ F.ebits - 3) ≤ 10 ^ K * 2 ^ F.qexp := hbig
            _ ≤ N * 10 ^ E.toNat * 2 ^ F.qexp := Nat.mul_le_mul_right _ h1
        · have hEt : E.toNat = 0 := by omega
          rw [hEt, Nat.pow_zero, Nat.mul_one]
          obtain ⟨e, he⟩ : ∃ e : Nat, (-E).toNat = e ∧ e + 1 ≤ j := ⟨(-E).toNat, rfl, by omega⟩
          rw [he.1]
          have h1 : 10 ^ K * 10 ^ e ≤ N := by
            calc 10 ^ K * 10 ^ e = 10 ^ (K - 1) * 10 ^ (e + 1) := by rw [h10K, Nat.pow_succ]; ring
              _ ≤ 10 ^ (K - 1) * 10 ^ j := Nat.mul_le_mul_left _ (Nat.pow_le_pow_right (by decide) he.2)
              _ ≤ N := hNbig
          calc 2 ^ (F.mbits + 1) * 2 ^ (2 ^ F.ebits - 3) * 10 ^ e ≤ 10 ^ K * 2 ^ F.qexp * 10 ^ e :=
                Nat.mul_le_mul_right _ hbig
            _ = 10 ^ K * 10 ^ e * 2 ^ F.qexp := by ring
            _ ≤ N * 2 ^ F.qexp := Nat.mul_le_mul_right _ h1
      unfold clampInf
      rw [if_neg (by omega), if_neg (by omega)]
    · -- below one: compare with the midpoints, which see `D` only
      rw [if_neg hsg]
      obtain ⟨τ, hτ⟩ : ∃ τ : Nat, -(E + (j : Int)) = τ := ⟨(-(E + (j : Int))).toNat, by omega⟩
      have hs1 : (-(E + (j : Int) - 1)).toNat = τ + 1 := by omega
      have hs2 : (-E).toNat = τ + j := by omega
      have hEt : E.toNat = 0 := by omega
      have hd0 : dNum F N E = (D * 10 ^ j + tail) * 2 ^ F.qexp := by
        unfold dNum; rw [hEt, hsplit]; simp
      have hdd : dDen E = 10 ^ (τ + j) := by unfold dDen; rw [hs2]
      rw [hd0, hdd] at hnear ⊢
      have e10 : D * 10 + 1 = 10 * D + 1 := by ring
      rw [e10]
      have hKK : c.maxDigits - 1 - 1 = K - 1 := by omega
      have tr := fun u => cmp_transfer h u D τ j tail (by rw [hKK]; exact hDge) htail1 htail2
      have near' : NearBelow F b ((10 * D + 1) * 2 ^ F.qexp) (10 ^ (τ + 1)) := by
        constructor
        · rcases Nat.eq_zero_or_pos b with hb0 | hbp
          · left; exact hb0
          · right
            have hlo : (magOfBits F (b - 1) + magOfBits F b) * 10 ^ (τ + j) < 2 * ((D * 10 ^ j + tail) * 2 ^ F.qexp) := by
              rcases hnear.1 with h0 | hlo
              · omega
              · exact hlo
            have hb1 : b - 1 + 1 = b := by omega
            have := (tr (b - 1)).1
            rw [hb1] at this
            exact this.1 hlo
        · exact ((tr (b + 1)).2).1 hnear.2
      rw [smallAtof_eq h _ _ b (by omega) hb (by rw [hs1]; exact near'.1) (by rw [hs1]; exact near'.2), hs1,
        clampInf_of_le _ _ (by have := near_le F hmb1 _ _ b (Nat.pos_of_ne_zero (by simp)) hnear; omega),
        roundMag_of_near F hmb1 _ _ b (Nat.pos_of_ne_zero (by simp)) near'.1 near'.2,
        roundMag_of_near F hmb1 _ _ b (Nat.pos_of_ne_zero (by simp)) hnear.1 hnear.2]
      have t1 := (tr b).1
      have t2 := (tr b).2
      by_cases c1 : 2 * ((D * 10 ^ j + tail) * 2 ^ F.qexp) < (magOfBits F b + magOfBits F (b + 1)) * 10 ^ (τ + j)
      · rw [if_pos c1, if_pos (t2.1 c1)]
      · rw [if_neg c1, if_neg (fun hh => c1 (t2.2 hh))]
        by_cases c2 : (magOfBits F b + magOfBits F (b + 1)) * 10 ^ (τ + j) < 2 * ((D * 10 ^ j + tail) * 2 ^ F.qexp)
        · rw [if_pos c2, if_pos (t1.1 c2)]
        · rw [if_neg c2, if_neg (fun hh => c2 (t1.2 hh))]
  · -- every digit is read
    have hmin : min (K + 1) sig.length = sig.length := by omega
    rw [if_neg hlen, hmin]
    have hsc : E + (sig.length : Int) - (sig.length : Int) = E := by omega
    rw [hsc]
    unfold roundDec
    by_cases hE : E ≥ 0
    · rw [if_pos hE, largeAtof_eq h N E hNpos hE]
      unfold dNum dDen
      have : (-E).toNat = 0 := by omega
      rw [this]; rfl
    · rw [if_neg hE]
      have hE' : E < 0 := by omega
      have hd0 : dNum F N E = N * 2 ^ F.qexp := by
        unfold dNum
        have : E.toNat = 0 := by omega
        rw [this]; simp
      rw [hd0] at hnear ⊢
      unfold dDen at hnear ⊢
      rw [smallAtof_eq h N E b hE' hb hnear.1 hnear.2]
      rw [clampInf_of_le]
      have := near_le F hmb1 _ _ b (Nat.pos_of_ne_zero (by simp)) hnear
      omega

/-! ## `bhcomp` -/

theorem drop_takeWhile_eq (p : UInt8 → Bool) (l : Bytes) : l.drop (l.takeWhile p).length = l.dropWhile p := by
  induction l with
  | nil => rfl
  | cons a l ih =>
    by_cases h : p a
    · simp [List.takeWhile, List.dropWhile, h, ih]
    · simp [List.takeWhile, List.dropWhile, h]

theorem dropWhile_head (p : UInt8 → Bool) (l : Bytes) (d : UInt8) (r : Bytes) (h : l.dropWhile p = d :: r) :
    p d = false := by
  induction l with
  | nil => simp at h
  | cons a l ih =>
    by_cases hp : p a
    · simp [List.dropWhile, hp] at h; exact ih h
    · simp [List.dropWhile, hp] at h; rw [← h.1]; simpa using hp

theorem natOfDigits_dropWhile_zero (l : Bytes) : natOfDigits (l.dropWhile (· == 0x30)) = natOfDigits l := by
  induction l with
  | nil => rfl
  | cons a l ih =>
    by_cases hp : a = 0x30
    · subst hp
      have : natOfDigits ((0x30 : UInt8) :: l) = natOfDigits l := by
        have hd0 : dig (0x30 : UInt8) = 0 := by decide
        rw [natOfDigits_eq_val, val_cons, hd0, natOfDigits_eq_val]
      simp [List.dropWhile, ih, this]
    · have : (a == 0x30) = false := by simpa using hp
      simp [List.dropWhile, this]

/-- the significant digits `bhcomp` works on: leading zeros of a fraction without integer part are skipped -/
def sigDigits (integer fraction : Bytes) : Bytes :=
  if integer.length == 0 then fraction.drop (fraction.takeWhile (· == 0x30)).length else integer ++ fraction

theorem satI32_id' (x : Int) (h1 : -2147483648 ≤ x) (h2 : x ≤ 2147483647) : satI32 x = x := by
  unfold satI32; split <;> [omega; (split <;> omega)]

/-- **bhcomp_exact.** With `Bigint` as `Nat`: given a finite `b` in whose neighbourhood the decimal value lies, the
    slow path returns the correctly rounded value — including the truncation to `MAX_DIGITS - 1` digits plus a
    sticky digit (sound unless every dropped digit is `0`, see `hz`). -/
theorem bhcomp_eq {c : FC} {F : Fmt} (h : FCok c F) (integer fraction : Bytes) (hdi : IsDigits integer)
    (hdf : IsDigits fraction) (hhead : ∀ d r, integer = d :: r → d ≠ 0x30)
    (hpos : 0 < natOfDigits (integer ++ fraction)) (exponent : Int)
    (hexp1 : -(2 ^ 30 : Int) < exponent) (hexp2 : exponent < 2 ^ 30)
    (hlen : integer.length + fraction.length < 2 ^ 30) (b : Nat) (hb : b < F.infBits)
    (hz : c.maxDigits - 1 < (sigDigits integer fraction).length →
      0 < natOfDigits ((sigDigits integer fraction).drop (c.maxDigits - 1)))
    (hnear : NearBelow F b (dNum F (natOfDigits (integer ++ fraction)) (exponent - fraction.length))
      (dDen (exponent - fraction.length))) :
    bhcomp c b integer fraction exponent =
      roundDec F (natOfDigits (integer ++ fraction)) (exponent - fraction.length) := by
  unfold bhcomp
  by_cases hint : integer = []
  · -- no integer part
    subst hint
    simp only [List.length_nil, beq_self_eq_true, if_true, List.nil_append, Nat.zero_add] at hpos hz hnear ⊢
    have hsigdef : sigDigits [] fraction = fraction.dropWhile (· == 0x30) := by
      unfold sigDigits; simp [drop_takeWhile_eq]
    rw [hsigdef] at hz
    rw [drop_takeWhile_eq]
    obtain ⟨start, hstart⟩ : ∃ s, s = (fraction.takeWhile (· == 0x30)).length := ⟨_, rfl⟩
    rw [← hstart]
    have hsl : start ≤ fraction.length := by rw [hstart]; exact (List.takeWhile_prefix _).length_le
    generalize hsig : fraction.dropWhile (· == 0x30) = sig at *
    have hsiglen : sig.length = fraction.length - start := by
      rw [← hsig, ← drop_takeWhile_eq, List.length_drop, hstart]
    have hNsig : natOfDigits sig = natOfDigits fraction := by rw [← hsig]; exact natOfDigits_dropWhile_zero _
    have hsd : IsDigits sig := by
      rw [← hsig, ← drop_takeWhile_eq]; exact isDigits_drop hdf _
    have hne : sig ≠ [] := by
      intro h0; rw [h0] at hNsig; rw [← hNsig] at hpos; simp [natOfDigits] at hpos
    have hh : ∀ d r, sig = d :: r → d ≠ 0x30 := by
      intro d r hdr
      have := dropWhile_head (· == 0x30) fraction d r (by rw [hsig]; exact hdr)
      simpa using this
    have hsci : scientificExponent exponent 0 start = exponent - start - 1 := by
      unfold scientificExponent intoI32
      simp only [beq_self_eq_true, if_true]
      rw [if_neg (by omega), satI32_id' (exponent - (start : Int)) (by omega) (by omega), satI32_id' _ (by omega) (by omega)]
    rw [hsci, parseMantissa_eq c (by have := h.maxd; omega) [] sig (by simpa using hz)]
    simp only [List.nil_append]
    have hcount : fraction.length - start = sig.length := hsiglen.symm
    rw [hcount]
    have hsc : exponent - (start : Int) - 1 + 1 - ((min c.maxDigits sig.length : Nat) : Int) =
        (exponent - fraction.length) + (sig.length : Int) - ((min c.maxDigits sig.length : Nat) : Int) := by
      rw [hsiglen]; omega
    rw [hsc, ← hNsig]
    rw [← hNsig] at hnear
    exact atof_core h sig hsd hh hne _ b hb hz hnear
  · -- integer part present
    have hil : (integer.length == 0) = false := by
      cases integer with
      | nil => exact absurd rfl hint
      | cons a l => simp
    have hsigdef : sigDigits integer fraction = integer ++ fraction := by unfold sigDigits; rw [hil]; rfl
    rw [hsigdef] at hz
    simp only [hil, Bool.false_eq_true, if_false, Nat.sub_zero]
    have hilpos : 1 ≤ integer.length := by
      cases integer with
      | nil => exact absurd rfl hint
      | cons a l => simp
    have hsci : scientificExponent exponent integer.length 0 = exponent + integer.length - 1 := by
      unfold scientificExponent intoI32
      rw [hil]
      simp only [Bool.false_eq_true, if_false]
      rw [if_neg (by omega), satI32_id' _ (by omega) (by omega)]
      omega
    rw [hsci, parseMantissa_eq c (by have := h.maxd; omega) integer fraction hz, ← List.length_append]
    have hsc : exponent + (integer.length : Int) - 1 + 1 - ((min c.maxDigits (integer ++ fraction).length : Nat) : Int) =
        (exponent - fraction.length) + ((integer ++ fraction).length : Int) - ((min c.maxDigits (integer ++ fraction).length : Nat) : Int) := by
      rw [List.length_append]; push_cast; omega
    rw [hsc]
    have hh : ∀ d r, integer ++ fraction = d :: r → d ≠ 0x30 := by
      intro d r hdr
      cases integer with
      | nil => exact absurd rfl hint
      | cons a l => simp at hdr; rw [← hdr.1]; exact hhead a l rfl
    exact atof_core h (integer ++ fraction) (isDigits_append hdi hdf) hh (by
      intro h0; cases integer with
      | nil => exact hint rfl
      | cons a l => simp at h0) _ b hb hz hnear

end SJ.Proofs.LexBh
