import SJ.Model.Swar
import SJ.Proofs.Bytes256
/-! The 64-bit SWAR word identities behind `Proofs.Swar.chunk_zero` / `chunk_ctz`, proved so that the
    Lean kernel checks them on its own (no `bv_decide`, hence no `…_native.bv_decide.ax_*` axiom).

    Route: a 64-bit word is `hi ++ lo` (`hi : BitVec 56`, `lo : BitVec 8` the first byte of the
    little-endian chunk). `&&&`, `|||`, `^^^`, `~~~` act on the two parts separately (core lemmas);
    `-` acts separately up to one borrow out of the low byte (`append_sub`). A byte that is not an
    escape byte generates no borrow in any of the three subtractions of `masked` and its own mask
    byte is `0` (256 cases, `decide +kernel`), so `masked (b :: bs) = masked bs <<< 8`; an escape byte
    has mask byte `0x80` whatever happens above it (256 cases). Induction over the leading run of
    non-escape bytes then gives: `masked l = v <<< (8 * runLength l)` with low byte of `v` equal to
    `0x80` if the run ends inside the chunk — which is both chunk facts. -/
namespace SJ.Proofs.SwarWord
open SJ SJ.Model.Swar
open SJ.Spec.Str (stopsScan runLength)

/-! ### `hi ++ lo` arithmetic -/

/-- `a ||| b = a + b` when `a` is a multiple of `2 ^ n` and `b < 2 ^ n` (disjoint bits) -/
theorem nat_or_eq_add (a b n : Nat) (ha : a % 2 ^ n = 0) (hb : b < 2 ^ n) : a ||| b = a + b := by
  have h : a = (a / 2 ^ n) <<< n := by
    rw [Nat.shiftLeft_eq]; have := Nat.div_add_mod a (2 ^ n); rw [ha, Nat.mul_comm] at this; omega
  rw [h, Nat.shiftLeft_add_eq_or_of_lt hb]

theorem toNat_append' (h : BitVec 56) (l : BitVec 8) : (h ++ l).toNat = h.toNat * 256 + l.toNat := by
  rw [BitVec.toNat_append, ← Nat.shiftLeft_add_eq_or_of_lt l.isLt, Nat.shiftLeft_eq]

/-- subtraction on `hi ++ lo`: the parts subtract separately, with one borrow out of the low byte -/
theorem append_sub (h1 h2 : BitVec 56) (l1 l2 : BitVec 8) :
    (h1 ++ l1) - (h2 ++ l2) = (h1 - h2 - (if l1 < l2 then 1#56 else 0#56)) ++ (l1 - l2) := by
  apply BitVec.eq_of_toNat_eq
  have a1 := h1.isLt
  have a2 := h2.isLt
  have a3 := l1.isLt
  have a4 := l2.isLt
  by_cases hl : l1 < l2
  · have hl' : l1.toNat < l2.toNat := hl
    simp only [hl, if_true, BitVec.toNat_sub, toNat_append', BitVec.toNat_ofNat]
    omega
  · have hl' : ¬ l1.toNat < l2.toNat := hl
    simp only [hl, if_false, BitVec.toNat_sub, toNat_append', BitVec.toNat_ofNat]
    omega

theorem setWidth_sub56 (x y : BitVec 64) : (x - y).setWidth 56 = x.setWidth 56 - y.setWidth 56 := by
  apply BitVec.eq_of_toNat_eq
  have a1 := x.isLt
  have a2 := y.isLt
  simp only [BitVec.toNat_setWidth, BitVec.toNat_sub]
  omega

/-- `x <<< 8` drops the top byte of `x` and appends a zero byte -/
theorem setWidth_append_zero (x : BitVec 64) : x.setWidth 56 ++ 0#8 = x <<< 8 := by
  apply BitVec.eq_of_toNat_eq
  have a1 := x.isLt
  rw [toNat_append', BitVec.toNat_shiftLeft, Nat.shiftLeft_eq]
  simp only [BitVec.toNat_setWidth, BitVec.toNat_ofNat]
  omega

/-! ### the mask, at any width -/

/-- `x.wrapping_sub(K) & !x` -/
def tm {w : Nat} (x K : BitVec w) : BitVec w := (x - K) &&& ~~~x

/-- `masked` of `read.rs` with its five constants as parameters (`C = ONE_BYTES * 0x20`,
    `Q = ONE_BYTES * b'"'`, `B = ONE_BYTES * b'\\'`, `L = ONE_BYTES`, `H = ONE_BYTES << 7`) -/
def mW {w : Nat} (c C Q B L H : BitVec w) : BitVec w :=
  (tm c C ||| tm (c ^^^ Q) L ||| tm (c ^^^ B) L) &&& H

theorem masked_eq_mW (c : BitVec 64) :
    masked c = mW c 0x2020202020202020#64 0x2222222222222222#64 0x5c5c5c5c5c5c5c5c#64
      0x0101010101010101#64 0x8080808080808080#64 := rfl

theorem tm_append (h K : BitVec 56) (l k : BitVec 8) (hlk : ¬ l < k) :
    tm (h ++ l) (K ++ k) = tm h K ++ tm l k := by
  unfold tm
  rw [append_sub, BitVec.not_append, BitVec.and_append]
  simp [hlk]

theorem tm_append_low (h K : BitVec 56) (l k : BitVec 8) :
    (tm (h ++ l) (K ++ k)).setWidth 8 = tm l k := by
  unfold tm
  rw [append_sub, BitVec.not_append, BitVec.and_append, BitVec.setWidth_append_eq_right]

theorem tm_setWidth (x K : BitVec 64) : (tm x K).setWidth 56 = tm (x.setWidth 56) (K.setWidth 56) := by
  unfold tm
  rw [BitVec.setWidth_and, setWidth_sub56, BitVec.setWidth_not (by decide)]

theorem mW_setWidth (c C Q B L H : BitVec 64) :
    (mW c C Q B L H).setWidth 56 =
      mW (c.setWidth 56) (C.setWidth 56) (Q.setWidth 56) (B.setWidth 56) (L.setWidth 56) (H.setWidth 56) := by
  unfold mW
  simp only [BitVec.setWidth_and, BitVec.setWidth_or, tm_setWidth, BitVec.setWidth_xor]

theorem mW_append_low (c C Q B L H : BitVec 56) (c' C' Q' B' L' H' : BitVec 8) :
    (mW (c ++ c') (C ++ C') (Q ++ Q') (B ++ B') (L ++ L') (H ++ H')).setWidth 8 = mW c' C' Q' B' L' H' := by
  unfold mW
  simp only [BitVec.setWidth_and, BitVec.setWidth_or, BitVec.xor_append, tm_append_low,
    BitVec.setWidth_append_eq_right]

theorem mW_append (c C Q B L H : BitVec 56) (c' C' Q' B' L' H' : BitVec 8)
    (h1 : ¬ c' < C') (h2 : ¬ (c' ^^^ Q') < L') (h3 : ¬ (c' ^^^ B') < L') :
    mW (c ++ c') (C ++ C') (Q ++ Q') (B ++ B') (L ++ L') (H ++ H') =
      mW c C Q B L H ++ mW c' C' Q' B' L' H' := by
  unfold mW
  rw [BitVec.xor_append, BitVec.xor_append, tm_append _ _ _ _ h1, tm_append _ _ _ _ h2, tm_append _ _ _ _ h3,
    BitVec.or_append, BitVec.or_append, BitVec.and_append]

/-! ### one byte: 256 cases -/

/-- the mask byte of a single byte when no borrow comes in -/
abbrev mByte (b : UInt8) : BitVec 8 := mW b.toBitVec 0x20#8 0x22#8 0x5c#8 0x01#8 0x80#8

/-- per byte: an escape byte has mask byte `0x80`; any other byte has mask byte `0` and none of the
    three subtractions borrows -/
def byteOk (b : UInt8) : Bool :=
  if stopsScan b true then mByte b == 0x80#8
  else mByte b == 0#8 && !decide (b.toBitVec < 0x20#8) && !decide (b.toBitVec ^^^ 0x22#8 < 0x01#8) &&
    !decide (b.toBitVec ^^^ 0x5c#8 < 0x01#8)

theorem byteOk_all : ∀ b : UInt8, byteOk b = true :=
  Bytes256.all256 byteOk (by decide +kernel) (by decide +kernel) (by decide +kernel) (by decide +kernel)

theorem byte_escape {b : UInt8} (h : stopsScan b true = true) : mByte b = 0x80#8 := by
  have := byteOk_all b
  simpa [byteOk, h] using this

theorem byte_plain {b : UInt8} (h : stopsScan b true = false) :
    mByte b = 0#8 ∧ ¬ b.toBitVec < 0x20#8 ∧ ¬ b.toBitVec ^^^ 0x22#8 < 0x01#8 ∧ ¬ b.toBitVec ^^^ 0x5c#8 < 0x01#8 := by
  have := byteOk_all b
  simp only [byteOk, h, Bool.false_eq_true, if_false, Bool.and_eq_true, beq_iff_eq, Bool.not_eq_true',
    decide_eq_false_iff_not] at this
  exact ⟨this.1.1.1, this.1.1.2, this.1.2, this.2⟩

/-! ### one step of the little-endian recursion -/

theorem fromLeBytes_cons (b : UInt8) (bs : Bytes) :
    fromLeBytes (b :: bs) = (fromLeBytes bs).setWidth 56 ++ b.toBitVec := by
  apply BitVec.eq_of_toNat_eq
  have a1 := (fromLeBytes bs).isLt
  have a2 := b.toBitVec.isLt
  rw [toNat_append']
  simp only [fromLeBytes, BitVec.toNat_or, BitVec.toNat_setWidth, BitVec.toNat_shiftLeft, Nat.shiftLeft_eq]
  rw [Nat.mod_eq_of_lt (by omega : b.toBitVec.toNat < 2 ^ 64), Nat.or_comm,
    nat_or_eq_add _ _ 8 (by omega) a2]
  omega

theorem masked_append (h : BitVec 56) (l : BitVec 8) :
    masked (h ++ l) = mW (h ++ l) (0x20202020202020#56 ++ 0x20#8) (0x22222222222222#56 ++ 0x22#8)
      (0x5c5c5c5c5c5c5c#56 ++ 0x5c#8) (0x01010101010101#56 ++ 0x01#8) (0x80808080808080#56 ++ 0x80#8) := by
  rw [masked_eq_mW]
  rfl

theorem masked_setWidth (x : BitVec 64) :
    (masked x).setWidth 56 = mW (x.setWidth 56) 0x20202020202020#56 0x22222222222222#56
      0x5c5c5c5c5c5c5c#56 0x01010101010101#56 0x80808080808080#56 := by
  rw [masked_eq_mW, mW_setWidth]
  rfl

/-- a non-escape byte in front: its mask byte is `0` and nothing is borrowed from the bytes above,
    so the mask of the rest just moves up one byte -/
theorem masked_cons_plain (b : UInt8) (bs : Bytes) (h : stopsScan b true = false) :
    masked (fromLeBytes (b :: bs)) = masked (fromLeBytes bs) <<< 8 := by
  obtain ⟨h0, h1, h2, h3⟩ := byte_plain h
  rw [fromLeBytes_cons, masked_append, mW_append _ _ _ _ _ _ _ _ _ _ _ _ h1 h2 h3, ← masked_setWidth]
  have h0' : mW b.toBitVec 0x20#8 0x22#8 0x5c#8 0x01#8 0x80#8 = 0#8 := h0
  rw [h0', setWidth_append_zero]

/-- an escape byte in front: its mask byte is `0x80`, whatever the bytes above are -/
theorem masked_cons_escape (b : UInt8) (bs : Bytes) (h : stopsScan b true = true) :
    (masked (fromLeBytes (b :: bs))).setWidth 8 = 0x80#8 := by
  rw [fromLeBytes_cons, masked_append, mW_append_low]
  exact byte_escape h

/-! ### the leading run of non-escape bytes -/

theorem runLength_nil : runLength [] true = 0 := rfl

theorem runLength_cons (b : UInt8) (l : Bytes) :
    runLength (b :: l) true = if stopsScan b true then 0 else runLength l true + 1 := by
  unfold runLength
  cases h : stopsScan b true <;> simp [h]

theorem runLength_le (l : Bytes) : runLength l true ≤ l.length := by
  induction l with
  | nil => simp [runLength_nil]
  | cons b l ih => rw [runLength_cons]; split <;> simp <;> omega

/-- the mask of a little-endian word is some `v` moved up by the leading run of non-escape bytes,
    and if the run ends at an escape byte inside the list the low byte of `v` is `0x80` -/
theorem masked_run (l : Bytes) :
    ∃ v : BitVec 64, masked (fromLeBytes l) = v <<< (8 * runLength l true) ∧
      (runLength l true < l.length → v.setWidth 8 = 0x80#8) := by
  induction l with
  | nil => exact ⟨masked (fromLeBytes []), by simp [runLength_nil], by simp⟩
  | cons b l ih =>
    obtain ⟨v, hv, hlow⟩ := ih
    rw [runLength_cons]
    cases h : stopsScan b true
    · refine ⟨v, ?_, ?_⟩
      · rw [masked_cons_plain b l h, hv, ← BitVec.shiftLeft_add]
        simp only [Bool.false_eq_true, if_false, Nat.mul_add]
      · simp only [Bool.false_eq_true, if_false, List.length_cons]
        intro hlt
        exact hlow (by omega)
    · exact ⟨masked (fromLeBytes (b :: l)), by simp, fun _ => masked_cons_escape b l h⟩

/-! ### trailing zeros of a word whose lowest non-zero byte is `0x80` -/

theorem shl_ctz (v : BitVec 64) (j : Nat) (hj : j < 8) (hv : v.setWidth 8 = 0x80#8) :
    v <<< (8 * j) ≠ 0#64 ∧ (v <<< (8 * j)).ctz.toNat = 8 * j + 7 := by
  have hbit : ∀ k, k < 8 → v.getLsbD k = decide (k = 7) := by
    intro k hk
    have := congrArg (fun x => x.getLsbD k) hv
    simp only [BitVec.getLsbD_setWidth, hk, decide_true, Bool.true_and] at this
    rw [this]
    have h8 : ∀ k : Fin 8, (0x80#8).getLsbD k.val = decide (k.val = 7) := by decide
    exact h8 ⟨k, hk⟩
  have htop : (v <<< (8 * j)).getLsbD (8 * j + 7) = true := by
    rw [BitVec.getLsbD_shiftLeft]
    have e1 : 8 * j + 7 - 8 * j = 7 := by omega
    rw [e1, hbit 7 (by omega)]
    simp; omega
  have hbelow : ∀ i, i < 8 * j + 7 → (v <<< (8 * j)).getLsbD i = false := by
    intro i hi
    rw [BitVec.getLsbD_shiftLeft]
    by_cases c : i < 8 * j
    · simp [c]
    · rw [hbit (i - 8 * j) (by omega)]
      have : ¬ (i - 8 * j = 7) := by omega
      simp [this]
  have hne : v <<< (8 * j) ≠ 0#64 := by
    intro h0
    rw [h0] at htop
    simp at htop
  refine ⟨hne, ?_⟩
  have h1 := BitVec.getLsbD_true_ctz_of_ne_zero hne
  have h2 : ¬ (v <<< (8 * j)).ctz.toNat < 8 * j + 7 := fun hlt => by
    rw [hbelow _ hlt] at h1; exact Bool.false_ne_true h1
  have h3 : ¬ 8 * j + 7 < (v <<< (8 * j)).ctz.toNat := fun hlt => by
    rw [BitVec.getLsbD_false_of_lt_ctz hlt] at htop; exact Bool.false_ne_true htop
  omega

/-! ### the two chunk facts, for any 8-byte chunk -/

/-- the mask of an 8-byte chunk is zero iff no byte is an escape byte; otherwise its trailing zeros
    divided by 8 are the index of the first escape byte -/
theorem chunk_run (l : Bytes) (hl : l.length = 8) :
    (masked (fromLeBytes l) = 0#64 ↔ runLength l true = 8) ∧
    (masked (fromLeBytes l) ≠ 0#64 → (masked (fromLeBytes l)).ctz.toNat / 8 = runLength l true) := by
  obtain ⟨v, hv, hlow⟩ := masked_run l
  have hle : runLength l true ≤ 8 := hl ▸ runLength_le l
  by_cases h8 : runLength l true = 8
  · have hz : masked (fromLeBytes l) = 0#64 := by
      rw [hv, h8]; exact BitVec.shiftLeft_eq_zero (by decide)
    exact ⟨⟨fun _ => h8, fun _ => hz⟩, fun hne => absurd hz hne⟩
  · have hlt : runLength l true < 8 := by omega
    obtain ⟨hne, hc⟩ := shl_ctz v (runLength l true) hlt (hlow (by omega))
    rw [← hv] at hne hc
    refine ⟨⟨fun hz => absurd hz hne, fun h => absurd h h8⟩, fun _ => ?_⟩
    rw [hc]; omega

end SJ.Proofs.SwarWord
