/-! Exhaustive Boolean facts over the 256 byte values, in four kernel evaluations of 64 entries. -/
namespace SJ.Proofs.Bytes256

/-- a Boolean fact about all 256 byte values from four evaluations of 64 entries each
    (keeps every kernel evaluation short) -/
theorem all256 (p : UInt8 → Bool)
    (h0 : (List.range 64).all (fun i => p (UInt8.ofNat i)) = true)
    (h1 : (List.range 64).all (fun i => p (UInt8.ofNat (i + 64))) = true)
    (h2 : (List.range 64).all (fun i => p (UInt8.ofNat (i + 128))) = true)
    (h3 : (List.range 64).all (fun i => p (UInt8.ofNat (i + 192))) = true) (x : UInt8) : p x = true := by
  have hx := x.toNat_lt
  have key : ∀ k, (List.range 64).all (fun i => p (UInt8.ofNat (i + k))) = true → k ≤ x.toNat → x.toNat < k + 64 →
      p x = true := by
    intro k h hk1 hk2
    have := List.all_eq_true.mp h (x.toNat - k) (by simp [List.mem_range]; omega)
    have e : x.toNat - k + k = x.toNat := by omega
    simpa [e] using this
  by_cases c0 : x.toNat < 64
  · exact key 0 (by simpa using h0) (by omega) (by omega)
  · by_cases c1 : x.toNat < 128
    · exact key 64 h1 (by omega) (by omega)
    · by_cases c2 : x.toNat < 192
      · exact key 128 h2 (by omega) (by omega)
      · exact key 192 h3 (by omega) (by omega)

end SJ.Proofs.Bytes256
