import SJ.Model.Hex
import SJ.Proofs.Bytes256
/-! Helper lemmas for `c05_hex4_spec`: per-byte table facts (256 entries, by evaluation) and the
    combination lemma on `BitVec 32` (the sign-bit trick), by `toNat` arithmetic (disjoint bits: `|||` is `+`)
    and `msb` of `|||`/`<<<` — kernel-checked, no `bv_decide` axiom. -/
namespace SJ.Proofs.Hex
open SJ SJ.Model.Hex

/-- the generated tables are what `build_hex_table` computes from the extracted pieces -/
theorem hex_tables_built :
    Gen.hex0 = buildHexTable Gen.hexShift0 ∧ Gen.hex1 = buildHexTable Gen.hexShift1 := by
  decide +kernel

theorem hex_tables_length : Gen.hex0.length = 256 ∧ Gen.hex1.length = 256 := by decide +kernel

/-- per byte: a hex digit of value `v` has `HEX0 = v`, `HEX1 = v << 4`; any other byte has `-1` in both -/
def byteOk (x : UInt8) : Bool :=
  match hexDigitVal x with
  | some v => decide (v < 16) && lookup 0 x == BitVec.ofNat 32 v && lookup 1 x == BitVec.ofNat 32 v <<< 4
  | none => lookup 0 x == BitVec.allOnes 32 && lookup 1 x == BitVec.allOnes 32

theorem byteOk_all : ∀ x : UInt8, byteOk x = true :=
  Bytes256.all256 byteOk (by decide +kernel) (by decide +kernel) (by decide +kernel) (by decide +kernel)

theorem lookup_some {x : UInt8} {v : Nat} (h : hexDigitVal x = some v) :
    v < 16 ∧ lookup 0 x = BitVec.ofNat 32 v ∧ lookup 1 x = BitVec.ofNat 32 v <<< 4 := by
  have := byteOk_all x
  simp only [byteOk, h, Bool.and_eq_true, decide_eq_true_eq, beq_iff_eq] at this
  exact ⟨this.1.1, this.1.2, this.2⟩

theorem lookup_none {x : UInt8} (h : hexDigitVal x = none) :
    lookup 0 x = BitVec.allOnes 32 ∧ lookup 1 x = BitVec.allOnes 32 := by
  have := byteOk_all x
  simp only [byteOk, h, Bool.and_eq_true, beq_iff_eq] at this
  exact this

/-- `a ||| b = a + b` when `a` is a multiple of `2 ^ n` and `b < 2 ^ n` (disjoint bits) -/
theorem nat_or_eq_add (a b n : Nat) (ha : a % 2 ^ n = 0) (hb : b < 2 ^ n) : a ||| b = a + b := by
  have h : a = (a / 2 ^ n) <<< n := by
    rw [Nat.shiftLeft_eq]; have := Nat.div_add_mod a (2 ^ n); rw [ha, Nat.mul_comm] at this; omega
  rw [h, Nat.shiftLeft_add_eq_or_of_lt hb]

/-- four digit values: the OR/shift combination is the positional value, and it is non-negative -/
theorem comb_some (x y z w : BitVec 32) (hx : x < 16#32) (hy : y < 16#32) (hz : z < 16#32) (hw : w < 16#32) :
    BitVec.sle 0#32 ((((x <<< 4) ||| y) <<< 8) ||| (z <<< 4) ||| w) = true ∧
    ((((x <<< 4) ||| y) <<< 8) ||| (z <<< 4) ||| w) = x * 4096#32 + y * 256#32 + z * 16#32 + w := by
  have hx' : x.toNat < 16 := hx
  have hy' : y.toNat < 16 := hy
  have hz' : z.toNat < 16 := hz
  have hw' : w.toNat < 16 := hw
  have hx4 : (x <<< 4).toNat = x.toNat * 16 := by
    rw [BitVec.toNat_shiftLeft, Nat.shiftLeft_eq]; omega
  have hz4 : (z <<< 4).toNat = z.toNat * 16 := by
    rw [BitVec.toNat_shiftLeft, Nat.shiftLeft_eq]; omega
  have h1 : ((x <<< 4) ||| y).toNat = x.toNat * 16 + y.toNat := by
    rw [BitVec.toNat_or, hx4]; exact nat_or_eq_add _ _ 4 (by omega) (by omega)
  have h1s : (((x <<< 4) ||| y) <<< 8).toNat = x.toNat * 4096 + y.toNat * 256 := by
    rw [BitVec.toNat_shiftLeft, Nat.shiftLeft_eq, h1]; omega
  have h2 : ((((x <<< 4) ||| y) <<< 8) ||| (z <<< 4)).toNat = x.toNat * 4096 + y.toNat * 256 + z.toNat * 16 := by
    rw [BitVec.toNat_or, h1s, hz4]; exact nat_or_eq_add _ _ 8 (by omega) (by omega)
  have hv : (((((x <<< 4) ||| y) <<< 8) ||| (z <<< 4)) ||| w).toNat
      = x.toNat * 4096 + y.toNat * 256 + z.toNat * 16 + w.toNat := by
    rw [BitVec.toNat_or, h2]; exact nat_or_eq_add _ _ 4 (by omega) (by omega)
  constructor
  · rw [BitVec.zero_sle_eq_not_msb, BitVec.msb_eq_decide, hv]
    simp only [Bool.not_eq_eq_eq_not, Bool.not_true, decide_eq_false_iff_not]
    omega
  · apply BitVec.eq_of_toNat_eq
    rw [hv]
    simp only [BitVec.toNat_add, BitVec.toNat_mul, BitVec.toNat_ofNat]
    omega

set_option linter.unusedVariables false in
/-- the sign-bit trick: if any of the four looked-up values is `-1`, the combination is negative
    (whatever the others are, as long as they are table values: `-1` or below `0x100`).
    Bit 31 of the result is the OR of bit 23 of `a`, bit 23 of `b`, bit 31 of `c` and bit 31 of `d`,
    so one `-1` suffices; the range hypotheses are not needed (kept: the statement is unchanged). -/
theorem comb_neg (a b c d : BitVec 32)
    (ha : a = BitVec.allOnes 32 ∨ a < 0x100#32) (hb : b = BitVec.allOnes 32 ∨ b < 0x100#32)
    (hc : c = BitVec.allOnes 32 ∨ c < 0x100#32) (hd : d = BitVec.allOnes 32 ∨ d < 0x100#32)
    (h : a = BitVec.allOnes 32 ∨ b = BitVec.allOnes 32 ∨ c = BitVec.allOnes 32 ∨ d = BitVec.allOnes 32) :
    BitVec.sle 0#32 (((a ||| b) <<< 8) ||| c ||| d) = false := by
  rw [BitVec.zero_sle_eq_not_msb, BitVec.msb_or, BitVec.msb_or, BitVec.msb_shiftLeft, BitVec.getMsbD_or]
  have h1 : (BitVec.allOnes 32).getMsbD 8 = true := by decide
  have h2 : (BitVec.allOnes 32).msb = true := by decide
  rcases h with h | h | h | h
  · rw [h, h1]; rfl
  · rw [h, h1, Bool.or_true]; rfl
  · rw [h, h2, Bool.or_true]; rfl
  · rw [h, h2, Bool.or_true]; rfl

/-- every table value, seen as `i32`, is `-1` or below `0x100` -/
def rangeOk (x : UInt8) : Bool :=
  (lookup 0 x == BitVec.allOnes 32 || decide (lookup 0 x < 0x100#32)) &&
  (lookup 1 x == BitVec.allOnes 32 || decide (lookup 1 x < 0x100#32))

theorem rangeOk_all : ∀ x : UInt8, rangeOk x = true :=
  Bytes256.all256 rangeOk (by decide +kernel) (by decide +kernel) (by decide +kernel) (by decide +kernel)

theorem lookup_range (x : UInt8) :
    (lookup 0 x = BitVec.allOnes 32 ∨ lookup 0 x < 0x100#32) ∧ (lookup 1 x = BitVec.allOnes 32 ∨ lookup 1 x < 0x100#32) := by
  simpa [rangeOk] using rangeOk_all x

theorem ofNat_lt16 {v : Nat} (h : v < 16) : BitVec.ofNat 32 v < 16#32 := by
  simp [BitVec.lt_def, BitVec.toNat_ofNat]; omega

theorem argTables : Gen.hexArgTables = [1, 0, 1, 0] ∧ Gen.hexHighShift = 8 := ⟨rfl, rfl⟩

/-- the unfolded form of `decodeFourHex` with the extracted table assignment -/
theorem decodeFourHex_unfold (a b c d : UInt8) :
    decodeFourHex a b c d =
      if BitVec.sle 0#32 (((lookup 1 a ||| lookup 0 b) <<< 8) ||| lookup 1 c ||| lookup 0 d)
      then some ((((lookup 1 a ||| lookup 0 b) <<< 8) ||| lookup 1 c ||| lookup 0 d).setWidth 16).toNat
      else none := rfl

theorem decodeFourHex_some {a b c d : UInt8} {x y z w : Nat}
    (ha : Spec.Str.hexDigitVal a = some x) (hb : Spec.Str.hexDigitVal b = some y)
    (hc : Spec.Str.hexDigitVal c = some z) (hd : Spec.Str.hexDigitVal d = some w) :
    decodeFourHex a b c d = some (x * 4096 + y * 256 + z * 16 + w) := by
  obtain ⟨hx, _, ha1⟩ := lookup_some ha
  obtain ⟨hy, hb0, _⟩ := lookup_some hb
  obtain ⟨hz, _, hc1⟩ := lookup_some hc
  obtain ⟨hw, hd0, _⟩ := lookup_some hd
  rw [decodeFourHex_unfold, ha1, hb0, hc1, hd0]
  obtain ⟨hs, he⟩ := comb_some _ _ _ _ (ofNat_lt16 hx) (ofNat_lt16 hy) (ofNat_lt16 hz) (ofNat_lt16 hw)
  rw [hs, he]
  simp only [if_true, Option.some.injEq, BitVec.toNat_setWidth, BitVec.toNat_add, BitVec.toNat_mul,
    BitVec.toNat_ofNat]
  omega

theorem decodeFourHex_none {a b c d : UInt8}
    (h : Spec.Str.hexDigitVal a = none ∨ Spec.Str.hexDigitVal b = none ∨
         Spec.Str.hexDigitVal c = none ∨ Spec.Str.hexDigitVal d = none) :
    decodeFourHex a b c d = none := by
  rw [decodeFourHex_unfold]
  have hn := comb_neg (lookup 1 a) (lookup 0 b) (lookup 1 c) (lookup 0 d)
    (lookup_range a).2 (lookup_range b).1 (lookup_range c).2 (lookup_range d).1
    (by
      rcases h with h | h | h | h
      · exact Or.inl (lookup_none h).2
      · exact Or.inr (Or.inl (lookup_none h).1)
      · exact Or.inr (Or.inr (Or.inl (lookup_none h).2))
      · exact Or.inr (Or.inr (Or.inr (lookup_none h).1)))
  rw [hn]; rfl

theorem decodeFourHex_eq (a b c d : UInt8) : decodeFourHex a b c d = Spec.Str.hex4Val a b c d := by
  unfold Spec.Str.hex4Val
  cases ha : Spec.Str.hexDigitVal a with
  | none => simpa using decodeFourHex_none (Or.inl ha)
  | some x =>
  cases hb : Spec.Str.hexDigitVal b with
  | none => simpa using decodeFourHex_none (Or.inr (Or.inl hb))
  | some y =>
  cases hc : Spec.Str.hexDigitVal c with
  | none => simpa using decodeFourHex_none (Or.inr (Or.inr (Or.inl hc)))
  | some z =>
  cases hd : Spec.Str.hexDigitVal d with
  | none => simpa using decodeFourHex_none (Or.inr (Or.inr (Or.inr hd)))
  | some w => simpa using decodeFourHex_some ha hb hc hd

end SJ.Proofs.Hex
