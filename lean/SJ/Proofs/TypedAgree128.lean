import SJ.Proofs.TypedFloatAgree
/-!
# The text leg of C16: the text of a float under a 128-bit integer target

`do_deserialize_i128 / u128` read the integer with `scan_integer128`, which stops at the first non-digit: on `1.5` they
return `1` and leave `.5` unread — the rejection is the caller's (`has_next_element`, `has_next_key`, `end_seq`, `end_map`,
the `}` test of `deserialize_enum`, `end()`). So the per-target invariant `Agree1` fails there and the weak one `Agree1w`
holds: `ok` only in front of `.` / `e` / `E` (`BadHead`), PROVIDED the printer writes a float with a fraction or an
exponent and never as a bare integer literal (`floatPointed`; true of `ryu`: part of `RyuShortest`). Without that proviso
the statement would be false: a printer writing `1e20` as `100000000000000000000` makes `from_str::<i128>` accept what
`from_value::<i128>` refuses.
-/
set_option linter.unusedSectionVars false
set_option linter.unusedVariables false

namespace SJ.Proofs.Typed
open SJ SJ.Gen SJ.Model SJ.Model.Typed SJ.Proofs.NumInt
open SJ.Spec.Grammar (NumParts isInt isFrac isExp)
open SJ.Spec.Number (splitNumber)

/-- the printer writes the finite double `b` with a fraction or an exponent, not as a bare integer literal -/
def floatPointed (ext : Spec.Program.Ext) (b : UInt64) : Bool :=
  !(splitNumber (ext.ryu64 b)).frac.isEmpty || !(splitNumber (ext.ryu64 b)).exp.isEmpty

mutual
/-- every `Float` of the value is written with a fraction or an exponent -/
def floatsPointed (ext : Spec.Program.Ext) : JV → Bool
  | .num (.float b) => floatPointed ext b
  | .arr xs => floatsPointeds ext xs
  | .obj kvs => floatsPointedm ext kvs
  | _ => true
def floatsPointeds (ext : Spec.Program.Ext) : List JV → Bool
  | [] => true
  | x :: xs => floatsPointed ext x && floatsPointeds ext xs
def floatsPointedm (ext : Spec.Program.Ext) : List (Bytes × JV) → Bool
  | [] => true
  | (_, x) :: kvs => floatsPointed ext x && floatsPointedm ext kvs
end

theorem fpt_elem (e : Spec.Program.Ext) : ∀ (xs : List JV) (x : JV), x ∈ xs → floatsPointeds e xs = true → floatsPointed e x = true
  | [], _, h, _ => by simp at h
  | y :: r, x, h, hf => by
    simp only [floatsPointeds, Bool.and_eq_true] at hf
    rcases List.mem_cons.mp h with rfl | h
    · exact hf.1
    · exact fpt_elem e r x h hf.2

theorem fpt_member (e : Spec.Program.Ext) : ∀ (kvs : List (Bytes × JV)) (kv : Bytes × JV), kv ∈ kvs →
    floatsPointedm e kvs = true → floatsPointed e kv.2 = true
  | [], _, h, _ => by simp at h
  | (k, y) :: r, kv, h, hf => by
    simp only [floatsPointedm, Bool.and_eq_true] at hf
    rcases List.mem_cons.mp h with rfl | h
    · exact hf.1
    · exact fpt_member e r kv h hf.2

mutual
/-- a value without floats has nothing to be written -/
theorem floatsPointed_of_noFloat (e : Spec.Program.Ext) : ∀ v : JV, Spec.WF.noFloat v = true → floatsPointed e v = true
  | .null, _ | .bool _, _ | .str _, _ => rfl
  | .num n, h => by cases n <;> simp_all [Spec.WF.noFloat, floatsPointed]
  | .arr xs, h => by simp only [Spec.WF.noFloat, floatsPointed] at h ⊢; exact floatsPointeds_of_noFloat e xs h
  | .obj kvs, h => by simp only [Spec.WF.noFloat, floatsPointed] at h ⊢; exact floatsPointedm_of_noFloat e kvs h
theorem floatsPointeds_of_noFloat (e : Spec.Program.Ext) : ∀ xs : List JV, Spec.WF.noFloats xs = true → floatsPointeds e xs = true
  | [], _ => rfl
  | x :: xs, h => by
    simp only [Spec.WF.noFloats, floatsPointeds, Bool.and_eq_true] at h ⊢
    exact ⟨floatsPointed_of_noFloat e x h.1, floatsPointeds_of_noFloat e xs h.2⟩
theorem floatsPointedm_of_noFloat (e : Spec.Program.Ext) : ∀ kvs : List (Bytes × JV), Spec.WF.noFloatm kvs = true →
    floatsPointedm e kvs = true
  | [], _ => rfl
  | (k, x) :: kvs, h => by
    simp only [Spec.WF.noFloatm, floatsPointedm, Bool.and_eq_true] at h ⊢
    exact ⟨floatsPointed_of_noFloat e x h.1, floatsPointedm_of_noFloat e kvs h.2⟩
end

mutual
/-- a printer that writes every finite double with a fraction or an exponent does so for the floats of a value -/
theorem floatsPointed_of_all (e : Spec.Program.Ext) (hall : ∀ b, Spec.Program.finite64 b = true → floatPointed e b = true) :
    ∀ v : JV, shapeW v = true → floatsPointed e v = true
  | .null, _ | .bool _, _ | .str _, _ => rfl
  | .num n, h => by
    cases n with
    | float b => simp only [shapeW, wfNumW] at h; simp only [floatsPointed]; exact hall b h
    | _ => rfl
  | .arr xs, h => by simp only [shapeW, floatsPointed] at h ⊢; exact floatsPointeds_of_all e hall xs h
  | .obj kvs, h => by simp only [shapeW, floatsPointed] at h ⊢; exact floatsPointedm_of_all e hall kvs h
theorem floatsPointeds_of_all (e : Spec.Program.Ext) (hall : ∀ b, Spec.Program.finite64 b = true → floatPointed e b = true) :
    ∀ xs : List JV, shapeWs xs = true → floatsPointeds e xs = true
  | [], _ => rfl
  | x :: xs, h => by
    simp only [shapeWs, floatsPointeds, Bool.and_eq_true] at h ⊢
    exact ⟨floatsPointed_of_all e hall x h.1, floatsPointeds_of_all e hall xs h.2⟩
theorem floatsPointedm_of_all (e : Spec.Program.Ext) (hall : ∀ b, Spec.Program.finite64 b = true → floatPointed e b = true) :
    ∀ kvs : List (Bytes × JV), shapeWm kvs = true → floatsPointedm e kvs = true
  | [], _ => rfl
  | (k, x) :: kvs, h => by
    simp only [shapeWm, floatsPointedm, Bool.and_eq_true] at h ⊢
    exact ⟨floatsPointed_of_all e hall x h.1.2, floatsPointedm_of_all e hall kvs h.2⟩
end

section
variable {env : Env} (hflt : env.flt = false)

/-- `scan_integer128`'s digit loop on digits followed by a non-digit -/
theorem scanDigits_stop {c : UInt8} (hc : Machine.isDigit c = false) (tl : Bytes) :
    ∀ (ds acc : Bytes) (p : Nat), IsDigits ds →
      scanDigits env acc (ds ++ c :: tl) p = .ok (acc.reverse ++ ds) (c :: tl) (p + ds.length) := by
  intro ds
  induction ds with
  | nil => intro acc p _; simp [scanDigits, hc]
  | cons x xs ih =>
    intro acc p hd
    have hx : Machine.isDigit x = true := (isDigit_iff x).2 (hd x (by simp))
    simp only [List.cons_append, scanDigits, hx, if_true]
    rw [ih (x :: acc) (p + 1) (fun c hc => hd c (by simp [hc]))]
    simp only [List.reverse_cons, List.append_assoc, List.singleton_append, List.length_cons]
    congr 1; omega

/-- `scan_integer128` on the integer part of a number literal followed by a non-digit: it returns the integer part and
    stops in front of that byte -/
theorem scanInteger128_int (int : Bytes) (hi : isInt int = true) {c : UInt8} (hc : Machine.isDigit c = false) (tl : Bytes) (pos : Nat) :
    scanInteger128 env (int ++ c :: tl) pos = .ok int (c :: tl) (pos + int.length) := by
  rcases SJ.Proofs.Complete.int_shape int hi with h0 | ⟨d, ds, hds, hd, hz, hdsd⟩
  · subst h0
    simp [scanInteger128, hc]
  · subst hds
    have hd' : Machine.isDigit d = true := hd
    simp only [List.cons_append, scanInteger128, hz, Bool.false_eq_true, if_false, hd', if_true]
    rw [scanDigits_stop hc tl ds [d] (pos + 1) (SJ.Proofs.TypedFloat.isDigits_of_allG ds hdsd)]
    simp only [List.reverse_cons, List.reverse_nil, List.nil_append, List.singleton_append, List.length_cons]
    congr 1; omega

variable (ext : Spec.Program.Ext) (hext : Spec.Program.ExtOK ext)
include hext

/-- **a 128-bit integer target on the text of a float**: when it answers `ok` at all, the unread input starts inside the
    number, at the `.` of the fraction or the `e` / `E` of the exponent -/
theorem int128_float_weak (w : IntTy) (h128 : is128 w = true) (b : UInt64) (hb : Spec.Program.finite64 b = true)
    (hp : floatPointed ext b = true) (rest : Bytes) (pos : Nat) :
    ∀ x r p, deInt env w (T ext (.num (.float b)) ++ rest) pos = .ok x r p → BadHead r := by
  intro x r p
  rw [T_float ext b hb]
  obtain ⟨hwf, hbytes⟩ := SJ.Proofs.Number.splitNumber_of_isNumber _ (hext.ryu64_number b hb)
  generalize hq : splitNumber (ext.ryu64 b) = q at hwf hbytes hp
  unfold floatPointed at hp
  rw [hq] at hp
  rw [← hbytes]
  have hwf' := hwf
  simp only [NumParts.WF, Bool.and_eq_true] at hwf'
  obtain ⟨⟨hi, hfr⟩, hex⟩ := hwf'
  -- what follows the integer part
  have hnext : ∃ c tl, q.frac ++ q.exp ++ rest = c :: tl ∧ (c = 0x2e ∨ c = 0x65 ∨ c = 0x45) := by
    cases hfrac : q.frac with
    | cons c ds =>
      rw [hfrac] at hfr
      simp only [isFrac, Bool.and_eq_true, beq_iff_eq] at hfr
      exact ⟨c, ds ++ q.exp ++ rest, by simp, .inl hfr.1.1⟩
    | nil =>
      cases hexp : q.exp with
      | nil => simp [hfrac, hexp] at hp
      | cons c r' =>
        rw [hexp] at hex
        simp only [isExp, Bool.and_eq_true, Bool.or_eq_true, beq_iff_eq] at hex
        exact ⟨c, r' ++ rest, by simp, .inr hex.1⟩
  obtain ⟨c, tl, hct, hc⟩ := hnext
  have hcd : Machine.isDigit c = false := by rcases hc with rfl | rfl | rfl <;> decide
  have hbad : BadHead (c :: tl) := ⟨c, tl, rfl, hc⟩
  obtain ⟨d, ds, hdint, hd⟩ := SJ.Proofs.TypedFloat.int_head q.int hi
  have hd' : Machine.isDigit d = true := hd
  have hbytes' : q.bytes ++ rest = (if q.minus then [0x2d] else []) ++ (q.int ++ c :: tl) := by
    simp only [NumParts.bytes, List.append_assoc]
    rw [← hct]; simp [List.append_assoc]
  rw [hbytes']
  unfold deInt
  rw [if_pos h128]
  unfold deInt128
  cases hm : q.minus with
  | true =>
    simp only [if_true, List.singleton_append]
    rw [withPeek_cons env _ (by decide)]
    simp only [beq_self_eq_true, if_true]
    cases hsg : w.signed with
    | false => simp
    | true =>
      simp only [if_true]
      rw [scanInteger128_int q.int hi hcd tl (pos + 1)]
      simp only [Res.bind]
      cases FromValue.rustParseInt w (0x2d :: q.int) with
      | none => simp
      | some y =>
        simp only [Res.ok.injEq]
        rintro ⟨_, rfl, _⟩
        exact hbad
  | false =>
    simp only [Bool.false_eq_true, if_false, List.nil_append]
    rw [hdint]
    simp only [List.cons_append]
    rw [withPeek_cons env _ (isDigit_not_ws hd')]
    simp only [(digit_facts hd').1, Bool.false_eq_true, if_false]
    rw [show d :: (ds ++ c :: tl) = q.int ++ c :: tl by rw [hdint]; rfl]
    rw [scanInteger128_int q.int hi hcd tl pos]
    simp only [Res.bind]
    cases FromValue.rustParseInt w q.int with
    | none => simp
    | some y =>
      simp only [Res.ok.injEq]
      rintro ⟨_, rfl, _⟩
      exact hbad

end

end SJ.Proofs.Typed
