import SJ.Proofs.FloatError
/-!
# `f64_from_parts` is within 5 ulp for `|exponent| ≤ 308` (normal-range results)
-/
namespace SJ.Proofs.FloatDefault
open SJ SJ.Spec.Ieee SJ.Spec.Decimal SJ.Model.FloatDefault SJ.Proofs.Ieee

/-- from a relative-`ε` bracket to the two one-sided bounds -/
theorem rel_split (M a : Nat) (h : 2 ^ 53 * adiff M a ≤ a) :
    2 ^ 53 * M ≤ (2 ^ 53 + 1) * a ∧ (2 ^ 53 - 1) * a ≤ 2 ^ 53 * M := by
  unfold adiff at h
  have e1 : (2 ^ 53 + 1) * a = 2 ^ 53 * a + a := by ring
  have e2 : (2 ^ 53 - 1) * a = 2 ^ 53 * a - a := by rw [Nat.sub_mul]; simp
  have e3 : 2 ^ 53 * (M - a + (a - M)) = 2 ^ 53 * (M - a) + 2 ^ 53 * (a - M) := by ring
  have e4 : 2 ^ 53 * (M - a) = 2 ^ 53 * M - 2 ^ 53 * a := Nat.mul_sub _ _ _
  have e5 : 2 ^ 53 * (a - M) = 2 ^ 53 * a - 2 ^ 53 * M := Nat.mul_sub _ _ _
  omega

/-- and back: `|M − X| ≤ 4ε·X` -/
theorem rel_join (M X : Nat) (h1 : 2 ^ 53 * M ≤ (2 ^ 53 + 4) * X) (h2 : (2 ^ 53 - 4) * X ≤ 2 ^ 53 * M) :
    2 ^ 53 * adiff M X ≤ 4 * X := by
  unfold adiff
  have e1 : (2 ^ 53 + 4) * X = 2 ^ 53 * X + 4 * X := by ring
  have e2 : (2 ^ 53 - 4) * X = 2 ^ 53 * X - 4 * X := by rw [Nat.sub_mul]
  have e3 : 2 ^ 53 * (M - X + (X - M)) = 2 ^ 53 * (M - X) + 2 ^ 53 * (X - M) := by ring
  have e4 : 2 ^ 53 * (M - X) = 2 ^ 53 * M - 2 ^ 53 * X := Nat.mul_sub _ _ _
  have e5 : 2 ^ 53 * (X - M) = 2 ^ 53 * X - 2 ^ 53 * M := Nat.mul_sub _ _ _
  omega

/-- three `(1+ε)` factors stay below `1+4ε`, three `(1−ε)` factors above `1−4ε` -/
theorem cube_bounds : (2 ^ 53 + 1) ^ 3 ≤ 2 ^ 106 * (2 ^ 53 + 4) ∧ 2 ^ 106 * (2 ^ 53 - 4) ≤ (2 ^ 53 - 1) ^ 3 := by
  decide

/-- the multiplication chain: `M·cc ≈ AB·c`, `AB ≈ x·cc` ⇒ `M ≈ x·c` within `4ε` -/
theorem mul_chain (M AB x c : Nat) (hc : 0 < c)
    (hr1 : 2 ^ 53 * (M * (c * c)) ≤ (2 ^ 53 + 1) * (AB * c))
    (hr2 : (2 ^ 53 - 1) * (AB * c) ≤ 2 ^ 53 * (M * (c * c)))
    (hup : 2 ^ 106 * AB ≤ (2 ^ 53 + 1) ^ 2 * (x * (c * c)))
    (hlo : (2 ^ 53 - 1) ^ 2 * (x * (c * c)) ≤ 2 ^ 106 * AB) :
    2 ^ 53 * adiff M (x * c) ≤ 4 * (x * c) := by
  have hccc : 0 < c * c * c := Nat.mul_pos (Nat.mul_pos hc hc) hc
  apply rel_join
  · -- upper
    have h1 : 2 ^ 106 * (2 ^ 53 * (M * (c * c))) ≤ (2 ^ 53 + 1) ^ 3 * (x * (c * c)) * c := by
      calc 2 ^ 106 * (2 ^ 53 * (M * (c * c))) ≤ 2 ^ 106 * ((2 ^ 53 + 1) * (AB * c)) :=
            Nat.mul_le_mul_left _ hr1
        _ = (2 ^ 53 + 1) * c * (2 ^ 106 * AB) := by ring
        _ ≤ (2 ^ 53 + 1) * c * ((2 ^ 53 + 1) ^ 2 * (x * (c * c))) := Nat.mul_le_mul_left _ hup
        _ = (2 ^ 53 + 1) ^ 3 * (x * (c * c)) * c := by ring
    have h2 : (2 ^ 106 * (2 ^ 53 * M)) * (c * c) ≤ (2 ^ 106 * ((2 ^ 53 + 4) * (x * c))) * (c * c) := by
      calc (2 ^ 106 * (2 ^ 53 * M)) * (c * c) = 2 ^ 106 * (2 ^ 53 * (M * (c * c))) := by ring
        _ ≤ (2 ^ 53 + 1) ^ 3 * (x * (c * c)) * c := h1
        _ ≤ (2 ^ 106 * (2 ^ 53 + 4)) * (x * (c * c)) * c :=
            Nat.mul_le_mul_right _ (Nat.mul_le_mul_right _ cube_bounds.1)
        _ = (2 ^ 106 * ((2 ^ 53 + 4) * (x * c))) * (c * c) := by ring
    have h3 := Nat.le_of_mul_le_mul_right h2 (Nat.mul_pos hc hc)
    exact Nat.le_of_mul_le_mul_left h3 (by decide)
  · -- lower
    have h1 : (2 ^ 53 - 1) ^ 3 * (x * (c * c)) * c ≤ 2 ^ 106 * (2 ^ 53 * (M * (c * c))) := by
      calc (2 ^ 53 - 1) ^ 3 * (x * (c * c)) * c
          = (2 ^ 53 - 1) * c * ((2 ^ 53 - 1) ^ 2 * (x * (c * c))) := by ring
        _ ≤ (2 ^ 53 - 1) * c * (2 ^ 106 * AB) := Nat.mul_le_mul_left _ hlo
        _ = 2 ^ 106 * ((2 ^ 53 - 1) * (AB * c)) := by ring
        _ ≤ 2 ^ 106 * (2 ^ 53 * (M * (c * c))) := Nat.mul_le_mul_left _ hr2
    have h2 : (2 ^ 106 * ((2 ^ 53 - 4) * (x * c))) * (c * c) ≤ (2 ^ 106 * (2 ^ 53 * M)) * (c * c) := by
      calc (2 ^ 106 * ((2 ^ 53 - 4) * (x * c))) * (c * c)
          = (2 ^ 106 * (2 ^ 53 - 4)) * (x * (c * c)) * c := by ring
        _ ≤ (2 ^ 53 - 1) ^ 3 * (x * (c * c)) * c :=
            Nat.mul_le_mul_right _ (Nat.mul_le_mul_right _ cube_bounds.2)
        _ ≤ 2 ^ 106 * (2 ^ 53 * (M * (c * c))) := h1
        _ = (2 ^ 106 * (2 ^ 53 * M)) * (c * c) := by ring
    have h3 := Nat.le_of_mul_le_mul_right h2 (Nat.mul_pos hc hc)
    exact Nat.le_of_mul_le_mul_left h3 (by decide)


theorem sq_bounds : (2 ^ 53 + 1) ^ 2 ≤ (2 ^ 53 - 1) * (2 ^ 53 + 4) ∧
    (2 ^ 53 + 1) * (2 ^ 53 - 4) ≤ (2 ^ 53 - 1) ^ 2 := by decide

/-- the division chain: `M·B ≈ A·c`, `A ≈ s·c`, `B ≈ t·c` ⇒ `M·t ≈ s·c` within `4ε` -/
theorem div_chain (M A B s t c : Nat) (hc : 0 < c)
    (hr1 : 2 ^ 53 * (M * B) ≤ (2 ^ 53 + 1) * (A * c))
    (hr2 : (2 ^ 53 - 1) * (A * c) ≤ 2 ^ 53 * (M * B))
    (hA1 : 2 ^ 53 * A ≤ (2 ^ 53 + 1) * (s * c)) (hA2 : (2 ^ 53 - 1) * (s * c) ≤ 2 ^ 53 * A)
    (hB1 : 2 ^ 53 * B ≤ (2 ^ 53 + 1) * (t * c)) (hB2 : (2 ^ 53 - 1) * (t * c) ≤ 2 ^ 53 * B) :
    2 ^ 53 * adiff (M * t) (s * c) ≤ 4 * (s * c) := by
  apply rel_join
  · have h1 : ((2 ^ 53 - 1) * c) * (2 ^ 53 * (M * t)) ≤ ((2 ^ 53 - 1) * c) * ((2 ^ 53 + 4) * (s * c)) := by
      calc ((2 ^ 53 - 1) * c) * (2 ^ 53 * (M * t)) = 2 ^ 53 * M * ((2 ^ 53 - 1) * (t * c)) := by ring
        _ ≤ 2 ^ 53 * M * (2 ^ 53 * B) := Nat.mul_le_mul_left _ hB2
        _ = 2 ^ 53 * (2 ^ 53 * (M * B)) := by ring
        _ ≤ 2 ^ 53 * ((2 ^ 53 + 1) * (A * c)) := Nat.mul_le_mul_left _ hr1
        _ = (2 ^ 53 + 1) * c * (2 ^ 53 * A) := by ring
        _ ≤ (2 ^ 53 + 1) * c * ((2 ^ 53 + 1) * (s * c)) := Nat.mul_le_mul_left _ hA1
        _ = (2 ^ 53 + 1) ^ 2 * (c * (s * c)) := by ring
        _ ≤ ((2 ^ 53 - 1) * (2 ^ 53 + 4)) * (c * (s * c)) := Nat.mul_le_mul_right _ sq_bounds.1
        _ = ((2 ^ 53 - 1) * c) * ((2 ^ 53 + 4) * (s * c)) := by ring
    exact Nat.le_of_mul_le_mul_left h1 (Nat.mul_pos (by decide) hc)
  · have h1 : ((2 ^ 53 + 1) * c) * ((2 ^ 53 - 4) * (s * c)) ≤ ((2 ^ 53 + 1) * c) * (2 ^ 53 * (M * t)) := by
      calc ((2 ^ 53 + 1) * c) * ((2 ^ 53 - 4) * (s * c))
          = ((2 ^ 53 + 1) * (2 ^ 53 - 4)) * (c * (s * c)) := by ring
        _ ≤ (2 ^ 53 - 1) ^ 2 * (c * (s * c)) := Nat.mul_le_mul_right _ sq_bounds.2
        _ = (2 ^ 53 - 1) * c * ((2 ^ 53 - 1) * (s * c)) := by ring
        _ ≤ (2 ^ 53 - 1) * c * (2 ^ 53 * A) := Nat.mul_le_mul_left _ hA2
        _ = 2 ^ 53 * ((2 ^ 53 - 1) * (A * c)) := by ring
        _ ≤ 2 ^ 53 * (2 ^ 53 * (M * B)) := Nat.mul_le_mul_left _ hr2
        _ = 2 ^ 53 * M * (2 ^ 53 * B) := by ring
        _ ≤ 2 ^ 53 * M * ((2 ^ 53 + 1) * (t * c)) := Nat.mul_le_mul_left _ hB1
        _ = ((2 ^ 53 + 1) * c) * (2 ^ 53 * (M * t)) := by ring
    exact Nat.le_of_mul_le_mul_left h1 (Nat.mul_pos (by decide) hc)

/-! ## From `|M − X| ≤ 4ε·X` to `withinUlps 5` -/

theorem withinUlps_of_rel (neg : Bool) (num den : Nat) (r : UInt64) (hden : 0 < den)
    (hfin : F64.isFinite r = true) (hsign : F64.sign r = neg)
    (hrel : 2 ^ 53 * adiff (F64.mag r * den) (num * 2 ^ 1074) ≤ 4 * (num * 2 ^ 1074))
    (hmax : 4 * num ≤ 5 * 2 ^ 1024 * den) :
    withinUlps 5 neg num den r = true := by
  unfold withinUlps ulpDist
  rw [hfin, hsign, dist64_eq num den r hfin]
  simp only [Bool.true_and, beq_self_eq_true, decide_eq_true_eq]
  unfold ulpOfExact64
  simp only
  split
  · -- the correctly rounded value is finite: its ulp exceeds X·2^-53
    have hu := ulp_lower b64 (num * 2 ^ 1074) den hden
    rw [b64_mbits] at hu
    generalize ulpOfBits b64 (roundMag b64 (num * 2 ^ 1074) den) * den = U at hu ⊢
    generalize adiff (F64.mag r * den) (num * 2 ^ 1074) = d at hrel ⊢
    generalize num * 2 ^ 1074 = X at hrel hu
    omega
  · -- the correctly rounded value overflows: ulp of f64::MAX
    have e : 5 * 2 ^ 1024 * den * 2 ^ 1074 = 2 ^ 53 * (5 * (2 ^ 2045 * den)) := by
      have : (2:Nat) ^ 1024 * 2 ^ 1074 = 2 ^ 53 * 2 ^ 2045 := by rw [← Nat.pow_add, ← Nat.pow_add]
      calc 5 * 2 ^ 1024 * den * 2 ^ 1074 = 5 * den * (2 ^ 1024 * 2 ^ 1074) := by ring
        _ = 5 * den * (2 ^ 53 * 2 ^ 2045) := by rw [this]
        _ = _ := by ring
    have h1 : 4 * (num * 2 ^ 1074) ≤ 2 ^ 53 * (5 * (2 ^ 2045 * den)) := by
      rw [← e]
      calc 4 * (num * 2 ^ 1074) = (4 * num) * 2 ^ 1074 := by ring
        _ ≤ (5 * 2 ^ 1024 * den) * 2 ^ 1074 := Nat.mul_le_mul_right _ hmax
    generalize 2 ^ 2045 * den = U at h1 ⊢
    generalize adiff (F64.mag r * den) (num * 2 ^ 1074) = d at hrel ⊢
    generalize num * 2 ^ 1074 = X at hrel h1
    have : 2 ^ 53 * d ≤ 2 ^ 53 * (5 * U) := Nat.le_trans hrel h1
    exact Nat.le_of_mul_le_mul_left this (by decide)


/-! ## The two table operations -/

/-- `0 ≤ exponent ≤ 308`, accepted: within 5 ulp (in fact `4ε` relative) -/
theorem mul_within5 (positive : Bool) (s : Nat) (e : Int) (r : UInt64) (hs1 : 1 ≤ s) (hs : s < 2 ^ 64)
    (he1 : 0 ≤ e) (he2 : e ≤ 308) (h : f64FromParts positive s e = some r) :
    withinUlps 5 (!positive) (s * 10 ^ e.natAbs) 1 r = true := by
  rw [f64FromParts_mul positive s e hs he1 he2] at h
  obtain ⟨hu, hr⟩ := roundNE64_some _ _ _ r h
  have hcc : 0 < 2 ^ 1074 * 2 ^ 1074 := Nat.mul_pos (two_pow_pos' _) (two_pow_pos' _)
  have hc : 0 < 2 ^ 1074 := two_pow_pos' _
  have hup := operands_upper s e.natAbs hs1 hs (by omega)
  have hlo := operands_lower s e.natAbs hs1 hs (by omega)
  have hx1 : 1 ≤ s * 10 ^ e.natAbs := Nat.mul_pos hs1 (Nat.pos_of_ne_zero (by simp))
  have hnov : ¬ Overflows64 (F64.mag (F64.ofU64 s) * F64.mag (litPow10 e.natAbs)) (2 ^ 1074 * 2 ^ 1074) := by
    rw [overflows64_iff _ _ hcc]; unfold rmag64 at hu; omega
  unfold Overflows64 at hnov
  have hfin := bits64_finite (!positive) _ hu
  have hsign := bits64_sign (!positive) _ hu
  have hmag := bits64_mag (!positive) _ hu
  rw [← hr] at hfin hsign hmag
  unfold rmag64 at hmag
  -- numeric facts, stated before the big constants are hidden
  have hnum1 : 2 ^ 106 * (2 ^ 52 * 2 ^ 1074) ≤ (2 ^ 53 - 1) ^ 2 * (1 * (2 ^ 1074 * 2 ^ 1074)) := by
    decide +kernel
  have hnum2 : 4 * (2 ^ 106 * (2 ^ 1024 - 2 ^ 970)) ≤ (2 ^ 53 - 1) ^ 2 * (5 * 2 ^ 1024) := by
    decide +kernel
  generalize F64.mag (F64.ofU64 s) * F64.mag (litPow10 e.natAbs) = AB at hup hlo hnov hmag
  generalize s * 10 ^ e.natAbs = x at hup hlo hx1 ⊢
  -- normal range: 2^52·cc ≤ AB·c
  have hn : 2 ^ b64.mbits * (2 ^ 1074 * 2 ^ 1074) ≤ AB * 2 ^ 1074 := by
    rw [b64_mbits]
    have h1 : (2 ^ 53 - 1) ^ 2 * (1 * (2 ^ 1074 * 2 ^ 1074)) ≤ (2 ^ 53 - 1) ^ 2 * (x * (2 ^ 1074 * 2 ^ 1074)) :=
      Nat.mul_le_mul_left _ (Nat.mul_le_mul_right _ hx1)
    have h2 : 2 ^ 106 * (2 ^ 52 * 2 ^ 1074) ≤ 2 ^ 106 * AB := Nat.le_trans hnum1 (Nat.le_trans h1 hlo)
    have h3 := Nat.le_of_mul_le_mul_left h2 (by decide)
    calc 2 ^ 52 * (2 ^ 1074 * 2 ^ 1074) = (2 ^ 52 * 2 ^ 1074) * 2 ^ 1074 := by ring
      _ ≤ AB * 2 ^ 1074 := Nat.mul_le_mul_right _ h3
  have hrel0 := roundMag_rel b64 (AB * 2 ^ 1074) (2 ^ 1074 * 2 ^ 1074) hcc hn
  rw [← hmag, b64_mbits, show 2 * 2 ^ 52 = 2 ^ 53 from rfl] at hrel0
  obtain ⟨hr1, hr2⟩ := rel_split _ _ hrel0
  have hch := mul_chain (F64.mag r) AB x (2 ^ 1074) hc hr1 hr2 hup hlo
  apply withinUlps_of_rel (!positive) x 1 r (by decide) hfin hsign
  · rw [Nat.mul_one]; exact hch
  · -- 4x ≤ 5·2^1024, because the product did not overflow
    by_contra hcon
    have hcon' : 5 * 2 ^ 1024 < 4 * x := by omega
    have h1 : (2 ^ 53 - 1) ^ 2 * (5 * 2 ^ 1024) * (2 ^ 1074 * 2 ^ 1074) <
        (2 ^ 53 - 1) ^ 2 * (4 * x) * (2 ^ 1074 * 2 ^ 1074) :=
      Nat.mul_lt_mul_of_pos_right (Nat.mul_lt_mul_of_pos_left hcon' (by decide)) hcc
    have h2 : (2 ^ 53 - 1) ^ 2 * (4 * x) * (2 ^ 1074 * 2 ^ 1074) ≤ 4 * (2 ^ 106 * AB) := by
      calc (2 ^ 53 - 1) ^ 2 * (4 * x) * (2 ^ 1074 * 2 ^ 1074)
          = 4 * ((2 ^ 53 - 1) ^ 2 * (x * (2 ^ 1074 * 2 ^ 1074))) := by ring
        _ ≤ 4 * (2 ^ 106 * AB) := Nat.mul_le_mul_left _ hlo
    have h3 : 4 * (2 ^ 106 * AB) < 4 * (2 ^ 106 * ((2 ^ 1024 - 2 ^ 970) * (2 ^ 1074 * 2 ^ 1074))) :=
      Nat.mul_lt_mul_of_pos_left (Nat.mul_lt_mul_of_pos_left (by omega) (by decide)) (by decide)
    have h4 : 4 * (2 ^ 106 * ((2 ^ 1024 - 2 ^ 970) * (2 ^ 1074 * 2 ^ 1074)))
        ≤ (2 ^ 53 - 1) ^ 2 * (5 * 2 ^ 1024) * (2 ^ 1074 * 2 ^ 1074) := by
      calc 4 * (2 ^ 106 * ((2 ^ 1024 - 2 ^ 970) * (2 ^ 1074 * 2 ^ 1074)))
          = (4 * (2 ^ 106 * (2 ^ 1024 - 2 ^ 970))) * (2 ^ 1074 * 2 ^ 1074) := by ring
        _ ≤ _ := Nat.mul_le_mul_right _ hnum2
    omega


/-- `-308 ≤ exponent < 0`, exact value at least `2^-1021` (so the quotient is a normal number):
    within 5 ulp (in fact `4ε` relative) -/
theorem div_within5 (positive : Bool) (s : Nat) (e : Int) (r : UInt64) (hs1 : 1 ≤ s) (hs : s < 2 ^ 64)
    (he1 : -308 ≤ e) (he2 : e < 0) (hnorm : 10 ^ e.natAbs ≤ s * 2 ^ 1021)
    (h : f64FromParts positive s e = some r) :
    withinUlps 5 (!positive) s (10 ^ e.natAbs) r = true := by
  rw [f64FromParts_div positive s e hs he1 he2] at h
  obtain ⟨hu, hr⟩ := roundNE64_some _ _ _ r h
  have hc : 0 < 2 ^ 1074 := two_pow_pos' _
  have ht : 0 < 10 ^ e.natAbs := Nat.pos_of_ne_zero (by simp)
  obtain ⟨hA1, hA2⟩ := ofU64_bounds s hs1 hs
  obtain ⟨hB1, hB2⟩ := litPow10_rel e.natAbs (by omega)
  obtain ⟨_, _, _, hBm⟩ := litPow10_facts e.natAbs (by omega)
  have hB : 0 < F64.mag (litPow10 e.natAbs) := by omega
  have hfin := bits64_finite (!positive) _ hu
  have hsign := bits64_sign (!positive) _ hu
  have hmag := bits64_mag (!positive) _ hu
  rw [← hr] at hfin hsign hmag
  unfold rmag64 at hmag
  have hnum1 : 2 ^ 52 * (2 ^ 53 + 1) * 2 ^ 1021 ≤ (2 ^ 53 - 1) * 2 ^ 1074 := by decide +kernel
  have hnum2 : 4 * 2 ^ 64 ≤ 5 * 2 ^ 1024 := by decide +kernel
  generalize F64.mag (F64.ofU64 s) = A at hA1 hA2 hmag
  generalize F64.mag (litPow10 e.natAbs) = B at hB1 hB2 hB hmag
  generalize 10 ^ e.natAbs = t at hnorm ht hB1 hB2 ⊢
  -- normal range
  have hn : 2 ^ b64.mbits * B ≤ A * 2 ^ 1074 := by
    rw [b64_mbits]
    have h1 : 2 ^ 53 * (2 ^ 52 * B) ≤ 2 ^ 53 * (A * 2 ^ 1074) := by
      calc 2 ^ 53 * (2 ^ 52 * B) = 2 ^ 52 * (2 ^ 53 * B) := by ring
        _ ≤ 2 ^ 52 * ((2 ^ 53 + 1) * (t * 2 ^ 1074)) := Nat.mul_le_mul_left _ hB1
        _ = (2 ^ 52 * (2 ^ 53 + 1) * 2 ^ 1074) * t := by ring
        _ ≤ (2 ^ 52 * (2 ^ 53 + 1) * 2 ^ 1074) * (s * 2 ^ 1021) := Nat.mul_le_mul_left _ hnorm
        _ = (2 ^ 52 * (2 ^ 53 + 1) * 2 ^ 1021) * (s * 2 ^ 1074) := by ring
        _ ≤ ((2 ^ 53 - 1) * 2 ^ 1074) * (s * 2 ^ 1074) := Nat.mul_le_mul_right _ hnum1
        _ = 2 ^ 1074 * ((2 ^ 53 - 1) * (s * 2 ^ 1074)) := by ring
        _ ≤ 2 ^ 1074 * (2 ^ 53 * A) := Nat.mul_le_mul_left _ hA2
        _ = 2 ^ 53 * (A * 2 ^ 1074) := by ring
    exact Nat.le_of_mul_le_mul_left h1 (by decide)
  have hrel0 := roundMag_rel b64 (A * 2 ^ 1074) B hB hn
  rw [← hmag, b64_mbits, show 2 * 2 ^ 52 = 2 ^ 53 from rfl] at hrel0
  obtain ⟨hr1, hr2⟩ := rel_split _ _ hrel0
  have hch := div_chain (F64.mag r) A B s t (2 ^ 1074) hc hr1 hr2 hA1 hA2 hB1 hB2
  apply withinUlps_of_rel (!positive) s t r ht hfin hsign hch
  have : 5 * 2 ^ 1024 * 1 ≤ 5 * 2 ^ 1024 * t := Nat.mul_le_mul_left _ ht
  omega

end SJ.Proofs.FloatDefault
