import SJ.Proofs.RawKey
/-!
# C19 helper lemmas: a map whose values are `Box<RawValue>` — every value's capture is that value's text

The concatenation structure of an object text with its members singled out (`k` = the key's string items,
`c` = the value's text): `bs = w₀ "{" inner "}" w₃` with `MInner inner ms` : `inner = ws` or
`inner = ws member₁ tail`, `MTail tail [member₂ …]` : `tail = ( ws "," ws memberᵢ )* ws`,
`member = strBytes k ws ":" ws c`.
`rawMapTop_sound` / `rawMapTop_complete`: `from_*::<map of Box<RawValue>>` succeeds exactly on such texts
(keys: well-formed literals with paired escapes, valid UTF-8 decoding on byte sources; values: one grammar
value each) and returns the decoded keys with the values' texts, in source order.
-/
namespace SJ.Proofs.RawMap
open SJ SJ.Gen SJ.Model.Machine SJ.Model.Stream SJ.Proofs.Machine SJ.Proofs.Complete SJ.Proofs.StreamValues
open SJ.Spec.Grammar (CST StrItem Ws Derives JsonText StrWF strBytes)
open SJ.Model.Typed
open SJ.Model.RawNested SJ.Proofs.RawSpan SJ.Proofs.RawNested SJ.Proofs.RawKey

/-- a member as captured: key items, decoded key, value text -/
abbrev Mem := List StrItem × Bytes × Bytes

/-- `( ws "," ws key ws ":" ws c )* ws` -/
inductive MTail : Bytes → List Mem → Prop
  | nil (w : Bytes) (hw : Ws w) : MTail w []
  | cons (w₁ w₂ : Bytes) (k : List StrItem) (s w₃ w₄ c rest : Bytes) (ms : List Mem) (h₁ : Ws w₁) (h₂ : Ws w₂)
      (h₃ : Ws w₃) (h₄ : Ws w₄) (h : MTail rest ms) :
      MTail (w₁ ++ [0x2c] ++ w₂ ++ strBytes k ++ w₃ ++ [0x3a] ++ w₄ ++ c ++ rest) ((k, s, c) :: ms)

/-- the inside of an object text -/
def MInner (inner : Bytes) : List Mem → Prop
  | [] => Ws inner
  | (k, _, c) :: ms => ∃ w w₃ w₄ tail, Ws w ∧ Ws w₃ ∧ Ws w₄ ∧
      inner = w ++ strBytes k ++ w₃ ++ [0x3a] ++ w₄ ++ c ++ tail ∧ MTail tail ms

/-- what a captured member must be -/
def MemOK (env : SJ.Model.Typed.Env) (m : Mem) : Prop := KeyOK env m.1 m.2.1 ∧ Captured env m.2.2

def memVal (m : Mem) : TVal × TVal := (.str m.2.1, .str m.2.2)

/-! ## `has_next_key`, `parse_object_colon` -/

theorem hasNextKey_close (env : SJ.Model.Typed.Env) (first : Bool) (w r : Bytes) (pos : Nat) (hw : Ws w) :
    hasNextKey env first (w ++ 0x7d :: r) pos = .ok false (0x7d :: r) (pos + w.length) := by
  unfold hasNextKey
  rw [withPeek_ws env _ w 0x7d r pos _ hw (by decide)]
  simp

theorem hasNextKey_first (env : SJ.Model.Typed.Env) (w r : Bytes) (pos : Nat) (hw : Ws w) :
    hasNextKey env true (w ++ 0x22 :: r) pos = .ok true (0x22 :: r) (pos + w.length) := by
  unfold hasNextKey
  rw [withPeek_ws env _ w 0x22 r pos _ hw (by decide)]
  have : ((0x22 : UInt8) == 0x7d) = false := by decide
  simp [this]

theorem hasNextKey_comma (env : SJ.Model.Typed.Env) (w₁ w₂ r : Bytes) (pos : Nat) (h₁ : Ws w₁) (h₂ : Ws w₂) :
    hasNextKey env false (w₁ ++ [0x2c] ++ w₂ ++ 0x22 :: r) pos =
      .ok true (0x22 :: r) (pos + w₁.length + 1 + w₂.length) := by
  unfold hasNextKey
  have : w₁ ++ [0x2c] ++ w₂ ++ 0x22 :: r = w₁ ++ 0x2c :: (w₂ ++ 0x22 :: r) := by simp
  rw [this, withPeek_ws env _ w₁ 0x2c _ pos _ h₁ (by decide)]
  have h2c : ((0x2c : UInt8) == 0x7d) = false := by decide
  simp only [h2c, Bool.false_eq_true, if_false, beq_self_eq_true, if_true]
  rw [withPeek_ws env _ w₂ 0x22 r _ _ h₂ (by decide)]
  simp

theorem hasNextKey_ok (env : SJ.Model.Typed.Env) (first : Bool) (rest : Bytes) (pos : Nat) (more : Bool) (r : Bytes)
    (p : Nat) (h : hasNextKey env first rest pos = .ok more r p) :
    (more = false ∧ ∃ w r', Ws w ∧ rest = w ++ r ∧ r = 0x7d :: r' ∧ p = pos + w.length) ∨
    (more = true ∧ first = true ∧ ∃ w r', Ws w ∧ rest = w ++ r ∧ r = 0x22 :: r' ∧ p = pos + w.length) ∨
    (more = true ∧ first = false ∧ ∃ w₁ w₂ r', Ws w₁ ∧ Ws w₂ ∧ rest = w₁ ++ [0x2c] ++ w₂ ++ r ∧ r = 0x22 :: r' ∧
      p = pos + w₁.length + 1 + w₂.length) := by
  unfold hasNextKey withPeek at h
  obtain ⟨w, hw1, hw2, hw3⟩ := SJ.Props.C19.skipWs_prefix rest pos
  generalize hsk : skipWs rest pos = sk at h hw1 hw3
  obtain ⟨r0, p0⟩ := sk
  simp only at h hw1 hw3
  cases r0 with
  | nil => simp only [atEof] at h; split at h <;> simp at h
  | cons b r1 =>
    simp only at h
    split at h
    · rename_i hb
      simp only [Res.ok.injEq] at h
      obtain ⟨rfl, rfl, rfl⟩ := h
      simp only [beq_iff_eq] at hb; subst hb
      exact .inl ⟨rfl, w, r1, ws_of_all hw2, hw1, rfl, hw3⟩
    · split at h
      · rename_i hfirst
        split at h
        · rename_i hq
          simp only [Res.ok.injEq] at h
          obtain ⟨rfl, rfl, rfl⟩ := h
          simp only [beq_iff_eq] at hq; subst hq
          exact .inr (.inl ⟨rfl, hfirst, w, r1, ws_of_all hw2, hw1, rfl, hw3⟩)
        · simp at h
      · rename_i hfirst
        split at h
        · rename_i hcomma
          simp only [beq_iff_eq] at hcomma; subst hcomma
          obtain ⟨w', hv1, hv2, hv3⟩ := SJ.Props.C19.skipWs_prefix r1 (p0 + 1)
          generalize hsk2 : skipWs r1 (p0 + 1) = sk2 at h hv1 hv3
          obtain ⟨r2, p2⟩ := sk2
          simp only at h hv1 hv3
          cases r2 with
          | nil => simp only [atEof] at h; split at h <;> simp at h
          | cons c r3 =>
            simp only at h
            split at h
            · rename_i hq
              simp only [Res.ok.injEq] at h
              obtain ⟨rfl, rfl, rfl⟩ := h
              simp only [beq_iff_eq] at hq; subst hq
              refine .inr (.inr ⟨rfl, by simpa using hfirst, w, w', r3, ws_of_all hw2, ws_of_all hv2, ?_, rfl, ?_⟩)
              · rw [hw1, hv1]; simp
              · omega
            · split at h <;> simp at h
        · simp at h

theorem parseObjectColon_ws (env : SJ.Model.Typed.Env) (w r : Bytes) (pos : Nat) (hw : Ws w) :
    parseObjectColon env (w ++ 0x3a :: r) pos = .ok () r (pos + w.length + 1) := by
  unfold parseObjectColon
  rw [withPeek_ws env _ w 0x3a r pos _ hw (by decide)]
  simp

theorem parseObjectColon_ok (env : SJ.Model.Typed.Env) (rest : Bytes) (pos : Nat) (r : Bytes) (p : Nat)
    (h : parseObjectColon env rest pos = .ok () r p) :
    ∃ w, Ws w ∧ rest = w ++ 0x3a :: r ∧ p = pos + w.length + 1 := by
  unfold parseObjectColon withPeek at h
  obtain ⟨w, hw1, hw2, hw3⟩ := SJ.Props.C19.skipWs_prefix rest pos
  generalize hsk : skipWs rest pos = sk at h hw1 hw3
  obtain ⟨r0, p0⟩ := sk
  simp only at h hw1 hw3
  cases r0 with
  | nil => simp only [atEof] at h; split at h <;> simp at h
  | cons b r1 =>
    simp only at h
    split at h
    · rename_i hb
      simp only [Res.ok.injEq, true_and] at h
      obtain ⟨rfl, rfl⟩ := h
      simp only [beq_iff_eq] at hb; subst hb
      exact ⟨w, ws_of_all hw2, hw1, by omega⟩
    · simp at h

/-! ## the entry loop -/

/-- what follows a value inside an object cannot continue a number -/
theorem mtail_follow {tail : Bytes} {ms : List Mem} (ht : MTail tail ms) (r : Bytes) :
    ∀ d r', tail ++ 0x7d :: r = d :: r' → numCont d = false := by
  intro d r' h
  have key : ∀ (w : Bytes) (x : UInt8) (rest : Bytes), Ws w → numCont x = false → w ++ x :: rest = d :: r' →
      numCont d = false := by
    intro w x rest hw hx h
    cases w with
    | nil => simp only [List.nil_append, List.cons.injEq] at h; rw [← h.1]; exact hx
    | cons y ys =>
      simp only [List.cons_append, List.cons.injEq] at h
      rw [← h.1]; exact isWs_not_numCont y (ws_head_cases hw y ys rfl)
  cases ht with
  | nil _ hw => exact key _ 0x7d r hw (by decide) h
  | cons w₁ w₂ k s w₃ w₄ c rest ms h₁ _ _ _ _ =>
    exact key w₁ 0x2c (w₂ ++ strBytes k ++ w₃ ++ [0x3a] ++ w₄ ++ c ++ rest ++ 0x7d :: r) h₁ (by decide)
      (by simpa [List.append_assoc] using h)

theorem strBytes_cons (k : List StrItem) : ∃ r, strBytes k = 0x22 :: r :=
  ⟨k.flatMap StrItem.bytes ++ [0x22], by simp [strBytes]⟩

theorem mapLoop_unfold (env : SJ.Model.Typed.Env) (n : Nat) (first : Bool) (acc : List (TVal × TVal)) (rest : Bytes)
    (pos : Nat) :
    mapLoop env .string (deRaw env) (n + 1) first acc rest pos =
      (hasNextKey env first rest pos).bind fun more r p =>
        if !more then .ok acc.reverse r p
        else
          (deKey env .string r p).bind fun kv r1 p1 =>
            (parseObjectColon env r1 p1).bind fun _ r2 p2 =>
              (deRaw env r2 p2).bind fun v r3 p3 => mapLoop env .string (deRaw env) n false ((kv, v) :: acc) r3 p3 := rfl

/-- one entry after `has_next_key` said yes (the unread input starts with the key's quote) -/
theorem entry_sound (env : SJ.Model.Typed.Env) (r' : Bytes) (p : Nat) (kv v : TVal) (r1 r2 r3 : Bytes) (p1 p2 p3 : Nat)
    (hk : deKey env .string (0x22 :: r') p = .ok kv r1 p1) (hc : parseObjectColon env r1 p1 = .ok () r2 p2)
    (hv : deRaw env r2 p2 = .ok v r3 p3) :
    ∃ (m : Mem) (w₃ w₄ : Bytes), (kv, v) = memVal m ∧ MemOK env m ∧ Ws w₃ ∧ Ws w₄ ∧
      0x22 :: r' = strBytes m.1 ++ w₃ ++ [0x3a] ++ w₄ ++ m.2.2 ++ r3 ∧
      p3 = p + (strBytes m.1 ++ w₃ ++ [0x3a] ++ w₄ ++ m.2.2).length := by
  obtain ⟨items, s, rfl, hr1, hp1, hkey⟩ := keyStr_sound env r' p kv r1 p1 hk
  obtain ⟨w₃, hw₃, rfl, hp2⟩ := parseObjectColon_ok env r1 p1 r2 p2 hc
  obtain ⟨w₄, c, rfl, rfl, hw₄, hp3, _, hder, hutf⟩ := deRaw_sound env r2 p2 v r3 p3 hv
  refine ⟨(items, s, c), w₃, w₄, rfl, ⟨hkey, hder, hutf⟩, hw₃, hw₄, ?_, ?_⟩
  · rw [hr1]; simp
  · simp only [List.length_append, List.length_cons, List.length_nil] at hp3 ⊢; omega

theorem mapLoop_sound (env : SJ.Model.Typed.Env) : ∀ (n : Nat) (first : Bool) (acc : List (TVal × TVal)) (rest : Bytes)
    (pos : Nat) (xs : List (TVal × TVal)) (r1 : Bytes) (p1 : Nat),
    mapLoop env .string (deRaw env) n first acc rest pos = .ok xs r1 p1 →
    ∃ (ms : List Mem) (r1' : Bytes), xs = acc.reverse ++ ms.map memVal ∧ (∀ m ∈ ms, MemOK env m) ∧ r1 = 0x7d :: r1' ∧
      ∃ used, rest = used ++ r1 ∧ p1 = pos + used.length ∧
        (first = true → MInner used ms) ∧ (first = false → MTail used ms) := by
  intro n
  induction n with
  | zero => intro first acc rest pos xs r1 p1 h; simp [mapLoop] at h
  | succ n ih =>
    intro first acc rest pos xs r1 p1 h
    rw [mapLoop_unfold] at h
    cases hh : hasNextKey env first rest pos with
    | err c i => rw [hh] at h; simp [Res.bind] at h
    | data i => rw [hh] at h; simp [Res.bind] at h
    | raw r p => rw [hh] at h; simp [Res.bind] at h
    | io => rw [hh] at h; simp [Res.bind] at h
    | fuel => rw [hh] at h; simp [Res.bind] at h
    | ok more r p =>
      rw [hh] at h
      simp only [Res.bind] at h
      have entry : ∀ (r' : Bytes), r = 0x22 :: r' → more = true →
          ∃ (m : Mem) (w₃ w₄ : Bytes) (ms : List Mem) (r1' used : Bytes), xs = acc.reverse ++ (m :: ms).map memVal ∧
            (∀ m' ∈ m :: ms, MemOK env m') ∧ r1 = 0x7d :: r1' ∧ Ws w₃ ∧ Ws w₄ ∧
            r = strBytes m.1 ++ w₃ ++ [0x3a] ++ w₄ ++ m.2.2 ++ used ++ r1 ∧
            p1 = p + (strBytes m.1 ++ w₃ ++ [0x3a] ++ w₄ ++ m.2.2 ++ used).length ∧ MTail used ms := by
        intro r' hr hmore
        subst hmore hr
        simp only [Bool.not_true, Bool.false_eq_true, if_false] at h
        cases hk : deKey env .string (0x22 :: r') p with
        | err c i => rw [hk] at h; simp at h
        | data i => rw [hk] at h; simp at h
        | raw r p => rw [hk] at h; simp at h
        | io => rw [hk] at h; simp at h
        | fuel => rw [hk] at h; simp at h
        | ok kv ra pa =>
          rw [hk] at h
          simp only at h
          cases hc : parseObjectColon env ra pa with
          | err c i => rw [hc] at h; simp at h
          | data i => rw [hc] at h; simp at h
          | raw r p => rw [hc] at h; simp at h
          | io => rw [hc] at h; simp at h
          | fuel => rw [hc] at h; simp at h
          | ok u rb pb =>
            rw [hc] at h
            simp only at h
            cases hv : deRaw env rb pb with
            | err c i => rw [hv] at h; simp at h
            | data i => rw [hv] at h; simp at h
            | raw r p => rw [hv] at h; simp at h
            | io => rw [hv] at h; simp at h
            | fuel => rw [hv] at h; simp at h
            | ok v rc pc =>
              rw [hv] at h
              simp only at h
              obtain ⟨m, w₃, w₄, hm, hok, hw₃, hw₄, hbytes, hpc⟩ := entry_sound env r' p kv v ra rb rc pa pb pc hk hc hv
              obtain ⟨ms, r1', hxs, hms, hr1, used, hused, hp1, _, htail⟩ := ih false ((kv, v) :: acc) rc pc xs r1 p1 h
              refine ⟨m, w₃, w₄, ms, r1', used, ?_, ?_, hr1, hw₃, hw₄, ?_, ?_, htail rfl⟩
              · rw [hxs, hm]; simp
              · intro m' hm'
                simp only [List.mem_cons] at hm'
                rcases hm' with rfl | hm'
                · exact hok
                · exact hms m' hm'
              · rw [hbytes, hused]; simp
              · rw [hp1, hpc]; simp only [List.length_append]; omega
      rcases hasNextKey_ok env first rest pos more r p hh with
        ⟨rfl, w, r', hw, hrest, hr, hp⟩ | ⟨hmore, hfirst, w, r', hw, hrest, hr, hp⟩ |
        ⟨hmore, hfirst, w₁, w₂, r', h₁, h₂, hrest, hr, hp⟩
      · simp only [Bool.not_false, if_true, Res.ok.injEq] at h
        obtain ⟨rfl, rfl, rfl⟩ := h
        refine ⟨[], r', by simp, by simp, hr, w, hrest, hp, ?_, ?_⟩
        · intro _; exact hw
        · intro _; exact MTail.nil w hw
      · obtain ⟨m, w₃, w₄, ms, r1', used, hxs, hms, hr1, hw₃, hw₄, hbytes, hp1, htail⟩ := entry r' hr hmore
        obtain ⟨k, s, c⟩ := m
        refine ⟨(k, s, c) :: ms, r1', hxs, hms, hr1, w ++ strBytes k ++ w₃ ++ [0x3a] ++ w₄ ++ c ++ used, ?_, ?_, ?_, ?_⟩
        · rw [hrest, hbytes]; simp
        · rw [hp1, hp]; simp only [List.length_append]; omega
        · intro _; exact ⟨w, w₃, w₄, used, hw, hw₃, hw₄, rfl, htail⟩
        · intro hf; rw [hfirst] at hf; cases hf
      · obtain ⟨m, w₃, w₄, ms, r1', used, hxs, hms, hr1, hw₃, hw₄, hbytes, hp1, htail⟩ := entry r' hr hmore
        obtain ⟨k, s, c⟩ := m
        refine ⟨(k, s, c) :: ms, r1', hxs, hms, hr1,
          w₁ ++ [0x2c] ++ w₂ ++ strBytes k ++ w₃ ++ [0x3a] ++ w₄ ++ c ++ used, ?_, ?_, ?_, ?_⟩
        · rw [hrest, hbytes]; simp
        · rw [hp1, hp]; simp only [List.length_append, List.length_cons, List.length_nil]; omega
        · intro hf; rw [hfirst] at hf; cases hf
        · intro _; exact MTail.cons w₁ w₂ k s w₃ w₄ c used ms h₁ h₂ hw₃ hw₄ htail

/-- one entry, completeness -/
theorem entry_complete (env : SJ.Model.Typed.Env) (hflt : env.flt = false) (m : Mem) (hm : MemOK env m) (w₃ w₄ follow : Bytes)
    (h₃ : Ws w₃) (h₄ : Ws w₄) (pos : Nat) (hfollow : ∀ d r', follow = d :: r' → numCont d = false)
    (k : TVal → TVal → Bytes → Nat → Res (List (TVal × TVal))) :
    ((deKey env .string (strBytes m.1 ++ w₃ ++ [0x3a] ++ w₄ ++ m.2.2 ++ follow) pos).bind fun kv r1 p1 =>
      (parseObjectColon env r1 p1).bind fun _ r2 p2 => (deRaw env r2 p2).bind fun v r3 p3 => k kv v r3 p3) =
    k (.str m.2.1) (.str m.2.2) follow (pos + (strBytes m.1 ++ w₃ ++ [0x3a] ++ w₄ ++ m.2.2).length) := by
  obtain ⟨k0, s, c⟩ := m
  obtain ⟨hkey, ⟨t, hd⟩, hutf⟩ := hm
  simp only at hkey hd hutf ⊢
  have e1 : strBytes k0 ++ w₃ ++ [0x3a] ++ w₄ ++ c ++ follow = strBytes k0 ++ (w₃ ++ 0x3a :: (w₄ ++ c ++ follow)) := by simp
  have hk := keyStr_complete env hflt k0 s hkey (w₃ ++ 0x3a :: (w₄ ++ c ++ follow)) pos
  have hde := deRaw_complete env hflt w₄ c follow t (pos + (strBytes k0).length + w₃.length + 1) h₄ hd hutf (fun _ => hfollow)
  unfold deKey
  rw [e1, hk]
  simp only [Res.bind]
  rw [parseObjectColon_ws env w₃ _ _ h₃]
  simp only [hde]
  congr 1
  simp only [List.length_append, List.length_cons, List.length_nil]; omega

theorem mapLoop_tail (env : SJ.Model.Typed.Env) (hflt : env.flt = false) {tail : Bytes} {ms : List Mem} (ht : MTail tail ms) :
    (∀ m ∈ ms, MemOK env m) → ∀ (n : Nat) (acc : List (TVal × TVal)) (r : Bytes) (pos : Nat), ms.length < n →
    mapLoop env .string (deRaw env) n false acc (tail ++ 0x7d :: r) pos =
      .ok (acc.reverse ++ ms.map memVal) (0x7d :: r) (pos + tail.length) := by
  induction ht with
  | nil w hw =>
    intro _ n acc r pos hn
    cases n with
    | zero => omega
    | succ n =>
      rw [mapLoop_unfold, hasNextKey_close env false w r pos hw]
      simp [Res.bind]
  | cons w₁ w₂ k s w₃ w₄ c rest ms h₁ h₂ h₃ h₄ ht' ih =>
    intro hcap n acc r pos hn
    cases n with
    | zero => omega
    | succ n =>
      obtain ⟨kr, hkr⟩ := strBytes_cons k
      have hin : w₁ ++ [0x2c] ++ w₂ ++ strBytes k ++ w₃ ++ [0x3a] ++ w₄ ++ c ++ rest ++ 0x7d :: r =
          w₁ ++ [0x2c] ++ w₂ ++ 0x22 :: (kr ++ w₃ ++ [0x3a] ++ w₄ ++ c ++ rest ++ 0x7d :: r) := by rw [hkr]; simp
      have hin2 : 0x22 :: (kr ++ w₃ ++ [0x3a] ++ w₄ ++ c ++ rest ++ 0x7d :: r) =
          strBytes k ++ w₃ ++ [0x3a] ++ w₄ ++ c ++ (rest ++ 0x7d :: r) := by rw [hkr]; simp
      rw [mapLoop_unfold, hin, hasNextKey_comma env w₁ w₂ _ pos h₁ h₂, hin2]
      simp only [Res.bind, Bool.not_true, Bool.false_eq_true, if_false]
      have := entry_complete env hflt (k, s, c) (hcap _ (by simp)) w₃ w₄ (rest ++ 0x7d :: r) h₃ h₄
        (pos + w₁.length + 1 + w₂.length) (mtail_follow ht' r)
        (fun kv v r3 p3 => mapLoop env .string (deRaw env) n false ((kv, v) :: acc) r3 p3)
      simp only [Res.bind] at this
      rw [this]
      rw [ih (fun m' hm' => hcap m' (by simp [hm'])) n _ r _ (by simp at hn; omega)]
      simp only [List.reverse_cons, List.append_assoc, List.cons_append, List.nil_append, List.map_cons, memVal,
        List.length_append, List.length_cons, Res.ok.injEq, true_and]
      omega

theorem mapLoop_inner (env : SJ.Model.Typed.Env) (hflt : env.flt = false) (inner : Bytes) (ms : List Mem)
    (hin : MInner inner ms) (hcap : ∀ m ∈ ms, MemOK env m) (n : Nat) (r : Bytes) (pos : Nat) (hn : ms.length < n) :
    mapLoop env .string (deRaw env) n true [] (inner ++ 0x7d :: r) pos =
      .ok (ms.map memVal) (0x7d :: r) (pos + inner.length) := by
  cases ms with
  | nil =>
    cases n with
    | zero => omega
    | succ n =>
      rw [mapLoop_unfold, hasNextKey_close env true inner r pos hin]
      simp [Res.bind]
  | cons m ms =>
    obtain ⟨k, s, c⟩ := m
    obtain ⟨w, w₃, w₄, tail, hw, h₃, h₄, rfl, ht⟩ := hin
    cases n with
    | zero => omega
    | succ n =>
      obtain ⟨kr, hkr⟩ := strBytes_cons k
      have hin : w ++ strBytes k ++ w₃ ++ [0x3a] ++ w₄ ++ c ++ tail ++ 0x7d :: r =
          w ++ 0x22 :: (kr ++ w₃ ++ [0x3a] ++ w₄ ++ c ++ tail ++ 0x7d :: r) := by rw [hkr]; simp
      have hin2 : 0x22 :: (kr ++ w₃ ++ [0x3a] ++ w₄ ++ c ++ tail ++ 0x7d :: r) =
          strBytes k ++ w₃ ++ [0x3a] ++ w₄ ++ c ++ (tail ++ 0x7d :: r) := by rw [hkr]; simp
      rw [mapLoop_unfold, hin, hasNextKey_first env w _ pos hw, hin2]
      simp only [Res.bind, Bool.not_true, Bool.false_eq_true, if_false]
      have := entry_complete env hflt (k, s, c) (hcap _ (by simp)) w₃ w₄ (tail ++ 0x7d :: r) h₃ h₄
        (pos + w.length) (mtail_follow ht r)
        (fun kv v r3 p3 => mapLoop env .string (deRaw env) n false ((kv, v) :: []) r3 p3)
      simp only [Res.bind] at this
      rw [this]
      rw [mapLoop_tail env hflt ht (fun m' hm' => hcap m' (by simp [hm'])) n _ r _ (by simp at hn; omega)]
      simp only [List.reverse_cons, List.reverse_nil, List.nil_append, List.cons_append, List.map_cons, memVal,
        List.length_append, List.length_cons, List.length_nil, Res.ok.injEq, true_and]
      omega

/-! ## the whole document -/

theorem skipWs_closeB (r : Bytes) (pos : Nat) : skipWs (0x7d :: r) pos = (0x7d :: r, pos) := by
  have : isWs 0x7d = false := by decide
  simp [skipWs, this]

theorem endMap_close (env : SJ.Model.Typed.Env) (r : Bytes) (pos : Nat) :
    (endMap env (0x7d :: r) pos).res = .ok () r (pos + 1) := by
  unfold endMap
  rw [skipWs_closeB]
  simp

theorem mtail_length {tail : Bytes} {ms : List Mem} (h : MTail tail ms) : ms.length ≤ tail.length := by
  induction h with
  | nil w _ => simp
  | cons w₁ w₂ k s w₃ w₄ c rest ms _ _ _ _ _ ih => simp only [List.length_cons, List.length_append, List.length_nil]; omega

theorem minner_length {inner : Bytes} {ms : List Mem} (h : MInner inner ms) : ms.length ≤ inner.length + 1 := by
  cases ms with
  | nil => simp
  | cons m ms =>
    obtain ⟨k, s, c⟩ := m
    obtain ⟨w, w₃, w₄, tail, _, _, _, rfl, ht⟩ := h
    have := mtail_length ht
    simp only [List.length_cons, List.length_append]; omega

/-- **map of `Box<RawValue>` (soundness)** -/
theorem rawMapTop_sound (env : SJ.Model.Typed.Env) (bs : Bytes) (v : TVal) (h : rawMapTop env bs = .ok v) :
    ∃ (ms : List Mem) (w₀ inner w₃ : Bytes), v = .map (ms.map memVal) ∧ bs = w₀ ++ [0x7b] ++ inner ++ [0x7d] ++ w₃ ∧
      Ws w₀ ∧ Ws w₃ ∧ MInner inner ms ∧ ∀ m ∈ ms, MemOK env m := by
  unfold rawMapTop finishTop at h
  cases hr : rawMap env bs 0 with
  | err c i => rw [hr] at h; simp at h
  | data i => rw [hr] at h; simp at h
  | raw r p => rw [hr] at h; simp at h
  | io => rw [hr] at h; simp at h
  | fuel => rw [hr] at h; simp at h
  | ok v' rest pos =>
    rw [hr] at h
    simp only at h
    generalize hsk3 : skipWs rest pos = sk3 at h
    obtain ⟨r3, p3⟩ := sk3
    cases r3 with
    | cons _ _ => simp at h
    | nil =>
      have hw3 := skipWs_nil_ws rest pos p3 hsk3
      simp only at h
      split at h
      · cases h
      · simp only [Top.ok.injEq] at h; subst h
        unfold rawMap deMap withPeek at hr
        obtain ⟨w₀, hw1, hw2, hw0p⟩ := SJ.Props.C19.skipWs_prefix bs 0
        generalize hsk : skipWs bs 0 = sk at hr hw1 hw0p
        obtain ⟨r0, p0⟩ := sk
        simp only at hr hw1 hw0p
        cases r0 with
        | nil => simp only [atEof] at hr; split at hr <;> simp at hr
        | cons b r1 =>
          simp only at hr
          split at hr
          · rename_i hb
            simp only [beq_iff_eq] at hb; subst hb
            rw [tooDeep_zero] at hr
            simp only [Bool.false_eq_true, if_false] at hr
            unfold closeWith at hr
            cases hv : (mapLoop env .string (deRaw env) (r1.length + 1) true [] r1 (p0 + 1)) with
            | err c i => rw [hv] at hr; simp [Res.map, Res.bind] at hr
            | data i => rw [hv] at hr; simp [Res.map, Res.bind] at hr
            | raw r p => rw [hv] at hr; simp [Res.map, Res.bind] at hr
            | io => rw [hv] at hr; simp [Res.map, Res.bind] at hr
            | fuel => rw [hv] at hr; simp [Res.map, Res.bind] at hr
            | ok xs r2 p2 =>
              rw [hv] at hr
              simp only [Res.map, Res.bind] at hr
              obtain ⟨ms, r2', hxs, hms, hr2, used, hused, _, hinner, _⟩ :=
                mapLoop_sound env _ true [] r1 (p0 + 1) xs r2 p2 hv
              subst hr2
              rw [endMap_close] at hr
              simp only [Res.ok.injEq] at hr
              obtain ⟨rfl, rfl, rfl⟩ := hr
              refine ⟨ms, w₀, used, r2', by simpa using congrArg TVal.map hxs, ?_, ws_of_all hw2, hw3, hinner rfl, hms⟩
              rw [hw1, hused]; simp
          · exact absurd hr (SJ.Proofs.Typed.peekInvalidType_not_ok _ _ _ _ _ _)

/-- **map of `Box<RawValue>` (completeness)** -/
theorem rawMapTop_complete (env : SJ.Model.Typed.Env) (hflt : env.flt = false) (ms : List Mem)
    (w₀ inner w₃ : Bytes) (h₀ : Ws w₀) (h₃ : Ws w₃) (hin : MInner inner ms) (hcap : ∀ m ∈ ms, MemOK env m) :
    rawMapTop env (w₀ ++ [0x7b] ++ inner ++ [0x7d] ++ w₃) = .ok (.map (ms.map memVal)) := by
  have hbs : w₀ ++ [0x7b] ++ inner ++ [0x7d] ++ w₃ = w₀ ++ 0x7b :: (inner ++ 0x7d :: w₃) := by simp
  unfold rawMapTop rawMap deMap
  rw [hbs, withPeek_ws env _ w₀ 0x7b _ 0 _ h₀ (by decide)]
  simp only [beq_self_eq_true, if_true, tooDeep_zero, Bool.false_eq_true, if_false]
  have hn : ms.length < (inner ++ 0x7d :: w₃).length + 1 := by
    have := minner_length hin
    simp only [List.length_append, List.length_cons]; omega
  rw [mapLoop_inner env hflt inner ms hin hcap _ w₃ _ hn]
  simp only [Res.map, Res.bind, closeWith, endMap_close]
  simp only [finishTop, skipWs_all_ws w₃ _ h₃, hflt]
  simp

/-! ## the decompositions are object derivations of the grammar -/

open SJ.Spec.Grammar (Members) in
/-- first member + `MTail` as `Members` followed by whitespace -/
theorem members_of_mtail {tail : Bytes} {ms : List Mem} (h : MTail tail ms) :
    ∀ (k : List StrItem) (w₃ w₄ c : Bytes) (t : CST) (ts : List CST), StrWF k = true → Ws w₃ → Ws w₄ → Derives c t →
      (∀ m ∈ ms, StrWF m.1 = true) → AllDerive (ms.map (·.2.2)) ts →
      ∃ body w, strBytes k ++ w₃ ++ [0x3a] ++ w₄ ++ c ++ tail = body ++ w ∧ Ws w ∧
        Members body ((k, t) :: (ms.map (·.1)).zip ts) := by
  induction h with
  | nil w hw =>
    intro k w₃ w₄ c t ts hk h₃ h₄ hd _ hall
    cases hall
    exact ⟨strBytes k ++ w₃ ++ [0x3a] ++ w₄ ++ c, w, rfl, hw, Members.one k hk w₃ w₄ c t h₃ h₄ hd⟩
  | cons w₁ w₂ k' s' w₃' w₄' c' rest ms h₁ h₂ h₃' h₄' _ ih =>
    intro k w₃ w₄ c t ts hk h₃ h₄ hd hwf hall
    simp only [List.map_cons] at hall
    cases hall with
    | cons hd' hall' =>
      rename_i t' ts'
      obtain ⟨body, w, hbw, hw, hm⟩ := ih k' w₃' w₄' c' t' ts' (hwf (k', s', c') (by simp)) h₃' h₄' hd'
        (fun m hm => hwf m (by simp [hm])) hall'
      refine ⟨strBytes k ++ w₃ ++ [0x3a] ++ w₄ ++ c ++ w₁ ++ [0x2c] ++ w₂ ++ body, w, ?_, hw, ?_⟩
      · simp only [List.append_assoc] at hbw ⊢
        rw [hbw]
      · simpa using Members.cons k hk w₃ w₄ c w₁ w₂ body t _ h₃ h₄ hd h₁ h₂ hm

/-- a decomposition with well-formed keys and derivable value texts is an object derivation -/
theorem derives_of_minner (inner : Bytes) (ms : List Mem) (ts : List CST) (hin : MInner inner ms)
    (hwf : ∀ m ∈ ms, StrWF m.1 = true) (hall : AllDerive (ms.map (·.2.2)) ts) :
    Derives ([0x7b] ++ inner ++ [0x7d]) (.obj ((ms.map (·.1)).zip ts)) := by
  cases ms with
  | nil => cases hall; exact Derives.objEmpty inner hin
  | cons m ms =>
    obtain ⟨k, s, c⟩ := m
    simp only [List.map_cons] at hall
    cases hall with
    | cons hd hall' =>
      rename_i t ts'
      obtain ⟨w, w₃, w₄, tail, hw, h₃, h₄, rfl, ht⟩ := hin
      obtain ⟨body, w', hbw, hw', hm⟩ := members_of_mtail ht k w₃ w₄ c t ts' (hwf (k, s, c) (by simp)) h₃ h₄ hd
        (fun m hm => hwf m (by simp [hm])) hall'
      have := Derives.obj w body w' _ hw hw' (by simp) hm
      have heq : [0x7b] ++ (w ++ strBytes k ++ w₃ ++ [0x3a] ++ w₄ ++ c ++ tail) ++ [0x7d] = [0x7b] ++ w ++ body ++ w' ++ [0x7d] := by
        have : w ++ strBytes k ++ w₃ ++ [0x3a] ++ w₄ ++ c ++ tail = w ++ (body ++ w') := by rw [← hbw]; simp
        rw [this]; simp
      rw [heq]
      simpa using this

end SJ.Proofs.RawMap
