import SJ.Proofs.StreamTyped
import SJ.Proofs.TypedFaultEq
/-!
# A stream of typed items over a failing reader against the same bytes with a clean end (C13)

`FC` on the two `deTyped` results (`fc_deTyped`) and `Syn` on the failing one (`syn_deTyped`) pushed through `afterDe`:
one call of the failing stream is (a) the clean stream's call, the stream going on — a value or the report of
`peek_end_of_value`; (b) `Io`, the stream failed; (c) the clean stream's call, a Syntax / Data error, the stream failed.
-/
namespace SJ.Proofs.StreamTyped
open SJ SJ.Gen SJ.Model SJ.Model.Typed SJ.Model.StreamTyped SJ.Proofs.Typed SJ.Props.Typed
open SJ.Model.Stream (SS skipWs isSelfDelineated isStreamDelim start)

/-- an item after which the stream goes on: a value, or `peek_end_of_value`'s `trailing characters` -/
def Going (x : TItem) : Prop := (∃ v, x = .ok v) ∨ (∃ i, x = .err .TrailingCharacters i)

/-- an error raised on delivered bytes: a Syntax-classified parser error or a visitor (`Data`) error -/
def TermErr (x : TItem) : Prop := (∃ c i, x = .err c i ∧ classify c = .syntax) ∨ (∃ i, x = .data i)

/-- one call of the failing stream `xF` against the clean stream's `xC` from the same live state -/
inductive CallFC : TItem × SS → TItem × SS → Prop
  | going (x : TItem) (st' : SS) (hg : Going x) (hf : st'.failed = false) : CallFC (x, st') (x, st')
  | io (stF : SS) (y : TItem × SS) (hf : stF.failed = true) : CallFC (.io, stF) y
  | term (x : TItem) (st' : SS) (ht : TermErr x) (hf : st'.failed = true) : CallFC (x, st') (x, st')

theorem afterDe_fc (b : UInt8) (r : Bytes) (p : Nat) (x y : TOut) (h : FC x y) (hs : Syn x) (hfu : x ≠ .fuel) :
    CallFC (afterDe true b r p x) (afterDe false b r p y) := by
  rcases h with h | h
  · subst h; exact .io _ _ rfl
  · subst h
    cases x with
    | ok v rest' e =>
      cases hsd : isSelfDelineated b with
      | true => rw [afterDe_ok_sd _ _ _ _ _ _ _ hsd, afterDe_ok_sd _ _ _ _ _ _ _ hsd]; exact .going _ _ (.inl ⟨v, rfl⟩) rfl
      | false =>
        cases rest' with
        | nil => rw [afterDe_ok_nil _ _ _ _ _ _ hsd, afterDe_ok_nil _ _ _ _ _ _ hsd]; exact .io _ _ rfl
        | cons d tl =>
          rw [afterDe_ok_cons _ _ _ _ _ _ _ _ hsd, afterDe_ok_cons _ _ _ _ _ _ _ _ hsd]
          split
          · exact .going _ _ (.inl ⟨v, rfl⟩) rfl
          · exact .going _ _ (.inr ⟨_, rfl⟩) rfl
    | err c i => exact .term _ _ (.inl ⟨c, i, rfl, hs c i rfl⟩) rfl
    | data i => exact .term _ _ (.inr ⟨_, rfl⟩) rfl
    | raw _ _ => exact .term _ _ (.inr ⟨_, rfl⟩) rfl
    | io => exact .io _ _ rfl
    | fuel => exact absurd rfl hfu

/-- **one call**, failing reader against clean end, from the same live state -/
theorem nextT_fc (cfg : Machine.Cfg) (src : Machine.Src) (s : Schema) (st : SS) (hf : st.failed = false) :
    CallFC (nextT (eFault cfg src) s st) (nextT (eClean cfg src) s st) := by
  cases hsk : skipWs st.rest st.pos with
  | mk r p =>
    cases r with
    | nil =>
      rw [nextT_ws _ s st hf p hsk, nextT_ws _ s st hf p hsk]
      exact .io _ _ rfl
    | cons b r =>
      rw [nextT_item _ s st hf b r p hsk, nextT_item _ s st hf b r p hsk]
      exact afterDe_fc b r p _ _ (fc_deTyped cfg src _ 0 s (b :: r) p) (syn_deTyped (env := eFault cfg src) rfl _ 0 s (b :: r) p)
        (typed_fuel_suffices _ s _ (by omega) 0 _ _)

/-- whole histories -/
def HistFC (n : Nat) (hF hC : List (TItem × Nat)) : Prop :=
  (hF = hC ∧ ∀ x ∈ hF, Going x.1) ∨
  ∃ (pre : List (TItem × Nat)) (t : TItem) (off : Nat) (tl : List (TItem × Nat)),
    hF = pre ++ (t, off) :: List.replicate (n - pre.length - 1) (.none, off) ∧
    hC = pre ++ tl ∧ pre.length < n ∧ (∀ x ∈ pre, Going x.1) ∧ (t = .io ∨ (tl.head? = some (t, off) ∧ TermErr t))

theorem historyT_fc (cfg : Machine.Cfg) (src : Machine.Src) (s : Schema) : ∀ (n : Nat) (st : SS), st.failed = false →
    HistFC n (historyT (eFault cfg src) s n st) (historyT (eClean cfg src) s n st)
  | 0, _, _ => .inl ⟨rfl, fun _ h => by simp [historyT] at h⟩
  | n + 1, st, hf => by
    have hc := nextT_fc cfg src s st hf
    simp only [historyT]
    generalize hF : nextT (eFault cfg src) s st = xF at hc
    generalize hC : nextT (eClean cfg src) s st = xC at hc
    cases hc with
    | going x st' hg hf' =>
      rcases historyT_fc cfg src s n st' hf' with ⟨h1, h2⟩ | ⟨pre, t, off, tl, h1, h2, h3, h4, h5⟩
      · left
        refine ⟨by simp only [h1], ?_⟩
        intro y hy
        simp only [List.mem_cons] at hy
        rcases hy with rfl | hy
        · exact hg
        · exact h2 y hy
      · right
        refine ⟨(x, st'.offset) :: pre, t, off, tl, ?_, by simp only [h2, List.cons_append], by simp only [List.length_cons]; omega, ?_, h5⟩
        · simp only [h1, List.cons_append, List.length_cons]
          rw [show n + 1 - (pre.length + 1) - 1 = n - pre.length - 1 by omega]
        · intro y hy
          simp only [List.mem_cons] at hy
          rcases hy with rfl | hy
          · exact hg
          · exact h4 y hy
    | io stF y hf' =>
      right
      refine ⟨[], .io, stF.offset, _, ?_, rfl, by simp, fun _ h => by simp at h, .inl rfl⟩
      simp only [List.nil_append, List.length_nil]
      rw [historyT_failed _ s n stF hf']
      simp
    | term x st' ht hf' =>
      right
      refine ⟨[], x, st'.offset, _, ?_, rfl, by simp, fun _ h => by simp at h, .inr ⟨by simp, ht⟩⟩
      simp only [List.nil_append, List.length_nil]
      rw [historyT_failed _ s n st' hf']
      simp

end SJ.Proofs.StreamTyped
