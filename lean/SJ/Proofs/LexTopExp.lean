import SJ.Proofs.LexTopRoundtrip
/-!
# C07 top level: exponents beyond `i32` are what the specification demands

`c07_other_literals` restates `parse_exponent_overflow` (out of range iff some significand digit is non-zero and the
exponent is positive, `±0` otherwise). Here that rule is related to the specification: for a literal of fewer than
`2^29 - 20` digits an exponent whose digits overflow `i32` (`≥ 2^31`) puts a non-zero value above `10^(2^30)` or below
`10^-(2^30)`, so the rule returns exactly what nearest-even rounding of the exact value gives — `NumberOutOfRange` iff
`Overflows64`, otherwise `±0`. Hence `deFloat64_nearest` / `deFloat32_nearest` hold without the hypothesis `ExpFits`.
-/
namespace SJ.Proofs.LexTopExp
open SJ SJ.Gen SJ.Model.Lexical SJ.Model.Num SJ.Spec.Ieee SJ.Spec.Decimal
open SJ.Proofs.Ieee SJ.Proofs.LexRound SJ.Proofs.LexBh SJ.Proofs.LexFast SJ.Proofs.LexSplit SJ.Proofs.NumInt
open SJ.Proofs.LexCorrect SJ.Proofs.LexTopFloat SJ.Proofs.LexTopSpec SJ.Proofs.LexTopRoundtrip
open SJ.Proofs.NumLink (PartsWF toNumLit)

/-- the guard fires only on exponents above `i32::MAX` -/
theorem expOverflows_gt (eds : Bytes) (hd : IsDigits eds) (h : expOverflows eds = true) : i32Max < natOfDigits eds := by
  cases eds with
  | nil => simp [expOverflows] at h
  | cons d rest =>
    by_contra hc
    have hcs : IsDigits rest := fun x hx => hd x (List.mem_cons_of_mem _ hx)
    have hle : val (dig d) rest ≤ i32Max := by
      have : natOfDigits (d :: rest) = val (dig d) rest := by
        rw [natOfDigits_eq_val, val_cons]; simp
      omega
    have := expOverflows_go_false rest hcs (dig d) hle
    have h' : expOverflows.go (dig d) rest = true := h
    rw [this] at h'
    cases h'

theorem zero_of_neg (neg : Bool) : (if (!neg) = true then (0 : UInt64) else F64.neg 0) = F64.zero neg := by
  cases neg
  · rfl
  · simp only [Bool.not_true, Bool.false_eq_true, if_false, F64.zero, if_true]; exact SJ.Proofs.NumLink.negZero

/-- **the exponent-overflow rule is the rounding of the exact value** (both targets) -/
theorem exponentOverflow_eq_conv (single : Bool) (p : Parts) (wf : WF p)
    (hlen : (p.int ++ p.frac.getD []).length + 20 < 2 ^ 29) (en : Bool) (eds : Bytes) (hexp : p.exp = some (en, eds))
    (hov : expOverflows eds = true) :
    exponentOverflow (!p.neg) ((p.int ++ p.frac.getD []).all (· == 0x30)) (!en) = convG single p := by
  obtain ⟨hed, _⟩ := wf.exp_digits en eds hexp
  have hbig := expOverflows_gt eds hed hov
  simp only [i32Max] at hbig
  have hdig : IsDigits (p.int ++ p.frac.getD []) := isDigits_append wf.int_digits wf.frac_digits
  rw [all_zero_iff _ hdig]
  have hN : natOfDigits (p.int ++ p.frac.getD []) = litN p := rfl
  rw [hN]
  by_cases h0 : litN p = 0
  · rw [convG_zero single p h0]
    have hb : (litN p == 0) = true := by simpa using h0
    unfold exponentOverflow
    rw [hb]
    simp only [Bool.not_true, Bool.false_and, Bool.false_eq_true, if_false]
    rw [zero_of_neg]
  · have hb : (litN p == 0) = false := by simpa using h0
    have hNpos : 0 < litN p := Nat.pos_of_ne_zero h0
    obtain ⟨db1, db2⟩ := digits_bounds (litN p) hNpos
    have hNlt : litN p < 10 ^ (p.int ++ p.frac.getD []).length := natOfDigits_lt _ hdig
    -- the printed length of `litN p` is at most the number of digits
    have hL : (toString (litN p)).length ≤ (p.int ++ p.frac.getD []).length := by
      by_contra hc
      have : (10 : Nat) ^ (p.int ++ p.frac.getD []).length ≤ 10 ^ ((toString (litN p)).length - 1) :=
        Nat.pow_le_pow_right (by norm_num) (by omega)
      omega
    have hfl : (p.frac.getD []).length ≤ (p.int ++ p.frac.getD []).length := by
      rw [List.length_append]; omega
    have hexact := exact_eq p
    rw [hb] at hexact
    simp only [Bool.false_eq_true, if_false] at hexact
    cases en with
    | false =>
      have hE : litE p = (natOfDigits eds : Int) - (p.frac.getD []).length := by
        unfold litE litExp; rw [hexp]; simp
      have hhuge : exact p = .huge := by
        rw [hexact, if_pos (by rw [hE]; omega)]
      unfold exponentOverflow
      rw [hb]
      simp only [Bool.not_false, Bool.and_self, if_true]
      cases single
      · unfold convG; simp only [Bool.false_eq_true, if_false]
        unfold convertRoundtrip.conv; rw [hhuge]
      · unfold convG; simp only [if_true]
        unfold convertRoundtripSingle.conv; rw [hhuge]
    | true =>
      have hE : litE p = -(natOfDigits eds : Int) - (p.frac.getD []).length := by
        unfold litE litExp; rw [hexp]; simp
      have htiny : exact p = .tiny := by
        rw [hexact, if_neg (by rw [hE]; omega), if_pos (by rw [hE]; omega)]
      unfold exponentOverflow
      rw [hb]
      simp only [Bool.not_true, Bool.and_false, Bool.false_eq_true, if_false]
      rw [zero_of_neg]
      cases single
      · unfold convG; simp only [Bool.false_eq_true, if_false]
        unfold convertRoundtrip.conv; rw [htiny]
      · unfold convG; simp only [if_true]
        unfold convertRoundtripSingle.conv; rw [htiny]

/-- off the integer classes the specification is `convG`, whatever the exponent -/
theorem specG_float_all (single : Bool) (p : Parts) (wf : WF p) (hlen : (p.int ++ p.frac.getD []).length + 20 < 2 ^ 29)
    (hic : intClass p = none) : specG single p = convG single p := by
  by_cases hfit : ExpFits p
  · exact specG_float single p hic hfit
  · unfold ExpFits at hfit
    simp only [not_forall] at hfit
    obtain ⟨en, eds, hexp, hne⟩ := hfit
    have hov : expOverflows eds = true := by simpa using hne
    rw [specG_overflow single p en eds hexp hov]
    exact exponentOverflow_eq_conv single p wf hlen en eds hexp hov

/-- **every float-path literal, every exponent: binary64** -/
theorem deFloat64_nearest_all (p : Parts) (wf : WF p) (hlen : (p.int ++ p.frac.getD []).length + 20 < 2 ^ 29)
    (hic : intClass p = none) :
    deFloatRoundtrip false p =
      match roundNE64 p.neg (toNumLit p).exact.1 (toNumLit p).exact.2 with
      | some b => .f64 b
      | none => .outOfRange := by
  rw [deFloat_eq false p wf hlen, specG_float_all false p wf hlen hic, convG_all, exact_eq_scale]
  have hF : fmtOf false = b64 := rfl
  rw [hF]
  unfold finishG
  simp only [Bool.false_eq_true, if_false]
  exact finish64_roundNE p.neg (litN p) (litE p)

/-- **every float-path literal, every exponent: binary32** -/
theorem deFloat32_nearest_all (p : Parts) (wf : WF p) (hlen : (p.int ++ p.frac.getD []).length + 20 < 2 ^ 29)
    (hic : intClass p = none) :
    deFloatRoundtrip true p =
      match roundNE32 p.neg (toNumLit p).exact.1 (toNumLit p).exact.2 with
      | some b => .f64 (F32.toF64 b)
      | none => .outOfRange := by
  rw [deFloat_eq true p wf hlen, specG_float_all true p wf hlen hic, convG_all, exact_eq_scale]
  have hF : fmtOf true = b32 := rfl
  rw [hF]
  unfold finishG
  simp only [if_true]
  exact finish32_roundNE p.neg (litN p) (litE p)

end SJ.Proofs.LexTopExp
