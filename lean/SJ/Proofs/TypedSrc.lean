import SJ.Proofs.TypedSim
import SJ.Props.C09
/-!
# The three sources of the typed model (C09, typed clause)

* slice / reader (`SR`): the runs agree, except that an error positioned by `read.position()` while a byte
  is in the peek slot (`errorIdx … (peeked := true)` on non-empty input) is reported one byte later by the
  reader. The machine sub-parsers agree outright (`runPfx_src`: every step error includes the offending
  byte — `step1_err` — and the UTF-8 check is the same on both byte sources).
* `&str` / slice (`SU`): the only difference is the UTF-8 check of decoded strings, which never fires when
  the unread input is valid UTF-8 (`runPfx_str_slice`, from `Proofs/Utf8Machine`); every typed parsing
  function consumes ASCII bytes or whole machine values, so it hands valid UTF-8 on.
-/
namespace SJ.Proofs.Typed
open SJ SJ.Gen SJ.Model SJ.Model.Typed
open SJ.Model.Machine (St Mode Frame Step step1 errIdx endNumber finishMode init Src Tgt)
open SJ.Model.Stream (skipWs)
open SJ.Spec.Utf8 (validUtf8)

/-! ## slice / reader -/

/-- slice result, reader result -/
inductive SR {α : Type} : Res α → Res α → Prop
  | same (r : Res α) : SR r r
  | errP (c : Code) (i : Nat) (h : PeekCode c) : SR (.err c i) (.err c (i + 1))
  | dataP (i : Nat) : SR (.data i) (.data (i + 1))

def eSlice (cfg : Machine.Cfg) (flt : Bool) : Env := { cfg := cfg, src := .slice, flt := flt }
def eReader (cfg : Machine.Cfg) (flt : Bool) : Env := { cfg := cfg, src := .reader, flt := flt }

theorem finishT_src (cfg : Machine.Cfg) (tgt : Tgt) (t : Nat) (s : St) :
    finishT ⟨cfg, .slice, tgt⟩ t s = finishT ⟨cfg, .reader, tgt⟩ t s := rfl

theorem runPfx_src (cfg : Machine.Cfg) (tgt : Tgt) (flt : Bool) (t : Nat) (bs : Bytes) : ∀ (s : St) (i : Nat),
    runPfx ⟨cfg, .slice, tgt⟩ flt t s i bs = runPfx ⟨cfg, .reader, tgt⟩ flt t s i bs := by
  have hstep : ∀ s b, step1 ⟨cfg, .slice, tgt⟩ s b = step1 ⟨cfg, .reader, tgt⟩ s b := SJ.Props.C09.step1_src cfg tgt
  have herr : ∀ s b c a i, step1 ⟨cfg, .reader, tgt⟩ s b = .err c a →
      errIdx ⟨cfg, .slice, tgt⟩ a i = errIdx ⟨cfg, .reader, tgt⟩ a i := by
    intro s b c a i h
    have := (SJ.Proofs.Machine.step1_err _ _ _ _ _ h).1
    subst this; rfl
  induction bs with
  | nil => intro s i; simp only [runPfx, finishT_src]
  | cons b bs ih =>
    intro s i
    simp only [runPfx]
    rw [hstep]
    cases h : step1 ⟨cfg, .reader, tgt⟩ s b with
    | err c a => simp only [herr _ _ _ _ _ h]
    | next s' =>
      dsimp only
      cases completed t s' with
      | some v => rfl
      | none => exact ih _ _
    | again s' =>
      dsimp only
      cases completed t s' with
      | some v => rfl
      | none =>
        dsimp only
        rw [hstep]
        cases h2 : step1 ⟨cfg, .reader, tgt⟩ s' b with
        | err c a => simp only [herr _ _ _ _ _ h2]
        | next s'' =>
          dsimp only
          cases completed t s'' with
          | some v => rfl
          | none => exact ih _ _
        | again s'' => rfl

theorem errorIdx_slice (cfg : Machine.Cfg) (flt : Bool) (r : Bytes) (p : Nat) (pk : Bool) : errorIdx (eSlice cfg flt) r p pk = p := rfl

theorem errorIdx_reader (cfg : Machine.Cfg) (flt : Bool) (r : Bytes) (p : Nat) (pk : Bool) :
    errorIdx (eReader cfg flt) r p pk = if pk && !r.isEmpty then p + 1 else p := by
  unfold errorIdx eReader
  simp

theorem sim_slice_reader (cfg : Machine.Cfg) (flt : Bool) : Sim (eSlice cfg flt) (eReader cfg flt) (fun _ => True) SR where
  cfg := rfl
  vcut := fun _ _ _ _ _ => trivial
  ok := fun _ _ _ _ => .same _
  err := fun _ _ => .same _
  data := fun _ => .same _
  raw := fun _ _ => .same _
  fuel := .same _
  handle := by
    intro α β r1 r2 k1 k2 h1 h2 hr hk hh
    cases hr with
    | same =>
      cases r1 with
      | ok a r p => exact hk a r p rfl rfl trivial
      | raw r p => exact hh r p rfl rfl
      | err c i => exact .same _
      | data i => exact .same _
      | io => exact .same _
      | fuel => exact .same _
    | errP c i h => exact .errP c i h
    | dataP i => exact .dataP i
  eof := fun _ _ => .same _
  flt := by
    intro α x1 x2 h
    cases flt
    · exact h
    · exact .same _
  dataIdx := by
    intro α r p pk
    rw [errorIdx_slice, errorIdx_reader]
    split
    · exact .dataP p
    · exact .same _
  errIdx := by
    intro α c r p pk hc
    rw [errorIdx_slice, errorIdx_reader]
    split
    · exact .errP c p hc
    · exact .same _
  mach := by
    intro tgt t s r p _ _
    unfold machine
    show SR (match runPfx ⟨cfg, .slice, tgt⟩ flt t s p r with | .ok v e => _ | .err c i => _ | .io => _)
      (match runPfx ⟨cfg, .reader, tgt⟩ flt t s p r with | .ok v e => _ | .err c i => _ | .io => _)
    rw [runPfx_src]
    exact .same _

/-- slice and reader runs of `deTyped` -/
theorem sr_deTyped (cfg : Machine.Cfg) (flt : Bool) (f t : Nat) (s : Schema) (rest : Bytes) (pos : Nat) :
    SR (deTyped (eSlice cfg flt) f t s rest pos) (deTyped (eReader cfg flt) f t s rest pos) :=
  sim_deTyped (sim_slice_reader cfg flt) f t s rest pos trivial

/-! ## `&str` / slice -/

def eStr (cfg : Machine.Cfg) (flt : Bool) : Env := { cfg := cfg, src := .str, flt := flt }

/-- equal results, and a success leaves valid UTF-8 unread -/
def SU {α : Type} (r1 r2 : Res α) : Prop := r1 = r2 ∧ ∀ a r p, r1 = .ok a r p → validUtf8 r = true

theorem uinv_completed (t : Nat) (s : St) (v : JV) (r : Bytes) (hc : completed t s = some v) (h : Utf8.UInv s r) :
    validUtf8 r = true := by
  unfold completed at hc
  unfold Utf8.UInv at h
  split at hc
  · rename_i hm; rw [hm] at h; exact h
  · rename_i hm; rw [hm] at h; exact h
  · cases hc

theorem runPfx_str_slice (cfg : Machine.Cfg) (tgt : Tgt) (flt : Bool) (t : Nat) (bs : Bytes) : ∀ (s : St) (i : Nat), Utf8.UInv s bs →
    runPfx ⟨cfg, .str, tgt⟩ flt t s i bs = runPfx ⟨cfg, .slice, tgt⟩ flt t s i bs ∧
    ∀ v e, runPfx ⟨cfg, .slice, tgt⟩ flt t s i bs = .ok v e → validUtf8 (bs.drop (e - i)) = true := by
  have herr : ∀ a i, errIdx ⟨cfg, .str, tgt⟩ a i = errIdx ⟨cfg, .slice, tgt⟩ a i := fun a i => by cases a <;> rfl
  induction bs with
  | nil =>
    intro s i _
    refine ⟨?_, fun _ _ _ => by rw [List.drop_nil]; rfl⟩
    simp only [runPfx]
    rfl
  | cons b bs ih =>
    intro s i h
    have h1 : step1 ⟨cfg, .str, tgt⟩ s b = step1 ⟨cfg, .slice, tgt⟩ s b := Utf8.step1_src_eq cfg tgt s b bs h
    have hu := Utf8.step1_uinv ⟨cfg, .slice, tgt⟩ s b bs h
    simp only [runPfx]
    rw [h1]
    cases hs : step1 ⟨cfg, .slice, tgt⟩ s b with
    | err c a => exact ⟨by simp only [herr], fun v e he => by simp at he⟩
    | next s' =>
      rw [hs] at hu
      dsimp only
      cases hc : completed t s' with
      | some v =>
        refine ⟨rfl, fun v' e he => ?_⟩
        simp only [MOut.ok.injEq] at he
        obtain ⟨_, rfl⟩ := he
        simpa using uinv_completed t s' v bs hc hu
      | none =>
        refine ⟨(ih _ _ hu).1, fun v e he => ?_⟩
        have hge := runPfx_ge _ _ _ _ _ _ _ _ he
        have := (ih _ _ hu).2 v e he
        have hd : e - i = (e - (i + 1)) + 1 := by omega
        rw [hd, List.drop_succ_cons]
        exact this
    | again s' =>
      rw [hs] at hu
      dsimp only
      cases hc : completed t s' with
      | some v =>
        refine ⟨rfl, fun v' e he => ?_⟩
        simp only [MOut.ok.injEq] at he
        obtain ⟨_, rfl⟩ := he
        simpa using uinv_completed t s' v (b :: bs) hc hu
      | none =>
        dsimp only
        have h2 : step1 ⟨cfg, .str, tgt⟩ s' b = step1 ⟨cfg, .slice, tgt⟩ s' b := Utf8.step1_src_eq cfg tgt s' b bs hu
        have hu2 := Utf8.step1_uinv ⟨cfg, .slice, tgt⟩ s' b bs hu
        rw [h2]
        cases hs2 : step1 ⟨cfg, .slice, tgt⟩ s' b with
        | err c a => exact ⟨by simp only [herr], fun v e he => by simp at he⟩
        | next s'' =>
          rw [hs2] at hu2
          dsimp only
          cases hc2 : completed t s'' with
          | some v =>
            refine ⟨rfl, fun v' e he => ?_⟩
            simp only [MOut.ok.injEq] at he
            obtain ⟨_, rfl⟩ := he
            simpa using uinv_completed t s'' v bs hc2 hu2
          | none =>
            refine ⟨(ih _ _ hu2).1, fun v e he => ?_⟩
            have hge := runPfx_ge _ _ _ _ _ _ _ _ he
            have := (ih _ _ hu2).2 v e he
            have hd : e - i = (e - (i + 1)) + 1 := by omega
            rw [hd, List.drop_succ_cons]
            exact this
        | again s'' => exact ⟨rfl, fun v e he => by simp at he⟩

theorem uinv_start (s : St) (r : Bytes) (hs : StartSt s) (hv : validUtf8 r = true) : Utf8.UInv s r := by
  unfold Utf8.UInv
  rcases hs with h | h <;> rw [h]
  · exact hv
  · simpa using hv

theorem errorIdx_str (cfg : Machine.Cfg) (flt : Bool) (r : Bytes) (p : Nat) (pk : Bool) : errorIdx (eStr cfg flt) r p pk = p := rfl

theorem su_refl {α : Type} (r : Res α) (h : ∀ a r' p, r = .ok a r' p → validUtf8 r' = true) : SU r r := ⟨rfl, h⟩

theorem sim_str_slice (cfg : Machine.Cfg) (flt : Bool) :
    Sim (eStr cfg flt) (eSlice cfg flt) (fun r => validUtf8 r = true) SU where
  cfg := rfl
  vcut := fun _ _ _ hc h => (Utf8.validUtf8_cut_after hc h).2
  ok := fun _ _ _ hv => ⟨rfl, fun _ _ _ e => by cases e; exact hv⟩
  err := fun _ _ => ⟨rfl, fun _ _ _ e => by cases e⟩
  data := fun _ => ⟨rfl, fun _ _ _ e => by cases e⟩
  raw := fun _ _ => ⟨rfl, fun _ _ _ e => by cases e⟩
  fuel := ⟨rfl, fun _ _ _ e => by cases e⟩
  handle := by
    intro α β r1 r2 k1 k2 h1 h2 hr hk hh
    obtain ⟨rfl, hok⟩ := hr
    cases r1 with
    | ok a r p => exact hk a r p rfl rfl (hok a r p rfl)
    | raw r p => exact hh r p rfl rfl
    | err c i => exact ⟨rfl, fun _ _ _ e => by cases e⟩
    | data i => exact ⟨rfl, fun _ _ _ e => by cases e⟩
    | io => exact ⟨rfl, fun _ _ _ e => by cases e⟩
    | fuel => exact ⟨rfl, fun _ _ _ e => by cases e⟩
  eof := fun c p => ⟨rfl, fun a r p' e => absurd e (atEof_ne_ok _ _ _ _ _ _)⟩
  flt := by
    intro α x1 x2 h
    cases flt
    · exact h
    · exact ⟨rfl, fun _ _ _ e => by cases e⟩
  dataIdx := fun _ _ _ => ⟨rfl, fun _ _ _ e => by cases e⟩
  errIdx := fun _ _ _ _ _ => ⟨rfl, fun _ _ _ e => by cases e⟩
  mach := by
    intro tgt t s r p hv hs
    have h := runPfx_str_slice cfg tgt flt t r s p (uinv_start s r hs hv)
    unfold machine
    show SU (match runPfx ⟨cfg, .str, tgt⟩ flt t s p r with | .ok v e => _ | .err c i => _ | .io => _)
      (match runPfx ⟨cfg, .slice, tgt⟩ flt t s p r with | .ok v e => _ | .err c i => _ | .io => _)
    rw [h.1]
    refine ⟨rfl, fun a r' p' e => ?_⟩
    split at e
    · rename_i v e' he
      cases e
      exact h.2 _ _ he
    · cases e
    · cases e

/-- `&str` and slice runs of `deTyped` on valid UTF-8 -/
theorem su_deTyped (cfg : Machine.Cfg) (flt : Bool) (f t : Nat) (s : Schema) (rest : Bytes) (pos : Nat) (hv : validUtf8 rest = true) :
    deTyped (eStr cfg flt) f t s rest pos = deTyped (eSlice cfg flt) f t s rest pos :=
  (sim_deTyped (sim_str_slice cfg flt) f t s rest pos hv).1

end SJ.Proofs.Typed
