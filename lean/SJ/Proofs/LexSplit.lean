import SJ.Proofs.NumInt
import SJ.Model.Lexical
import Mathlib.Tactic.Ring
import Mathlib.Tactic.Linarith
/-!
# C07 layer (i): what `de.rs` presents to lexical denotes exactly the literal

`deCall p` (the digit collection of `parse_integer`, `parse_decimal`, `parse_decimal_overflow`,
`parse_long_integer/decimal/exponent`, with the scratch buffer and `integer_end`) ends in a leaf whose
arguments carry the literal's digits `litN p` and decimal exponent `litE p` exactly
(`Call.Presents`); this is where an integration bug (split off by one, zeros miscounted, exponent
sign) would show.
-/
namespace SJ.Proofs.LexSplit
open SJ SJ.Model.Num SJ.Model.Lexical SJ.Proofs.NumInt

/-! ## digit strings -/

theorem val_eq (sig : Nat) (ds : Bytes) : val sig ds = sig * 10 ^ ds.length + natOfDigits ds := by
  induction ds generalizing sig with
  | nil => simp [val, natOfDigits]
  | cons c cs ih =>
    have h2 : natOfDigits (c :: cs) = (0 * 10 + dig c) * 10 ^ cs.length + natOfDigits cs := by
      rw [natOfDigits_eq_val, val_cons, ih]
    rw [val_cons, ih, h2]
    simp only [List.length_cons, Nat.pow_succ]
    ring

theorem natOfDigits_append (a b : Bytes) :
    natOfDigits (a ++ b) = natOfDigits a * 10 ^ b.length + natOfDigits b := by
  rw [natOfDigits_eq_val, val_append, ← natOfDigits_eq_val, val_eq]

theorem natOfDigits_nil : natOfDigits [] = 0 := rfl

theorem natOfDigits_replicate_zero (n : Nat) : natOfDigits (List.replicate n 0x30) = 0 := by
  induction n with
  | zero => rfl
  | succ n ih =>
    rw [List.replicate_succ, natOfDigits_eq_val, val_cons, ← natOfDigits_eq_val] at *
    simpa [dig, val_eq] using ih

theorem isDigits_append {a b : Bytes} (ha : IsDigits a) (hb : IsDigits b) : IsDigits (a ++ b) := by
  intro c hc; rcases List.mem_append.1 hc with h | h
  · exact ha c h
  · exact hb c h

theorem isDigits_of_append_left {a b : Bytes} (h : IsDigits (a ++ b)) : IsDigits a :=
  fun c hc => h c (List.mem_append_left _ hc)

theorem isDigits_of_append_right {a b : Bytes} (h : IsDigits (a ++ b)) : IsDigits b :=
  fun c hc => h c (List.mem_append_right _ hc)

theorem isDigits_replicate_zero (n : Nat) : IsDigits (List.replicate n 0x30) := by
  intro c hc; rw [List.mem_replicate] at hc; rw [hc.2]; decide

theorem isDigits_take {a : Bytes} (h : IsDigits a) (n : Nat) : IsDigits (a.take n) :=
  fun c hc => h c (List.mem_of_mem_take hc)

theorem isDigits_drop {a : Bytes} (h : IsDigits a) (n : Nat) : IsDigits (a.drop n) :=
  fun c hc => h c (List.mem_of_mem_drop hc)

/-! ## `itoa` -/

theorem digit_byte (k : Nat) (hk : k < 10) :
    dig (0x30 + k).toUInt8 = k ∧ (0x30 : UInt8) ≤ (0x30 + k).toUInt8 ∧ (0x30 + k).toUInt8 ≤ 0x39 ∧
    (0 < k → (0x30 + k).toUInt8 ≠ 0x30) := by
  have : ∀ k : Fin 10, dig (0x30 + k.1).toUInt8 = k.1 ∧ (0x30 : UInt8) ≤ (0x30 + k.1).toUInt8 ∧
      (0x30 + k.1).toUInt8 ≤ 0x39 ∧ (0 < k.1 → (0x30 + k.1).toUInt8 ≠ 0x30) := by decide
  exact this ⟨k, hk⟩

theorem itoaAux_spec (fuel n : Nat) (acc : Bytes) (hn : n < 10 ^ fuel) (hf : 0 < fuel) (hacc : IsDigits acc) :
    natOfDigits (itoaAux fuel n acc) = n * 10 ^ acc.length + natOfDigits acc ∧
    IsDigits (itoaAux fuel n acc) ∧
    (0 < n → ∀ d r, itoaAux fuel n acc = d :: r → d ≠ 0x30) ∧
    (itoaAux fuel n acc).length ≤ fuel + acc.length ∧ acc.length < (itoaAux fuel n acc).length := by
  induction fuel generalizing n acc with
  | zero => omega
  | succ fuel ih =>
    have hk : n % 10 < 10 := Nat.mod_lt _ (by decide)
    obtain ⟨hd1, hd2, hd3, hd4⟩ := digit_byte (n % 10) hk
    have hacc' : IsDigits ((0x30 + n % 10).toUInt8 :: acc) := by
      intro c hc; rcases List.mem_cons.1 hc with h | h
      · rw [h]; exact ⟨hd2, hd3⟩
      · exact hacc c h
    have hval : natOfDigits ((0x30 + n % 10).toUInt8 :: acc) = n % 10 * 10 ^ acc.length + natOfDigits acc := by
      rw [natOfDigits_eq_val, val_cons, val_eq, hd1]; ring
    rw [itoaAux]
    by_cases hz : n / 10 = 0
    · simp only [hz, beq_self_eq_true, if_true]
      have hn10 : n % 10 = n := by omega
      refine ⟨by rw [hval, hn10], hacc', ?_, by simp; omega, by simp⟩
      intro hpos d r h
      injection h with h1 _
      rw [← h1]; exact hd4 (by omega)
    · have hne : (n / 10 == 0) = false := by simpa using hz
      simp only [hne, Bool.false_eq_true, if_false]
      have hfuel : 0 < fuel := by
        rcases Nat.eq_zero_or_pos fuel with h | h
        · subst h; simp at hn; omega
        · exact h
      have hlt : n / 10 < 10 ^ fuel := by
        rw [Nat.pow_succ] at hn; omega
      obtain ⟨i1, i2, i3, i4, i5⟩ := ih (n / 10) _ hlt hfuel hacc'
      refine ⟨?_, i2, fun _ => i3 (by omega), by simp at i4 ⊢; omega, by simp at i5 ⊢; omega⟩
      rw [i1, hval, List.length_cons, Nat.pow_succ]
      have hq := Nat.div_add_mod n 10
      calc n / 10 * (10 ^ acc.length * 10) + (n % 10 * 10 ^ acc.length + natOfDigits acc)
          = (10 * (n / 10) + n % 10) * 10 ^ acc.length + natOfDigits acc := by ring
        _ = n * 10 ^ acc.length + natOfDigits acc := by rw [hq]

theorem itoa_spec (n : Nat) (hn : n < 2 ^ 64) :
    natOfDigits (itoa n) = n ∧ IsDigits (itoa n) ∧ (0 < n → ∀ d r, itoa n = d :: r → d ≠ 0x30) ∧
    (itoa n).length ≤ 20 ∧ 0 < (itoa n).length := by
  have h := itoaAux_spec 20 n [] (by omega) (by decide) (by intro c hc; cases hc)
  simpa [itoa, natOfDigits_nil] using h

/-! ## the digit loops -/

theorem goInt_spec (sig : Nat) (ds : Bytes) (hd : IsDigits ds) (hs : sig ≤ u64Max) :
    (goInt sig ds = (val sig ds, none) ∧ val sig ds ≤ u64Max) ∨
    (∃ pre c post, ds = pre ++ c :: post ∧ val sig pre ≤ u64Max ∧ val sig pre * 10 + dig c > u64Max ∧
      goInt sig ds = (val sig pre, some (c :: post))) := by
  induction ds generalizing sig with
  | nil => left; exact ⟨rfl, hs⟩
  | cons c cs ih =>
    have hc := dig_lt_10 c (hd c (List.mem_cons_self ..))
    have hcs : IsDigits cs := fun x hx => hd x (List.mem_cons_of_mem _ hx)
    rw [goInt, overflowMacro_spec _ _ _ hc]
    by_cases hov : sig * 10 + dig c > u64Max
    · right; exact ⟨[], c, cs, rfl, hs, hov, by simp [hov, val]⟩
    · simp only [hov, decide_false, Bool.false_eq_true, if_false]
      rcases ih (sig * 10 + dig c) hcs (by omega) with ⟨h1, h2⟩ | ⟨pre, c', post, rfl, h1, h2, h3⟩
      · left; exact ⟨by rw [h1, val_cons], by rw [val_cons]; exact h2⟩
      · right; exact ⟨c :: pre, c', post, rfl, by rw [val_cons]; exact h1, by rw [val_cons]; exact h2, by rw [h3, val_cons]⟩

/-- the exponent digits: `expDigits` fails exactly when `Model.Num.expOverflows` says so, and otherwise
    returns their value (`≤ i32::MAX`) -/
theorem expDigits_go_spec (exp : Nat) (cs : Bytes) (hd : IsDigits cs) (he : exp ≤ i32Max) :
    (expDigits.go exp cs = none ∧ expOverflows.go exp cs = true) ∨
    (expDigits.go exp cs = some (val exp cs) ∧ expOverflows.go exp cs = false ∧ val exp cs ≤ i32Max) := by
  induction cs generalizing exp with
  | nil => right; exact ⟨rfl, rfl, he⟩
  | cons c cs ih =>
    have hc := dig_lt_10 c (hd c (List.mem_cons_self ..))
    have hcs : IsDigits cs := fun x hx => hd x (List.mem_cons_of_mem _ hx)
    rw [expDigits.go, expOverflows.go, overflowMacro_spec _ _ _ hc]
    by_cases hov : exp * 10 + dig c > i32Max
    · left; simp [hov]
    · simp only [hov, decide_false, Bool.false_eq_true, if_false, val_cons]
      exact ih _ hcs (by omega)

theorem expDigits_spec (eds : Bytes) (hd : IsDigits eds) (hne : eds ≠ []) :
    (expDigits eds = none ∧ expOverflows eds = true) ∨
    (expDigits eds = some (natOfDigits eds) ∧ expOverflows eds = false ∧ natOfDigits eds ≤ i32Max) := by
  cases eds with
  | nil => exact absurd rfl hne
  | cons d rest =>
    have hc := dig_lt_10 d (hd d (List.mem_cons_self ..))
    have hcs : IsDigits rest := fun x hx => hd x (List.mem_cons_of_mem _ hx)
    have := expDigits_go_spec (dig d) rest hcs (by simp [i32Max]; omega)
    rw [expDigits, expOverflows, natOfDigits_eq_val, val_cons]
    simpa using this

/-! ## what a call presents -/

/-- digits of the literal: `|literal| = litN p · 10^(litE p)` -/
def litN (p : Parts) : Nat := natOfDigits (p.int ++ p.frac.getD [])
/-- the written exponent -/
def litExp (p : Parts) : Int :=
  match p.exp with
  | some (en, eds) => if en then -(natOfDigits eds : Int) else natOfDigits eds
  | none => 0
def litE (p : Parts) : Int := litExp p - (p.frac.getD []).length

/-- no exponent, or one whose digits pass the `i32` guard -/
def ExpFits (p : Parts) : Prop := ∀ en eds, p.exp = some (en, eds) → expOverflows eds = false

/-- well-formedness of a scanned literal (what the grammar / the machine guarantee) -/
structure WF (p : Parts) : Prop where
  int_digits : IsDigits p.int
  int_nolead : ∀ d r, p.int = d :: r → r ≠ [] → d ≠ 0x30
  int_ne : p.int ≠ []
  frac_digits : IsDigits (p.frac.getD [])
  frac_small : (p.frac.getD []).length < 2 ^ 31
  exp_digits : ∀ en eds, p.exp = some (en, eds) → IsDigits eds ∧ eds ≠ []

/-- **what `de.rs` hands over denotes the literal exactly.** -/
def Presents (single : Bool) (p : Parts) : Call → Prop
  | .number r =>
    p.frac = none ∧ p.exp = none ∧ litN p ≤ u64Max ∧
    r = (if !p.neg then .u64 (litN p)
         else if 0 < litN p ∧ litN p ≤ 2 ^ 63 then .i64 (-(litN p : Int))
         else .f64 (if single then Spec.Ieee.F32.toF64 (Spec.Ieee.F32.neg (Spec.Ieee.F32.ofU64 (litN p)))
                   else Spec.Ieee.F64.neg (Spec.Ieee.F64.ofU64 (litN p))))
  | .expOverflow zeroSig positiveExp =>
    ∃ en eds, p.exp = some (en, eds) ∧ expOverflows eds = true ∧ zeroSig = (litN p == 0) ∧ positiveExp = !en
  | .concise sig e => sig = litN p ∧ sig ≤ u64Max ∧ e = satI32 (litE p) ∧ ExpFits p
  | .truncated integer fraction e =>
    natOfDigits (integer ++ fraction) = litN p ∧ e - fraction.length = litE p ∧
    IsDigits integer ∧ IsDigits fraction ∧ u64Max < litN p ∧
    (∀ d r, integer = d :: r → d ≠ 0x30) ∧ -(2 ^ 31 : Int) < e ∧ e < 2 ^ 31 ∧ ExpFits p ∧
    integer.length + fraction.length ≤ (p.int ++ p.frac.getD []).length + 20

theorem negClass {α : Type} (A : α) (B : Int → α) (n : Nat) (h : n < 2 ^ 64) :
    (let asI64 : Int := if n ≥ 2 ^ 63 then (n : Int) - 2 ^ 64 else n
     let negv : Int := if asI64 == -(2 ^ 63) then asI64 else -asI64
     if negv ≥ 0 then A else B negv) = if 0 < n ∧ n ≤ 2 ^ 63 then B (-(n : Int)) else A := by
  dsimp only
  by_cases h1 : n ≥ 2 ^ 63
  · rw [if_pos h1]
    by_cases h2 : n = 2 ^ 63
    · subst h2; norm_num
    · have h4 : (((n : Int) - 2 ^ 64) == -(2 ^ 63)) = false := by
        rw [beq_eq_false_iff_ne]; omega
      rw [h4]
      simp only [Bool.false_eq_true, if_false]
      rw [if_pos (by omega), if_neg (by omega)]
  · rw [if_neg h1]
    have h4 : ((n : Int) == -(2 ^ 63)) = false := by rw [beq_eq_false_iff_ne]; omega
    rw [h4]
    simp only [Bool.false_eq_true, if_false]
    by_cases h0 : n = 0
    · subst h0; simp
    · rw [if_neg (by omega), if_pos (by omega)]

theorem natOfDigits_all_zero (ds : Bytes) (h : ds.all (· == 0x30) = true) : natOfDigits ds = 0 := by
  induction ds with
  | nil => rfl
  | cons c cs ih =>
    simp only [List.all_cons, Bool.and_eq_true, beq_iff_eq] at h
    rw [natOfDigits_eq_val, val_cons, val_eq, ih h.2, h.1]
    simp [dig]

theorem satI32_id (x : Int) (h1 : -2147483648 ≤ x) (h2 : x ≤ 2147483647) : satI32 x = x := by
  unfold satI32; split <;> [omega; (split <;> omega)]

/-- the common tail of the long path: `parse_long_exponent` / `f64_long_from_parts` on a scratch buffer that
    holds the literal's digits, split so that the fraction has as many digits as the literal's -/
theorem long_presents (single : Bool) (p : Parts) (wf : WF p) (scratch : Bytes) (ie : Nat)
    (hN : natOfDigits scratch = litN p) (hie : ie ≤ scratch.length)
    (hF : scratch.length - ie = (p.frac.getD []).length) (hd : IsDigits scratch) (hbig : u64Max < litN p)
    (hhead : ∀ d r, scratch.take ie = d :: r → d ≠ 0x30)
    (hsl : scratch.length ≤ (p.int ++ p.frac.getD []).length + 20) :
    Presents single p (match p.exp with
      | some (en, eds) => parseLongExponent scratch ie en eds
      | none => f64LongFromParts scratch ie 0) := by
  have hsplit : natOfDigits (scratch.take ie ++ scratch.drop ie) = litN p := by rw [List.take_append_drop]; exact hN
  have hlen : (scratch.drop ie).length = (p.frac.getD []).length := by rw [List.length_drop]; exact hF
  have hlens : (scratch.take ie).length + (scratch.drop ie).length ≤ (p.int ++ p.frac.getD []).length + 20 := by
    rw [List.length_take, List.length_drop]; omega
  cases hexp : p.exp with
  | none =>
    refine ⟨hsplit, ?_, isDigits_take hd _, isDigits_drop hd _, hbig, hhead, by norm_num, by norm_num, ?_, hlens⟩
    · simp [litE, litExp, hexp, hlen]
    · intro en eds h; rw [hexp] at h; cases h
  | some e =>
    obtain ⟨en, eds⟩ := e
    obtain ⟨hed, hene⟩ := wf.exp_digits en eds hexp
    simp only [parseLongExponent]
    rcases expDigits_spec eds hed hene with ⟨h1, h2⟩ | ⟨h1, h2, h3⟩
    · rw [h1]
      refine ⟨en, eds, hexp, h2, ?_, rfl⟩
      have hz : scratch.all (· == 0x30) = false := by
        by_contra hc
        have := natOfDigits_all_zero scratch (by simpa using hc)
        rw [hN] at this; omega
      have hnz : (litN p == 0) = false := by simp; omega
      rw [hz, hnz]
    · rw [h1]
      simp only [f64LongFromParts]
      have hfit : ExpFits p := by
        intro en' eds' h; rw [hexp] at h; cases h; exact h2
      simp only [i32Max] at h3
      refine ⟨hsplit, ?_, isDigits_take hd _, isDigits_drop hd _, hbig, hhead, ?_, ?_, hfit, hlens⟩
      · simp only [litE, litExp, hexp, hlen]
        cases en <;> simp
      · cases en <;> simp <;> omega
      · cases en <;> simp <;> omega

/-- the tail of the short path: `parse_exponent` / `f64_from_parts` once every digit is in `sig` -/
theorem short_presents (single : Bool) (p : Parts) (wf : WF p) (sig : Nat) (hN : sig = litN p) (hs : sig ≤ u64Max) :
    Presents single p (match p.exp with
      | some (en, eds) => Model.Lexical.parseExponent sig (-((p.frac.getD []).length : Int)) en eds
      | none => .concise sig (-((p.frac.getD []).length : Int))) := by
  have hfs := wf.frac_small
  cases hexp : p.exp with
  | none =>
    refine ⟨hN, hs, ?_, ?_⟩
    · simp only [litE, litExp, hexp]
      rw [satI32_id] <;> omega
    · intro en eds h; rw [hexp] at h; cases h
  | some e =>
    obtain ⟨en, eds⟩ := e
    obtain ⟨hed, hene⟩ := wf.exp_digits en eds hexp
    simp only [Model.Lexical.parseExponent]
    rcases expDigits_spec eds hed hene with ⟨h1, h2⟩ | ⟨h1, h2, h3⟩
    · rw [h1]; exact ⟨en, eds, hexp, h2, by rw [hN], rfl⟩
    · rw [h1]
      have hfit : ExpFits p := by
        intro en' eds' h; rw [hexp] at h; cases h; exact h2
      refine ⟨hN, hs, ?_, hfit⟩
      simp only [litE, litExp, hexp]
      cases en <;> simp <;> congr 1 <;> omega

theorem parseDecimalGo_presents (single : Bool) (p : Parts) (wf : WF p) (fds : Bytes) (hfr : p.frac = some fds)
    (consumed ds : Bytes) (hsplit : fds = consumed ++ ds) (sig : Nat)
    (hsig : sig = natOfDigits (p.int ++ consumed)) (hs : sig ≤ u64Max) :
    Presents single p (parseDecimalGo p.exp sig (-(consumed.length : Int)) ds) := by
  have hfd : IsDigits fds := by have := wf.frac_digits; rwa [hfr] at this
  induction ds generalizing consumed sig with
  | nil =>
    rw [List.append_nil] at hsplit
    have hN : sig = litN p := by rw [hsig, litN, hfr, hsplit]; rfl
    have := short_presents single p wf sig hN hs
    rw [hfr] at this
    simp only [Option.getD_some, hsplit] at this
    simp only [parseDecimalGo]
    cases hexp : p.exp with
    | none => simpa [hexp] using this
    | some e => obtain ⟨en, eds⟩ := e; simpa [hexp] using this
  | cons c cs ih =>
    have hcd : IsDigits (c :: cs) := isDigits_of_append_right (hsplit ▸ hfd)
    have hc := dig_lt_10 c (hcd c (List.mem_cons_self ..))
    simp only [parseDecimalGo]
    rw [overflowMacro_spec _ _ _ hc]
    by_cases hov : sig * 10 + dig c > u64Max
    · simp only [hov, decide_true, if_true]
      -- parse_decimal_overflow
      have hs64 : sig < 2 ^ 64 := by simp [u64Max] at hs; omega
      obtain ⟨i1, i2, i3, i4, i5⟩ := itoa_spec sig hs64
      have hpos : 0 < sig := by simp [u64Max] at hov; omega
      simp only [parseDecimalOverflow, parseLongDecimal]
      have hk : (-(-(consumed.length : Int))).toNat = consumed.length := by simp
      rw [hk]
      have hlitN : litN p = sig * 10 ^ (c :: cs).length + natOfDigits (c :: cs) := by
        rw [litN, hfr, Option.getD_some, hsplit, ← List.append_assoc, natOfDigits_append, ← hsig]
      have hbig : u64Max < litN p := by
        rw [hlitN]
        have h10 : 10 ^ (c :: cs).length = 10 * 10 ^ cs.length := by rw [List.length_cons, Nat.pow_succ]; ring
        have hp : 1 ≤ 10 ^ cs.length := Nat.one_le_pow _ _ (by decide)
        have h3 : natOfDigits (c :: cs) = dig c * 10 ^ cs.length + natOfDigits cs := by
          rw [natOfDigits_eq_val, val_cons, val_eq]; simp
        rw [h10, h3]
        nlinarith [Nat.zero_le (natOfDigits cs), Nat.zero_le (dig c), Nat.zero_le sig]
      have key : ∀ zeros : Bytes, IsDigits zeros → natOfDigits zeros = 0 → zeros.length ≤ consumed.length →
          consumed.length ≤ (zeros ++ itoa sig).length →
          (∀ d r, (zeros ++ itoa sig).take ((zeros ++ itoa sig).length - consumed.length) = d :: r → d ≠ 0x30) →
          Presents single p (match p.exp with
            | some (en, eds) => parseLongExponent (zeros ++ itoa sig ++ c :: cs) ((zeros ++ itoa sig).length - consumed.length) en eds
            | none => f64LongFromParts (zeros ++ itoa sig ++ c :: cs) ((zeros ++ itoa sig).length - consumed.length) 0) := by
        intro zeros hzd hzv hzl hge hhead
        refine long_presents single p wf ((zeros ++ itoa sig) ++ c :: cs) ((zeros ++ itoa sig).length - consumed.length)
          (by rw [natOfDigits_append, natOfDigits_append, hzv, i1, hlitN]; simp)
          (by simp only [List.length_append]; omega)
          (by rw [hfr, Option.getD_some, hsplit]; simp only [List.length_append, List.length_cons] at hge ⊢; omega)
          (isDigits_append (isDigits_append hzd i2) hcd) hbig ?_ ?_
        rotate_left
        · rw [hfr, Option.getD_some, hsplit]
          simp only [List.length_append, List.length_cons] at hzl ⊢
          omega
        intro d r htake
        rw [List.take_append_of_le_length (by omega)] at htake
        exact hhead d r htake
      by_cases hcase : consumed.length ≥ (itoa sig).length + 1
      · rw [if_pos hcase]
        have := key (List.replicate (consumed.length - ((itoa sig).length + 1) + 1) 0x30)
          (isDigits_replicate_zero _) (natOfDigits_replicate_zero _)
          (by simp only [List.length_replicate]; omega)
          (by simp only [List.length_append, List.length_replicate]; omega)
          (by
            intro d r htake
            have : (List.replicate (consumed.length - ((itoa sig).length + 1) + 1) (0x30 : UInt8) ++ itoa sig).length - consumed.length = 0 := by
              simp only [List.length_append, List.length_replicate]; omega
            rw [this] at htake; simp at htake)
        cases hexp : p.exp with
        | none => simpa [hexp] using this
        | some e => obtain ⟨en, eds⟩ := e; simpa [hexp] using this
      · rw [if_neg hcase]
        have := key [] (by intro c hc; cases hc) rfl (by simp)
          (by simp only [List.nil_append]; omega)
          (by
            intro d r htake
            rw [List.nil_append] at htake
            cases hit : itoa sig with
            | nil => rw [hit] at i5; simp at i5
            | cons d' r' =>
              rw [hit] at htake
              cases hn : (d' :: r').length - consumed.length with
              | zero => rw [hn] at htake; simp at htake
              | succ m =>
                rw [hn, List.take_succ_cons] at htake
                injection htake with h1 _
                rw [← h1]; exact i3 hpos d' r' hit)
        cases hexp : p.exp with
        | none => simpa [hexp] using this
        | some e => obtain ⟨en, eds⟩ := e; simpa [hexp] using this
    · simp only [hov, decide_false, Bool.false_eq_true, if_false]
      have := ih (consumed ++ [c]) (by rw [hsplit]; simp) (sig * 10 + dig c)
        (by rw [← List.append_assoc, natOfDigits_append, ← hsig]; simp [natOfDigits])
        (by omega)
      have e : (-(consumed.length : Int) - 1) = -((consumed ++ [c]).length : Int) := by
        simp only [List.length_append, List.length_cons, List.length_nil]; omega
      rw [e]; exact this

/-- **c07_split.** For every well-formed literal, the leaf `de.rs` reaches and the arguments it passes denote
    the literal exactly. -/
theorem deCall_presents (single : Bool) (p : Parts) (wf : WF p) : Presents single p (deCall single p) := by
  unfold deCall
  rcases goInt_spec 0 p.int wf.int_digits (by simp [u64Max]) with ⟨h1, h2⟩ | ⟨pre, c, post, hint, h1, h2, h3⟩
  · -- every integer digit fits
    rw [h1]
    have hv : val 0 p.int = natOfDigits p.int := rfl
    rw [hv] at h2 ⊢
    cases hfr : p.frac with
    | some fds =>
      simp only [Model.Lexical.parseDecimal]
      have := parseDecimalGo_presents single p wf fds hfr [] fds rfl (natOfDigits p.int) (by simp) h2
      simpa using this
    | none =>
      have hN : natOfDigits p.int = litN p := by simp [litN, hfr]
      cases hexp : p.exp with
      | some e =>
        obtain ⟨en, eds⟩ := e
        have := short_presents single p wf (natOfDigits p.int) hN h2
        simpa [hexp, hfr] using this
      | none =>
        have h64 := h2
        simp only [u64Max] at h64
        cases hneg : p.neg
        · simp only [Bool.not_false, if_true]
          refine ⟨hfr, hexp, hN ▸ h2, ?_⟩
          rw [hneg, ← hN]; simp
        · simp only [Bool.not_true, Bool.false_eq_true, if_false]
          refine ⟨hfr, hexp, hN ▸ h2, ?_⟩
          rw [hneg, ← hN]
          simp only [Bool.not_true, Bool.false_eq_true, if_false]
          have := negClass (NRes.f64 (if single = true then Spec.Ieee.F32.toF64 (Spec.Ieee.F32.neg (Spec.Ieee.F32.ofU64 (natOfDigits p.int)))
              else Spec.Ieee.F64.neg (Spec.Ieee.F64.ofU64 (natOfDigits p.int)))) NRes.i64
            (natOfDigits p.int) (by omega)
          dsimp only at this
          rw [this]
  · -- the integer digits overflow `u64`: parse_long_integer
    rw [h3]
    have hv : val 0 pre = natOfDigits pre := rfl
    rw [hv] at h1 h2 ⊢
    have hs64 : natOfDigits pre < 2 ^ 64 := by simp [u64Max] at h1; omega
    obtain ⟨i1, i2, i3, i4, i5⟩ := itoa_spec _ hs64
    have hrd : IsDigits (c :: post) := isDigits_of_append_right (hint ▸ wf.int_digits)
    have hc := dig_lt_10 c (hrd c (List.mem_cons_self ..))
    have hpos : 0 < natOfDigits pre := by simp [u64Max] at h2; omega
    have hintv : natOfDigits p.int = natOfDigits (itoa (natOfDigits pre) ++ c :: post) := by
      rw [hint, natOfDigits_append, natOfDigits_append, i1]
    have hbig0 : u64Max < natOfDigits p.int := by
      rw [hint, natOfDigits_append]
      have h3' : natOfDigits (c :: post) = dig c * 10 ^ post.length + natOfDigits post := by
        rw [natOfDigits_eq_val, val_cons, val_eq]; simp
      have h10 : 10 ^ (c :: post).length = 10 * 10 ^ post.length := by rw [List.length_cons, Nat.pow_succ]; ring
      have hp : 1 ≤ 10 ^ post.length := Nat.one_le_pow _ _ (by decide)
      rw [h3', h10]
      nlinarith [Nat.zero_le (natOfDigits post), Nat.zero_le (dig c), Nat.zero_le (natOfDigits pre)]
    have hheadS : ∀ d r, itoa (natOfDigits pre) ++ c :: post = d :: r → d ≠ 0x30 := by
      intro d r h
      cases hit : itoa (natOfDigits pre) with
      | nil => rw [hit] at i5; simp at i5
      | cons d' r' => rw [hit] at h; injection h with h1' _; rw [← h1']; exact i3 hpos d' r' hit
    simp only [parseLongInteger]
    cases hfr : p.frac with
    | some fds =>
      have hfd : IsDigits fds := by have := wf.frac_digits; rwa [hfr] at this
      simp only [parseLongDecimal]
      have := long_presents single p wf ((itoa (natOfDigits pre) ++ c :: post) ++ fds) (itoa (natOfDigits pre) ++ c :: post).length
        (by rw [litN, hfr, Option.getD_some, natOfDigits_append, natOfDigits_append p.int, hintv])
        (by simp)
        (by rw [hfr]; simp; omega)
        (isDigits_append (isDigits_append i2 hrd) hfd)
        (by rw [litN, hfr, Option.getD_some, natOfDigits_append]
            have hp : 1 ≤ 10 ^ fds.length := Nat.one_le_pow _ _ (by decide)
            nlinarith [Nat.zero_le (natOfDigits fds)])
        (by intro d r h; rw [List.take_left'] at h; exact hheadS d r h; rfl)
        (by rw [hfr, Option.getD_some, hint]; simp only [List.length_append, List.length_cons]; omega)
      cases hexp : p.exp with
      | none => simpa [hexp] using this
      | some e => obtain ⟨en, eds⟩ := e; simpa [hexp] using this
    | none =>
      have := long_presents single p wf (itoa (natOfDigits pre) ++ c :: post) (itoa (natOfDigits pre) ++ c :: post).length
        (by rw [litN, hfr]; simp [hintv])
        (Nat.le_refl _)
        (by rw [hfr]; simp)
        (isDigits_append i2 hrd)
        (by rw [litN, hfr]; simpa using hbig0)
        (by intro d r h; rw [List.take_length] at h; exact hheadS d r h)
        (by rw [hfr, hint]; simp only [List.length_append, List.length_cons, Option.getD_none, List.length_nil]; omega)
      cases hexp : p.exp with
      | none => simpa [hexp] using this
      | some e => obtain ⟨en, eds⟩ := e; simpa [hexp] using this

end SJ.Proofs.LexSplit
