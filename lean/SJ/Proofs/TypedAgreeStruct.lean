import SJ.Proofs.TypedAgreeMap
/-!
# The text leg of C16 on struct targets: derive's `visit_seq` (from an array) and `visit_map` (from an object: field
# identifiers, duplicates, unknown fields ignored through `ignore_value` or denied, missing fields) against `from_value`
-/
set_option linter.unusedSectionVars false
set_option linter.unusedVariables false

namespace SJ.Proofs.Typed
open SJ SJ.Gen SJ.Model SJ.Model.Typed
open SJ.Model.Stream (skipWs)
open SJ.Spec.Image (quote)

variable (ext : Spec.Program.Ext)

/-! ## the value side: `fieldsSeq` is `tupleSeq` over the field schemas; `fieldDe` finds the field by `nameIndex` -/

theorem fieldsSeq_eq_tupleSeq (cfg : FromValue.Cfg) (e : FromValue.Ext) : ∀ (fs : List (Bytes × Schema)) (xs : List JV),
    FromValue.fieldsSeq cfg e fs xs = FromValue.tupleSeq cfg e (fs.map (·.2)) xs
  | [], xs => by simp [FromValue.fieldsSeq, FromValue.tupleSeq]
  | (n, s) :: fs, [] => by simp [FromValue.fieldsSeq, FromValue.tupleSeq]
  | (n, s) :: fs, x :: xs => by
    simp only [FromValue.fieldsSeq, FromValue.tupleSeq, List.map_cons]
    rw [fieldsSeq_eq_tupleSeq cfg e fs xs]

theorem fieldDe_spec (cfg : FromValue.Cfg) (e : FromValue.Ext) (k : Bytes) (v : JV) : ∀ (fs : List (Bytes × Schema)),
    match FromValue.nameIndex (fieldNames fs) k with
    | some i => ∃ n s, fs[i]? = some (n, s) ∧ FromValue.fieldDe cfg e fs k v = some (i, FromValue.fromValue cfg e s v)
    | none => FromValue.fieldDe cfg e fs k v = none
  | [] => by simp [fieldNames, FromValue.nameIndex, FromValue.fieldDe]
  | (n, s) :: fs => by
    have ih := fieldDe_spec cfg e k v fs
    simp only [fieldNames, List.map_cons, FromValue.nameIndex, FromValue.fieldDe] at ih ⊢
    by_cases hn : (n == k) = true
    · simp only [hn, if_true]
      exact ⟨n, s, rfl, rfl⟩
    · simp only [hn, Bool.false_eq_true, if_false]
      cases hi : FromValue.nameIndex (List.map (fun x => x.1) fs) k with
      | none =>
        rw [hi] at ih
        simp only [Option.map_none] at ih ⊢
        simp [ih]
      | some i =>
        rw [hi] at ih
        simp only [Option.map_some] at ih ⊢
        obtain ⟨n', s', h1, h2⟩ := ih
        exact ⟨n', s', by simpa using h1, by simp [h2]⟩

section
variable (hext : Spec.Program.ExtOK ext)
variable {env : Env} (hflt : env.flt = false) (cfg' : FromValue.Cfg) (hap : cfg'.ap = false) (ext' : FromValue.Ext)

/-! ## from an array -/

include hext hflt in
/-- a fixed-length visitor (tuple, struct fields in order, tuple variant) on a printed array, closed by `end_seq` -/
theorem tupleArr_text (wrap : List TVal → TVal) (ss : List Schema) (f t : Nat) (xs : List JV) (hv : VOKg (.arr xs))
    (ih : TupAgree ext (deTyped env f (t + 1)) (FromValue.fromValue cfg' ext') ss xs)
    (rest : Bytes) (pos : Nat) :
    match FromValue.visitArray (FromValue.tupleSeq cfg' ext' ss xs) wrap with
    | .ok tv => closeWith env (endSeq env) ((tupleLoop env (deTyped env f (t + 1)) ss true [] (Telems ext xs ++ 0x5d :: rest) (pos + 1)).map wrap)
        = .ok tv rest (pos + (T ext (.arr xs)).length)
    | .error _ => ∀ x r p,
        closeWith env (endSeq env) ((tupleLoop env (deTyped env f (t + 1)) ss true [] (Telems ext xs ++ 0x5d :: rest) (pos + 1)).map wrap)
          ≠ .ok x r p := by
  have hhd : ∀ x ∈ xs, ∃ c tl, T ext x = c :: tl ∧ HeadOf x c := fun x hx => T_head_g ext hext x (vokg_elem xs x hx hv)
  have hloop := tupleLoop_text ext hext hflt cfg' ext' f (t + 1) ss xs ih hhd true [] rest (pos + 1)
  simp only [if_true, Bool.true_and] at hloop
  cases hall : FromValue.tupleSeq cfg' ext' ss xs with
  | error e =>
    rw [hall] at hloop
    simp only at hloop
    simp only [FromValue.visitArray]
    intro x r p
    exact closeWith_seq_bad (map_bad hloop) x r p
  | ok pr =>
    obtain ⟨ys, rem⟩ := pr
    rw [hall] at hloop
    simp only at hloop
    simp only [FromValue.visitArray]
    cases rem with
    | nil =>
      have hR : (if ss.isEmpty then Telems ext ([] : List JV) else Ttail ext []) = [] := by split <;> rfl
      rw [hR] at hloop
      simp only [List.isEmpty_nil, if_true]
      rw [hloop, T_arr]
      simp only [Res.map, Res.bind, closeWith, endSeq_close, List.nil_append, List.reverse_nil, List.length_cons, List.length_append,
        List.length_nil]
      congr 1
      omega
    | cons z zs =>
      simp only [List.isEmpty_cons, Bool.false_eq_true, if_false, FromValue.fail]
      intro x r p
      rw [hloop]
      simp only [Res.map, Res.bind, closeWith]
      have hne : ∀ u r' p', (endSeq env ((if ss.isEmpty then Telems ext (z :: zs) else Ttail ext (z :: zs)) ++ 0x5d :: rest)
          (pos + 1 + (Telems ext xs).length - (if ss.isEmpty then Telems ext (z :: zs) else Ttail ext (z :: zs)).length)).res ≠ .ok u r' p' := by
        split
        · obtain ⟨c', tl', hT', hc'⟩ := hhd z (tupleSeq_rem_mem _ _ _ _ _ _ hall z (by simp))
          rw [Telems_cons, hT']
          simp only [List.cons_append]
          exact endSeq_not_close (headOf_facts hc').1 (headOf_facts hc').2.1 _ _
        · show ∀ u r' p', (endSeq env (0x2c :: _) _).res ≠ _
          exact endSeq_not_close (by decide) (by decide) _ _
      cases hE : (endSeq env ((if ss.isEmpty then Telems ext (z :: zs) else Ttail ext (z :: zs)) ++ 0x5d :: rest)
          (pos + 1 + (Telems ext xs).length - (if ss.isEmpty then Telems ext (z :: zs) else Ttail ext (z :: zs)).length)).res with
      | ok u r' p' => exact absurd hE (hne u r' p')
      | _ => simp

/-! ## from an object -/

include hflt in
theorem parseStr_key (k tl : Bytes) (hu : Spec.Utf8.validUtf8 k = true) (pos : Nat) :
    parseStr env ((quote k ++ tl).drop 1) (pos + 1) = .ok k tl (pos + (quote k).length) := by
  rw [quote_length, quote_eq]
  simp only [List.cons_append, List.append_assoc, List.drop_succ_cons, List.drop_zero, List.nil_append]
  rw [parseStr_quote env hflt k (fun _ => hu)]
  congr 1
  omega

theorem structLoop_bad (de : Schema → Bytes → Nat → TOut) (fs : List (Bytes × Schema)) (deny : Bool) {r : Bytes} (h : BadHead r) :
    ∀ (n : Nat) (slots : List (Option TVal)) (pos : Nat) a r' p', structLoop env de fs deny n false slots r pos ≠ .ok a r' p' := by
  intro n
  cases n with
  | zero => intro slots pos a r' p'; simp [structLoop]
  | succ n =>
    intro slots pos
    unfold structLoop
    exact bind_not_ok (hasNextKey_bad h pos)

include hext hflt in
/-- derive's struct `visit_map` loop over a printed object, against `structMapLoop` with `fieldDe` -/
theorem structLoop_text (f t : Nat) (fs : List (Bytes × Schema)) (deny : Bool) :
    ∀ (kvs : List (Bytes × JV)),
      (∀ kv ∈ kvs, Spec.Utf8.validUtf8 kv.1 = true ∧ VOKg kv.2 ∧
        ∀ i nm s, FromValue.nameIndex (fieldNames fs) kv.1 = some i → fs[i]? = some (nm, s) →
          Agree1w (deTyped env f t s) (FromValue.fromValue cfg' ext' s kv.2) (T ext kv.2)) →
    ∀ (first : Bool) (slots : List (Option TVal)) (n : Nat) (rest : Bytes) (pos : Nat),
      (Tm ext first kvs ++ 0x7d :: rest).length < n →
      match FromValue.structMapLoop (FromValue.fieldDe cfg' ext' fs) deny kvs slots with
      | .ok slots' => structLoop env (deTyped env f t) fs deny n first slots (Tm ext first kvs ++ 0x7d :: rest) pos =
          .ok slots' (0x7d :: rest) (pos + (Tm ext first kvs).length)
      | .error _ => ∀ a r p, structLoop env (deTyped env f t) fs deny n first slots (Tm ext first kvs ++ 0x7d :: rest) pos ≠ .ok a r p := by
  intro kvs
  induction kvs with
  | nil =>
    intro _ first slots n rest pos hn
    cases n with
    | zero => omega
    | succ n =>
      simp only [FromValue.structMapLoop, Tm_nil, List.nil_append, List.length_nil, Nat.add_zero]
      unfold structLoop
      rw [hasNextKey_close]
      simp [Res.bind]
  | cons kv kvs ih =>
    intro hx first slots n rest pos hn
    obtain ⟨k, x⟩ := kv
    obtain ⟨hu, hsx, hag⟩ := hx (k, x) (by simp)
    have ih' := ih (fun y hy => hx y (by simp [hy]))
    cases n with
    | zero => omega
    | succ n =>
      have htxt : Tm ext first ((k, x) :: kvs) ++ 0x7d :: rest =
          (if first then [] else [0x2c]) ++ (quote k ++ 0x3a :: (T ext x ++ (Tmtail ext kvs ++ 0x7d :: rest))) := by
        rw [Tm_cons]; simp [List.append_assoc]
      have hlen : (Tm ext first ((k, x) :: kvs)).length =
          (if first then 0 else 1) + (quote k).length + 1 + (T ext x).length + (Tmtail ext kvs).length := by
        rw [Tm_cons]; cases first <;> simp <;> omega
      -- the recursive call on the remaining members, whatever the slots
      have hrec := fun slots' => ih' false slots' n rest (pos + (if first then 0 else 1) + (quote k).length + 1 + (T ext x).length) (by
        rw [htxt] at hn
        simp only [Tm, Bool.false_eq_true, if_false]
        simp only [List.length_append, List.length_cons] at hn ⊢
        omega)
      simp only [Tm, Bool.false_eq_true, if_false] at hrec
      rw [htxt]
      unfold structLoop
      rw [hasNextKey_member]
      simp only [Res.bind, Bool.not_true, Bool.false_eq_true, if_false]
      rw [parseStr_key hflt k _ hu]
      simp only [FromValue.structMapLoop]
      have hspec := fieldDe_spec cfg' ext' k x fs
      cases hni : FromValue.nameIndex (fieldNames fs) k with
      | some i =>
        rw [hni] at hspec
        obtain ⟨nm, s, hfi, hfd⟩ := hspec
        simp only [hfd]
        cases hslot : slots.getD i none with
        | some old => simp [FromValue.fail]
        | none =>
          simp only [Res.bind, parseObjectColon_colon, hfi]
          have hel := hag i nm s hni hfi (Tmtail ext kvs ++ 0x7d :: rest) (pos + (if first then 0 else 1) + (quote k).length + 1)
            (sepOK_mtail ext kvs rest)
          cases hfx : FromValue.fromValue cfg' ext' s x with
          | error e =>
            rw [hfx] at hel
            simp only at hel ⊢
            exact bind_bad hel fun v r1 p1 hb => structLoop_bad _ fs deny hb n _ p1
          | ok y =>
            rw [hfx] at hel
            simp only at hel ⊢
            rw [hel]
            simp only [Res.bind]
            have hr := hrec (slots.set i (some y))
            cases hall : FromValue.structMapLoop (FromValue.fieldDe cfg' ext' fs) deny kvs (slots.set i (some y)) with
            | error e =>
              rw [hall] at hr
              exact hr
            | ok sl =>
              rw [hall] at hr
              simp only at hr ⊢
              rw [hr, hlen]
              congr 1
              omega
      | none =>
        rw [hni] at hspec
        simp only [hspec]
        cases deny with
        | true => simp [FromValue.fail]
        | false =>
          simp only [Bool.false_eq_true, if_false, Res.bind, parseObjectColon_colon]
          rw [ignoreValue_T_g ext hext env hflt x hsx _ _ (sepOK_mtail ext kvs rest)]
          simp only [Res.bind]
          have hr := hrec slots
          cases hall : FromValue.structMapLoop (FromValue.fieldDe cfg' ext' fs) false kvs slots with
          | error e =>
            rw [hall] at hr
            exact hr
          | ok sl =>
            rw [hall] at hr
            simp only at hr ⊢
            rw [hr, hlen]
            congr 1
            omega

include hext hflt in
/-- structs: `deserialize_struct` from an array or an object against `from_value` -/
theorem agree_struct (fs : List (Bytes × Schema)) (deny : Bool) (f t : Nat) (v : JV) (hv : VOKg v) (hd : DepthOK env t v)
    (iha : ∀ xs, v = .arr xs → TupAgree ext (deTyped env f (t + 1)) (FromValue.fromValue cfg' ext') (fs.map (·.2)) xs)
    (iho : ∀ kvs, v = .obj kvs → ∀ kv ∈ kvs, ∀ i nm s, FromValue.nameIndex (fieldNames fs) kv.1 = some i → fs[i]? = some (nm, s) →
      Agree1w (deTyped env f (t + 1) s) (FromValue.fromValue cfg' ext' s kv.2) (T ext kv.2)) :
    Agree1 (deTyped env (f + 1) t (.struct_ fs deny)) (FromValue.fromValue cfg' ext' (.struct_ fs deny) v) (T ext v) := by
  intro rest pos hs
  obtain ⟨c, tl, hT, hc⟩ := T_head_g ext hext v hv
  have hw := (headOf_facts hc).1
  have ht := headOf_tests hc
  rw [deTyped_struct]
  cases v with
  | arr xs =>
    have hde : deStruct env t (deTyped env f) fs deny (0x5b :: (Telems ext xs ++ 0x5d :: rest)) pos =
        closeWith env (endSeq env) ((tupleLoop env (deTyped env f (t + 1)) (fs.map (·.2)) true [] (Telems ext xs ++ 0x5d :: rest) (pos + 1)).map .struct_) := by
      unfold deStruct
      rw [withPeek_cons env _ (by decide)]
      simp only [beq_self_eq_true, if_true, tooDeep_false t xs hd, Bool.false_eq_true, if_false]
    have key := tupleArr_text ext hext hflt cfg' ext' .struct_ (fs.map (·.2)) f t xs hv (iha xs rfl) rest pos
    simp only [FromValue.fromValue, fieldsSeq_eq_tupleSeq]
    have hTa : T ext (.arr xs) ++ rest = 0x5b :: (Telems ext xs ++ 0x5d :: rest) := by rw [T_arr]; simp
    rw [hTa]
    cases hva : FromValue.visitArray (FromValue.tupleSeq cfg' ext' (fs.map (·.2)) xs) TVal.struct_ with
    | ok tv => rw [hva] at key; simp only at key ⊢; rw [hde]; exact key
    | error e => rw [hva] at key; simp only at key ⊢; rw [hde]; exact key
  | obj kvs =>
    have hel : ∀ kv ∈ kvs, Spec.Utf8.validUtf8 kv.1 = true ∧ VOKg kv.2 ∧
        ∀ i nm s, FromValue.nameIndex (fieldNames fs) kv.1 = some i → fs[i]? = some (nm, s) →
          Agree1w (deTyped env f (t + 1) s) (FromValue.fromValue cfg' ext' s kv.2) (T ext kv.2) :=
      fun kv hx => ⟨(vokg_member kvs kv hx hv).1, (vokg_member kvs kv hx hv).2, fun i nm s h1 h2 => iho kvs rfl kv hx i nm s h1 h2⟩
    have hloop := structLoop_text ext hext hflt cfg' ext' f (t + 1) fs deny kvs hel true (fs.map fun _ => none)
      ((Tmembers ext kvs ++ 0x7d :: rest).length + 1) rest (pos + 1) (by simp [Tm])
    simp only [Tm, if_true] at hloop
    have hde : deStruct env t (deTyped env f) fs deny (0x7b :: (Tmembers ext kvs ++ 0x7d :: rest)) pos =
        closeWith env (endMap env) (structVisitMap env (deTyped env f (t + 1)) fs deny (Tmembers ext kvs ++ 0x7d :: rest) (pos + 1)) := by
      unfold deStruct
      rw [withPeek_cons env _ (by decide)]
      simp only [show ((0x7b : UInt8) == 0x5b) = false by decide, beq_self_eq_true, if_true, tooDeep_false_obj t kvs hd, Bool.false_eq_true, if_false]
    have hTo : T ext (.obj kvs) ++ rest = 0x7b :: (Tmembers ext kvs ++ 0x7d :: rest) := by rw [T_obj_eq]; simp
    have hlenT : (T ext (.obj kvs)).length = (Tmembers ext kvs).length + 2 := by rw [T_obj_eq]; simp
    simp only [FromValue.fromValue, FromValue.structFromMap]
    rw [hTo]
    unfold structVisitMap at hde
    cases hall : FromValue.structMapLoop (FromValue.fieldDe cfg' ext' fs) deny kvs (fs.map fun _ => none) with
    | error e =>
      rw [hall] at hloop
      simp only at hloop ⊢
      intro x r p
      rw [hde]
      exact closeWith_not_ok _ (bind_not_ok hloop) x r p
    | ok slots =>
      rw [hall] at hloop
      simp only at hloop ⊢
      rw [hloop] at hde
      simp only [Res.bind] at hde
      cases hfin : FromValue.finishFields fs slots with
      | error e => simp only [Except.map]; intro x r p; rw [hde, hfin]; simp [closeWith]
      | ok vs =>
        simp only [Except.map]
        rw [hde, hfin]
        simp only [closeWith, endMap_close, Res.bind, hlenT]
        congr 1
        omega
  | null | bool _ | num _ | str _ =>
    simp only [FromValue.fromValue, FromValue.fail]
    intro x r p
    rw [hT]
    simp only [List.cons_append]
    unfold deStruct
    rw [withPeek_cons env _ hw]
    simp only [ht.2.2.2.2.2.2.1, ht.2.2.2.2.2.2.2.1, Bool.false_eq_true, if_false]
    exact peekInvalidType_not_ok _ _ _ _ _ _

end

end SJ.Proofs.Typed
