import SJ.Model.JsonMacro
import SJ.Proofs.MkObj
/-!
# `json!` on JSON-shaped token trees = structural evaluation

By mutual induction over token trees: the `@array` muncher yields the evaluated elements in order,
the `@object` muncher folds `Map::insert` over the evaluated members in source order, which is
`Spec.Canon.objectOf` by `mkObj_eq_objectOf` (the map-level lemma of C02).
-/
namespace SJ.Proofs.JsonMacro
open SJ SJ.Spec.JsonMacro SJ.Model.JsonMacro

/-- folding the insert statement over evaluated members -/
def insertAll (po : Bool) (object : List (Bytes × JV)) (ms : List (Bytes × JV)) : List (Bytes × JV) :=
  ms.foldl (fun m kv => objectInsert po kv.1 kv.2 m) object

theorem valueOf_of_shape (po : Bool) (t : TT) (l : Lit) (h : shape t = some l)
    (ih : expand po t = some (eval po l)) :
    (if isSpecial t then expand po t else exprValue t) = some (eval po l) := by
  cases t <;> simp_all [isSpecial, exprValue, shape, expand]

theorem keyString_of_keyOf (k : TT) (s : Bytes) (h : keyOf k = some s) :
    (∃ v, k = .paren v) ∨ ((∀ v, k ≠ .paren v) ∧ k ≠ .colon ∧ k ≠ .comma) := by
  cases k <;> simp_all [keyOf]

theorem keyString_single (k : TT) (s : Bytes) (h : keyOf k = some s) : keyString [k] = some s := by
  cases k <;> simp [keyOf] at h
  all_goals (rename_i v; cases v <;> simp_all [keyString, exprValue])

theorem keyString_paren (v : JV) (s : Bytes) (h : keyOf (.paren v) = some s) : keyString [.expr v] = some s := by
  cases v <;> simp_all [keyOf, keyString, exprValue]

/-- one member `k : t` with `rest` behind it: the muncher reaches `munchEntry` with the key's string
    and the value of `t` -/
theorem munchObject_member (po : Bool) (object : List (Bytes × JV)) (k t : TT) (rest : List TT) (s : Bytes) (v : JV)
    (hk : keyOf k = some s)
    (hv : (if isSpecial t then expand po t else exprValue t) = some v) :
    ∃ key, keyString key = some s ∧
      munchObject po object [] (k :: .colon :: t :: rest) = munchEntry po object key v rest := by
  cases k with
  | paren w =>
    refine ⟨[.expr w], keyString_paren w s hk, ?_⟩
    simp [munchObject, startsWithColon, hv]
  | lit w =>
    refine ⟨[.lit w], keyString_single _ s hk, ?_⟩
    simp [munchObject, hv]
  | expr w =>
    refine ⟨[.expr w], keyString_single _ s hk, ?_⟩
    simp [munchObject, hv]
  | null => simp [keyOf] at hk
  | true_ => simp [keyOf] at hk
  | false_ => simp [keyOf] at hk
  | comma => simp [keyOf] at hk
  | colon => simp [keyOf] at hk
  | arr _ => simp [keyOf] at hk
  | obj _ => simp [keyOf] at hk

theorem munchArray_special (po : Bool) (elems : List JV) (t : TT) (rest : List TT) (v : JV)
    (hs : isSpecial t = true) (hv : expand po t = some v) :
    munchArray po elems true (t :: rest) = munchArray po (elems ++ [v]) false rest := by
  conv => lhs; unfold munchArray
  simp [commaForm, hs, hv]

theorem munchArray_expr_comma (po : Bool) (elems : List JV) (t : TT) (rest : List TT) (v : JV)
    (hs : isSpecial t = false) (hv : exprValue t = some v) :
    munchArray po elems true (t :: .comma :: rest) = munchArray po (elems ++ [v]) true rest := by
  conv => lhs; unfold munchArray
  simp [commaForm, hs, hv]

theorem munchArray_expr_last (po : Bool) (elems : List JV) (t : TT) (v : JV)
    (hs : isSpecial t = false) (hv : exprValue t = some v) :
    munchArray po elems true [t] = some (elems ++ [v]) := by
  conv => lhs; unfold munchArray
  simp [commaForm, hs, hv]

theorem munchArray_comma (po : Bool) (elems : List JV) (v : JV) (rest : List TT) :
    munchArray po (elems ++ [v]) false (.comma :: rest) = munchArray po (elems ++ [v]) true rest := by
  conv => lhs; unfold munchArray
  simp [commaForm, plainForm, isSpecial, exprValue]

theorem munchArray_nil (po : Bool) (elems : List JV) (tc : Bool) : munchArray po elems tc [] = some elems := by
  unfold munchArray; rfl

/-- a value token is either special (own rule) or an expression unit -/
theorem special_or_expr (po : Bool) (t : TT) (l : Lit) (h : shape t = some l) (ih : expand po t = some (eval po l)) :
    (isSpecial t = true) ∨ (isSpecial t = false ∧ exprValue t = some (eval po l)) := by
  cases t <;> simp_all [isSpecial, exprValue, shape, expand]

mutual
theorem expand_shape (po : Bool) : (t : TT) → ∀ l, shape t = some l → expand po t = some (eval po l)
  | .null, l, h => by simp only [shape, Option.some.injEq] at h; subst h; rfl
  | .true_, l, h => by simp only [shape, Option.some.injEq] at h; subst h; rfl
  | .false_, l, h => by simp only [shape, Option.some.injEq] at h; subst h; rfl
  | .lit v, l, h => by simp only [shape, Option.some.injEq] at h; subst h; rfl
  | .expr v, l, h => by simp only [shape, Option.some.injEq] at h; subst h; rfl
  | .paren v, l, h => by simp only [shape, Option.some.injEq] at h; subst h; rfl
  | .comma, l, h => by simp [shape] at h
  | .colon, l, h => by simp [shape] at h
  | .arr ts, l, h => by
    simp only [shape, Option.map_eq_some_iff] at h
    obtain ⟨ls, hls, rfl⟩ := h
    have := munchArray_shape po ts ls hls []
    simp only [expand, eval]
    split
    · rename_i he
      have : ts = [] := by simpa using he
      subst this
      simp only [shapeElems, Option.some.injEq] at hls
      subst hls; rfl
    · simp [this]
  | .obj ts, l, h => by
    simp only [shape, Option.map_eq_some_iff] at h
    obtain ⟨ms, hms, rfl⟩ := h
    have := munchObject_shape po ts ms hms []
    simp only [expand, eval]
    split
    · rename_i he
      have : ts = [] := by simpa using he
      subst this
      simp only [shapeMembers, Option.some.injEq] at hms
      subst hms
      simp [evalMembers, Spec.Canon.objectOf, Spec.Canon.distinctKeys, Spec.Canon.sortKeys]
    · simp only [this, Option.map_some, Option.some.injEq]
      have hov : Gen.jsonInsertOverwrites = true := rfl
      have h2 := SJ.Proofs.MkObj.mkObj_eq_objectOf { po := po } (evalMembers po ms)
      rw [← show SJ.Proofs.CanonM.specCfg { po := po } = ({ po := po } : Spec.Canon.Cfg) from rfl]
      rw [← h2]
      simp only [insertAll, objectInsert, hov, if_true, Model.ValueIndex.mapInsert, Model.Machine.mkObj]

theorem munchArray_shape (po : Bool) : (ts : List TT) → ∀ ls, shapeElems ts = some ls →
    ∀ elems, munchArray po elems true ts = some (elems ++ evalList po ls)
  | [], ls, h, elems => by
    simp only [shapeElems, Option.some.injEq] at h; subst h
    simp [munchArray, evalList]
  | [t], ls, h, elems => by
    simp only [shapeElems, Option.map_eq_some_iff] at h
    obtain ⟨l, hl, rfl⟩ := h
    have ih := expand_shape po t l hl
    rcases special_or_expr po t l hl ih with hs | ⟨hs, hv⟩
    · rw [munchArray_special po elems t [] _ hs ih, munchArray_nil]; rfl
    · rw [munchArray_expr_last po elems t _ hs hv]; rfl
  | t :: .comma :: rest, ls, h, elems => by
    simp only [shapeElems] at h
    split at h
    · rename_i l ls' hl hls
      simp only [Option.some.injEq] at h; subst h
      have ih := expand_shape po t l hl
      rcases special_or_expr po t l hl ih with hs | ⟨hs, hv⟩
      · rw [munchArray_special po elems t _ _ hs ih, munchArray_comma, munchArray_shape po rest ls' hls]
        simp [evalList]
      · rw [munchArray_expr_comma po elems t _ _ hs hv, munchArray_shape po rest ls' hls]
        simp [evalList]
    · simp at h
  | _ :: .null :: _, _, h, _ => by simp [shapeElems] at h
  | _ :: .true_ :: _, _, h, _ => by simp [shapeElems] at h
  | _ :: .false_ :: _, _, h, _ => by simp [shapeElems] at h
  | _ :: .colon :: _, _, h, _ => by simp [shapeElems] at h
  | _ :: .lit _ :: _, _, h, _ => by simp [shapeElems] at h
  | _ :: .expr _ :: _, _, h, _ => by simp [shapeElems] at h
  | _ :: .paren _ :: _, _, h, _ => by simp [shapeElems] at h
  | _ :: .arr _ :: _, _, h, _ => by simp [shapeElems] at h
  | _ :: .obj _ :: _, _, h, _ => by simp [shapeElems] at h

theorem munchObject_shape (po : Bool) : (ts : List TT) → ∀ ms, shapeMembers ts = some ms →
    ∀ object, munchObject po object [] ts = some (insertAll po object (evalMembers po ms))
  | [], ms, h, object => by
    simp only [shapeMembers, Option.some.injEq] at h; subst h
    simp [munchObject, insertAll, evalMembers]
  | [k, .colon, t], ms, h, object => by
    simp only [shapeMembers] at h
    split at h
    · rename_i s l hk hl
      simp only [Option.some.injEq] at h; subst h
      have ih := expand_shape po t l hl
      obtain ⟨key, hkey, hm⟩ := munchObject_member po object k t [] s _ hk (valueOf_of_shape po t l hl ih)
      rw [hm]
      simp [munchEntry, insertEntry, hkey, insertAll, evalMembers]
    · simp at h
  | k :: .colon :: t :: .comma :: rest, ms, h, object => by
    simp only [shapeMembers] at h
    split at h
    · rename_i s l ms' hk hl hms
      simp only [Option.some.injEq] at h; subst h
      have ih := expand_shape po t l hl
      obtain ⟨key, hkey, hm⟩ := munchObject_member po object k t (.comma :: rest) s _ hk (valueOf_of_shape po t l hl ih)
      rw [hm]
      simp only [munchEntry, insertEntry, hkey, Option.map_some]
      rw [munchObject_shape po rest ms' hms]
      simp [insertAll, evalMembers]
    · simp at h
  | [_], _, h, _ => by simp [shapeMembers] at h
  | [_, _], _, h, _ => by simp [shapeMembers] at h
  | _ :: .null :: _ :: _, _, h, _ => by simp [shapeMembers] at h
  | _ :: .true_ :: _ :: _, _, h, _ => by simp [shapeMembers] at h
  | _ :: .false_ :: _ :: _, _, h, _ => by simp [shapeMembers] at h
  | _ :: .comma :: _ :: _, _, h, _ => by simp [shapeMembers] at h
  | _ :: .lit _ :: _ :: _, _, h, _ => by simp [shapeMembers] at h
  | _ :: .expr _ :: _ :: _, _, h, _ => by simp [shapeMembers] at h
  | _ :: .paren _ :: _ :: _, _, h, _ => by simp [shapeMembers] at h
  | _ :: .arr _ :: _ :: _, _, h, _ => by simp [shapeMembers] at h
  | _ :: .obj _ :: _ :: _, _, h, _ => by simp [shapeMembers] at h
  | _ :: .colon :: _ :: .null :: _, _, h, _ => by simp [shapeMembers] at h
  | _ :: .colon :: _ :: .true_ :: _, _, h, _ => by simp [shapeMembers] at h
  | _ :: .colon :: _ :: .false_ :: _, _, h, _ => by simp [shapeMembers] at h
  | _ :: .colon :: _ :: .colon :: _, _, h, _ => by simp [shapeMembers] at h
  | _ :: .colon :: _ :: .lit _ :: _, _, h, _ => by simp [shapeMembers] at h
  | _ :: .colon :: _ :: .expr _ :: _, _, h, _ => by simp [shapeMembers] at h
  | _ :: .colon :: _ :: .paren _ :: _, _, h, _ => by simp [shapeMembers] at h
  | _ :: .colon :: _ :: .arr _ :: _, _, h, _ => by simp [shapeMembers] at h
  | _ :: .colon :: _ :: .obj _ :: _, _, h, _ => by simp [shapeMembers] at h
end

end SJ.Proofs.JsonMacro
