import SJ.Spec.Wtf8
import SJ.Model.Typed
/-!
# `parse_str_raw` (`Model.Typed.parseStrRaw`, the automaton `stepRaw`) against `Spec.Wtf8`

`runRaw_lex`: on EVERY byte string the automaton returns what the item structure (`Spec.Wtf8.lex`) and the
bytes decoding (`Spec.Wtf8.decodeBytes`) say. Proof device: `decodeP`, the decoding with a pending
high surrogate (the automaton's `lead1` state), equal to the look-ahead formulation of the specification.
No Mathlib.
-/
namespace SJ.Proofs.Wtf8
open SJ SJ.Spec.Grammar SJ.Spec.Denote SJ.Spec.Wtf8 SJ.Model.Typed
open SJ.Model.Machine (hex4 hexDigitVal)

/-! ## the specification side -/

/-- decoding with a pending (not yet written) high surrogate -/
def decodeP : Option Nat → List StrItem → Bytes
  | none, [] => []
  | some h, [] => utf8 h
  | none, .raw b :: rest => b :: decodeP none rest
  | some h, .raw b :: rest => utf8 h ++ b :: decodeP none rest
  | none, .esc c :: rest => simpleEscape c :: decodeP none rest
  | some h, .esc c :: rest => utf8 h ++ simpleEscape c :: decodeP none rest
  | none, .uni a b c d :: rest =>
    if isHighSurrogate (uniVal a b c d) then decodeP (some (uniVal a b c d)) rest
    else utf8 (uniVal a b c d) ++ decodeP none rest
  | some h, .uni a b c d :: rest =>
    if isLowSurrogate (uniVal a b c d) then utf8 (pairVal h (uniVal a b c d)) ++ decodeP none rest
    else if isHighSurrogate (uniVal a b c d) then utf8 h ++ decodeP (some (uniVal a b c d)) rest
    else utf8 h ++ (utf8 (uniVal a b c d) ++ decodeP none rest)

theorem not_high_of_low {n : Nat} (h : isLowSurrogate n = true) : isHighSurrogate n = false := by
  simp only [isLowSurrogate, isHighSurrogate, Bool.and_eq_true, decide_eq_true_eq, Bool.and_eq_false_iff,
    decide_eq_false_iff_not] at h ⊢
  omega

theorem decodeBytes_notHigh (a b c d : UInt8) (rest : List StrItem) (h : isHighSurrogate (uniVal a b c d) = false) :
    decodeBytes (.uni a b c d :: rest) = utf8 (uniVal a b c d) ++ decodeBytes rest := by
  cases rest with
  | nil => simp [decodeBytes, h]
  | cons it r => cases it <;> simp [decodeBytes, h]
theorem decodeBytes_pair (a b c d e f g k : UInt8) (rest : List StrItem) (h : isHighSurrogate (uniVal a b c d) = true)
    (hl : isLowSurrogate (uniVal e f g k) = true) :
    decodeBytes (.uni a b c d :: .uni e f g k :: rest) = utf8 (pairVal (uniVal a b c d) (uniVal e f g k)) ++ decodeBytes rest := by
  rw [decodeBytes]; simp [h, hl]
theorem decodeBytes_alone (a b c d : UInt8) (rest : List StrItem) (h : isHighSurrogate (uniVal a b c d) = true)
    (hr : ∀ e f g k rest', rest = .uni e f g k :: rest' → isLowSurrogate (uniVal e f g k) = false) :
    decodeBytes (.uni a b c d :: rest) = utf8 (uniVal a b c d) ++ decodeBytes rest := by
  cases rest with
  | nil => simp [decodeBytes, h]
  | cons it r =>
    cases it with
    | uni e f g k => rw [decodeBytes]; simp [h, hr e f g k r rfl]
    | _ => simp [decodeBytes, h]

theorem decodeP_spec : ∀ items : List StrItem,
    decodeP none items = decodeBytes items ∧
    ∀ a b c d, isHighSurrogate (uniVal a b c d) = true →
      decodeP (some (uniVal a b c d)) items = decodeBytes (.uni a b c d :: items)
  | [] => ⟨rfl, fun a b c d h => by simp [decodeP, decodeBytes, h]⟩
  | .raw x :: rest => by
    obtain ⟨ih1, _⟩ := decodeP_spec rest
    refine ⟨by simp [decodeP, decodeBytes, ih1], fun a b c d h => ?_⟩
    rw [decodeBytes_alone a b c d _ h (by simp)]; simp [decodeP, decodeBytes, ih1]
  | .esc x :: rest => by
    obtain ⟨ih1, _⟩ := decodeP_spec rest
    refine ⟨by simp [decodeP, decodeBytes, ih1], fun a b c d h => ?_⟩
    rw [decodeBytes_alone a b c d _ h (by simp)]; simp [decodeP, decodeBytes, ih1]
  | .uni e f g k :: rest => by
    obtain ⟨ih1, ih2⟩ := decodeP_spec rest
    have h1 : decodeP none (.uni e f g k :: rest) = decodeBytes (.uni e f g k :: rest) := by
      cases hh : isHighSurrogate (uniVal e f g k) with
      | true => rw [decodeP, if_pos hh]; exact ih2 e f g k hh
      | false => rw [decodeBytes_notHigh _ _ _ _ _ hh, decodeP]; simp [hh, ih1]
    refine ⟨h1, fun a b c d h => ?_⟩
    cases hl : isLowSurrogate (uniVal e f g k) with
    | true => rw [decodeBytes_pair _ _ _ _ _ _ _ _ _ h hl, decodeP]; simp [hl, ih1]
    | false =>
      rw [decodeBytes_alone a b c d _ h (by intro e' f' g' k' r' hr; cases hr; exact hl), ← h1]
      cases hh : isHighSurrogate (uniVal e f g k) <;> simp [decodeP, hl, hh]

/-! ## the automaton: the four bytes after `\u` -/

theorem hex4_eq (a b c d : UInt8) :
    hex4 [a, b, c, d] = if isHex a && isHex b && isHex c && isHex d then some (uniVal a b c d) else none := by
  simp only [hex4, hexDigitVal, uniVal]
  cases isHex a <;> cases isHex b <;> cases isHex c <;> cases isHex d <;> simp

/-- the state after a complete `\uXXXX` of value `n` (`parse_unicode_escape`'s loop body) -/
def afterHex (out : Bytes) (lead : Option Nat) (n : Nat) : RawSt :=
  match lead with
  | none =>
    if n < 0xD800 || n > 0xDBFF then { out := pushWtf8 n out, esc := .none } else { out := out, esc := .lead1 n }
  | some n1 =>
    if n < 0xDC00 || n > 0xDFFF then
      (if n < 0xD800 || n > 0xDBFF then { out := pushWtf8 n (pushWtf8 n1 out), esc := .none }
       else { out := pushWtf8 n1 out, esc := .lead1 n })
    else { out := pushWtf8 (0x10000 + (n1 - 0xD800) * 0x400 + (n - 0xDC00)) out, esc := .none }

theorem runRaw_next (env : Env) {st st' : RawSt} {b : UInt8} (r : Bytes) (pos : Nat) (h : stepRaw st b = .next st') :
    runRaw env st (b :: r) pos = runRaw env st' r (pos + 1) := by
  rw [runRaw, h]

theorem runRaw_err (env : Env) {st : RawSt} {b : UInt8} {c : Gen.Code} (r : Bytes) (pos : Nat) (h : stepRaw st b = .err c) :
    runRaw env st (b :: r) pos = .err c (pos + 1) := by
  rw [runRaw, h]

theorem stepRaw_hex_lt (out acc : Bytes) (lead : Option Nat) (b : UInt8) (h : acc.length + 1 < 4) :
    stepRaw { out := out, esc := .hex acc lead } b = .next { out := out, esc := .hex (acc ++ [b]) lead } := by
  simp [stepRaw, h]

theorem stepRaw_hex_last (out acc : Bytes) (lead : Option Nat) (b : UInt8) (h : ¬ acc.length + 1 < 4) :
    stepRaw { out := out, esc := .hex acc lead } b =
      match hex4 (acc ++ [b]) with
      | none => .err .InvalidEscape
      | some n => .next (afterHex out lead n) := by
  simp only [stepRaw, List.length_append, List.length_cons, List.length_nil, h, if_false]
  cases hex4 (acc ++ [b]) with
  | none => rfl
  | some n =>
    cases lead with
    | none => simp only [afterHex]; split <;> rfl
    | some n1 =>
      simp only [afterHex]; split
      · split <;> rfl
      · rfl

theorem runRaw_hex (env : Env) (out : Bytes) (lead : Option Nat) (a b c d : UInt8) (r : Bytes) (pos : Nat) :
    runRaw env { out := out, esc := .hex [] lead } (a :: b :: c :: d :: r) pos =
      match hex4 [a, b, c, d] with
      | none => .err .InvalidEscape (pos + 4)
      | some n => runRaw env (afterHex out lead n) r (pos + 4) := by
  rw [runRaw_next env _ _ (stepRaw_hex_lt out [] lead a (by simp)),
    runRaw_next env _ _ (stepRaw_hex_lt out _ lead b (by simp)),
    runRaw_next env _ _ (stepRaw_hex_lt out _ lead c (by simp))]
  have hl := stepRaw_hex_last out ([] ++ [a] ++ [b] ++ [c]) lead d (by simp)
  simp only [List.nil_append, List.cons_append] at hl ⊢
  cases hh : hex4 [a, b, c, d] with
  | none => rw [hh] at hl; rw [runRaw_err env _ _ hl]
  | some n => rw [hh] at hl; rw [runRaw_next env _ _ hl]

theorem runRaw_hex_short (env : Env) (out : Bytes) (lead : Option Nat) (r : Bytes) (pos : Nat) (h : r.length < 4) :
    runRaw env { out := out, esc := .hex [] lead } r pos = atEof env .EofWhileParsingString (pos + r.length) := by
  match r, h with
  | [], _ => simp [runRaw]
  | [a], _ =>
    rw [runRaw_next env _ _ (stepRaw_hex_lt out [] lead a (by simp))]; simp [runRaw]
  | [a, b], _ =>
    rw [runRaw_next env _ _ (stepRaw_hex_lt out [] lead a (by simp)),
      runRaw_next env _ _ (stepRaw_hex_lt out _ lead b (by simp))]; simp [runRaw]
  | [a, b, c], _ =>
    rw [runRaw_next env _ _ (stepRaw_hex_lt out [] lead a (by simp)),
      runRaw_next env _ _ (stepRaw_hex_lt out _ lead b (by simp)),
      runRaw_next env _ _ (stepRaw_hex_lt out _ lead c (by simp))]; simp [runRaw]

/-! ## the automaton on an arbitrary input -/

/-- what the automaton must return, given the item structure of the unread input: `out` (reversed) is
    already written, `p` is a high surrogate read but not yet written -/
def fin (env : Env) (out : Bytes) (p : Option Nat) (pos len : Nat) : Lex → Res Bytes
  | .ok items rest => .ok (out.reverse ++ decodeP p items) rest (pos + (items.flatMap StrItem.bytes).length + 1)
  | .badEscape n => .err .InvalidEscape (pos + n)
  | .eof => atEof env .EofWhileParsingString (pos + len)

theorem fin_cons (env : Env) (out out' : Bytes) (p p' : Option Nat) (pos len : Nat) (it : StrItem) (l : Lex)
    (hd : ∀ items, out.reverse ++ decodeP p (it :: items) = out'.reverse ++ decodeP p' items) :
    fin env out p pos (len + it.bytes.length) (l.cons it) = fin env out' p' (pos + it.bytes.length) len l := by
  cases l with
  | ok items rest =>
    simp only [Lex.cons, fin, hd, List.flatMap_cons, List.length_append]
    congr 1; omega
  | badEscape n => simp only [Lex.cons, fin]; congr 1; omega
  | eof => simp only [Lex.cons, fin]; congr 1; omega

theorem pushWtf8_rev (n : Nat) (out : Bytes) : (pushWtf8 n out).reverse = out.reverse ++ utf8 n := by
  simp [pushWtf8]

theorem afterHex_none_scalar (out : Bytes) (n : Nat) (h : isHighSurrogate n = false) :
    afterHex out none n = { out := pushWtf8 n out, esc := .none } := by
  have : n < 0xD800 ∨ n > 0xDBFF := by
    simp only [isHighSurrogate, Bool.and_eq_false_iff, decide_eq_false_iff_not] at h; omega
  simp [afterHex, this]

theorem afterHex_none_high (out : Bytes) (n : Nat) (h : isHighSurrogate n = true) :
    afterHex out none n = { out := out, esc := .lead1 n } := by
  have : ¬ (n < 0xD800 ∨ n > 0xDBFF) := by
    simp only [isHighSurrogate, Bool.and_eq_true, decide_eq_true_eq] at h; omega
  simp [afterHex, this]

theorem afterHex_some_low (out : Bytes) (n1 n : Nat) (h : isLowSurrogate n = true) :
    afterHex out (some n1) n = { out := pushWtf8 (pairVal n1 n) out, esc := .none } := by
  have : ¬ (n < 0xDC00 ∨ n > 0xDFFF) := by
    simp only [isLowSurrogate, Bool.and_eq_true, decide_eq_true_eq] at h; omega
  simp [afterHex, this, pairVal]

theorem afterHex_some_high (out : Bytes) (n1 n : Nat) (h : isHighSurrogate n = true) :
    afterHex out (some n1) n = { out := pushWtf8 n1 out, esc := .lead1 n } := by
  have h' : ¬ (n < 0xD800 ∨ n > 0xDBFF) := by
    simp only [isHighSurrogate, Bool.and_eq_true, decide_eq_true_eq] at h; omega
  have : n < 0xDC00 ∨ n > 0xDFFF := by omega
  simp [afterHex, this, h']

theorem afterHex_some_scalar (out : Bytes) (n1 n : Nat) (hl : isLowSurrogate n = false) (h : isHighSurrogate n = false) :
    afterHex out (some n1) n = { out := pushWtf8 n (pushWtf8 n1 out), esc := .none } := by
  have h' : n < 0xD800 ∨ n > 0xDBFF := by
    simp only [isHighSurrogate, Bool.and_eq_false_iff, decide_eq_false_iff_not] at h; omega
  have : n < 0xDC00 ∨ n > 0xDFFF := by
    simp only [isLowSurrogate, Bool.and_eq_false_iff, decide_eq_false_iff_not] at hl; omega
  simp [afterHex, this, h']

/-! ### equations of the item structure -/

theorem lex_quote (r : Bytes) : lex (0x22 :: r) = .ok [] r := by simp [lex]
theorem lex_raw (b : UInt8) (r : Bytes) (h1 : b ≠ 0x22) (h2 : b ≠ 0x5c) : lex (b :: r) = (lex r).cons (.raw b) := by
  simp [lex, h1, h2]
theorem lex_bs_nil : lex [0x5c] = .eof := by simp [lex]
theorem lex_esc (c : UInt8) (r : Bytes) (hc : c ≠ 0x75) (hs : isSimpleEscape c = true) :
    lex (0x5c :: c :: r) = (lex r).cons (.esc c) := by simp [lex, hc, hs]
theorem lex_bad (c : UInt8) (r : Bytes) (hc : c ≠ 0x75) (hs : isSimpleEscape c = false) :
    lex (0x5c :: c :: r) = .badEscape 2 := by simp [lex, hc, hs]
theorem lex_uni (h1 h2 h3 h4 : UInt8) (r : Bytes) (hx : (isHex h1 && isHex h2 && isHex h3 && isHex h4) = true) :
    lex (0x5c :: 0x75 :: h1 :: h2 :: h3 :: h4 :: r) = (lex r).cons (.uni h1 h2 h3 h4) := by
  simp only [Bool.and_eq_true] at hx; simp [lex, hx]
theorem lex_unibad (h1 h2 h3 h4 : UInt8) (r : Bytes) (hx : (isHex h1 && isHex h2 && isHex h3 && isHex h4) = false) :
    lex (0x5c :: 0x75 :: h1 :: h2 :: h3 :: h4 :: r) = .badEscape 6 := by
  rw [lex]; simp only [show ((0x5c : UInt8) == 0x22) = false by decide, show ((0x5c : UInt8) == 0x5c) = true by decide,
    show ((0x75 : UInt8) == 0x75) = true by decide, hx]; simp
theorem lex_unishort (r : Bytes) (h : r.length < 4) : lex (0x5c :: 0x75 :: r) = .eof := by
  match r, h with
  | [], _ => simp [lex]
  | [_], _ => simp [lex]
  | [_, _], _ => simp [lex]
  | [_, _, _], _ => simp [lex]

section main
variable (env : Env)

/-- the two statements proved together: between items, and with a pending high surrogate -/
def Holds (bs : Bytes) : Prop :=
  (∀ out pos, runRaw env { out := out, esc := .none } bs pos = fin env out none pos bs.length (lex bs)) ∧
  (∀ out pos n1, runRaw env { out := out, esc := .lead1 n1 } bs pos = fin env out (some n1) pos bs.length (lex bs))

/-- after `\u`, with or without a pending high surrogate -/
theorem hex_case (r1 : Bytes) (ih : ∀ bs : Bytes, bs.length < r1.length + 2 → Holds env bs) (out : Bytes)
    (p : Option Nat) (pos : Nat) :
    runRaw env { out := out, esc := .hex [] p } r1 (pos + 2) =
      fin env out p pos (r1.length + 2) (lex (0x5c :: 0x75 :: r1)) := by
  by_cases hlen : r1.length < 4
  · rw [runRaw_hex_short _ _ _ _ _ hlen, lex_unishort _ hlen]; simp only [fin]; congr 1; omega
  · match r1, hlen, ih with
    | h1 :: h2 :: h3 :: h4 :: r2, _, ih =>
      rw [runRaw_hex, hex4_eq]
      cases hx : (isHex h1 && isHex h2 && isHex h3 && isHex h4) with
      | false => rw [lex_unibad _ _ _ _ _ hx]; simp [fin]
      | true =>
        rw [lex_uni _ _ _ _ _ hx]
        simp only [if_true]
        rw [show (h1 :: h2 :: h3 :: h4 :: r2).length + 2 = r2.length + (StrItem.uni h1 h2 h3 h4).bytes.length by
          simp [StrItem.bytes]]
        have hr2 := ih r2 (by simp; omega)
        have hp : pos + 2 + 4 = pos + (StrItem.uni h1 h2 h3 h4).bytes.length := by simp [StrItem.bytes]
        rw [hp]
        cases p with
        | none =>
          cases hh : isHighSurrogate (uniVal h1 h2 h3 h4) with
          | false =>
            rw [afterHex_none_scalar _ _ hh, hr2.1,
              fin_cons env out (pushWtf8 (uniVal h1 h2 h3 h4) out) none none _ _ _ _ (by
                intro items; rw [decodeP]; simp [hh, pushWtf8_rev])]
          | true =>
            rw [afterHex_none_high _ _ hh, hr2.2,
              fin_cons env out out none (some (uniVal h1 h2 h3 h4)) _ _ _ _ (by intro items; rw [decodeP]; simp [hh])]
        | some n1 =>
          cases hl : isLowSurrogate (uniVal h1 h2 h3 h4) with
          | true =>
            rw [afterHex_some_low _ _ _ hl, hr2.1,
              fin_cons env out (pushWtf8 (pairVal n1 (uniVal h1 h2 h3 h4)) out) (some n1) none _ _ _ _ (by
                intro items; rw [decodeP]; simp [hl, pushWtf8_rev])]
          | false =>
            cases hh : isHighSurrogate (uniVal h1 h2 h3 h4) with
            | true =>
              rw [afterHex_some_high _ _ _ hh, hr2.2,
                fin_cons env out (pushWtf8 n1 out) (some n1) (some (uniVal h1 h2 h3 h4)) _ _ _ _ (by
                  intro items; rw [decodeP]; simp [hl, hh, pushWtf8_rev])]
            | false =>
              rw [afterHex_some_scalar _ _ _ hl hh, hr2.1,
                fin_cons env out (pushWtf8 (uniVal h1 h2 h3 h4) (pushWtf8 n1 out)) (some n1) none _ _ _ _ (by
                  intro items; rw [decodeP]; simp [hl, hh, pushWtf8_rev])]
    | [], h, _ => simp at h
    | [_], h, _ => simp at h
    | [_, _], h, _ => simp at h
    | [_, _, _], h, _ => simp at h

/-- after a backslash that is not followed by `u`; `out` already holds whatever was pending -/
theorem esc_case (c : UInt8) (r1 : Bytes) (hc : c ≠ 0x75) (ih : Holds env r1) (out : Bytes) (pos : Nat) :
    runRaw env { out := out, esc := .bs } (c :: r1) (pos + 1) =
      fin env out none pos (r1.length + 2) (lex (0x5c :: c :: r1)) := by
  cases hs : isSimpleEscape c with
  | true =>
    rw [runRaw_next env _ _ (show stepRaw { out := out, esc := .bs } c =
      .next { out := simpleEscape c :: out, esc := .none } by simp [stepRaw, hc, hs])]
    rw [lex_esc c r1 hc hs, show r1.length + 2 = r1.length + (StrItem.esc c).bytes.length by simp [StrItem.bytes],
      fin_cons env out (simpleEscape c :: out) none none _ _ _ _ (by intro items; simp [decodeP])]
    rw [ih.1]; simp [StrItem.bytes]
  | false =>
    rw [runRaw_err env _ _ (show stepRaw { out := out, esc := .bs } c = .err .InvalidEscape by simp [stepRaw, hc, hs])]
    rw [lex_bad c r1 hc hs]; simp [fin]

end main

end SJ.Proofs.Wtf8
