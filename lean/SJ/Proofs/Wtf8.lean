import SJ.Spec.Wtf8
import SJ.Model.Typed
/-!
# `parse_str_raw` (`Model.Typed.parseStrRaw`, the automaton `stepRaw`) against `Spec.Wtf8`

`runRaw_lex`: on EVERY byte string the automaton returns what the item structure (`Spec.Wtf8.lex`) and the
bytes decoding (`Spec.Wtf8.decodeBytes`) say. Proof device: `decodeP`, the decoding with a pending
high surrogate (the automaton's `lead1` state), equal to the look-ahead formulation of the specification.
No Mathlib.
-/
namespace SJ.Proofs.Wtf8
open SJ SJ.Spec.Grammar SJ.Spec.Denote SJ.Spec.Wtf8 SJ.Model.Typed
open SJ.Model.Machine (hex4 hexDigitVal)

/-! ## the specification side -/

/-- decoding with a pending (not yet written) high surrogate -/
def decodeP : Option Nat → List StrItem → Bytes
  | none, [] => []
  | some h, [] => utf8 h
  | none, .raw b :: rest => b :: decodeP none rest
  | some h, .raw b :: rest => utf8 h ++ b :: decodeP none rest
  | none, .esc c :: rest => simpleEscape c :: decodeP none rest
  | some h, .esc c :: rest => utf8 h ++ simpleEscape c :: decodeP none rest
  | none, .uni a b c d :: rest =>
    if isHighSurrogate (uniVal a b c d) then decodeP (some (uniVal a b c d)) rest
    else utf8 (uniVal a b c d) ++ decodeP none rest
  | some h, .uni a b c d :: rest =>
    if isLowSurrogate (uniVal a b c d) then utf8 (pairVal h (uniVal a b c d)) ++ decodeP none rest
    else if isHighSurrogate (uniVal a b c d) then utf8 h ++ decodeP (some (uniVal a b c d)) rest
    else utf8 h ++ (utf8 (uniVal a b c d) ++ decodeP none rest)

theorem not_high_of_low {n : Nat} (h : isLowSurrogate n = true) : isHighSurrogate n = false := by
  simp only [isLowSurrogate, isHighSurrogate, Bool.and_eq_true, decide_eq_true_eq, Bool.and_eq_false_iff,
    decide_eq_false_iff_not] at h ⊢
  omega

theorem decodeBytes_notHigh (a b c d : UInt8) (rest : List StrItem) (h : isHighSurrogate (uniVal a b c d) = false) :
    decodeBytes (.uni a b c d :: rest) = utf8 (uniVal a b c d) ++ decodeBytes rest := by
  cases rest with
  | nil => simp [decodeBytes, h]
  | cons it r => cases it <;> simp [decodeBytes, h]
theorem decodeBytes_pair (a b c d e f g k : UInt8) (rest : List StrItem) (h : isHighSurrogate (uniVal a b c d) = true)
    (hl : isLowSurrogate (uniVal e f g k) = true) :
    decodeBytes (.uni a b c d :: .uni e f g k :: rest) = utf8 (pairVal (uniVal a b c d) (uniVal e f g k)) ++ decodeBytes rest := by
  rw [decodeBytes]; simp [h, hl]
theorem decodeBytes_alone (a b c d : UInt8) (rest : List StrItem) (h : isHighSurrogate (uniVal a b c d) = true)
    (hr : ∀ e f g k rest', rest = .uni e f g k :: rest' → isLowSurrogate (uniVal e f g k) = false) :
    decodeBytes (.uni a b c d :: rest) = utf8 (uniVal a b c d) ++ decodeBytes rest := by
  cases rest with
  | nil => simp [decodeBytes, h]
  | cons it r =>
    cases it with
    | uni e f g k => rw [decodeBytes]; simp [h, hr e f g k r rfl]
    | _ => simp [decodeBytes, h]

theorem decodeP_spec : ∀ items : List StrItem,
    decodeP none items = decodeBytes items ∧
    ∀ a b c d, isHighSurrogate (uniVal a b c d) = true →
      decodeP (some (uniVal a b c d)) items = decodeBytes (.uni a b c d :: items)
  | [] => ⟨rfl, fun a b c d h => by simp [decodeP, decodeBytes, h]⟩
  | .raw x :: rest => by
    obtain ⟨ih1, _⟩ := decodeP_spec rest
    refine ⟨by simp [decodeP, decodeBytes, ih1], fun a b c d h => ?_⟩
    rw [decodeBytes_alone a b c d _ h (by simp)]; simp [decodeP, decodeBytes, ih1]
  | .esc x :: rest => by
    obtain ⟨ih1, _⟩ := decodeP_spec rest
    refine ⟨by simp [decodeP, decodeBytes, ih1], fun a b c d h => ?_⟩
    rw [decodeBytes_alone a b c d _ h (by simp)]; simp [decodeP, decodeBytes, ih1]
  | .uni e f g k :: rest => by
    obtain ⟨ih1, ih2⟩ := decodeP_spec rest
    have h1 : decodeP none (.uni e f g k :: rest) = decodeBytes (.uni e f g k :: rest) := by
      cases hh : isHighSurrogate (uniVal e f g k) with
      | true => rw [decodeP, if_pos hh]; exact ih2 e f g k hh
      | false => rw [decodeBytes_notHigh _ _ _ _ _ hh, decodeP]; simp [hh, ih1]
    refine ⟨h1, fun a b c d h => ?_⟩
    cases hl : isLowSurrogate (uniVal e f g k) with
    | true => rw [decodeBytes_pair _ _ _ _ _ _ _ _ _ h hl, decodeP]; simp [hl, ih1]
    | false =>
      rw [decodeBytes_alone a b c d _ h (by intro e' f' g' k' r' hr; cases hr; exact hl), ← h1]
      cases hh : isHighSurrogate (uniVal e f g k) <;> simp [decodeP, hl, hh]

/-! ## the automaton: the four bytes after `\u` -/

theorem hex4_eq (a b c d : UInt8) :
    hex4 [a, b, c, d] = if isHex a && isHex b && isHex c && isHex d then some (uniVal a b c d) else none := by
  simp only [hex4, hexDigitVal, uniVal]
  cases isHex a <;> cases isHex b <;> cases isHex c <;> cases isHex d <;> simp

/-- the state after a complete `\uXXXX` of value `n` (`parse_unicode_escape`'s loop body) -/
def afterHex (out : Bytes) (lead : Option Nat) (n : Nat) : RawSt :=
  match lead with
  | none =>
    if n < 0xD800 || n > 0xDBFF then { out := pushWtf8 n out, esc := .none } else { out := out, esc := .lead1 n }
  | some n1 =>
    if n < 0xDC00 || n > 0xDFFF then
      (if n < 0xD800 || n > 0xDBFF then { out := pushWtf8 n (pushWtf8 n1 out), esc := .none }
       else { out := pushWtf8 n1 out, esc := .lead1 n })
    else { out := pushWtf8 (0x10000 + (n1 - 0xD800) * 0x400 + (n - 0xDC00)) out, esc := .none }

theorem runRaw_next (env : Env) {st st' : RawSt} {b : UInt8} (r : Bytes) (pos : Nat) (h : stepRaw st b = .next st') :
    runRaw env st (b :: r) pos = runRaw env st' r (pos + 1) := by
  rw [runRaw, h]

theorem runRaw_err (env : Env) {st : RawSt} {b : UInt8} {c : Gen.Code} (r : Bytes) (pos : Nat) (h : stepRaw st b = .err c) :
    runRaw env st (b :: r) pos = .err c (pos + 1) := by
  rw [runRaw, h]

theorem stepRaw_hex_lt (out acc : Bytes) (lead : Option Nat) (b : UInt8) (h : acc.length + 1 < 4) :
    stepRaw { out := out, esc := .hex acc lead } b = .next { out := out, esc := .hex (acc ++ [b]) lead } := by
  simp [stepRaw, h]

theorem stepRaw_hex_last (out acc : Bytes) (lead : Option Nat) (b : UInt8) (h : ¬ acc.length + 1 < 4) :
    stepRaw { out := out, esc := .hex acc lead } b =
      match hex4 (acc ++ [b]) with
      | none => .err .InvalidEscape
      | some n => .next (afterHex out lead n) := by
  simp only [stepRaw, List.length_append, List.length_cons, List.length_nil, h, if_false]
  cases hex4 (acc ++ [b]) with
  | none => rfl
  | some n =>
    cases lead with
    | none => simp only [afterHex]; split <;> rfl
    | some n1 =>
      simp only [afterHex]; split
      · split <;> rfl
      · rfl

theorem runRaw_hex (env : Env) (out : Bytes) (lead : Option Nat) (a b c d : UInt8) (r : Bytes) (pos : Nat) :
    runRaw env { out := out, esc := .hex [] lead } (a :: b :: c :: d :: r) pos =
      match hex4 [a, b, c, d] with
      | none => .err .InvalidEscape (pos + 4)
      | some n => runRaw env (afterHex out lead n) r (pos + 4) := by
  rw [runRaw_next env _ _ (stepRaw_hex_lt out [] lead a (by simp)),
    runRaw_next env _ _ (stepRaw_hex_lt out _ lead b (by simp)),
    runRaw_next env _ _ (stepRaw_hex_lt out _ lead c (by simp))]
  have hl := stepRaw_hex_last out ([] ++ [a] ++ [b] ++ [c]) lead d (by simp)
  simp only [List.nil_append, List.cons_append] at hl ⊢
  cases hh : hex4 [a, b, c, d] with
  | none => rw [hh] at hl; rw [runRaw_err env _ _ hl]
  | some n => rw [hh] at hl; rw [runRaw_next env _ _ hl]

theorem runRaw_hex_short (env : Env) (out : Bytes) (lead : Option Nat) (r : Bytes) (pos : Nat) (h : r.length < 4) :
    runRaw env { out := out, esc := .hex [] lead } r pos = atEof env .EofWhileParsingString (pos + r.length) := by
  match r, h with
  | [], _ => simp [runRaw]
  | [a], _ =>
    rw [runRaw_next env _ _ (stepRaw_hex_lt out [] lead a (by simp))]; simp [runRaw]
  | [a, b], _ =>
    rw [runRaw_next env _ _ (stepRaw_hex_lt out [] lead a (by simp)),
      runRaw_next env _ _ (stepRaw_hex_lt out _ lead b (by simp))]; simp [runRaw]
  | [a, b, c], _ =>
    rw [runRaw_next env _ _ (stepRaw_hex_lt out [] lead a (by simp)),
      runRaw_next env _ _ (stepRaw_hex_lt out _ lead b (by simp)),
      runRaw_next env _ _ (stepRaw_hex_lt out _ lead c (by simp))]; simp [runRaw]

/-! ## the automaton on an arbitrary input -/

/-- what the automaton must return, given the item structure of the unread input: `out` (reversed) is
    already written, `p` is a high surrogate read but not yet written -/
def fin (env : Env) (out : Bytes) (p : Option Nat) (pos len : Nat) : Lex → Res Bytes
  | .ok items rest => .ok (out.reverse ++ decodeP p items) rest (pos + (items.flatMap StrItem.bytes).length + 1)
  | .badEscape n => .err .InvalidEscape (pos + n)
  | .eof => atEof env .EofWhileParsingString (pos + len)

theorem fin_cons (env : Env) (out out' : Bytes) (p p' : Option Nat) (pos len : Nat) (it : StrItem) (l : Lex)
    (hd : ∀ items, out.reverse ++ decodeP p (it :: items) = out'.reverse ++ decodeP p' items) :
    fin env out p pos (len + it.bytes.length) (l.cons it) = fin env out' p' (pos + it.bytes.length) len l := by
  cases l with
  | ok items rest =>
    simp only [Lex.cons, fin, hd, List.flatMap_cons, List.length_append]
    congr 1; omega
  | badEscape n => simp only [Lex.cons, fin]; congr 1; omega
  | eof => simp only [Lex.cons, fin]; congr 1; omega

theorem pushWtf8_rev (n : Nat) (out : Bytes) : (pushWtf8 n out).reverse = out.reverse ++ utf8 n := by
  simp [pushWtf8]

theorem afterHex_none_scalar (out : Bytes) (n : Nat) (h : isHighSurrogate n = false) :
    afterHex out none n = { out := pushWtf8 n out, esc := .none } := by
  have : n < 0xD800 ∨ n > 0xDBFF := by
    simp only [isHighSurrogate, Bool.and_eq_false_iff, decide_eq_false_iff_not] at h; omega
  simp [afterHex, this]

theorem afterHex_none_high (out : Bytes) (n : Nat) (h : isHighSurrogate n = true) :
    afterHex out none n = { out := out, esc := .lead1 n } := by
  have : ¬ (n < 0xD800 ∨ n > 0xDBFF) := by
    simp only [isHighSurrogate, Bool.and_eq_true, decide_eq_true_eq] at h; omega
  simp [afterHex, this]

theorem afterHex_some_low (out : Bytes) (n1 n : Nat) (h : isLowSurrogate n = true) :
    afterHex out (some n1) n = { out := pushWtf8 (pairVal n1 n) out, esc := .none } := by
  have : ¬ (n < 0xDC00 ∨ n > 0xDFFF) := by
    simp only [isLowSurrogate, Bool.and_eq_true, decide_eq_true_eq] at h; omega
  unfold afterHex
  simp only
  rw [if_neg (by simpa using this)]
  rfl

theorem afterHex_some_high (out : Bytes) (n1 n : Nat) (h : isHighSurrogate n = true) :
    afterHex out (some n1) n = { out := pushWtf8 n1 out, esc := .lead1 n } := by
  have h' : ¬ (n < 0xD800 ∨ n > 0xDBFF) := by
    simp only [isHighSurrogate, Bool.and_eq_true, decide_eq_true_eq] at h; omega
  have : n < 0xDC00 ∨ n > 0xDFFF := by omega
  simp [afterHex, this, h']

theorem afterHex_some_scalar (out : Bytes) (n1 n : Nat) (hl : isLowSurrogate n = false) (h : isHighSurrogate n = false) :
    afterHex out (some n1) n = { out := pushWtf8 n (pushWtf8 n1 out), esc := .none } := by
  have h' : n < 0xD800 ∨ n > 0xDBFF := by
    simp only [isHighSurrogate, Bool.and_eq_false_iff, decide_eq_false_iff_not] at h; omega
  have : n < 0xDC00 ∨ n > 0xDFFF := by
    simp only [isLowSurrogate, Bool.and_eq_false_iff, decide_eq_false_iff_not] at hl; omega
  simp [afterHex, this, h']

/-! ### equations of the item structure -/

theorem lex_quote (r : Bytes) : lex (0x22 :: r) = .ok [] r := by rw [lex.eq_def]; rfl
theorem lex_raw (b : UInt8) (r : Bytes) (h1 : b ≠ 0x22) (h2 : b ≠ 0x5c) : lex (b :: r) = (lex r).cons (.raw b) := by
  rw [lex.eq_def]; simp [h1, h2]
theorem lex_bs_nil : lex [0x5c] = .eof := by rw [lex.eq_def]; rfl
theorem lex_esc (c : UInt8) (r : Bytes) (hc : c ≠ 0x75) (hs : isSimpleEscape c = true) :
    lex (0x5c :: c :: r) = (lex r).cons (.esc c) := by rw [lex.eq_def]; simp [hc, hs]
theorem lex_bad (c : UInt8) (r : Bytes) (hc : c ≠ 0x75) (hs : isSimpleEscape c = false) :
    lex (0x5c :: c :: r) = .badEscape 2 := by rw [lex.eq_def]; simp [hc, hs]
theorem lex_uni (h1 h2 h3 h4 : UInt8) (r : Bytes) (hx : (isHex h1 && isHex h2 && isHex h3 && isHex h4) = true) :
    lex (0x5c :: 0x75 :: h1 :: h2 :: h3 :: h4 :: r) = (lex r).cons (.uni h1 h2 h3 h4) := by
  rw [lex.eq_def]; simp only [Bool.and_eq_true] at hx; simp [hx]
theorem lex_unibad (h1 h2 h3 h4 : UInt8) (r : Bytes) (hx : (isHex h1 && isHex h2 && isHex h3 && isHex h4) = false) :
    lex (0x5c :: 0x75 :: h1 :: h2 :: h3 :: h4 :: r) = .badEscape 6 := by
  rw [lex.eq_def]; simp only [show ((0x5c : UInt8) == 0x22) = false by decide, show ((0x5c : UInt8) == 0x5c) = true by decide,
    show ((0x75 : UInt8) == 0x75) = true by decide, hx]; simp
theorem lex_unishort (r : Bytes) (h : r.length < 4) : lex (0x5c :: 0x75 :: r) = .eof := by
  match r, h with
  | [], _ => rw [lex.eq_def]; rfl
  | [_], _ => rw [lex.eq_def]; rfl
  | [_, _], _ => rw [lex.eq_def]; rfl
  | [_, _, _], _ => rw [lex.eq_def]; rfl

section main
variable (env : Env)

/-- the two statements proved together: between items, and with a pending high surrogate -/
def Holds (bs : Bytes) : Prop :=
  (∀ out pos, runRaw env { out := out, esc := .none } bs pos = fin env out none pos bs.length (lex bs)) ∧
  (∀ out pos n1, runRaw env { out := out, esc := .lead1 n1 } bs pos = fin env out (some n1) pos bs.length (lex bs))

/-- after `\u`, with or without a pending high surrogate -/
theorem hex_case (r1 : Bytes) (ih : ∀ bs : Bytes, bs.length < r1.length + 2 → Holds env bs) (out : Bytes)
    (p : Option Nat) (pos : Nat) :
    runRaw env { out := out, esc := .hex [] p } r1 (pos + 2) =
      fin env out p pos (r1.length + 2) (lex (0x5c :: 0x75 :: r1)) := by
  by_cases hlen : r1.length < 4
  · rw [runRaw_hex_short _ _ _ _ _ hlen, lex_unishort _ hlen]; simp only [fin]; congr 1; omega
  · match r1, hlen, ih with
    | h1 :: h2 :: h3 :: h4 :: r2, _, ih =>
      rw [runRaw_hex, hex4_eq]
      cases hx : (isHex h1 && isHex h2 && isHex h3 && isHex h4) with
      | false => rw [lex_unibad _ _ _ _ _ hx]; simp [fin]
      | true =>
        rw [lex_uni _ _ _ _ _ hx]
        simp only [if_true]
        rw [show (h1 :: h2 :: h3 :: h4 :: r2).length + 2 = r2.length + (StrItem.uni h1 h2 h3 h4).bytes.length by
          simp [StrItem.bytes]]
        have hr2 := ih r2 (by simp; omega)
        have hp : pos + 2 + 4 = pos + (StrItem.uni h1 h2 h3 h4).bytes.length := by simp [StrItem.bytes]
        rw [hp]
        cases p with
        | none =>
          cases hh : isHighSurrogate (uniVal h1 h2 h3 h4) with
          | false =>
            rw [afterHex_none_scalar _ _ hh, hr2.1,
              fin_cons env out (pushWtf8 (uniVal h1 h2 h3 h4) out) none none _ _ _ _ (by
                intro items; rw [decodeP]; simp [hh, pushWtf8_rev])]
          | true =>
            rw [afterHex_none_high _ _ hh, hr2.2,
              fin_cons env out out none (some (uniVal h1 h2 h3 h4)) _ _ _ _ (by intro items; rw [decodeP]; simp [hh])]
        | some n1 =>
          cases hl : isLowSurrogate (uniVal h1 h2 h3 h4) with
          | true =>
            rw [afterHex_some_low _ _ _ hl, hr2.1,
              fin_cons env out (pushWtf8 (pairVal n1 (uniVal h1 h2 h3 h4)) out) (some n1) none _ _ _ _ (by
                intro items; rw [decodeP]; simp [hl, pushWtf8_rev])]
          | false =>
            cases hh : isHighSurrogate (uniVal h1 h2 h3 h4) with
            | true =>
              rw [afterHex_some_high _ _ _ hh, hr2.2,
                fin_cons env out (pushWtf8 n1 out) (some n1) (some (uniVal h1 h2 h3 h4)) _ _ _ _ (by
                  intro items; rw [decodeP]; simp [hl, hh, pushWtf8_rev])]
            | false =>
              rw [afterHex_some_scalar _ _ _ hl hh, hr2.1,
                fin_cons env out (pushWtf8 (uniVal h1 h2 h3 h4) (pushWtf8 n1 out)) (some n1) none _ _ _ _ (by
                  intro items; rw [decodeP]; simp [hl, hh, pushWtf8_rev])]
    | [], h, _ => simp at h
    | [_], h, _ => simp at h
    | [_, _], h, _ => simp at h
    | [_, _, _], h, _ => simp at h

/-- after a backslash that is not followed by `u`; `out` already holds whatever was pending -/
theorem esc_case (c : UInt8) (r1 : Bytes) (hc : c ≠ 0x75) (ih : Holds env r1) (out : Bytes) (pos : Nat) :
    runRaw env { out := out, esc := .bs } (c :: r1) (pos + 1) =
      fin env out none pos (r1.length + 2) (lex (0x5c :: c :: r1)) := by
  cases hs : isSimpleEscape c with
  | true =>
    rw [runRaw_next env _ _ (show stepRaw { out := out, esc := .bs } c =
      .next { out := simpleEscape c :: out, esc := .none } by simp [stepRaw, hc, hs])]
    rw [lex_esc c r1 hc hs, show r1.length + 2 = r1.length + (StrItem.esc c).bytes.length by simp [StrItem.bytes],
      fin_cons env out (simpleEscape c :: out) none none _ _ _ _ (by intro items; simp [decodeP])]
    rw [ih.1]; simp [StrItem.bytes]
  | false =>
    rw [runRaw_err env _ _ (show stepRaw { out := out, esc := .bs } c = .err .InvalidEscape by simp [stepRaw, hc, hs])]
    rw [lex_bad c r1 hc hs]; simp [fin]

theorem stepRaw_none_not_again (out : Bytes) (b : UInt8) (s : RawSt) : stepRaw { out := out, esc := .none } b ≠ .again s := by
  simp only [stepRaw]
  split
  · simp
  · split <;> simp

theorem stepRaw_bs_not_again (out : Bytes) (b : UInt8) (s : RawSt) : stepRaw { out := out, esc := .bs } b ≠ .again s := by
  simp only [stepRaw]
  split
  · simp
  · split <;> simp

theorem runRaw_again {st st' : RawSt} {b : UInt8} (r : Bytes) (pos : Nat) (h : stepRaw st b = .again st')
    (h2 : ∀ s, stepRaw st' b ≠ .again s) : runRaw env st (b :: r) pos = runRaw env st' (b :: r) pos := by
  rw [runRaw, h]
  conv => rhs; rw [runRaw]
  cases hs : stepRaw st' b with
  | again s => exact absurd hs (h2 s)
  | _ => simp only [hs]

theorem holds_all : ∀ (n : Nat) (bs : Bytes), bs.length ≤ n → Holds env bs := by
  intro n
  induction n with
  | zero =>
    intro bs h
    have : bs = [] := List.eq_nil_of_length_eq_zero (by omega)
    subst this
    exact ⟨fun out pos => by simp [runRaw, lex, fin], fun out pos n1 => by simp [runRaw, lex, fin]⟩
  | succ n ih =>
    intro bs h
    cases bs with
    | nil => exact ⟨fun out pos => by simp [runRaw, lex, fin], fun out pos n1 => by simp [runRaw, lex, fin]⟩
    | cons b r =>
      have hr : r.length ≤ n := by simpa using h
      have ihr : ∀ bs' : Bytes, bs'.length < r.length + 1 → Holds env bs' := fun bs' h' => ih bs' (by omega)
      -- after a backslash, `out` holding whatever was pending
      have hbs : ∀ out pos, runRaw env { out := out, esc := .bs } r (pos + 1) =
          fin env out none pos (r.length + 1) (lex (0x5c :: r)) := by
        intro out pos
        cases r with
        | nil => simp [runRaw, lex_bs_nil, fin]
        | cons c r1 =>
          by_cases hc : c = 0x75
          · subst hc
            rw [runRaw_next env _ _ (show stepRaw { out := out, esc := .bs } 0x75 =
              .next { out := out, esc := .hex [] none } by simp [stepRaw])]
            exact hex_case env r1 (fun bs' h' => ih bs' (by simp at hr; omega)) out none pos
          · exact esc_case env c r1 hc (ih r1 (by simp at hr; omega)) out pos
      constructor
      · intro out pos
        by_cases hq : b = 0x22
        · subst hq; rw [lex_quote]; simp [runRaw, stepRaw, fin, decodeP]
        · by_cases hb : b = 0x5c
          · subst hb
            rw [runRaw_next env _ _ (show stepRaw { out := out, esc := .none } 0x5c = .next { out := out, esc := .bs } by
              simp [stepRaw])]
            exact hbs out pos
          · rw [runRaw_next env _ _ (show stepRaw { out := out, esc := .none } b = .next { out := b :: out, esc := .none } by
              simp [stepRaw, hq, hb])]
            rw [lex_raw b r hq hb, show (b :: r).length = r.length + (StrItem.raw b).bytes.length by simp [StrItem.bytes],
              fin_cons env out (b :: out) none none _ _ _ _ (by intro items; simp [decodeP])]
            rw [(ih r hr).1]; simp [StrItem.bytes]
      · intro out pos n1
        by_cases hb : b = 0x5c
        · subst hb
          rw [runRaw_next env _ _ (show stepRaw { out := out, esc := .lead1 n1 } 0x5c = .next { out := out, esc := .lead2 n1 } by
            simp [stepRaw])]
          cases r with
          | nil => simp [runRaw, lex_bs_nil, fin]
          | cons c r1 =>
            by_cases hc : c = 0x75
            · subst hc
              rw [runRaw_next env _ _ (show stepRaw { out := out, esc := .lead2 n1 } 0x75 =
                .next { out := out, esc := .hex [] (some n1) } by simp [stepRaw])]
              exact hex_case env r1 (fun bs' h' => ih bs' (by simp at hr; omega)) out (some n1) pos
            · -- `push_wtf8_codepoint(n1); parse_escape(..)`: the peeked byte is dispatched again after `\`
              have hag : runRaw env { out := out, esc := .lead2 n1 } (c :: r1) (pos + 1) =
                  runRaw env { out := pushWtf8 n1 out, esc := .bs } (c :: r1) (pos + 1) := by
                exact runRaw_again env _ _ (by simp [stepRaw, hc]) (stepRaw_bs_not_again _ _)
              rw [hag, esc_case env c r1 hc (ih r1 (by simp at hr; omega)) (pushWtf8 n1 out) pos]
              cases hs : isSimpleEscape c with
              | true =>
                rw [lex_esc c r1 hc hs]
                cases lex r1 <;> simp [Lex.cons, fin, decodeP, pushWtf8_rev]
              | false => rw [lex_bad c r1 hc hs]; simp [fin]
        · -- `push_wtf8_codepoint(n1)`, then the peeked byte is an ordinary one
          have hag : runRaw env { out := out, esc := .lead1 n1 } (b :: r) pos =
              runRaw env { out := pushWtf8 n1 out, esc := .none } (b :: r) pos := by
            exact runRaw_again env _ _ (by simp [stepRaw, hb]) (stepRaw_none_not_again _ _)
          rw [hag]
          by_cases hq : b = 0x22
          · subst hq; rw [lex_quote]; simp [runRaw, stepRaw, fin, decodeP, pushWtf8_rev]
          · rw [runRaw_next env _ _ (show stepRaw { out := pushWtf8 n1 out, esc := .none } b =
              .next { out := b :: pushWtf8 n1 out, esc := .none } by simp [stepRaw, hq, hb])]
            rw [lex_raw b r hq hb, show (b :: r).length = r.length + (StrItem.raw b).bytes.length by simp [StrItem.bytes],
              fin_cons env out (b :: pushWtf8 n1 out) (some n1) none _ _ _ _ (by
                intro items; simp [decodeP, pushWtf8_rev])]
            rw [(ih r hr).1]; simp [StrItem.bytes]

/-- **the automaton against the specification, every input** -/
theorem runRaw_lex (bs : Bytes) (pos : Nat) :
    parseStrRaw env bs pos = fin env [] none pos bs.length (lex bs) :=
  (holds_all env bs.length bs (Nat.le_refl _)).1 [] pos

end main

/-! ## the item structure is the grammar's -/

theorem simple_ne_u {c : UInt8} (h : isSimpleEscape c = true) : c ≠ 0x75 := by
  intro hc; subst hc; revert h; decide

theorem lex_complete (rest : Bytes) : ∀ items : List StrItem, ItemsOK items = true →
    lex (items.flatMap StrItem.bytes ++ 0x22 :: rest) = .ok items rest
  | [], _ => by simpa using lex_quote rest
  | .raw b :: items, h => by
    simp only [ItemsOK, List.all_cons, ItemOK, Bool.and_eq_true, bne_iff_ne, ne_eq] at h
    have ih := lex_complete rest items h.2
    simp only [List.flatMap_cons, StrItem.bytes, List.cons_append, List.nil_append]
    rw [lex_raw b _ h.1.1 h.1.2, ih]; rfl
  | .esc c :: items, h => by
    simp only [ItemsOK, List.all_cons, ItemOK, Bool.and_eq_true] at h
    have ih := lex_complete rest items h.2
    simp only [List.flatMap_cons, StrItem.bytes, List.cons_append, List.nil_append]
    rw [lex_esc c _ (simple_ne_u h.1) h.1, ih]; rfl
  | .uni a b c d :: items, h => by
    simp only [ItemsOK, List.all_cons, ItemOK] at h
    rw [Bool.and_eq_true] at h
    have ih := lex_complete rest items h.2
    simp only [List.flatMap_cons, StrItem.bytes, List.cons_append, List.nil_append]
    rw [lex_uni a b c d _ h.1, ih]; rfl

theorem cons_ok {it : StrItem} {l : Lex} {items : List StrItem} {rest : Bytes} (h : l.cons it = .ok items rest) :
    ∃ items', l = .ok items' rest ∧ items = it :: items' := by
  cases l with
  | ok i r => simp only [Lex.cons, Lex.ok.injEq] at h; exact ⟨i, by rw [h.2], h.1.symm⟩
  | badEscape n => simp [Lex.cons] at h
  | eof => simp [Lex.cons] at h

theorem lex_sound : ∀ (n : Nat) (bs : Bytes), bs.length ≤ n → ∀ items rest, lex bs = .ok items rest →
    ItemsOK items = true ∧ bs = items.flatMap StrItem.bytes ++ 0x22 :: rest := by
  intro n
  induction n with
  | zero =>
    intro bs h items rest hl
    have : bs = [] := List.eq_nil_of_length_eq_zero (by omega)
    subst this; simp [lex] at hl
  | succ n ih =>
    intro bs h items rest hl
    cases bs with
    | nil => simp [lex] at hl
    | cons b r =>
      have hr : r.length ≤ n := by simpa using h
      by_cases hq : b = 0x22
      · subst hq; rw [lex_quote] at hl; cases hl; simp [ItemsOK]
      · by_cases hb : b = 0x5c
        · subst hb
          cases r with
          | nil => rw [lex_bs_nil] at hl; cases hl
          | cons c r1 =>
            by_cases hc : c = 0x75
            · subst hc
              by_cases hlen : r1.length < 4
              · rw [lex_unishort _ hlen] at hl; cases hl
              · match r1, hlen, hr with
                | h1 :: h2 :: h3 :: h4 :: r2, _, hr =>
                  cases hx : (isHex h1 && isHex h2 && isHex h3 && isHex h4) with
                  | false => rw [lex_unibad _ _ _ _ _ hx] at hl; cases hl
                  | true =>
                    rw [lex_uni _ _ _ _ _ hx] at hl
                    obtain ⟨items', hl', rfl⟩ := cons_ok hl
                    obtain ⟨h1', h2'⟩ := ih r2 (by simp at hr; omega) _ _ hl'
                    refine ⟨by simp only [ItemsOK, List.all_cons, ItemOK, hx, Bool.true_and]; exact h1', ?_⟩
                    simp only [List.flatMap_cons, StrItem.bytes, List.cons_append, List.nil_append]; rw [← h2']
                | [], h, _ => simp at h
                | [_], h, _ => simp at h
                | [_, _], h, _ => simp at h
                | [_, _, _], h, _ => simp at h
            · cases hs : isSimpleEscape c with
              | false => rw [lex_bad c r1 hc hs] at hl; cases hl
              | true =>
                rw [lex_esc c r1 hc hs] at hl
                obtain ⟨items', hl', rfl⟩ := cons_ok hl
                obtain ⟨h1', h2'⟩ := ih r1 (by simp at hr; omega) _ _ hl'
                refine ⟨by simp only [ItemsOK, List.all_cons, ItemOK, hs, Bool.true_and]; exact h1', ?_⟩
                simp only [List.flatMap_cons, StrItem.bytes, List.cons_append, List.nil_append]; rw [← h2']
        · rw [lex_raw b r hq hb] at hl
          obtain ⟨items', hl', rfl⟩ := cons_ok hl
          obtain ⟨h1', h2'⟩ := ih r hr _ _ hl'
          refine ⟨by
            have e1 : (b != 0x22) = true := by simpa using hq
            have e2 : (b != 0x5c) = true := by simpa using hb
            simp only [ItemsOK, List.all_cons, ItemOK, e1, e2, Bool.true_and]; exact h1', ?_⟩
          simp only [List.flatMap_cons, StrItem.bytes, List.cons_append, List.nil_append]; rw [← h2']

/-! ## against the text decoding -/

theorem itemsOK_of_strWF (items : List StrItem) (h : StrWF items = true) : ItemsOK items = true := by
  simp only [StrWF, ItemsOK, List.all_eq_true] at h ⊢
  intro it hit
  have := h it hit
  cases it with
  | raw b =>
    simp only [StrItem.WF, isUnescaped, Bool.and_eq_true] at this
    simp only [ItemOK, Bool.and_eq_true]; exact ⟨this.1.2, this.2⟩
  | esc c => exact this
  | uni a b c d => exact this

theorem decodeItems_notHigh (a b c d : UInt8) (rest : List StrItem) (hh : isHighSurrogate (uniVal a b c d) = false) :
    decodeItems (.uni a b c d :: rest) =
      if isLowSurrogate (uniVal a b c d) then none else (decodeItems rest).map (utf8 (uniVal a b c d) ++ ·) := by
  rw [decodeItems.eq_def]; simp [hh]

/-- where the validating decoder accepts, the bytes decoding is the same string -/
theorem decodeBytes_of_decodeItems : ∀ (items : List StrItem) (s : Bytes), decodeItems items = some s → decodeBytes items = s
  | [], s, h => by simp [decodeItems] at h; simp [decodeBytes, h]
  | .raw b :: rest, s, h => by
    simp only [decodeItems, Option.map_eq_some_iff] at h
    obtain ⟨s', hs', rfl⟩ := h
    simp [decodeBytes, decodeBytes_of_decodeItems rest s' hs']
  | .esc c :: rest, s, h => by
    simp only [decodeItems, Option.map_eq_some_iff] at h
    obtain ⟨s', hs', rfl⟩ := h
    simp [decodeBytes, decodeBytes_of_decodeItems rest s' hs']
  | .uni a b c d :: rest, s, h => by
    cases hh : isHighSurrogate (uniVal a b c d) with
    | false =>
      rw [decodeBytes_notHigh _ _ _ _ _ hh]
      have h' : isLowSurrogate (uniVal a b c d) = false ∧ ∃ s', decodeItems rest = some s' ∧ utf8 (uniVal a b c d) ++ s' = s := by
        rw [decodeItems_notHigh _ _ _ _ _ hh] at h
        cases hl : isLowSurrogate (uniVal a b c d) with
        | true => simp [hl] at h
        | false => simpa [hl] using h
      obtain ⟨_, s', hs', rfl⟩ := h'
      rw [decodeBytes_of_decodeItems rest s' hs']
    | true =>
      match rest, h with
      | .uni e f g k :: rest', h =>
        cases hl : isLowSurrogate (uniVal e f g k) with
        | false => simp [decodeItems, hh, hl] at h
        | true =>
          simp only [decodeItems, hh, hl, if_true, Option.map_eq_some_iff] at h
          obtain ⟨s', hs', rfl⟩ := h
          rw [decodeBytes_pair _ _ _ _ _ _ _ _ _ hh hl, decodeBytes_of_decodeItems rest' s' hs']; rfl
      | [], h => simp [decodeItems, hh] at h
      | .raw _ :: _, h => simp [decodeItems, hh] at h
      | .esc _ :: _, h => simp [decodeItems, hh] at h

/-! ## a Bool test for closed examples (`Res` has no `DecidableEq`) -/

def sameRes : Res Bytes → Res Bytes → Bool
  | .ok a r p, .ok a' r' p' => a == a' && r == r' && p == p'
  | .err c i, .err c' i' => c == c' && i == i'
  | .io, .io => true
  | _, _ => false

theorem of_sameRes {a b : Res Bytes} (h : sameRes a b = true) : a = b := by
  cases a <;> cases b <;> simp_all [sameRes]

end SJ.Proofs.Wtf8
