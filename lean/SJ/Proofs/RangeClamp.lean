import SJ.Proofs.RangeLit
/-!
# The driver's executable range verdict is the specification's

`Spec.Range.litFiniteB` evaluates `roundNE64` on the exact value with the written exponent clamped to
`1200 + number of digits` (so that `1e99999999999` is never expanded). For a grammatical literal this is
`Spec.Range.LitFinite`: a clamped positive exponent still puts a non-zero value above `10^1200 > 2^1024`, a clamped
negative one still below `1`.
-/
namespace SJ.Proofs.RangeClamp
open SJ SJ.Spec.Ieee SJ.Spec.Decimal SJ.Model.Num SJ.Proofs.NumInt
open SJ.Spec.Range (LitFinite litFiniteB capOf)
open SJ.Proofs.RangeLit

theorem overflows_scale10_big (D : Nat) (e : Int) (hD : 0 < D) (he : 310 ≤ e) :
    Overflows64 (scale10 D e).1 (scale10 D e).2 := by
  unfold scale10 Overflows64
  rw [if_pos (by omega)]
  simp only [Nat.mul_one]
  have h1 : (10 : Nat) ^ 310 ≤ 10 ^ e.toNat := Nat.pow_le_pow_right (by norm_num) (by omega)
  have h2 : 2 ^ 1024 - 2 ^ 970 ≤ (10 : Nat) ^ 310 := by decide +kernel
  have h3 : 10 ^ e.toNat ≤ D * 10 ^ e.toNat := Nat.le_mul_of_pos_left _ hD
  omega

theorem not_overflows_scale10_small (D n : Nat) (e : Int) (hD : D < 10 ^ n) (he : e ≤ -(n : Int)) :
    ¬ Overflows64 (scale10 D e).1 (scale10 D e).2 := by
  unfold Overflows64
  by_cases h0 : e ≥ 0
  · -- then n = 0, D = 0
    have hn : n = 0 := by omega
    subst hn
    have : D = 0 := by simpa using hD
    subst this
    unfold scale10
    rw [if_pos h0]
    simp only [Nat.zero_mul, Nat.mul_one]
    decide +kernel
  · unfold scale10
    rw [if_neg h0]
    simp only []
    have h1 : (10 : Nat) ^ n ≤ 10 ^ (-e).toNat := Nat.pow_le_pow_right (by norm_num) (by omega)
    have h2 : 1 ≤ 2 ^ 1024 - 2 ^ 970 := by decide +kernel
    have : 10 ^ (-e).toNat ≤ (2 ^ 1024 - 2 ^ 970) * 10 ^ (-e).toNat := Nat.le_mul_of_pos_left _ h2
    omega

theorem not_overflows_zero (e : Int) : ¬ Overflows64 (scale10 0 e).1 (scale10 0 e).2 := by
  have h2 : 0 < 2 ^ 1024 - 2 ^ 970 := by decide +kernel
  unfold Overflows64 scale10
  split
  · simp only [Nat.zero_mul, Nat.mul_one]; omega
  · simp only []
    have : 0 < (2 ^ 1024 - 2 ^ 970) * 10 ^ (-e).toNat := Nat.mul_pos h2 (Nat.pos_of_ne_zero (by simp))
    omega

theorem isDigits_of_all (ds : Bytes) (h : ds.all Spec.Decimal.isDigit = true) : IsDigits ds := by
  intro c hc
  have := List.all_eq_true.1 h c hc
  simpa [Spec.Decimal.isDigit] using this

/-- clamping the written exponent does not change the overflow verdict -/
theorem overflows_clamped_iff (l : NumLit) (hwf : l.WF = true) :
    Overflows64 (l.exactClamped (capOf l)).1 (l.exactClamped (capOf l)).2 ↔ Overflows64 l.exact.1 l.exact.2 := by
  unfold NumLit.exactClamped NumLit.exact NumLit.netExp capOf
  simp only []
  by_cases hle : l.expVal ≤ 1200 + l.digits.length
  · rw [Nat.min_eq_left hle]
  · rw [Nat.min_eq_right (by omega)]
    have hdig : IsDigits l.digits := by
      unfold NumLit.WF at hwf
      simp only [Bool.and_eq_true] at hwf
      unfold NumLit.digits
      intro c hc
      rcases List.mem_append.1 hc with h | h
      · exact isDigits_of_all _ hwf.1.1.1.1 c h
      · exact isDigits_of_all _ hwf.1.1.1.2 c h
    have hD : l.sigVal < 10 ^ l.digits.length := SJ.Proofs.LexBh.natOfDigits_lt _ hdig
    have hf : l.fracDigits.length ≤ l.digits.length := by
      unfold NumLit.digits; rw [List.length_append]; omega
    cases hn : l.expNeg
    · simp only [Bool.false_eq_true, if_false]
      by_cases h0 : l.sigVal = 0
      · rw [h0]
        have z := not_overflows_zero
        exact ⟨fun h => absurd h (z _), fun h => absurd h (z _)⟩
      · have hp : 0 < l.sigVal := Nat.pos_of_ne_zero h0
        exact ⟨fun _ => overflows_scale10_big _ _ hp (by omega), fun _ => overflows_scale10_big _ _ hp (by omega)⟩
    · simp only [if_true]
      exact ⟨fun h => absurd h (not_overflows_scale10_small _ _ _ hD (by omega)),
        fun h => absurd h (not_overflows_scale10_small _ _ _ hD (by omega))⟩

/-- **the executable verdict is the specification.** -/
theorem litFiniteB_iff (l : NumLit) (hwf : l.WF = true) : litFiniteB l = true ↔ LitFinite l := by
  rw [litFinite_iff, ← overflows_clamped_iff l hwf]
  unfold litFiniteB
  have hden : 0 < (l.exactClamped (capOf l)).2 := by
    unfold NumLit.exactClamped; exact SJ.Proofs.LexTopSpec.scale10_den_pos _ _
  obtain ⟨a1, a2⟩ := SJ.Proofs.Ieee.roundNE64_correct l.neg _ _ hden
  constructor
  · intro h ho; rw [a2 ho] at h; cases h
  · intro h; obtain ⟨r, hr, _⟩ := a1 h; rw [hr]; rfl

open SJ.Spec.Grammar (CST StrItem NumParts) in
open SJ.Spec.Range (allNums allNumsList allNumsMembers numsOf numsOfList numsOfMembers) in
mutual
theorem allNums_iff_numsOf (P : NumParts → Prop) : (t : CST) → (allNums P t ↔ ∀ p ∈ numsOf t, P p)
  | .null => by simp [allNums, numsOf]
  | .true_ => by simp [allNums, numsOf]
  | .false_ => by simp [allNums, numsOf]
  | .str _ => by simp [allNums, numsOf]
  | .num p => by simp [allNums, numsOf]
  | .arr xs => by simp only [allNums, numsOf]; exact allNumsList_iff_numsOf P xs
  | .obj ms => by simp only [allNums, numsOf]; exact allNumsMembers_iff_numsOf P ms
theorem allNumsList_iff_numsOf (P : NumParts → Prop) :
    (xs : List CST) → (allNumsList P xs ↔ ∀ p ∈ numsOfList xs, P p)
  | [] => by simp [allNumsList, numsOfList]
  | x :: xs => by
    simp only [allNumsList, numsOfList, List.mem_append, allNums_iff_numsOf P x, allNumsList_iff_numsOf P xs]
    exact ⟨fun h p hp => hp.elim (h.1 p) (h.2 p), fun h => ⟨fun p hp => h p (Or.inl hp), fun p hp => h p (Or.inr hp)⟩⟩
theorem allNumsMembers_iff_numsOf (P : NumParts → Prop) :
    (ms : List (List StrItem × CST)) → (allNumsMembers P ms ↔ ∀ p ∈ numsOfMembers ms, P p)
  | [] => by simp [allNumsMembers, numsOfMembers]
  | (_, x) :: ms => by
    simp only [allNumsMembers, numsOfMembers, List.mem_append, allNums_iff_numsOf P x, allNumsMembers_iff_numsOf P ms]
    exact ⟨fun h p hp => hp.elim (h.1 p) (h.2 p), fun h => ⟨fun p hp => h p (Or.inl hp), fun p hp => h p (Or.inr hp)⟩⟩
end

open SJ.Spec.Grammar (CST) in
/-- **the executable tree verdict is `finiteRange`** (for trees with grammatical literals) -/
theorem finiteRangeB_iff (t : CST) (hwf : Spec.Range.allNums (fun p => p.WF = true) t) :
    Spec.Range.finiteRangeB t = true ↔ Spec.Range.finiteRange t := by
  unfold Spec.Range.finiteRangeB Spec.Range.finiteRange
  rw [List.all_eq_true, allNums_iff_numsOf]
  rw [allNums_iff_numsOf] at hwf
  constructor
  · intro h p hp
    exact (litFiniteB_iff _ (by rw [litOf_eq]; exact SJ.Proofs.NumLinkParser.litOf_wf p (hwf p hp))).1 (h p hp)
  · intro h p hp
    exact (litFiniteB_iff _ (by rw [litOf_eq]; exact SJ.Proofs.NumLinkParser.litOf_wf p (hwf p hp))).2 (h p hp)

end SJ.Proofs.RangeClamp
