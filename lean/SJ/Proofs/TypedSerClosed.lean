import SJ.Proofs.TypedSerValue
import SJ.Proofs.Utf8
/-!
# The `Value`s of well-formed typed values: shape, and closure under the positions the text leg visits
-/
set_option linter.unusedSectionVars false
set_option linter.unusedVariables false

namespace SJ.Proofs.TypedSer
open SJ SJ.Model SJ.Model.TypedSer SJ.Model.Typed SJ.Proofs.Typed

/-! ## shape of `valueOf` -/

theorem shapeWs_map {α : Type} (f : α → JV) : ∀ xs : List α, (∀ x ∈ xs, shapeW (f x) = true) → shapeWs (xs.map f) = true
  | [], _ => rfl
  | x :: xs, h => by
    simp only [List.map_cons, shapeWs, Bool.and_eq_true]
    exact ⟨h x (by simp), shapeWs_map f xs fun y hy => h y (by simp [hy])⟩

theorem finFloats_map {α : Type} (f : α → JV) : ∀ xs : List α, (∀ x ∈ xs, Spec.WF.finiteFloats (f x) = true) → Spec.WF.finiteFloatss (xs.map f) = true
  | [], _ => rfl
  | x :: xs, h => by
    simp only [List.map_cons, Spec.WF.finiteFloatss, Bool.and_eq_true]
    exact ⟨h x (by simp), finFloats_map f xs fun y hy => h y (by simp [hy])⟩

theorem shapeWm_map {α : Type} (k : α → Bytes) (f : α → JV) : ∀ xs : List α,
    (∀ x ∈ xs, Spec.Utf8.validUtf8 (k x) = true ∧ shapeW (f x) = true) → shapeWm (xs.map fun x => (k x, f x)) = true
  | [], _ => rfl
  | x :: xs, h => by
    simp only [List.map_cons, shapeWm, Bool.and_eq_true]
    exact ⟨⟨(h x (by simp)).1, (h x (by simp)).2⟩, shapeWm_map k f xs fun y hy => h y (by simp [hy])⟩

theorem finFloatm_map {α : Type} (k : α → Bytes) (f : α → JV) : ∀ xs : List α,
    (∀ x ∈ xs, Spec.WF.finiteFloats (f x) = true) → Spec.WF.finiteFloatsm (xs.map fun x => (k x, f x)) = true
  | [], _ => rfl
  | x :: xs, h => by
    simp only [List.map_cons, Spec.WF.finiteFloatsm, Bool.and_eq_true]
    exact ⟨h x (by simp), finFloatm_map k f xs fun y hy => h y (by simp [hy])⟩

theorem validUtf8_ascii : ∀ bs : Bytes, (∀ c ∈ bs, c < 0x80) → Spec.Utf8.validUtf8 bs = true
  | [], _ => rfl
  | b :: r, h => by
    have hb := h b (by simp)
    unfold Spec.Utf8.validUtf8
    rw [if_pos hb]
    exact validUtf8_ascii r fun c hc => h c (by simp [hc])

theorem validUtf8_scalar (c : Nat) (h : isScalar c = true) : Spec.Utf8.validUtf8 (Spec.Denote.utf8 c) = true := by
  apply SJ.Proofs.Utf8.validUtf8_utf8
  simp only [isScalar, Bool.or_eq_true, Bool.and_eq_true, decide_eq_true_eq] at h
  omega

theorem validUtf8_keyText (k : KeyKind) (a : TVal) (hk : keyFrag k = true) (h : wfKey k a = true) :
    Spec.Utf8.validUtf8 (Model.TypedSer.keyText k a) = true := by
  cases k with
  | int w =>
    cases a with
    | int n =>
      simp only [Model.TypedSer.keyText]
      apply validUtf8_ascii
      intro c hc
      unfold Spec.Number.decimal at hc
      have hdig : ∀ m, ∀ x ∈ Spec.Number.natDigits m, x < 0x80 := by
        intro m x hx
        have := SJ.Proofs.RoundTripNum.isDigits_natDigits m x hx
        have h2 := UInt8.le_iff_toNat_le.1 this.2
        change x.toNat ≤ 57 at h2
        exact UInt8.lt_iff_toNat_lt.2 (by change x.toNat < 128; omega)
      split at hc
      · rcases List.mem_cons.mp hc with rfl | hc
        · decide
        · exact hdig _ c hc
      · exact hdig _ c hc
    | _ => simp [wfKey] at h
  | string => cases a <;> simp_all [wfKey, Model.TypedSer.keyText]
  | bool =>
    cases a <;> simp_all [wfKey, Model.TypedSer.keyText]
    rename_i b
    cases b <;> decide
  | char =>
    cases a <;> simp_all [wfKey, Model.TypedSer.keyText]
    exact validUtf8_scalar _ h
  | unitEnum names =>
    cases a with
    | variant i p =>
      simp only [wfKey, Bool.and_eq_true, decide_eq_true_eq, namesOK, List.all_eq_true] at h
      obtain ⟨⟨hi, _⟩, hall, _⟩ := h
      simp only [Model.TypedSer.keyText]
      have : names.getD i [] ∈ names := by simp [List.getD, hi]
      exact hall _ this
    | _ => simp [wfKey] at h

theorem vok_intJV (n : Int) : shapeW (intJV n) = true ∧ Spec.WF.finiteFloats (intJV n) = true := by
  unfold intJV
  split <;> simp [shapeW, wfNumW, Spec.WF.finiteFloats, *]

theorem vok_bytes (b : Bytes) : shapeWs (b.map fun x => JV.num (.pos x.toNat)) = true ∧
    Spec.WF.finiteFloatss (b.map fun x => JV.num (.pos x.toNat)) = true :=
  ⟨shapeWs_map _ b fun _ _ => rfl, finFloats_map _ b fun _ _ => rfl⟩

def VOKb (v : JV) : Prop := shapeW v = true ∧ Spec.WF.finiteFloats v = true

mutual
theorem vok_valueOf : ∀ (s : Schema) (v : TVal), fragP false s = true → wfTV s v = true → VOKb (valueOf s v)
  | .bool, v, _, h => by cases v <;> simp_all [wfTV, valueOf, VOKb, shapeW, Spec.WF.finiteFloats]
  | .int w, v, _, h => by
    cases v <;> simp_all [wfTV, valueOf, VOKb]
    exact vok_intJV _
  | .f64, v, _, h => by cases v <;> simp_all [wfTV, valueOf, VOKb, shapeW, wfNumW, Spec.WF.finiteFloats]
  | .f32, v, hf, _ => by simp [fragP] at hf
  | .char, v, _, h => by
    cases v <;> simp_all [wfTV, valueOf, VOKb, shapeW, Spec.WF.finiteFloats]
    exact validUtf8_scalar _ h
  | .string, v, _, h => by cases v <;> simp_all [wfTV, valueOf, VOKb, shapeW, Spec.WF.finiteFloats]
  | .bytes, v, _, h => by
    cases v <;> simp_all [wfTV, valueOf, VOKb, shapeW, Spec.WF.finiteFloats]
    exact vok_bytes _
  | .option s, v, hf, h => by
    cases v with
    | none => simp [valueOf, VOKb, shapeW, Spec.WF.finiteFloats]
    | some x =>
      simp only [wfTV, Bool.and_eq_true] at h
      simp only [valueOf]
      exact vok_valueOf s x (by simpa [fragP] using hf) h.1
    | _ => simp [wfTV] at h
  | .unit, v, _, _ => by simp [valueOf, VOKb, shapeW, Spec.WF.finiteFloats]
  | .unitStruct, v, _, _ => by simp [valueOf, VOKb, shapeW, Spec.WF.finiteFloats]
  | .newtype s, v, hf, h => by
    simp only [wfTV] at h
    simp only [valueOf]
    exact vok_valueOf s v (by simpa [fragP] using hf) h
  | .seq s, v, hf, h => by
    cases v with
    | seq xs =>
      simp only [wfTV, List.all_eq_true] at h
      have ih := fun x hx => vok_valueOf s x (by simpa [fragP] using hf) (h x hx)
      simp only [valueOf, VOKb, shapeW, Spec.WF.finiteFloats]
      exact ⟨shapeWs_map _ xs fun x hx => (ih x hx).1, finFloats_map _ xs fun x hx => (ih x hx).2⟩
    | _ => simp [wfTV] at h
  | .tuple ss, v, hf, h => by
    cases v with
    | seq xs =>
      simp only [wfTV] at h
      simp only [valueOf, VOKb, shapeW, Spec.WF.finiteFloats]
      exact vok_tuple ss xs (by simpa [fragP] using hf) h
    | _ => simp [wfTV] at h
  | .map k s, v, hf, h => by
    cases v with
    | map kvs =>
      simp only [wfTV, List.all_eq_true, Bool.and_eq_true] at h
      have hf' : keyFrag k = true ∧ fragP false s = true := by simpa [fragP] using hf
      have ih := fun kv hx => vok_valueOf s kv.2 hf'.2 (h kv hx).2
      simp only [valueOf, VOKb, shapeW, Spec.WF.finiteFloats]
      exact ⟨shapeWm_map _ _ kvs fun kv hx => ⟨validUtf8_keyText k kv.1 hf'.1 (h kv hx).1, (ih kv hx).1⟩,
        finFloatm_map _ _ kvs fun kv hx => (ih kv hx).2⟩
    | _ => simp [wfTV] at h
  | .struct_ fs d, v, hf, h => by
    cases v with
    | struct_ xs =>
      simp only [wfTV, Bool.and_eq_true, namesOK, List.all_eq_true] at h
      simp only [valueOf, VOKb, shapeW, Spec.WF.finiteFloats]
      exact vok_fields fs xs (by simpa [fragP] using hf) h.2 (fun n hn => h.1.1 n hn)
    | _ => simp [wfTV] at h
  | .enum_ vs, v, hf, h => by
    cases v with
    | variant i p =>
      simp only [wfTV, Bool.and_eq_true, namesOK, List.all_eq_true] at h
      simp only [valueOf]
      exact vok_variant vs i p (by simpa [fragP] using hf) h.2 (fun n hn => h.1.1 n hn)
    | _ => simp [wfTV] at h
  | .ignored, v, _, h => by simp [wfTV] at h
  | .any, v, hf, _ => by simp [fragP] at hf
theorem vok_tuple : ∀ (ss : List Schema) (xs : List TVal), fragPList false ss = true → wfTuple ss xs = true →
    shapeWs (valueTuple ss xs) = true ∧ Spec.WF.finiteFloatss (valueTuple ss xs) = true
  | [], xs, _, _ => by simp [valueTuple, shapeWs, Spec.WF.finiteFloatss]
  | s :: ss, [], _, h => by simp [wfTuple] at h
  | s :: ss, x :: xs, hf, h => by
    simp only [wfTuple, Bool.and_eq_true] at h
    simp only [fragPList, Bool.and_eq_true] at hf
    have h1 := vok_valueOf s x hf.1 h.1
    have h2 := vok_tuple ss xs hf.2 h.2
    simp only [valueTuple, shapeWs, Spec.WF.finiteFloatss, Bool.and_eq_true]
    exact ⟨⟨h1.1, h2.1⟩, h1.2, h2.2⟩
theorem vok_fields : ∀ (fs : List (Bytes × Schema)) (xs : List TVal), fragPFields false fs = true →
    Model.TypedSer.wfFields fs xs = true → (∀ n ∈ fs.map (·.1), Spec.Utf8.validUtf8 n = true) →
    shapeWm (valueFields fs xs) = true ∧ Spec.WF.finiteFloatsm (valueFields fs xs) = true
  | [], xs, _, _, _ => by simp [valueFields, shapeWm, Spec.WF.finiteFloatsm]
  | (n, s) :: fs, [], _, h, _ => by simp [Model.TypedSer.wfFields] at h
  | (n, s) :: fs, x :: xs, hf, h, hn => by
    simp only [Model.TypedSer.wfFields, Bool.and_eq_true] at h
    simp only [fragPFields, Bool.and_eq_true] at hf
    have h1 := vok_valueOf s x hf.1 h.1
    have h2 := vok_fields fs xs hf.2 h.2 (fun m hm => hn m (by simp at hm ⊢; exact .inr hm))
    simp only [valueFields, shapeWm, Spec.WF.finiteFloatsm, Bool.and_eq_true]
    exact ⟨⟨⟨hn n (by simp), h1.1⟩, h2.1⟩, h1.2, h2.2⟩
theorem vok_variant : ∀ (vs : List (Bytes × VariantShape)) (i : Nat) (p : TVal), fragPVariants false vs = true →
    wfVariant vs i p = true → (∀ n ∈ vs.map (·.1), Spec.Utf8.validUtf8 n = true) → VOKb (valueVariant vs i p)
  | [], i, p, _, h, _ => by simp [wfVariant] at h
  | (n, sh) :: vs, 0, p, hf, h, hn => by
    simp only [fragPVariants, Bool.and_eq_true] at hf
    simp only [wfVariant] at h
    simp only [valueVariant]
    exact vok_shape n sh p hf.1 h (hn n (by simp))
  | (n, sh) :: vs, i + 1, p, hf, h, hn => by
    simp only [fragPVariants, Bool.and_eq_true] at hf
    simp only [wfVariant] at h
    simp only [valueVariant]
    exact vok_variant vs i p hf.2 h (fun m hm => hn m (by simp at hm ⊢; exact .inr hm))
theorem vok_shape : ∀ (n : Bytes) (sh : VariantShape) (p : TVal), fragPShape false sh = true → wfShape sh p = true →
    Spec.Utf8.validUtf8 n = true → VOKb (valueShape n sh p)
  | n, .unit, p, _, _, hn => by simp [valueShape, VOKb, shapeW, Spec.WF.finiteFloats, hn]
  | n, .newtype s, p, hf, h, hn => by
    simp only [wfShape] at h
    have := vok_valueOf s p (by simpa [fragPShape] using hf) h
    simp [valueShape, VOKb, shapeW, shapeWm, Spec.WF.finiteFloats, Spec.WF.finiteFloatsm, hn, this.1, this.2]
  | n, .tuple ss, p, hf, h, hn => by
    cases p with
    | seq xs =>
      simp only [wfShape] at h
      have hfl : (!ss.isEmpty && fragPList false ss) = true := by simpa [fragPShape] using hf
      simp only [Bool.and_eq_true] at hfl
      have := vok_tuple ss xs hfl.2 h
      simp [valueShape, VOKb, shapeW, shapeWm, Spec.WF.finiteFloats, Spec.WF.finiteFloatsm, hn, this.1, this.2]
    | _ => simp [wfShape] at h
  | n, .struct_ fs, p, hf, h, hn => by
    cases p with
    | struct_ xs =>
      simp only [wfShape, Bool.and_eq_true, namesOK, List.all_eq_true] at h
      have := vok_fields fs xs (by simpa [fragPShape] using hf) h.2 (fun m hm => h.1.1 m hm)
      simp [valueShape, VOKb, shapeW, shapeWm, Spec.WF.finiteFloats, Spec.WF.finiteFloatsm, hn, this.1, this.2]
    | _ => simp [wfShape] at h
end

mutual
/-- a printer / parser pair that returns every finite double returns the floats of a value with finite floats -/
theorem floatsRT_of_finite (c : Spec.Canon.Cfg) (ext : Spec.Program.Ext)
    (hall : ∀ b, Spec.Program.finite64 b = true → Spec.WF.floatRT c ext b = true) :
    ∀ v : JV, Spec.WF.finiteFloats v = true → Spec.WF.floatsRT c ext v = true
  | .null, _ | .bool _, _ | .str _, _ => rfl
  | .num n, h => by
    cases n with
    | float b => simp only [Spec.WF.finiteFloats] at h; simp only [Spec.WF.floatsRT]; exact hall b h
    | _ => rfl
  | .arr xs, h => by simp only [Spec.WF.finiteFloats, Spec.WF.floatsRT] at h ⊢; exact floatsRTs_of_finite c ext hall xs h
  | .obj kvs, h => by simp only [Spec.WF.finiteFloats, Spec.WF.floatsRT] at h ⊢; exact floatsRTm_of_finite c ext hall kvs h
theorem floatsRTs_of_finite (c : Spec.Canon.Cfg) (ext : Spec.Program.Ext)
    (hall : ∀ b, Spec.Program.finite64 b = true → Spec.WF.floatRT c ext b = true) :
    ∀ xs : List JV, Spec.WF.finiteFloatss xs = true → Spec.WF.floatsRTs c ext xs = true
  | [], _ => rfl
  | x :: xs, h => by
    simp only [Spec.WF.finiteFloatss, Spec.WF.floatsRTs, Bool.and_eq_true] at h ⊢
    exact ⟨floatsRT_of_finite c ext hall x h.1, floatsRTs_of_finite c ext hall xs h.2⟩
theorem floatsRTm_of_finite (c : Spec.Canon.Cfg) (ext : Spec.Program.Ext)
    (hall : ∀ b, Spec.Program.finite64 b = true → Spec.WF.floatRT c ext b = true) :
    ∀ kvs : List (Bytes × JV), Spec.WF.finiteFloatsm kvs = true → Spec.WF.floatsRTm c ext kvs = true
  | [], _ => rfl
  | (k, x) :: kvs, h => by
    simp only [Spec.WF.finiteFloatsm, Spec.WF.floatsRTm, Bool.and_eq_true] at h ⊢
    exact ⟨floatsRT_of_finite c ext hall x h.1, floatsRTm_of_finite c ext hall kvs h.2⟩
end

/-! ## the invariant of the typed round trip: the value is the `Value` of a well-formed typed value -/

def RT (s : Schema) (v : JV) : Prop := ∃ tv, wfTV s tv = true ∧ v = valueOf s tv

theorem tupR_valueTuple : ∀ (ss : List Schema) (xs : List TVal), wfTuple ss xs = true → TupR RT ss (valueTuple ss xs)
  | [], xs, _ => by simp [valueTuple]; trivial
  | s :: ss, [], h => by simp [wfTuple] at h
  | s :: ss, x :: xs, h => by
    simp only [wfTuple, Bool.and_eq_true] at h
    simp only [valueTuple]
    exact ⟨⟨x, h.1, rfl⟩, tupR_valueTuple ss xs h.2⟩

/-- a member of the object written for a struct is the `Value` of some field, at that field's name -/
theorem valueFields_mem : ∀ (fs : List (Bytes × Schema)) (xs : List TVal), Model.TypedSer.wfFields fs xs = true →
    ∀ kv ∈ valueFields fs xs, ∃ (j : Nat) (s : Schema) (y : TVal), fs[j]? = some (kv.1, s) ∧ wfTV s y = true ∧ kv.2 = valueOf s y
  | [], xs, _, kv, hkv => by simp [valueFields] at hkv
  | (n, s) :: fs, [], h, _, _ => by simp [Model.TypedSer.wfFields] at h
  | (n, s) :: fs, x :: xs, h, kv, hkv => by
    simp only [Model.TypedSer.wfFields, Bool.and_eq_true] at h
    simp only [valueFields, List.mem_cons] at hkv
    rcases hkv with rfl | hkv
    · exact ⟨0, s, x, rfl, h.1, rfl⟩
    · obtain ⟨j, s', y, h1, h2, h3⟩ := valueFields_mem fs xs h.2 kv hkv
      exact ⟨j + 1, s', y, by simpa using h1, h2, h3⟩

theorem distinct_unique : ∀ (vs : List (Bytes × VariantShape)) (k : Bytes) (a b : VariantShape),
    distinctNames (vs.map (·.1)) = true → (k, a) ∈ vs → (k, b) ∈ vs → a = b
  | [], _, _, _, _, h, _ => by simp at h
  | (n, sh) :: vs, k, a, b, hd, ha, hb => by
    simp only [List.map_cons, distinctNames, Bool.and_eq_true, Bool.not_eq_true'] at hd
    have hnot : ∀ c, (n, c) ∈ vs → False := by
      intro c hc
      have : n ∈ vs.map (·.1) := List.mem_map.mpr ⟨(n, c), hc, rfl⟩
      have h2 : (vs.map (·.1)).contains n = true := by simpa using this
      rw [hd.1] at h2; cases h2
    rcases List.mem_cons.mp ha with ha | ha <;> rcases List.mem_cons.mp hb with hb | hb
    · cases ha; cases hb; rfl
    · cases ha; exact (hnot b hb).elim
    · cases hb; exact (hnot a ha).elim
    · exact distinct_unique vs k a b hd.2 ha hb

theorem closed_RT : Closed RT where
  option := by
    rintro s v ⟨tv, hw, rfl⟩ hnn
    cases tv with
    | none => simp [valueOf] at hnn
    | some x =>
      simp only [wfTV, Bool.and_eq_true] at hw
      exact ⟨x, hw.1, rfl⟩
    | _ => simp [wfTV] at hw
  newtype := by
    rintro s v ⟨tv, hw, rfl⟩
    simp only [wfTV] at hw
    exact ⟨tv, hw, rfl⟩
  seq := by
    rintro s xs ⟨tv, hw, he⟩ x hx
    cases tv with
    | seq ys =>
      simp only [wfTV, List.all_eq_true] at hw
      simp only [valueOf, JV.arr.injEq] at he
      subst he
      obtain ⟨y, hy, rfl⟩ := List.mem_map.mp hx
      exact ⟨y, hw y hy, rfl⟩
    | _ => simp [wfTV] at hw
  tuple := by
    rintro ss xs ⟨tv, hw, he⟩
    cases tv with
    | seq ys =>
      simp only [wfTV] at hw
      simp only [valueOf, JV.arr.injEq] at he
      subst he
      exact tupR_valueTuple ss ys hw
    | _ => simp [wfTV] at hw
  map := by
    rintro k s kvs ⟨tv, hw, he⟩ kv hx
    cases tv with
    | map ys =>
      simp only [wfTV, List.all_eq_true, Bool.and_eq_true] at hw
      simp only [valueOf, JV.obj.injEq] at he
      subst he
      obtain ⟨y, hy, rfl⟩ := List.mem_map.mp hx
      exact ⟨y.2, (hw y hy).2, rfl⟩
    | _ => simp [wfTV] at hw
  structArr := by
    rintro fs d xs ⟨tv, hw, he⟩
    cases tv <;> simp [wfTV, valueOf] at hw he
  structObj := by
    rintro fs d kvs ⟨tv, hw, he⟩ kv hx i nm s hni hfi
    cases tv with
    | struct_ ys =>
      simp only [wfTV, Bool.and_eq_true, namesOK] at hw
      simp only [valueOf, JV.obj.injEq] at he
      subst he
      obtain ⟨j, s', y, h1, h2, h3⟩ := valueFields_mem fs ys hw.2 kv hx
      have hnj : FromValue.nameIndex (fieldNames fs) kv.1 = some j :=
        nameIndex_of_distinct _ j kv.1 hw.1.2 (by simp [fieldNames, h1])
      rw [hnj] at hni
      cases hni
      rw [h1] at hfi
      cases hfi
      exact ⟨y, h2, h3⟩
    | _ => simp [wfTV] at hw
  enumPayload := by
    rintro vs k x kvs ⟨tv, hw, he⟩ sh hmem
    cases tv with
    | variant i p =>
      simp only [wfTV, Bool.and_eq_true, namesOK] at hw
      obtain ⟨n, sh0, hget, hws, hval⟩ := wfVariant_get vs i p hw.2
      simp only [valueOf] at he
      rw [hval] at he
      have hmem0 : (n, sh0) ∈ vs := List.mem_of_getElem? hget
      cases sh0 with
      | unit => simp [valueShape] at he
      | newtype s0 =>
        simp only [valueShape, JV.obj.injEq, List.cons.injEq, Prod.mk.injEq] at he
        obtain ⟨⟨rfl, rfl⟩, _⟩ := he
        have := distinct_unique vs k sh (.newtype s0) hw.1.2 hmem hmem0
        subst this
        exact ⟨p, hws, rfl⟩
      | tuple ss =>
        cases p with
        | seq ys =>
          simp only [valueShape, JV.obj.injEq, List.cons.injEq, Prod.mk.injEq] at he
          obtain ⟨⟨rfl, rfl⟩, _⟩ := he
          have := distinct_unique vs k sh (.tuple ss) hw.1.2 hmem hmem0
          subst this
          exact ⟨.seq ys, hws, rfl⟩
        | _ => simp [wfShape] at hws
      | struct_ fs =>
        cases p with
        | struct_ ys =>
          simp only [valueShape, JV.obj.injEq, List.cons.injEq, Prod.mk.injEq] at he
          obtain ⟨⟨rfl, rfl⟩, _⟩ := he
          have := distinct_unique vs k sh (.struct_ fs) hw.1.2 hmem hmem0
          subst this
          exact ⟨.struct_ ys, hws, rfl⟩
        | _ => simp [wfShape] at hws
    | _ => simp [wfTV] at hw
  enumExcl := by
    rintro vs k x ⟨tv, hw, he⟩ fs hmem xs hx
    subst hx
    cases tv with
    | variant i p =>
      simp only [wfTV, Bool.and_eq_true, namesOK] at hw
      obtain ⟨n, sh0, hget, hws, hval⟩ := wfVariant_get vs i p hw.2
      simp only [valueOf] at he
      rw [hval] at he
      have hmem0 : (n, sh0) ∈ vs := List.mem_of_getElem? hget
      cases sh0 with
      | unit => simp [valueShape] at he
      | newtype s0 =>
        simp only [valueShape, JV.obj.injEq, List.cons.injEq, Prod.mk.injEq] at he
        obtain ⟨⟨rfl, _⟩, _⟩ := he
        have := distinct_unique vs k (.struct_ fs) (.newtype s0) hw.1.2 hmem hmem0
        cases this
      | tuple ss =>
        cases p with
        | seq ys =>
          simp only [valueShape, JV.obj.injEq, List.cons.injEq, Prod.mk.injEq] at he
          obtain ⟨⟨rfl, _⟩, _⟩ := he
          have := distinct_unique vs k (.struct_ fs) (.tuple ss) hw.1.2 hmem hmem0
          cases this
        | _ => simp [wfShape] at hws
      | struct_ fs0 =>
        cases p with
        | struct_ ys =>
          simp only [valueShape, JV.obj.injEq, List.cons.injEq, Prod.mk.injEq] at he
          obtain ⟨⟨_, h2⟩, _⟩ := he
          cases h2
        | _ => simp [wfShape] at hws
    | _ => simp [wfTV] at hw

/-- an integer member is written as an integer: no float under an integer target -/
theorem rt_int_notFloat (w : IntTy) (v : JV) (h : RT (.int w) v) (b : UInt64) : v ≠ .num (.float b) := by
  obtain ⟨tv, hw, rfl⟩ := h
  cases tv <;> simp [wfTV] at hw
  simp only [valueOf, intJV]
  split <;> simp

/-- an `f64` member is written as a float: no integer under an `f64` target -/
theorem rt_f64_range (v : JV) (h : RT .f64 v) : SJ.Proofs.TypedFloat.IntRangeOK v := by
  obtain ⟨tv, hw, rfl⟩ := h
  cases tv <;> simp [wfTV] at hw
  constructor <;> intro _ h <;> simp [valueOf] at h

/-- a struct is written as an object, never as an array -/
theorem rt_struct_notArr (fs : List (Bytes × Schema)) (dn : Bool) (xs : List JV) : ¬ RT (.struct_ fs dn) (.arr xs) := by
  rintro ⟨tv, hw, he⟩
  cases tv <;> simp [wfTV, valueOf] at hw he

/-- every member of the object written for a struct names a field -/
theorem rt_struct_known (fs : List (Bytes × Schema)) (dn : Bool) (kvs : List (Bytes × JV)) (h : RT (.struct_ fs dn) (.obj kvs)) :
    ∀ kv ∈ kvs, FromValue.nameIndex (fieldNames fs) kv.1 ≠ none := by
  obtain ⟨tv, hw, he⟩ := h
  cases tv with
  | struct_ ys =>
    simp only [wfTV, Bool.and_eq_true, namesOK] at hw
    simp only [valueOf, JV.obj.injEq] at he
    subst he
    intro kv hx
    obtain ⟨j, s', y, h1, _, _⟩ := valueFields_mem fs ys hw.2 kv hx
    have hnj : FromValue.nameIndex (fieldNames fs) kv.1 = some j :=
      nameIndex_of_distinct _ j kv.1 hw.1.2 (by simp [fieldNames, h1])
    rw [hnj]; exact fun h => by cases h
  | _ => simp [wfTV] at hw

end SJ.Proofs.TypedSer
