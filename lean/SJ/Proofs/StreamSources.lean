import SJ.Props.C09
import SJ.Props.C19
import SJ.Model.Stream
/-!
# C09 helper lemmas: `runPrefix`, `next()` and whole stream histories do not depend on the input source

* slice vs reader: `runPrefix_slice_reader` (every state, every input), hence `next` and `history`.
* `&str` vs slice: `runPrefix_str_slice` under the UTF-8 invariant `UInv` of `Proofs/Utf8Machine.lean`; the
  unread input of a stream over valid UTF-8 stays valid UTF-8 after every successfully read value
  (`next_valid`: the machine stops at an ASCII boundary), so the whole histories coincide.
-/
namespace SJ.Proofs.StreamSources
open SJ SJ.Gen SJ.Model.Machine SJ.Model.Stream SJ.Proofs.Machine SJ.Props.C09 SJ.Proofs.Utf8
open SJ.Spec.Utf8 (validUtf8)

/-! ## slice vs reader -/

theorem runPrefix_slice_reader (cfg : Cfg) (tgt : Tgt) (bs : Bytes) : ∀ (s : St) (i : Nat),
    runPrefix (envOf cfg .slice tgt) s i bs = runPrefix (envOf cfg .reader tgt) s i bs := by
  induction bs with
  | nil => intro s i; rfl
  | cons b bs ih =>
    intro s i
    have herr : ∀ (s0 : St) (c : Code) (a : Adj), step1 (envOf cfg .reader tgt) s0 b = .err c a →
        errIdx (envOf cfg .slice tgt) a i = errIdx (envOf cfg .reader tgt) a i := by
      intro s0 c a h
      have ha := (step1_err _ _ _ _ _ h).1
      subst ha; rfl
    unfold runPrefix
    rw [step1_src]
    cases h1 : step1 (envOf cfg .reader tgt) s b with
    | err c a => simp only [herr s c a h1]
    | next s' =>
      simp only
      cases s'.mode <;> first | rfl | exact ih _ _
    | again s' =>
      simp only
      cases s'.mode <;> first
        | rfl
        | (rw [step1_src]
           cases h2 : step1 (envOf cfg .reader tgt) s' b with
           | err c a => simp only [herr s' c a h2]
           | again s'' => rfl
           | next s'' =>
             simp only
             cases s''.mode <;> first | rfl | exact ih _ _)

theorem next_congr (env₁ env₂ : Env) (st : SS)
    (h : st.failed = false → runPrefix env₁ init (skipWs st.rest st.pos).2 (skipWs st.rest st.pos).1 =
      runPrefix env₂ init (skipWs st.rest st.pos).2 (skipWs st.rest st.pos).1) :
    next env₁ st = next env₂ st := by
  unfold next
  cases hf : st.failed with
  | true => rfl
  | false =>
    simp only [Bool.false_eq_true, if_false]
    have := h hf
    generalize skipWs st.rest st.pos = sk at this
    obtain ⟨r, p⟩ := sk
    simp only at this ⊢
    cases r with
    | nil => rfl
    | cons b r' => simp only [this]

theorem history_slice_reader (cfg : Cfg) (tgt : Tgt) : ∀ (k : Nat) (st : SS),
    history (envOf cfg .slice tgt) k st = history (envOf cfg .reader tgt) k st
  | 0, _ => rfl
  | k + 1, st => by
    simp only [history]
    rw [next_congr _ _ st (fun _ => runPrefix_slice_reader cfg tgt _ _ _), history_slice_reader cfg tgt k]

/-! ## `&str` vs slice -/

theorem runPrefix_str_slice (cfg : Cfg) (tgt : Tgt) (bs : Bytes) : ∀ (s : St) (i : Nat), UInv s bs →
    runPrefix (envStr cfg tgt) s i bs = runPrefix (envSlice cfg tgt) s i bs := by
  induction bs with
  | nil => intro s i _; rfl
  | cons b bs ih =>
    intro s i h
    have herr : ∀ (a : Adj), errIdx (envStr cfg tgt) a i = errIdx (envSlice cfg tgt) a i := by
      intro a; cases a <;> rfl
    have hu := step1_uinv (envSlice cfg tgt) s b bs h
    unfold runPrefix
    rw [step1_src_eq cfg tgt s b bs h]
    cases h1 : step1 (envSlice cfg tgt) s b with
    | err c a => simp only [herr]
    | next s' =>
      rw [h1] at hu
      simp only
      cases s'.mode <;> first | rfl | exact ih _ _ hu
    | again s' =>
      rw [h1] at hu
      have hu2 := step1_uinv (envSlice cfg tgt) s' b bs hu
      simp only
      cases s'.mode <;> first
        | rfl
        | (rw [step1_src_eq cfg tgt s' b bs hu]
           cases h2 : step1 (envSlice cfg tgt) s' b with
           | err c a => simp only [herr]
           | again s'' => rfl
           | next s'' =>
             rw [h2] at hu2
             simp only
             cases s''.mode <;> first | rfl | exact ih _ _ hu2)

theorem skipWs_valid (rest : Bytes) (pos : Nat) (h : validUtf8 rest = true) :
    validUtf8 (skipWs rest pos).1 = true := by
  induction rest generalizing pos with
  | nil => exact h
  | cons b r ih =>
    unfold skipWs
    split
    · rename_i hb
      rw [validUtf8_cons_ascii (mWs_ascii hb)] at h
      exact ih _ h
    · exact h

theorem finish_ok_mode (env : Env) (s : St) (v : JV) (h : finish env s = .ok v) :
    (∃ v', s.mode = .done v') ∨ (∃ n, s.mode = .num n) := by
  unfold finish at h
  cases hm : s.mode with
  | done v' => exact .inl ⟨v', rfl⟩
  | num n => exact .inr ⟨n, rfl⟩
  | val ctx => rw [hm] at h; simp only [finishMode, hm] at h; cases ctx <;> simp at h
  | lit r v' => rw [hm] at h; simp [finishMode, hm] at h
  | str st => rw [hm] at h; simp [finishMode, hm] at h
  | afterElem => rw [hm] at h; simp [finishMode, hm] at h
  | objFirst => rw [hm] at h; simp [finishMode, hm] at h
  | objNextKey => rw [hm] at h; simp only [finishMode, hm] at h; split at h <;> simp at h
  | afterKey => rw [hm] at h; simp [finishMode, hm] at h
  | afterMember => rw [hm] at h; simp [finishMode, hm] at h

/-- after a value has been read from valid UTF-8 input, what is left is valid UTF-8 -/
theorem runPrefix_rest_valid (env : Env) (p : Nat) (r : Bytes) (v : JV) (e : Nat)
    (hv : validUtf8 r = true) (h : runPrefix env init p r = .ok v e) : validUtf8 (r.drop (e - p)) = true := by
  obtain ⟨s', hf, hfin⟩ := SJ.Props.C19.runPrefix_feed env init p r v e h
  have hu : UInv s' (r.drop (e - p)) :=
    feed_uinv env (r.take (e - p)) init p (r.drop (e - p)) s' e (by rw [List.take_append_drop]; exact hv) hf
  rcases finish_ok_mode env s' v hfin with ⟨v', hm⟩ | ⟨n, hm⟩ <;> (unfold UInv at hu; rw [hm] at hu; exact hu)

/-- the stream state is failed, or its unread input is valid UTF-8 -/
def Valid (st : SS) : Prop := st.failed = true ∨ validUtf8 st.rest = true

theorem next_valid (env : Env) (st : SS) (h : Valid st) : Valid (next env st).2 := by
  unfold next
  cases hf : st.failed with
  | true => exact .inl hf
  | false =>
    have hv : validUtf8 st.rest = true := by
      rcases h with h | h
      · rw [hf] at h; cases h
      · exact h
    simp only [Bool.false_eq_true, if_false]
    have hr := skipWs_valid st.rest st.pos hv
    generalize skipWs st.rest st.pos = sk at hr
    obtain ⟨r, p⟩ := sk
    simp only at hr ⊢
    cases r with
    | nil => exact .inr rfl
    | cons b r' =>
      simp only
      cases hrun : runPrefix env init p (b :: r') with
      | err c idx => exact .inl rfl
      | ok v e =>
        have := runPrefix_rest_valid env p (b :: r') v e hr hrun
        simp only
        split
        · exact .inr this
        · split
          · exact .inr this
          · split <;> exact .inr this

theorem next_str_slice (cfg : Cfg) (tgt : Tgt) (st : SS) (h : Valid st) :
    next (envStr cfg tgt) st = next (envSlice cfg tgt) st := by
  apply next_congr
  intro hf
  have hv : validUtf8 st.rest = true := by
    rcases h with h | h
    · rw [hf] at h; cases h
    · exact h
  exact runPrefix_str_slice cfg tgt _ init _ (skipWs_valid st.rest st.pos hv)

theorem history_str_slice (cfg : Cfg) (tgt : Tgt) : ∀ (k : Nat) (st : SS), Valid st →
    history (envStr cfg tgt) k st = history (envSlice cfg tgt) k st
  | 0, _, _ => rfl
  | k + 1, st, h => by
    simp only [history]
    rw [next_str_slice cfg tgt st h, history_str_slice cfg tgt k _ (next_valid _ st h)]

end SJ.Proofs.StreamSources
