import SJ.Proofs.MachineApSync
import SJ.Proofs.Complete.Str
import SJ.Proofs.Utf8
/-!
# The token phases of `MachineAp`: what follows a first key equal to the token

`token_tail_accepts` / `token_tail_sound`: from the state right after such a key (any depth, any surrounding
containers `fs`), the run continues as if the whole object were the number `txt` exactly when the unread input is
`ws : ws "…" ws }` with the string decoding to a number literal `txt` (`Spec.PrivateToken.TokenTail`); otherwise it
never succeeds. `tail_not_string`, `tail_not_number`, `tail_extra` give the specific errors.
-/
namespace SJ.Proofs.MachineAp
open SJ SJ.Gen SJ.Model.Machine SJ.Proofs.Sound
open SJ.Spec.Grammar (StrItem StrWF strBytes Ws IsNumber isHex)
open SJ.Spec.Denote (decodeItems)
open SJ.Spec.PrivateToken (TokenTail)
open SJ.Model.MachineAp (triggered liftStep ofMachine TPhase stepTok fromStr Fail)

abbrev ASt := Model.MachineAp.St
abbrev arun := Model.MachineAp.run
abbrev astep := Model.MachineAp.step
abbrev AOut := Model.MachineAp.Outcome

/-! ## runs -/

theorem arun_cons_ok (env : Env) (s s' : ASt) (i : Nat) (b : UInt8) (bs : Bytes) (h : astep env s b = .ok s') :
    arun env s i (b :: bs) = arun env s' (i + 1) bs := by
  show Model.MachineAp.run env s i (b :: bs) = _
  conv => lhs; unfold Model.MachineAp.run
  rw [show Model.MachineAp.step env s b = .ok s' from h]

theorem arun_cons_ok' (env : Env) (s : ASt) (i : Nat) (b : UInt8) (bs : Bytes) (v : JV)
    (h : arun env s i (b :: bs) = .ok v) : ∃ s', astep env s b = .ok s' ∧ arun env s' (i + 1) bs = .ok v := by
  change Model.MachineAp.run env s i (b :: bs) = .ok v at h
  unfold Model.MachineAp.run at h
  cases hs : Model.MachineAp.step env s b with
  | ok s' => rw [hs] at h; exact ⟨s', hs, h⟩
  | error e => rw [hs] at h; cases e <;> cases h

/-- feeding whitespace to a state that skips it -/
theorem arun_ws (env : Env) (s : ASt) (hs : ∀ b, isWs b = true → astep env s b = .ok s) :
    ∀ (w : Bytes) (i : Nat) (r : Bytes), Ws w → arun env s i (w ++ r) = arun env s (i + w.length) r
  | [], i, r, _ => by simp
  | b :: w, i, r, hw => by
    simp only [Ws, List.all_cons, Bool.and_eq_true] at hw
    have hb : isWs b = true := by rw [isWs_eq]; exact hw.1
    rw [List.cons_append, arun_cons_ok env s s i b _ (hs b hb), arun_ws env s hs w (i + 1) r (by simpa [Ws] using hw.2)]
    congr 1; simp; omega

theorem ws_not_colon (b : UInt8) (h : isWs b = true) : (b == 0x3a) = false := by
  cases hx : (b == 0x3a) with
  | false => rfl
  | true => have : b = 0x3a := by simpa using hx
            subst this; revert h; decide

theorem ws_facts (b : UInt8) (h : isWs b = true) :
    (b == 0x22) = false ∧ (b == 0x5b) = false ∧ (b == 0x7b) = false ∧ (b == 0x7d) = false ∧ (b == 0x2c) = false := by
  have key : ∀ c : UInt8, isWs c = false → (b == c) = false := by
    intro c hc
    cases hx : (b == c) with
    | false => rfl
    | true => have hb : b = c := by simpa using hx
              subst hb; rw [h] at hc; cases hc
  exact ⟨key _ (by decide), key _ (by decide), key _ (by decide), key _ (by decide), key _ (by decide)⟩

/-! ## single steps (the `Value` target under `arbitrary_precision`) -/

section steps
variable (env : Env)

theorem step_afterKey_ws (fs : List Frame) (b : UInt8) (hw : isWs b = true) :
    astep env (.base ⟨.afterKey, fs⟩) b = .ok (.base ⟨.afterKey, fs⟩) := by
  have : triggered env ⟨.afterKey, fs⟩ b = none := by
    unfold triggered; simp [ws_not_colon b hw]
  show Model.MachineAp.step env _ b = _
  rw [step_base_eq env _ b this]
  simp [step, step1, hw, liftRes]

theorem step_afterKey_colon (hap : env.cfg.ap = true) (hv : env.tgt = .value) (fs : List Frame) :
    astep env (.base ⟨.afterKey, .obj [] Model.MachineAp.token :: fs⟩) 0x3a = .ok (.tok .val fs) := by
  show Model.MachineAp.step env _ _ = _
  unfold Model.MachineAp.step Model.MachineAp.step1 triggered
  simp [hap, hv]

theorem step_afterKey_other (fs : List Frame) (b : UInt8) (hw : isWs b = false) (hc : (b == 0x3a) = false) :
    astep env (.base ⟨.afterKey, fs⟩) b = .error (.err .ExpectedColon .incl) := by
  have : triggered env ⟨.afterKey, fs⟩ b = none := by
    unfold triggered; simp [hc]
  show Model.MachineAp.step env _ b = _
  rw [step_base_eq env _ b this]
  simp [step, step1, hw, hc, liftRes]

theorem step_val_ws (fs : List Frame) (b : UInt8) (hw : isWs b = true) :
    astep env (.tok .val fs) b = .ok (.tok .val fs) := by
  show Model.MachineAp.step env _ b = _
  simp [Model.MachineAp.step, Model.MachineAp.step1, stepTok, hw]

theorem step_val_quote (fs : List Frame) : astep env (.tok .val fs) 0x22 = .ok (.tok (.str {}) fs) := by
  show Model.MachineAp.step env _ _ = _
  have : isWs 0x22 = false := by decide
  simp [Model.MachineAp.step, Model.MachineAp.step1, stepTok, this]

theorem step_val_container (fs : List Frame) (b : UInt8) (hb : (b == 0x5b || b == 0x7b) = true) :
    astep env (.tok .val fs) b = .error (.data .excl) := by
  have hw : isWs b = false := by
    cases hx : isWs b with
    | false => rfl
    | true => have := ws_facts b hx; simp [this.2.1, this.2.2.1] at hb
  have hq : (b == 0x22) = false := by
    rcases Bool.or_eq_true _ _ ▸ hb with h | h
    · exact ne_of_beq_lit h (by decide)
    · exact ne_of_beq_lit h (by decide)
  show Model.MachineAp.step env _ b = _
  simp only [Model.MachineAp.step, Model.MachineAp.step1, stepTok, hw, hq, hb, Bool.false_eq_true, if_false, if_true]

theorem step_endMap_ws (fs : List Frame) (txt : Bytes) (b : UInt8) (hw : isWs b = true) :
    astep env (.tok (.endMap txt) fs) b = .ok (.tok (.endMap txt) fs) := by
  show Model.MachineAp.step env _ b = _
  simp [Model.MachineAp.step, Model.MachineAp.step1, stepTok, hw]

theorem step_endMap_close (fs : List Frame) (txt : Bytes) :
    astep env (.tok (.endMap txt) fs) 0x7d = .ok (.base (complete fs (.num (.lit txt)))) := by
  show Model.MachineAp.step env _ _ = _
  have : isWs 0x7d = false := by decide
  simp [Model.MachineAp.step, Model.MachineAp.step1, stepTok, this]

theorem step_endMap_comma (fs : List Frame) (txt : Bytes) :
    astep env (.tok (.endMap txt) fs) 0x2c = .error (.err .TrailingComma .incl) := by
  show Model.MachineAp.step env _ _ = _
  have : isWs 0x2c = false := by decide
  simp [Model.MachineAp.step, Model.MachineAp.step1, stepTok, this]

theorem step_endMap_other (fs : List Frame) (txt : Bytes) (b : UInt8) (hw : isWs b = false) (h1 : (b == 0x7d) = false)
    (h2 : (b == 0x2c) = false) : astep env (.tok (.endMap txt) fs) b = .error (.err .TrailingCharacters .incl) := by
  show Model.MachineAp.step env _ b = _
  simp [Model.MachineAp.step, Model.MachineAp.step1, stepTok, hw, h1, h2]

/-- a string step that stays inside the string -/
theorem step_str_stay (fs : List Frame) (st st' : StrSt) (b : UInt8)
    (h : stepStr env ⟨.str st, []⟩ st b = .next ⟨.str st', []⟩) :
    astep env (.tok (.str st) fs) b = .ok (.tok (.str st') fs) := by
  show Model.MachineAp.step env _ b = _
  simp [Model.MachineAp.step, Model.MachineAp.step1, stepTok, Model.MachineAp.scratch, h]

/-- the closing quote: `visit_str` = `Number::from_str` on the decoded text -/
theorem step_str_close (fs : List Frame) (st : StrSt) (txt : Bytes)
    (h : stepStr env ⟨.str st, []⟩ st 0x22 = .next ⟨.done (.str txt), []⟩) :
    astep env (.tok (.str st) fs) 0x22 =
      match fromStr txt with
      | .ok () => .ok (.tok (.endMap txt) fs)
      | .error (c, k) => .error (.custom c (lineCol txt k).1 (lineCol txt k).2) := by
  show Model.MachineAp.step env _ _ = _
  simp only [Model.MachineAp.step, Model.MachineAp.step1, stepTok, Model.MachineAp.scratch, h]
  cases fromStr txt with
  | ok u => cases u; rfl
  | error e => obtain ⟨c, k⟩ := e; rfl

theorem step_other (fs : List Frame) (inner : St) (b : UInt8) :
    astep env (.tok (.other inner) fs) b =
      match step1 env inner b with
      | .next s' => (match s'.mode with
          | .done _ => .error (.data .incl)
          | _ => .ok (.tok (.other s') fs))
      | .again _ => .error (.data .excl)
      | .err c a => .error (.err c a) := by
  show Model.MachineAp.step env _ b = _
  unfold Model.MachineAp.step Model.MachineAp.step1 stepTok
  simp only
  cases h1 : step1 env inner b with
  | next s1 =>
    simp only
    cases hm : s1.mode <;> simp
  | again s1 => simp
  | err c a => simp

theorem step_str (fs : List Frame) (st : StrSt) (b : UInt8) :
    astep env (.tok (.str st) fs) b =
      match stepStr env ⟨.str st, []⟩ st b with
      | .next s' => (match s'.mode with
          | .str st' => .ok (.tok (.str st') fs)
          | .done (.str txt) => (match fromStr txt with
              | .ok () => .ok (.tok (.endMap txt) fs)
              | .error (c, k) => .error (.custom c (lineCol txt k).1 (lineCol txt k).2))
          | _ => .error (.err .ExpectedSomeValue .incl))
      | .again _ => .error (.err .ExpectedSomeValue .incl)
      | .err c a => .error (.err c a) := by
  show Model.MachineAp.step env _ b = _
  unfold Model.MachineAp.step Model.MachineAp.step1 stepTok
  simp only [Model.MachineAp.scratch]
  cases h1 : stepStr env ⟨.str st, []⟩ st b with
  | next s1 =>
    simp only
    cases hm : s1.mode with
    | str st' => simp
    | done v =>
      cases v with
      | str txt =>
        simp only
        cases hf : fromStr txt with
        | ok u => cases u; simp
        | error e => obtain ⟨c, k⟩ := e; simp
      | _ => simp
    | _ => simp
  | again s1 => simp
  | err c a => simp

theorem step_val_scalar (fs : List Frame) (b : UInt8) (hw : isWs b = false) (hq : (b == 0x22) = false)
    (hc : (b == 0x5b || b == 0x7b) = false) :
    astep env (.tok .val fs) b =
      match startValue env ⟨.val .top, []⟩ b with
      | .next s' => .ok (.tok (.other s') fs)
      | .again _ => .error (.err .ExpectedSomeValue .incl)
      | .err c a => .error (.err c a) := by
  show Model.MachineAp.step env _ b = _
  unfold Model.MachineAp.step Model.MachineAp.step1 stepTok
  simp only [hw, hq, hc, Bool.false_eq_true, if_false, Model.MachineAp.scratch]
  cases h1 : startValue env ⟨.val .top, []⟩ b <;> simp

end steps

/-! ## shapes of machine steps on the scratch state -/

theorem stepStr_next_shape (env : Env) (s : St) (st : StrSt) (b : UInt8) (s' : St) (h : stepStr env s st b = .next s') :
    (∃ st', s' = { s with mode := .str st' }) ∨ endStr env s st = .next s' := by
  unfold stepStr at h
  simp only at h
  repeat' split at h
  all_goals first
    | exact .inr h
    | exact .inl ⟨_, (Step.next.inj h).symm⟩
    | (simp only [reduceCtorEq] at h)

theorem endStr_scratch (env : Env) (m : Mode) (st : StrSt) (s' : St) (h : endStr env ⟨m, []⟩ st = .next s') :
    st.isKey = false ∧ s' = ⟨.done (if env.tgt = .value then .str st.out.reverse else .null), []⟩ := by
  unfold endStr at h
  simp only at h
  split at h
  · simp only [reduceCtorEq] at h
  · split at h
    · simp only [reduceCtorEq] at h
    · rename_i hk
      simp only [Step.next.injEq] at h
      exact ⟨by simpa using hk, h.symm⟩

theorem stepStr_of_step (env : Env) (st : StrSt) (fs : List Frame) (b : UInt8) (s' : St)
    (h : step env ⟨.str st, fs⟩ b = .ok s') : stepStr env ⟨.str st, fs⟩ st b = .next s' := by
  unfold step step1 at h
  simp only at h
  cases hs : stepStr env ⟨.str st, fs⟩ st b with
  | next s1 => rw [hs] at h; simp only [Except.ok.injEq] at h; rw [h]
  | err c a => rw [hs] at h; cases h
  | again s1 => exact absurd hs (stepStr_not_again env _ st b s1)

/-! ## the string phase, forwards -/

theorem str_feed (env : Env) (fs : List Frame) : ∀ (bs : Bytes) (st st' : StrSt) (i : Nat) (r : Bytes),
    SJ.Proofs.Complete.Feeds env ⟨.str st, []⟩ bs ⟨.str st', []⟩ →
    arun env (.tok (.str st) fs) i (bs ++ r) = arun env (.tok (.str st') fs) (i + bs.length) r
  | [], st, st', i, r, h => by
    have : st = st' := by simpa [SJ.Proofs.Complete.Feeds, SJ.Proofs.Complete.feedS] using h
    subst this; simp
  | b :: bs, st, st', i, r, h => by
    unfold SJ.Proofs.Complete.Feeds at h
    simp only [SJ.Proofs.Complete.feedS] at h
    cases hs : step env ⟨.str st, []⟩ b with
    | error e => rw [hs] at h; cases h
    | ok s1 =>
      rw [hs] at h
      have hstr := stepStr_of_step env st [] b s1 hs
      rcases stepStr_next_shape env _ st b s1 hstr with ⟨st1, rfl⟩ | hend
      · rw [List.cons_append, arun_cons_ok env _ _ i b _ (step_str_stay env fs st st1 b hstr),
          str_feed env fs bs st1 st' (i + 1) r h]
        congr 1; simp; omega
      · exfalso
        obtain ⟨_, rfl⟩ := endStr_scratch env _ st s1 hend
        have := feeds_done env bs _ _ h
        cases this

/-! ## ASCII -/

theorem stepNum_next_class (env : Env) (s : St) (n : NumSt) (b : UInt8) (s' : St) (h : stepNum env s n b = .next s') :
    b < 0x80 := by
  have key : (isDigit b = true ∨ b = 0x2e ∨ b = 0x65 ∨ b = 0x45 ∨ b = 0x2b ∨ b = 0x2d) → b < 0x80 := by
    rintro (hd | rfl | rfl | rfl | rfl | rfl)
    · simp only [isDigit, Bool.and_eq_true, decide_eq_true_eq, UInt8.le_iff_toNat_le] at hd
      rw [UInt8.lt_iff_toNat_lt]
      simp at hd ⊢; omega
    all_goals decide
  apply key
  unfold stepNum at h
  simp only at h
  repeat' split at h
  all_goals first | (simp only [reduceCtorEq] at h; done) | skip
  all_goals simp_all
  all_goals first
    | decide
    | (rename_i hx; rcases hx with rfl | rfl <;> simp)

theorem fromStrLoop_ascii : ∀ (bs : Bytes) (n : NumSt) (i : Nat), Model.MachineAp.fromStrLoop n i bs = .ok () →
    ∀ x ∈ bs, x < 0x80
  | [], _, _, _ => by simp
  | b :: bs, n, i, h => by
    unfold Model.MachineAp.fromStrLoop at h
    cases hs : stepNum Model.MachineAp.numEnv { mode := .num n, stack := [] } n b with
    | next s' =>
      rw [hs] at h
      obtain ⟨n', rfl⟩ := stepNum_next_shape _ _ n b s' hs
      simp only at h
      intro x hx
      rcases List.mem_cons.mp hx with rfl | hx
      · exact stepNum_next_class _ _ n x _ hs
      · exact fromStrLoop_ascii bs n' (i + 1) h x hx
    | again s' => rw [hs] at h; simp at h
    | err c a => rw [hs] at h; simp only at h; split at h <;> simp at h

theorem fromStr_ascii (txt : Bytes) (h : fromStr txt = .ok ()) : ∀ x ∈ txt, x < 0x80 := by
  unfold Model.MachineAp.fromStr at h
  cases txt with
  | nil => simp
  | cons b bs =>
    simp only at h
    split at h
    · rename_i hb
      obtain ⟨n, hs, _, _⟩ := start_numInv b hb
      rw [hs] at h
      simp only at h
      intro x hx
      rcases List.mem_cons.mp hx with rfl | hx
      · rcases Bool.or_eq_true _ _ ▸ hb with h1 | h1
        · have : x = 0x2d := by simpa using h1
          subst this; decide
        · simp only [isDigit, Bool.and_eq_true, decide_eq_true_eq, UInt8.le_iff_toNat_le] at h1
          rw [UInt8.lt_iff_toNat_lt]
          simp at h1 ⊢; omega
      · exact fromStrLoop_ascii bs n 1 h x hx
    · simp at h

theorem validUtf8_of_ascii : ∀ (bs : Bytes), (∀ x ∈ bs, x < 0x80) → Spec.Utf8.validUtf8 bs = true
  | [], _ => rfl
  | b :: bs, h => by
    rw [SJ.Proofs.Utf8.validUtf8_cons_ascii (h b (List.mem_cons_self ..))]
    exact validUtf8_of_ascii bs fun x hx => h x (List.mem_cons_of_mem _ hx)

/-- a number literal is ASCII, hence valid UTF-8: the check `parse_str` makes on byte sources cannot fail on it -/
theorem isNumber_utf8 (txt : Bytes) (h : IsNumber txt) : Spec.Utf8.validUtf8 txt = true :=
  validUtf8_of_ascii txt (fromStr_ascii txt ((fromStr_ok_iff txt).mpr h))

end SJ.Proofs.MachineAp
