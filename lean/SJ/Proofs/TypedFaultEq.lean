import SJ.Proofs.TypedSim
import SJ.Proofs.TypedFault
/-!
# A failing reader against a clean end of input, on the same delivered bytes (C13, typed clause)

`FC rF rC`: the run whose reader fails after the delivered bytes (`flt = true`) answers `Error::io`, or
exactly what the run with a clean end of input (`flt = false`) answers. Every site of the model that asks
for a byte beyond the delivered ones is `atEof` or a test of `flt` — and `end_seq`'s inner
`match self.parse_whitespace() { Ok(Some(b']')) => …, _ => TrailingCharacters }`, which swallows the
reader's answer in both runs alike.
-/
namespace SJ.Proofs.Typed
open SJ SJ.Gen SJ.Model SJ.Model.Typed
open SJ.Model.Machine (St Mode Frame Step step1 errIdx endNumber finishMode init Src Tgt)
open SJ.Model.Stream (skipWs)

/-- fault run, clean run -/
def FC {α : Type} (rF rC : Res α) : Prop := rF = .io ∨ rF = rC

def eFault (cfg : Machine.Cfg) (src : Src) : Env := { cfg := cfg, src := src, flt := true }
def eClean (cfg : Machine.Cfg) (src : Src) : Env := { cfg := cfg, src := src, flt := false }

theorem runPfx_fault (menv : Machine.Env) (t : Nat) (bs : Bytes) : ∀ (s : St) (i : Nat),
    runPfx menv true t s i bs = .io ∨ runPfx menv true t s i bs = runPfx menv false t s i bs := by
  induction bs with
  | nil => intro s i; left; simp [runPfx]
  | cons b bs ih =>
    intro s i
    simp only [runPfx]
    cases step1 menv s b with
    | err c a => exact .inr rfl
    | next s' =>
      dsimp only
      cases completed t s' with
      | some v => exact .inr rfl
      | none => exact ih _ _
    | again s' =>
      dsimp only
      cases completed t s' with
      | some v => exact .inr rfl
      | none =>
        dsimp only
        cases step1 menv s' b with
        | err c a => exact .inr rfl
        | next s'' =>
          dsimp only
          cases completed t s'' with
          | some v => exact .inr rfl
          | none => exact ih _ _
        | again s'' => exact .inr rfl

theorem machine_fault (menv : Machine.Env) (t : Nat) (s : St) (r : Bytes) (p : Nat) :
    FC (machine menv true t s r p) (machine menv false t s r p) := by
  unfold machine
  rcases runPfx_fault menv t r s p with h | h
  · left; rw [h]
  · right; rw [h]

theorem sim_fault_clean (cfg : Machine.Cfg) (src : Src) : Sim (eFault cfg src) (eClean cfg src) (fun _ => True) FC where
  cfg := rfl
  vcut := fun _ _ _ _ _ => trivial
  ok := fun _ _ _ _ => .inr rfl
  err := fun _ _ => .inr rfl
  data := fun _ => .inr rfl
  raw := fun _ _ => .inr rfl
  fuel := .inr rfl
  handle := by
    intro α β r1 r2 k1 k2 h1 h2 hr hk hh
    rcases hr with rfl | rfl
    · exact .inl rfl
    · cases r1 with
      | ok a r p => exact hk a r p rfl rfl trivial
      | raw r p => exact hh r p rfl rfl
      | err c i => exact .inr rfl
      | data i => exact .inr rfl
      | io => exact .inr rfl
      | fuel => exact .inr rfl
  eof := fun _ _ => .inl rfl
  flt := fun _ => .inl rfl
  dataIdx := fun _ _ _ => .inr rfl
  errIdx := fun _ _ _ _ _ => .inr rfl
  mach := fun tgt t s r p _ _ => machine_fault _ t s r p

/-- fault run and clean run of `deTyped` on the same bytes -/
theorem fc_deTyped (cfg : Machine.Cfg) (src : Src) (f t : Nat) (s : Schema) (rest : Bytes) (pos : Nat) :
    FC (deTyped (eFault cfg src) f t s rest pos) (deTyped (eClean cfg src) f t s rest pos) :=
  sim_deTyped (sim_fault_clean cfg src) f t s rest pos trivial

/-- … of a whole document -/
theorem fc_deTypedTop (cfg : Machine.Cfg) (src : Src) (s : Schema) (bs : Bytes) :
    deTypedTop (eFault cfg src) s bs = .io ∨ deTypedTop (eFault cfg src) s bs = deTypedTop (eClean cfg src) s bs := by
  unfold deTypedTop
  rcases fc_deTyped cfg src (Schema.size s + 1) 0 s bs 0 with h | h
  · left; rw [h]
  · rw [h]
    cases deTyped (eClean cfg src) (Schema.size s + 1) 0 s bs 0 with
    | ok v rest pos =>
      dsimp only
      split
      · exact .inl rfl
      · exact .inr rfl
    | _ => exact .inr rfl

end SJ.Proofs.Typed
