import SJ.Proofs.MachineRvSync
/-!
# The raw scan on pieces of text

`rawScan` raises its flag only at the closing quote of a string literal that was opened right after a `{` and decodes to
`raw::TOKEN`: nothing happens outside strings (`rawScan_out_step`), nothing inside a well-formed string body
(`rawScan_items`), and a whole string literal contributes `br && decodes-to-the-raw-token` (`rawScan_string`).
-/
namespace SJ.Proofs.MachineRv
open SJ SJ.Gen SJ.Model SJ.Model.Machine SJ.Proofs.Sound
open SJ.Spec.Grammar (StrItem StrWF strBytes Ws isHex isUnescaped)
open SJ.Spec.Denote (decodeItems)
open SJ.Spec.PrivateToken (LexSt LMode lexStep lexRun parseItems)
open SJ.Spec.PrivateTokenRv (rawHitStep rawScan hasRawTokenFirstKey bodyIsRawToken isRawTokenKey)
open SJ.Proofs.MachineAp (lexRun_cons lexRun_append lex_str_plain lex_str_bs lex_str_escaped hex_plain lex_quote lexRun_ws)

theorem rawScan_append : ∀ (xs ys : Bytes) (l : LexSt) (hit : Bool),
    rawScan l hit (xs ++ ys) = rawScan (lexRun l xs) (rawScan l hit xs) ys
  | [], _, _, _ => rfl
  | b :: xs, ys, l, hit => by
    rw [List.cons_append, rawScan_cons, rawScan_cons, lexRun_cons]
    exact rawScan_append xs ys (lexStep l b) _

theorem rawHit_out (l : LexSt) (br : Bool) (b : UInt8) (hl : l.mode = .out br) : rawHitStep l b = false := by
  unfold rawHitStep; rw [hl]

/-- a segment over which the scan stays outside strings at every byte raises no flag -/
theorem rawScan_outside : ∀ (xs : Bytes) (l : LexSt) (hit : Bool),
    (∀ ys zs, xs = ys ++ zs → zs ≠ [] → ∃ br, (lexRun l ys).mode = .out br) → rawScan l hit xs = hit
  | [], _, _, _ => rfl
  | b :: xs, l, hit, h => by
    obtain ⟨br, hbr⟩ := h [] (b :: xs) rfl (by simp)
    rw [rawScan_cons, rawHit_out l br b hbr, Bool.or_false]
    exact rawScan_outside xs (lexStep l b) hit fun ys zs hx hz => by
      have := h (b :: ys) zs (by rw [hx]; rfl) hz
      rwa [lexRun_cons] at this

theorem rawScan_ws (w : Bytes) (l : LexSt) (br : Bool) (hit : Bool) (hl : l.mode = .out br) (hw : Ws w) :
    rawScan l hit w = hit := by
  apply rawScan_outside
  intro ys zs hx _
  have hys : Ws ys := by
    unfold Ws at hw ⊢
    rw [hx, List.all_append, Bool.and_eq_true] at hw
    exact hw.1
  exact ⟨br, by rw [lexRun_ws ys l br hl hys]; exact hl⟩

theorem rawScan_one (l : LexSt) (br : Bool) (hit : Bool) (b : UInt8) (hl : l.mode = .out br) : rawScan l hit [b] = hit := by
  rw [rawScan_cons, rawHit_out l br b hl, Bool.or_false]; rfl

theorem rawHit_str_plain (l : LexSt) (first : Bool) (raw : Bytes) (esc : Bool) (b : UInt8) (hl : l.mode = .str first raw esc)
    (h : esc = true ∨ (b == 0x22) = false) : rawHitStep l b = false := by
  unfold rawHitStep; rw [hl]
  rcases h with rfl | h
  · simp
  · simp [h]

/-- inside a string, over well-formed items: no flag (a `"` occurs only right after a backslash) -/
theorem rawScan_items : ∀ (items : List StrItem) (l : LexSt) (first : Bool) (raw : Bytes) (hit : Bool), StrWF items = true →
    l.mode = .str first raw false → rawScan l hit (items.flatMap StrItem.bytes) = hit
  | [], _, _, _, _, _, _ => rfl
  | it :: rest, l, first, raw, hit, hwf, hl => by
    simp only [StrWF, List.all_cons, Bool.and_eq_true] at hwf
    have hrest : StrWF rest = true := by simpa [StrWF] using hwf.2
    cases it with
    | raw b =>
      have hb := hwf.1
      simp only [StrItem.WF, isUnescaped, Bool.and_eq_true, bne_iff_ne, ne_eq] at hb
      have h1 : (b == 0x5c) = false := by simpa using hb.2
      have h2 : (b == 0x22) = false := by simpa using hb.1.2
      simp only [List.flatMap_cons, StrItem.bytes, List.singleton_append, rawScan_cons,
        rawHit_str_plain l first raw false b hl (.inr h2), Bool.or_false, lex_str_plain l first raw b hl h1 h2]
      exact rawScan_items rest _ first (b :: raw) hit hrest rfl
    | esc c =>
      simp only [List.flatMap_cons, StrItem.bytes, List.cons_append, List.nil_append, rawScan_cons,
        rawHit_str_plain l first raw false 0x5c hl (.inr (by decide)), Bool.or_false, lex_str_bs l first raw hl]
      rw [rawHit_str_plain _ first (0x5c :: raw) true c rfl (.inl rfl), Bool.or_false,
        lex_str_escaped _ first (0x5c :: raw) c rfl]
      exact rawScan_items rest _ first (c :: 0x5c :: raw) hit hrest rfl
    | uni a b c d =>
      have hw := hwf.1
      simp only [StrItem.WF, Bool.and_eq_true] at hw
      obtain ⟨⟨⟨ha, hb⟩, hc⟩, hd⟩ := hw
      simp only [List.flatMap_cons, StrItem.bytes, List.cons_append, List.nil_append, rawScan_cons,
        rawHit_str_plain l first raw false 0x5c hl (.inr (by decide)), Bool.or_false, lex_str_bs l first raw hl]
      rw [rawHit_str_plain _ first (0x5c :: raw) true 0x75 rfl (.inl rfl), Bool.or_false,
        lex_str_escaped _ first (0x5c :: raw) 0x75 rfl]
      rw [rawHit_str_plain _ first _ false a rfl (.inr (hex_plain a ha).2), Bool.or_false,
        lex_str_plain _ first _ a rfl (hex_plain a ha).1 (hex_plain a ha).2]
      rw [rawHit_str_plain _ first _ false b rfl (.inr (hex_plain b hb).2), Bool.or_false,
        lex_str_plain _ first _ b rfl (hex_plain b hb).1 (hex_plain b hb).2]
      rw [rawHit_str_plain _ first _ false c rfl (.inr (hex_plain c hc).2), Bool.or_false,
        lex_str_plain _ first _ c rfl (hex_plain c hc).1 (hex_plain c hc).2]
      rw [rawHit_str_plain _ first _ false d rfl (.inr (hex_plain d hd).2), Bool.or_false,
        lex_str_plain _ first _ d rfl (hex_plain d hd).1 (hex_plain d hd).2]
      exact rawScan_items rest _ first _ hit hrest rfl

/-- an opening quote and a well-formed body: no flag yet -/
theorem rawScan_open (l : LexSt) (br : Bool) (hit : Bool) (items : List StrItem) (hl : l.mode = .out br)
    (hwf : StrWF items = true) : rawScan l hit (0x22 :: items.flatMap StrItem.bytes) = hit := by
  rw [rawScan_cons, rawHit_out l br 0x22 hl, Bool.or_false, lex_quote l br hl]
  exact rawScan_items items _ br [] hit hwf rfl

/-- a whole string literal opened outside strings: the flag is raised iff it is a first key (`br`) that decodes to the raw
    token -/
theorem rawScan_string (l : LexSt) (br : Bool) (hit : Bool) (items : List StrItem) (hl : l.mode = .out br)
    (hwf : StrWF items = true) : rawScan l hit (strBytes items) = (hit || (br && isRawTokenKey items)) := by
  have h1 : strBytes items = (0x22 :: items.flatMap StrItem.bytes) ++ [0x22] := by simp [strBytes]
  rw [h1, rawScan_append, rawScan_open l br hit items hl hwf, lexRun_cons, lex_quote l br hl]
  obtain ⟨hm, _⟩ := SJ.Proofs.MachineAp.lex_items items { l with mode := .str br [] false } br [] hwf rfl
  rw [rawScan_cons]
  have : rawHitStep (lexRun { l with mode := .str br [] false } (items.flatMap StrItem.bytes)) 0x22 =
      (br && isRawTokenKey items) := by
    unfold rawHitStep
    rw [hm]
    simp only [List.append_nil, List.reverse_reverse, Bool.not_false, Bool.true_and, beq_self_eq_true]
    unfold bodyIsRawToken isRawTokenKey
    rw [SJ.Proofs.MachineAp.parseItems_flat items hwf]
  rw [this]; rfl

end SJ.Proofs.MachineRv
