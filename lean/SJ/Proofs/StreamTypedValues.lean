import SJ.Proofs.StreamTyped
import SJ.Proofs.StreamValues
import SJ.Proofs.TypedAgree
/-!
# A stream of typed items yields exactly those items, with exact offsets (C12, typed item types)

The typed analogue of `Proofs/StreamValues.lean` (`history_values`). There is no grammar of typed texts, so a segment is
characterised by the item deserializer itself: `ItemOK env s P x v follow` — `T::deserialize` (`deTyped` at depth 0 with
the full fuel, as `next()` calls it) started at the first byte of `x` (absolute index `P`, not whitespace) with `follow`
behind it returns `v` and leaves exactly `follow` unread. `historyT_values`: on `w₀ x₁ w₁ … xₙ wₙ` with every `xᵢ`
accepted in place, every `wᵢ` whitespace and the delimiter rule of `peek_end_of_value` (`DelimOK`: a bare scalar is
followed by the end of input or a byte of `Gen.streamDelims`), `n + k` calls of `next()` yield `Some(Ok(v₁)) … Some(Ok(vₙ))`
with `byte_offset()` just past each item, then `k` times `None` with `byte_offset()` at the end of the input.

`itemOK_of_agree1` provides `ItemOK` wholesale for the texts covered by the text-leg theorems of C16 / C04
(`Agree1`: accepted with the same value in front of every admissible follower).
-/
namespace SJ.Proofs.StreamTypedValues
open SJ SJ.Gen SJ.Model SJ.Model.Typed SJ.Model.StreamTyped SJ.Proofs.StreamTyped
open SJ.Model.Stream (SS skipWs isSelfDelineated isStreamDelim start)
open SJ.Proofs.StreamValues (DelimOK skipWs_ws)
open SJ.Spec.Grammar (Ws)

/-- one item of a typed stream: its bytes, its value, the whitespace after it -/
structure TSeg where
  x : Bytes
  v : TVal
  w : Bytes

def tsegsBytes : List TSeg → Bytes
  | [] => []
  | s :: r => s.x ++ s.w ++ tsegsBytes r

/-- item parsing accepts `x` (first byte at absolute index `P`) with value `v`, leaving exactly `follow` -/
def ItemOK (env : Env) (s : Schema) (P : Nat) (x : Bytes) (v : TVal) (follow : Bytes) : Prop :=
  (∃ b r, x = b :: r ∧ Machine.isWs b = false) ∧ deItem env s (x ++ follow) P = .ok v follow (P + x.length)

/-- a well-formed typed stream; `P` = absolute index of the first item -/
def TStreamOK (env : Env) (s : Schema) : Nat → List TSeg → Prop
  | _, [] => True
  | P, sg :: r => ItemOK env s P sg.x sg.v (sg.w ++ tsegsBytes r) ∧ Ws sg.w ∧ DelimOK sg.x (sg.w ++ tsegsBytes r) ∧
      TStreamOK env s (P + sg.x.length + sg.w.length) r

/-- the expected history: each value with the offset just past its item, then `None` at the offset past the trailing
    whitespace (`base` = offset where the next item starts) -/
def expectedT (base : Nat) : List TSeg → Nat → List (TItem × Nat)
  | sg :: r, k => (.ok sg.v, base + sg.x.length) :: expectedT (base + sg.x.length + sg.w.length) r k
  | [], k => List.replicate k (.none, base)

/-- one call of `next()` at an item -/
theorem nextT_value (env : Env) (hflt : env.flt = false) (s : Schema) (w x follow : Bytes) (v : TVal) (P off : Nat)
    (hw : Ws w) (hitem : ItemOK env s (P + w.length) x v follow) (hdel : DelimOK x follow) :
    nextT env s ⟨w ++ (x ++ follow), P, off, false⟩ =
      (.ok v, ⟨follow, P + w.length + x.length, P + w.length + x.length, false⟩) := by
  obtain ⟨⟨b, r, rfl, hb⟩, hde⟩ := hitem
  have hskip : skipWs (w ++ (b :: r ++ follow)) P = (b :: (r ++ follow), P + w.length) :=
    skipWs_ws w _ P hw (by intro b' r' h; simp only [List.cons_append, List.cons.injEq] at h; rw [← h.1]; exact hb)
  rw [nextT_item env s _ rfl b (r ++ follow) (P + w.length) hskip]
  have hde' : deItem env s (b :: (r ++ follow)) (P + w.length) = .ok v follow (P + w.length + (b :: r).length) := hde
  rw [hde']
  by_cases hs : isSelfDelineated b = true
  · rw [afterDe_ok_sd _ _ _ _ _ _ _ hs]
  · have hs' : isSelfDelineated b = false := by simpa using hs
    rcases hdel with ⟨b', r1, hb', hsd⟩ | hnil | ⟨d', r1, hd', hsd⟩
    · simp only [List.cons.injEq] at hb'; rw [← hb'.1] at hsd; exact absurd hsd hs
    · subst hnil
      rw [afterDe_ok_nil _ _ _ _ _ _ hs', hflt]; rfl
    · subst hd'
      rw [afterDe_ok_cons _ _ _ _ _ _ _ _ hs', if_pos hsd]

/-- `next()` at the end: only whitespace is left -/
theorem nextT_end (env : Env) (hflt : env.flt = false) (s : Schema) (w : Bytes) (P off : Nat) (hw : Ws w) :
    nextT env s ⟨w, P, off, false⟩ = (.none, ⟨[], P + w.length, P + w.length, false⟩) := by
  have hskip : skipWs w P = ([], P + w.length) := by
    have := skipWs_ws w [] P hw (by intro b r' h; cases h)
    simpa using this
  rw [nextT_ws env s _ rfl _ hskip, hflt]; rfl

theorem historyT_end (env : Env) (hflt : env.flt = false) (s : Schema) (k : Nat) : ∀ (w : Bytes) (P off : Nat), Ws w →
    historyT env s k ⟨w, P, off, false⟩ = List.replicate k (.none, P + w.length) := by
  induction k with
  | zero => intro w P off _; rfl
  | succ k ih =>
    intro w P off hw
    simp only [historyT, nextT_end env hflt s w P off hw, List.replicate_succ]
    rw [ih [] (P + w.length) (P + w.length) (by simp [Ws])]
    simp

/-- **the history of a well-formed typed stream** -/
theorem historyT_values (env : Env) (hflt : env.flt = false) (s : Schema) (k : Nat) :
    ∀ (segs : List TSeg) (w0 : Bytes) (P off : Nat), Ws w0 → TStreamOK env s (P + w0.length) segs →
      historyT env s (segs.length + k) ⟨w0 ++ tsegsBytes segs, P, off, false⟩ = expectedT (P + w0.length) segs k := by
  intro segs
  induction segs with
  | nil =>
    intro w0 P off hw _
    simp only [tsegsBytes, List.append_nil, List.length_nil, Nat.zero_add, expectedT]
    exact historyT_end env hflt s k w0 P off hw
  | cons sg r ih =>
    intro w0 P off hw hok
    obtain ⟨hitem, hws, hdel, hrest⟩ := hok
    have hnext := nextT_value env hflt s w0 sg.x (sg.w ++ tsegsBytes r) sg.v P off hw hitem hdel
    have hhist := ih sg.w (P + w0.length + sg.x.length) (P + w0.length + sg.x.length) hws hrest
    have hlen : (sg :: r).length + k = (r.length + k) + 1 := by simp only [List.length_cons]; omega
    have hbytes : w0 ++ tsegsBytes (sg :: r) = w0 ++ (sg.x ++ (sg.w ++ tsegsBytes r)) := by
      simp [tsegsBytes]
    rw [hlen, hbytes]
    simp only [historyT, hnext, expectedT]
    rw [hhist]

/-- `ItemOK` from the text-leg agreement of C16 / C04: a text that the typed deserializer accepts with value `v` in front
    of every admissible follower (`Agree1 … (.ok v)`: end of input, `,` `]` `}` `"` or whitespace) is `ItemOK` in front of
    every such follower, at every position -/
theorem itemOK_of_agree1 (env : Env) (s : Schema) (x follow : Bytes) (v : TVal) (P : Nat)
    (hhead : ∃ b r, x = b :: r ∧ Machine.isWs b = false)
    (hag : SJ.Proofs.Typed.Agree1 (deTyped env (Schema.size s + 1) 0 s) (.ok v) x)
    (hsep : SJ.Proofs.Typed.SepOK follow) : ItemOK env s P x v follow :=
  ⟨hhead, hag follow P hsep⟩

end SJ.Proofs.StreamTypedValues
