import SJ.Proofs.TypedSim
/-!
# Two runs of the typed model on schemas without `i128` / `u128`: `NumberOutOfRange` is no peek-slot code

`Sim` (`SJ/Proofs/TypedSim.lean`) asks of the two environments that `errorIdx` be related for all three `PeekCode`s.
`NumberOutOfRange` is among them because of ONE site: `do_deserialize_i128/u128`, `Err(self.error(NumberOutOfRange))`
after `buf.parse()` failed, with the byte that ended `scan_integer128` in the peek slot (`deInt128`). Every other
`NumberOutOfRange` of the typed model has a source-independent index: `parse_exponent_overflow` (`scanExpDigits`,
`pos + k + 1`), the float conversion after 9343bad and `-` before a `u128` (`peekErrorIdx`), and the byte-step machine
(`Value` / `IgnoredAny` sub-parsers: `.incl`).

`Sim2` is `Sim` with `errIdx` demanded only for `ExpectedNumericKey` and `ExpectedSomeValue` (`PeekCode2`); the lemmas
`sim2_*` are those of `TypedSim.lean` word for word (`S.errIdx` is used by `sim_deInt128`, `sim_keyInt`, `sim_deEnum` only),
`sim2_deInt` / `sim2_keyInt` / `sim2_deKey` / `sim2_mapLoop` assume a width other than 128 bits, and `sim2_deTyped` holds on
every schema with `Schema.no128`. Lemmas of `TypedSim.lean` that do not mention `Sim` are reused.
-/
namespace SJ.Proofs.Typed
open SJ SJ.Gen SJ.Model SJ.Model.Typed
open SJ.Model.Machine (St Mode Frame Step step1 errIdx endNumber finishMode init)
open SJ.Model.Stream (skipWs)
open SJ.Proofs.Utf8 (mWs_ascii mDigit_ascii beq_ascii ident_ascii)

/-- the parser errors created by `self.error(code)` with a byte in the peek slot, outside `do_deserialize_i128/u128` -/
def PeekCode2 (c : Code) : Prop := c = .ExpectedNumericKey ∨ c = .ExpectedSomeValue

theorem PeekCode2.peekCode {c : Code} (h : PeekCode2 c) : PeekCode c := .inr h

theorem PeekCode2.ne_range {c : Code} (h : PeekCode2 c) : c ≠ .NumberOutOfRange := by
  rcases h with h | h <;> rw [h] <;> intro h' <;> cases h'

end SJ.Proofs.Typed

namespace SJ
open SJ.Model.Typed (is128)

/-- the key kind is not `i128` / `u128` -/
def KeyKind.no128 : KeyKind → Bool
  | .int w => !is128 w
  | _ => true

mutual
/-- no `i128` / `u128` target anywhere in the schema (map keys included): `do_deserialize_i128/u128` is never entered -/
def Schema.no128 : Schema → Bool
  | .int w => !is128 w
  | .option s | .newtype s | .seq s => Schema.no128 s
  | .map k s => k.no128 && Schema.no128 s
  | .tuple ss => Schema.no128List ss
  | .struct_ fs _ => Schema.no128Fields fs
  | .enum_ vs => Schema.no128Variants vs
  | _ => true
def Schema.no128List : List Schema → Bool
  | [] => true
  | s :: r => Schema.no128 s && Schema.no128List r
def Schema.no128Fields : List (Bytes × Schema) → Bool
  | [] => true
  | (_, s) :: r => Schema.no128 s && Schema.no128Fields r
def Schema.no128Variants : List (Bytes × VariantShape) → Bool
  | [] => true
  | (_, sh) :: r => VariantShape.no128 sh && Schema.no128Variants r
def VariantShape.no128 : VariantShape → Bool
  | .unit => true
  | .newtype s => Schema.no128 s
  | .tuple ss => Schema.no128List ss
  | .struct_ fs => Schema.no128Fields fs
end

end SJ

namespace SJ.Proofs.Typed
open SJ SJ.Gen SJ.Model SJ.Model.Typed
open SJ.Model.Machine (St Mode Frame Step step1 errIdx endNumber finishMode init)
open SJ.Model.Stream (skipWs)
open SJ.Proofs.Utf8 (mWs_ascii mDigit_ascii beq_ascii ident_ascii)

theorem no128List_mem {ss : List Schema} {s : Schema} (h : Schema.no128List ss = true) (hs : s ∈ ss) : s.no128 = true := by
  induction ss with
  | nil => cases hs
  | cons a r ih =>
    simp only [Schema.no128List, Bool.and_eq_true] at h
    rcases List.mem_cons.mp hs with rfl | h'
    · exact h.1
    · exact ih h.2 h'

theorem no128Fields_mem {fs : List (Bytes × Schema)} {fl : Bytes × Schema} (h : Schema.no128Fields fs = true) (hs : fl ∈ fs) :
    fl.2.no128 = true := by
  induction fs with
  | nil => cases hs
  | cons a r ih =>
    obtain ⟨n, a⟩ := a
    simp only [Schema.no128Fields, Bool.and_eq_true] at h
    rcases List.mem_cons.mp hs with rfl | h'
    · exact h.1
    · exact ih h.2 h'

theorem no128Shape_mem {sh : VariantShape} {s : Schema} (h : sh.no128 = true) (hs : s ∈ shapeSchemas sh) : s.no128 = true := by
  cases sh with
  | unit => simp [shapeSchemas] at hs
  | newtype s' =>
    simp only [shapeSchemas, List.mem_singleton] at hs
    subst hs
    simpa [VariantShape.no128] using h
  | tuple ss => exact no128List_mem (by simpa [VariantShape.no128] using h) (by simpa [shapeSchemas] using hs)
  | struct_ fs =>
    simp only [shapeSchemas, List.mem_map] at hs
    obtain ⟨fl, hfl, rfl⟩ := hs
    exact no128Fields_mem (by simpa [VariantShape.no128] using h) hfl

theorem no128Variants_mem {vs : List (Bytes × VariantShape)} {v : Bytes × VariantShape} {s : Schema}
    (h : Schema.no128Variants vs = true) (hv : v ∈ vs) (hs : s ∈ shapeSchemas v.2) : s.no128 = true := by
  induction vs with
  | nil => cases hv
  | cons a r ih =>
    obtain ⟨n, a⟩ := a
    simp only [Schema.no128Variants, Bool.and_eq_true] at h
    rcases List.mem_cons.mp hv with rfl | h'
    · exact no128Shape_mem h.1 hs
    · exact ih h.2 h'

structure Sim2 (e1 e2 : Env) (V : Bytes → Prop) (Q : {α : Type} → Res α → Res α → Prop) : Prop where
  cfg : e1.cfg = e2.cfg
  /-- what follows an ASCII byte of an input satisfying `V` satisfies `V` -/
  vcut : ∀ (a : Bytes) (c : UInt8) (r : Bytes), c < 0x80 → V (a ++ c :: r) → V r
  ok : ∀ {α : Type} (a : α) (r : Bytes) (p : Nat), V r → Q (.ok a r p) (.ok a r p)
  err : ∀ {α : Type} (c : Code) (i : Nat), Q (.err c i : Res α) (.err c i)
  data : ∀ {α : Type} (i : Nat), Q (.data i : Res α) (.data i)
  raw : ∀ {α : Type} (r : Bytes) (p : Nat), Q (.raw r p : Res α) (.raw r p)
  fuel : ∀ {α : Type}, Q (.fuel : Res α) .fuel
  handle : ∀ {α β : Type} {r1 r2 : Res α} {k1 k2 : α → Bytes → Nat → Res β} {h1 h2 : Bytes → Nat → Res β},
    Q r1 r2 → (∀ a r p, r1 = .ok a r p → r2 = .ok a r p → V r → Q (k1 a r p) (k2 a r p)) →
    (∀ r p, r1 = .raw r p → r2 = .raw r p → Q (h1 r p) (h2 r p)) → Q (handle r1 k1 h1) (handle r2 k2 h2)
  eof : ∀ {α : Type} (c : Code) (p : Nat), Q (atEof e1 c p : Res α) (atEof e2 c p)
  flt : ∀ {α : Type} {x1 x2 : Res α}, Q x1 x2 → Q (if e1.flt then .io else x1) (if e2.flt then .io else x2)
  dataIdx : ∀ {α : Type} (r : Bytes) (p : Nat) (pk : Bool), Q (.data (errorIdx e1 r p pk) : Res α) (.data (errorIdx e2 r p pk))
  errIdx : ∀ {α : Type} (c : Code) (r : Bytes) (p : Nat) (pk : Bool), PeekCode2 c →
    Q (.err c (errorIdx e1 r p pk) : Res α) (.err c (errorIdx e2 r p pk))
  mach : ∀ (tgt : Machine.Tgt) (t : Nat) (s : St) (r : Bytes) (p : Nat), V r → StartSt s →
    Q (machine { cfg := e1.cfg, src := e1.src, tgt := tgt } e1.flt t s r p)
      (machine { cfg := e2.cfg, src := e2.src, tgt := tgt } e2.flt t s r p)

variable {e1 e2 : Env} {V : Bytes → Prop} {Q : {α : Type} → Res α → Res α → Prop} (S : Sim2 e1 e2 V Q)
include S

theorem sim2_bind {α β : Type} {r1 r2 : Res α} {k1 k2 : α → Bytes → Nat → Res β} (hr : Q r1 r2)
    (hk : ∀ a r p, r1 = .ok a r p → r2 = .ok a r p → V r → Q (k1 a r p) (k2 a r p)) : Q (r1.bind k1) (r2.bind k2) := by
  rw [bind_eq_handle, bind_eq_handle]
  exact S.handle hr hk fun r p _ _ => S.raw r p

theorem sim2_bind' {α β : Type} {r1 r2 : Res α} {k1 k2 : α → Bytes → Nat → Res β} (hr : Q r1 r2)
    (hk : ∀ a r p, V r → Q (k1 a r p) (k2 a r p)) : Q (r1.bind k1) (r2.bind k2) :=
  sim2_bind S hr fun a r p _ _ hv => hk a r p hv

theorem sim2_map {α β : Type} {r1 r2 : Res α} (f : α → β) (hr : Q r1 r2) : Q (r1.map f) (r2.map f) :=
  sim2_bind' S hr fun _ _ _ hv => S.ok _ _ _ hv

theorem sim2_fixPos {α : Type} {r1 r2 : Res α} (pk : Bool) (hr : Q r1 r2) : Q (fixPos e1 pk r1) (fixPos e2 pk r2) := by
  rw [fixPos_eq_handle, fixPos_eq_handle]
  exact S.handle hr (fun _ _ _ _ _ hv => S.ok _ _ _ hv) fun r p _ _ => S.dataIdx r p pk

theorem sim2_vstep {b : UInt8} {r : Bytes} (hb : b < 0x80) (hv : V (b :: r)) : V r := S.vcut [] b r hb hv

theorem sim2_skipWs (rest : Bytes) (pos : Nat) (hv : V rest) : V (skipWs rest pos).1 := by
  induction rest generalizing pos with
  | nil => exact hv
  | cons b r ih =>
    simp only [skipWs]
    split
    · exact ih _ (sim2_vstep S (mWs_ascii ‹_›) hv)
    · exact hv

theorem sim2_withPeek {α : Type} {c : Code} {rest : Bytes} {pos : Nat} {k1 k2 : UInt8 → Bytes → Nat → Res α} (hv : V rest)
    (hk : ∀ b r p, V (b :: r) → Q (k1 b r p) (k2 b r p)) : Q (withPeek e1 c rest pos k1) (withPeek e2 c rest pos k2) := by
  have h := sim2_skipWs S rest pos hv
  unfold withPeek
  generalize skipWs rest pos = x at h
  obtain ⟨l, p⟩ := x
  cases l with
  | nil => exact S.eof c p
  | cons b r => exact hk b r p h

theorem sim2_flt_and {α : Type} {x1 x2 : Res α} (c : Bool) (h : Q x1 x2) :
    Q (if c && e1.flt then .io else x1) (if c && e2.flt then .io else x2) := by
  cases c
  · simpa using h
  · simpa using S.flt h

theorem sim2_parseIdent (id : Bytes) (hid : ∀ x ∈ id, x < 0x80) (rest : Bytes) (pos : Nat) (hv : V rest) :
    Q (parseIdent e1 id rest pos) (parseIdent e2 id rest pos) := by
  induction id generalizing rest pos with
  | nil => simp only [parseIdent]; exact S.ok _ _ _ hv
  | cons e es ih =>
    cases rest with
    | nil => simp only [parseIdent]; exact S.eof _ _
    | cons b r =>
      simp only [parseIdent]
      refine q_ite (fun h => ?_) fun _ => S.err _ _
      exact ih (fun x hx => hid x (by simp [hx])) _ _ (sim2_vstep S (beq_ascii h (hid e (by simp))) hv)

theorem sim2_peekInvalidType {α : Type} {b : UInt8} {r : Bytes} {pos : Nat} (hv : V (b :: r)) :
    Q (peekInvalidType e1 (b :: r) pos : Res α) (peekInvalidType e2 (b :: r) pos) := by
  rw [peekInvalidType_cons, peekInvalidType_cons]
  refine q_ite (fun _ => S.dataIdx _ _ _) fun _ => ?_
  exact sim2_bind' S (S.mach .value 0 init _ _ hv (Or.inl rfl)) fun _ _ _ _ => S.dataIdx _ _ _

theorem sim2_ident_ok (id : Bytes) (hid : ∀ x ∈ id, x < 0x80) (v : TVal) (r : Bytes) (p : Nat) (hv : V r) :
    Q ((parseIdent e1 id r p).bind fun _ r' p' => (.ok v r' p' : TOut))
      ((parseIdent e2 id r p).bind fun _ r' p' => (.ok v r' p' : TOut)) :=
  sim2_bind' S (sim2_parseIdent S id hid r p hv) fun _ _ _ hv' => S.ok _ _ _ hv'

theorem sim2_deBool (rest : Bytes) (pos : Nat) (hv : V rest) : Q (deBool e1 rest pos) (deBool e2 rest pos) := by
  unfold deBool
  refine sim2_withPeek S hv fun b r p hb => ?_
  refine q_ite (fun h => ?_) fun _ => q_ite (fun h => ?_) fun _ => sim2_peekInvalidType S hb
  · exact sim2_ident_ok S _ ident_ascii.2.1 _ _ _ (sim2_vstep S (beq_ascii h (by decide)) hb)
  · exact sim2_ident_ok S _ ident_ascii.2.2 _ _ _ (sim2_vstep S (beq_ascii h (by decide)) hb)

theorem sim2_deUnit (rest : Bytes) (pos : Nat) (hv : V rest) : Q (deUnit e1 rest pos) (deUnit e2 rest pos) := by
  unfold deUnit
  refine sim2_withPeek S hv fun b r p hb => ?_
  refine q_ite (fun h => ?_) fun _ => sim2_peekInvalidType S hb
  exact sim2_ident_ok S _ ident_ascii.1 _ _ _ (sim2_vstep S (beq_ascii h (by decide)) hb)

/-! ## numbers -/

theorem sim2_digitsOf (r : Bytes) (hv : V r) : V (digitsOf r).2 := by
  induction r with
  | nil => exact hv
  | cons c r ih =>
    simp only [digitsOf]
    split
    · exact ih (sim2_vstep S (mDigit_ascii ‹_›) hv)
    · exact hv

theorem sim2_scanExpDigits (neg : Bool) (int : Bytes) (frac : Option Bytes) (en : Bool) (rest : Bytes) (pos : Nat) (hv : V rest) :
    Q (scanExpDigits e1 neg int frac en rest pos) (scanExpDigits e2 neg int frac en rest pos) := by
  cases rest with
  | nil => simp only [scanExpDigits]; exact S.eof _ _
  | cons d r2 =>
    simp only [scanExpDigits]
    refine q_ite (fun _ => S.err _ _) fun hd => ?_
    have hd' : Machine.isDigit d = true := by simpa using hd
    have hv3 : V (digitsOf r2).2 := sim2_digitsOf S r2 (sim2_vstep S (mDigit_ascii hd') hv)
    split
    · exact q_ite (fun _ => S.err _ _) fun _ => sim2_flt_and S _ (S.ok _ _ _ hv3)
    · exact sim2_flt_and S _ (S.ok _ _ _ hv3)

theorem sim2_scanExp (neg : Bool) (int : Bytes) (frac : Option Bytes) (rest : Bytes) (pos : Nat) (hv : V rest) :
    Q (scanExp e1 neg int frac rest pos) (scanExp e2 neg int frac rest pos) := by
  cases rest with
  | nil => simp only [scanExp]; exact S.eof _ _
  | cons c r =>
    simp only [scanExp]
    refine q_ite (fun h => ?_) fun _ => q_ite (fun h => ?_) fun _ => sim2_scanExpDigits S _ _ _ _ _ _ hv
    · exact sim2_scanExpDigits S _ _ _ _ _ _ (sim2_vstep S (beq_ascii h (by decide)) hv)
    · exact sim2_scanExpDigits S _ _ _ _ _ _ (sim2_vstep S (beq_ascii h (by decide)) hv)

theorem sim2_scanAfterInt (neg : Bool) (int : Bytes) (rest : Bytes) (pos : Nat) (hv : V rest) :
    Q (scanAfterInt e1 neg int rest pos) (scanAfterInt e2 neg int rest pos) := by
  cases rest with
  | nil => simp only [scanAfterInt]; exact S.flt (S.ok _ _ _ hv)
  | cons c r =>
    simp only [scanAfterInt]
    refine q_ite (fun h => ?_) fun _ => q_ite (fun h => ?_) fun _ => S.ok _ _ _ hv
    · have hv2 : V (digitsOf r).2 := sim2_digitsOf S r (sim2_vstep S (beq_ascii h (by decide)) hv)
      split
      · exact q_ite (fun _ => S.eof _ _) fun _ => S.flt (S.ok _ _ _ (by simpa [*] using hv2))
      · rename_i c2 r3 h2
        rw [h2] at hv2
        refine q_ite (fun _ => S.err _ _) fun _ => q_ite (fun h' => ?_) fun _ => S.ok _ _ _ hv2
        exact sim2_scanExp S _ _ _ _ _ (sim2_vstep S (Utf8.beq2_ascii h' (by decide) (by decide)) hv2)
    · exact sim2_scanExp S _ _ _ _ _ (sim2_vstep S (Utf8.beq2_ascii h (by decide) (by decide)) hv)

theorem sim2_scanInteger (neg : Bool) (rest : Bytes) (pos : Nat) (hv : V rest) :
    Q (scanInteger e1 neg rest pos) (scanInteger e2 neg rest pos) := by
  cases rest with
  | nil => simp only [scanInteger]; exact S.eof _ _
  | cons c r =>
    simp only [scanInteger]
    refine q_ite (fun h => ?_) fun _ => q_ite (fun h => ?_) fun _ => S.err _ _
    · have hr : V r := sim2_vstep S (beq_ascii h (by decide)) hv
      split
      · exact sim2_scanAfterInt S _ _ _ _ hr
      · exact q_ite (fun _ => S.err _ _) fun _ => sim2_scanAfterInt S _ _ _ _ hr
    · exact sim2_scanAfterInt S _ _ _ _ (sim2_digitsOf S r (sim2_vstep S (mDigit_ascii h) hv))

theorem sim2_scanNumber (rest : Bytes) (pos : Nat) (hv : V rest) : Q (scanNumber e1 rest pos) (scanNumber e2 rest pos) := by
  cases rest with
  | nil => simp only [scanNumber]; exact S.eof _ _
  | cons b r =>
    simp only [scanNumber]
    exact q_ite (fun h => sim2_scanInteger S _ _ _ (sim2_vstep S (beq_ascii h (by decide)) hv)) fun _ => sim2_scanInteger S _ _ _ hv

theorem sim2_ofVisit (v : FromValue.R) (r : Bytes) (p : Nat) (hv : V r) : Q (ofVisit v r p) (ofVisit v r p) := by
  unfold ofVisit
  split
  · exact S.ok _ _ _ hv
  · exact S.raw _ _

theorem sim2_deNumber (ty : NumTy) (rest : Bytes) (pos : Nat) (hv : V rest) : Q (deNumber e1 ty rest pos) (deNumber e2 ty rest pos) := by
  unfold deNumber
  refine sim2_withPeek S hv fun b r p hb => ?_
  refine q_ite (fun _ => ?_) fun _ => sim2_peekInvalidType S hb
  refine sim2_bind' S (sim2_scanNumber S _ _ hb) fun parts r' p' hv' => ?_
  rw [parserNumber_cfg S.cfg, S.cfg]
  refine q_ite (fun _ => ?_) fun _ => ?_
  · split
    · exact S.ok _ _ _ hv'
    · exact S.err _ _
  · split
    · exact sim2_fixPos S true (sim2_ofVisit S _ _ _ hv')
    · exact S.err _ _

theorem sim2_scanDigits (acc rest : Bytes) (pos : Nat) (hv : V rest) : Q (scanDigits e1 acc rest pos) (scanDigits e2 acc rest pos) := by
  induction rest generalizing acc pos with
  | nil => simp only [scanDigits]; exact S.flt (S.ok _ _ _ hv)
  | cons c r ih =>
    simp only [scanDigits]
    exact q_ite (fun h => ih _ _ (sim2_vstep S (mDigit_ascii h) hv)) fun _ => S.ok _ _ _ hv

theorem sim2_scanInteger128 (rest : Bytes) (pos : Nat) (hv : V rest) : Q (scanInteger128 e1 rest pos) (scanInteger128 e2 rest pos) := by
  cases rest with
  | nil => simp only [scanInteger128]; exact S.eof _ _
  | cons c r =>
    simp only [scanInteger128]
    refine q_ite (fun h => ?_) fun _ => q_ite (fun h => ?_) fun _ => S.err _ _
    · have hr : V r := sim2_vstep S (beq_ascii h (by decide)) hv
      split
      · exact S.flt (S.ok _ _ _ hr)
      · exact q_ite (fun _ => S.err _ _) fun _ => S.ok _ _ _ hr
    · exact sim2_scanDigits S _ _ _ (sim2_vstep S (mDigit_ascii h) hv)

/-- a 64-bit-or-narrower integer target never enters `do_deserialize_i128/u128` -/
theorem sim2_deInt (w : IntTy) (hw : is128 w = false) (rest : Bytes) (pos : Nat) (hv : V rest) :
    Q (deInt e1 w rest pos) (deInt e2 w rest pos) := by
  unfold deInt
  rw [hw]
  exact sim2_deNumber S _ _ _ hv

/-! ## strings -/

theorem sim2_machV (t : Nat) (s : St) (r : Bytes) (p : Nat) (hv : V r) (hs : StartSt s) :
    Q (machine (valEnv e1) e1.flt t s r p) (machine (valEnv e2) e2.flt t s r p) := S.mach .value t s r p hv hs

theorem sim2_parseStr (rest : Bytes) (pos : Nat) (hv : V rest) : Q (parseStr e1 rest pos) (parseStr e2 rest pos) := by
  unfold parseStr
  refine sim2_bind' S (sim2_machV S 0 _ _ _ hv (Or.inr rfl)) fun v r' p' hv' => ?_
  split <;> exact S.ok _ _ _ hv'

theorem sim2_deStr (visit : Bytes → FromValue.R) (rest : Bytes) (pos : Nat) (hv : V rest) :
    Q (deStr e1 visit rest pos) (deStr e2 visit rest pos) := by
  unfold deStr
  refine sim2_withPeek S hv fun b r p hb => ?_
  refine q_ite (fun h => ?_) fun _ => sim2_peekInvalidType S hb
  refine sim2_bind' S (sim2_parseStr S _ _ (sim2_vstep S (beq_ascii h (by decide)) hb)) fun s r' p' hv' => ?_
  exact sim2_fixPos S false (sim2_ofVisit S _ _ _ hv')

theorem sim2_runRaw (st : RawSt) (pre rest : Bytes) (pos : Nat) (hv : V (pre ++ rest)) :
    Q (runRaw e1 st rest pos) (runRaw e2 st rest pos) := by
  induction rest generalizing st pre pos with
  | nil => simp only [runRaw]; exact S.eof _ _
  | cons b r ih =>
    have hnext : V ((pre ++ [b]) ++ r) := by simpa using hv
    have hdone : b = 0x22 → V r := fun hb => S.vcut pre b r (by subst hb; decide) hv
    simp only [runRaw]
    split
    · rename_i h; exact S.ok _ _ _ (hdone (stepRaw_done _ _ h))
    · exact S.err _ _
    · exact ih _ _ _ hnext
    · split
      · rename_i h; exact S.ok _ _ _ (hdone (stepRaw_done _ _ h))
      · exact S.err _ _
      · exact ih _ _ _ hnext
      · exact S.err _ _

theorem sim2_parseStrRaw (rest : Bytes) (pos : Nat) (hv : V rest) : Q (parseStrRaw e1 rest pos) (parseStrRaw e2 rest pos) :=
  sim2_runRaw S _ [] rest pos hv

/-! ## sequences -/

theorem sim2_hasNextElement (first : Bool) (rest : Bytes) (pos : Nat) (hv : V rest) :
    Q (hasNextElement e1 first rest pos) (hasNextElement e2 first rest pos) := by
  unfold hasNextElement
  refine sim2_withPeek S hv fun b r p hb => ?_
  refine q_ite (fun _ => S.ok _ _ _ hb) fun _ => q_ite (fun _ => S.ok _ _ _ hb) fun _ => q_ite (fun h => ?_) fun _ => S.err _ _
  refine sim2_withPeek S (sim2_vstep S (beq_ascii h (by decide)) hb) fun c r' q hc => ?_
  exact q_ite (fun _ => S.err _ _) fun _ => S.ok _ _ _ hc

theorem sim2_nextElement (de1 de2 : Bytes → Nat → TOut) (hde : ∀ r p, V r → Q (de1 r p) (de2 r p)) (first : Bool)
    (rest : Bytes) (pos : Nat) (hv : V rest) : Q (nextElement e1 de1 first rest pos) (nextElement e2 de2 first rest pos) := by
  unfold nextElement
  refine sim2_bind' S (sim2_hasNextElement S _ _ _ hv) fun more r p hr => ?_
  exact q_ite (fun _ => sim2_map S _ (hde r p hr)) fun _ => S.ok _ _ _ hr

theorem sim2_seqLoop (de1 de2 : Bytes → Nat → TOut) (hde : ∀ r p, V r → Q (de1 r p) (de2 r p)) (n : Nat) (first : Bool)
    (acc : List TVal) (rest : Bytes) (pos : Nat) (hv : V rest) :
    Q (seqLoop e1 de1 n first acc rest pos) (seqLoop e2 de2 n first acc rest pos) := by
  induction n generalizing first acc rest pos with
  | zero => simp only [seqLoop]; exact S.fuel
  | succ n ih =>
    simp only [seqLoop]
    refine sim2_bind' S (sim2_nextElement S de1 de2 hde _ _ _ hv) fun o r p hr => ?_
    split
    · exact S.ok _ _ _ hr
    · exact ih _ _ _ _ hr

theorem sim2_tupleLoop (de1 de2 : Schema → Bytes → Nat → TOut) (ss : List Schema)
    (hde : ∀ s ∈ ss, ∀ r p, V r → Q (de1 s r p) (de2 s r p)) (first : Bool) (acc : List TVal) (rest : Bytes) (pos : Nat)
    (hv : V rest) : Q (tupleLoop e1 de1 ss first acc rest pos) (tupleLoop e2 de2 ss first acc rest pos) := by
  induction ss generalizing first acc rest pos with
  | nil => simp only [tupleLoop]; exact S.ok _ _ _ hv
  | cons s ss ih =>
    simp only [tupleLoop]
    refine sim2_bind' S (sim2_nextElement S _ _ (hde s (by simp)) _ _ _ hv) fun o r p hr => ?_
    split
    · exact S.raw _ _
    · exact ih (fun s' hs' => hde s' (by simp [hs'])) _ _ _ _ hr

theorem sim2_endSeq (rest : Bytes) (pos : Nat) (hv : V rest) : Q (endSeq e1 rest pos).res (endSeq e2 rest pos).res := by
  have h := sim2_skipWs S rest pos hv
  unfold endSeq
  generalize skipWs rest pos = x at h
  obtain ⟨l, p⟩ := x
  cases l with
  | nil => exact S.eof _ _
  | cons b r =>
    dsimp only
    split
    · rename_i h1; exact S.ok _ _ _ (sim2_vstep S (beq_ascii h1 (by decide)) h)
    · split
      · split <;> exact S.err _ _
      · exact S.err _ _

theorem sim2_endMap (rest : Bytes) (pos : Nat) (hv : V rest) : Q (endMap e1 rest pos).res (endMap e2 rest pos).res := by
  have h := sim2_skipWs S rest pos hv
  unfold endMap
  generalize skipWs rest pos = x at h
  obtain ⟨l, p⟩ := x
  cases l with
  | nil => exact S.eof _ _
  | cons b r =>
    dsimp only
    split
    · rename_i h1; exact S.ok _ _ _ (sim2_vstep S (beq_ascii h1 (by decide)) h)
    · exact S.err _ _

theorem sim2_closeWith {α : Type} (f1 f2 : Bytes → Nat → EndState) (hres : ∀ r p, V r → Q (f1 r p).res (f2 r p).res)
    (hst : ∀ r p, (f1 r p).rest = (f2 r p).rest ∧ (f1 r p).pos = (f2 r p).pos ∧ (f1 r p).peeked = (f2 r p).peeked)
    {ret1 ret2 : Res α} (h : Q ret1 ret2) : Q (closeWith e1 f1 ret1) (closeWith e2 f2 ret2) := by
  rw [closeWith_eq_handle, closeWith_eq_handle]
  refine S.handle h (fun a r p _ _ hv => sim2_bind' S (hres r p hv) fun _ _ _ hv' => S.ok _ _ _ hv') fun r p _ _ => ?_
  rw [(hst r p).1, (hst r p).2.1, (hst r p).2.2]
  exact S.dataIdx _ _ _

theorem sim2_deSeq (t : Nat) (v1 v2 : Bytes → Nat → TOut) (hvis : ∀ r p, V r → Q (v1 r p) (v2 r p)) (rest : Bytes) (pos : Nat)
    (hv : V rest) : Q (deSeq e1 t v1 rest pos) (deSeq e2 t v2 rest pos) := by
  unfold deSeq
  refine sim2_withPeek S hv fun b r p hb => ?_
  refine q_ite (fun h => ?_) fun _ => sim2_peekInvalidType S hb
  rw [tooDeep_cfg S.cfg]
  refine q_ite (fun _ => S.err _ _) fun _ => ?_
  exact sim2_closeWith S _ _ (sim2_endSeq S) (endSeq_state e1 e2) (hvis _ _ (sim2_vstep S (beq_ascii h (by decide)) hb))

theorem sim2_deBytes (t : Nat) (rest : Bytes) (pos : Nat) (hv : V rest) : Q (deBytes e1 t rest pos) (deBytes e2 t rest pos) := by
  unfold deBytes
  refine sim2_withPeek S hv fun b r p hb => ?_
  refine q_ite (fun h => ?_) fun _ => q_ite (fun _ => ?_) fun _ => sim2_peekInvalidType S hb
  · exact sim2_map S _ (sim2_parseStrRaw S _ _ (sim2_vstep S (beq_ascii h (by decide)) hb))
  · exact sim2_deSeq S t _ _ (fun r' p' hr' => sim2_map S _ (sim2_seqLoop S _ _ (sim2_deNumber S _) _ _ _ _ _ hr')) _ _ hb

/-! ## maps -/

theorem sim2_hasNextKey (first : Bool) (rest : Bytes) (pos : Nat) (hv : V rest) :
    Q (hasNextKey e1 first rest pos) (hasNextKey e2 first rest pos) := by
  unfold hasNextKey
  refine sim2_withPeek S hv fun b r p hb => ?_
  refine q_ite (fun _ => S.ok _ _ _ hb) fun _ => q_ite (fun _ => ?_) fun _ => q_ite (fun h => ?_) fun _ => S.err _ _
  · exact q_ite (fun _ => S.ok _ _ _ hb) fun _ => S.err _ _
  · refine sim2_withPeek S (sim2_vstep S (beq_ascii h (by decide)) hb) fun c r' q hc => ?_
    exact q_ite (fun _ => S.ok _ _ _ hc) fun _ => q_ite (fun _ => S.err _ _) fun _ => S.err _ _

theorem sim2_parseObjectColon (rest : Bytes) (pos : Nat) (hv : V rest) :
    Q (parseObjectColon e1 rest pos) (parseObjectColon e2 rest pos) := by
  unfold parseObjectColon
  refine sim2_withPeek S hv fun b r p hb => ?_
  exact q_ite (fun h => S.ok _ _ _ (sim2_vstep S (beq_ascii h (by decide)) hb)) fun _ => S.err _ _

theorem sim2_keyStr (visit : Bytes → FromValue.R) (rest : Bytes) (pos : Nat) (hv : V (rest.drop 1)) :
    Q (keyStr e1 visit rest pos) (keyStr e2 visit rest pos) := by
  unfold keyStr
  exact sim2_bind' S (sim2_parseStr S _ _ hv) fun s r p hr => sim2_ofVisit S _ _ _ hr

theorem sim2_keyInt (w : IntTy) (hw : is128 w = false) (rest : Bytes) (pos : Nat) (hv : V (rest.drop 1)) :
    Q (keyInt e1 w rest pos) (keyInt e2 w rest pos) := by
  unfold keyInt
  generalize rest.drop 1 = l at hv
  cases l with
  | nil => exact S.eof _ _
  | cons b r =>
    dsimp only
    refine q_ite (fun _ => S.errIdx _ _ _ _ (.inl rfl)) fun _ => ?_
    refine sim2_bind' S (sim2_deInt S w hw _ _ hv) fun v r' p' hr' => ?_
    cases r' with
    | nil => exact S.eof _ _
    | cons c r'' =>
      dsimp only
      exact q_ite (fun h => S.ok _ _ _ (sim2_vstep S (beq_ascii h (by decide)) hr')) fun _ => S.err _ _

theorem sim2_keyBool (rest : Bytes) (pos : Nat) (hv : V (rest.drop 1)) : Q (keyBool e1 rest pos) (keyBool e2 rest pos) := by
  unfold keyBool
  generalize rest.drop 1 = l at hv
  cases l with
  | nil => exact S.eof _ _
  | cons b r =>
    dsimp only
    refine q_ite (fun h => ?_) fun _ => q_ite (fun h => ?_) fun _ => ?_
    · exact sim2_ident_ok S _ identQ_ascii.1 _ _ _ (sim2_vstep S (beq_ascii h (by decide)) hv)
    · exact sim2_ident_ok S _ identQ_ascii.2 _ _ _ (sim2_vstep S (beq_ascii h (by decide)) hv)
    · exact sim2_bind' S (sim2_parseStr S _ _ hv) fun _ _ _ _ => S.dataIdx _ _ _

theorem sim2_deVariantId (names : List Bytes) (rest : Bytes) (pos : Nat) (hv : V rest) :
    Q (deVariantId e1 names rest pos) (deVariantId e2 names rest pos) := sim2_deStr S _ _ _ hv

theorem sim2_keyUnitEnum (names : List Bytes) (rest : Bytes) (pos : Nat) (hv : V rest) :
    Q (keyUnitEnum e1 names rest pos) (keyUnitEnum e2 names rest pos) := by
  unfold keyUnitEnum
  refine sim2_bind' S (sim2_deVariantId S _ _ _ hv) fun v r p hr => ?_
  split
  · exact S.ok _ _ _ hr
  · exact S.raw _ _

theorem sim2_deKey (k : KeyKind) (hk : k.no128 = true) (b : UInt8) (r : Bytes) (pos : Nat) (hb : b < 0x80) (hv : V (b :: r)) :
    Q (deKey e1 k (b :: r) pos) (deKey e2 k (b :: r) pos) := by
  have hr : V ((b :: r).drop 1) := sim2_vstep S hb hv
  unfold deKey
  split
  · exact sim2_keyStr S _ _ _ hr
  · exact sim2_keyInt S _ (by simpa [KeyKind.no128] using hk) _ _ hr
  · exact sim2_keyBool S _ _ hr
  · exact sim2_keyStr S _ _ _ hr
  · exact sim2_keyUnitEnum S _ _ _ hv

theorem sim2_mapLoop (k : KeyKind) (hk : k.no128 = true) (de1 de2 : Bytes → Nat → TOut) (hde : ∀ r p, V r → Q (de1 r p) (de2 r p)) (n : Nat)
    (first : Bool) (acc : List (TVal × TVal)) (rest : Bytes) (pos : Nat) (hv : V rest) :
    Q (mapLoop e1 k de1 n first acc rest pos) (mapLoop e2 k de2 n first acc rest pos) := by
  induction n generalizing first acc rest pos with
  | zero => simp only [mapLoop]; exact S.fuel
  | succ n ih =>
    simp only [mapLoop]
    refine sim2_bind S (sim2_hasNextKey S _ _ _ hv) fun more r p hm _ hr => ?_
    refine q_ite (fun _ => S.ok _ _ _ hr) fun hmore => ?_
    have hmt : more = true := by simpa using hmore
    subst hmt
    obtain ⟨r', rfl⟩ := hasNextKey_quote _ _ _ _ _ _ hm
    refine sim2_bind' S (sim2_deKey S k hk _ _ _ (by decide) hr) fun kv r1 p1 h1 => ?_
    refine sim2_bind' S (sim2_parseObjectColon S r1 p1 h1) fun _ r2 p2 h2 => ?_
    exact sim2_bind' S (hde r2 p2 h2) fun v r3 p3 h3 => ih _ _ _ _ h3

theorem sim2_deMap (t : Nat) (v1 v2 : Bytes → Nat → TOut) (hvis : ∀ r p, V r → Q (v1 r p) (v2 r p)) (rest : Bytes) (pos : Nat)
    (hv : V rest) : Q (deMap e1 t v1 rest pos) (deMap e2 t v2 rest pos) := by
  unfold deMap
  refine sim2_withPeek S hv fun b r p hb => ?_
  refine q_ite (fun h => ?_) fun _ => sim2_peekInvalidType S hb
  rw [tooDeep_cfg S.cfg]
  refine q_ite (fun _ => S.err _ _) fun _ => ?_
  exact sim2_closeWith S _ _ (sim2_endMap S) (endMap_state e1 e2) (hvis _ _ (sim2_vstep S (beq_ascii h (by decide)) hb))

/-! ## structs, enums -/

theorem sim2_ignoreValue (rest : Bytes) (pos : Nat) (hv : V rest) : Q (ignoreValue e1 rest pos) (ignoreValue e2 rest pos) := by
  unfold ignoreValue
  exact sim2_map S _ (S.mach .ignored 0 init rest pos hv (Or.inl rfl))

theorem sim2_structLoop (de1 de2 : Schema → Bytes → Nat → TOut) (fs : List (Bytes × Schema))
    (hde : ∀ f ∈ fs, ∀ r p, V r → Q (de1 f.2 r p) (de2 f.2 r p)) (deny : Bool) (n : Nat) (first : Bool)
    (slots : List (Option TVal)) (rest : Bytes) (pos : Nat) (hv : V rest) :
    Q (structLoop e1 de1 fs deny n first slots rest pos) (structLoop e2 de2 fs deny n first slots rest pos) := by
  induction n generalizing first slots rest pos with
  | zero => simp only [structLoop]; exact S.fuel
  | succ n ih =>
    simp only [structLoop]
    refine sim2_bind S (sim2_hasNextKey S _ _ _ hv) fun more r p hm _ hr => ?_
    refine q_ite (fun _ => S.ok _ _ _ hr) fun hmore => ?_
    have hmt : more = true := by simpa using hmore
    subst hmt
    obtain ⟨r', rfl⟩ := hasNextKey_quote _ _ _ _ _ _ hm
    have hr' : V ((0x22 :: r').drop 1) := sim2_vstep S (by decide) hr
    refine sim2_bind' S (sim2_parseStr S _ _ hr') fun name r1 p1 h1 => ?_
    split
    · split
      · exact S.raw _ _
      · refine sim2_bind' S (sim2_parseObjectColon S r1 p1 h1) fun _ r2 p2 h2 => ?_
        split
        · rename_i nm s hs
          exact sim2_bind' S (hde _ (mem_of_getElem? hs) r2 p2 h2) fun v r3 p3 h3 => ih _ _ _ _ h3
        · exact S.raw _ _
    · refine q_ite (fun _ => S.raw _ _) fun _ => ?_
      refine sim2_bind' S (sim2_parseObjectColon S r1 p1 h1) fun _ r2 p2 h2 => ?_
      exact sim2_bind' S (sim2_ignoreValue S r2 p2 h2) fun _ r3 p3 h3 => ih _ _ _ _ h3

theorem sim2_structVisitMap (de1 de2 : Schema → Bytes → Nat → TOut) (fs : List (Bytes × Schema))
    (hde : ∀ f ∈ fs, ∀ r p, V r → Q (de1 f.2 r p) (de2 f.2 r p)) (deny : Bool) (rest : Bytes) (pos : Nat) (hv : V rest) :
    Q (structVisitMap e1 de1 fs deny rest pos) (structVisitMap e2 de2 fs deny rest pos) := by
  unfold structVisitMap
  refine sim2_bind' S (sim2_structLoop S de1 de2 fs hde deny _ _ _ _ _ hv) fun slots r p hr => ?_
  split
  · exact S.ok _ _ _ hr
  · exact S.raw _ _

theorem sim2_deStruct (t : Nat) (de1 de2 : Nat → Schema → Bytes → Nat → TOut) (fs : List (Bytes × Schema))
    (hde : ∀ f ∈ fs, ∀ d r p, V r → Q (de1 d f.2 r p) (de2 d f.2 r p)) (deny : Bool) (rest : Bytes) (pos : Nat) (hv : V rest) :
    Q (deStruct e1 t de1 fs deny rest pos) (deStruct e2 t de2 fs deny rest pos) := by
  unfold deStruct
  refine sim2_withPeek S hv fun b r p hb => ?_
  rw [tooDeep_cfg S.cfg]
  refine q_ite (fun h => ?_) fun _ => q_ite (fun h => ?_) fun _ => sim2_peekInvalidType S hb
  · refine q_ite (fun _ => S.err _ _) fun _ => ?_
    refine sim2_closeWith S _ _ (sim2_endSeq S) (endSeq_state e1 e2) (sim2_map S _ ?_)
    refine sim2_tupleLoop S _ _ _ ?_ _ _ _ _ (sim2_vstep S (beq_ascii h (by decide)) hb)
    intro s hs
    obtain ⟨f, hf', rfl⟩ := List.mem_map.mp hs
    exact hde f hf' _
  · refine q_ite (fun _ => S.err _ _) fun _ => ?_
    refine sim2_closeWith S _ _ (sim2_endMap S) (endMap_state e1 e2) ?_
    exact sim2_structVisitMap S _ _ fs (fun f hf' => hde f hf' _) deny _ _ (sim2_vstep S (beq_ascii h (by decide)) hb)

theorem sim2_dePayload (t : Nat) (de1 de2 : Nat → Schema → Bytes → Nat → TOut) (sh : VariantShape)
    (hde : ∀ s ∈ shapeSchemas sh, ∀ d r p, V r → Q (de1 d s r p) (de2 d s r p)) (rest : Bytes) (pos : Nat) (hv : V rest) :
    Q (dePayload e1 t de1 sh rest pos) (dePayload e2 t de2 sh rest pos) := by
  unfold dePayload
  split
  · exact sim2_deUnit S _ _ hv
  · exact hde _ (by simp [shapeSchemas]) _ _ _ hv
  · exact sim2_deSeq S t _ _ (fun r p hr => sim2_map S _
      (sim2_tupleLoop S _ _ _ (fun s hs => hde s (by simpa [shapeSchemas] using hs) _) _ _ _ _ hr)) _ _ hv
  · refine sim2_deStruct S t de1 de2 _ (fun f hf' d => hde f.2 ?_ d) false _ _ hv
    simp only [shapeSchemas, List.mem_map]
    exact ⟨f, hf', rfl⟩

theorem sim2_deEnum (t : Nat) (de1 de2 : Nat → Schema → Bytes → Nat → TOut) (vs : List (Bytes × VariantShape))
    (hde : ∀ v ∈ vs, ∀ s ∈ shapeSchemas v.2, ∀ d r p, V r → Q (de1 d s r p) (de2 d s r p)) (rest : Bytes) (pos : Nat)
    (hv : V rest) : Q (deEnum e1 t de1 vs rest pos) (deEnum e2 t de2 vs rest pos) := by
  unfold deEnum
  refine sim2_withPeek S hv fun b r p hb => ?_
  rw [tooDeep_cfg S.cfg]
  refine q_ite (fun h => ?_) fun _ => q_ite (fun _ => ?_) fun _ => S.err _ _
  · refine q_ite (fun _ => S.err _ _) fun _ => ?_
    refine sim2_bind' S (sim2_deVariantId S _ _ _ (sim2_vstep S (beq_ascii h (by decide)) hb)) fun iv r1 p1 h1 => ?_
    dsimp only
    refine sim2_bind' S (sim2_parseObjectColon S r1 p1 h1) fun _ r2 p2 h2 => ?_
    split
    · exact S.raw _ _
    · rename_i nm sh hs
      refine sim2_bind' S (sim2_dePayload S (t + 1) de1 de2 sh (hde _ (mem_of_getElem? hs)) r2 p2 h2) fun payload r3 p3 h3 => ?_
      refine sim2_withPeek S h3 fun c r4 q hc => ?_
      exact q_ite (fun h' => S.ok _ _ _ (sim2_vstep S (beq_ascii h' (by decide)) hc)) fun _ => S.errIdx _ _ _ _ (.inr rfl)
  · refine sim2_bind' S (sim2_deVariantId S _ _ _ hb) fun iv r1 p1 h1 => ?_
    dsimp only
    split
    · exact S.ok _ _ _ h1
    · exact S.raw _ _

/-- **the two runs are related on every schema without a 128-bit integer target**: fuel, depth, input and position alike -/
theorem sim2_deTyped : ∀ (f t : Nat) (s : Schema), s.no128 = true → ∀ (rest : Bytes) (pos : Nat), V rest →
    Q (deTyped e1 f t s rest pos) (deTyped e2 f t s rest pos) := by
  intro f
  induction f with
  | zero => intro t s _ rest pos _; unfold deTyped; exact S.fuel
  | succ f ih =>
    intro t s h128 rest pos hv
    cases s with
    | bool => rw [deTyped_bool, deTyped_bool]; exact sim2_deBool S _ _ hv
    | int w => rw [deTyped_int, deTyped_int]; exact sim2_deInt S _ (by simpa [Schema.no128] using h128) _ _ hv
    | f64 => rw [deTyped_f64, deTyped_f64]; exact sim2_deNumber S _ _ _ hv
    | f32 => rw [deTyped_f32, deTyped_f32]; exact sim2_deNumber S _ _ _ hv
    | char => rw [deTyped_char, deTyped_char]; exact sim2_deStr S _ _ _ hv
    | string => rw [deTyped_string, deTyped_string]; exact sim2_deStr S _ _ _ hv
    | bytes => rw [deTyped_bytes, deTyped_bytes]; exact sim2_deBytes S _ _ _ hv
    | option s' =>
      have h1 : s'.no128 = true := by simpa [Schema.no128] using h128
      rw [deTyped_option, deTyped_option]
      dsimp only
      have h := sim2_skipWs S rest pos hv
      generalize skipWs rest pos = x at h
      obtain ⟨l, p⟩ := x
      cases l with
      | nil => exact S.flt (sim2_map S _ (ih _ _ h1 _ _ h))
      | cons b r =>
        dsimp only
        refine q_ite (fun hb => ?_) fun _ => sim2_map S _ (ih _ _ h1 _ _ h)
        exact sim2_ident_ok S _ ident_ascii.1 _ _ _ (sim2_vstep S (beq_ascii hb (by decide)) h)
    | unit => rw [deTyped_unit, deTyped_unit]; exact sim2_deUnit S _ _ hv
    | unitStruct => rw [deTyped_unitStruct, deTyped_unitStruct]; exact sim2_deUnit S _ _ hv
    | newtype s' => rw [deTyped_newtype, deTyped_newtype]; exact ih _ _ (by simpa [Schema.no128] using h128) _ _ hv
    | seq s' =>
      rw [deTyped_seq, deTyped_seq]
      exact sim2_deSeq S t _ _ (fun r p hr => sim2_map S _ (sim2_seqLoop S _ _ (ih _ _ (by simpa [Schema.no128] using h128)) _ _ _ _ _ hr)) _ _ hv
    | tuple ss =>
      rw [deTyped_tuple, deTyped_tuple]
      exact sim2_deSeq S t _ _ (fun r p hr => sim2_map S _ (sim2_tupleLoop S _ _ _ (fun s' hs => ih _ s' (no128List_mem (by simpa [Schema.no128] using h128) hs)) _ _ _ _ hr)) _ _ hv
    | map k s' =>
      have h1 : k.no128 = true ∧ s'.no128 = true := by simpa [Schema.no128] using h128
      rw [deTyped_map, deTyped_map]
      exact sim2_deMap S t _ _ (fun r p hr => sim2_map S _ (sim2_mapLoop S _ h1.1 _ _ (ih _ _ h1.2) _ _ _ _ _ hr)) _ _ hv
    | struct_ fs deny =>
      rw [deTyped_struct, deTyped_struct]
      exact sim2_deStruct S t _ _ _ (fun fl hfl d => ih d fl.2 (no128Fields_mem (by simpa [Schema.no128] using h128) hfl)) _ _ _ hv
    | enum_ vs =>
      rw [deTyped_enum, deTyped_enum]
      exact sim2_deEnum S t _ _ _ (fun v hv' s' hs' d => ih d s' (no128Variants_mem (by simpa [Schema.no128] using h128) hv' hs')) _ _ hv
    | ignored => rw [deTyped_ignored, deTyped_ignored]; exact sim2_map S _ (sim2_ignoreValue S _ _ hv)
    | any =>
      rw [deTyped_any, deTyped_any]
      exact sim2_map S _ (sim2_machV S t _ _ _ hv (Or.inl rfl))

end SJ.Proofs.Typed
