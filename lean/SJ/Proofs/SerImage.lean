import SJ.Proofs.Number
import SJ.Spec.Image
/-!
# C03 helper lemmas, part 5: every number in the image of a well-formed program is a number literal
(given the recorded assumptions on `itoa` / `ryu`).
-/
namespace SJ.Proofs.SerImage
open SJ SJ.Spec.Grammar SJ.Spec.Denote SJ.Spec.Image SJ.Spec.Program SJ.Proofs

theorem numOf_wf (t : Bytes) (h : IsNumber t) : numbersWF (numOf t) = true := by
  simp [numOf, numbersWF, (Number.splitNumber_of_isNumber t h).1]

section
variable (ext : Ext) (hext : ExtOK ext)
include hext

theorem itoa_wf (n : Int) : numbersWF (numOf (ext.itoa n)) = true := by
  rw [hext.itoa_decimal]; exact numOf_wf _ (Number.decimal_isNumber n)

theorem bytes_wf : ∀ bs : Bytes, numbersWFList (bs.map fun b => numOf (ext.itoa b.toNat)) = true
  | [] => rfl
  | b :: bs => by simp [numbersWFList, itoa_wf ext hext, bytes_wf bs]

set_option linter.unusedSectionVars false
mutual
theorem image_wf : ∀ (p : SVal) (d : DV), p.wf = true → image ext p = .ok d → numbersWF d = true
  | .bool b, d, _, h => by simp [image] at h; subst h; rfl
  | .int _ n, d, _, h => by simp [image] at h; subst h; exact itoa_wf ext hext n
  | .f32 b, d, _, h => by
    simp only [image, Except.ok.injEq] at h; subst h
    by_cases hb : finite32 b = true
    · simp only [hb, if_true]; exact numOf_wf _ (hext.ryu32_number b hb)
    · simp [hb, numbersWF]
  | .f64 b, d, _, h => by
    simp only [image, Except.ok.injEq] at h; subst h
    by_cases hb : finite64 b = true
    · simp only [hb, if_true]; exact numOf_wf _ (hext.ryu64_number b hb)
    · simp [hb, numbersWF]
  | .char cp, d, _, h => by simp [image] at h; subst h; rfl
  | .str s, d, _, h => by simp [image] at h; subst h; rfl
  | .bytes bs, d, _, h => by simp [image] at h; subst h; simpa [numbersWF] using bytes_wf ext hext bs
  | .none, d, _, h => by simp [image] at h; subst h; rfl
  | .some p, d, hw, h => by simp only [image] at h; exact image_wf p d (by simpa [SVal.wf] using hw) h
  | .unit, d, _, h => by simp [image] at h; subst h; rfl
  | .unitStruct, d, _, h => by simp [image] at h; subst h; rfl
  | .unitVariant v, d, _, h => by simp [image] at h; subst h; rfl
  | .newtypeStruct p, d, hw, h => by simp only [image] at h; exact image_wf p d (by simpa [SVal.wf] using hw) h
  | .newtypeVariant v p, d, hw, h => by
    simp only [image] at h
    cases hi : image ext p with
    | error e => simp [hi, Except.map] at h
    | ok d' =>
      simp only [hi, Except.map, Except.ok.injEq] at h; subst h
      simp [tagged, numbersWF, numbersWFMembers, image_wf p d' (by simpa [SVal.wf] using hw) hi]
  | .seq hint xs, d, hw, h => by
    simp only [image] at h
    cases hi : imageList ext xs with
    | error e => simp [hi, Except.map] at h
    | ok ds =>
      simp only [hi, Except.map, Except.ok.injEq] at h; subst h
      simp only [SVal.wf, Bool.and_eq_true] at hw
      simpa [numbersWF] using imageList_wf xs ds hw.2 hi
  | .tuple xs, d, hw, h => by
    simp only [image] at h
    cases hi : imageList ext xs with
    | error e => simp [hi, Except.map] at h
    | ok ds =>
      simp only [hi, Except.map, Except.ok.injEq] at h; subst h
      simpa [numbersWF] using imageList_wf xs ds (by simpa [SVal.wf] using hw) hi
  | .tupleStruct xs, d, hw, h => by
    simp only [image] at h
    cases hi : imageList ext xs with
    | error e => simp [hi, Except.map] at h
    | ok ds =>
      simp only [hi, Except.map, Except.ok.injEq] at h; subst h
      simpa [numbersWF] using imageList_wf xs ds (by simpa [SVal.wf] using hw) hi
  | .tupleVariant v xs, d, hw, h => by
    simp only [image] at h
    cases hi : imageList ext xs with
    | error e => simp [hi, Except.map] at h
    | ok ds =>
      simp only [hi, Except.map, Except.ok.injEq] at h; subst h
      simpa [tagged, numbersWF, numbersWFMembers] using imageList_wf xs ds (by simpa [SVal.wf] using hw) hi
  | .map hint es, d, hw, h => by
    simp only [image] at h
    cases hi : imageEntries ext es with
    | error e => simp [hi, Except.map] at h
    | ok ms =>
      simp only [hi, Except.map, Except.ok.injEq] at h; subst h
      simp only [SVal.wf, Bool.and_eq_true] at hw
      simpa [numbersWF] using imageEntries_wf es ms hw.2 hi
  | .struct_ fs, d, hw, h => by
    simp only [image] at h
    cases hi : imageFields ext fs with
    | error e => simp [hi, Except.map] at h
    | ok ms =>
      simp only [hi, Except.map, Except.ok.injEq] at h; subst h
      simpa [numbersWF] using imageFields_wf fs ms (by simpa [SVal.wf] using hw) hi
  | .structVariant v fs, d, hw, h => by
    simp only [image] at h
    cases hi : imageFields ext fs with
    | error e => simp [hi, Except.map] at h
    | ok ms =>
      simp only [hi, Except.map, Except.ok.injEq] at h; subst h
      simpa [tagged, numbersWF, numbersWFMembers] using imageFields_wf fs ms (by simpa [SVal.wf] using hw) hi
  | .collectStr s, d, _, h => by simp [image] at h; subst h; rfl
  | .numberLit s, d, hw, h => by
    simp only [image, Except.ok.injEq] at h; subst h
    exact numOf_wf _ ((Number.isNumber_iff s).1 (by simpa [SVal.wf] using hw))
theorem imageList_wf : ∀ (xs : List SVal) (ds : List DV), wfList xs = true → imageList ext xs = .ok ds →
    numbersWFList ds = true
  | [], ds, _, h => by simp [imageList] at h; subst h; rfl
  | x :: xs, ds, hw, h => by
    simp only [wfList, Bool.and_eq_true] at hw
    simp only [imageList] at h
    cases h1 : image ext x with
    | error e => simp [h1] at h
    | ok d =>
      cases h2 : imageList ext xs with
      | error e => simp [h1, h2] at h
      | ok ds' =>
        simp only [h1, h2, Except.ok.injEq] at h; subst h
        simp [numbersWFList, image_wf x d hw.1 h1, imageList_wf xs ds' hw.2 h2]
theorem imageEntries_wf : ∀ (es : List (SVal × SVal)) (ms : List (Bytes × DV)), wfEntries es = true →
    imageEntries ext es = .ok ms → numbersWFMembers ms = true
  | [], ms, _, h => by simp [imageEntries] at h; subst h; rfl
  | (k, v) :: es, ms, hw, h => by
    simp only [wfEntries, Bool.and_eq_true] at hw
    simp only [imageEntries] at h
    cases h0 : keyText ext k with
    | error e => simp [h0] at h
    | ok kt =>
      cases h1 : image ext v with
      | error e => simp [h0, h1] at h
      | ok d =>
        cases h2 : imageEntries ext es with
        | error e => simp [h0, h1, h2] at h
        | ok ms' =>
          simp only [h0, h1, h2, Except.ok.injEq] at h; subst h
          simp [numbersWFMembers, image_wf v d hw.1.2 h1, imageEntries_wf es ms' hw.2 h2]
theorem imageFields_wf : ∀ (fs : List (Bytes × SVal)) (ms : List (Bytes × DV)), wfFields fs = true →
    imageFields ext fs = .ok ms → numbersWFMembers ms = true
  | [], ms, _, h => by simp [imageFields] at h; subst h; rfl
  | (k, v) :: fs, ms, hw, h => by
    simp only [wfFields, Bool.and_eq_true] at hw
    simp only [imageFields] at h
    cases h1 : image ext v with
    | error e => simp [h1] at h
    | ok d =>
      cases h2 : imageFields ext fs with
      | error e => simp [h1, h2] at h
      | ok ms' =>
        simp only [h1, h2, Except.ok.injEq] at h; subst h
        simp [numbersWFMembers, image_wf v d hw.1 h1, imageFields_wf fs ms' hw.2 h2]
end
end

end SJ.Proofs.SerImage
