import SJ.Props.C01Iff
import SJ.Props.C07Total
import SJ.Props.C08Parser
/-!
# C02 composed with C07 / C08: what the float leaves of a parsed `Value` are

`c02_value_is_canon` says the value returned is `Spec.Canon.canon` of a syntax tree of the text, and for a number node
`canon` is `Spec.Canon.numOf` — the configured conversion itself. Here the per-number theorems of C07 (`float_roundtrip`:
nearest-even for every literal) and C08 (default build: finite, signed, within 5 ulp, exact on the short window) are
lifted over the tree:

* `AllNums P t` — `P` holds at every number node of the syntax tree `t` (structural recursion);
* `derives_allNums` — every number node of a tree derived from `bs` is a well-formed literal no longer than `bs`;
* `leaf_fr` / `leaf_default` — the per-literal statements about `numOf` (not about `parseTop` on a bare literal).
* `numNodes` / `numLeaves`, `canon_leaves` — every number of the value `canon t` is `numOf` of a number node of `t`
  (`objectOf` only selects among the member values: `lookupLast_mem`), so the leaf statements hold of the value's numbers.
-/
namespace SJ.Proofs.C02Floats
open SJ SJ.Spec.Grammar SJ.Spec.Ieee
open SJ.Spec.Canon (partsOf numOf)
open SJ.Proofs.NumLink (toNumLit numOfNRes numOfLit)
open SJ.Proofs.NumLinkParser (litOf)

mutual
/-- `P` holds at every number node of the syntax tree (array elements, object member values — duplicates included) -/
def AllNums (P : NumParts → Prop) : CST → Prop
  | .num p => P p
  | .arr xs => AllNumsList P xs
  | .obj ms => AllNumsMembers P ms
  | _ => True
def AllNumsList (P : NumParts → Prop) : List CST → Prop
  | [] => True
  | x :: xs => AllNums P x ∧ AllNumsList P xs
def AllNumsMembers (P : NumParts → Prop) : List (List StrItem × CST) → Prop
  | [] => True
  | (_, x) :: ms => AllNums P x ∧ AllNumsMembers P ms
end

/-- every number node of a tree derived from `bs` is a well-formed literal whose bytes are no longer than `bs` -/
theorem derives_allNums (P : NumParts → Prop) (n : Nat)
    (hP : ∀ p : NumParts, p.WF = true → p.bytes.length ≤ n → P p) {bs : Bytes} {t : CST} (h : Derives bs t) :
    bs.length ≤ n → AllNums P t := by
  refine Derives.rec
    (motive_1 := fun bs t _ => bs.length ≤ n → AllNums P t)
    (motive_2 := fun bs xs _ => bs.length ≤ n → AllNumsList P xs)
    (motive_3 := fun bs ms _ => bs.length ≤ n → AllNumsMembers P ms)
    ?_ ?_ ?_ ?_ ?_ ?_ ?_ ?_ ?_ ?_ ?_ ?_ ?_ h
  · intro _; simp only [AllNums]
  · intro _; simp only [AllNums]
  · intro _; simp only [AllNums]
  · intro p hwf hl; simp only [AllNums]; exact hP p hwf hl
  · intro _ _ _; simp only [AllNums]
  · intro _ _ _; simp only [AllNums, AllNumsList]
  · intro w₁ body w₂ xs _ _ _ _ ih hl
    simp only [AllNums]
    exact ih (by simp only [List.length_append, List.length_cons, List.length_nil] at hl; omega)
  · intro _ _ _; simp only [AllNums, AllNumsMembers]
  · intro w₁ body w₂ ms _ _ _ _ ih hl
    simp only [AllNums]
    exact ih (by simp only [List.length_append, List.length_cons, List.length_nil] at hl; omega)
  · intro bs t _ ih hl
    simp only [AllNumsList, and_true]
    exact ih hl
  · intro bs w₁ w₂ rest t ts _ _ _ _ ih1 ih2 hl
    simp only [List.length_append, List.length_cons, List.length_nil] at hl
    simp only [AllNumsList]
    exact ⟨ih1 (by omega), ih2 (by omega)⟩
  · intro k _ w₁ w₂ vb t _ _ _ ih hl
    simp only [List.length_append, List.length_cons, List.length_nil] at hl
    simp only [AllNumsMembers, and_true]
    exact ih (by omega)
  · intro k _ w₁ w₂ vb w₃ w₄ rest t ms _ _ _ _ _ _ ih1 ih2 hl
    simp only [List.length_append, List.length_cons, List.length_nil] at hl
    simp only [AllNumsMembers]
    exact ⟨ih1 (by omega), ih2 (by omega)⟩

/-- the same for a JSON text (surrounding whitespace) -/
theorem jsonText_allNums (P : NumParts → Prop) {bs : Bytes} {t : CST} (h : JsonText bs t)
    (hP : ∀ p : NumParts, p.WF = true → p.bytes.length ≤ bs.length → P p) : AllNums P t := by
  obtain ⟨w₁, v, w₂, rfl, _, _, hd⟩ := h
  exact derives_allNums P _ hP hd (by simp only [List.length_append]; omega)

theorem bytes_length (p : NumParts) : p.int.length + p.frac.length ≤ p.bytes.length := by
  unfold NumParts.bytes
  simp only [List.length_append]
  omega

theorem litOf_digits_length (p : NumParts) : (litOf p).digits.length ≤ p.bytes.length := by
  have h := bytes_length p
  unfold Spec.Decimal.NumLit.digits
  rw [SJ.Proofs.NumLinkParser.litOf_int, SJ.Proofs.NumLinkParser.litOf_frac, List.length_append, List.length_drop]
  omega

/-! ## the leaf statements -/

/-- an integer leaf is the literal's exact integer: an integer literal without fraction and exponent, `n` its digits' value -/
def IntLeaf (p : NumParts) : Num → Prop
  | .pos n => p.minus = false ∧ p.frac = [] ∧ p.exp = [] ∧ n = Model.Num.natOfDigits p.int
  | .neg k => p.minus = true ∧ p.frac = [] ∧ p.exp = [] ∧ k = -(Model.Num.natOfDigits p.int : Int)
  | _ => True

/-- **float_roundtrip leaf.** What `canon` puts at the number node `p`: a float is *the* nearest-even binary64 of the
    literal's exact decimal value (`Spec.Decimal`: `(litOf p).exact`), with the literal's sign; an integer is the literal's
    exact integer; never a literal token. -/
def LeafNearest (cfg : Spec.Canon.Cfg) (p : NumParts) : Prop :=
  (∀ b, numOf cfg p = some (.float b) →
    roundNE64 p.minus (litOf p).exact.1 (litOf p).exact.2 = some b ∧
    IsNearestEven64 p.minus (litOf p).exact.1 (litOf p).exact.2 b) ∧
  (∀ x, numOf cfg p = some x → IntLeaf p x) ∧
  (∀ s, numOf cfg p ≠ some (.lit s))

/-- **default-build leaf.** A float is finite, carries the literal's sign, lies within 5 ulp of the literal's exact value
    (`withinUlps`, the ulp of the correctly rounded value) and is the correctly rounded value itself when the literal has
    at most 15 significant digits and a net exponent within ±22; an integer is the literal's exact integer. -/
def Leaf5ulp (cfg : Spec.Canon.Cfg) (p : NumParts) : Prop :=
  (∀ b, numOf cfg p = some (.float b) →
    F64.isFinite b = true ∧ F64.sign b = p.minus ∧
    withinUlps 5 p.minus (litOf p).exact.1 (litOf p).exact.2 b = true ∧
    ((litOf p).sigVal < 10 ^ 15 → -22 ≤ (litOf p).netExp → (litOf p).netExp ≤ 22 →
      roundNE64 p.minus (litOf p).exact.1 (litOf p).exact.2 = some b)) ∧
  (∀ x, numOf cfg p = some x → IntLeaf p x) ∧
  (∀ s, numOf cfg p ≠ some (.lit s))

/-- `intClass` on scanned parts: only integer literals, with the value of their digits -/
theorem intClass_some (p : NumParts) (r : Model.Num.NRes) (h : Model.Num.intClass (partsOf p) = some r) :
    p.frac = [] ∧ p.exp = [] ∧
    ((p.minus = false ∧ r = .u64 (Model.Num.natOfDigits p.int)) ∨
     (p.minus = true ∧ r = .i64 (-(Model.Num.natOfDigits p.int : Int)))) := by
  obtain ⟨m, i, f, e⟩ := p
  cases f with
  | cons a f' => simp [Model.Num.intClass, partsOf] at h
  | nil =>
    cases e with
    | cons c e' =>
      cases e' with
      | nil => simp [Model.Num.intClass, partsOf] at h
      | cons s ds =>
        by_cases h45 : s = 45 <;> by_cases h43 : s = 43 <;> simp [Model.Num.intClass, partsOf, h45, h43] at h
    | nil =>
      cases m
      · simp [Model.Num.intClass, partsOf] at h
        exact ⟨rfl, rfl, .inl ⟨rfl, h.2.symm⟩⟩
      · simp [Model.Num.intClass, partsOf] at h
        exact ⟨rfl, rfl, .inr ⟨rfl, h.2.2.symm⟩⟩

theorem leaf_fr (cfg : Spec.Canon.Cfg) (hfr : cfg.fr = true) (hap : cfg.ap = false) (p : NumParts)
    (hwf : p.WF = true) (hlen : p.bytes.length + 20 < 2 ^ 29) : LeafNearest cfg p := by
  have hbl := bytes_length p
  have hn := SJ.Proofs.LexTopParser.numOf_fr cfg hfr hap p hwf (by omega)
  have hpw := SJ.Proofs.NumLinkParser.partsOf_wf p hwf
  have hfr' : ((partsOf p).frac.getD []) = p.frac.drop 1 := SJ.Proofs.Complete.fracOf_getD p.frac
  have hint : (partsOf p).int = p.int := rfl
  have wf : SJ.Proofs.LexSplit.WF (partsOf p) :=
    SJ.Proofs.LexTopSpec.wf_of_partsWF _ hpw (by rw [hfr', List.length_drop]; omega)
  have hl2 : ((partsOf p).int ++ (partsOf p).frac.getD []).length + 20 < 2 ^ 29 := by
    rw [hfr', hint, List.length_append, List.length_drop]; omega
  cases hic : Model.Num.intClass (partsOf p) with
  | some r =>
    have hr := (SJ.Props.C07.c07_other_literals false _ wf hl2).1 r hic
    rw [hr] at hn
    obtain ⟨hf, he, hc⟩ := intClass_some p r hic
    rcases hc with ⟨hm, rfl⟩ | ⟨hm, rfl⟩
    · refine ⟨fun b hb => ?_, fun x hx => ?_, fun s hs => ?_⟩
      · rw [hn] at hb; cases hb
      · rw [hn] at hx; cases hx; exact ⟨hm, hf, he, rfl⟩
      · rw [hn] at hs; cases hs
    · refine ⟨fun b hb => ?_, fun x hx => ?_, fun s hs => ?_⟩
      · rw [hn] at hb; cases hb
      · rw [hn] at hx; cases hx; exact ⟨hm, hf, he, rfl⟩
      · rw [hn] at hs; cases hs
  | none =>
    have h64 := SJ.Proofs.LexTopExp.deFloat64_nearest_all _ wf hl2 hic
    have hden : 0 < (toNumLit (partsOf p)).exact.2 := by
      rw [SJ.Proofs.LexTopSpec.exact_eq_scale]; exact SJ.Proofs.LexTopSpec.scale10_den_pos _ _
    have hden' : 0 < (litOf p).exact.2 := hden
    obtain ⟨a1, a2⟩ := SJ.Proofs.Ieee.roundNE64_correct p.minus (litOf p).exact.1 (litOf p).exact.2 hden'
    have hneg : (partsOf p).neg = p.minus := rfl
    rw [hneg] at h64
    rw [h64] at hn
    change numOf cfg p = numOfNRes (match roundNE64 p.minus (litOf p).exact.1 (litOf p).exact.2 with
      | some b => .f64 b | none => .outOfRange) at hn
    cases hr : roundNE64 p.minus (litOf p).exact.1 (litOf p).exact.2 with
    | none =>
      rw [hr] at hn
      refine ⟨fun b hb => ?_, fun x hx => ?_, fun s hs => ?_⟩
      · rw [hn] at hb; cases hb
      · rw [hn] at hx; cases hx
      · rw [hn] at hs; cases hs
    | some b0 =>
      rw [hr] at hn
      refine ⟨fun b hb => ?_, fun x hx => ?_, fun s hs => ?_⟩
      · rw [hn] at hb
        cases hb
        refine ⟨hr, ?_⟩
        by_cases hov : Overflows64 (litOf p).exact.1 (litOf p).exact.2
        · rw [a2 hov] at hr; cases hr
        · obtain ⟨r, hr', hne⟩ := a1 hov
          rw [hr] at hr'; cases hr'; exact hne
      · rw [hn] at hx; cases hx; trivial
      · rw [hn] at hs; cases hs

theorem leaf_default (cfg : Spec.Canon.Cfg) (hfr : cfg.fr = false) (hap : cfg.ap = false) (p : NumParts)
    (hwf : p.WF = true) (hlen : p.bytes.length < 2 ^ 30) : Leaf5ulp cfg p := by
  have hn := SJ.Proofs.NumLinkParser.numOf_eq_numOfLit cfg hfr hap p hwf
  have hlwf := SJ.Proofs.NumLinkParser.litOf_wf p hwf
  have hdl := litOf_digits_length p
  refine ⟨fun b hb => ?_, fun x hx => ?_, fun s hs => ?_⟩
  · rw [hn] at hb
    have hf := (SJ.Proofs.NumLink.numOfLit_float _ b hb).1
    obtain ⟨hfin, hsign⟩ := SJ.Props.C08.c08_finite_signed (litOf p) hlwf b hf
    have h5 := SJ.Props.C08.c08_within_5ulp (litOf p) hlwf (by omega) b hf
    refine ⟨hfin, hsign, h5, fun hD h1 h2 => ?_⟩
    have hfl : (litOf p).fracDigits.length < 2 ^ 30 := by
      have : (litOf p).fracDigits.length ≤ (litOf p).digits.length := by
        unfold Spec.Decimal.NumLit.digits; rw [List.length_append]; omega
      omega
    have hex := SJ.Props.C08.c08_exact_short (litOf p) hlwf hD h1 h2 hfl
    rw [hf] at hex
    exact hex.symm
  · rw [hn] at hx
    cases x with
    | pos n =>
      obtain ⟨a, b, c, d, _⟩ := SJ.Proofs.NumLinkParser.numOfLit_pos_exact p hwf n hx
      exact ⟨a, b, c, d⟩
    | neg k =>
      obtain ⟨a, b, c, d, _⟩ := SJ.Proofs.NumLinkParser.numOfLit_neg_exact p hwf k hx
      exact ⟨a, b, c, d⟩
    | float b => trivial
    | lit t => trivial
  · rw [hn] at hs
    exact absurd hs (SJ.Proofs.NumLink.numOfLit_ne_lit _ s)

/-! ## from the tree to the value: every number of `canon t` is `numOf` of a number node of `t` -/

mutual
/-- the number literals of a syntax tree, in source order -/
def numNodes : CST → List NumParts
  | .num p => [p]
  | .arr xs => numNodesList xs
  | .obj ms => numNodesMembers ms
  | _ => []
def numNodesList : List CST → List NumParts
  | [] => []
  | x :: xs => numNodes x ++ numNodesList xs
def numNodesMembers : List (List StrItem × CST) → List NumParts
  | [] => []
  | (_, x) :: ms => numNodes x ++ numNodesMembers ms
end

mutual
/-- the numbers of a value (array elements, object member values, at any depth) -/
def numLeaves : JV → List Num
  | .num x => [x]
  | .arr xs => numLeavesList xs
  | .obj ms => numLeavesMembers ms
  | _ => []
def numLeavesList : List JV → List Num
  | [] => []
  | x :: xs => numLeaves x ++ numLeavesList xs
def numLeavesMembers : List (Bytes × JV) → List Num
  | [] => []
  | (_, x) :: ms => numLeaves x ++ numLeavesMembers ms
end

mutual
theorem allNums_mem (P : NumParts → Prop) : (t : CST) → AllNums P t → ∀ p ∈ numNodes t, P p
  | .null => by intro _ p hp; simp [numNodes] at hp
  | .true_ => by intro _ p hp; simp [numNodes] at hp
  | .false_ => by intro _ p hp; simp [numNodes] at hp
  | .str _ => by intro _ p hp; simp [numNodes] at hp
  | .num q => by
    intro h p hp
    simp only [numNodes, List.mem_singleton] at hp
    simp only [AllNums] at h
    rw [hp]; exact h
  | .arr xs => by
    intro h p hp
    simp only [numNodes] at hp
    simp only [AllNums] at h
    exact allNumsList_mem P xs h p hp
  | .obj ms => by
    intro h p hp
    simp only [numNodes] at hp
    simp only [AllNums] at h
    exact allNumsMembers_mem P ms h p hp
theorem allNumsList_mem (P : NumParts → Prop) : (xs : List CST) → AllNumsList P xs → ∀ p ∈ numNodesList xs, P p
  | [] => by intro _ p hp; simp [numNodesList] at hp
  | x :: xs => by
    intro h p hp
    simp only [numNodesList, List.mem_append] at hp
    simp only [AllNumsList] at h
    rcases hp with hp | hp
    · exact allNums_mem P x h.1 p hp
    · exact allNumsList_mem P xs h.2 p hp
theorem allNumsMembers_mem (P : NumParts → Prop) :
    (ms : List (List StrItem × CST)) → AllNumsMembers P ms → ∀ p ∈ numNodesMembers ms, P p
  | [] => by intro _ p hp; simp [numNodesMembers] at hp
  | (_, x) :: ms => by
    intro h p hp
    simp only [numNodesMembers, List.mem_append] at hp
    simp only [AllNumsMembers] at h
    rcases hp with hp | hp
    · exact allNums_mem P x h.1 p hp
    · exact allNumsMembers_mem P ms h.2 p hp
end

theorem mem_numLeavesMembers (x : Num) : (l : List (Bytes × JV)) →
    (x ∈ numLeavesMembers l ↔ ∃ kv ∈ l, x ∈ numLeaves kv.2)
  | [] => by simp [numLeavesMembers]
  | (k, v) :: l => by
    simp only [numLeavesMembers, List.mem_append, List.mem_cons, mem_numLeavesMembers x l]
    constructor
    · rintro (h | ⟨kv, hkv, h⟩)
      · exact ⟨(k, v), .inl rfl, h⟩
      · exact ⟨kv, .inr hkv, h⟩
    · rintro ⟨kv, hkv | hkv, h⟩
      · rw [hkv] at h; exact .inl h
      · exact .inr ⟨kv, hkv, h⟩

/-- what `lookupLast` finds is a member -/
theorem lookupLast_mem (k : Bytes) (val : JV) (ms : List (Bytes × JV)) (h : Spec.Canon.lookupLast k ms = some val) :
    (k, val) ∈ ms := by
  unfold Spec.Canon.lookupLast at h
  have gen : ∀ (l : List (Bytes × JV)) (acc : Option JV),
      l.foldl (fun acc kv => if kv.1 = k then some kv.2 else acc) acc = some val →
      acc = some val ∨ (k, val) ∈ l := by
    intro l
    induction l with
    | nil => intro acc h; exact .inl h
    | cons kv l ih =>
      intro acc h
      rw [List.foldl_cons] at h
      rcases ih _ h with h' | h'
      · by_cases hk : kv.1 = k
        · rw [if_pos hk] at h'
          right
          have : kv = (k, val) := by
            obtain ⟨a, b⟩ := kv
            simp only [Option.some.injEq] at h'
            simp only at hk
            rw [hk, h']
          rw [this]; exact List.mem_cons_self
        · rw [if_neg hk] at h'; exact .inl h'
      · exact .inr (List.mem_cons_of_mem _ h')
  rcases gen ms none h with h' | h'
  · cases h'
  · exact h'

/-- the object `canon` builds holds member values only -/
theorem numLeaves_objectOf (cfg : Spec.Canon.Cfg) (kvs : List (Bytes × JV)) (x : Num)
    (h : x ∈ numLeaves (Spec.Canon.objectOf cfg kvs)) : x ∈ numLeavesMembers kvs := by
  unfold Spec.Canon.objectOf at h
  simp only [numLeaves] at h
  rw [mem_numLeavesMembers] at h ⊢
  obtain ⟨kv, hkv, hx⟩ := h
  rw [List.mem_filterMap] at hkv
  obtain ⟨k, _, hk⟩ := hkv
  rw [Option.map_eq_some_iff] at hk
  obtain ⟨val, hl, rfl⟩ := hk
  exact ⟨(k, val), lookupLast_mem k val kvs hl, hx⟩

mutual
/-- **every number of `canon t` is `numOf` of a number node of `t`** -/
theorem canon_leaves (cfg : Spec.Canon.Cfg) : (t : CST) → (v : JV) → Spec.Canon.canon cfg t = some v →
    ∀ x ∈ numLeaves v, ∃ p ∈ numNodes t, numOf cfg p = some x
  | .null, v => by intro h x hx; simp only [Spec.Canon.canon, Option.some.injEq] at h; subst h; simp [numLeaves] at hx
  | .true_, v => by intro h x hx; simp only [Spec.Canon.canon, Option.some.injEq] at h; subst h; simp [numLeaves] at hx
  | .false_, v => by intro h x hx; simp only [Spec.Canon.canon, Option.some.injEq] at h; subst h; simp [numLeaves] at hx
  | .str s, v => by
    intro h x hx
    simp only [Spec.Canon.canon, Option.map_eq_some_iff] at h
    obtain ⟨_, _, rfl⟩ := h
    simp [numLeaves] at hx
  | .num q, v => by
    intro h x hx
    simp only [Spec.Canon.canon, Option.map_eq_some_iff] at h
    obtain ⟨y, hy, rfl⟩ := h
    simp only [numLeaves, List.mem_singleton] at hx
    subst hx
    exact ⟨q, by simp [numNodes], hy⟩
  | .arr xs, v => by
    intro h x hx
    simp only [Spec.Canon.canon, Option.map_eq_some_iff] at h
    obtain ⟨vs, hvs, rfl⟩ := h
    simp only [numLeaves] at hx
    simp only [numNodes]
    exact canonList_leaves cfg xs vs hvs x hx
  | .obj ms, v => by
    intro h x hx
    simp only [Spec.Canon.canon, Option.map_eq_some_iff] at h
    obtain ⟨kvs, hkvs, rfl⟩ := h
    simp only [numNodes]
    exact canonMembers_leaves cfg ms kvs hkvs x (numLeaves_objectOf cfg kvs x hx)
theorem canonList_leaves (cfg : Spec.Canon.Cfg) : (xs : List CST) → (vs : List JV) →
    Spec.Canon.canonList cfg xs = some vs → ∀ x ∈ numLeavesList vs, ∃ p ∈ numNodesList xs, numOf cfg p = some x
  | [], vs => by
    intro h x hx
    simp only [Spec.Canon.canonList, Option.some.injEq] at h
    subst h; simp [numLeavesList] at hx
  | t :: ts, vs => by
    intro h x hx
    simp only [Spec.Canon.canonList] at h
    cases h1 : Spec.Canon.canon cfg t with
    | none => rw [h1] at h; cases h
    | some v1 =>
      cases h2 : Spec.Canon.canonList cfg ts with
      | none => rw [h1, h2] at h; cases h
      | some vs2 =>
        rw [h1, h2] at h
        simp only [Option.some.injEq] at h
        subst h
        simp only [numLeavesList, List.mem_append] at hx
        simp only [numNodesList, List.mem_append]
        rcases hx with hx | hx
        · obtain ⟨p, hp, hn⟩ := canon_leaves cfg t v1 h1 x hx
          exact ⟨p, .inl hp, hn⟩
        · obtain ⟨p, hp, hn⟩ := canonList_leaves cfg ts vs2 h2 x hx
          exact ⟨p, .inr hp, hn⟩
theorem canonMembers_leaves (cfg : Spec.Canon.Cfg) : (ms : List (List StrItem × CST)) → (kvs : List (Bytes × JV)) →
    Spec.Canon.canonMembers cfg ms = some kvs →
    ∀ x ∈ numLeavesMembers kvs, ∃ p ∈ numNodesMembers ms, numOf cfg p = some x
  | [], kvs => by
    intro h x hx
    simp only [Spec.Canon.canonMembers, Option.some.injEq] at h
    subst h; simp [numLeavesMembers] at hx
  | (k, t) :: ms, kvs => by
    intro h x hx
    simp only [Spec.Canon.canonMembers] at h
    cases h0 : Spec.Denote.decodeItems k with
    | none => rw [h0] at h; cases h
    | some kb =>
      cases h1 : Spec.Canon.canon cfg t with
      | none => rw [h0, h1] at h; cases h
      | some v1 =>
        cases h2 : Spec.Canon.canonMembers cfg ms with
        | none => rw [h0, h1, h2] at h; cases h
        | some r =>
          rw [h0, h1, h2] at h
          simp only [Option.some.injEq] at h
          subst h
          simp only [numLeavesMembers, List.mem_append] at hx
          simp only [numNodesMembers, List.mem_append]
          rcases hx with hx | hx
          · obtain ⟨p, hp, hn⟩ := canon_leaves cfg t v1 h1 x hx
            exact ⟨p, .inl hp, hn⟩
          · obtain ⟨p, hp, hn⟩ := canonMembers_leaves cfg ms r h2 x hx
            exact ⟨p, .inr hp, hn⟩
end

/-- a number `x` stored for the literal `p`, `float_roundtrip`: nearest-even float of the exact decimal value, or the exact integer -/
def NearestNum (p : NumParts) : Num → Prop
  | .float b => roundNE64 p.minus (litOf p).exact.1 (litOf p).exact.2 = some b ∧
      IsNearestEven64 p.minus (litOf p).exact.1 (litOf p).exact.2 b
  | .pos n => p.minus = false ∧ p.frac = [] ∧ p.exp = [] ∧ n = Model.Num.natOfDigits p.int
  | .neg k => p.minus = true ∧ p.frac = [] ∧ p.exp = [] ∧ k = -(Model.Num.natOfDigits p.int : Int)
  | .lit _ => False

/-- a number `x` stored for the literal `p`, default build: finite, signed, within 5 ulp, exact inside the window; or the exact integer -/
def Within5Num (p : NumParts) : Num → Prop
  | .float b => F64.isFinite b = true ∧ F64.sign b = p.minus ∧
      withinUlps 5 p.minus (litOf p).exact.1 (litOf p).exact.2 b = true ∧
      ((litOf p).sigVal < 10 ^ 15 → -22 ≤ (litOf p).netExp → (litOf p).netExp ≤ 22 →
        roundNE64 p.minus (litOf p).exact.1 (litOf p).exact.2 = some b)
  | .pos n => p.minus = false ∧ p.frac = [] ∧ p.exp = [] ∧ n = Model.Num.natOfDigits p.int
  | .neg k => p.minus = true ∧ p.frac = [] ∧ p.exp = [] ∧ k = -(Model.Num.natOfDigits p.int : Int)
  | .lit _ => False

theorem nearestNum_of_leaf (cfg : Spec.Canon.Cfg) (p : NumParts) (h : LeafNearest cfg p) (x : Num)
    (hx : numOf cfg p = some x) : NearestNum p x := by
  cases x with
  | float b => exact h.1 b hx
  | pos n => exact h.2.1 _ hx
  | neg k => exact h.2.1 _ hx
  | lit s => exact absurd hx (h.2.2 s)

theorem within5Num_of_leaf (cfg : Spec.Canon.Cfg) (p : NumParts) (h : Leaf5ulp cfg p) (x : Num)
    (hx : numOf cfg p = some x) : Within5Num p x := by
  cases x with
  | float b => exact h.1 b hx
  | pos n => exact h.2.1 _ hx
  | neg k => exact h.2.1 _ hx
  | lit s => exact absurd hx (h.2.2 s)

end SJ.Proofs.C02Floats
