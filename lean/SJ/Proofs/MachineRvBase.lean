import SJ.Proofs.MachineRvFuel
import SJ.Proofs.MachineApSim
/-!
# `MachineRv` is `MachineAp` as long as no first key equal to the raw token is followed by its `:`

`run_ap_eq`: if `triggered` (the raw token's) never fires along `MachineAp`'s run, `MachineRv.run (.ap a)` is that run —
whatever the nested parser. Without `raw_value`, and for skipped content, it never fires.
-/
namespace SJ.Proofs.MachineRv
open SJ SJ.Gen SJ.Model SJ.Model.Machine
open SJ.Model.MachineRv (REnv RPhase stepRaw parseFuel parseTop nestedResult ofAp Expect Msg)
open SJ.Model.MachineRv renaming step1 → rstep1, step → rstep, run → rrun, Outcome → ROut, Step → RStep, St → RSt,
  finish → rfinish, init → rinit, triggered → rtriggered, liftStep → rliftStep, Fail → RFail
open SJ.Proofs.MachineAp (ASt arun astep)

theorem rtriggered_some {renv : REnv} {s : St} {b : UInt8} {fs : List Frame} (h : rtriggered renv s b = some fs) :
    renv.rv = true ∧ renv.env.tgt = .value ∧ b = 0x3a ∧ s.mode = .afterKey ∧ s.stack = .obj [] MachineRv.token :: fs := by
  unfold rtriggered at h
  split at h
  · rename_i hc
    simp only [Bool.and_eq_true, decide_eq_true_eq, beq_iff_eq] at hc
    split at h
    · rename_i key fs' hm hst
      split at h
      · rename_i hk
        simp only [Option.some.injEq] at h
        subst h; subst hk
        exact ⟨hc.1.1, hc.1.2, hc.2, hm, hst⟩
      · cases h
    · cases h
  · cases h

theorem rtriggered_none_of_mode (renv : REnv) (s : St) (b : UInt8)
    (h : ∀ fs, ¬ (s.mode = .afterKey ∧ s.stack = .obj [] MachineRv.token :: fs)) : rtriggered renv s b = none := by
  cases ht : rtriggered renv s b with
  | none => rfl
  | some fs => exact absurd ⟨(rtriggered_some ht).2.2.2.1, (rtriggered_some ht).2.2.2.2⟩ (h fs)

theorem rtriggered_afterKey (renv : REnv) (hrv : renv.rv = true) (hv : renv.env.tgt = .value) (fs : List Frame) :
    rtriggered renv ⟨.afterKey, .obj [] MachineRv.token :: fs⟩ 0x3a = some fs := by
  unfold rtriggered; simp [hrv, hv]

/-- the two tokens differ: at most one of the two readings applies to an object -/
theorem tokens_ne : MachineRv.token ≠ MachineAp.token := by decide

/-- `MachineAp.step`'s result among `MachineRv.step`'s -/
def liftRes : Except MachineAp.Fail ASt → Except RFail RSt
  | .ok a => .ok (.ap a)
  | .error (.err c a) => .error (.err c a)
  | .error (.data a) => .error (.data .number a)
  | .error (.custom c l k) => .error (.custom (.code c) l k)

theorem stepTok_not_again (env : Env) (p : MachineAp.TPhase) (fs : List Frame) (b : UInt8) (a' : ASt) :
    MachineAp.stepTok env p fs b ≠ .again a' := by
  unfold MachineAp.stepTok
  cases p with
  | val => simp only; repeat' split
           all_goals simp
  | str st => simp only; repeat' split
              all_goals simp
  | other inner => simp only; repeat' split
                   all_goals simp
  | endMap txt => simp only; repeat' split
                  all_goals simp

/-- a re-dispatch of `MachineAp` lands in a state `complete …`: never at a `:` after a key -/
theorem ap_again_base (env : Env) (a a' : ASt) (b : UInt8) (h : MachineAp.step1 env a b = .again a') :
    ∃ fs v, a' = .base (complete fs v) := by
  cases a with
  | tok p fs => exact absurd h (stepTok_not_again env p fs b a')
  | base m =>
    simp only [MachineAp.step1] at h
    split at h
    · cases h
    · cases hm : step1 env m b with
      | next s' => rw [hm] at h; simp [MachineAp.liftStep] at h
      | err c x => rw [hm] at h; simp [MachineAp.liftStep] at h
      | again s' =>
        rw [hm] at h
        simp only [MachineAp.liftStep, MachineAp.Step.again.injEq] at h
        obtain ⟨v, rfl⟩ := SJ.Proofs.MachineAp.step1_again_shape env m b s' hm
        exact ⟨_, v, h.symm⟩

theorem rtriggered_complete (renv : REnv) (fs : List Frame) (v : JV) (b : UInt8) :
    rtriggered renv (complete fs v) b = none :=
  rtriggered_none_of_mode renv _ b fun _ hh => SJ.Proofs.MachineAp.complete_mode_ne_afterKey _ _ hh.1

/-- one dispatch of a state outside the raw phases, when the raw trigger does not fire -/
theorem rstep1_ap_eq (f : Bytes → ROut) (renv : REnv) (a : ASt) (b : UInt8)
    (h : ∀ m, a = .base m → rtriggered renv m b = none) :
    rstep1 f renv (.ap a) b = rliftStep (MachineAp.step1 renv.env a b) := by
  cases a with
  | tok p fs => rfl
  | base m => simp only [rstep1, h m rfl]

theorem rstep_ap_eq (f : Bytes → ROut) (renv : REnv) (a : ASt) (b : UInt8)
    (h : ∀ m, a = .base m → rtriggered renv m b = none) :
    rstep f renv (.ap a) b = liftRes (MachineAp.step renv.env a b) := by
  unfold rstep MachineAp.step
  rw [rstep1_ap_eq f renv a b h]
  cases hs : MachineAp.step1 renv.env a b with
  | next a' => rfl
  | err c x => rfl
  | data x => rfl
  | custom c l k => rfl
  | again a' =>
    obtain ⟨fs, v, rfl⟩ := ap_again_base renv.env a a' b hs
    simp only [rliftStep]
    rw [rstep1_ap_eq f renv _ b (fun m hm => by cases hm; exact rtriggered_complete renv fs v b)]
    cases MachineAp.step1 renv.env (.base (complete fs v)) b <;> rfl

/-- no step of `MachineAp`'s run from `a` over `bs` is the `:` after a first key equal to the raw token -/
def TrigFreeRv (renv : REnv) : ASt → Bytes → Prop
  | _, [] => True
  | a, b :: bs => (∀ m, a = .base m → rtriggered renv m b = none) ∧
      ∀ a', MachineAp.step renv.env a b = .ok a' → TrigFreeRv renv a' bs

theorem rfinish_ap (renv : REnv) (a : ASt) :
    rfinish renv (.ap a) = (match MachineAp.finish renv.env a with
      | .ok v => .ok v
      | .error (.err c) => .error (.err c)
      | .error .data => .error (.data .number)) := rfl

/-- **as long as the raw trigger does not fire, `MachineRv` is `MachineAp`** -/
theorem run_ap_eq (f : Bytes → ROut) (renv : REnv) : ∀ (bs : Bytes) (a : ASt) (i : Nat), TrigFreeRv renv a bs →
    rrun f renv (.ap a) i bs = ofAp (MachineAp.run renv.env a i bs)
  | [], a, i, _ => by
    unfold rrun MachineAp.run
    rw [rfinish_ap]
    cases MachineAp.finish renv.env a with
    | ok v => rfl
    | error e => cases e <;> rfl
  | b :: bs, a, i, h => by
    obtain ⟨ht, hn⟩ := h
    unfold rrun MachineAp.run
    rw [rstep_ap_eq f renv a b ht]
    cases hs : MachineAp.step renv.env a b with
    | ok a' => simp only [liftRes]; exact run_ap_eq f renv bs a' (i + 1) (hn a' hs)
    | error e => cases e <;> simp [liftRes, ofAp]

/-- without `raw_value`, or for skipped content, nothing ever triggers -/
theorem trigFreeRv_of_not_rv (renv : REnv) (h : ¬ (renv.rv = true ∧ renv.env.tgt = .value)) :
    ∀ (bs : Bytes) (a : ASt), TrigFreeRv renv a bs
  | [], _ => trivial
  | b :: bs, a => by
    refine ⟨fun m _ => ?_, fun a' _ => trigFreeRv_of_not_rv renv h bs a'⟩
    cases ht : rtriggered renv m b with
    | none => rfl
    | some fs => exact absurd ⟨(rtriggered_some ht).1, (rtriggered_some ht).2.1⟩ h

/-- **without the feature `MachineRv` IS `MachineAp`** (hence the machine, without `arbitrary_precision`) -/
theorem parseTop_of_not_rv (renv : REnv) (h : ¬ (renv.rv = true ∧ renv.env.tgt = .value)) (bs : Bytes) :
    parseTop renv bs = ofAp (MachineAp.parseTop renv.env bs) :=
  run_ap_eq _ renv bs MachineAp.init 0 (trigFreeRv_of_not_rv renv h bs _)

end SJ.Proofs.MachineRv
