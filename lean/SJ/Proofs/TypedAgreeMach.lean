import SJ.Proofs.TypedAgree
import SJ.Proofs.StreamValues
import SJ.Proofs.RoundTrip
import SJ.Proofs.SerImage
import SJ.Proofs.SerLayout
/-!
# The byte-step machine as a sub-parser of the typed deserializer, on printed text (C16 text leg)

* `runPfx_zero`: without padding frames and without a failing reader `runPfx` is `Stream.runPrefix`;
* `machine_complete`: one derivable value off the head of the input (C01 completeness over `runPfx`, through
  `StreamValues.runPrefix_complete`), for both targets (`Value`, `IgnoredAny`);
* `parseStr_quote`: `parse_str` on the escaped spelling the serializer writes returns the string (any source, given
  valid UTF-8 on byte sources);
* `ignoreValue_text`: `ignore_value` skips exactly the printed value.
-/
set_option linter.unusedSectionVars false
set_option linter.unusedVariables false

namespace SJ.Proofs.Typed
open SJ SJ.Gen SJ.Model SJ.Model.Typed
open SJ.Model.Machine (St Mode Frame Step step1 errIdx endNumber finishMode init)
open SJ.Model.Stream (skipWs runPrefix POut)
open SJ.Spec.Grammar (CST StrItem Derives StrWF strBytes)
open SJ.Spec.Image (strItems quote)
open SJ.Proofs.Complete (Feeds Side Res numCont)

/-! ## `runPfx` without padding is `runPrefix` -/

def ofP : POut → MOut
  | .ok v e => .ok v e
  | .err c i => .err c i

theorem completed_zero (s : St) : completed 0 s = (match s.mode with | .done v => some v | _ => none) := by
  unfold completed
  cases hm : s.mode <;> simp
  cases hs : s.stack <;> simp

theorem finishT_zero (menv : Machine.Env) (s : St) : finishT menv 0 s = Machine.finish menv s := by
  unfold finishT Machine.finish
  cases hm : s.mode <;> simp only []
  rename_i n
  cases hp : n.phase <;> simp only []
  all_goals
    cases he : endNumber menv s n with
    | error e => rfl
    | ok s' =>
      simp only [completed_zero]
      cases hm' : s'.mode <;> simp [finishMode, hm']

theorem runPfx_zero (menv : Machine.Env) (bs : Bytes) : ∀ (s : St) (i : Nat),
    runPfx menv false 0 s i bs = ofP (runPrefix menv s i bs) := by
  induction bs with
  | nil =>
    intro s i
    simp only [runPfx, runPrefix, Bool.false_eq_true, if_false, finishT_zero]
    cases Machine.finish menv s <;> rfl
  | cons b bs ih =>
    intro s i
    unfold runPfx runPrefix
    cases h1 : step1 menv s b with
    | err c a => rfl
    | next s' =>
      simp only [completed_zero]
      cases hm : s'.mode <;> simp only [ofP, ih]
    | again s' =>
      simp only [completed_zero]
      cases hm : s'.mode <;> simp only [ofP]
      all_goals
        cases h2 : step1 menv s' b with
        | err c a => rfl
        | again _ => rfl
        | next s'' =>
          cases hm2 : s''.mode <;> simp only [hm2, ofP, ih]

/-! ## one printed value off the head of the input -/

theorem machine_complete (menv : Machine.Env) (v : Bytes) (t : CST) (hd : Derives v t) (hside : Side menv 0 t)
    (r : Bytes) (p : Nat) (hfollow : (∃ q, t = .num q) → ∀ d r', r = d :: r' → numCont d = false) :
    ∃ val, Res menv t val ∧ machine menv false 0 init (v ++ r) p = .ok val r (p + v.length) := by
  obtain ⟨val, hres, hrun⟩ := SJ.Proofs.StreamValues.runPrefix_complete menv v t hd hside r p hfollow
  refine ⟨val, hres, ?_⟩
  unfold machine
  rw [runPfx_zero, hrun]
  simp [ofP]

/-! ## `parse_str` on the serializer's spelling -/

/-- the escaped spelling of `s` without its quotes -/
def strBody (s : Bytes) : Bytes := (strItems s).flatMap StrItem.bytes

theorem quote_eq (s : Bytes) : quote s = 0x22 :: (strBody s ++ [0x22]) := by
  simp [quote, strBytes, strBody]

theorem parseStr_quote (env : Env) (hflt : env.flt = false) (s : Bytes)
    (hu : env.src ≠ .str → Spec.Utf8.validUtf8 s = true) (rest : Bytes) (pos : Nat) :
    parseStr env (strBody s ++ 0x22 :: rest) pos = .ok s rest (pos + (strBody s).length + 1) := by
  have hwf := SJ.Proofs.SerEscape.strItems_wf s
  have hdec := SJ.Proofs.SerEscape.decode_strItems s
  have hside : SJ.Proofs.Complete.SideStr (valEnv env) (strItems s) := by
    intro _
    refine ⟨SJ.Proofs.RoundTrip.surrogatesPairedStr_strItems s, fun hs => ?_⟩
    rw [hdec]
    simpa using hu hs
  obtain ⟨o', e', hf, hval⟩ := SJ.Proofs.Complete.scan_str (valEnv env) [] false (strItems s) hwf hside [] false
  obtain ⟨dec, hd, ho, hutf⟩ := hval rfl
  rw [hdec] at hd
  cases hd
  simp only [List.append_nil] at ho
  subst ho
  have hclose := SJ.Proofs.Complete.step_quote_close (valEnv env) [] s.reverse e' (by
    intro _ hs; rw [List.reverse_reverse]; exact hu hs)
  have hall : Feeds (valEnv env) ⟨.str (SJ.Proofs.Complete.sst [] false false), []⟩ (strBody s ++ [0x22])
      (Machine.complete [] (if (valEnv env).tgt = .value then .str s.reverse.reverse else .null)) :=
    SJ.Proofs.Complete.Feeds.append hf (SJ.Proofs.Complete.Feeds.one hclose)
  have hrun := (SJ.Proofs.StreamValues.runPrefix_feeds (valEnv env) (strBody s ++ [0x22]) _ _ pos rest hall
    (by intro v h; cases h) (Or.inr (by intro c hc; simp at hc; subst hc; decide))).1 (.str s) (by
      simp [Machine.complete, valEnv])
  unfold parseStr machine
  rw [hflt, runPfx_zero]
  have e1 : strBody s ++ 0x22 :: rest = (strBody s ++ [0x22]) ++ rest := by simp
  rw [e1]
  have e2 : ({ mode := .str {} } : St) = ⟨.str (SJ.Proofs.Complete.sst [] false false), []⟩ := rfl
  rw [e2, hrun]
  simp [ofP, Res.bind]
  omega

/-! ## `ignore_value` on a printed value -/

theorem ignoreValue_text (env : Env) (hflt : env.flt = false) (v : Bytes) (t : CST) (hd : Derives v t)
    (r : Bytes) (p : Nat) (hfollow : (∃ q, t = .num q) → ∀ d r', r = d :: r' → numCont d = false) :
    ignoreValue env (v ++ r) p = .ok () r (p + v.length) := by
  obtain ⟨val, _, hm⟩ := machine_complete (ignEnv env) v t hd (by intro h; cases h) r p hfollow
  unfold ignoreValue
  rw [hflt, hm]
  rfl

end SJ.Proofs.Typed

/-! ## `parse_str_raw` (bytes targets) on the serializer's spelling -/

namespace SJ.Proofs.Typed
open SJ SJ.Gen SJ.Model SJ.Model.Typed
open SJ.Spec.Grammar (StrItem isUnescaped isSimpleEscape isHex uniVal isHighSurrogate isLowSurrogate)
open SJ.Spec.Image (strItems escItem)
open SJ.Spec.Denote (simpleEscape utf8)

theorem runRaw_item (env : Env) (b : UInt8) (o tl : Bytes) (pos : Nat) :
    runRaw env { out := o, esc := .none } ((escItem b).bytes ++ tl) pos =
      runRaw env { out := b :: o, esc := .none } tl (pos + (escItem b).bytes.length) := by
  have hspec := SJ.Proofs.SerEscape.item_spec b
  cases hi : escItem b with
  | raw c =>
    rw [hi] at hspec
    obtain ⟨hwf, hok⟩ := hspec
    simp only [SJ.Proofs.SerEscape.itemOK, beq_iff_eq] at hok
    subst hok
    simp only [StrItem.WF, isUnescaped, Bool.and_eq_true, bne_iff_ne, ne_eq] at hwf
    obtain ⟨⟨_, h2⟩, h3⟩ := hwf
    simp [StrItem.bytes, runRaw, stepRaw, h2, h3]
  | esc c =>
    rw [hi] at hspec
    obtain ⟨hwf, hok⟩ := hspec
    simp only [SJ.Proofs.SerEscape.itemOK, beq_iff_eq] at hok
    simp only [StrItem.WF] at hwf
    have hu := SJ.Proofs.Complete.simpleEscape_ne_u c hwf
    simp [StrItem.bytes, runRaw, stepRaw, hu, hwf, hok]
  | uni h1 h2 h3 h4 =>
    rw [hi] at hspec
    obtain ⟨hwf, hok⟩ := hspec
    simp only [SJ.Proofs.SerEscape.itemOK, Bool.and_eq_true, Bool.not_eq_true', beq_iff_eq] at hok
    obtain ⟨⟨hh, hl⟩, hu⟩ := hok
    obtain ⟨ha, hb, hc, hd⟩ := SJ.Proofs.Complete.uni_wf hwf
    have hx := SJ.Proofs.Complete.hex4_eq h1 h2 h3 h4 ha hb hc hd
    have hlt : uniVal h1 h2 h3 h4 < 0xD800 ∨ uniVal h1 h2 h3 h4 > 0xDBFF := by
      simp only [isHighSurrogate, Bool.and_eq_false_iff, decide_eq_false_iff_not] at hh
      omega
    simp [StrItem.bytes, runRaw, stepRaw, hx, pushWtf8, hu, hlt]

theorem runRaw_items (env : Env) (s : Bytes) : ∀ (o tl : Bytes) (pos : Nat),
    runRaw env { out := o, esc := .none } (strBody s ++ tl) pos =
      runRaw env { out := s.reverse ++ o, esc := .none } tl (pos + (strBody s).length) := by
  induction s with
  | nil => intro o tl pos; simp [strBody, strItems]
  | cons b s ih =>
    intro o tl pos
    have e : strBody (b :: s) = (escItem b).bytes ++ strBody s := by simp [strBody, strItems]
    rw [e, List.append_assoc, runRaw_item, ih]
    simp only [List.reverse_cons, List.append_assoc, List.singleton_append, List.length_append]
    congr 1
    omega

theorem parseStrRaw_quote (env : Env) (s rest : Bytes) (pos : Nat) :
    parseStrRaw env (strBody s ++ 0x22 :: rest) pos = .ok s rest (pos + (strBody s).length + 1) := by
  unfold parseStrRaw
  rw [runRaw_items]
  simp [runRaw, stepRaw]

end SJ.Proofs.Typed

/-! ## the printed text of a value is one RFC 8259 value; `ignore_value` skips it -/

namespace SJ.Proofs.Typed
open SJ SJ.Gen SJ.Model SJ.Model.Typed
open SJ.Spec.Image (render imageOfValue cstOf valueLitsOK valuesLitsOK membersLitsOK)
open SJ.Proofs.Complete (numCont)

mutual
theorem valueLitsOK_of_shapeW : ∀ v : JV, shapeW v = true → valueLitsOK v = true
  | .null, _ | .bool _, _ | .str _, _ => rfl
  | .num (.pos _), _ | .num (.neg _), _ | .num (.float _), _ => rfl
  | .num (.lit s), h => by simp [shapeW, wfNumW] at h
  | .arr xs, h => by
    simp only [shapeW, valueLitsOK] at h ⊢
    exact valuesLitsOK_of_shapeWs xs h
  | .obj kvs, h => by
    simp only [shapeW, valueLitsOK] at h ⊢
    exact membersLitsOK_of_shapeWm kvs h
theorem valuesLitsOK_of_shapeWs : ∀ xs : List JV, shapeWs xs = true → valuesLitsOK xs = true
  | [], _ => rfl
  | x :: xs, h => by
    simp only [shapeWs, valuesLitsOK, Bool.and_eq_true] at h ⊢
    exact ⟨valueLitsOK_of_shapeW x h.1, valuesLitsOK_of_shapeWs xs h.2⟩
theorem membersLitsOK_of_shapeWm : ∀ kvs : List (Bytes × JV), shapeWm kvs = true → membersLitsOK kvs = true
  | [], _ => rfl
  | (k, x) :: kvs, h => by
    simp only [shapeWm, membersLitsOK, Bool.and_eq_true] at h ⊢
    exact ⟨valueLitsOK_of_shapeW x h.1.2, membersLitsOK_of_shapeWm kvs h.2⟩
end

theorem T_derives (ext : Spec.Program.Ext) (hext : Spec.Program.ExtOK ext) (v : JV) (hv : shapeW v = true) :
    Spec.Grammar.Derives (T ext v) (cstOf (imageOfValue ext v)) := by
  have hl := valueLitsOK_of_shapeW v hv
  have hw := SJ.Proofs.SerImage.image_wf ext hext _ _ (SJ.Proofs.SerValue.ofValue_wf v hl) (SJ.Proofs.SerValue.image_ofValue ext v)
  exact SJ.Proofs.SerLayout.derives_layout (fun _ => []) [] (fun _ => rfl) rfl _ 0 hw

/-- `ignore_value` on a printed value followed by a separator -/
theorem ignoreValue_T (ext : Spec.Program.Ext) (hext : Spec.Program.ExtOK ext) (env : Env) (hflt : env.flt = false) (v : JV)
    (hv : shapeW v = true) (rest : Bytes) (pos : Nat) (hs : SepOK rest) :
    ignoreValue env (T ext v ++ rest) pos = .ok () rest (pos + (T ext v).length) := by
  refine ignoreValue_text env hflt _ _ (T_derives ext hext v hv) rest pos ?_
  intro _ d r' hr
  rcases hs with rfl | ⟨c, tl, rfl, hc⟩
  · cases hr
  · cases hr
    rcases hc with rfl | rfl | rfl | rfl | hw
    · decide
    · decide
    · decide
    · decide
    · rcases isWs_cases hw with rfl | rfl | rfl | rfl <;> decide

/-! ### the same for the values of either build (`VOKg`: number literals admitted) -/

mutual
theorem valueLitsOK_of_shapeA : ∀ v : JV, shapeA v = true → valueLitsOK v = true
  | .null, _ | .bool _, _ | .str _, _ => rfl
  | .num (.pos _), _ | .num (.neg _), _ | .num (.float _), _ => rfl
  | .num (.lit s), h => by simpa [shapeA, valueLitsOK] using h
  | .arr xs, h => by
    simp only [shapeA, valueLitsOK] at h ⊢
    exact valuesLitsOK_of_shapeAs xs h
  | .obj kvs, h => by
    simp only [shapeA, valueLitsOK] at h ⊢
    exact membersLitsOK_of_shapeAm kvs h
theorem valuesLitsOK_of_shapeAs : ∀ xs : List JV, shapeAs xs = true → valuesLitsOK xs = true
  | [], _ => rfl
  | x :: xs, h => by
    simp only [shapeAs, valuesLitsOK, Bool.and_eq_true] at h ⊢
    exact ⟨valueLitsOK_of_shapeA x h.1, valuesLitsOK_of_shapeAs xs h.2⟩
theorem membersLitsOK_of_shapeAm : ∀ kvs : List (Bytes × JV), shapeAm kvs = true → membersLitsOK kvs = true
  | [], _ => rfl
  | (k, x) :: kvs, h => by
    simp only [shapeAm, membersLitsOK, Bool.and_eq_true] at h ⊢
    exact ⟨valueLitsOK_of_shapeA x h.1.2, membersLitsOK_of_shapeAm kvs h.2⟩
end

theorem valueLitsOK_of_vokg {v : JV} (hv : VOKg v) : valueLitsOK v = true :=
  hv.elim (valueLitsOK_of_shapeW v) (valueLitsOK_of_shapeA v)

theorem T_derives_g (ext : Spec.Program.Ext) (hext : Spec.Program.ExtOK ext) (v : JV) (hl : valueLitsOK v = true) :
    Spec.Grammar.Derives (T ext v) (cstOf (imageOfValue ext v)) := by
  have hw := SJ.Proofs.SerImage.image_wf ext hext _ _ (SJ.Proofs.SerValue.ofValue_wf v hl) (SJ.Proofs.SerValue.image_ofValue ext v)
  exact SJ.Proofs.SerLayout.derives_layout (fun _ => []) [] (fun _ => rfl) rfl _ 0 hw

/-- `ignore_value` on a printed value of either build, followed by a separator -/
theorem ignoreValue_T_g (ext : Spec.Program.Ext) (hext : Spec.Program.ExtOK ext) (env : Env) (hflt : env.flt = false) (v : JV)
    (hv : VOKg v) (rest : Bytes) (pos : Nat) (hs : SepOK rest) :
    ignoreValue env (T ext v ++ rest) pos = .ok () rest (pos + (T ext v).length) := by
  refine ignoreValue_text env hflt _ _ (T_derives_g ext hext v (valueLitsOK_of_vokg hv)) rest pos ?_
  intro _ d r' hr
  rcases hs with rfl | ⟨c, tl, rfl, hc⟩
  · cases hr
  · cases hr
    rcases hc with rfl | rfl | rfl | rfl | hw
    · decide
    · decide
    · decide
    · decide
    · rcases isWs_cases hw with rfl | rfl | rfl | rfl <;> decide

end SJ.Proofs.Typed
