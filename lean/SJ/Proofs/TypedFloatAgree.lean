import SJ.Proofs.TypedFloatScan
/-!
# The text leg of C16 on floats: the typed number entry points on the text `ryu` prints

Under the float hypothesis of C04 / C16 (`Spec.WF.floatRT`: the configured conversion reads `ryu`'s text back as the float —
proved from `RyuShortest` under `float_roundtrip`, a named hypothesis in the default build) and without `arbitrary_precision`:

* `deNumber_floatText`: `deserialize_number` on `to_string(Float b)` hands `ParserNumber::F64(b)` to the visitor and stops
  right after the literal;
* `int_float_refused`: the 8–64-bit integer targets refuse it (`visit_f64` is not implemented by integer visitors), as
  `from_value` does;
* `agree_f64`: the `f64` target on every printed value — floats, integers (`as f64`), anything else (`invalid type`).
-/
set_option linter.unusedSectionVars false
set_option linter.unusedVariables false

namespace SJ.Proofs.TypedFloat
open SJ SJ.Gen SJ.Model SJ.Model.Typed SJ.Model.Num SJ.Proofs.NumInt
open SJ.Proofs.Typed
open SJ.Spec.Grammar (NumParts)
open SJ.Spec.Number (natDigits splitNumber)
open SJ.Proofs.CanonM (specCfg)

theorem term_of_sep {rest : Bytes} (h : SepOK rest) : Term rest := by
  rcases h with rfl | ⟨c, tl, rfl, hc⟩
  · exact .inl rfl
  · rcases hc with rfl | rfl | rfl | rfl | hw
    · exact .inr ⟨_, _, rfl, by decide, by decide, by decide⟩
    · exact .inr ⟨_, _, rfl, by decide, by decide, by decide⟩
    · exact .inr ⟨_, _, rfl, by decide, by decide, by decide⟩
    · exact .inr ⟨_, _, rfl, by decide, by decide, by decide⟩
    · rcases isWs_cases hw with rfl | rfl | rfl | rfl <;> exact .inr ⟨_, _, rfl, by decide, by decide, by decide⟩

/-- the conversion of the typed entry points on the scanned literal is the number of the denotation (`Spec.Canon.numOf`) -/
theorem parserNumber_lit (env : Env) (hap : env.cfg.ap = false) (p : NumParts) :
    parserNumber env (litParts p) = Spec.Canon.numOf (specCfg env.cfg) p := by
  unfold parserNumber Spec.Canon.numOf Spec.Canon.convert specCfg
  simp only [hap, Bool.false_eq_true, if_false]
  cases hfr : env.cfg.fr
  · simp only [Bool.false_eq_true, if_false]
    rw [litParts_convD]
    cases convertDefault (Spec.Canon.partsOf p) <;> rfl
  · simp only [if_true]
    rw [litParts_convR]
    cases convertRoundtrip (Spec.Canon.partsOf p) <;> rfl

/-- a literal that has a value is not rejected by the eager exponent guard -/
theorem noEagerLit_of_numOf (c : Spec.Canon.Cfg) (hap : c.ap = false) (p : NumParts) (hwf : p.WF = true) (x : Num)
    (hx : Spec.Canon.numOf c p = some x) : NoEagerLit p := by
  intro en eds hexp hov
  cases en with
  | true => exact .inr rfl
  | false =>
    left
    cases hz : ((Spec.Canon.partsOf p).int ++ (Spec.Canon.partsOf p).frac.getD []).all (· == 0x30) with
    | true => exact hz
    | false =>
      have := SJ.Proofs.Complete.no_eager_overflow c p hwf hap x hx eds hexp hz
      rw [this] at hov; cases hov

section
variable {env : Env} (hflt : env.flt = false) (hapE : env.cfg.ap = false)
include hflt hapE

/-- `deserialize_number` on a number literal that has the value `x`, followed by a separator (not the `single_precision`
    path) -/
theorem deNumber_lit (ty : NumTy) (hty : (env.cfg.fr && ty == .f32) = false) (p : NumParts) (hwf : p.WF = true) (x : Num)
    (hx : Spec.Canon.numOf (specCfg env.cfg) p = some x) (rest : Bytes) (pos : Nat) (hs : SepOK rest) :
    deNumber env ty (p.bytes ++ rest) pos = fixPos env true (ofVisit (visitNumber ty x) rest (pos + p.bytes.length)) := by
  have hne := noEagerLit_of_numOf (specCfg env.cfg) hapE p hwf x hx
  obtain ⟨b, tl, hbt, hns, hscan⟩ := scanNumber_lit hflt p hwf hne rest pos (term_of_sep hs)
  rw [hbt]
  unfold deNumber
  rw [withPeek_cons env _ ((numStart_facts hns).1)]
  simp only [hns, if_true, hscan, Res.bind, hty, Bool.false_eq_true, if_false]
  rw [parserNumber_lit env hapE p, hx]

variable (ext : Spec.Program.Ext) (hext : Spec.Program.ExtOK ext)
include hext

/-- **`deserialize_number` on the text of a float** -/
theorem deNumber_floatText (ty : NumTy) (hty : (env.cfg.fr && ty == .f32) = false) (b : UInt64)
    (hb : Spec.Program.finite64 b = true) (hrt : Spec.WF.floatRT (specCfg env.cfg) ext b = true)
    (rest : Bytes) (pos : Nat) (hs : SepOK rest) :
    deNumber env ty (ext.ryu64 b ++ rest) pos =
      fixPos env true (ofVisit (visitNumber ty (.float b)) rest (pos + (ext.ryu64 b).length)) := by
  obtain ⟨hwf, hbytes⟩ := SJ.Proofs.Number.splitNumber_of_isNumber _ (hext.ryu64_number b hb)
  have hx : Spec.Canon.numOf (specCfg env.cfg) (splitNumber (ext.ryu64 b)) = some (.float b) := by
    unfold Spec.WF.floatRT at hrt
    cases hn : Spec.Canon.numOf (specCfg env.cfg) (splitNumber (ext.ryu64 b)) with
    | none => rw [hn] at hrt; cases hrt
    | some y =>
      rw [hn] at hrt
      cases y with
      | float b' => simp only [beq_iff_eq] at hrt; rw [hrt]
      | pos _ => cases hrt
      | neg _ => cases hrt
      | lit _ => cases hrt
  have := deNumber_lit hflt hapE ty hty _ hwf _ hx rest pos hs
  rw [hbytes] at this
  exact this

/-- an 8–64-bit integer target refuses the text of a float -/
theorem int_float_refused (w : IntTy) (h128 : ¬ is128 w = true) (b : UInt64)
    (hb : Spec.Program.finite64 b = true) (hrt : Spec.WF.floatRT (specCfg env.cfg) ext b = true)
    (rest : Bytes) (pos : Nat) (hs : SepOK rest) :
    ∀ x r p, deInt env w (T ext (.num (.float b)) ++ rest) pos ≠ .ok x r p := by
  intro x r p
  rw [T_float ext b hb]
  unfold deInt
  rw [if_neg h128]
  have hty : (env.cfg.fr && NumTy.int w == NumTy.f32) = false := by
    have : (NumTy.int w == NumTy.f32) = false := by show decide (NumTy.int w = NumTy.f32) = false; simp
    rw [this]; simp
  rw [deNumber_floatText hflt hapE ext hext (.int w) hty b hb hrt rest pos hs]
  simp [visitNumber, FromValue.numberInt, FromValue.fail, ofVisit, fixPos]

end

section
variable {env : Env} (hflt : env.flt = false) (hapE : env.cfg.ap = false) (ext : Spec.Program.Ext) (hext : Spec.Program.ExtOK ext)
include hflt hapE hext

/-- **`deserialize_f32` on the text of an `f32`, default build**: the literal is converted as an `f64` (`y`) and cast by
    serde's visitor (`y as f32`) -/
theorem deNumber_f32_default (hfr : env.cfg.fr = false) (b : UInt32) (hb : Spec.Program.finite32 b = true) (y : UInt64)
    (hy : Spec.Canon.numOf (specCfg env.cfg) (splitNumber (ext.ryu32 b)) = some (.float y))
    (rest : Bytes) (pos : Nat) (hs : SepOK rest) :
    deNumber env .f32 (ext.ryu32 b ++ rest) pos = .ok (.f32 (FromValue.f64ToF32 y)) rest (pos + (ext.ryu32 b).length) := by
  obtain ⟨hwf, hbytes⟩ := SJ.Proofs.Number.splitNumber_of_isNumber _ (hext.ryu32_number b hb)
  have := deNumber_lit hflt hapE .f32 (by rw [hfr]; rfl) _ hwf _ hy rest pos hs
  rw [hbytes] at this
  rw [this]
  simp [visitNumber, FromValue.numberF32, ofVisit, fixPos]

end

/-- an integer a `Number` can hold (`PosInt(u64)`, `NegInt(i64)`): what an `f64` target needs of an integer value (a typed
    128-bit integer beyond that range is read as a float by `parse_integer`, not necessarily the one `as f64` gives) -/
def IntRangeOK (v : JV) : Prop :=
  (∀ n, v = .num (.pos n) → n < 2 ^ 64) ∧ (∀ i, v = .num (.neg i) → -(2 ^ 63 : Int) ≤ i)

section
variable {env : Env} (hflt : env.flt = false) (hapE : env.cfg.ap = false) (cfg' : FromValue.Cfg) (hap : cfg'.ap = false)
  (ext' : FromValue.Ext) (ext : Spec.Program.Ext) (hext : Spec.Program.ExtOK ext)
include hflt hapE hap hext

/-- **the `f64` target** on every printed value -/
theorem agree_f64 (v : JV) (hv : VOK v) (hF : Spec.WF.floatsRT (specCfg env.cfg) ext v = true) (hr : IntRangeOK v) :
    Agree1 (deNumber env .f64) (FromValue.fromValue cfg' ext' .f64 v) (T ext v) := by
  intro rest pos hs
  obtain ⟨c, tl, hT, hc⟩ := T_head ext hext v hv
  have hw := (headOf_facts hc).1
  have ht := headOf_tests hc
  have hty : (env.cfg.fr && NumTy.f64 == NumTy.f32) = false := by
    have : (NumTy.f64 == NumTy.f32) = false := rfl
    rw [this]; simp
  cases v with
  | num n =>
    cases n with
    | float b =>
      have hb : Spec.Program.finite64 b = true := by simpa [VOK, shapeW, wfNumW] using hv
      have hrt : Spec.WF.floatRT (specCfg env.cfg) ext b = true := by simpa [Spec.WF.floatsRT] using hF
      simp only [FromValue.fromValue, FromValue.numberF64, hap, Bool.false_eq_true, if_false]
      rw [T_float ext b hb, deNumber_floatText hflt hapE ext hext .f64 hty b hb hrt rest pos hs]
      simp [visitNumber, FromValue.numberF64, ofVisit, fixPos]
    | pos n =>
      have hn : n < 2 ^ 64 := hr.1 n rfl
      simp only [FromValue.fromValue, FromValue.numberF64, hap, Bool.false_eq_true, if_false]
      rw [T_pos ext hext] at hT ⊢
      rw [hT]
      simp only [List.cons_append]
      unfold deNumber
      rw [withPeek_cons env _ hw]
      simp only [ht.2.2.2.1, if_true]
      unfold scanNumber
      simp only [ht.2.2.2.2.1, Bool.false_eq_true, if_false]
      rw [show c :: (tl ++ rest) = natDigits n ++ rest by rw [hT]; rfl]
      rw [scanInteger_natDigits hflt false n rest pos hs]
      simp only [Res.bind, hty, Bool.false_eq_true, if_false, parserNumber_pos env n hn, visitNumber, FromValue.numberF64,
        ofVisit, fixPos]
      rw [hT]
    | neg i =>
      have hi : i < 0 := by simpa [VOK, shapeW, wfNumW] using hv
      have hlo : -(2 ^ 63 : Int) ≤ i := hr.2 i rfl
      simp only [FromValue.fromValue, FromValue.numberF64, hap, Bool.false_eq_true, if_false]
      rw [T_neg ext hext i hi]
      simp only [List.cons_append]
      unfold deNumber
      rw [withPeek_cons env _ (by decide)]
      simp only [show isNumStart 0x2d = true by decide, if_true]
      unfold scanNumber
      simp only [beq_self_eq_true, if_true]
      rw [scanInteger_natDigits hflt true i.natAbs rest (pos + 1) hs]
      have hmi : (-(i.natAbs : Int)) = i := by omega
      have hpn := parserNumber_neg env i.natAbs (by omega) (by omega)
      rw [hmi] at hpn
      simp only [Res.bind, hty, Bool.false_eq_true, if_false, hpn, visitNumber, FromValue.numberF64, ofVisit, fixPos,
        List.length_cons]
      congr 1
      omega
    | lit s => have := hv; simp [VOK, shapeW, wfNumW] at this
  | null | bool _ | str _ | arr _ | obj _ =>
    simp only [FromValue.fromValue, FromValue.fail]
    intro x r p
    rw [hT]
    simp only [List.cons_append]
    unfold deNumber
    rw [withPeek_cons env _ hw]
    simp only [ht.2.2.2.1, Bool.false_eq_true, if_false]
    exact peekInvalidType_not_ok _ _ _ _ _ _

end

end SJ.Proofs.TypedFloat
