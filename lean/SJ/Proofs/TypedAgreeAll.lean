import SJ.Proofs.TypedAgreeEnum
/-!
# The text leg of C16, assembled: every schema of the fragment `agreeFrag2`, every float-free non-`arbitrary_precision`
# value outside the statement's exclusions

Fragment: bool, the twelve integer targets, char, string, bytes, unit / unit struct, `Option`, newtype structs, `Vec`,
tuples, maps (key kinds `keyFrag`), structs (both `deny_unknown_fields` settings), enums (unit / newtype / non-empty
tuple / struct variants), `IgnoredAny`.
-/
set_option linter.unusedSectionVars false
set_option linter.unusedVariables false

namespace SJ.Proofs.Typed
open SJ SJ.Gen SJ.Model SJ.Model.Typed

/-- key kinds covered -/
def keyFrag : KeyKind → Bool
  | .int _ => false
  | _ => true

mutual
/-- the schema fragment of `c16_text_agrees_partial` (the statement's exclusion "no zero-length tuple variant" is part
    of it: `agreeFrag2Shape`) -/
def agreeFrag2 : Schema → Bool
  | .bool | .int _ | .unit | .unitStruct | .char | .string | .bytes | .ignored => true
  | .option s | .newtype s | .seq s => agreeFrag2 s
  | .map k s => keyFrag k && agreeFrag2 s
  | .tuple ss => agreeFrag2List ss
  | .struct_ fs _ => agreeFrag2Fields fs
  | .enum_ vs => agreeFrag2Variants vs
  | .f64 | .f32 | .any => false
def agreeFrag2List : List Schema → Bool
  | [] => true
  | s :: r => agreeFrag2 s && agreeFrag2List r
def agreeFrag2Fields : List (Bytes × Schema) → Bool
  | [] => true
  | (_, s) :: r => agreeFrag2 s && agreeFrag2Fields r
def agreeFrag2Variants : List (Bytes × VariantShape) → Bool
  | [] => true
  | (_, sh) :: r => agreeFrag2Shape sh && agreeFrag2Variants r
def agreeFrag2Shape : VariantShape → Bool
  | .unit => true
  | .newtype s => agreeFrag2 s
  | .tuple ss => !ss.isEmpty && agreeFrag2List ss
  | .struct_ fs => agreeFrag2Fields fs
end

theorem agreeFrag2_mem : ∀ (ss : List Schema) (s : Schema), s ∈ ss → agreeFrag2List ss = true → agreeFrag2 s = true
  | [], _, h, _ => by simp at h
  | x :: r, s, h, hf => by
    simp only [agreeFrag2List, Bool.and_eq_true] at hf
    rcases List.mem_cons.mp h with rfl | h
    · exact hf.1
    · exact agreeFrag2_mem r s h hf.2

theorem agreeFrag2_mem_fields : ∀ (fs : List (Bytes × Schema)) (s : Schema), s ∈ fs.map (·.2) → agreeFrag2Fields fs = true →
    agreeFrag2 s = true
  | [], _, h, _ => by simp at h
  | (n, x) :: r, s, h, hf => by
    simp only [agreeFrag2Fields, Bool.and_eq_true] at hf
    simp only [List.map_cons, List.mem_cons] at h
    rcases h with rfl | h
    · exact hf.1
    · exact agreeFrag2_mem_fields r s h hf.2

theorem agreeFrag2_mem_variants : ∀ (vs : List (Bytes × VariantShape)) (nm : Bytes) (sh : VariantShape), (nm, sh) ∈ vs →
    agreeFrag2Variants vs = true → agreeFrag2Shape sh = true
  | [], _, _, h, _ => by simp at h
  | (n, x) :: r, nm, sh, h, hf => by
    simp only [agreeFrag2Variants, Bool.and_eq_true] at hf
    rcases List.mem_cons.mp h with h | h
    · cases h; exact hf.1
    · exact agreeFrag2_mem_variants r nm sh h hf.2

/-! ## struct-variant names and array payloads -/

theorem svn_mem_list : ∀ (ss : List Schema) (s : Schema), s ∈ ss → ∀ n ∈ s.structVariantNames, n ∈ Schema.svnList ss
  | [], _, h, _, _ => by simp at h
  | x :: r, s, h, n, hn => by
    simp only [Schema.svnList, List.mem_append]
    rcases List.mem_cons.mp h with rfl | h
    · exact .inl hn
    · exact .inr (svn_mem_list r s h n hn)

theorem svn_mem_fields : ∀ (fs : List (Bytes × Schema)) (s : Schema), s ∈ fs.map (·.2) → ∀ n ∈ s.structVariantNames, n ∈ Schema.svnFields fs
  | [], _, h, _, _ => by simp at h
  | (nm, x) :: r, s, h, n, hn => by
    simp only [Schema.svnFields, List.mem_append]
    simp only [List.map_cons, List.mem_cons] at h
    rcases h with rfl | h
    · exact .inl hn
    · exact .inr (svn_mem_fields r s h n hn)

theorem svn_mem_variants : ∀ (vs : List (Bytes × VariantShape)) (nm : Bytes) (sh : VariantShape), (nm, sh) ∈ vs →
    ∀ n ∈ VariantShape.svn nm sh, n ∈ Schema.svnVariants vs
  | [], _, _, h, _, _ => by simp at h
  | (nm', x) :: r, nm, sh, h, n, hn => by
    simp only [Schema.svnVariants, List.mem_append]
    rcases List.mem_cons.mp h with h | h
    · cases h; exact .inl hn
    · exact .inr (svn_mem_variants r nm sh h n hn)

theorem hap_elem (names : List Bytes) : ∀ (xs : List JV) (x : JV), x ∈ xs → JV.hasArrayPayloadList names xs = false →
    JV.hasArrayPayload names x = false
  | [], _, h, _ => by simp at h
  | y :: r, x, h, hf => by
    simp only [JV.hasArrayPayloadList, Bool.or_eq_false_iff] at hf
    rcases List.mem_cons.mp h with rfl | h
    · exact hf.1
    · exact hap_elem names r x h hf.2

theorem hap_member (names : List Bytes) : ∀ (kvs : List (Bytes × JV)) (kv : Bytes × JV), kv ∈ kvs →
    JV.hasArrayPayloadMembers names kvs = false → JV.hasArrayPayload names kv.2 = false
  | [], _, h, _ => by simp at h
  | (k, y) :: r, kv, h, hf => by
    simp only [JV.hasArrayPayloadMembers, Bool.or_eq_false_iff] at hf
    rcases List.mem_cons.mp h with rfl | h
    · exact hf.1
    · exact hap_member names r kv h hf.2

theorem hap_obj (names : List Bytes) (kvs : List (Bytes × JV)) (h : JV.hasArrayPayload names (.obj kvs) = false) :
    JV.hasArrayPayloadMembers names kvs = false := by
  simp only [JV.hasArrayPayload, Bool.or_eq_false_iff] at h
  exact h.2

/-! ## the two payload interpretations coincide outside the exclusions -/

theorem shapeDe_eq_payloadFV (cfg : FromValue.Cfg) (e : FromValue.Ext) (names : List Bytes) (k : Bytes) (sh : VariantShape) (x : JV)
    (hfr : agreeFrag2Shape sh = true) (hsub : ∀ n ∈ VariantShape.svn k sh, n ∈ names)
    (hap : JV.hasArrayPayload names (.obj [(k, x)]) = false) :
    FromValue.shapeDe cfg e sh (some x) = payloadFV cfg e sh x := by
  cases sh with
  | unit => cases x <;> simp [FromValue.shapeDe, payloadFV, FromValue.fromValue]
  | newtype s => simp [FromValue.shapeDe, payloadFV]
  | tuple ss =>
    cases x with
    | arr xs =>
      cases xs with
      | nil =>
        cases ss with
        | nil => simp [agreeFrag2Shape] at hfr
        | cons s ss' => simp [FromValue.shapeDe, payloadFV, FromValue.fromValue, FromValue.tupleSeq, FromValue.visitArray, FromValue.fail]
      | cons y ys => simp [FromValue.shapeDe, payloadFV, FromValue.fromValue]
    | _ => simp [FromValue.shapeDe, payloadFV, FromValue.fromValue]
  | struct_ fs =>
    cases x with
    | arr xs =>
      exfalso
      have hk : k ∈ names := hsub k (by simp [VariantShape.svn])
      simp only [JV.hasArrayPayload, Bool.or_eq_false_iff] at hap
      have := hap.1
      simp at this
      exact this hk
    | _ => simp [FromValue.shapeDe, payloadFV, FromValue.fromValue]

/-! ## the main induction -/

variable (ext : Spec.Program.Ext) (hext : Spec.Program.ExtOK ext)
include hext

theorem keyAgree_frag {env : Env} (hflt : env.flt = false) (k : KeyKind) (hk : keyFrag k = true) :
    KeyAgree (deKey env k) (FromValue.keyDe k) := by
  cases k with
  | string => exact keyAgree_str hflt (fun s => .ok (.str s))
  | char => exact keyAgree_str hflt FromValue.visitCharStr
  | bool => exact keyAgree_bool hflt
  | unitEnum names => exact keyAgree_unitEnum hflt names
  | int w => simp [keyFrag] at hk

/-- **the text leg on printed values**: for every schema of the fragment, every float-free value representable without
    `arbitrary_precision`, within the depth budget and without a struct variant written as an array, the typed
    deserializer on the text `to_string` writes for the value (followed by a separator or nothing) returns exactly what
    `from_value` returns — and fails when it fails -/
theorem agree_all {env : Env} (hflt : env.flt = false) (cfg' : FromValue.Cfg) (hap : cfg'.ap = false) (ext' : FromValue.Ext)
    (names : List Bytes) :
    ∀ (f : Nat) (s : Schema), Schema.size s ≤ f → agreeFrag2 s = true → (∀ n ∈ s.structVariantNames, n ∈ names) →
      ∀ (t : Nat) (v : JV), VOK v → DepthOK env t v → JV.hasArrayPayload names v = false →
      Agree1 (deTyped env f t s) (FromValue.fromValue cfg' ext' s v) (T ext v) := by
  intro f
  induction f with
  | zero => intro s hs; have := size_pos s; omega
  | succ f ih =>
    intro s hs hfr hsub t v hv hd hnap
    cases s with
    | bool => rw [deTyped_bool]; exact agree_bool ext hext hflt cfg' hap ext' v hv
    | int w => rw [deTyped_int]; exact agree_int ext hext hflt cfg' hap ext' w v hv
    | unit => rw [deTyped_unit]; exact agree_unit ext hext hflt cfg' hap ext' v hv
    | unitStruct =>
      rw [deTyped_unitStruct]
      have := agree_unit ext hext hflt cfg' hap ext' v hv
      simpa [FromValue.fromValue] using this
    | char => rw [deTyped_char]; exact agree_char ext hext hflt cfg' hap ext' v hv
    | string => rw [deTyped_string]; exact agree_string ext hext hflt cfg' hap ext' v hv
    | bytes => rw [deTyped_bytes]; exact agree_bytes ext hext hflt cfg' hap ext' t v hv hd
    | ignored =>
      rw [deTyped_ignored]
      intro rest pos hsep
      simp only [FromValue.fromValue]
      rw [ignoreValue_T ext hext env hflt v hv.1 rest pos hsep]
      rfl
    | newtype s' =>
      rw [deTyped_newtype]
      have := ih s' (by simp only [Schema.size] at hs; omega) (by simpa [agreeFrag2] using hfr)
        (by simpa [Schema.structVariantNames] using hsub) t v hv hd hnap
      simpa [FromValue.fromValue] using this
    | option s' =>
      exact agree_option ext hflt cfg' hap ext' s' f t v hv
        (ih s' (by simp only [Schema.size] at hs; omega) (by simpa [agreeFrag2] using hfr)
          (by simpa [Schema.structVariantNames] using hsub) t v hv hd hnap) (T_head ext hext v hv)
    | seq s' =>
      refine agree_seq ext hext hflt cfg' hap ext' s' f t v hv hd fun xs hxs x hx => ?_
      subst hxs
      exact ih s' (by simp only [Schema.size] at hs; omega) (by simpa [agreeFrag2] using hfr)
        (by simpa [Schema.structVariantNames] using hsub) (t + 1) x (vok_elem xs x hx hv) (depthOK_elem t xs x hx hd)
        (hap_elem names xs x hx (by simpa [JV.hasArrayPayload] using hnap))
    | tuple ss =>
      refine agree_tuple ext hext hflt cfg' hap ext' ss f t v hv hd fun xs hxs s' hs' x hx => ?_
      subst hxs
      have hsz := size_mem_list ss s' hs'
      exact ih s' (by simp only [Schema.size] at hs; omega) (agreeFrag2_mem ss s' hs' (by simpa [agreeFrag2] using hfr))
        (fun n hn => hsub n (by simp only [Schema.structVariantNames]; exact svn_mem_list ss s' hs' n hn)) (t + 1) x
        (vok_elem xs x hx hv) (depthOK_elem t xs x hx hd) (hap_elem names xs x hx (by simpa [JV.hasArrayPayload] using hnap))
    | map k s' =>
      have hfr' : keyFrag k = true ∧ agreeFrag2 s' = true := by simpa [agreeFrag2] using hfr
      refine agree_map ext hext hflt cfg' hap ext' k (keyAgree_frag ext hext hflt k hfr'.1) s' f t v hv hd fun kvs hkvs kv hx => ?_
      subst hkvs
      exact ih s' (by simp only [Schema.size] at hs; omega) hfr'.2 (by simpa [Schema.structVariantNames] using hsub) (t + 1) kv.2
        (vok_member kvs kv hx hv).2 (depthOK_member t kvs kv hx hd) (hap_member names kvs kv hx (hap_obj names kvs hnap))
    | struct_ fs deny =>
      have hfr' : agreeFrag2Fields fs = true := by simpa [agreeFrag2] using hfr
      have hsize : ∀ s' ∈ fs.map (·.2), Schema.size s' ≤ f := by
        intro s' hs'
        obtain ⟨fld, hfld, rfl⟩ := List.mem_map.mp hs'
        have := size_mem_fields fs fld hfld
        simp only [Schema.size] at hs; omega
      have hsub' : ∀ s' ∈ fs.map (·.2), ∀ n ∈ s'.structVariantNames, n ∈ names :=
        fun s' hs' n hn => hsub n (by simp only [Schema.structVariantNames]; exact svn_mem_fields fs s' hs' n hn)
      refine agree_struct ext hext hflt cfg' hap ext' fs deny f t v hv hd ?_ ?_
      · intro xs hxs s' hs' x hx
        subst hxs
        exact ih s' (hsize s' hs') (agreeFrag2_mem_fields fs s' hs' hfr') (hsub' s' hs') (t + 1) x (vok_elem xs x hx hv)
          (depthOK_elem t xs x hx hd) (hap_elem names xs x hx (by simpa [JV.hasArrayPayload] using hnap))
      · intro kvs hkvs s' hs' kv hx
        subst hkvs
        exact ih s' (hsize s' hs') (agreeFrag2_mem_fields fs s' hs' hfr') (hsub' s' hs') (t + 1) kv.2 (vok_member kvs kv hx hv).2
          (depthOK_member t kvs kv hx hd) (hap_member names kvs kv hx (hap_obj names kvs hnap))
    | enum_ vs =>
      have hfr' : agreeFrag2Variants vs = true := by simpa [agreeFrag2] using hfr
      refine agree_enum ext hext hflt cfg' hap ext' vs f t v hv hd ?_ ?_
      · intro kvs hkvs nm sh hmem kv hx
        subst hkvs
        have hshf := agreeFrag2_mem_variants vs nm sh hmem hfr'
        have hshsz := size_mem_variants vs (nm, sh) hmem
        have hsubsh : ∀ n ∈ VariantShape.svn nm sh, n ∈ names :=
          fun n hn => hsub n (by simp only [Schema.structVariantNames]; exact svn_mem_variants vs nm sh hmem n hn)
        have hvk := (vok_member kvs kv hx hv).2
        have hdk := depthOK_member t kvs kv hx hd
        have hnk := hap_member names kvs kv hx (hap_obj names kvs hnap)
        have hszs : ∀ s' ∈ shapeSchemas sh, Schema.size s' ≤ f := by
          intro s' hs'
          have := size_shape sh s' hs'
          simp only [Schema.size] at hs
          simp only at hshsz
          omega
        cases sh with
        | unit =>
          simp only [dePayload, payloadFV]
          exact agree_unit ext hext hflt cfg' hap ext' kv.2 hvk
        | newtype s' =>
          simp only [dePayload, payloadFV]
          exact ih s' (hszs s' (by simp [shapeSchemas])) (by simpa [agreeFrag2Shape] using hshf)
            (by simpa [VariantShape.svn] using hsubsh) (t + 1) kv.2 hvk hdk hnk
        | tuple ss =>
          have hfl : agreeFrag2List ss = true := by
            have : (!ss.isEmpty && agreeFrag2List ss) = true := by simpa [agreeFrag2Shape] using hshf
            simp only [Bool.and_eq_true] at this; exact this.2
          have : dePayload env (t + 1) (deTyped env f) (.tuple ss) = deTyped env (f + 1) (t + 1) (.tuple ss) := by
            rw [deTyped_tuple]; rfl
          rw [this]
          simp only [payloadFV]
          refine agree_tuple ext hext hflt cfg' hap ext' ss f (t + 1) kv.2 hvk hdk fun xs hxs s' hs' x hx' => ?_
          exact ih s' (hszs s' (by simpa [shapeSchemas] using hs')) (agreeFrag2_mem ss s' hs' hfl)
            (fun n hn => hsubsh n (by simp only [VariantShape.svn]; exact svn_mem_list ss s' hs' n hn)) (t + 1 + 1) x
            (vok_elem xs x hx' (hxs ▸ hvk)) (depthOK_elem (t + 1) xs x hx' (hxs ▸ hdk))
            (hap_elem names xs x hx' (by have := hxs ▸ hnk; simpa [JV.hasArrayPayload] using this))
        | struct_ fs =>
          have hff : agreeFrag2Fields fs = true := by simpa [agreeFrag2Shape] using hshf
          have : dePayload env (t + 1) (deTyped env f) (.struct_ fs) = deTyped env (f + 1) (t + 1) (.struct_ fs false) := by
            rw [deTyped_struct]; rfl
          rw [this]
          simp only [payloadFV]
          have hsubf : ∀ s' ∈ fs.map (·.2), ∀ n ∈ s'.structVariantNames, n ∈ names :=
            fun s' hs' n hn => hsubsh n (by
              simp only [VariantShape.svn, List.mem_cons]; exact .inr (svn_mem_fields fs s' hs' n hn))
          refine agree_struct ext hext hflt cfg' hap ext' fs false f (t + 1) kv.2 hvk hdk ?_ ?_
          · intro xs hxs s' hs' x hx'
            exact ih s' (hszs s' (by simpa [shapeSchemas] using hs')) (agreeFrag2_mem_fields fs s' hs' hff) (hsubf s' hs') (t + 1 + 1) x
              (vok_elem xs x hx' (hxs ▸ hvk)) (depthOK_elem (t + 1) xs x hx' (hxs ▸ hdk))
              (hap_elem names xs x hx' (by have := hxs ▸ hnk; simpa [JV.hasArrayPayload] using this))
          · intro kvs' hkvs' s' hs' kv' hx'
            exact ih s' (hszs s' (by simpa [shapeSchemas] using hs')) (agreeFrag2_mem_fields fs s' hs' hff) (hsubf s' hs') (t + 1 + 1) kv'.2
              (vok_member kvs' kv' hx' (hkvs' ▸ hvk)).2 (depthOK_member (t + 1) kvs' kv' hx' (hkvs' ▸ hdk))
              (hap_member names kvs' kv' hx' (hap_obj names kvs' (hkvs' ▸ hnk)))
      · intro k x hkx sh hmem
        subst hkx
        exact shapeDe_eq_payloadFV cfg' ext' names k sh x (agreeFrag2_mem_variants vs k sh hmem hfr')
          (fun n hn => hsub n (by simp only [Schema.structVariantNames]; exact svn_mem_variants vs k sh hmem n hn)) hnap
    | f64 | f32 | any => simp [agreeFrag2] at hfr

end SJ.Proofs.Typed
