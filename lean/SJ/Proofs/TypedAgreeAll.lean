import SJ.Proofs.TypedAgreeEnum
import SJ.Proofs.TypedAgreeKeyInt
import SJ.Proofs.TypedAgreeAny
import SJ.Proofs.TypedFloatAgree
import SJ.Proofs.TypedAgree128
/-!
# The text leg of C16, assembled: every schema of the fragment `agreeFrag2`, every float-free non-`arbitrary_precision`
# value outside the statement's exclusions

Fragment: bool, the twelve integer targets, char, string, bytes, unit / unit struct, `Option`, newtype structs, `Vec`,
tuples, maps (every key kind), structs (both `deny_unknown_fields` settings), enums (unit / newtype / non-empty
tuple / struct variants), `IgnoredAny`.
-/
set_option linter.unusedSectionVars false
set_option linter.unusedVariables false

namespace SJ.Proofs.Typed
open SJ SJ.Gen SJ.Model SJ.Model.Typed

/-- key kinds covered: all of them (string, the twelve integer widths, bool, char, unit-variant enums) -/
def keyFrag : KeyKind → Bool := fun _ => true

mutual
/-- the schema fragments of the text leg, parametrised by whether `Value` targets are admitted (`a = true`: the fragment
    of `c16_text_agrees_partial`; `a = false`: the fragment of `c04_typed_partial`). The statement's exclusion "no
    zero-length tuple variant" is part of it (`fragPShape`); `f32` targets are outside (so are they of C16's claim). -/
def fragP (a : Bool) : Schema → Bool
  | .bool | .int _ | .unit | .unitStruct | .char | .string | .bytes | .ignored => true
  | .option s | .newtype s | .seq s => fragP a s
  | .map k s => keyFrag k && fragP a s
  | .tuple ss => fragPList a ss
  | .struct_ fs _ => fragPFields a fs
  | .enum_ vs => fragPVariants a vs
  | .any => a
  | .f64 => true
  | .f32 => false
def fragPList (a : Bool) : List Schema → Bool
  | [] => true
  | s :: r => fragP a s && fragPList a r
def fragPFields (a : Bool) : List (Bytes × Schema) → Bool
  | [] => true
  | (_, s) :: r => fragP a s && fragPFields a r
def fragPVariants (a : Bool) : List (Bytes × VariantShape) → Bool
  | [] => true
  | (_, sh) :: r => fragPShape a sh && fragPVariants a r
def fragPShape (a : Bool) : VariantShape → Bool
  | .unit => true
  | .newtype s => fragP a s
  | .tuple ss => !ss.isEmpty && fragPList a ss
  | .struct_ fs => fragPFields a fs
end

/-- the fragment of `c16_text_agrees_partial` -/
abbrev agreeFrag2 : Schema → Bool := fragP true
/-- the fragment of `c04_typed_partial` (no `Value` members) -/
abbrev agreeFragT : Schema → Bool := fragP false

variable {a : Bool}

theorem agreeFrag2_mem : ∀ (ss : List Schema) (s : Schema), s ∈ ss → fragPList a ss = true → fragP a s = true
  | [], _, h, _ => by simp at h
  | x :: r, s, h, hf => by
    simp only [fragPList, Bool.and_eq_true] at hf
    rcases List.mem_cons.mp h with rfl | h
    · exact hf.1
    · exact agreeFrag2_mem r s h hf.2

theorem agreeFrag2_mem_fields : ∀ (fs : List (Bytes × Schema)) (s : Schema), s ∈ fs.map (·.2) → fragPFields a fs = true →
    fragP a s = true
  | [], _, h, _ => by simp at h
  | (n, x) :: r, s, h, hf => by
    simp only [fragPFields, Bool.and_eq_true] at hf
    simp only [List.map_cons, List.mem_cons] at h
    rcases h with rfl | h
    · exact hf.1
    · exact agreeFrag2_mem_fields r s h hf.2

theorem agreeFrag2_mem_variants : ∀ (vs : List (Bytes × VariantShape)) (nm : Bytes) (sh : VariantShape), (nm, sh) ∈ vs →
    fragPVariants a vs = true → fragPShape a sh = true
  | [], _, _, h, _ => by simp at h
  | (n, x) :: r, nm, sh, h, hf => by
    simp only [fragPVariants, Bool.and_eq_true] at hf
    rcases List.mem_cons.mp h with h | h
    · cases h; exact hf.1
    · exact agreeFrag2_mem_variants r nm sh h hf.2

/-! ## struct-variant names and array payloads -/

theorem svn_mem_list : ∀ (ss : List Schema) (s : Schema), s ∈ ss → ∀ n ∈ s.structVariantNames, n ∈ Schema.svnList ss
  | [], _, h, _, _ => by simp at h
  | x :: r, s, h, n, hn => by
    simp only [Schema.svnList, List.mem_append]
    rcases List.mem_cons.mp h with rfl | h
    · exact .inl hn
    · exact .inr (svn_mem_list r s h n hn)

theorem svn_mem_fields : ∀ (fs : List (Bytes × Schema)) (s : Schema), s ∈ fs.map (·.2) → ∀ n ∈ s.structVariantNames, n ∈ Schema.svnFields fs
  | [], _, h, _, _ => by simp at h
  | (nm, x) :: r, s, h, n, hn => by
    simp only [Schema.svnFields, List.mem_append]
    simp only [List.map_cons, List.mem_cons] at h
    rcases h with rfl | h
    · exact .inl hn
    · exact .inr (svn_mem_fields r s h n hn)

theorem svn_mem_variants : ∀ (vs : List (Bytes × VariantShape)) (nm : Bytes) (sh : VariantShape), (nm, sh) ∈ vs →
    ∀ n ∈ VariantShape.svn nm sh, n ∈ Schema.svnVariants vs
  | [], _, _, h, _, _ => by simp at h
  | (nm', x) :: r, nm, sh, h, n, hn => by
    simp only [Schema.svnVariants, List.mem_append]
    rcases List.mem_cons.mp h with h | h
    · cases h; exact .inl hn
    · exact .inr (svn_mem_variants r nm sh h n hn)

theorem hap_elem (names : List Bytes) : ∀ (xs : List JV) (x : JV), x ∈ xs → JV.hasArrayPayloadList names xs = false →
    JV.hasArrayPayload names x = false
  | [], _, h, _ => by simp at h
  | y :: r, x, h, hf => by
    simp only [JV.hasArrayPayloadList, Bool.or_eq_false_iff] at hf
    rcases List.mem_cons.mp h with rfl | h
    · exact hf.1
    · exact hap_elem names r x h hf.2

theorem hap_member (names : List Bytes) : ∀ (kvs : List (Bytes × JV)) (kv : Bytes × JV), kv ∈ kvs →
    JV.hasArrayPayloadMembers names kvs = false → JV.hasArrayPayload names kv.2 = false
  | [], _, h, _ => by simp at h
  | (k, y) :: r, kv, h, hf => by
    simp only [JV.hasArrayPayloadMembers, Bool.or_eq_false_iff] at hf
    rcases List.mem_cons.mp h with rfl | h
    · exact hf.1
    · exact hap_member names r kv h hf.2

theorem hap_obj (names : List Bytes) (kvs : List (Bytes × JV)) (h : JV.hasArrayPayload names (.obj kvs) = false) :
    JV.hasArrayPayloadMembers names kvs = false := by
  simp only [JV.hasArrayPayload, Bool.or_eq_false_iff] at h
  exact h.2

/-! ## 128-bit integer targets (a float under one of them is outside the per-target invariant) -/

mutual
/-- the schema has a 128-bit integer target (map keys do not count: a key is a string) -/
def has128 : Schema → Bool
  | .int w => is128 w
  | .option s | .newtype s | .seq s | .map _ s => has128 s
  | .tuple ss => has128List ss
  | .struct_ fs _ => has128Fields fs
  | .enum_ vs => has128Variants vs
  | _ => false
def has128List : List Schema → Bool
  | [] => false
  | s :: r => has128 s || has128List r
def has128Fields : List (Bytes × Schema) → Bool
  | [] => false
  | (_, s) :: r => has128 s || has128Fields r
def has128Variants : List (Bytes × VariantShape) → Bool
  | [] => false
  | (_, sh) :: r => has128Shape sh || has128Variants r
def has128Shape : VariantShape → Bool
  | .unit => false
  | .newtype s => has128 s
  | .tuple ss => has128List ss
  | .struct_ fs => has128Fields fs
end

theorem has128_mem : ∀ (ss : List Schema) (s : Schema), s ∈ ss → has128List ss = false → has128 s = false
  | [], _, h, _ => by simp at h
  | x :: r, s, h, hf => by
    simp only [has128List, Bool.or_eq_false_iff] at hf
    rcases List.mem_cons.mp h with rfl | h
    · exact hf.1
    · exact has128_mem r s h hf.2

theorem has128_mem_fields : ∀ (fs : List (Bytes × Schema)) (s : Schema), s ∈ fs.map (·.2) → has128Fields fs = false →
    has128 s = false
  | [], _, h, _ => by simp at h
  | (n, x) :: r, s, h, hf => by
    simp only [has128Fields, Bool.or_eq_false_iff] at hf
    simp only [List.map_cons, List.mem_cons] at h
    rcases h with rfl | h
    · exact hf.1
    · exact has128_mem_fields r s h hf.2

theorem has128_mem_variants : ∀ (vs : List (Bytes × VariantShape)) (nm : Bytes) (sh : VariantShape), (nm, sh) ∈ vs →
    has128Variants vs = false → has128Shape sh = false
  | [], _, _, h, _ => by simp at h
  | (n, x) :: r, nm, sh, h, hf => by
    simp only [has128Variants, Bool.or_eq_false_iff] at hf
    rcases List.mem_cons.mp h with h | h
    · cases h; exact hf.1
    · exact has128_mem_variants r nm sh h hf.2

theorem noFloat_member : ∀ (kvs : List (Bytes × JV)) (kv : Bytes × JV), kv ∈ kvs → Spec.WF.noFloatm kvs = true →
    Spec.WF.noFloat kv.2 = true
  | [], _, h, _ => by simp at h
  | (k, y) :: r, kv, h, hf => by
    simp only [Spec.WF.noFloatm, Bool.and_eq_true] at hf
    rcases List.mem_cons.mp h with rfl | h
    · exact hf.1
    · exact noFloat_member r kv h hf.2

theorem frt_elem (c : Spec.Canon.Cfg) (e : Spec.Program.Ext) : ∀ (xs : List JV) (x : JV), x ∈ xs →
    Spec.WF.floatsRTs c e xs = true → Spec.WF.floatsRT c e x = true
  | [], _, h, _ => by simp at h
  | y :: r, x, h, hf => by
    simp only [Spec.WF.floatsRTs, Bool.and_eq_true] at hf
    rcases List.mem_cons.mp h with rfl | h
    · exact hf.1
    · exact frt_elem c e r x h hf.2

theorem frt_member (c : Spec.Canon.Cfg) (e : Spec.Program.Ext) : ∀ (kvs : List (Bytes × JV)) (kv : Bytes × JV), kv ∈ kvs →
    Spec.WF.floatsRTm c e kvs = true → Spec.WF.floatsRT c e kv.2 = true
  | [], _, h, _ => by simp at h
  | (k, y) :: r, kv, h, hf => by
    simp only [Spec.WF.floatsRTm, Bool.and_eq_true] at hf
    rcases List.mem_cons.mp h with rfl | h
    · exact hf.1
    · exact frt_member c e r kv h hf.2

/-! ## the admissible (schema, value) pairs: an invariant closed under the positions both deserializers visit -/

/-- positionwise (the i-th schema with the i-th element) -/
def TupR (R : Schema → JV → Prop) : List Schema → List JV → Prop
  | s :: ss, x :: xs => R s x ∧ TupR R ss xs
  | _, _ => True

/-- the payload of a variant, as the text side reads it -/
def RShape (R : Schema → JV → Prop) : VariantShape → JV → Prop
  | .unit, _ => True
  | .newtype s, x => R s x
  | .tuple ss, x => R (.tuple ss) x
  | .struct_ fs, x => R (.struct_ fs false) x

/-- `R` is closed under the sub-positions the induction visits, and excludes a struct variant written as an array -/
structure Closed (R : Schema → JV → Prop) : Prop where
  option : ∀ s v, R (.option s) v → v ≠ .null → R s v
  newtype : ∀ s v, R (.newtype s) v → R s v
  seq : ∀ s xs, R (.seq s) (.arr xs) → ∀ x ∈ xs, R s x
  tuple : ∀ ss xs, R (.tuple ss) (.arr xs) → TupR R ss xs
  map : ∀ k s kvs, R (.map k s) (.obj kvs) → ∀ kv ∈ kvs, R s kv.2
  structArr : ∀ fs d xs, R (.struct_ fs d) (.arr xs) → TupR R (fs.map (·.2)) xs
  structObj : ∀ fs d kvs, R (.struct_ fs d) (.obj kvs) → ∀ kv ∈ kvs, ∀ i nm s,
    FromValue.nameIndex (fieldNames fs) kv.1 = some i → fs[i]? = some (nm, s) → R s kv.2
  enumPayload : ∀ vs k x kvs, R (.enum_ vs) (.obj ((k, x) :: kvs)) → ∀ sh, (k, sh) ∈ vs → RShape R sh x
  enumExcl : ∀ vs k x, R (.enum_ vs) (.obj [(k, x)]) → ∀ fs, (k, VariantShape.struct_ fs) ∈ vs → ∀ xs, x ≠ .arr xs

/-- `Q` is inherited along the sub-positions the induction visits (`Closed` without the exclusion) -/
structure PosClosed (Q : Schema → JV → Prop) : Prop where
  option : ∀ s v, Q (.option s) v → v ≠ .null → Q s v
  newtype : ∀ s v, Q (.newtype s) v → Q s v
  seq : ∀ s xs, Q (.seq s) (.arr xs) → ∀ x ∈ xs, Q s x
  tuple : ∀ ss xs, Q (.tuple ss) (.arr xs) → TupR Q ss xs
  map : ∀ k s kvs, Q (.map k s) (.obj kvs) → ∀ kv ∈ kvs, Q s kv.2
  structArr : ∀ fs d xs, Q (.struct_ fs d) (.arr xs) → TupR Q (fs.map (·.2)) xs
  structObj : ∀ fs d kvs, Q (.struct_ fs d) (.obj kvs) → ∀ kv ∈ kvs, ∀ i nm s,
    FromValue.nameIndex (fieldNames fs) kv.1 = some i → fs[i]? = some (nm, s) → Q s kv.2
  enumPayload : ∀ vs k x kvs, Q (.enum_ vs) (.obj ((k, x) :: kvs)) → ∀ sh, (k, sh) ∈ vs → RShape Q sh x

theorem Closed.pos {R : Schema → JV → Prop} (h : Closed R) : PosClosed R :=
  ⟨h.option, h.newtype, h.seq, h.tuple, h.map, h.structArr, h.structObj, h.enumPayload⟩

theorem tupR_and {R Q : Schema → JV → Prop} : ∀ (ss : List Schema) (xs : List JV), TupR R ss xs → TupR Q ss xs →
    TupR (fun s v => R s v ∧ Q s v) ss xs
  | [], _, _, _ => trivial
  | _ :: _, [], _, _ => trivial
  | s :: ss, x :: xs, h1, h2 => ⟨⟨h1.1, h2.1⟩, tupR_and ss xs h1.2 h2.2⟩

theorem rShape_and {R Q : Schema → JV → Prop} (sh : VariantShape) (x : JV) (h1 : RShape R sh x) (h2 : RShape Q sh x) :
    RShape (fun s v => R s v ∧ Q s v) sh x := by
  cases sh with
  | unit => trivial
  | newtype s => exact ⟨h1, h2⟩
  | tuple ss => exact ⟨h1, h2⟩
  | struct_ fs => exact ⟨h1, h2⟩

/-- an admissibility invariant strengthened by an inherited condition -/
theorem Closed.and {R Q : Schema → JV → Prop} (hR : Closed R) (hQ : PosClosed Q) : Closed (fun s v => R s v ∧ Q s v) where
  option := fun s v h hn => ⟨hR.option s v h.1 hn, hQ.option s v h.2 hn⟩
  newtype := fun s v h => ⟨hR.newtype s v h.1, hQ.newtype s v h.2⟩
  seq := fun s xs h x hx => ⟨hR.seq s xs h.1 x hx, hQ.seq s xs h.2 x hx⟩
  tuple := fun ss xs h => tupR_and ss xs (hR.tuple ss xs h.1) (hQ.tuple ss xs h.2)
  map := fun k s kvs h kv hx => ⟨hR.map k s kvs h.1 kv hx, hQ.map k s kvs h.2 kv hx⟩
  structArr := fun fs d xs h => tupR_and _ xs (hR.structArr fs d xs h.1) (hQ.structArr fs d xs h.2)
  structObj := fun fs d kvs h kv hx i nm s h1 h2 =>
    ⟨hR.structObj fs d kvs h.1 kv hx i nm s h1 h2, hQ.structObj fs d kvs h.2 kv hx i nm s h1 h2⟩
  enumPayload := fun vs k x kvs h sh hm => rShape_and sh x (hR.enumPayload vs k x kvs h.1 sh hm) (hQ.enumPayload vs k x kvs h.2 sh hm)
  enumExcl := fun vs k x h => hR.enumExcl vs k x h.1

/-- a condition on the value alone, inherited by elements and members -/
theorem posClosed_val (P : JV → Prop) (he : ∀ xs, P (.arr xs) → ∀ x ∈ xs, P x) (hm : ∀ kvs, P (.obj kvs) → ∀ kv ∈ kvs, P kv.2) :
    PosClosed (fun _ v => P v) where
  option := fun _ _ h _ => h
  newtype := fun _ _ h => h
  seq := fun _ xs h x hx => he xs h x hx
  tuple := fun ss xs h => tupR_of_all' ss xs (he xs h)
  map := fun _ _ kvs h kv hx => hm kvs h kv hx
  structArr := fun fs _ xs h => tupR_of_all' _ xs (he xs h)
  structObj := fun _ _ kvs h kv hx _ _ _ _ _ => hm kvs h kv hx
  enumPayload := fun _ k x kvs h sh _ => by
    have hx : P x := hm ((k, x) :: kvs) h (k, x) (by simp)
    cases sh with
    | unit => trivial
    | newtype s => exact hx
    | tuple ss => exact hx
    | struct_ fs => exact hx
where
  tupR_of_all' : ∀ (ss : List Schema) (xs : List JV), (∀ x ∈ xs, P x) → TupR (fun _ v => P v) ss xs
    | [], _, _ => trivial
    | _ :: _, [], _ => trivial
    | _ :: ss, x :: xs, h => ⟨h x (by simp), tupR_of_all' ss xs fun x' hx' => h x' (by simp [hx'])⟩

variable (ext : Spec.Program.Ext)

theorem tupAgree_of_tupR (R : Schema → JV → Prop) (de : Schema → Bytes → Nat → TOut) (fv : Schema → JV → FromValue.R) :
    ∀ (ss : List Schema) (xs : List JV), (∀ s ∈ ss, ∀ x ∈ xs, R s x → Agree1w (de s) (fv s x) (T ext x)) → TupR R ss xs →
      TupAgree ext de fv ss xs
  | [], _, _, _ => trivial
  | _ :: _, [], _, _ => trivial
  | s :: ss, x :: xs, h, hr => ⟨h s (by simp) x (by simp) hr.1,
      tupAgree_of_tupR R de fv ss xs (fun s' hs' x' hx' => h s' (by simp [hs']) x' (by simp [hx'])) hr.2⟩

/-! ## the two payload interpretations coincide outside the exclusions -/

theorem shapeDe_eq_payloadFV (cfg : FromValue.Cfg) (e : FromValue.Ext) (sh : VariantShape) (x : JV)
    (hfr : fragPShape a sh = true) (hex : ∀ fs, sh = .struct_ fs → ∀ xs, x ≠ .arr xs) :
    FromValue.shapeDe cfg e sh (some x) = payloadFV cfg e sh x := by
  cases sh with
  | unit => cases x <;> simp [FromValue.shapeDe, payloadFV, FromValue.fromValue]
  | newtype s => simp [FromValue.shapeDe, payloadFV]
  | tuple ss =>
    cases x with
    | arr xs =>
      cases xs with
      | nil =>
        cases ss with
        | nil => simp [fragPShape] at hfr
        | cons s ss' => simp [FromValue.shapeDe, payloadFV, FromValue.fromValue, FromValue.tupleSeq, FromValue.visitArray, FromValue.fail]
      | cons y ys => simp [FromValue.shapeDe, payloadFV, FromValue.fromValue]
    | _ => simp [FromValue.shapeDe, payloadFV, FromValue.fromValue]
  | struct_ fs =>
    cases x with
    | arr xs => exact absurd rfl (hex fs rfl xs)
    | _ => simp [FromValue.shapeDe, payloadFV, FromValue.fromValue]

/-! ## the main induction -/

variable (hext : Spec.Program.ExtOK ext)
include hext

theorem keyAgree_frag {env : Env} (hflt : env.flt = false) (k : KeyKind) (hk : keyFrag k = true) :
    KeyAgree (deKey env k) (FromValue.keyDe k) := by
  cases k with
  | string => exact keyAgree_str hflt (fun s => .ok (.str s))
  | char => exact keyAgree_str hflt FromValue.visitCharStr
  | bool => exact keyAgree_bool hflt
  | unitEnum names => exact keyAgree_unitEnum hflt names
  | int w => exact keyAgree_int ext hext hflt w

/-- what the main induction needs of the leaves that READ A NUMBER (integer targets, `f64`, the `u8` elements of a byte
    buffer) and of the `Value` target, relative to the invariant `R`: this is where the representation of numbers — integers
    and floats, or literals under `arbitrary_precision` — enters; everything else is representation-independent -/
structure Leaves (env : Env) (cfg' : FromValue.Cfg) (ext' : FromValue.Ext) (a : Bool) (R : Schema → JV → Prop) : Prop where
  int : ∀ w v, R (.int w) v → VOKg v → Agree1w (deInt env w) (FromValue.fromValue cfg' ext' (.int w) v) (T ext v)
  f64 : ∀ v, R .f64 v → VOKg v → Agree1w (deNumber env .f64) (FromValue.fromValue cfg' ext' .f64 v) (T ext v)
  u8 : ∀ xs, R .bytes (.arr xs) → VOKg (.arr xs) → ∀ x ∈ xs,
    Agree1w (deInt env .u8) (FromValue.fromValue cfg' ext' (.int .u8) x) (T ext x)
  any : a = true → ∀ f t v, R .any v → VOKg v → DepthOK env t v →
    Agree1w (deTyped env (f + 1) t .any) (FromValue.fromValue cfg' ext' .any v) (T ext v)

/-- **the text leg on printed values, representation-independent core**: for an invariant `R` on (schema, value) pairs closed
    under the positions visited and leaves that agree on the numbers (`Leaves`), every schema of the fragment and every value
    of either build (`VOKg`) within the depth budget: the typed deserializer on the text `to_string` writes for the value
    returns what `from_value` returns, and fails when it fails — or (`Agree1w`) returns inside a number, which every caller
    rejects. `cfg'` is arbitrary: the `Value`-side configuration matters at the leaves only. -/
theorem agree_core {env : Env} (hflt : env.flt = false) (cfg' : FromValue.Cfg)
    (ext' : FromValue.Ext) (R : Schema → JV → Prop) (hR : Closed R) (hL : Leaves ext env cfg' ext' a R) :
    ∀ (f : Nat) (s : Schema), Schema.size s ≤ f → fragP a s = true →
      ∀ (t : Nat) (v : JV), VOKg v → DepthOK env t v → R s v →
      Agree1w (deTyped env f t s) (FromValue.fromValue cfg' ext' s v) (T ext v) := by
  intro f
  induction f with
  | zero => intro s hs; have := size_pos s; omega
  | succ f ih =>
    intro s hs hfr t v hv hd hr
    cases s with
    | bool => rw [deTyped_bool]; exact (agree_bool_g ext hext hflt cfg' ext' v hv).weak
    | int w => rw [deTyped_int]; exact hL.int w v hr hv
    | unit => rw [deTyped_unit]; exact (agree_unit_g ext hext hflt cfg' ext' v hv).weak
    | unitStruct =>
      rw [deTyped_unitStruct]
      have := agree_unit_g ext hext hflt cfg' ext' v hv
      exact Agree1.weak (by simpa [FromValue.fromValue] using this)
    | char => rw [deTyped_char]; exact (agree_char_g ext hext hflt cfg' ext' v hv).weak
    | string => rw [deTyped_string]; exact (agree_string_g ext hext hflt cfg' ext' v hv).weak
    | bytes =>
      rw [deTyped_bytes]
      refine Agree1.weak (agree_bytes_g ext hext hflt cfg' ext' t v hv hd fun xs hxs x hx => ?_)
      subst hxs
      exact hL.u8 xs hr hv x hx
    | ignored =>
      rw [deTyped_ignored]
      refine Agree1.weak ?_
      intro rest pos hsep
      simp only [FromValue.fromValue]
      rw [ignoreValue_T_g ext hext env hflt v hv rest pos hsep]
      rfl
    | newtype s' =>
      rw [deTyped_newtype]
      have := ih s' (by simp only [Schema.size] at hs; omega) (by simpa [fragP] using hfr) t v hv hd (hR.newtype s' v hr)
      simpa [FromValue.fromValue] using this
    | option s' =>
      exact agree_option_w ext hflt cfg' ext' s' f t v hv
        (fun hnn => ih s' (by simp only [Schema.size] at hs; omega) (by simpa [fragP] using hfr) t v hv hd (hR.option s' v hr hnn))
        (T_head_g ext hext v hv)
    | seq s' =>
      refine Agree1.weak (agree_seq ext hext hflt cfg' ext' s' f t v hv hd fun xs hxs x hx => ?_)
      subst hxs
      exact ih s' (by simp only [Schema.size] at hs; omega) (by simpa [fragP] using hfr) (t + 1) x (vokg_elem xs x hx hv)
        (depthOK_elem t xs x hx hd) (hR.seq s' xs hr x hx)
    | tuple ss =>
      refine Agree1.weak (agree_tuple ext hext hflt cfg' ext' ss f t v hv hd fun xs hxs => ?_)
      subst hxs
      refine tupAgree_of_tupR ext R _ _ ss xs (fun s' hs' x hx hrx => ?_) (hR.tuple ss xs hr)
      have hsz := size_mem_list ss s' hs'
      exact ih s' (by simp only [Schema.size] at hs; omega) (agreeFrag2_mem ss s' hs' (by simpa [fragP] using hfr)) (t + 1) x
        (vokg_elem xs x hx hv) (depthOK_elem t xs x hx hd) hrx
    | map k s' =>
      have hfr' : keyFrag k = true ∧ fragP a s' = true := by simpa [fragP] using hfr
      refine Agree1.weak (agree_map ext hext hflt cfg' ext' k (keyAgree_frag ext hext hflt k hfr'.1) s' f t v hv hd fun kvs hkvs kv hx => ?_)
      subst hkvs
      exact ih s' (by simp only [Schema.size] at hs; omega) hfr'.2 (t + 1) kv.2
        (vokg_member kvs kv hx hv).2 (depthOK_member t kvs kv hx hd) (hR.map k s' kvs hr kv hx)
    | struct_ fs deny =>
      have hfr' : fragPFields a fs = true := by simpa [fragP] using hfr
      have hsize : ∀ s' ∈ fs.map (·.2), Schema.size s' ≤ f := by
        intro s' hs'
        obtain ⟨fld, hfld, rfl⟩ := List.mem_map.mp hs'
        have := size_mem_fields fs fld hfld
        simp only [Schema.size] at hs; omega
      refine Agree1.weak (agree_struct ext hext hflt cfg' ext' fs deny f t v hv hd ?_ ?_)
      · intro xs hxs
        subst hxs
        refine tupAgree_of_tupR ext R _ _ _ xs (fun s' hs' x hx hrx => ?_) (hR.structArr fs deny xs hr)
        exact ih s' (hsize s' hs') (agreeFrag2_mem_fields fs s' hs' hfr') (t + 1) x (vokg_elem xs x hx hv)
          (depthOK_elem t xs x hx hd) hrx
      · intro kvs hkvs kv hx i nm s' hni hfi
        subst hkvs
        have hs' : s' ∈ fs.map (·.2) := List.mem_map.mpr ⟨(nm, s'), List.mem_of_getElem? hfi, rfl⟩
        exact ih s' (hsize s' hs') (agreeFrag2_mem_fields fs s' hs' hfr') (t + 1) kv.2 (vokg_member kvs kv hx hv).2
          (depthOK_member t kvs kv hx hd) (hR.structObj fs deny kvs hr kv hx i nm s' hni hfi)
    | enum_ vs =>
      have hfr' : fragPVariants a vs = true := by simpa [fragP] using hfr
      refine Agree1.weak (agree_enum ext hext hflt cfg' ext' vs f t v hv hd ?_ ?_)
      · intro k x kvs hkvs sh hmem
        subst hkvs
        have hshf := agreeFrag2_mem_variants vs k sh hmem hfr'
        have hshsz := size_mem_variants vs (k, sh) hmem
        have hrsh := hR.enumPayload vs k x kvs hr sh hmem
        have hvk := (vokg_member ((k, x) :: kvs) (k, x) (by simp) hv).2
        have hdk := depthOK_member t ((k, x) :: kvs) (k, x) (by simp) hd
        simp only at hvk hdk
        have hszs : ∀ s' ∈ shapeSchemas sh, Schema.size s' ≤ f := by
          intro s' hs'
          have := size_shape sh s' hs'
          simp only [Schema.size] at hs
          simp only at hshsz
          omega
        cases sh with
        | unit =>
          simp only [dePayload, payloadFV]
          exact (agree_unit_g ext hext hflt cfg' ext' x hvk).weak
        | newtype s' =>
          simp only [dePayload, payloadFV]
          exact ih s' (hszs s' (by simp [shapeSchemas])) (by simpa [fragPShape] using hshf) (t + 1) x hvk hdk hrsh
        | tuple ss =>
          have hfl : fragPList a ss = true := by
            have : (!ss.isEmpty && fragPList a ss) = true := by simpa [fragPShape] using hshf
            simp only [Bool.and_eq_true] at this; exact this.2
          have : dePayload env (t + 1) (deTyped env f) (.tuple ss) = deTyped env (f + 1) (t + 1) (.tuple ss) := by
            rw [deTyped_tuple]; rfl
          rw [this]
          simp only [payloadFV]
          refine Agree1.weak (agree_tuple ext hext hflt cfg' ext' ss f (t + 1) x hvk hdk fun xs hxs => ?_)
          subst hxs
          refine tupAgree_of_tupR ext R _ _ ss xs (fun s' hs' x' hx' hrx => ?_) (hR.tuple ss xs hrsh)
          exact ih s' (hszs s' (by simpa [shapeSchemas] using hs')) (agreeFrag2_mem ss s' hs' hfl) (t + 1 + 1) x'
            (vokg_elem xs x' hx' hvk) (depthOK_elem (t + 1) xs x' hx' hdk) hrx
        | struct_ fs =>
          have hff : fragPFields a fs = true := by simpa [fragPShape] using hshf
          have : dePayload env (t + 1) (deTyped env f) (.struct_ fs) = deTyped env (f + 1) (t + 1) (.struct_ fs false) := by
            rw [deTyped_struct]; rfl
          rw [this]
          simp only [payloadFV]
          refine Agree1.weak (agree_struct ext hext hflt cfg' ext' fs false f (t + 1) x hvk hdk ?_ ?_)
          · intro xs hxs
            subst hxs
            refine tupAgree_of_tupR ext R _ _ _ xs (fun s' hs' x' hx' hrx => ?_) (hR.structArr fs false xs hrsh)
            exact ih s' (hszs s' (by simpa [shapeSchemas] using hs')) (agreeFrag2_mem_fields fs s' hs' hff) (t + 1 + 1) x'
              (vokg_elem xs x' hx' hvk) (depthOK_elem (t + 1) xs x' hx' hdk) hrx
          · intro kvs' hkvs' kv' hx' i nm s' hni hfi
            subst hkvs'
            have hs' : s' ∈ fs.map (·.2) := List.mem_map.mpr ⟨(nm, s'), List.mem_of_getElem? hfi, rfl⟩
            exact ih s' (hszs s' (by simpa [shapeSchemas] using hs')) (agreeFrag2_mem_fields fs s' hs' hff) (t + 1 + 1) kv'.2
              (vokg_member kvs' kv' hx' hvk).2 (depthOK_member (t + 1) kvs' kv' hx' hdk)
              (hR.structObj fs false kvs' hrsh kv' hx' i nm s' hni hfi)
      · intro k x hkx sh hmem
        subst hkx
        exact shapeDe_eq_payloadFV cfg' ext' sh x (agreeFrag2_mem_variants vs k sh hmem hfr')
          (fun fs hfs xs => hR.enumExcl vs k x hr fs (hfs ▸ hmem) xs)
    | any =>
      have ha : a = true := by simpa [fragP] using hfr
      exact hL.any ha f t v hr hv hd
    | f64 => rw [deTyped_f64]; exact hL.f64 v hr hv
    | f32 => simp [fragP] at hfr

/-- **the text leg on printed values**, for an invariant `R` on (schema, value) pairs closed under the positions visited:
    for every schema of the fragment and every value representable without `arbitrary_precision` whose floats are read back
    from `ryu`'s text (`floatsRT`), within the depth budget and admissible, the typed deserializer on the text `to_string`
    writes for the value (followed by a separator or nothing) returns exactly what `from_value` returns — and fails when it
    fails, or (a float under a 128-bit integer target, `Agree1w`) returns with the unread input inside the number, which every
    caller rejects. `hInt`: a float under a 128-bit integer target is written with a fraction or an exponent
    (`int128_float_weak`); `hF64`: an integer under an `f64` target is one a `Number` can hold. -/
theorem agree_gen {env : Env} (hflt : env.flt = false) (hapE : env.cfg.ap = false) (cfg' : FromValue.Cfg) (hap : cfg'.ap = false)
    (ext' : FromValue.Ext) (R : Schema → JV → Prop) (hR : Closed R)
    (hAny : a = true → ∀ v, R .any v → Spec.WF.shapeOK (SJ.Proofs.CanonM.specCfg env.cfg) v = true)
    (hInt : ∀ w v, R (.int w) v → is128 w = true → ∀ b, v = .num (.float b) → floatPointed ext b = true)
    (hF64 : ∀ v, R .f64 v → SJ.Proofs.TypedFloat.IntRangeOK v) :
    ∀ (f : Nat) (s : Schema), Schema.size s ≤ f → fragP a s = true →
      ∀ (t : Nat) (v : JV), VOK v → Spec.WF.floatsRT (SJ.Proofs.CanonM.specCfg env.cfg) ext v = true → DepthOK env t v → R s v →
      Agree1w (deTyped env f t s) (FromValue.fromValue cfg' ext' s v) (T ext v) := by
  -- the invariant strengthened by what the number leaves need of the value (inherited by elements and members)
  let c := SJ.Proofs.CanonM.specCfg env.cfg
  have hQ : PosClosed (fun (_ : Schema) (v : JV) => VOK v ∧ Spec.WF.floatsRT c ext v = true) :=
    posClosed_val _ (fun xs h x hx => ⟨vok_elem xs x hx h.1, frt_elem _ _ xs x hx (by simpa [Spec.WF.floatsRT] using h.2)⟩)
      (fun kvs h kv hx => ⟨(vok_member kvs kv hx h.1).2, frt_member _ _ kvs kv hx (by simpa [Spec.WF.floatsRT] using h.2)⟩)
  have hL : Leaves ext env cfg' ext' a (fun s v => R s v ∧ (VOK v ∧ Spec.WF.floatsRT c ext v = true)) := {
    int := fun w v hr _ => by
      obtain ⟨hr, hv, hF⟩ := hr
      by_cases h128 : is128 w = true
      · -- a 128-bit target: a float is left to the caller
        by_cases hfl : ∃ b, v = .num (.float b)
        · obtain ⟨b, rfl⟩ := hfl
          intro rest pos hs
          simp only [FromValue.fromValue, FromValue.deInt, FromValue.numberInt, hap, Bool.false_eq_true, if_false, FromValue.fail]
          exact int128_float_weak ext hext w h128 b (by simpa [VOK, shapeW, wfNumW] using hv) (hInt w _ hr h128 b rfl) rest pos
        · exact (agree_int ext hext hflt cfg' hap ext' w v hv fun b hb => absurd ⟨b, hb⟩ hfl).weak
      · refine (agree_int ext hext hflt cfg' hap ext' w v hv fun b hb rest pos hs => ?_).weak
        subst hb
        exact SJ.Proofs.TypedFloat.int_float_refused hflt hapE ext hext w h128 b (by simpa [VOK, shapeW, wfNumW] using hv)
          (by simpa [Spec.WF.floatsRT] using hF) rest pos hs
    f64 := fun v hr _ => (SJ.Proofs.TypedFloat.agree_f64 hflt hapE cfg' hap ext' ext hext v hr.2.1 hr.2.2 (hF64 v hr.1)).weak
    u8 := fun xs hr _ x hx => by
      obtain ⟨_, hv, hF⟩ := hr
      refine (agree_int ext hext hflt cfg' hap ext' .u8 x (vok_elem xs x hx hv) fun b hb rest pos hs => ?_).weak
      subst hb
      exact SJ.Proofs.TypedFloat.int_float_refused hflt hapE ext hext .u8 (by decide) b
        (by simpa [VOK, shapeW, wfNumW] using vok_elem xs _ hx hv)
        (by simpa [Spec.WF.floatsRT] using frt_elem _ _ xs _ hx (by simpa [Spec.WF.floatsRT] using hF)) rest pos hs
    any := fun ha f t v hr _ hd => (agree_any ext hext hflt cfg' hap ext' f t v hr.2.1 hd (hAny ha v hr.1) hr.2.2).weak }
  intro f s hs hfr t v hv hF hd hr
  exact agree_core ext hext hflt cfg' ext' _ (hR.and hQ) hL f s hs hfr t v hv.g hd ⟨hr, hv, hF⟩

/-! ## the instance of C16: no struct variant written as an array (`JV.hasArrayPayload` over the schema's struct-variant names) -/

omit hext in
theorem tupR_of_all (R : Schema → JV → Prop) : ∀ (ss : List Schema) (xs : List JV), (∀ s ∈ ss, ∀ x ∈ xs, R s x) → TupR R ss xs
  | [], _, _ => trivial
  | _ :: _, [], _ => trivial
  | s :: ss, x :: xs, h => ⟨h s (by simp) x (by simp), tupR_of_all R ss xs fun s' hs' x' hx' => h s' (by simp [hs']) x' (by simp [hx'])⟩

omit hext in
theorem shapeOK_elem (c : Spec.Canon.Cfg) : ∀ (xs : List JV) (x : JV), x ∈ xs → Spec.WF.shapeOKs c xs = true → Spec.WF.shapeOK c x = true
  | [], _, h, _ => by simp at h
  | y :: r, x, h, hf => by
    simp only [Spec.WF.shapeOKs, Bool.and_eq_true] at hf
    rcases List.mem_cons.mp h with rfl | h
    · exact hf.1
    · exact shapeOK_elem c r x h hf.2

omit hext in
theorem shapeOK_member (c : Spec.Canon.Cfg) : ∀ (kvs : List (Bytes × JV)) (kv : Bytes × JV), kv ∈ kvs →
    Spec.WF.shapeOKm c kvs = true → Spec.WF.shapeOK c kv.2 = true
  | [], _, h, _ => by simp at h
  | (k, y) :: r, kv, h, hf => by
    simp only [Spec.WF.shapeOKm, Bool.and_eq_true] at hf
    rcases List.mem_cons.mp h with rfl | h
    · exact hf.1.2
    · exact shapeOK_member c r kv h hf.2

/-- C16's admissibility: the struct-variant names of the schema are among `names`, the value has no single-key object
    `{name: [...]}` for one of them, it is a value the build can hold (`shapeOK`: a `Value` target needs the keys in
    the map's order), and a float that may meet a 128-bit integer target is written with a fraction or an exponent (stated
    coarsely: the schema has no 128-bit integer target, or every float of the value is `floatPointed`) -/
def RC16 (names : List Bytes) (c : Spec.Canon.Cfg) (s : Schema) (v : JV) : Prop :=
  (∀ n ∈ s.structVariantNames, n ∈ names) ∧ JV.hasArrayPayload names v = false ∧ Spec.WF.shapeOK c v = true ∧
    (has128 s = false ∨ floatsPointed ext v = true)

omit hext in
theorem closed_RC16 (names : List Bytes) (c : Spec.Canon.Cfg) : Closed (RC16 ext names c) where
  option := fun s v h _ => ⟨by simpa [Schema.structVariantNames] using h.1, h.2.1, h.2.2.1, by simpa [has128] using h.2.2.2⟩
  newtype := fun s v h => ⟨by simpa [Schema.structVariantNames] using h.1, h.2.1, h.2.2.1, by simpa [has128] using h.2.2.2⟩
  seq := fun s xs h x hx => ⟨by simpa [Schema.structVariantNames] using h.1,
    hap_elem names xs x hx (by simpa [JV.hasArrayPayload] using h.2.1),
    shapeOK_elem c xs x hx (by simpa [Spec.WF.shapeOK] using h.2.2.1),
    h.2.2.2.imp (by simp [has128]) (fun hn => fpt_elem ext xs x hx (by simpa [floatsPointed] using hn))⟩
  tuple := fun ss xs h => tupR_of_all _ ss xs fun s hs x hx =>
    ⟨fun n hn => h.1 n (by simp only [Schema.structVariantNames]; exact svn_mem_list ss s hs n hn),
     hap_elem names xs x hx (by simpa [JV.hasArrayPayload] using h.2.1),
     shapeOK_elem c xs x hx (by simpa [Spec.WF.shapeOK] using h.2.2.1),
     h.2.2.2.imp (fun h8 => has128_mem ss s hs (by simpa [has128] using h8))
       (fun hn => fpt_elem ext xs x hx (by simpa [floatsPointed] using hn))⟩
  map := fun k s kvs h kv hx => ⟨by simpa [Schema.structVariantNames] using h.1,
    hap_member names kvs kv hx (hap_obj names kvs h.2.1),
    shapeOK_member c kvs kv hx (by have := h.2.2.1; simp only [Spec.WF.shapeOK, Bool.and_eq_true] at this; exact this.2),
    h.2.2.2.imp (by simp [has128]) (fun hn => fpt_member ext kvs kv hx (by simpa [floatsPointed] using hn))⟩
  structArr := fun fs d xs h => tupR_of_all _ _ xs fun s hs x hx =>
    ⟨fun n hn => h.1 n (by simp only [Schema.structVariantNames]; exact svn_mem_fields fs s hs n hn),
     hap_elem names xs x hx (by simpa [JV.hasArrayPayload] using h.2.1),
     shapeOK_elem c xs x hx (by simpa [Spec.WF.shapeOK] using h.2.2.1),
     h.2.2.2.imp (fun h8 => has128_mem_fields fs s hs (by simpa [has128] using h8))
       (fun hn => fpt_elem ext xs x hx (by simpa [floatsPointed] using hn))⟩
  structObj := fun fs d kvs h kv hx i nm s _ hfi =>
    ⟨fun n hn => h.1 n (by
        simp only [Schema.structVariantNames]
        exact svn_mem_fields fs s (List.mem_map.mpr ⟨(nm, s), List.mem_of_getElem? hfi, rfl⟩) n hn),
     hap_member names kvs kv hx (hap_obj names kvs h.2.1),
     shapeOK_member c kvs kv hx (by have := h.2.2.1; simp only [Spec.WF.shapeOK, Bool.and_eq_true] at this; exact this.2),
     h.2.2.2.imp (fun h8 => has128_mem_fields fs s (List.mem_map.mpr ⟨(nm, s), List.mem_of_getElem? hfi, rfl⟩)
         (by simpa [has128] using h8))
       (fun hn => fpt_member ext kvs kv hx (by simpa [floatsPointed] using hn))⟩
  enumPayload := fun vs k x kvs h sh hmem => by
    have hsub : ∀ n ∈ VariantShape.svn k sh, n ∈ names :=
      fun n hn => h.1 n (by simp only [Schema.structVariantNames]; exact svn_mem_variants vs k sh hmem n hn)
    have hx : JV.hasArrayPayload names x = false := hap_member names ((k, x) :: kvs) (k, x) (by simp) (hap_obj names _ h.2.1)
    have hsx : Spec.WF.shapeOK c x = true :=
      shapeOK_member c ((k, x) :: kvs) (k, x) (by simp) (by
        have := h.2.2.1; simp only [Spec.WF.shapeOK, Bool.and_eq_true] at this; exact this.2)
    have h8 : has128Shape sh = false ∨ floatsPointed ext x = true :=
      h.2.2.2.imp (fun h8 => has128_mem_variants vs k sh hmem (by simpa [has128] using h8))
        (fun hn => fpt_member ext ((k, x) :: kvs) (k, x) (by simp) (by simpa [floatsPointed] using hn))
    cases sh with
    | unit => trivial
    | newtype s => exact ⟨by simpa [VariantShape.svn] using hsub, hx, hsx, by simpa [has128Shape] using h8⟩
    | tuple ss => exact ⟨by simpa [VariantShape.svn, Schema.structVariantNames] using hsub, hx, hsx,
        by simpa [has128Shape, has128] using h8⟩
    | struct_ fs =>
      exact ⟨fun n hn => hsub n (by
        simp only [Schema.structVariantNames] at hn
        simp only [VariantShape.svn, List.mem_cons]; exact .inr hn), hx, hsx, by simpa [has128Shape, has128] using h8⟩
  enumExcl := fun vs k x h fs hmem xs hx => by
    subst hx
    have hk : k ∈ names := h.1 k (by
      simp only [Schema.structVariantNames]
      exact svn_mem_variants vs k (.struct_ fs) hmem k (by simp [VariantShape.svn]))
    have := h.2.1
    simp only [JV.hasArrayPayload, Bool.or_eq_false_iff] at this
    have := this.1
    simp at this
    exact this hk

omit hext in
/-- a value the build can hold has integers a `Number` can hold -/
theorem intRangeOK_of_shapeOK (c : Spec.Canon.Cfg) (v : JV) (h : Spec.WF.shapeOK c v = true) : SJ.Proofs.TypedFloat.IntRangeOK v := by
  constructor
  · intro n hn; subst hn
    simp only [Spec.WF.shapeOK, Spec.WF.wfNum, Bool.and_eq_true, decide_eq_true_eq] at h
    exact h.2
  · intro i hi; subst hi
    simp only [Spec.WF.shapeOK, Spec.WF.wfNum, Bool.and_eq_true, decide_eq_true_eq] at h
    exact h.1.2

/-- the text leg for C16's hypotheses -/
theorem agree_all {env : Env} (hflt : env.flt = false) (hapE : env.cfg.ap = false) (cfg' : FromValue.Cfg) (hap : cfg'.ap = false)
    (ext' : FromValue.Ext) (names : List Bytes) :
    ∀ (f : Nat) (s : Schema), Schema.size s ≤ f → fragP a s = true → (∀ n ∈ s.structVariantNames, n ∈ names) →
      ∀ (t : Nat) (v : JV), VOK v → Spec.WF.floatsRT (SJ.Proofs.CanonM.specCfg env.cfg) ext v = true → DepthOK env t v →
      JV.hasArrayPayload names v = false →
      Spec.WF.shapeOK (SJ.Proofs.CanonM.specCfg env.cfg) v = true → (has128 s = false ∨ floatsPointed ext v = true) →
      Agree1w (deTyped env f t s) (FromValue.fromValue cfg' ext' s v) (T ext v) :=
  fun f s hs hfr hsub t v hv hF hd hnap hsh h8 =>
    agree_gen ext hext hflt hapE cfg' hap ext' (RC16 ext names _) (closed_RC16 ext names _) (fun _ v h => h.2.2.1)
      (fun w v h h128 b hb => by
        subst hb
        rcases h.2.2.2 with h8 | hn
        · simp only [has128] at h8; rw [h128] at h8; cases h8
        · simpa [floatsPointed] using hn)
      (fun v h => intRangeOK_of_shapeOK _ v h.2.2.1) f s hs hfr t v hv hF hd ⟨hsub, hnap, hsh, h8⟩

end SJ.Proofs.Typed
