import SJ.Proofs.Complete.Closure
/-!
# Completions of machine states (C11 "earliest": the prefix before the offending byte is viable)

`Viable env s`: some continuation drives the machine from `s` to acceptance. This file builds the
completions mode by mode, without side conditions:

* `closeStack fs` closes every open frame (`]` / `}`);
* a value position is completed with `null`, an open literal with its remaining letters, a key
  position with `"":null}`, `afterKey` with `:null}`, …;
* numbers and strings are handled in `EarliestNum` / `EarliestStr`.
-/
namespace SJ.Proofs.Earliest
open SJ SJ.Gen SJ.Model.Machine SJ.Proofs.Machine SJ.Proofs.Complete

/-- some continuation is accepted from `s` -/
def Viable (env : Env) (s : St) : Prop := ∃ ys s' v, Feeds env s ys s' ∧ finish env s' = .ok v

theorem Viable.of_feeds {env : Env} {s s' : St} {xs : Bytes} (hf : Feeds env s xs s')
    (h : Viable env s') : Viable env s := by
  obtain ⟨ys, s'', v, hf', hfin⟩ := h
  exact ⟨xs ++ ys, s'', v, Feeds.append hf hf', hfin⟩

theorem Viable.run {env : Env} {s : St} (h : Viable env s) (i : Nat) :
    ∃ ys v, run env s i ys = .ok v := by
  obtain ⟨ys, s', v, hf, hfin⟩ := h
  exact ⟨ys, v, (run_ok_iff env s i ys v).mpr ⟨s', hf, hfin⟩⟩

/-- closing brackets for every open frame -/
def closeStack : List Frame → Bytes
  | [] => []
  | .arr _ :: fs => 0x5d :: closeStack fs
  | .obj _ _ :: fs => 0x7d :: closeStack fs

/-- a just-completed value (or a complete number still pending) is closed by `closeStack` -/
theorem viable_pending (env : Env) (fs : List Frame) (v : JV) (s : St)
    (hp : Pending env (complete fs v) s) : Viable env s := by
  induction fs generalizing v s with
  | nil =>
    refine ⟨[], s, v, Feeds.nil _ _, ?_⟩
    rw [hp.finish_eq (settled_complete _ _)]; rfl
  | cons f fs ih =>
    cases f with
    | arr es =>
      have h1 := hp.step_ok (settled_complete _ _) (b := 0x5d) (by decide)
        (step_close_arr env (v :: es) fs)
      exact Viable.of_feeds h1 (ih _ _ (Pending.refl _ _))
    | obj ms k =>
      have h1 := hp.step_ok (settled_complete _ _) (b := 0x7d) (by decide)
        (step_close_obj env ((k, v) :: ms) k fs)
      exact Viable.of_feeds h1 (ih _ _ (Pending.refl _ _))

theorem viable_complete (env : Env) (fs : List Frame) (v : JV) : Viable env (complete fs v) :=
  viable_pending env fs v _ (Pending.refl _ _)

/-! ## modes without sub-state -/

theorem viable_val (env : Env) (ctx : ValCtx) (fs : List Frame) : Viable env ⟨.val ctx, fs⟩ := by
  have h : Feeds env ⟨.val ctx, fs⟩ [0x6e, 0x75, 0x6c, 0x6c] (complete fs .null) := rfl
  exact Viable.of_feeds h (viable_complete env fs _)

theorem feeds_lit (env : Env) (fs : List Frame) (v : JV) (rest : Bytes) (hne : rest ≠ []) :
    Feeds env ⟨.lit rest v, fs⟩ rest (complete fs v) := by
  induction rest with
  | nil => exact absurd rfl hne
  | cons e es ih =>
    cases es with
    | nil => apply Feeds.one; simp [step, step1]
    | cons e' es' =>
      refine Feeds.cons (s' := ⟨.lit (e' :: es') v, fs⟩) ?_ (ih (by simp))
      simp [step, step1]

theorem viable_lit (env : Env) (fs : List Frame) (v : JV) (rest : Bytes) (hne : rest ≠ []) :
    Viable env ⟨.lit rest v, fs⟩ :=
  Viable.of_feeds (feeds_lit env fs v rest hne) (viable_complete env fs v)

theorem viable_afterElem (env : Env) (es : List JV) (fs : List Frame) :
    Viable env ⟨.afterElem, .arr es :: fs⟩ :=
  Viable.of_feeds (Feeds.one (step_close_arr env es fs)) (viable_complete env fs _)

theorem viable_afterMember (env : Env) (ms : List (Bytes × JV)) (k : Bytes) (fs : List Frame) :
    Viable env ⟨.afterMember, .obj ms k :: fs⟩ :=
  Viable.of_feeds (Feeds.one (step_close_obj env ms k fs)) (viable_complete env fs _)

theorem viable_objFirst (env : Env) (ms : List (Bytes × JV)) (k : Bytes) (fs : List Frame) :
    Viable env ⟨.objFirst, .obj ms k :: fs⟩ :=
  Viable.of_feeds (Feeds.one (step_close_obj_first env ms k fs)) (viable_complete env fs _)

/-- after a key: `:null}` -/
theorem viable_afterKey (env : Env) (ms : List (Bytes × JV)) (k : Bytes) (fs : List Frame) :
    Viable env ⟨.afterKey, .obj ms k :: fs⟩ := by
  have h : Feeds env ⟨.afterKey, .obj ms k :: fs⟩ [0x3a, 0x6e, 0x75, 0x6c, 0x6c]
      ⟨.afterMember, .obj ((k, .null) :: ms) k :: fs⟩ := rfl
  exact Viable.of_feeds h (viable_afterMember env _ _ _)

/-- where a key is required (after `,`): `"":null}` -/
theorem viable_objNextKey (env : Env) (ms : List (Bytes × JV)) (k : Bytes) (fs : List Frame) :
    Viable env ⟨.objNextKey, .obj ms k :: fs⟩ := by
  have h1 := step_quote_key_next env (.obj ms k :: fs)
  have h2 := step_quote_close_key env ms k fs [] false (by intros; rfl)
  exact Viable.of_feeds (Feeds.cons h1 (Feeds.one h2)) (viable_afterKey env _ _ _)

theorem viable_done (env : Env) (v : JV) : Viable env ⟨.done v, []⟩ :=
  ⟨[], _, v, Feeds.nil _ _, rfl⟩

end SJ.Proofs.Earliest
