import SJ.Proofs.Write
import SJ.Model.IoFault
/-!
# C13 (writer): a writer with a byte budget realises `Model.IoFault.writeFault`

`runBufs_budget`: the writer that accepts `m` bytes in all and then fails with `e` (`Writer.budget`) ends holding
the first `m` bytes of the concatenated buffers, and the run fails — with `e` — iff `m` is less than their length.
-/
namespace SJ.Proofs.WriteBudget
open SJ SJ.Model.Write

theorem acceptedLen_append : ∀ (a b : List Call), acceptedLen (a ++ b) = acceptedLen a + acceptedLen b
  | [], b => by simp [acceptedLen]
  | c :: a, b => by simp only [List.cons_append, acceptedLen, acceptedLen_append a b]; omega

/-- the state of a budget writer: `A` bytes of the budget are used -/
structure Inv (m : Nat) (e : IoError) (w : Writer) (A : Nat) : Prop where
  pol : w.policy = budgetPolicy m e
  len : acceptedLen w.log = A
  le : A ≤ m

theorem writeLoop_budget (m : Nat) (e : IoError) (he : e.isInterrupted = false) (fuel : Nat) (w : Writer) (A : Nat)
    (hw : Inv m e w A) (buf : Bytes) :
    (writeLoop (fuel + 2) w buf).1.accepted = w.accepted ++ buf.take (m - A) ∧
    (if A + buf.length ≤ m then
      (writeLoop (fuel + 2) w buf).2 = .ok ∧ Inv m e (writeLoop (fuel + 2) w buf).1 (A + buf.length)
     else (writeLoop (fuel + 2) w buf).2 = .err e) := by
  cases buf with
  | nil => unfold writeLoop; simp [hw, hw.le]
  | cons x xs =>
    unfold writeLoop
    simp only [List.isEmpty_cons, Bool.false_eq_true, ↓reduceIte, Writer.write, hw.pol, budgetPolicy, hw.len]
    by_cases hA : A < m
    · simp only [hA, ↓reduceIte]
      obtain ⟨k, hk⟩ : ∃ k, min (x :: xs).length (m - A) = k + 1 :=
        ⟨min (x :: xs).length (m - A) - 1, by simp only [List.length_cons]; omega⟩
      have hkle : k + 1 ≤ (x :: xs).length := by rw [← hk]; exact Nat.min_le_left _ _
      rw [hk]; simp only [hkle, ↓reduceIte]; rw [← hk]
      by_cases hfit : A + (x :: xs).length ≤ m
      · have hmin : min (x :: xs).length (m - A) = (x :: xs).length := by omega
        simp only [hmin, List.drop_length, List.take_length, hfit, ↓reduceIte]
        unfold writeLoop
        simp only [List.isEmpty_nil, ↓reduceIte, true_and]
        refine ⟨?_, ⟨rfl, ?_, hfit⟩⟩
        · rw [List.take_of_length_le (by omega)]
        · simp only [acceptedLen_append, hw.len, acceptedLen, Nat.min_self, Nat.add_zero]
      · have hmin : min (x :: xs).length (m - A) = m - A := by omega
        simp only [hmin, hfit, ↓reduceIte]
        have hne : (x :: xs).drop (m - A) ≠ [] := by
          intro h; have := congrArg List.length h; simp only [List.length_drop, List.length_nil] at this; omega
        obtain ⟨y, ys, hy⟩ := List.exists_cons_of_ne_nil hne
        rw [hy]
        unfold writeLoop
        have hlen : ¬ (acceptedLen (w.log ++ [{ buf := x :: xs, res := WRes.ok (m - A) }]) < m) := by
          simp only [acceptedLen_append, hw.len, acceptedLen, Nat.add_zero]; omega
        simp only [List.isEmpty_cons, Bool.false_eq_true, ↓reduceIte, Writer.write, budgetPolicy, hlen, he,
          List.append_nil, and_self]
    · have h0 : m - A = 0 := by omega
      have hfit : ¬ (A + (x :: xs).length ≤ m) := by simp only [List.length_cons]; omega
      simp only [hA, ↓reduceIte, he, Bool.false_eq_true, h0, List.take_zero, List.append_nil, hfit, and_self]

/-- `Writer.writeAll` does not look at `handed` -/
theorem writeAll_budget (m : Nat) (e : IoError) (he : e.isInterrupted = false) (fuel : Nat) (w : Writer) (A : Nat)
    (hw : Inv m e w A) (buf : Bytes) :
    (w.writeAll (fuel + 2) buf).1.accepted = w.accepted ++ buf.take (m - A) ∧
    (if A + buf.length ≤ m then
      (w.writeAll (fuel + 2) buf).2 = .ok ∧ Inv m e (w.writeAll (fuel + 2) buf).1 (A + buf.length)
     else (w.writeAll (fuel + 2) buf).2 = .err e) :=
  writeLoop_budget m e he fuel { w with handed := w.handed ++ [buf] } A ⟨hw.pol, hw.len, hw.le⟩ buf

theorem runBufs_budget (m : Nat) (e : IoError) (he : e.isInterrupted = false) (fuel : Nat) :
    ∀ (bufs : List Bytes) (w : Writer) (A : Nat), Inv m e w A →
    (w.runBufs (fuel + 2) bufs).1.accepted = w.accepted ++ bufs.flatten.take (m - A) ∧
    (w.runBufs (fuel + 2) bufs).2 = (if A + bufs.flatten.length ≤ m then .ok else .err e)
  | [], w, A, hw => by simp [Writer.runBufs, hw.le]
  | b :: bs, w, A, hw => by
    obtain ⟨h1, h2⟩ := writeAll_budget m e he fuel w A hw b
    simp only [Writer.runBufs]
    generalize hwr : w.writeAll (fuel + 2) b = wr at h1 h2
    obtain ⟨w1, o⟩ := wr
    simp only at h1 h2
    by_cases hfit : A + b.length ≤ m
    · simp only [hfit, ↓reduceIte] at h2
      obtain ⟨ho, hinv⟩ := h2
      subst ho
      simp only
      obtain ⟨h3, h4⟩ := runBufs_budget m e he fuel bs w1 (A + b.length) hinv
      refine ⟨?_, ?_⟩
      · rw [h3, h1, List.flatten_cons, List.take_append, List.append_assoc]
        have : m - A - b.length = m - (A + b.length) := by omega
        rw [List.take_of_length_le (by omega : b.length ≤ m - A), this]
      · rw [h4]; simp only [List.flatten_cons, List.length_append, Nat.add_assoc]
    · simp only [hfit, ↓reduceIte] at h2
      subst h2
      simp only
      refine ⟨?_, ?_⟩
      · rw [h1, List.flatten_cons, List.take_append]
        have : m - A - b.length = 0 := by omega
        rw [this, List.take_zero, List.append_nil]
      · have : ¬ (A + (b :: bs).flatten.length ≤ m) := by
          simp only [List.flatten_cons, List.length_append]; omega
        simp only [this, ↓reduceIte]

end SJ.Proofs.WriteBudget
