import SJ.Proofs.TypedFuel
import SJ.Proofs.Machine
/-!
# Depth accounting of the typed model (C14, typed clause)

`t` — the number of typed containers open — is an argument of `deTyped`; it grows by one exactly where
`de.rs` runs `check_recursion!` (`deserialize_seq` / `deserialize_tuple` / `deserialize_bytes` on `[`,
`deserialize_map` on `{`, `deserialize_struct` on `[` and `{`, `deserialize_enum` on `{`, `deserialize_any`
on `[` and `{`) and nowhere else (`Option`, newtype structs, the payload of a newtype variant and the `"V"`
form of a unit variant pass it on unchanged). Sibling elements are read at the same `t`: the budget is
restored after every value by construction.

* `deTypedCap`: `deTyped` with one line added — a call with `Gen.remainingDepthInit` (128) or more
  containers open answers `poison` without looking at anything. `deTypedCap_eq`: with the limit enabled it
  is the same function at every depth ≤ 127, whatever `poison` is: no call at depth ≥ 128 is ever made.
* `typed_limit_hit`: at depth ≥ 127 every entry point that runs `check_recursion!` answers
  `RecursionLimitExceeded` at its opening byte.
* `seqTower_hit`: towers of arrays, for every height.
-/
namespace SJ.Proofs.Typed
open SJ SJ.Gen SJ.Model SJ.Model.Typed
open SJ.Model.Machine (St Mode Frame Step step1 errIdx endNumber finishMode init)
open SJ.Model.Stream (skipWs)

/-- the typed model with every call at depth ≥ 128 cut off -/
def deTypedCap (env : Env) (poison : TOut) : Nat → Nat → Schema → Bytes → Nat → TOut
  | 0, _, _, _, _ => .fuel
  | f + 1, t, s, rest, pos =>
    if Gen.remainingDepthInit ≤ t then poison else
    match s with
    | .bool => deBool env rest pos
    | .int w => deInt env w rest pos
    | .f64 => deNumber env .f64 rest pos
    | .f32 => deNumber env .f32 rest pos
    | .char => deStr env FromValue.visitCharStr rest pos
    | .string => deStr env (fun x => .ok (.str x)) rest pos
    | .bytes => deBytes env t rest pos
    | .option s' =>
      (match skipWs rest pos with
       | ([], p) => if env.flt then .io else (deTypedCap env poison f t s' [] p).map .some
       | (b :: r, p) =>
         if b == 0x6e then (parseIdent env Gen.identNull r (p + 1)).bind fun _ r' p' => .ok .none r' p'
         else (deTypedCap env poison f t s' (b :: r) p).map .some)
    | .unit => deUnit env rest pos
    | .unitStruct => deUnit env rest pos
    | .newtype s' => deTypedCap env poison f t s' rest pos
    | .seq s' =>
      deSeq env t (fun r p => (seqLoop env (deTypedCap env poison f (t + 1) s') (r.length + 1) true [] r p).map .seq) rest pos
    | .tuple ss =>
      deSeq env t (fun r p => (tupleLoop env (deTypedCap env poison f (t + 1)) ss true [] r p).map .seq) rest pos
    | .map k s' =>
      deMap env t (fun r p => (mapLoop env k (deTypedCap env poison f (t + 1) s') (r.length + 1) true [] r p).map .map) rest pos
    | .struct_ fs deny => deStruct env t (deTypedCap env poison f) fs deny rest pos
    | .enum_ vs => deEnum env t (deTypedCap env poison f) vs rest pos
    | .ignored => (ignoreValue env rest pos).map fun _ => .ignored
    | .any =>
      (machine (valEnv env) env.flt t { mode := .val .top, stack := padStack t } rest pos).map .any

theorem depth128 : Gen.remainingDepthInit = 128 := rfl

theorem not_tooDeep {env : Env} (hl : env.cfg.limitOff = false) {t : Nat} (h : tooDeep env t = false) : t + 1 < 128 := by
  unfold tooDeep at h
  simp [hl, depth128] at h
  omega

theorem tooDeep_of {env : Env} (hl : env.cfg.limitOff = false) {t : Nat} (h : 127 ≤ t) : tooDeep env t = true := by
  unfold tooDeep
  simp [hl, depth128]
  omega

/-! ## the sub-deserializer is consulted only after `check_recursion!` has passed -/

theorem deSeq_congr_depth (env : Env) (t : Nat) (v v' : Bytes → Nat → TOut) (h : tooDeep env t = false → ∀ r p, v r p = v' r p)
    (rest : Bytes) (pos : Nat) : deSeq env t v rest pos = deSeq env t v' rest pos := by
  unfold deSeq
  congr 1
  funext b r p
  cases htd : tooDeep env t
  · rw [h htd]
  · rfl

theorem deMap_congr_depth (env : Env) (t : Nat) (v v' : Bytes → Nat → TOut) (h : tooDeep env t = false → ∀ r p, v r p = v' r p)
    (rest : Bytes) (pos : Nat) : deMap env t v rest pos = deMap env t v' rest pos := by
  unfold deMap
  congr 1
  funext b r p
  cases htd : tooDeep env t
  · rw [h htd]
  · rfl

theorem deStruct_congr_depth (env : Env) (t : Nat) (de de' : Nat → Schema → Bytes → Nat → TOut) (fs : List (Bytes × Schema))
    (h : tooDeep env t = false → ∀ f ∈ fs, de (t + 1) f.2 = de' (t + 1) f.2) (deny : Bool) (rest : Bytes) (pos : Nat) :
    deStruct env t de fs deny rest pos = deStruct env t de' fs deny rest pos := by
  unfold deStruct
  congr 1
  funext b r p
  cases htd : tooDeep env t
  · have h1 : ∀ first acc r p, tupleLoop env (de (t + 1)) (fs.map (·.2)) first acc r p =
        tupleLoop env (de' (t + 1)) (fs.map (·.2)) first acc r p := fun first acc r p =>
      tupleLoop_congr env _ _ _ (fun s hs => by obtain ⟨f, hf, rfl⟩ := List.mem_map.mp hs; exact h htd f hf) _ _ _ _
    have h2 : ∀ r p, structVisitMap env (de (t + 1)) fs deny r p = structVisitMap env (de' (t + 1)) fs deny r p := by
      intro r p
      unfold structVisitMap
      have : ∀ n first slots r p, structLoop env (de (t + 1)) fs deny n first slots r p =
          structLoop env (de' (t + 1)) fs deny n first slots r p := fun n first slots r p =>
        structLoop_congr env _ _ fs (fun f hf => h htd f hf) deny n first slots r p
      simp only [this]
    simp only [h1, h2]
  · rfl

theorem dePayload_congr_depth (env : Env) (t : Nat) (de de' : Nat → Schema → Bytes → Nat → TOut) (sh : VariantShape)
    (h0 : ∀ s ∈ shapeSchemas sh, de t s = de' t s)
    (h1 : tooDeep env t = false → ∀ s ∈ shapeSchemas sh, de (t + 1) s = de' (t + 1) s) (rest : Bytes) (pos : Nat) :
    dePayload env t de sh rest pos = dePayload env t de' sh rest pos := by
  unfold dePayload
  split
  · rfl
  · rw [h0 _ (by simp [shapeSchemas])]
  · rename_i ss
    refine deSeq_congr_depth env t _ _ (fun htd r p => ?_) rest pos
    rw [tupleLoop_congr env _ _ ss (fun s hs => h1 htd s (by simpa [shapeSchemas] using hs))]
  · rename_i fs
    exact deStruct_congr_depth env t de de' fs
      (fun htd f hf => h1 htd f.2 (by simp only [shapeSchemas, List.mem_map]; exact ⟨f, hf, rfl⟩)) false rest pos

theorem deEnum_congr_depth (env : Env) (t : Nat) (de de' : Nat → Schema → Bytes → Nat → TOut) (vs : List (Bytes × VariantShape))
    (h0 : tooDeep env t = false → ∀ v ∈ vs, ∀ s ∈ shapeSchemas v.2, de (t + 1) s = de' (t + 1) s)
    (h1 : tooDeep env t = false → tooDeep env (t + 1) = false → ∀ v ∈ vs, ∀ s ∈ shapeSchemas v.2, de (t + 2) s = de' (t + 2) s)
    (rest : Bytes) (pos : Nat) : deEnum env t de vs rest pos = deEnum env t de' vs rest pos := by
  unfold deEnum
  congr 1
  funext b r p
  cases htd : tooDeep env t
  · split
    · simp only [Bool.false_eq_true, if_false]
      congr 1
      funext iv r1 p1
      congr 1
      funext _ r2 p2
      split
      · rfl
      · rename_i nm sh hs
        rw [dePayload_congr_depth env (t + 1) de de' sh (h0 htd _ (mem_of_getElem? hs))
          (fun htd' => h1 htd htd' _ (mem_of_getElem? hs))]
    · rfl
  · rfl

/-- **no call at depth ≥ 128**: with the limit enabled, cutting off every call with 128 or more containers open
    changes nothing at any depth ≤ 127 — for every `poison`, fuel, schema, input and position -/
theorem deTypedCap_eq (env : Env) (hl : env.cfg.limitOff = false) (poison : TOut) :
    ∀ (f t : Nat) (s : Schema), t ≤ 127 → deTypedCap env poison f t s = deTyped env f t s := by
  intro f
  induction f with
  | zero => intro t s _; funext rest pos; simp only [deTypedCap, deTyped]
  | succ f ih =>
    intro t s ht
    have hnt : ¬ Gen.remainingDepthInit ≤ t := by rw [depth128]; omega
    have ih1 : tooDeep env t = false → ∀ s', deTypedCap env poison f (t + 1) s' = deTyped env f (t + 1) s' := fun htd s' =>
      ih (t + 1) s' (by have := not_tooDeep hl htd; omega)
    have ih2 : tooDeep env t = false → tooDeep env (t + 1) = false →
        ∀ s', deTypedCap env poison f (t + 2) s' = deTyped env f (t + 2) s' := fun _ htd' s' =>
      ih (t + 2) s' (by have := not_tooDeep hl htd'; omega)
    funext rest pos
    cases s with
    | bool => simp only [deTypedCap, if_neg hnt, deTyped]
    | int w => simp only [deTypedCap, if_neg hnt, deTyped]
    | f64 => simp only [deTypedCap, if_neg hnt, deTyped]
    | f32 => simp only [deTypedCap, if_neg hnt, deTyped]
    | char => simp only [deTypedCap, if_neg hnt, deTyped]
    | string => simp only [deTypedCap, if_neg hnt, deTyped]
    | bytes => simp only [deTypedCap, if_neg hnt, deTyped]
    | unit => simp only [deTypedCap, if_neg hnt, deTyped]
    | unitStruct => simp only [deTypedCap, if_neg hnt, deTyped]
    | ignored => simp only [deTypedCap, if_neg hnt, deTyped]
    | any => simp only [deTypedCap, if_neg hnt, deTyped]
    | option s' => simp only [deTypedCap, if_neg hnt, deTyped, ih t s' ht]; rfl
    | newtype s' => simp only [deTypedCap, if_neg hnt, deTyped, ih t s' ht]
    | seq s' =>
      simp only [deTypedCap, if_neg hnt, deTyped_seq]
      exact deSeq_congr_depth env t _ _ (fun htd r p => by rw [ih1 htd]) rest pos
    | tuple ss =>
      simp only [deTypedCap, if_neg hnt, deTyped_tuple]
      exact deSeq_congr_depth env t _ _ (fun htd r p => by
        rw [tupleLoop_congr env _ _ ss (fun s' _ => ih1 htd s')]) rest pos
    | map k s' =>
      simp only [deTypedCap, if_neg hnt, deTyped_map]
      exact deMap_congr_depth env t _ _ (fun htd r p => by rw [ih1 htd]) rest pos
    | struct_ fs deny =>
      simp only [deTypedCap, if_neg hnt, deTyped_struct]
      exact deStruct_congr_depth env t _ _ fs (fun htd fl _ => ih1 htd fl.2) deny rest pos
    | enum_ vs =>
      simp only [deTypedCap, if_neg hnt, deTyped_enum]
      exact deEnum_congr_depth env t _ _ vs (fun htd _ _ s' _ => ih1 htd s') (fun htd htd' _ _ s' _ => ih2 htd htd' s') rest pos

/-! ## the 128th container -/

theorem withPeek_of_skip {α : Type} {env : Env} {c : Code} {rest : Bytes} {pos : Nat} {k : UInt8 → Bytes → Nat → Res α}
    {b : UInt8} {r : Bytes} {p : Nat} (h : skipWs rest pos = (b :: r, p)) : withPeek env c rest pos k = k b r p := by
  unfold withPeek; rw [h]

/-- the machine's own whitespace loop in front of a value -/
theorem runPfx_skipWs (menv : Machine.Env) (flt : Bool) (t : Nat) (s : St) (ctx : Machine.ValCtx) (hm : s.mode = .val ctx)
    (rest : Bytes) : ∀ pos, runPfx menv flt t s pos rest = runPfx menv flt t s (skipWs rest pos).2 (skipWs rest pos).1 := by
  have hc : completed t s = none := by unfold completed; rw [hm]
  induction rest with
  | nil => intro pos; rfl
  | cons b r ih =>
    intro pos
    by_cases hw : Machine.isWs b = true
    · have hs : step1 menv s b = .next s := by unfold step1; rw [hm]; simp [hw]
      rw [show skipWs (b :: r) pos = skipWs r (pos + 1) by simp [skipWs, hw]]
      rw [← ih (pos + 1)]
      simp only [runPfx, hs, hc]
    · rw [show skipWs (b :: r) pos = (b :: r, pos) by simp [skipWs, hw]]

/-- which byte makes the entry point of a schema run `check_recursion!` -/
def opener (s : Schema) (b : UInt8) : Bool :=
  match s with
  | .seq _ | .tuple _ | .bytes => b == 0x5b
  | .map _ _ | .enum_ _ => b == 0x7b
  | .struct_ _ _ | .any => b == 0x5b || b == 0x7b
  | _ => false

theorem machine_limit_hit (env : Env) (hl : env.cfg.limitOff = false) (t : Nat) (ht : 127 ≤ t) (rest : Bytes) (pos : Nat)
    (b : UInt8) (r : Bytes) (p : Nat) (hs : skipWs rest pos = (b :: r, p)) (hb : (b == 0x5b || b == 0x7b) = true) :
    machine (valEnv env) env.flt t { mode := .val .top, stack := padStack t } rest pos = .err .RecursionLimitExceeded (p + 1) := by
  have hstep : step1 (valEnv env) { mode := .val .top, stack := padStack t } b = .err .RecursionLimitExceeded .incl := by
    have hlen : 128 ≤ (padStack t).length + 1 := by simp [padStack]; omega
    simp only [Bool.or_eq_true, beq_iff_eq] at hb
    rcases hb with rfl | rfl <;>
      simp [step1, Machine.isWs, Gen.wsBytes, Machine.startValue, Machine.isDigit, Machine.depthExceeded, valEnv, hl, depth128, hlen]
  unfold machine
  rw [runPfx_skipWs _ _ _ _ .top rfl, hs]
  simp only [runPfx, hstep]
  show Res.err _ (errIdx ⟨env.cfg, env.src, .value⟩ .incl p) = _
  generalize env.src = sr
  cases sr <;> rfl

/-- **the 128th container is refused at its opening byte**: with the limit enabled and 127 (or more) containers open,
    every entry point that runs `check_recursion!` answers `RecursionLimitExceeded` positioned by `peek_error` at the
    `[` / `{` it has peeked, for every schema that can open a container there and whatever follows -/
theorem typed_limit_hit (env : Env) (hl : env.cfg.limitOff = false) (f t : Nat) (ht : 127 ≤ t) (s : Schema) (rest : Bytes) (pos : Nat)
    (b : UInt8) (r : Bytes) (p : Nat) (hs : skipWs rest pos = (b :: r, p)) (ho : opener s b = true) :
    deTyped env (f + 1) t s rest pos = .err .RecursionLimitExceeded (p + 1) := by
  have htd := tooDeep_of hl ht
  cases s with
  | seq s' =>
    simp only [opener] at ho
    rw [deTyped_seq]; unfold deSeq; rw [withPeek_of_skip hs]; simp [ho, htd]
  | tuple ss =>
    simp only [opener] at ho
    rw [deTyped_tuple]; unfold deSeq; rw [withPeek_of_skip hs]; simp [ho, htd]
  | bytes =>
    simp only [opener] at ho
    have hb : b = 0x5b := by simpa using ho
    subst hb
    rw [deTyped_bytes]; unfold deBytes; rw [withPeek_of_skip hs]
    have hs' : skipWs (0x5b :: r) p = (0x5b :: r, p) := by simp [skipWs, Machine.isWs, Gen.wsBytes]
    simp only [show ((0x5b : UInt8) == 0x22) = false by decide, Bool.false_eq_true, if_false, beq_self_eq_true, if_true]
    unfold deSeq; rw [withPeek_of_skip hs']; simp [htd]
  | map k s' =>
    simp only [opener] at ho
    rw [deTyped_map]; unfold deMap; rw [withPeek_of_skip hs]; simp [ho, htd]
  | enum_ vs =>
    simp only [opener] at ho
    rw [deTyped_enum]; unfold deEnum; rw [withPeek_of_skip hs]; simp [ho, htd]
  | struct_ fs deny =>
    simp only [opener, Bool.or_eq_true, beq_iff_eq] at ho
    rw [deTyped_struct]; unfold deStruct; rw [withPeek_of_skip hs]
    rcases ho with rfl | rfl <;> simp [htd]
  | any =>
    simp only [opener] at ho
    rw [deTyped_any]
    simp only [machine_limit_hit env hl t ht rest pos b r p hs ho, Res.map, Res.bind]
  | _ => simp [opener] at ho

/-! ## towers of arrays -/

/-- `Vec<Vec<…<leaf>>>`, `n` levels -/
def seqTower : Nat → Schema → Schema
  | 0, s => s
  | n + 1, s => .seq (seqTower n s)

theorem skipWs_open (r : Bytes) (p : Nat) : skipWs (0x5b :: r) p = (0x5b :: r, p) := by
  simp [skipWs, Machine.isWs, Gen.wsBytes]

/-- `k` opening brackets against a tower of at least `k` levels, started with `t ≤ 127` containers open and
    `t + k ≥ 128`: the bracket that would open container number 128 is refused, `128 − t` bytes further on -/
theorem seqTower_hit (env : Env) (hl : env.cfg.limitOff = false) (leaf : Schema) (tail : Bytes) :
    ∀ (k t pos f : Nat), t ≤ 127 → 128 ≤ t + k → k < f →
      deTyped env f t (seqTower k leaf) (List.replicate k 0x5b ++ tail) pos = .err .RecursionLimitExceeded (pos + (128 - t)) := by
  intro k
  induction k with
  | zero => intro t pos f ht hk _; omega
  | succ k ih =>
    intro t pos f ht hk hf
    obtain ⟨f', rfl⟩ : ∃ f', f = f' + 1 := ⟨f - 1, by omega⟩
    by_cases h127 : t = 127
    · subst h127
      have := typed_limit_hit env hl f' 127 (Nat.le_refl _) (seqTower (k + 1) leaf) (List.replicate (k + 1) 0x5b ++ tail) pos
        0x5b (List.replicate k 0x5b ++ tail) pos (by rw [List.replicate_succ, List.cons_append]; exact skipWs_open _ _) rfl
      rw [this]
    · have htd : tooDeep env t = false := by
        unfold tooDeep; simp [hl, depth128]; omega
      obtain ⟨k', rfl⟩ : ∃ k', k = k' + 1 := ⟨k - 1, by omega⟩
      have hin := ih (t + 1) (pos + 1) f' (by omega) (by omega) (by omega)
      rw [show seqTower (k' + 1 + 1) leaf = .seq (seqTower (k' + 1) leaf) from rfl, deTyped_seq]
      unfold deSeq
      rw [List.replicate_succ, List.cons_append, withPeek_of_skip (skipWs_open _ _)]
      simp only [beq_self_eq_true, if_true, htd, Bool.false_eq_true, if_false]
      have hvis : (seqLoop env (deTyped env f' (t + 1) (seqTower (k' + 1) leaf))
          ((List.replicate (k' + 1) 0x5b ++ tail).length + 1) true [] (List.replicate (k' + 1) 0x5b ++ tail) (pos + 1)).map TVal.seq =
          .err .RecursionLimitExceeded (pos + (128 - t)) := by
        simp only [seqLoop, nextElement, hasNextElement]
        rw [List.replicate_succ, List.cons_append, withPeek_of_skip (skipWs_open _ _)]
        have hne : ((0x5b : UInt8) == 0x5d) = false := by decide
        simp only [hne, Bool.false_eq_true, if_false, if_true, Res.bind]
        rw [← List.cons_append, ← List.replicate_succ, hin]
        simp only [Res.map, Res.bind]
        congr 1
        omega
      rw [hvis]
      rfl

end SJ.Proofs.Typed
