import SJ.Proofs.Utf8Text
import SJ.Proofs.Machine
/-!
# On valid UTF-8 input the `&str` source and the slice source run in lock-step

The two sources differ in one place only: `endStr` checks the decoded string with `validUtf8` unless
the source is `&str` (whose input is valid UTF-8 by type). `UInv s r` — "`r` is the unread input" —
says that what has been decoded so far, followed by what is still to be read, is valid UTF-8:

* outside strings the unread input is valid UTF-8 (every byte consumed there is ASCII);
* inside a string, outside an escape: `out ++ r` is valid UTF-8 (raw bytes are copied, so a
  multi-byte character may be half in `out`, half in `r`);
* inside an escape (which starts at the ASCII byte `\`): `out` and `r` are each valid UTF-8 — for the
  four hex digits, which are accumulated unchecked, `acc ++ r` is.

Every successful step preserves it (`step1_uinv`), and under it the closing quote finds
`validUtf8 out` (`step1_src_eq`), so the check never fires: `run_str_slice`.
-/
namespace SJ.Proofs.Utf8
open SJ SJ.Gen SJ.Spec.Utf8 SJ.Spec.Grammar SJ.Spec.Denote SJ.Model.Machine SJ.Proofs.Machine

def leadOK : Option Nat → Prop
  | none => True
  | some n1 => n1 ≤ 0xDBFF

def UInv (s : St) (r : Bytes) : Prop :=
  match s.mode with
  | .str st =>
    match st.esc with
    | .none => validUtf8 (st.out.reverse ++ r) = true
    | .bs => validUtf8 st.out.reverse = true ∧ validUtf8 r = true
    | .hex acc lead => validUtf8 st.out.reverse = true ∧ validUtf8 (acc ++ r) = true ∧ leadOK lead
    | .lead1 n1 => validUtf8 st.out.reverse = true ∧ validUtf8 r = true ∧ n1 ≤ 0xDBFF
    | .lead2 n1 => validUtf8 st.out.reverse = true ∧ validUtf8 r = true ∧ n1 ≤ 0xDBFF
  | .lit e _ => (∀ x ∈ e, x < 0x80) ∧ validUtf8 r = true
  | _ => validUtf8 r = true

/-- what a step result must satisfy: `r` is the input after the current byte `b` -/
def StepU (b : UInt8) (r : Bytes) : Step → Prop
  | .next s' => UInv s' r
  | .again s' => UInv s' (b :: r)
  | .err _ _ => True

theorem uinv_complete (stack : List Frame) (v : JV) (r : Bytes) (h : validUtf8 r = true) :
    UInv (complete stack v) r := by
  unfold complete; split <;> exact h

/-! ## strings -/

theorem endStr_uinv (env : Env) (s : St) (st : StrSt) (b : UInt8) (r : Bytes) (h : validUtf8 r = true) :
    StepU b r (endStr env s st) := by
  unfold endStr; simp only
  repeat' split
  all_goals first
    | trivial
    | exact uinv_complete _ _ _ h
    | exact h

theorem hex4_ascii (l : List UInt8) (n : Nat) (h : hex4 l = some n) : (∀ x ∈ l, x < 0x80) ∧ n < 0x10000 := by
  obtain ⟨a, b, c, d, rfl, ha, hb, hc, hd, rfl⟩ := Sound.hex4_some l n h
  refine ⟨?_, uniVal_lt ha hb hc hd⟩
  intro x hx
  simp only [List.mem_cons, List.not_mem_nil, or_false] at hx
  rcases hx with rfl | rfl | rfl | rfl
  · exact (isHex_facts ha).1
  · exact (isHex_facts hb).1
  · exact (isHex_facts hc).1
  · exact (isHex_facts hd).1

/-- pushing the encoding of a scalar value onto `out` -/
theorem valid_pushCp (out r : Bytes) (cp : Nat) (ho : validUtf8 out.reverse = true) (hr : validUtf8 r = true)
    (hcp : cp ≤ 0x10FFFF ∧ ¬ (0xD800 ≤ cp ∧ cp ≤ 0xDFFF)) :
    validUtf8 (((utf8 cp).reverse ++ out).reverse ++ r) = true := by
  rw [List.reverse_append, List.reverse_reverse, List.append_assoc]
  exact validUtf8_append ho (validUtf8_append (validUtf8_utf8 cp hcp) hr)

theorem stepStr_uinv (env : Env) (s : St) (st : StrSt) (b : UInt8) (r : Bytes)
    (hm : s.mode = .str st) (h : UInv s (b :: r)) : StepU b r (stepStr env s st b) := by
  unfold UInv at h
  rw [hm] at h
  unfold stepStr
  obtain ⟨out, esc, isKey, escaped⟩ := st
  cases esc with
  | none =>
    simp only at h ⊢
    split
    · rename_i hb
      simp only [beq_iff_eq] at hb; subst hb
      exact endStr_uinv env s _ _ r (validUtf8_ascii_split (a := out.reverse) quote_ascii (by simpa using h)).2
    split
    · rename_i hb
      simp only [beq_iff_eq] at hb; subst hb
      have := validUtf8_ascii_split (a := out.reverse) bs_ascii (by simpa using h)
      simpa [StepU, UInv] using this
    split
    · trivial
    · simpa [StepU, UInv] using h
  | bs =>
    simp only at h ⊢
    split
    · rename_i hb
      simp only [beq_iff_eq] at hb; subst hb
      rw [validUtf8_cons_ascii u_ascii] at h
      simpa [StepU, UInv, leadOK] using h
    split
    · rename_i hb
      obtain ⟨h1, h2⟩ := isSimpleEscape_ascii hb
      rw [validUtf8_cons_ascii h1] at h
      simp only [StepU, UInv, List.reverse_cons, List.append_assoc, List.singleton_append]
      exact validUtf8_ascii_join h2 h.1 h.2
    · trivial
  | hex acc lead =>
    simp only at h ⊢
    obtain ⟨ho, ha, hl⟩ := h
    split
    · simp only [StepU, UInv, List.append_assoc, List.singleton_append]
      exact ⟨ho, ha, hl⟩
    split
    · trivial
    · rename_i n hn
      obtain ⟨hasc, hlt⟩ := hex4_ascii _ n hn
      have hr : validUtf8 r = true := by
        rw [← List.singleton_append, ← List.append_assoc, validUtf8_ascii_prefix_eq _ _ hasc] at ha
        exact ha
      split
      · simp only [StepU, UInv]
        exact validUtf8_append ho hr
      · cases lead with
        | none =>
          simp only
          split
          · trivial
          split
          · rename_i h2
            simp only [Bool.and_eq_true, decide_eq_true_eq] at h2
            simp only [StepU, UInv]
            exact ⟨ho, hr, h2.2⟩
          · rename_i h1 h2
            simp only [Bool.and_eq_true, decide_eq_true_eq] at h1 h2
            simp only [StepU, UInv]
            exact valid_pushCp out r n ho hr (by omega)
        | some n1 =>
          simp only
          split
          · trivial
          · rename_i h1
            simp only [Bool.or_eq_true, decide_eq_true_eq] at h1
            simp only [StepU, UInv]
            simp only [leadOK] at hl
            exact valid_pushCp out r _ ho hr (by omega)
  | lead1 n1 =>
    simp only at h ⊢
    split
    · rename_i hb
      simp only [beq_iff_eq] at hb; subst hb
      rw [validUtf8_cons_ascii bs_ascii] at h
      simpa [StepU, UInv] using h
    · trivial
  | lead2 n1 =>
    simp only at h ⊢
    split
    · rename_i hb
      simp only [beq_iff_eq] at hb; subst hb
      rw [validUtf8_cons_ascii u_ascii] at h
      simpa [StepU, UInv, leadOK] using h
    · trivial

/-! ## outside strings every consumed byte is ASCII -/

theorem mWs_ascii {b : UInt8} (h : Model.Machine.isWs b = true) : b < 0x80 := by
  simp only [Model.Machine.isWs, Gen.wsBytes, List.contains_cons, List.contains_nil, Bool.or_false, Bool.or_eq_true,
    beq_iff_eq] at h
  rcases h with h | h | h | h <;> subst h <;> decide

theorem mDigit_ascii {b : UInt8} (h : Model.Machine.isDigit b = true) : b < 0x80 := by
  simp only [Model.Machine.isDigit, Bool.and_eq_true, decide_eq_true_eq, UInt8.le_iff_toNat_le, UInt8.lt_iff_toNat_lt] at *
  simp at *; omega

theorem beq_ascii {b c : UInt8} (h : (b == c) = true) (hc : c < 0x80) : b < 0x80 := by
  simp only [beq_iff_eq] at h; subst h; exact hc

theorem beq2_ascii {b c d : UInt8} (h : (b == c || b == d) = true) (hc : c < 0x80) (hd : d < 0x80) : b < 0x80 := by
  simp only [Bool.or_eq_true, beq_iff_eq] at h; rcases h with h | h <;> subst h <;> assumption

theorem band_ascii {b c : UInt8} {p : Bool} (h : (b == c && p) = true) (hc : c < 0x80) : b < 0x80 := by
  simp only [Bool.and_eq_true, beq_iff_eq] at h; rcases h with ⟨h, _⟩; subst h; exact hc

/-- find a positive test on `b` among the hypotheses and conclude `b < 0x80` -/
syntax "ascii_byte" : tactic
macro_rules
  | `(tactic| ascii_byte) => `(tactic| first
      | exact mWs_ascii ‹_›
      | exact mDigit_ascii ‹_›
      | exact beq_ascii ‹_› (by decide)
      | exact beq2_ascii ‹_› (by decide) (by decide)
      | exact band_ascii ‹_› (by decide))

theorem closeArr_uinv (env : Env) (s : St) (b : UInt8) (r : Bytes) (h : validUtf8 r = true) :
    StepU b r (closeArr env s) := by
  unfold closeArr; split
  · exact uinv_complete _ _ _ h
  · trivial

theorem closeObj_uinv (env : Env) (s : St) (b : UInt8) (r : Bytes) (h : validUtf8 r = true) :
    StepU b r (closeObj env s) := by
  unfold closeObj; split
  · exact uinv_complete _ _ _ h
  · trivial

theorem ident_ascii : (∀ x ∈ Gen.identNull, x < 0x80) ∧ (∀ x ∈ Gen.identTrue, x < 0x80) ∧
    (∀ x ∈ Gen.identFalse, x < 0x80) := by decide

theorem startValue_uinv (env : Env) (s : St) (b : UInt8) (r : Bytes) (h : validUtf8 (b :: r) = true) :
    StepU b r (startValue env s b) := by
  unfold startValue
  repeat' split
  all_goals first
    | trivial
    | (have hb : b < 0x80 := by ascii_byte
       rw [validUtf8_cons_ascii hb] at h
       first
         | exact h
         | exact ⟨ident_ascii.1, h⟩
         | exact ⟨ident_ascii.2.1, h⟩
         | exact ⟨ident_ascii.2.2, h⟩)

theorem stepNum_uinv (env : Env) (s : St) (n : NumSt) (b : UInt8) (r : Bytes) (h : validUtf8 (b :: r) = true) :
    StepU b r (stepNum env s n b) := by
  unfold stepNum; simp only
  repeat' split
  all_goals first
    | trivial
    | (rename_i s'' hs2
       obtain ⟨v, hv⟩ := endNumber_ok env s n s'' hs2
       subst hv
       exact uinv_complete _ _ _ h)
    | (have hb : b < 0x80 := by ascii_byte
       rw [validUtf8_cons_ascii hb] at h
       exact h)

theorem step1_uinv (env : Env) (s : St) (b : UInt8) (r : Bytes) (h : UInv s (b :: r)) :
    StepU b r (step1 env s b) := by
  unfold step1
  split
  · -- val
    rename_i ctx hm
    have hv : validUtf8 (b :: r) = true := by unfold UInv at h; rw [hm] at h; exact h
    repeat' split
    all_goals first
      | trivial
      | exact startValue_uinv env s b r hv
      | (have hb : b < 0x80 := by ascii_byte
         rw [validUtf8_cons_ascii hb] at hv
         first
           | exact closeArr_uinv env s b r hv
           | (simp only [StepU, UInv, hm]; exact hv))
  · -- lit
    rename_i rest v hm
    have hv : (∀ x ∈ rest, x < 0x80) ∧ validUtf8 (b :: r) = true := by
      unfold UInv at h; rw [hm] at h; exact h
    split
    · trivial
    · rename_i e es
      split
      · rename_i hb
        have hb : b < 0x80 := beq_ascii hb (hv.1 e (by simp))
        have hr := hv.2
        rw [validUtf8_cons_ascii hb] at hr
        split
        · exact uinv_complete _ _ _ hr
        · exact ⟨fun x hx => hv.1 x (by simp [hx]), hr⟩
      · trivial
  · -- num
    rename_i n hm
    have hv : validUtf8 (b :: r) = true := by unfold UInv at h; rw [hm] at h; exact h
    exact stepNum_uinv env s n b r hv
  · rename_i st hm
    exact stepStr_uinv env s st b r hm h
  all_goals
    (rename_i hm
     have hv : validUtf8 (b :: r) = true := by unfold UInv at h; rw [hm] at h; exact h
     repeat' split
     all_goals first
       | trivial
       | (have hb : b < 0x80 := by ascii_byte
          rw [validUtf8_cons_ascii hb] at hv
          first
            | exact closeArr_uinv env s b r hv
            | exact closeObj_uinv env s b r hv
            | (simp only [StepU, UInv, hm]; exact hv)
            | (simp only [StepU, UInv]; exact hv)))

/-! ## under the invariant the UTF-8 check of byte sources never fires -/

def envStr (cfg : Cfg) (tgt : Tgt) : Env := { cfg := cfg, src := .str, tgt := tgt }
def envSlice (cfg : Cfg) (tgt : Tgt) : Env := { cfg := cfg, src := .slice, tgt := tgt }

theorem endStr_src_eq (cfg : Cfg) (tgt : Tgt) (s : St) (st : StrSt) (h : validUtf8 st.out.reverse = true) :
    endStr (envStr cfg tgt) s st = endStr (envSlice cfg tgt) s st := by
  unfold endStr
  simp only [envStr, envSlice, h, Bool.not_true, Bool.and_false, Bool.false_eq_true, if_false]
  rfl

theorem stepStr_src_eq (cfg : Cfg) (tgt : Tgt) (s : St) (st : StrSt) (b : UInt8) (r : Bytes)
    (hm : s.mode = .str st) (h : UInv s (b :: r)) :
    stepStr (envStr cfg tgt) s st b = stepStr (envSlice cfg tgt) s st b := by
  unfold UInv at h
  rw [hm] at h
  obtain ⟨out, esc, isKey, escaped⟩ := st
  cases esc with
  | none =>
    simp only at h
    unfold stepStr
    simp only
    split
    · rename_i hb
      simp only [beq_iff_eq] at hb; subst hb
      exact endStr_src_eq cfg tgt s _ (validUtf8_ascii_split (a := out.reverse) quote_ascii (by simpa using h)).1
    · rfl
  | bs => rfl
  | hex acc lead => rfl
  | lead1 n1 => rfl
  | lead2 n1 => rfl

theorem step1_src_eq (cfg : Cfg) (tgt : Tgt) (s : St) (b : UInt8) (r : Bytes) (h : UInv s (b :: r)) :
    step1 (envStr cfg tgt) s b = step1 (envSlice cfg tgt) s b := by
  unfold step1
  split
  case h_4 st hm => exact stepStr_src_eq cfg tgt s st b r hm h
  all_goals rfl

theorem step_src_eq (cfg : Cfg) (tgt : Tgt) (s : St) (b : UInt8) (r : Bytes) (h : UInv s (b :: r)) :
    step (envStr cfg tgt) s b = step (envSlice cfg tgt) s b := by
  have h1 := step1_src_eq cfg tgt s b r h
  have hu := step1_uinv (envSlice cfg tgt) s b r h
  unfold step
  rw [h1]
  cases hs : step1 (envSlice cfg tgt) s b with
  | next s' => rfl
  | err c a => rfl
  | again s' =>
    rw [hs] at hu
    simp only
    rw [step1_src_eq cfg tgt s' b r hu]

theorem step_uinv (env : Env) (s : St) (b : UInt8) (r : Bytes) (s' : St) (h : UInv s (b :: r))
    (hs : step env s b = .ok s') : UInv s' r := by
  have hu := step1_uinv env s b r h
  unfold step at hs
  split at hs
  · rename_i s1 h1; rw [h1] at hu; simp only [Except.ok.injEq] at hs; subst hs; exact hu
  · cases hs
  · rename_i s1 h1
    rw [h1] at hu
    have hu2 := step1_uinv env s1 b r hu
    split at hs
    · rename_i s2 h2; rw [h2] at hu2; simp only [Except.ok.injEq] at hs; subst hs; exact hu2
    · cases hs
    · cases hs

theorem finish_src_eq (cfg : Cfg) (tgt : Tgt) (s : St) :
    finish (envStr cfg tgt) s = finish (envSlice cfg tgt) s := rfl

/-- **lock-step**: from any state satisfying the invariant for the unread input, the `&str` and the
    slice source produce the same outcome (value, or error code and index) -/
theorem run_str_slice (cfg : Cfg) (tgt : Tgt) (bs : Bytes) : ∀ (s : St) (i : Nat), UInv s bs →
    run (envStr cfg tgt) s i bs = run (envSlice cfg tgt) s i bs := by
  induction bs with
  | nil => intro s i _; simp only [run, finish_src_eq]
  | cons b bs ih =>
    intro s i h
    simp only [run]
    rw [step_src_eq cfg tgt s b bs h]
    cases hs : step (envSlice cfg tgt) s b with
    | ok s' => exact ih s' (i + 1) (step_uinv _ s b bs s' h hs)
    | error e => obtain ⟨c, a⟩ := e; cases a <;> rfl

theorem uinv_init (bs : Bytes) (h : validUtf8 bs = true) : UInv init bs := h

theorem parseTop_str_slice (cfg : Cfg) (tgt : Tgt) (bs : Bytes) (h : validUtf8 bs = true) :
    parseTop (envStr cfg tgt) bs = parseTop (envSlice cfg tgt) bs :=
  run_str_slice cfg tgt bs init 0 (uinv_init bs h)

/-! ## the invariant along a run, and what it says at a closing quote -/

theorem feed_uinv (env : Env) (pre : Bytes) : ∀ (s : St) (i : Nat) (rest : Bytes) (s' : St) (j : Nat),
    UInv s (pre ++ rest) → feed env s i pre = .ok (s', j) → UInv s' rest := by
  induction pre with
  | nil => intro s i rest s' j h hf; simp only [feed, Except.ok.injEq, Prod.mk.injEq] at hf; exact hf.1 ▸ h
  | cons b pre ih =>
    intro s i rest s' j h hf
    simp only [feed] at hf
    cases hs : step env s b with
    | ok s1 => rw [hs] at hf; exact ih s1 (i + 1) rest s' j (step_uinv env s b _ s1 h hs) hf
    | error e => obtain ⟨c, a⟩ := e; rw [hs] at hf; cases hf

/-- on valid UTF-8 input, whenever the machine stands at the closing quote of a string literal (a
    value or a key, in a document that may still be rejected later), the decoded text — the bytes
    handed to `str::from_utf8_unchecked` by the `&str` source — is valid UTF-8 -/
theorem utf8_at_closing_quote (env : Env) (pre rest : Bytes) (h : validUtf8 (pre ++ 0x22 :: rest) = true)
    (s : St) (j : Nat) (hf : feed env init 0 pre = .ok (s, j)) (st : StrSt) (hm : s.mode = .str st)
    (he : st.esc = .none) : validUtf8 st.out.reverse = true := by
  have hu := feed_uinv env pre init 0 (0x22 :: rest) s j (uinv_init _ h) hf
  unfold UInv at hu
  rw [hm] at hu
  obtain ⟨out, esc, isKey, escaped⟩ := st
  simp only at he; subst he
  simp only at hu
  exact (validUtf8_ascii_split (a := out.reverse) quote_ascii (by simpa using hu)).1

end SJ.Proofs.Utf8
