import SJ.Proofs.LexBh
/-!
# C07 moderate path, part 2: rounding is stable under an error of a few units in the last place

For a normalised extended float `M · 2^X` (`2^63 ≤ M < 2^64`) let `eb` be the number of mantissa bits that
`round_to_float` drops (`63 − mbits`, more in the subnormal range: `error_is_accurate`'s `extrabits`) and `K` the
spacing exponent of the result. If the exact value `a/bb` (in units of `2^-qexp`) is within `err` units of `M`
(`4·err ≤ 2^eb`) then

* `near_core`: `a/bb` lies in the neighbourhood (`NearBelow`) of the downward-rounded pattern `b`;
* `round_low`/`round_high`: if the dropped bits are at least `err` away from the halfway point, `a/bb` rounds like `M`;
* `accurate_spec`: that is what `error_is_accurate` tests.
-/
namespace SJ.Proofs.LexModerateRound
open SJ SJ.Gen SJ.Model.Lexical SJ.Spec.Ieee SJ.Proofs.Ieee SJ.Proofs.LexRound SJ.Proofs.LexBh

/-- number of mantissa bits dropped when `M · 2^X` (normalised) is rounded to format `F` -/
def ebOf (F : Fmt) (X : Int) : Nat :=
  if -(F.qexp : Int) ≤ X + ((63 - F.mbits : Nat) : Int) then 63 - F.mbits else (-(F.qexp : Int) - X).toNat

/-- spacing exponent of the rounded `M · 2^X` (`0` in the subnormal range) -/
def kkOf (F : Fmt) (X : Int) : Nat :=
  if -(F.qexp : Int) ≤ X + ((63 - F.mbits : Nat) : Int) then (X + ((63 - F.mbits : Nat) : Int) + F.qexp).toNat else 0

theorem X_eq (F : Fmt) (X : Int) : X + (F.qexp : Int) = (kkOf F X : Int) - (ebOf F X : Int) := by
  unfold kkOf ebOf
  split <;> omega

theorem ebOf_ge (F : Fmt) (X : Int) : 63 - F.mbits ≤ ebOf F X := by
  unfold ebOf
  split <;> omega

/-- the downward-rounded pattern -/
theorem packSpec_down (F : Fmt) (M : Nat) (X : Int) (hM : M < 2 ^ 64) :
    packSpec F gDown M X = kkOf F X * 2 ^ F.mbits + M / 2 ^ ebOf F X := by
  unfold packSpec kkOf ebOf gDown
  by_cases hN : -(F.qexp : Int) ≤ X + ((63 - F.mbits : Nat) : Int)
  · simp only [if_pos hN]
  · simp only [if_neg hN]
    by_cases h64 : -(F.qexp : Int) - X ≤ 64
    · rw [if_pos h64]; simp
    · rw [if_neg h64]
      have : 2 ^ 64 ≤ 2 ^ (-(F.qexp : Int) - X).toNat := Nat.pow_le_pow_right (by decide) (by omega)
      rw [Nat.div_eq_of_lt (by omega)]; simp

/-- the significand of the downward-rounded pattern carries its hidden bit outside the subnormal range -/
theorem q_bounds (F : Fmt) (hmb : F.mbits ≤ 62) (M : Nat) (X : Int) (hM1 : 2 ^ 63 ≤ M) (hM2 : M < 2 ^ 64) :
    M / 2 ^ ebOf F X < 2 * 2 ^ F.mbits ∧ (1 ≤ kkOf F X → 2 ^ F.mbits ≤ M / 2 ^ ebOf F X) := by
  have h63 : (2 : Nat) ^ 63 = 2 ^ F.mbits * 2 ^ (63 - F.mbits) := by rw [← Nat.pow_add]; congr 1; omega
  have h64 : (2 : Nat) ^ 64 = 2 * 2 ^ F.mbits * 2 ^ (63 - F.mbits) := by
    have : (2 : Nat) ^ 64 = 2 * 2 ^ 63 := by norm_num
    rw [this, h63]; ring
  have hge := ebOf_ge F X
  constructor
  · rw [Nat.div_lt_iff_lt_mul (pow_pos' _)]
    have : 2 ^ (63 - F.mbits) ≤ 2 ^ ebOf F X := Nat.pow_le_pow_right (by decide) hge
    calc M < 2 ^ 64 := hM2
      _ = 2 * 2 ^ F.mbits * 2 ^ (63 - F.mbits) := h64
      _ ≤ 2 * 2 ^ F.mbits * 2 ^ ebOf F X := Nat.mul_le_mul_left _ this
  · intro hK
    have heb : ebOf F X = 63 - F.mbits := by
      unfold kkOf at hK; unfold ebOf
      split
      · rfl
      · rename_i hn; rw [if_neg hn] at hK; omega
    rw [heb, Nat.le_div_iff_mul_le (pow_pos' _), ← h63]
    exact hM1

/-- the exact value of `M · 2^X` in units of `2^-qexp` is `M · 2^K / 2^eb` -/
theorem roundMag_MX (F : Fmt) (M : Nat) (X : Int) :
    roundMag F (sNum F M X) (sDen F X) = roundMag F (M * 2 ^ kkOf F X) (2 ^ ebOf F X) := by
  apply roundMag_congr F _ _ _ _ (sDen_pos F X) (pow_pos' _)
  unfold sNum sDen
  have hx := X_eq F X
  have : (X + (F.qexp : Int)).toNat + ebOf F X = kkOf F X + (-(X + (F.qexp : Int))).toNat := by omega
  calc M * 2 ^ (X + (F.qexp : Int)).toNat * 2 ^ ebOf F X
      = M * 2 ^ ((X + (F.qexp : Int)).toNat + ebOf F X) := by rw [Nat.pow_add]; ring
    _ = M * 2 ^ (kkOf F X + (-(X + (F.qexp : Int))).toNat) := by rw [this]
    _ = M * 2 ^ kkOf F X * 2 ^ (-(X + (F.qexp : Int))).toNat := by rw [Nat.pow_add]; ring

/-! ## the neighbourhood of the downward-rounded pattern -/

section core
variable (F : Fmt) (K eb M err a bb : Nat)

/-- magnitudes around `b = K·2^mbits + M / 2^eb` -/
theorem mags (hq2 : M / 2 ^ eb < 2 * 2 ^ F.mbits) (hq1 : 1 ≤ K → 2 ^ F.mbits ≤ M / 2 ^ eb) :
    magOfBits F (K * 2 ^ F.mbits + M / 2 ^ eb) = M / 2 ^ eb * 2 ^ K ∧
    magOfBits F (K * 2 ^ F.mbits + M / 2 ^ eb + 1) = (M / 2 ^ eb + 1) * 2 ^ K ∧
    (M / 2 ^ eb + 2) * 2 ^ K ≤ magOfBits F (K * 2 ^ F.mbits + M / 2 ^ eb + 2) ∧
    (K * 2 ^ F.mbits + M / 2 ^ eb ≠ 0 →
      ∃ δ, magOfBits F (K * 2 ^ F.mbits + M / 2 ^ eb - 1) + δ = M / 2 ^ eb * 2 ^ K ∧ 2 ^ K ≤ 2 * δ) := by
  have hP := pow_pos' F.mbits
  generalize hq : M / 2 ^ eb = q at *
  have e0 : magOfBits F (K * 2 ^ F.mbits + q) = q * 2 ^ K := magOfBits_enc F K q (by omega) hq1
  have e1 : magOfBits F (K * 2 ^ F.mbits + q + 1) = (q + 1) * 2 ^ K := by
    rw [Nat.add_assoc]; exact magOfBits_enc F K (q + 1) (by omega) (fun hk => by have := hq1 hk; omega)
  refine ⟨e0, e1, ?_, ?_⟩
  · rw [magOfBits_succ, e1]
    have : 2 ^ K ≤ 2 ^ ((K * 2 ^ F.mbits + q + 1) / 2 ^ F.mbits - 1) := by
      apply Nat.pow_le_pow_right (by decide)
      rcases Nat.eq_zero_or_pos K with hk | hk
      · omega
      · have hq1' := hq1 hk
        have : K + 1 ≤ (K * 2 ^ F.mbits + q + 1) / 2 ^ F.mbits := by
          rw [Nat.le_div_iff_mul_le hP, Nat.succ_mul]; omega
        omega
    have e : (q + 2) * 2 ^ K = (q + 1) * 2 ^ K + 2 ^ K := by ring
    omega
  · intro hb
    obtain ⟨b', hb'⟩ : ∃ b', K * 2 ^ F.mbits + q = b' + 1 := ⟨K * 2 ^ F.mbits + q - 1, by omega⟩
    refine ⟨2 ^ (b' / 2 ^ F.mbits - 1), ?_, ?_⟩
    · rw [hb', Nat.add_sub_cancel, ← magOfBits_succ, ← hb', e0]
    · rcases Nat.eq_zero_or_pos K with hk | hk
      · subst hk
        have := pow_pos' (b' / 2 ^ F.mbits - 1)
        simp only [Nat.pow_zero]; omega
      · have hq1' := hq1 hk
        have hK : K ≤ b' / 2 ^ F.mbits := by
          rw [Nat.le_div_iff_mul_le hP]; omega
        obtain ⟨K', rfl⟩ : ∃ K', K = K' + 1 := ⟨K - 1, by omega⟩
        have : 2 ^ K' ≤ 2 ^ (b' / 2 ^ F.mbits - 1) := Nat.pow_le_pow_right (by decide) (by omega)
        rw [Nat.pow_succ]; omega

variable (hbb : 0 < bb) (herr : 4 * err ≤ 2 ^ eb) (hM : err ≤ M)
  (hq2 : M / 2 ^ eb < 2 * 2 ^ F.mbits) (hq1 : 1 ≤ K → 2 ^ F.mbits ≤ M / 2 ^ eb)
  (hlo : (M - err) * 2 ^ K * bb < a * 2 ^ eb) (hhi : a * 2 ^ eb < (M + err) * 2 ^ K * bb)
include hbb herr hM hq2 hq1 hlo hhi

/-- **the exact value lies in the neighbourhood of the downward-rounded extended value** -/
theorem near_core : NearBelow F (K * 2 ^ F.mbits + M / 2 ^ eb) a bb := by
  obtain ⟨e0, e1, e2, e3⟩ := mags F K eb M hq2 hq1
  have hB := pow_pos' eb
  have hG := pow_pos' K
  have hdm := Nat.div_add_mod M (2 ^ eb)
  have hx := Nat.mod_lt M hB
  generalize hq : M / 2 ^ eb = q at *
  generalize hxd : M % 2 ^ eb = x at *
  generalize hBd : 2 ^ eb = B at *
  generalize hGd : 2 ^ K = G at *
  generalize hb : K * 2 ^ F.mbits + q = b at *
  constructor
  · rcases Nat.eq_zero_or_pos b with hb0 | hbp
    · left; exact hb0
    · right
      obtain ⟨δ, hδ1, hδ2⟩ := e3 (by omega)
      rw [e0]
      generalize magOfBits F (b - 1) = m1 at *
      apply Nat.lt_of_mul_lt_mul_right (a := B)
      have key : (m1 + q * G) * B ≤ 2 * ((M - err) * G) := by
        have hMe : M - err + err = M := Nat.sub_add_cancel hM
        have h1 : 4 * err * G ≤ B * G := Nat.mul_le_mul_right _ herr
        have h2 : G * B ≤ 2 * δ * B := Nat.mul_le_mul_right _ hδ2
        have h3 : (M - err) * G + err * G = (B * q + x) * G := by rw [← Nat.add_mul, hMe, hdm]
        nlinarith
      calc (m1 + q * G) * bb * B = (m1 + q * G) * B * bb := by ring
        _ ≤ 2 * ((M - err) * G) * bb := Nat.mul_le_mul_right _ key
        _ = 2 * ((M - err) * G * bb) := by ring
        _ < 2 * (a * B) := by omega
        _ = 2 * a * B := by ring
  · rw [e1]
    generalize magOfBits F (b + 2) = m2 at *
    apply Nat.lt_of_mul_lt_mul_right (a := B)
    have key : 2 * ((M + err) * G) ≤ ((q + 1) * G + m2) * B := by
      have h1 : (q + 2) * G * B ≤ m2 * B := Nat.mul_le_mul_right _ e2
      have h3 : (M + err) * G = (B * q + x + err) * G := by rw [hdm]
      have h4 : (2 * x + 2 * err) * G ≤ 3 * B * G := Nat.mul_le_mul_right _ (by omega)
      nlinarith
    calc 2 * a * B = 2 * (a * B) := by ring
      _ < 2 * ((M + err) * G * bb) := by omega
      _ = 2 * ((M + err) * G) * bb := by ring
      _ ≤ ((q + 1) * G + m2) * B * bb := Nat.mul_le_mul_right _ key
      _ = ((q + 1) * G + m2) * bb * B := by ring

/-- dropped bits at least `err` below the halfway point: rounds down -/
theorem round_low (hmb : 1 ≤ F.mbits) (hx : M % 2 ^ eb + err ≤ 2 ^ (eb - 1)) (heb : 1 ≤ eb) :
    roundMag F a bb = K * 2 ^ F.mbits + M / 2 ^ eb := by
  have hn := near_core F K eb M err a bb hbb herr hM hq2 hq1 hlo hhi
  rw [roundMag_of_near F hmb a bb _ hbb hn.1 hn.2]
  obtain ⟨e0, e1, _, _⟩ := mags F K eb M hq2 hq1
  rw [e0, e1]
  have hB := pow_pos' eb
  have hdm := Nat.div_add_mod M (2 ^ eb)
  have hhalf : 2 ^ eb = 2 * 2 ^ (eb - 1) := by
    obtain ⟨n, rfl⟩ : ∃ n, eb = n + 1 := ⟨eb - 1, by omega⟩
    rw [Nat.add_sub_cancel, Nat.pow_succ]; ring
  generalize M / 2 ^ eb = q at *
  generalize M % 2 ^ eb = x at *
  generalize 2 ^ (eb - 1) = H at *
  generalize 2 ^ eb = B at *
  generalize 2 ^ K = G at *
  rw [if_pos]
  apply Nat.lt_of_mul_lt_mul_right (a := B)
  have key : 2 * ((M + err) * G) ≤ (q * G + (q + 1) * G) * B := by
    have h3 : (M + err) * G = (B * q + x + err) * G := by rw [hdm]
    have h4 : (2 * x + 2 * err) * G ≤ B * G := Nat.mul_le_mul_right _ (by omega)
    nlinarith
  calc 2 * a * B = 2 * (a * B) := by ring
    _ < 2 * ((M + err) * G * bb) := by omega
    _ = 2 * ((M + err) * G) * bb := by ring
    _ ≤ (q * G + (q + 1) * G) * B * bb := Nat.mul_le_mul_right _ key
    _ = (q * G + (q + 1) * G) * bb * B := by ring

/-- dropped bits at least `err` above the halfway point: rounds up -/
theorem round_high (hmb : 1 ≤ F.mbits) (hx : 2 ^ (eb - 1) + err ≤ M % 2 ^ eb) (heb : 1 ≤ eb) :
    roundMag F a bb = K * 2 ^ F.mbits + M / 2 ^ eb + 1 := by
  have hn := near_core F K eb M err a bb hbb herr hM hq2 hq1 hlo hhi
  rw [roundMag_of_near F hmb a bb _ hbb hn.1 hn.2]
  obtain ⟨e0, e1, _, _⟩ := mags F K eb M hq2 hq1
  rw [e0, e1]
  have hB := pow_pos' eb
  have hdm := Nat.div_add_mod M (2 ^ eb)
  have hhalf : 2 ^ eb = 2 * 2 ^ (eb - 1) := by
    obtain ⟨n, rfl⟩ : ∃ n, eb = n + 1 := ⟨eb - 1, by omega⟩
    rw [Nat.add_sub_cancel, Nat.pow_succ]; ring
  generalize M / 2 ^ eb = q at *
  generalize M % 2 ^ eb = x at *
  generalize 2 ^ (eb - 1) = H at *
  generalize 2 ^ eb = B at *
  generalize 2 ^ K = G at *
  have hgt : (q * G + (q + 1) * G) * bb < 2 * a := by
    apply Nat.lt_of_mul_lt_mul_right (a := B)
    have key : (q * G + (q + 1) * G) * B ≤ 2 * ((M - err) * G) := by
      have hMe : M - err + err = M := Nat.sub_add_cancel hM
      have h3 : (M - err) * G + err * G = (B * q + x) * G := by rw [← Nat.add_mul, hMe, hdm]
      have h4 : (B + 2 * err) * G ≤ 2 * x * G := Nat.mul_le_mul_right _ (by omega)
      nlinarith
    calc (q * G + (q + 1) * G) * bb * B = (q * G + (q + 1) * G) * B * bb := by ring
      _ ≤ 2 * ((M - err) * G) * bb := Nat.mul_le_mul_right _ key
      _ = 2 * ((M - err) * G * bb) := by ring
      _ < 2 * (a * B) := by omega
      _ = 2 * a * B := by ring
  rw [if_neg (by omega), if_pos hgt]

end core

/-- an accepted error estimate: the exact value rounds like the extended value -/
theorem round_same (F : Fmt) (hmb : 1 ≤ F.mbits) (K eb M err a bb : Nat) (hbb : 0 < bb) (herr : 4 * err ≤ 2 ^ eb)
    (herr1 : 1 ≤ err) (hM : err ≤ M) (heb : 1 ≤ eb)
    (hq2 : M / 2 ^ eb < 2 * 2 ^ F.mbits) (hq1 : 1 ≤ K → 2 ^ F.mbits ≤ M / 2 ^ eb)
    (hlo : (M - err) * 2 ^ K * bb < a * 2 ^ eb) (hhi : a * 2 ^ eb < (M + err) * 2 ^ K * bb)
    (hx : M % 2 ^ eb + err ≤ 2 ^ (eb - 1) ∨ 2 ^ (eb - 1) + err ≤ M % 2 ^ eb) :
    roundMag F a bb = roundMag F (M * 2 ^ K) (2 ^ eb) := by
  have hpos : 0 < 2 ^ K * 2 ^ eb := Nat.mul_pos (pow_pos' _) (pow_pos' _)
  have hlo' : (M - err) * 2 ^ K * 2 ^ eb < M * 2 ^ K * 2 ^ eb := by
    rw [Nat.mul_assoc, Nat.mul_assoc M]
    exact Nat.mul_lt_mul_of_pos_right (by omega) hpos
  have hhi' : M * 2 ^ K * 2 ^ eb < (M + err) * 2 ^ K * 2 ^ eb := by
    rw [Nat.mul_assoc, Nat.mul_assoc (M + err)]
    exact Nat.mul_lt_mul_of_pos_right (by omega) hpos
  rcases hx with hx | hx
  · rw [round_low F K eb M err a bb hbb herr hM hq2 hq1 hlo hhi hmb hx heb,
      round_low F K eb M err (M * 2 ^ K) (2 ^ eb) (pow_pos' _) herr hM hq2 hq1 hlo' hhi' hmb hx heb]
  · rw [round_high F K eb M err a bb hbb herr hM hq2 hq1 hlo hhi hmb hx heb,
      round_high F K eb M err (M * 2 ^ K) (2 ^ eb) (pow_pos' _) herr hM hq2 hq1 hlo' hhi' hmb hx heb]

/-! ## `error_is_accurate` -/

/-- what an accepted estimate says about the dropped bits -/
theorem accurate_spec {c : FC} {F : Fmt} (h : FCok c F) (M : Nat) (X : Int) (err : Nat) (hM : M < 2 ^ 64)
    (herr : 4 * err ≤ 2 ^ ebOf F X) (herr64 : err < 2 ^ 62)
    (hacc : errorIsAccurate c err { mant := M, exp := X } = true) :
    M % 2 ^ ebOf F X + err ≤ 2 ^ (ebOf F X - 1) ∨ 2 ^ (ebOf F X - 1) + err ≤ M % 2 ^ ebOf F X := by
  have hmb := h.mb62
  have heb2 := h.eb
  unfold errorIsAccurate at hacc
  simp only [h.bias, h.size] at hacc
  have hcond : (X ≤ -((F.qexp : Int) + 1 - (F.mbits : Int)) - 63) ↔ ¬ (-(F.qexp : Int) ≤ X + ((63 - F.mbits : Nat) : Int)) := by
    omega
  by_cases hN : -(F.qexp : Int) ≤ X + ((63 - F.mbits : Nat) : Int)
  · -- normal range
    have hebv : ebOf F X = 63 - F.mbits := by unfold ebOf; rw [if_pos hN]
    rw [hebv] at herr ⊢
    rw [if_neg (show ¬ (X ≤ -((F.qexp : Int) + 1 - (F.mbits : Int)) - 63) by omega)] at hacc
    have hd : ((63 : Int) - (F.mbits : Int)).toNat = 63 - F.mbits := by omega
    rw [if_neg (show ¬ ((63 : Int) - (F.mbits : Int) > 65) by omega), hd] at hacc
    have hd1 : 1 ≤ 63 - F.mbits := by omega
    have hd62 : 63 - F.mbits ≤ 62 := by have := h.mb1; omega
    generalize 63 - F.mbits = d at *
    unfold nearestErrorIsAccurate at hacc
    have hne : (d == 65) = false := by simp; omega
    rw [hne] at hacc
    simp only [Bool.false_eq_true, if_false, lowerNMask_eq d (by omega), lowerNHalfway_eq d hd1 (by omega),
      Nat.and_two_pow_sub_one_eq_mod] at hacc
    have hhalf : 2 ^ d = 2 * 2 ^ (d - 1) := by
      obtain ⟨n, rfl⟩ : ∃ n, d = n + 1 := ⟨d - 1, by omega⟩
      rw [Nat.add_sub_cancel, Nat.pow_succ]; ring
    have hH : 2 ^ (d - 1) < 2 ^ 62 := Nat.pow_lt_pow_right (by decide) (by omega)
    have u1 : u64 (2 ^ (d - 1) + 2 ^ 64 - err) = 2 ^ (d - 1) - err := by
      unfold u64
      have : 2 ^ (d - 1) + 2 ^ 64 - err = (2 ^ (d - 1) - err) + 2 ^ 64 := by omega
      rw [this, Nat.add_mod_right, Nat.mod_eq_of_lt (by omega)]
    have u2 : u64 (2 ^ (d - 1) + err) = 2 ^ (d - 1) + err := u64_of_lt (by omega)
    rw [u1, u2] at hacc
    generalize M % 2 ^ d = x at *
    generalize 2 ^ (d - 1) = H at *
    by_cases c1 : H - err < x
    · by_cases c2 : x < H + err
      · simp [c1, c2] at hacc
      · right; omega
    · left; omega
  · -- subnormal range
    have hebv : ebOf F X = (-(F.qexp : Int) - X).toNat := by unfold ebOf; rw [if_neg hN]
    rw [hebv] at herr ⊢
    rw [if_pos (show X ≤ -((F.qexp : Int) + 1 - (F.mbits : Int)) - 63 by omega)] at hacc
    have hs : 64 - (F.mbits : Int) + (-((F.qexp : Int) + 1 - (F.mbits : Int)) - 63) - X = -(F.qexp : Int) - X := by omega
    rw [hs] at hacc
    obtain ⟨s, hs'⟩ : ∃ s : Nat, -(F.qexp : Int) - X = s := ⟨(-(F.qexp : Int) - X).toNat, by omega⟩
    have hst : (-(F.qexp : Int) - X).toNat = s := by omega
    rw [hst] at herr ⊢
    rw [hs'] at hacc
    simp only [Int.toNat_natCast] at hacc
    have hs1 : 1 ≤ s := by omega
    by_cases h65 : 65 < s
    · left
      have : 2 ^ 65 ≤ 2 ^ (s - 1) := Nat.pow_le_pow_right (by decide) (by omega)
      have : 2 ^ 64 ≤ 2 ^ s := Nat.pow_le_pow_right (by decide) (by omega)
      rw [Nat.mod_eq_of_lt (by omega)]
      omega
    · rw [if_neg (show ¬ ((s : Int) > 65) by omega)] at hacc
      unfold nearestErrorIsAccurate at hacc
      by_cases hs65 : s = 65
      · subst hs65
        simp only [beq_self_eq_true, if_true] at hacc
        left
        rw [Nat.mod_eq_of_lt (by norm_num at hM ⊢; omega)]
        simp at hacc
        norm_num at hacc ⊢
        omega
      · have hne : (s == 65) = false := by simpa using hs65
        rw [hne] at hacc
        simp only [Bool.false_eq_true, if_false, lowerNMask_eq s (by omega), lowerNHalfway_eq s hs1 (by omega),
          Nat.and_two_pow_sub_one_eq_mod] at hacc
        have hhalf : 2 ^ s = 2 * 2 ^ (s - 1) := by
          obtain ⟨n, rfl⟩ : ∃ n, s = n + 1 := ⟨s - 1, by omega⟩
          rw [Nat.add_sub_cancel, Nat.pow_succ]; ring
        have hH : 2 ^ (s - 1) ≤ 2 ^ 63 := Nat.pow_le_pow_right (by decide) (by omega)
        have u1 : u64 (2 ^ (s - 1) + 2 ^ 64 - err) = 2 ^ (s - 1) - err := by
          unfold u64
          have : 2 ^ (s - 1) + 2 ^ 64 - err = (2 ^ (s - 1) - err) + 2 ^ 64 := by omega
          rw [this, Nat.add_mod_right, Nat.mod_eq_of_lt (by omega)]
        have u2 : u64 (2 ^ (s - 1) + err) = 2 ^ (s - 1) + err := u64_of_lt (by omega)
        rw [u1, u2] at hacc
        generalize M % 2 ^ s = x at *
        generalize 2 ^ (s - 1) = H at *
        by_cases c1 : H - err < x
        · by_cases c2 : x < H + err
          · simp [c1, c2] at hacc
          · right; omega
        · left; omega

end SJ.Proofs.LexModerateRound
