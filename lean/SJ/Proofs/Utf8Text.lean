import SJ.Proofs.Utf8Str
import SJ.Spec.Canon
/-!
# A JSON text that is valid UTF-8 has valid UTF-8 strings throughout

`jsontext_utf8`: if `JsonText bs t`, `validUtf8 bs` and the surrogate escapes of `t` are paired, then
every decoded string and key of `t` is valid UTF-8 (`Spec.Canon.stringsUtf8 t`). Every string literal's
extent in `bs` is delimited by structural characters and whitespace, all ASCII, so the literal's own
bytes are valid UTF-8 (`validUtf8_ascii_mid`), and `decodeItems_utf8` applies.
-/
namespace SJ.Proofs.Utf8
open SJ SJ.Spec.Utf8 SJ.Spec.Grammar SJ.Spec.Denote SJ.Spec.Canon

/-- a non-empty ASCII block in the middle cuts the text in two -/
theorem validUtf8_ascii_mid (a l b : Bytes) (hl : ∀ x ∈ l, x < 0x80) (hne : l ≠ []) :
    validUtf8 (a ++ (l ++ b)) = (validUtf8 a && validUtf8 b) := by
  cases l with
  | nil => exact absurd rfl hne
  | cons c l =>
    rw [List.cons_append]
    exact validUtf8_ascii_block_eq a l b c (hl c (by simp)) (fun x hx => hl x (by simp [hx]))

theorem isWs_ascii {x : UInt8} (h : isWs x = true) : x < 0x80 := by
  simp only [isWs, Bool.or_eq_true, beq_iff_eq] at h
  rcases h with ((h | h) | h) | h <;> subst h <;> decide

theorem ws_ascii {w : Bytes} (h : Ws w) : ∀ x ∈ w, x < 0x80 := fun x hx =>
  isWs_ascii (List.all_eq_true.mp h x hx)

/-- ASCII-ness of a concatenation, for `simp` -/
theorem ascii_append {l₁ l₂ : Bytes} (h₁ : ∀ x ∈ l₁, x < 0x80) (h₂ : ∀ x ∈ l₂, x < 0x80) :
    ∀ x ∈ l₁ ++ l₂, x < 0x80 := fun x hx => by
  rcases List.mem_append.1 hx with h | h
  · exact h₁ x h
  · exact h₂ x h

theorem ascii_single {c : UInt8} (hc : c < 0x80) : ∀ x ∈ [c], x < 0x80 := fun x hx => by
  simp only [List.mem_singleton] at hx; subst hx; exact hc

/-- `[open] ++ w₁ ++ body ++ w₂ ++ [close]` -/
theorem valid_bracketed {o c : UInt8} (ho : o < 0x80) (hc : c < 0x80) {w₁ body w₂ : Bytes} (h₁ : Ws w₁) (h₂ : Ws w₂)
    (h : validUtf8 ([o] ++ w₁ ++ body ++ w₂ ++ [c]) = true) : validUtf8 body = true := by
  have e : [o] ++ w₁ ++ body ++ w₂ ++ [c] = o :: (w₁ ++ (body ++ ((w₂ ++ [c]) ++ []))) := by
    simp only [List.append_assoc, List.nil_append, List.append_nil, List.cons_append]
  rw [e, validUtf8_cons_ascii ho, validUtf8_ascii_prefix_eq _ _ (ws_ascii h₁),
    validUtf8_ascii_mid body (w₂ ++ [c]) [] (ascii_append (ws_ascii h₂) (ascii_single hc)) (by simp),
    Bool.and_eq_true] at h
  exact h.1

/-- `a ++ w₁ ++ [sep] ++ w₂ ++ b` -/
theorem valid_separated {sep : UInt8} (hs : sep < 0x80) {a w₁ w₂ b : Bytes} (h₁ : Ws w₁) (h₂ : Ws w₂)
    (h : validUtf8 (a ++ w₁ ++ [sep] ++ w₂ ++ b) = true) : validUtf8 a = true ∧ validUtf8 b = true := by
  have e : a ++ w₁ ++ [sep] ++ w₂ ++ b = a ++ ((w₁ ++ [sep] ++ w₂) ++ b) := by simp only [List.append_assoc]
  rw [e, validUtf8_ascii_mid a _ b
    (ascii_append (ascii_append (ws_ascii h₁) (ascii_single hs)) (ws_ascii h₂)) (by simp), Bool.and_eq_true] at h
  exact h

theorem stringsUtf8_str (items : List StrItem) (hwf : StrWF items = true)
    (hsur : surrogatesPairedStr items = true) (hraw : validUtf8 (strBytes items) = true) :
    (decodeItems items).all validUtf8 = true := by
  obtain ⟨s, h1, h2⟩ := decodeItems_utf8 items hwf hsur hraw
  rw [h1]; exact h2

/-- the statement along a derivation -/
theorem derives_utf8 {bs : Bytes} {t : CST} (h : Derives bs t) :
    validUtf8 bs = true → surrogatesPaired t = true → stringsUtf8 t = true := by
  refine Derives.rec
    (motive_1 := fun bs t _ => validUtf8 bs = true → surrogatesPaired t = true → stringsUtf8 t = true)
    (motive_2 := fun bs xs _ => validUtf8 bs = true → surrogatesPairedList xs = true → stringsUtf8List xs = true)
    (motive_3 := fun bs ms _ => validUtf8 bs = true → surrogatesPairedMembers ms = true →
      stringsUtf8Members ms = true)
    ?_ ?_ ?_ ?_ ?_ ?_ ?_ ?_ ?_ ?_ ?_ ?_ ?_ h
  · intro _ _; rfl
  · intro _ _; rfl
  · intro _ _; rfl
  · intro _ _ _ _; rfl
  · intro items hwf hv hs
    simp only [surrogatesPaired] at hs
    simp only [stringsUtf8]
    exact stringsUtf8_str items hwf hs hv
  · intro _ _ _ _; rfl
  · intro w₁ body w₂ xs h₁ h₂ _ _ ih hv hs
    simp only [surrogatesPaired] at hs
    simp only [stringsUtf8]
    exact ih (valid_bracketed (by decide) (by decide) h₁ h₂ hv) hs
  · intro _ _ _ _; rfl
  · intro w₁ body w₂ ms h₁ h₂ _ _ ih hv hs
    simp only [surrogatesPaired] at hs
    simp only [stringsUtf8]
    exact ih (valid_bracketed (by decide) (by decide) h₁ h₂ hv) hs
  · intro bs t _ ih hv hs
    simp only [surrogatesPairedList, Bool.and_true] at hs
    simp only [stringsUtf8List, Bool.and_true]
    exact ih hv hs
  · intro bs w₁ w₂ rest t ts _ h₁ h₂ _ ih1 ih2 hv hs
    simp only [surrogatesPairedList, Bool.and_eq_true] at hs
    simp only [stringsUtf8List, Bool.and_eq_true]
    have := valid_separated (by decide) h₁ h₂ hv
    exact ⟨ih1 this.1 hs.1, ih2 this.2 hs.2⟩
  · intro k hk w₁ w₂ vb t h₁ h₂ _ ih hv hs
    simp only [surrogatesPairedMembers, Bool.and_eq_true, Bool.and_true] at hs
    simp only [stringsUtf8Members, Bool.and_eq_true, Bool.and_true]
    have := valid_separated (by decide) h₁ h₂ hv
    exact ⟨stringsUtf8_str k hk hs.1 this.1, ih this.2 hs.2⟩
  · intro k hk w₁ w₂ vb w₃ w₄ rest t ms h₁ h₂ _ h₃ h₄ _ ih1 ih2 hv hs
    simp only [surrogatesPairedMembers, Bool.and_eq_true] at hs
    simp only [stringsUtf8Members, Bool.and_eq_true]
    have e : strBytes k ++ w₁ ++ [0x3a] ++ w₂ ++ vb ++ w₃ ++ [0x2c] ++ w₄ ++ rest =
        (strBytes k ++ w₁ ++ [0x3a] ++ w₂ ++ vb) ++ w₃ ++ [0x2c] ++ w₄ ++ rest := by
      simp only [List.append_assoc]
    rw [e] at hv
    have h2 := valid_separated (by decide) h₃ h₄ hv
    have h1 := valid_separated (by decide) h₁ h₂ h2.1
    exact ⟨⟨stringsUtf8_str k hk hs.1.1 h1.1, ih1 h1.2 hs.1.2⟩, ih2 h2.2 hs.2⟩

/-- **a JSON text that is valid UTF-8 has valid UTF-8 strings and keys throughout** (given that its
    surrogate escapes are paired — otherwise the strings do not decode at all) -/
theorem jsontext_utf8 {bs : Bytes} {t : CST} (h : JsonText bs t) (hv : validUtf8 bs = true)
    (hs : surrogatesPaired t = true) : stringsUtf8 t = true := by
  obtain ⟨w₁, v, w₂, rfl, h₁, h₂, hd⟩ := h
  refine derives_utf8 hd ?_ hs
  rw [List.append_assoc, validUtf8_ascii_prefix_eq _ _ (ws_ascii h₁)] at hv
  by_cases hw : w₂ = []
  · subst hw; simpa using hv
  · have := validUtf8_ascii_mid v w₂ [] (ws_ascii h₂) hw
    rw [List.append_nil] at this
    rw [this, Bool.and_eq_true] at hv
    exact hv.1

/-- ` ["é",{"😀":"é"}]`: the text is valid UTF-8, so are the two strings and the key -/
example : stringsUtf8 (.arr [.str [.raw 0xc3, .raw 0xa9],
    .obj [([.raw 0xf0, .raw 0x9f, .raw 0x98, .raw 0x80], .str [.uni 0x30 0x30 0x65 0x39])]]) = true :=
  jsontext_utf8 (bs := [0x20, 0x5b, 0x22, 0xc3, 0xa9, 0x22, 0x2c, 0x7b, 0x22, 0xf0, 0x9f, 0x98, 0x80, 0x22, 0x3a,
      0x22, 0x5c, 0x75, 0x30, 0x30, 0x65, 0x39, 0x22, 0x7d, 0x5d])
    ⟨[0x20], _, [], rfl, by decide, by decide,
      Derives.arr [] _ [] _ (by decide) (by decide) (by simp)
        (Elems.cons [0x22, 0xc3, 0xa9, 0x22] [] [] _ _ _ (Derives.str [.raw 0xc3, .raw 0xa9] rfl) (by decide)
          (by decide)
          (Elems.one _ _ (Derives.obj [] _ [] _ (by decide) (by decide) (by simp)
            (Members.one [.raw 0xf0, .raw 0x9f, .raw 0x98, .raw 0x80] rfl [] [] _ _ (by decide) (by decide)
              (Derives.str [.uni 0x30 0x30 0x65 0x39] rfl)))))⟩
    (by decide +kernel) (by decide +kernel)

end SJ.Proofs.Utf8
