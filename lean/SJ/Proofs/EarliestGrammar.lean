import SJ.Proofs.EofViable
/-!
# C11 at grammar level, without any state predicate

For the scanner of skipped content acceptance IS membership in the grammar (`ign_accepts_iff`:
completeness + soundness). With the simulation of `EarliestSim` this turns the machine-level
statements about ANY run (in particular a `Value` run, whose states may be doomed by a side condition)
into statements about `JsonText`:

* `earliest_grammar_core`: the bytes before the byte at which a step fails have a grammatical
  continuation (whatever the code; `k = 4` inside a `\u` group);
* `dead_grammar_core`: if the code is a grammar code (`sideCode c = false`), no continuation of the
  bytes up to and including that byte is a JSON text;
* `eof_grammar_core`: where `finish` fails with an Eof-classified code the input is a proper prefix of
  a JSON text (minus the unchecked digits of a `\u` group it ends in).
-/
namespace SJ.Proofs.EarliestGrammar
open SJ SJ.Gen SJ.Model.Machine SJ.Proofs.Machine SJ.Proofs.Complete SJ.Proofs.Earliest
open SJ.Proofs.EarliestSim SJ.Proofs.EofViable
open SJ.Spec.Grammar (JsonText CST)

/-- the scanner of skipped content accepts exactly the JSON texts -/
theorem ign_accepts_iff (envI : Env) (hI : envI.tgt = .ignored) (bs : Bytes) :
    (∃ v, parseTop envI bs = .ok v) ↔ ∃ t, JsonText bs t := by
  constructor
  · rintro ⟨v, h⟩
    obtain ⟨t, ht, _⟩ := Sound.parseTop_sound envI bs v h
    exact ⟨t, ht⟩
  · rintro ⟨t, ht⟩
    obtain ⟨v, _, hv⟩ := complete_text envI bs t ht (fun hv => (tgt_absurd hv hI).elim)
    exact ⟨v, hv⟩

/-- the errors of `finish` are Eof-classified or the number-range rejection (a side-condition code) -/
theorem finish_not_grammar (env : Env) (c : Code) (hc : classify c ≠ .eof) (hs : sideCode c = false)
    (s : St) : finish env s ≠ .error c := by
  intro hfin
  rcases tgt_cases env with ht | ht
  · rcases finish_eof_clean_value env ht s c hfin with h1 | h1
    · exact hc h1
    · subst h1; cases hs
  · exact hc (finish_eof_clean_ignored env ht s c hfin)

/-- **earliest, grammar level.** The machine (any environment) consumes `p` and fails on the next byte:
    `p` has a grammatical continuation; inside a `\u` group, whose digits are checked at the fourth one,
    the prefix ending right after `\u` has. No condition on the state. -/
theorem earliest_grammar_core (env : Env) (p : Bytes) (b : UInt8) (s1 : St) (c : Code) (a : Adj)
    (hf : Feeds env init p s1) (hst : step env s1 b = .error (c, a)) :
    (∃ ys t, JsonText (p ++ ys) t) ∨
    ((c = .InvalidEscape ∨ c = .LoneLeadingSurrogateInHexEscape) ∧ 3 ≤ p.length ∧
      (∃ x, p.take (p.length - 3) = x ++ [0x5c, 0x75]) ∧
      ∃ ys t, JsonText (p.take (p.length - 3) ++ ys) t) := by
  obtain ⟨t1, hft, hsim⟩ := feeds_sim env (ign env) (ign_tgt env) init init s1 p sim_init hf
  obtain ⟨hle, hbu, s0, hq, hv⟩ := viable_prefix (ign env) p t1 hft
    (sideOK_ignored _ (ign_tgt env) _) (expOK_ignored _ (ign_tgt env) _)
  have hpend := hexPending_sim hsim
  by_cases h0 : hexPending t1 = 0
  · left
    rw [h0] at hq
    simp only [Nat.sub_zero, List.take_length] at hq
    obtain ⟨ys, v, hv'⟩ := parseTop_of_viable (ign env) p s0 hq hv
    exact ⟨ys, (ign_accepts_iff _ (ign_tgt env) _).mp ⟨v, hv'⟩⟩
  · right
    have h0' : hexPending s1 ≠ 0 := by rw [hpend]; exact h0
    obtain ⟨st, fs, acc, lead, rfl, he, hk⟩ := hexPending_pos h0'
    obtain ⟨h3, hcode⟩ := hex_step_err env st fs b c a acc lead hst he
    have h4 := hexPending_lt (inv_of_feeds hf)
    have hk3 : hexPending t1 = 3 := by omega
    have hbu' := hbu h0
    rw [hk3] at hq hle hbu'
    obtain ⟨ys, v, hv'⟩ := parseTop_of_viable (ign env) _ s0 hq hv
    exact ⟨hcode, hle, hbu', ys, (ign_accepts_iff _ (ign_tgt env) _).mp ⟨v, hv'⟩⟩

/-- **dead, grammar level.** A step failing with a grammar code dooms the bytes up to and including the
    offending one in the grammar itself: no continuation is a JSON text. -/
theorem dead_grammar_core (env : Env) (p : Bytes) (b : UInt8) (s1 : St) (c : Code) (a : Adj)
    (hf : Feeds env init p s1) (hst : step env s1 b = .error (c, a)) (hs : sideCode c = false) :
    ∀ ys t, ¬ JsonText (p ++ b :: ys) t := by
  intro ys t ht
  obtain ⟨t1, hft, hsim⟩ := feeds_sim env (ign env) (ign_tgt env) init init s1 p sim_init hf
  obtain ⟨c', a', hst'⟩ := (step_sim env (ign env) (ign_tgt env) s1 t1 b hsim).2 c a hst hs
  obtain ⟨v, hv⟩ := (ign_accepts_iff (ign env) (ign_tgt env) _).mpr ⟨t, ht⟩
  unfold parseTop at hv
  rw [run_append, hft.to_feed 0] at hv
  simp only [run, hst'] at hv
  cases hv

/-- **Eof, grammar level.** All of `bs` consumed and `finish` fails with an Eof-classified code: `bs`
    (minus the `k ≤ 3` unchecked digits of a `\u` group it ends in) is a PROPER prefix of a JSON text. -/
theorem eof_grammar_core (env : Env) (bs : Bytes) (s : St) (c : Code) (hf : Feeds env init bs s)
    (hfin : finish env s = .error c) (hc : classify c = .eof) :
    ∃ k ys t, (k = 0 ∨ (0 < k ∧ k ≤ 3 ∧ ∃ x, bs.take (bs.length - k) = x ++ [0x5c, 0x75])) ∧
      k ≤ bs.length ∧ ys ≠ [] ∧ JsonText (bs.take (bs.length - k) ++ ys) t := by
  obtain ⟨t1, hft, hsim⟩ := feeds_sim env (ign env) (ign_tgt env) init init s bs sim_init hf
  obtain ⟨c', hfin'⟩ := finish_sim env (ign env) (ign_tgt env) s t1 c hsim hfin hc
  obtain ⟨k, ys, v, hk, hle, hne, hv⟩ := eof_viable_core (ign env) bs t1 c' hft hfin'
    (sideOK_ignored _ (ign_tgt env) _) (expOK_ignored _ (ign_tgt env) _)
  obtain ⟨t, ht⟩ := (ign_accepts_iff _ (ign_tgt env) _).mp ⟨v, hv⟩
  refine ⟨k, ys, t, ?_, hle, hne, ht⟩
  rcases hk with hk | ⟨h1, h2, _, h3⟩
  · exact Or.inl hk
  · exact Or.inr ⟨h1, h2, h3⟩

/-- … and that prefix is not itself a JSON text -/
theorem eof_grammar_core_strong (env : Env) (bs : Bytes) (s : St) (c : Code) (hf : Feeds env init bs s)
    (hfin : finish env s = .error c) (hc : classify c = .eof) :
    ∃ k ys t, (k = 0 ∨ (0 < k ∧ k ≤ 3 ∧ ∃ x, bs.take (bs.length - k) = x ++ [0x5c, 0x75])) ∧
      k ≤ bs.length ∧ ys ≠ [] ∧ JsonText (bs.take (bs.length - k) ++ ys) t ∧
      ∀ t', ¬ JsonText (bs.take (bs.length - k)) t' := by
  obtain ⟨t1, hft, hsim⟩ := feeds_sim env (ign env) (ign_tgt env) init init s bs sim_init hf
  obtain ⟨c', hfin'⟩ := finish_sim env (ign env) (ign_tgt env) s t1 c hsim hfin hc
  obtain ⟨k, ys, v, hk, hle, hne, hv, hnot⟩ := eof_viable_core_strong (ign env) bs t1 c' hft hfin'
    (sideOK_ignored _ (ign_tgt env) _) (expOK_ignored _ (ign_tgt env) _)
  obtain ⟨t, ht⟩ := (ign_accepts_iff _ (ign_tgt env) _).mp ⟨v, hv⟩
  refine ⟨k, ys, t, ?_, hle, hne, ht, fun t' ht' => ?_⟩
  · rcases hk with hk | ⟨h1, h2, _, h3⟩
    · exact Or.inl hk
    · exact Or.inr ⟨h1, h2, h3⟩
  · obtain ⟨v', hv'⟩ := (ign_accepts_iff _ (ign_tgt env) _).mpr ⟨t', ht'⟩
    exact hnot v' hv'

end SJ.Proofs.EarliestGrammar
