import SJ.Model.EscapeLocal
import SJ.Spec.Image
/-!
# C03 helper lemmas, part 2: `format_escaped_str` writes the string literal `quote s`

The one fact `Model.Ser`'s proofs need about string escaping is `escapeStr_spec`; it is stated
against `SJ.Model.EscapeLocal.escapeStr` and can be re-proved against the shared
`SJ.Model.Escape.formatEscapedStr` when the two are merged.
-/
namespace SJ.Proofs.SerEscape
open SJ SJ.Model.EscapeLocal SJ.Spec.Grammar SJ.Spec.Denote SJ.Spec.Image

/-- per byte: unescaped bytes are written as they are, escaped ones as `charEscape` says — and both
    agree with the spelling `escItem` of the specification (checked on all 256 bytes) -/
theorem byte_table : ∀ n : Nat, n < 256 →
    (if escapeKind (UInt8.ofNat n) == 0 then [UInt8.ofNat n] else charEscape (escapeKind (UInt8.ofNat n)) (UInt8.ofNat n))
      = (escItem (UInt8.ofNat n)).bytes := by
  decide +kernel

theorem byte_spec (b : UInt8) :
    (if escapeKind b == 0 then [b] else charEscape (escapeKind b) b) = (escItem b).bytes := by
  have h := byte_table b.toNat b.toNat_lt
  simpa using h

theorem contentsLoop_flatten (frag rest : Bytes) :
    (contentsLoop frag rest).flatten = frag ++ (strItems rest).flatMap StrItem.bytes := by
  induction rest generalizing frag with
  | nil => simp [contentsLoop, strItems]; split <;> simp_all
  | cons b rest ih =>
    have hb := byte_spec b
    simp only [contentsLoop, strItems, List.map_cons, List.flatMap_cons]
    split
    · rename_i h0
      rw [ih]; simp only [h0, if_true] at hb
      simp [strItems, ← hb]
    · rename_i h0
      simp only [h0] at hb
      rw [List.flatten_append, List.flatten_append, ih]
      simp only [strItems, ← hb]
      split <;> simp_all

/-- **the lemma about string escaping used by the serializer proofs**: the buffers written by
    `format_escaped_str` concatenate to the string literal `quote s` -/
theorem escapeStr_spec (s : Bytes) : (escapeStr s).flatten = quote s := by
  simp [escapeStr, escapeContents, contentsLoop_flatten, quote, strBytes]
  rfl

theorem collectStr_spec (s : Bytes) :
    ([Gen.serBeginString] ++ escapeContents s ++ [Gen.serEndString]).flatten = quote s := escapeStr_spec s

end SJ.Proofs.SerEscape

namespace SJ.Proofs.SerEscape
open SJ SJ.Model.EscapeLocal SJ.Spec.Grammar SJ.Spec.Denote SJ.Spec.Image

/-- what one item of the chosen spelling decodes to -/
def itemOK (b : UInt8) : StrItem → Bool
  | .raw c => c == b
  | .esc c => simpleEscape c == b
  | .uni h1 h2 h3 h4 =>
    !isHighSurrogate (uniVal h1 h2 h3 h4) && !isLowSurrogate (uniVal h1 h2 h3 h4) && utf8 (uniVal h1 h2 h3 h4) == [b]

theorem item_table : ∀ n : Nat, n < 256 →
    (escItem (UInt8.ofNat n)).WF = true ∧ itemOK (UInt8.ofNat n) (escItem (UInt8.ofNat n)) = true := by
  decide +kernel

theorem item_spec (b : UInt8) : (escItem b).WF = true ∧ itemOK b (escItem b) = true := by
  simpa using item_table b.toNat b.toNat_lt

theorem strItems_wf (s : Bytes) : StrWF (strItems s) = true := by
  simp only [StrWF, strItems, List.all_map, List.all_eq_true]
  intro b _
  exact (item_spec b).1

theorem decode_strItems (s : Bytes) : decodeItems (strItems s) = some s := by
  induction s with
  | nil => rfl
  | cons b s ih =>
    have h := (item_spec b).2
    simp only [strItems, List.map_cons] at ih ⊢
    cases hi : escItem b with
    | raw c => simp [hi, itemOK] at h; simp [decodeItems, ih, h]
    | esc c => simp [hi, itemOK] at h; simp [decodeItems, ih, h]
    | uni h1 h2 h3 h4 =>
      simp only [hi, itemOK, Bool.and_eq_true, Bool.not_eq_true', beq_iff_eq] at h
      obtain ⟨⟨hh, hl⟩, hu⟩ := h
      unfold decodeItems
      simp [ih, hh, hl, hu]

end SJ.Proofs.SerEscape

/-! ## buffers of an escaped string are ASCII or fragments cut at ASCII bytes -/
namespace SJ.Proofs.SerEscape
open SJ SJ.Model.EscapeLocal

/-- all bytes below 0x80 -/
def Ascii (b : Bytes) : Prop := b.all (· < 0x80) = true

/-- `b` is a contiguous piece of `s` whose neighbours in `s` (if any) are ASCII bytes — so if `s` is
    valid UTF-8 then so is `b` (no multi-byte sequence is cut) -/
def FragOf (s b : Bytes) : Prop :=
  ∃ pre post, s = pre ++ b ++ post ∧ (∀ c, pre.getLast? = some c → c < 0x80) ∧ (∀ c, post.head? = some c → c < 0x80)

theorem escaped_ascii : ∀ n : Nat, n < 256 → (escapeKind (UInt8.ofNat n) == 0) = false →
    UInt8.ofNat n < 0x80 ∧ (charEscape (escapeKind (UInt8.ofNat n)) (UInt8.ofNat n)).all (· < 0x80) = true := by
  decide +kernel

theorem escaped_ascii' (c : UInt8) (h : (escapeKind c == 0) = false) :
    c < 0x80 ∧ Ascii (charEscape (escapeKind c) c) := by
  have := escaped_ascii c.toNat c.toNat_lt (by simpa using h)
  simpa [Ascii] using this

theorem contentsLoop_bufs (s : Bytes) : ∀ (rest pre frag : Bytes), s = pre ++ frag ++ rest →
    (∀ c, pre.getLast? = some c → c < 0x80) →
    ∀ b ∈ contentsLoop frag rest, Ascii b ∨ FragOf s b
  | [], pre, frag, hs, hpre, b, hb => by
    simp only [contentsLoop] at hb
    split at hb
    · simp at hb
    · simp only [List.mem_singleton] at hb
      subst hb
      exact Or.inr ⟨pre, [], by simpa using hs, hpre, by simp⟩
  | c :: rest, pre, frag, hs, hpre, b, hb => by
    simp only [contentsLoop] at hb
    split at hb
    · exact contentsLoop_bufs s rest pre (frag ++ [c]) (by simp [hs]) hpre b hb
    · rename_i hc
      have hc' : (escapeKind c == 0) = false := by simpa using hc
      obtain ⟨hca, hesc⟩ := escaped_ascii' c hc'
      simp only [List.mem_append, List.mem_singleton] at hb
      rcases hb with (hb | hb) | hb
      · split at hb
        · simp at hb
        · simp only [List.mem_singleton] at hb
          subst hb
          exact Or.inr ⟨pre, c :: rest, hs, hpre, by simp [hca]⟩
      · subst hb; exact Or.inl hesc
      · refine contentsLoop_bufs s rest (pre ++ frag ++ [c]) [] (by simp [hs]) ?_ b hb
        intro c' hc''
        simp at hc''
        subst hc''; exact hca

/-- every buffer written for a string is ASCII or a fragment of it cut at ASCII bytes -/
theorem escapeStr_bufs (s : Bytes) : ∀ b ∈ escapeStr s, Ascii b ∨ FragOf s b := by
  intro b hb
  simp only [escapeStr, escapeContents, List.mem_append, List.mem_singleton] at hb
  rcases hb with (hb | hb) | hb
  · subst hb; exact Or.inl (by unfold Ascii; decide)
  · exact contentsLoop_bufs s s [] [] rfl (by simp) b hb
  · subst hb; exact Or.inl (by unfold Ascii; decide)

end SJ.Proofs.SerEscape
