import SJ.Model.TypedSer
import SJ.Proofs.SerValue
import SJ.Spec.Image
/-!
# The image of the serializer program of a typed value is the image of its `Value` (`valueOf`); the program is well-hinted
-/
set_option linter.unusedSectionVars false
set_option linter.unusedVariables false

namespace SJ.Proofs.TypedSer
open SJ SJ.Model.TypedSer SJ.Spec.Program SJ.Spec.Image

variable (ext : Ext) (hext : ExtOK ext)

theorem imageOfValues_map {α : Type} (f : α → JV) : ∀ xs : List α, imageOfValues ext (xs.map f) = xs.map fun x => imageOfValue ext (f x)
  | [] => rfl
  | x :: xs => by simp [imageOfValues, imageOfValues_map f xs]

theorem imageOfMembers_map {α : Type} (f : α → Bytes × JV) : ∀ xs : List α,
    imageOfMembers ext (xs.map f) = xs.map fun x => ((f x).1, imageOfValue ext (f x).2)
  | [] => rfl
  | x :: xs => by
    cases h : f x
    simp [imageOfMembers, h, imageOfMembers_map f xs]

theorem imageList_map {α : Type} (p : α → SVal) (d : α → Spec.Denote.DV) : ∀ xs : List α,
    (∀ x ∈ xs, image ext (p x) = .ok (d x)) → imageList ext (xs.map p) = .ok (xs.map d)
  | [], _ => rfl
  | x :: xs, h => by
    simp only [List.map_cons, imageList, h x (by simp)]
    rw [imageList_map p d xs fun y hy => h y (by simp [hy])]

theorem imageEntries_map {α : Type} (k v : α → SVal) (kt : α → Bytes) (d : α → Spec.Denote.DV) : ∀ xs : List α,
    (∀ x ∈ xs, Spec.Image.keyText ext (k x) = .ok (kt x) ∧ image ext (v x) = .ok (d x)) →
    imageEntries ext (xs.map fun x => (k x, v x)) = .ok (xs.map fun x => (kt x, d x))
  | [], _ => rfl
  | x :: xs, h => by
    simp only [List.map_cons, imageEntries, (h x (by simp)).1, (h x (by simp)).2]
    rw [imageEntries_map k v kt d xs fun y hy => h y (by simp [hy])]

include hext in
theorem keyText_keyProg (k : KeyKind) (a : TVal) (h : wfKey k a = true) :
    Spec.Image.keyText ext (keyProg k a) = .ok (Model.TypedSer.keyText k a) := by
  cases k <;> cases a <;> simp_all [wfKey, keyProg, Model.TypedSer.keyText, Spec.Image.keyText, hext.itoa_decimal, litTrue, litFalse]

include hext in
theorem image_intJV (n : Int) : imageOfValue ext (intJV n) = numOf (ext.itoa n) := by
  unfold intJV
  split
  · rfl
  · rename_i h
    simp only [imageOfValue]
    congr 2
    omega

include hext in
mutual
theorem image_progOf : ∀ (s : Schema) (v : TVal), wfTV s v = true →
    image ext (progOf s v) = .ok (imageOfValue ext (valueOf s v))
  | .bool, v, h => by cases v <;> simp_all [wfTV, progOf, valueOf, image, imageOfValue]
  | .int w, v, h => by
    cases v <;> simp_all [wfTV, progOf, valueOf, image]
    rw [image_intJV ext hext]
  | .f64, v, h => by cases v <;> simp_all [wfTV, progOf, valueOf, image, imageOfValue]
  | .f32, v, h => by simp [wfTV] at h
  | .char, v, h => by cases v <;> simp_all [wfTV, progOf, valueOf, image, imageOfValue]
  | .string, v, h => by cases v <;> simp_all [wfTV, progOf, valueOf, image, imageOfValue]
  | .bytes, v, h => by
    cases v <;> simp_all [wfTV, progOf, valueOf, image, imageOfValue]
    rw [imageOfValues_map]
    simp [imageOfValue]
  | .option s, v, h => by
    cases v with
    | none => simp [progOf, valueOf, image, imageOfValue]
    | some x =>
      simp only [wfTV, Bool.and_eq_true] at h
      simp only [progOf, valueOf, image]
      exact image_progOf s x h.1
    | _ => simp [wfTV] at h
  | .unit, v, h => by simp [progOf, valueOf, image, imageOfValue]
  | .unitStruct, v, h => by simp [progOf, valueOf, image, imageOfValue]
  | .newtype s, v, h => by
    simp only [wfTV] at h
    simp only [progOf, valueOf, image]
    exact image_progOf s v h
  | .seq s, v, h => by
    cases v with
    | seq xs =>
      simp only [wfTV, List.all_eq_true] at h
      simp only [progOf, valueOf, image, imageOfValue]
      rw [imageList_map ext (progOf s) (fun x => imageOfValue ext (valueOf s x)) xs fun x hx => image_progOf s x (h x hx)]
      rw [imageOfValues_map]
      rfl
    | _ => simp [wfTV] at h
  | .tuple ss, v, h => by
    cases v with
    | seq xs =>
      simp only [wfTV] at h
      simp only [progOf, valueOf, image, imageOfValue]
      rw [image_progTuple ss xs h]
      rfl
    | _ => simp [wfTV] at h
  | .map k s, v, h => by
    cases v with
    | map kvs =>
      simp only [wfTV, List.all_eq_true, Bool.and_eq_true] at h
      simp only [progOf, valueOf, image, imageOfValue]
      rw [imageEntries_map ext (fun kv => keyProg k kv.1) (fun kv => progOf s kv.2) (fun kv => Model.TypedSer.keyText k kv.1)
        (fun kv => imageOfValue ext (valueOf s kv.2)) kvs
        fun kv hx => ⟨keyText_keyProg ext hext k kv.1 (h kv hx).1, image_progOf s kv.2 (h kv hx).2⟩]
      rw [imageOfMembers_map]
      rfl
    | _ => simp [wfTV] at h
  | .struct_ fs d, v, h => by
    cases v with
    | struct_ xs =>
      simp only [wfTV, Bool.and_eq_true] at h
      simp only [progOf, valueOf, image, imageOfValue]
      rw [image_progFields fs xs h.2]
      rfl
    | _ => simp [wfTV] at h
  | .enum_ vs, v, h => by
    cases v with
    | variant i p =>
      simp only [wfTV, Bool.and_eq_true] at h
      simp only [progOf, valueOf]
      exact image_progVariant vs i p h.2
    | _ => simp [wfTV] at h
  | .ignored, v, h => by simp [wfTV] at h
  | .any, v, h => by
    cases v with
    | any j => simp only [progOf, valueOf]; exact SJ.Proofs.SerValue.image_ofValue ext j
    | _ => simp [wfTV] at h
theorem image_progTuple : ∀ (ss : List Schema) (xs : List TVal), wfTuple ss xs = true →
    imageList ext (progTuple ss xs) = .ok (imageOfValues ext (valueTuple ss xs))
  | [], xs, h => by simp [progTuple, valueTuple, imageList, imageOfValues]
  | s :: ss, [], h => by simp [wfTuple] at h
  | s :: ss, x :: xs, h => by
    simp only [wfTuple, Bool.and_eq_true] at h
    simp only [progTuple, valueTuple, imageList, imageOfValues, image_progOf s x h.1, image_progTuple ss xs h.2]
theorem image_progFields : ∀ (fs : List (Bytes × Schema)) (xs : List TVal), Model.TypedSer.wfFields fs xs = true →
    imageFields ext (progFields fs xs) = .ok (imageOfMembers ext (valueFields fs xs))
  | [], xs, h => by simp [progFields, valueFields, imageFields, imageOfMembers]
  | (n, s) :: fs, [], h => by simp [Model.TypedSer.wfFields] at h
  | (n, s) :: fs, x :: xs, h => by
    simp only [Model.TypedSer.wfFields, Bool.and_eq_true] at h
    simp only [progFields, valueFields, imageFields, imageOfMembers, image_progOf s x h.1, image_progFields fs xs h.2]
theorem image_progVariant : ∀ (vs : List (Bytes × VariantShape)) (i : Nat) (p : TVal), wfVariant vs i p = true →
    image ext (progVariant vs i p) = .ok (imageOfValue ext (valueVariant vs i p))
  | [], i, p, h => by simp [wfVariant] at h
  | (n, sh) :: vs, 0, p, h => by
    simp only [wfVariant] at h
    simp only [progVariant, valueVariant]
    exact image_progShape n sh p h
  | (n, sh) :: vs, i + 1, p, h => by
    simp only [wfVariant] at h
    simp only [progVariant, valueVariant]
    exact image_progVariant vs i p h
theorem image_progShape : ∀ (n : Bytes) (sh : VariantShape) (p : TVal), wfShape sh p = true →
    image ext (progShape n sh p) = .ok (imageOfValue ext (valueShape n sh p))
  | n, .unit, p, h => by simp [progShape, valueShape, image, imageOfValue]
  | n, .newtype s, p, h => by
    simp only [wfShape] at h
    simp only [progShape, valueShape, image, image_progOf s p h]
    rfl
  | n, .tuple ss, p, h => by
    cases p with
    | seq xs =>
      simp only [wfShape] at h
      simp only [progShape, valueShape, image, image_progTuple ss xs h]
      rfl
    | _ => simp [wfShape] at h
  | n, .struct_ fs, p, h => by
    cases p with
    | struct_ xs =>
      simp only [wfShape, Bool.and_eq_true] at h
      simp only [progShape, valueShape, image, image_progFields fs xs h.2]
      rfl
    | _ => simp [wfShape] at h
end

/-! ## the hints of the program are the exact lengths -/

theorem wfList_map {α : Type} (p : α → SVal) : ∀ xs : List α, (∀ x ∈ xs, (p x).wf = true) → wfList (xs.map p) = true
  | [], _ => rfl
  | x :: xs, h => by
    simp only [List.map_cons, wfList, Bool.and_eq_true]
    exact ⟨h x (by simp), wfList_map p xs fun y hy => h y (by simp [hy])⟩

theorem wfEntries_map {α : Type} (k v : α → SVal) : ∀ xs : List α, (∀ x ∈ xs, (k x).wf = true ∧ (v x).wf = true) →
    wfEntries (xs.map fun x => (k x, v x)) = true
  | [], _ => rfl
  | x :: xs, h => by
    simp only [List.map_cons, wfEntries, Bool.and_eq_true]
    exact ⟨⟨(h x (by simp)).1, (h x (by simp)).2⟩, wfEntries_map k v xs fun y hy => h y (by simp [hy])⟩

theorem keyProg_wf (k : KeyKind) (a : TVal) : (keyProg k a).wf = true := by
  cases k <;> cases a <;> simp [keyProg, SVal.wf]

mutual
theorem progOf_wf : ∀ (s : Schema) (v : TVal), wfTV s v = true → (progOf s v).wf = true
  | .bool, v, _ => by cases v <;> simp [progOf, SVal.wf]
  | .int w, v, _ => by cases v <;> simp [progOf, SVal.wf]
  | .f64, v, _ => by cases v <;> simp [progOf, SVal.wf]
  | .f32, v, _ => by cases v <;> simp [progOf, SVal.wf]
  | .char, v, _ => by cases v <;> simp [progOf, SVal.wf]
  | .string, v, _ => by cases v <;> simp [progOf, SVal.wf]
  | .bytes, v, _ => by cases v <;> simp [progOf, SVal.wf]
  | .option s, v, h => by
    cases v with
    | some x =>
      simp only [wfTV, Bool.and_eq_true] at h
      simp only [progOf, SVal.wf]; exact progOf_wf s x h.1
    | _ => simp [progOf, SVal.wf]
  | .unit, v, _ => by simp [progOf, SVal.wf]
  | .unitStruct, v, _ => by simp [progOf, SVal.wf]
  | .newtype s, v, h => by simp only [wfTV] at h; simp only [progOf, SVal.wf]; exact progOf_wf s v h
  | .seq s, v, h => by
    cases v with
    | seq xs =>
      simp only [wfTV, List.all_eq_true] at h
      simp only [progOf, SVal.wf, hintOK, List.length_map, beq_self_eq_true, Bool.true_and]
      exact wfList_map _ _ fun x hx => progOf_wf s x (h x hx)
    | _ => simp [progOf, SVal.wf]
  | .tuple ss, v, h => by
    cases v with
    | seq xs => simp only [wfTV] at h; simp only [progOf, SVal.wf]; exact progTuple_wf ss xs h
    | _ => simp [progOf, SVal.wf]
  | .map k s, v, h => by
    cases v with
    | map kvs =>
      simp only [wfTV, List.all_eq_true, Bool.and_eq_true] at h
      simp only [progOf, SVal.wf, hintOK, List.length_map, beq_self_eq_true, Bool.true_and]
      exact wfEntries_map _ _ _ fun x hx => ⟨keyProg_wf k x.1, progOf_wf s x.2 (h x hx).2⟩
    | _ => simp [progOf, SVal.wf]
  | .struct_ fs d, v, h => by
    cases v with
    | struct_ xs => simp only [wfTV, Bool.and_eq_true] at h; simp only [progOf, SVal.wf]; exact progFields_wf fs xs h.2
    | _ => simp [progOf, SVal.wf]
  | .enum_ vs, v, h => by
    cases v with
    | variant i p => simp only [wfTV, Bool.and_eq_true] at h; simp only [progOf]; exact progVariant_wf vs i p h.2
    | _ => simp [progOf, SVal.wf]
  | .ignored, v, _ => by simp [progOf, SVal.wf]
  | .any, v, h => by
    cases v with
    | any j => simp only [wfTV] at h; simp only [progOf]; exact SJ.Proofs.SerValue.ofValue_wf j h
    | _ => simp [progOf, SVal.wf]
theorem progTuple_wf : ∀ (ss : List Schema) (xs : List TVal), wfTuple ss xs = true → wfList (progTuple ss xs) = true
  | [], xs, _ => by simp [progTuple, wfList]
  | s :: ss, [], _ => by simp [progTuple, wfList]
  | s :: ss, x :: xs, h => by
    simp only [wfTuple, Bool.and_eq_true] at h
    simp [progTuple, wfList, progOf_wf s x h.1, progTuple_wf ss xs h.2]
theorem progFields_wf : ∀ (fs : List (Bytes × Schema)) (xs : List TVal), Model.TypedSer.wfFields fs xs = true →
    Spec.Program.wfFields (progFields fs xs) = true
  | [], xs, _ => by simp [progFields, Spec.Program.wfFields]
  | (n, s) :: fs, [], _ => by simp [progFields, Spec.Program.wfFields]
  | (n, s) :: fs, x :: xs, h => by
    simp only [Model.TypedSer.wfFields, Bool.and_eq_true] at h
    simp [progFields, Spec.Program.wfFields, progOf_wf s x h.1, progFields_wf fs xs h.2]
theorem progVariant_wf : ∀ (vs : List (Bytes × VariantShape)) (i : Nat) (p : TVal), wfVariant vs i p = true →
    (progVariant vs i p).wf = true
  | [], i, p, _ => by simp [progVariant, SVal.wf]
  | (n, sh) :: vs, 0, p, h => by simp only [wfVariant] at h; simp only [progVariant]; exact progShape_wf n sh p h
  | (n, sh) :: vs, i + 1, p, h => by simp only [wfVariant] at h; simp only [progVariant]; exact progVariant_wf vs i p h
theorem progShape_wf : ∀ (n : Bytes) (sh : VariantShape) (p : TVal), wfShape sh p = true → (progShape n sh p).wf = true
  | n, .unit, p, _ => by simp [progShape, SVal.wf]
  | n, .newtype s, p, h => by simp only [wfShape] at h; simp only [progShape, SVal.wf]; exact progOf_wf s p h
  | n, .tuple ss, p, h => by
    cases p with
    | seq xs => simp only [wfShape] at h; simp only [progShape, SVal.wf]; exact progTuple_wf ss xs h
    | _ => simp [progShape, SVal.wf]
  | n, .struct_ fs, p, h => by
    cases p with
    | struct_ xs => simp only [wfShape, Bool.and_eq_true] at h; simp only [progShape, SVal.wf]; exact progFields_wf fs xs h.2
    | _ => simp [progShape, SVal.wf]
end

end SJ.Proofs.TypedSer
