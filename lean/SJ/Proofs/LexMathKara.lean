import SJ.Proofs.LexMathMul
import SJ.Proofs.LexMathTables
/-!
# `karatsuba_mul`: the fuel of the model is immaterial

`Model.LexMath.large.karatsubaMul` recurses on fuel because the Rust recursion is on `y.len()`, which strictly
decreases along every recursive call once `y.len() > KARATSUBA_CUTOFF`. Here: any two fuels above `y.len()` give the
same result — so a `none` of `karatsubaMul (y.len() + 1) x y` (what `karatsubaMulFwd`, the driver and
`c07_karatsuba_panics` use) is a panic of the Rust, never an exhausted fuel.
-/
namespace SJ.Proofs.LexMath
open SJ.Model.LexMath SJ.Gen

theorem carryLoop_length_le' (c : Bool) (xs : Limbs) : (small.carryLoop c xs).length ≤ xs.length + 1 := by
  induction xs generalizing c with
  | nil => cases c <;> simp [small.carryLoop]
  | cons x xs ih => cases c <;> simp [small.carryLoop]; exact ih _

theorem small_iaddImpl_length_le' (x : Limbs) (y xstart : Nat) : (small.iaddImpl x y xstart).length ≤ x.length + 1 := by
  unfold small.iaddImpl
  split
  · simp
  · split
    · simp
    · rename_i xi rest hd
      simp only [List.length_append, List.length_cons, List.length_take]
      have := carryLoop_length_le' (scalar.iadd xi y).2 rest
      have h2 : (x.drop xstart).length = rest.length + 1 := by rw [hd]; simp
      simp at h2
      omega

theorem iaddLoop_length (xs ys : Limbs) (c : Bool) : (large.iaddLoop xs ys c).1.length = xs.length := by
  induction xs generalizing ys c with
  | nil => cases ys <;> simp [large.iaddLoop]
  | cons x xs ih =>
    cases ys with
    | nil => simp [large.iaddLoop]
    | cons y ys => simp [large.iaddLoop, ih]

theorem large_add_length_le (x y : Limbs) : (large.add x y).length ≤ max x.length y.length + 1 := by
  unfold large.add large.iadd large.iaddImpl
  simp only [Nat.not_lt_zero, if_false, Nat.sub_zero, Nat.add_zero, List.drop_zero, List.take_zero, List.nil_append,
    Option.getD_some]
  have hr : ∀ (x' : Limbs), (if (large.iaddLoop x' y false).2 = true then
      small.iaddImpl (large.iaddLoop x' y false).1 1 y.length else (large.iaddLoop x' y false).1).length ≤ x'.length + 1 := by
    intro x'
    split
    · have := small_iaddImpl_length_le' (large.iaddLoop x' y false).1 1 y.length
      rw [iaddLoop_length] at this; exact this
    · rw [iaddLoop_length]; omega
  by_cases h : y.length > x.length
  · simp only [h, if_true]
    refine Nat.le_trans (hr _) ?_
    unfold large.resize
    rw [if_neg (by omega)]; simp; omega
  · simp only [h, if_false]
    exact Nat.le_trans (hr _) (by omega)

theorem unevenLoop_congr (k1 k2 : Limbs → Limbs → Option Limbs) (x : Limbs)
    (h : ∀ yl, yl.length ≤ x.length → k1 x yl = k2 x yl) :
    ∀ (k : Nat) (y res : Limbs) (st : Nat), large.unevenLoop k1 x k y res st = large.unevenLoop k2 x k y res st := by
  intro k
  induction k with
  | zero => intro y res st; rfl
  | succ k ih =>
    intro y res st
    unfold large.unevenLoop
    by_cases he : y.isEmpty
    · simp [he]
    · simp only [he, Bool.false_eq_true, if_false]
      unfold large.karatsubaSplit
      rw [if_neg (by omega)]
      simp only [Option.bind_eq_bind, Option.bind_some]
      rw [h (y.take (min x.length y.length)) (by simp)]
      cases k2 x (y.take (min x.length y.length)) with
      | none => rfl
      | some prod =>
        simp only [Option.bind_some]
        cases large.iaddImpl res prod st with
        | none => rfl
        | some r => simp only [Option.bind_some]; exact ih _ _ _

/-- **fuel is immaterial** above `y.len()` -/
theorem karatsubaMul_fuel (n : Nat) : ∀ (x y : Limbs) (f1 f2 : Nat), y.length ≤ n → y.length < f1 → y.length < f2 →
    large.karatsubaMul f1 x y = large.karatsubaMul f2 x y := by
  induction n with
  | zero =>
    intro x y f1 f2 hn h1 h2
    obtain ⟨g1, rfl⟩ : ∃ g, f1 = g + 1 := ⟨f1 - 1, by omega⟩
    obtain ⟨g2, rfl⟩ : ∃ g, f2 = g + 1 := ⟨f2 - 1, by omega⟩
    unfold large.karatsubaMul
    have hc : y.length ≤ karatsubaCutoff := by omega
    rw [if_pos hc, if_pos hc]
  | succ n ih =>
    intro x y f1 f2 hn h1 h2
    obtain ⟨g1, rfl⟩ : ∃ g, f1 = g + 1 := ⟨f1 - 1, by omega⟩
    obtain ⟨g2, rfl⟩ : ∃ g, f2 = g + 1 := ⟨f2 - 1, by omega⟩
    unfold large.karatsubaMul
    by_cases hc : y.length ≤ karatsubaCutoff
    · rw [if_pos hc, if_pos hc]
    · rw [if_neg hc, if_neg hc]
      have hcut : karatsubaCutoff = 32 := SJ.Proofs.LexMathTables.consts.2.1
      rw [hcut] at hc
      by_cases hu : x.length < y.length / 2
      · rw [if_pos hu, if_pos hu]
        unfold large.karatsubaUnevenMul
        dsimp only
        rw [unevenLoop_congr (large.karatsubaMul g1) (large.karatsubaMul g2) x
          (fun yl hyl => ih x yl g1 g2 (by omega) (by omega) (by omega))]
      · rw [if_neg hu, if_neg hu]
        dsimp only
        cases hsx : large.karatsubaSplit x (y.length / 2) with
        | none => rfl
        | some px =>
          obtain ⟨xl, xh⟩ := px
          cases hsy : large.karatsubaSplit y (y.length / 2) with
          | none => rfl
          | some py =>
            obtain ⟨yl, yh⟩ := py
            have ⟨_, ey1, ey2, ey3, _⟩ := karatsubaSplit_some hsy
            have hyh : yh.length = y.length - y.length / 2 := by rw [ey2]; simp
            have hsum := large_add_length_le yl yh
            have e0 := ih xl yl g1 g2 (by omega) (by omega) (by omega)
            have e1 := ih (large.add xl xh) (large.add yl yh) g1 g2 (by omega) (by omega) (by omega)
            have e2 := ih xh yh g1 g2 (by omega) (by omega) (by omega)
            simp only [Option.bind_eq_bind, Option.bind_some, e0, e1, e2]

/-- the fuel `karatsubaFuel x y = y.len() + 1` decides: more fuel never changes the answer -/
theorem karatsubaMul_fuel_enough (x y : Limbs) (f : Nat) (h : y.length < f) :
    large.karatsubaMul f x y = large.karatsubaMul (large.karatsubaFuel x y) x y :=
  karatsubaMul_fuel y.length x y f _ (Nat.le_refl _) h (by unfold large.karatsubaFuel; omega)

end SJ.Proofs.LexMath
