import SJ.Proofs.Utf8
import SJ.Spec.Grammar
import SJ.Proofs.Sound.Str
/-!
# Escape-decoding a well-formed UTF-8 string literal yields well-formed UTF-8

`decodeItems_utf8`: if the bytes of a string literal (`strBytes items`, equivalently the bytes between
the quotes) are valid UTF-8, the items are well-formed and the surrogate escapes are paired, then
`decodeItems items = some s` with `validUtf8 s`. Escapes are ASCII, so they cut the raw text at
ASCII positions (`validUtf8_ascii_split_eq`); a non-surrogate `\uXXXX` and a merged pair decode to the
encoding of a scalar value (`validUtf8_utf8`); the raw bytes between escapes are copied.
-/
namespace SJ.Proofs.Utf8
open SJ SJ.Spec.Utf8 SJ.Spec.Grammar SJ.Spec.Denote

theorem isHex_facts {a : UInt8} (h : isHex a = true) : a < 0x80 ∧ Spec.Grammar.hexVal a ≤ 15 := by
  simp only [isHex, Spec.Grammar.hexVal, UInt8.lt_iff_toNat_lt, UInt8.le_iff_toNat_le, Bool.or_eq_true,
    Bool.and_eq_true, decide_eq_true_eq] at *
  simp at *
  refine ⟨by omega, ?_⟩
  split
  · omega
  · split <;> omega

theorem isSimpleEscape_ascii {c : UInt8} (h : isSimpleEscape c = true) : c < 0x80 ∧ simpleEscape c < 0x80 := by
  simp only [isSimpleEscape, Bool.or_eq_true, beq_iff_eq] at h
  rcases h with ((((((h | h) | h) | h) | h) | h) | h) | h <;> subst h <;> decide

theorem uniVal_lt {a b c d : UInt8} (ha : isHex a = true) (hb : isHex b = true) (hc : isHex c = true)
    (hd : isHex d = true) : uniVal a b c d < 0x10000 := by
  have := (isHex_facts ha).2; have := (isHex_facts hb).2; have := (isHex_facts hc).2
  have := (isHex_facts hd).2
  unfold uniVal; omega

theorem uni_wf {a b c d : UInt8} (h : (StrItem.uni a b c d).WF = true) :
    isHex a = true ∧ isHex b = true ∧ isHex c = true ∧ isHex d = true := by
  simpa [StrItem.WF, and_assoc] using h

theorem bs_ascii : (0x5c : UInt8) < 0x80 := by decide
theorem u_ascii : (0x75 : UInt8) < 0x80 := by decide
theorem quote_ascii : (0x22 : UInt8) < 0x80 := by decide

/-- a `\uXXXX` escape in the middle of a text: six ASCII bytes -/
theorem validUtf8_uni_split (pre rest : Bytes) {a b c d : UInt8} (h : (StrItem.uni a b c d).WF = true) :
    validUtf8 (pre ++ ((StrItem.uni a b c d).bytes ++ rest)) = (validUtf8 pre && validUtf8 rest) := by
  obtain ⟨ha, hb, hc, hd⟩ := uni_wf h
  simp only [StrItem.bytes, List.cons_append, List.nil_append]
  rw [validUtf8_ascii_split_eq _ _ _ bs_ascii, validUtf8_cons_ascii u_ascii,
    validUtf8_cons_ascii (isHex_facts ha).1, validUtf8_cons_ascii (isHex_facts hb).1,
    validUtf8_cons_ascii (isHex_facts hc).1, validUtf8_cons_ascii (isHex_facts hd).1]

/-- the generalised statement: `pre` is the raw text copied since the last escape -/
theorem decodeItems_utf8_aux (items : List StrItem) (hwf : StrWF items = true)
    (hsur : surrogatesPairedStr items = true) :
    ∀ pre : Bytes, validUtf8 (pre ++ items.flatMap StrItem.bytes) = true →
      ∃ s, decodeItems items = some s ∧ validUtf8 (pre ++ s) = true := by
  fun_induction decodeItems items
  case case1 => intro pre h; exact ⟨[], rfl, h⟩
  case case2 b rest ih =>
    intro pre h
    simp only [StrWF, List.all_cons, Bool.and_eq_true] at hwf
    have hs : surrogatesPairedStr rest = true := by simpa [surrogatesPairedStr] using hsur
    obtain ⟨s, hs1, hs2⟩ := ih hwf.2 hs (pre ++ [b]) (by simpa [StrItem.bytes] using h)
    exact ⟨b :: s, by simp [hs1], by simpa using hs2⟩
  case case3 c rest ih =>
    intro pre h
    simp only [StrWF, List.all_cons, Bool.and_eq_true, StrItem.WF] at hwf
    have hs : surrogatesPairedStr rest = true := by simpa [surrogatesPairedStr] using hsur
    obtain ⟨hc1, hc2⟩ := isSimpleEscape_ascii hwf.1
    simp only [List.flatMap_cons, StrItem.bytes, List.cons_append, List.nil_append] at h
    rw [validUtf8_ascii_split_eq _ _ _ bs_ascii, validUtf8_cons_ascii hc1, Bool.and_eq_true] at h
    obtain ⟨s, hs1, hs2⟩ := ih hwf.2 hs [] h.2
    refine ⟨simpleEscape c :: s, by simp [hs1], ?_⟩
    rw [validUtf8_ascii_split_eq _ _ _ hc2, h.1]; exact hs2
  case case4 a b c d n h1 e f g h' rest m h2 ih =>
    intro pre h
    simp only [StrWF, List.all_cons, Bool.and_eq_true] at hwf
    obtain ⟨hw1, hw2, hw3⟩ := hwf
    have hs : surrogatesPairedStr rest = true := by
      rw [surrogatesPairedStr.eq_def] at hsur
      simp only [h1, n, if_true, Bool.and_eq_true] at hsur
      exact hsur.2
    simp only [List.flatMap_cons] at h
    rw [validUtf8_uni_split _ _ hw1, ← List.nil_append (StrItem.bytes _ ++ _), validUtf8_uni_split _ _ hw2,
      Bool.and_eq_true, Bool.and_eq_true] at h
    obtain ⟨s, hs1, hs2⟩ := ih hw3 hs [] h.2.2
    refine ⟨utf8 (0x10000 + (n - 0xD800) * 0x400 + (m - 0xDC00)) ++ s, by simp [hs1], ?_⟩
    rw [validUtf8_append_eq _ _ h.1]
    refine validUtf8_append (validUtf8_utf8 _ ?_) hs2
    simp only [isHighSurrogate, isLowSurrogate, Bool.and_eq_true, decide_eq_true_eq] at h1 h2
    omega
  case case5 a b c d n h1 e f g h' rest m h2 =>
    rw [surrogatesPairedStr.eq_def] at hsur
    simp only [h1, n, if_true, Bool.and_eq_true] at hsur
    exact absurd hsur.1 h2
  case case6 a b c d rest n h1 hne =>
    rw [surrogatesPairedStr.eq_def] at hsur
    simp only [h1, n, if_true] at hsur
    first
      | cases hsur
      | (split at hsur
         · exact absurd rfl (hne _ _ _ _ _)
         · cases hsur)
  case case7 a b c d rest n h1 h2 =>
    rw [surrogatesPairedStr.eq_def] at hsur
    simp only [h1, h2, n, if_true] at hsur
    cases hsur
  case case8 a b c d rest n h1 h2 ih =>
    intro pre h
    simp only [StrWF, List.all_cons, Bool.and_eq_true] at hwf
    have hs : surrogatesPairedStr rest = true := by
      rw [surrogatesPairedStr.eq_def] at hsur
      simpa [h1, h2, n] using hsur
    simp only [List.flatMap_cons] at h
    rw [validUtf8_uni_split _ _ hwf.1, Bool.and_eq_true] at h
    obtain ⟨s, hs1, hs2⟩ := ih hwf.2 hs [] h.2
    refine ⟨utf8 n ++ s, by simp [hs1], ?_⟩
    rw [validUtf8_append_eq _ _ h.1]
    refine validUtf8_append (validUtf8_utf8 _ ?_) hs2
    obtain ⟨ha, hb, hc, hd⟩ := uni_wf hwf.1
    have := uniVal_lt ha hb hc hd
    simp only [isHighSurrogate, isLowSurrogate, Bool.and_eq_true, decide_eq_true_eq] at h1 h2
    omega

/-- the bytes of a literal are valid UTF-8 iff the bytes between the quotes are -/
theorem validUtf8_strBytes (items : List StrItem) :
    validUtf8 (strBytes items) = validUtf8 (items.flatMap StrItem.bytes) := by
  unfold strBytes
  rw [List.append_assoc, List.singleton_append, validUtf8_cons_ascii quote_ascii,
    validUtf8_ascii_split_eq _ _ _ quote_ascii]
  simp [validUtf8]

/-- **escape-decoding valid UTF-8 yields valid UTF-8** (inner form: the bytes between the quotes) -/
theorem decodeItems_utf8_inner (items : List StrItem) (hwf : StrWF items = true)
    (hsur : surrogatesPairedStr items = true)
    (hraw : validUtf8 (items.flatMap StrItem.bytes) = true) :
    ∃ s, decodeItems items = some s ∧ validUtf8 s = true := by
  simpa using decodeItems_utf8_aux items hwf hsur [] (by simpa using hraw)

/-- **escape-decoding valid UTF-8 yields valid UTF-8**: a well-formed string literal with paired
    surrogate escapes whose bytes are valid UTF-8 decodes, and to valid UTF-8 -/
theorem decodeItems_utf8 (items : List StrItem) (hwf : StrWF items = true)
    (hsur : surrogatesPairedStr items = true) (hraw : validUtf8 (strBytes items) = true) :
    ∃ s, decodeItems items = some s ∧ validUtf8 s = true :=
  decodeItems_utf8_inner items hwf hsur (by rw [← validUtf8_strBytes]; exact hraw)

/-- `"éé😀\n😀"`: raw two-byte and four-byte characters, a BMP escape, a pair, `\n` -/
example : ∃ s, decodeItems [.raw 0xc3, .raw 0xa9, .uni 0x30 0x30 0x65 0x39, .uni 0x64 0x38 0x33 0x64,
      .uni 0x64 0x65 0x30 0x30, .esc 0x6e, .raw 0xf0, .raw 0x9f, .raw 0x98, .raw 0x80] = some s ∧
    validUtf8 s = true :=
  decodeItems_utf8 _ (by decide) (by decide) (by decide +kernel)
example : decodeItems [.raw 0xc3, .raw 0xa9, .uni 0x30 0x30 0x65 0x39, .uni 0x64 0x38 0x33 0x64,
      .uni 0x64 0x65 0x30 0x30, .esc 0x6e, .raw 0xf0, .raw 0x9f, .raw 0x98, .raw 0x80] =
    some [0xc3, 0xa9, 0xc3, 0xa9, 0xf0, 0x9f, 0x98, 0x80, 0x0a, 0xf0, 0x9f, 0x98, 0x80] := by decide +kernel
/-- the UTF-8 hypothesis is needed: a raw continuation byte alone is copied as is -/
example : decodeItems [.raw 0xa9] = some [0xa9] ∧ validUtf8 [0xa9] = false := by decide +kernel

end SJ.Proofs.Utf8
