import SJ.Proofs.MachineRvScan
/-!
# The raw scan on JSON texts: a syntax tree without raw-token first keys has no hit

`rawscan_of_rawTokenFree : JsonText bs t → rawTokenFree t = true → hasRawTokenFirstKey bs = false` — by mutual induction on
the derivation, as `Proofs.MachineAp.scan_of_tokenFree`: the modes are those of `mode_all`; the flag can only be raised at
the closing quote of a first key, where the decoded key is compared with the raw token (`rawScan_string`).
-/
namespace SJ.Proofs.MachineRv
open SJ SJ.Gen SJ.Model SJ.Model.Machine SJ.Proofs.Sound
open SJ.Spec.Grammar (CST StrItem StrWF strBytes Ws NumParts Derives Elems Members JsonText)
open SJ.Spec.PrivateToken (LexSt LMode lexStep lexRun)
open SJ.Spec.PrivateTokenRv (rawHitStep rawScan hasRawTokenFirstKey isRawTokenKey firstKeyIsRawToken rawTokenFree rawTokenFreeList
  rawTokenFreeMembers)
open SJ.Proofs.MachineAp (QM qm_ws qm_one qm_string lexRun_cons lexRun_append lexRun_ws quiet_plain number_plain brace_open
  mode_derives)

/-- over `bs` the scan ends outside strings, not after a `{`, and the raw flag is not raised -/
def RQ (l : LexSt) (bs : Bytes) : Prop := QM l bs ∧ ∀ hit, rawScan l hit bs = hit

theorem RQ.append {l : LexSt} {xs ys : Bytes} (h1 : RQ l xs) (h2 : RQ (lexRun l xs) ys) : RQ l (xs ++ ys) :=
  ⟨h1.1.append h2.1, fun hit => by rw [rawScan_append, h1.2, h2.2]⟩

theorem rq_ws (l : LexSt) (w : Bytes) (hl : l.mode = .out false) (hw : Ws w) : RQ l w :=
  ⟨qm_ws l w hl hw, fun hit => rawScan_ws w l false hit hl hw⟩

theorem rq_one (l : LexSt) (br : Bool) (b : UInt8) (hl : l.mode = .out br) (h1 : (b == 0x22) = false)
    (h2 : (b == 0x7b) = false) (h3 : Spec.Grammar.isWs b = false) : RQ l [b] :=
  ⟨qm_one l br b hl h1 h2 h3, fun hit => rawScan_one l br hit b hl⟩

theorem take_plain {bs ys zs : Bytes} (hx : bs = ys ++ zs) (h : ∀ x ∈ bs, (x == 0x22) = false ∧ (x == 0x7b) = false) :
    ∀ x ∈ ys, (x == 0x22) = false ∧ (x == 0x7b) = false :=
  fun x hxm => h x (by rw [hx]; exact List.mem_append_left _ hxm)

theorem rq_plain (bs : Bytes) (l : LexSt) (hl : l.mode = .out false)
    (h : ∀ x ∈ bs, (x == 0x22) = false ∧ (x == 0x7b) = false) : RQ l bs :=
  ⟨(quiet_plain bs l hl h).1, fun hit => rawScan_outside bs l hit fun ys _ hx _ =>
    ⟨false, (quiet_plain ys l hl (take_plain hx h)).1⟩⟩

theorem rq_string (l : LexSt) (br : Bool) (items : List StrItem) (hl : l.mode = .out br) (hwf : StrWF items = true)
    (hk : br = true → isRawTokenKey items = false) : RQ l (strBytes items) :=
  ⟨qm_string l br items hl hwf, fun hit => by
    rw [rawScan_string l br hit items hl hwf]
    cases br with
    | false => simp
    | true => simp [hk rfl]⟩

def LV (vb : Bytes) (t : CST) : Prop := rawTokenFree t = true → ∀ l : LexSt, l.mode = .out false → RQ l vb
def LE (b : Bytes) (xs : List CST) : Prop := rawTokenFreeList xs = true → ∀ l : LexSt, l.mode = .out false → RQ l b
def LM (b : Bytes) (ms : List (List StrItem × CST)) : Prop :=
  rawTokenFreeMembers ms = true → ∀ (first : Bool) (l : LexSt), l.mode = .out first →
    (first = true → firstKeyIsRawToken ms = false) → RQ l b

/-- a member `"key" ws : ws value`, the key opened in scan state `out first` -/
theorem member_rq (k : List StrItem) (hk : StrWF k = true) (w₁ w₂ vb : Bytes) (t : CST) (h₁ : Ws w₁) (h₂ : Ws w₂)
    (ihv : LV vb t) (htf : rawTokenFree t = true) (first : Bool) (l : LexSt) (hl : l.mode = .out first)
    (hfirst : first = true → isRawTokenKey k = false) :
    RQ l (strBytes k ++ w₁ ++ [0x3a] ++ w₂ ++ vb) := by
  have q0 : RQ l (strBytes k) := rq_string l first k hl hk hfirst
  have q1 := q0.append (rq_ws _ w₁ q0.1 h₁)
  have q2 := q1.append (rq_one _ false 0x3a q1.1 (by decide) (by decide) (by decide))
  have q3 := q2.append (rq_ws _ w₂ q2.1 h₂)
  exact q3.append (ihv htf _ q3.1)

/-- `{ ws`: the scan is right after a `{`, no flag -/
theorem rq_brace_open (l : LexSt) (w : Bytes) (hl : l.mode = .out false) (hw : Ws w) (hit : Bool) :
    rawScan l hit ([0x7b] ++ w) = hit := by
  obtain ⟨b1, _⟩ := SJ.Proofs.MachineAp.lex_brace l false hl
  rw [List.singleton_append, rawScan_cons, rawHit_out l false 0x7b hl, Bool.or_false]
  exact rawScan_ws w _ true hit b1 hw

theorem scan_derives {vb : Bytes} {t : CST} (h : Derives vb t) : LV vb t := by
  refine Derives.rec (motive_1 := fun vb t _ => LV vb t)
    (motive_2 := fun b xs _ => LE b xs) (motive_3 := fun b ms _ => LM b ms)
    ?_ ?_ ?_ ?_ ?_ ?_ ?_ ?_ ?_ ?_ ?_ ?_ ?_ h
  · intro _ l hl; exact rq_plain _ l hl (by decide)
  · intro _ l hl; exact rq_plain _ l hl (by decide)
  · intro _ l hl; exact rq_plain _ l hl (by decide)
  · intro p hp _ l hl; exact rq_plain _ l hl (number_plain p hp)
  · intro items hwf _ l hl; exact rq_string l false items hl hwf (fun h => by cases h)
  · -- empty array
    intro w hw _ l hl
    have q1 : RQ l [0x5b] := rq_one l false 0x5b hl (by decide) (by decide) (by decide)
    have q2 := q1.append (rq_ws _ w q1.1 hw)
    exact q2.append (rq_one _ false 0x5d q2.1 (by decide) (by decide) (by decide))
  · -- array
    intro w₁ body w₂ xs h₁ h₂ _ _ ih htf l hl
    have htf' : rawTokenFreeList xs = true := by simpa [rawTokenFree] using htf
    have q1 : RQ l [0x5b] := rq_one l false 0x5b hl (by decide) (by decide) (by decide)
    have q2 := q1.append (rq_ws _ w₁ q1.1 h₁)
    have q3 := q2.append (ih htf' _ q2.1)
    have q4 := q3.append (rq_ws _ w₂ q3.1 h₂)
    exact q4.append (rq_one _ false 0x5d q4.1 (by decide) (by decide) (by decide))
  · -- empty object
    intro w hw _ l hl
    have hopen := brace_open l false w hl hw
    have hclose : RQ (lexRun l ([0x7b] ++ w)) [0x7d] := rq_one _ true 0x7d hopen (by decide) (by decide) (by decide)
    refine ⟨?_, fun hit => ?_⟩
    · unfold QM; rw [lexRun_append]; exact hclose.1
    · rw [rawScan_append, rq_brace_open l w hl hw hit, hclose.2]
  · -- object
    intro w₁ body w₂ ms h₁ h₂ _ _ ih htf l hl
    simp only [rawTokenFree, Bool.and_eq_true, Bool.not_eq_true'] at htf
    have hopen := brace_open l false w₁ hl h₁
    have qb := ih htf.2 true (lexRun l ([0x7b] ++ w₁)) hopen (fun _ => htf.1)
    have q4 := qb.append (rq_ws _ w₂ qb.1 h₂)
    have q5 := q4.append (rq_one _ false 0x7d q4.1 (by decide) (by decide) (by decide))
    have hsplit : [0x7b] ++ w₁ ++ body ++ w₂ ++ [0x7d] = ([0x7b] ++ w₁) ++ (body ++ w₂ ++ [0x7d]) := by simp
    refine ⟨?_, fun hit => ?_⟩
    · unfold QM; rw [hsplit, lexRun_append]; exact q5.1
    · rw [hsplit, rawScan_append, rq_brace_open l w₁ hl h₁ hit, q5.2]
  · -- one element
    intro bs t _ ih htf l hl
    exact ih (by simpa [rawTokenFreeList] using htf) l hl
  · -- element, comma, elements
    intro bs w₁ w₂ rest t ts _ h₁ h₂ _ ihv ihr htf l hl
    simp only [rawTokenFreeList, Bool.and_eq_true] at htf
    have q1 := ihv htf.1 l hl
    have q2 := q1.append (rq_ws _ w₁ q1.1 h₁)
    have q3 := q2.append (rq_one _ false 0x2c q2.1 (by decide) (by decide) (by decide))
    have q4 := q3.append (rq_ws _ w₂ q3.1 h₂)
    exact q4.append (ihr htf.2 _ q4.1)
  · -- one member
    intro k hk w₁ w₂ vb t h₁ h₂ _ ihv htf first l hl hfirst
    simp only [rawTokenFreeMembers, Bool.and_eq_true] at htf
    exact member_rq k hk w₁ w₂ vb t h₁ h₂ ihv htf.1 first l hl (fun hf => by simpa [firstKeyIsRawToken] using hfirst hf)
  · -- member, comma, members
    intro k hk w₁ w₂ vb w₃ w₄ rest t ms h₁ h₂ _ h₃ h₄ _ ihv ihr htf first l hl hfirst
    simp only [rawTokenFreeMembers, Bool.and_eq_true] at htf
    have q1 := member_rq k hk w₁ w₂ vb t h₁ h₂ ihv htf.1 first l hl
      (fun hf => by simpa [firstKeyIsRawToken] using hfirst hf)
    have q2 := q1.append (rq_ws _ w₃ q1.1 h₃)
    have q3 := q2.append (rq_one _ false 0x2c q2.1 (by decide) (by decide) (by decide))
    have q4 := q3.append (rq_ws _ w₄ q3.1 h₄)
    have q5 := q4.append (ihr htf.2 false _ q4.1 (fun hf => by cases hf))
    simpa [List.append_assoc] using q5

/-- **a JSON text whose syntax tree has no raw-token first key has no hit in the raw scan** -/
theorem rawscan_of_rawTokenFree (bs : Bytes) (t : CST) (h : JsonText bs t) (htf : rawTokenFree t = true) :
    hasRawTokenFirstKey bs = false := by
  obtain ⟨w₁, v, w₂, rfl, hw₁, hw₂, hd⟩ := h
  have q1 : RQ {} w₁ := rq_ws {} w₁ rfl hw₁
  have q2 := q1.append (scan_derives hd htf _ q1.1)
  have q3 := q2.append (rq_ws _ w₂ q2.1 hw₂)
  exact q3.2 false

end SJ.Proofs.MachineRv
