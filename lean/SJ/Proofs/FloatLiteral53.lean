import SJ.Proofs.FloatLiteral
/-!
# C08's exactness on the window `significand < 2^53`, literal level

`Proofs/FloatLiteral.lean` `floatOfLiteral_exact` is stated for `sigVal < 10^15` (the property's "at most 15 digits"); the
argument only uses `sigVal < 2^53` (`f64FromParts_exact`: the significand converts exactly). This file repeats the two proofs
with that bound (mechanical copy, `10^15` replaced by `2^53`), for C04's default-build class: `ryu` prints an integral double
below `10^16` with a trailing `.0`, so `123456789012345.0` has sixteen digits as the parser counts them and a significand
below `2^53`.
-/
namespace SJ.Proofs.FloatDefault
open SJ SJ.Spec.Ieee SJ.Spec.Decimal SJ.Model.FloatDefault SJ.Proofs.Ieee

/-- the parts a short literal is handed on as: no digit is dropped, no exponent saturates -/
theorem partsOfLiteral_short53 (l : NumLit) (hwf : l.WF = true) (hD : l.sigVal < 2 ^ 53)
    (h1 : -22 ≤ l.netExp) (h2 : l.netExp ≤ 22) (hlen : l.fracDigits.length < 2 ^ 30) :
    (partsOfLiteral l = .parts (!l.neg) l.sigVal l.netExp) ∨
    (l.netExp = 0 ∧ l.neg = false ∧ partsOfLiteral l = .u64 l.sigVal) ∨
    (l.netExp = 0 ∧ l.neg = true ∧ l.sigVal = 0 ∧ partsOfLiteral l = .negInt 0) ∨
    (l.netExp = 0 ∧ l.neg = true ∧ partsOfLiteral l = .i64 (-(l.sigVal : Int))) := by
  obtain ⟨hid, hfd, hed⟩ := wf_parts l hwf
  obtain ⟨c, cs, hint, hlead⟩ := wf_int l hwf
  have hu : (2 : Nat) ^ 53 ≤ u64Max := by decide
  -- the integer part
  have hI : digitsFrom 0 l.intDigits = digitsFrom (digitVal c) cs := by
    rw [hint, digitsFrom_cons]; simp
  have hDdef : l.sigVal = digitsFrom (digitsFrom (digitVal c) cs) l.fracDigits := by
    unfold NumLit.sigVal NumLit.digits
    rw [digitsVal_eq, digitsFrom_append, hI]
  have hIle : digitsFrom (digitVal c) cs ≤ l.sigVal := by rw [hDdef]; exact digitsFrom_ge _ _
  rw [hint] at hid
  simp only [List.all_cons, Bool.and_eq_true] at hid
  have hint' := intLoop_noovf cs (digitVal c) hid.2 (by omega)
  have hfrac := fracLoop_noovf l.fracDigits (digitsFrom (digitVal c) cs) 0 hfd (by rw [← hDdef]; omega)
  rw [← hDdef] at hfrac
  -- the exponent part
  have hE : ∀ c' cs', l.expDigits = c' :: cs' → l.expVal ≤ i32Max →
      expLoop (digitVal c') cs' = some l.expVal := by
    intro c' cs' hex hle
    rw [hex] at hed
    simp only [List.all_cons, Bool.and_eq_true] at hed
    have : l.expVal = digitsFrom (digitVal c') cs' := by
      unfold NumLit.expVal; rw [digitsVal_eq, hex, digitsFrom_cons]; simp
    rw [this] at hle ⊢
    exact expLoop_noovf cs' _ hed.2 hle
  have hEb : l.expVal ≤ i32Max := by
    unfold NumLit.netExp at h1 h2
    unfold i32Max
    cases hx : l.expNeg <;> simp only [hx, Bool.false_eq_true, if_false, if_true] at h1 h2 <;> omega
  unfold partsOfLiteral
  rw [hint]
  simp only [hlead, Bool.false_eq_true, if_false, hint', longIntegerExponent, List.length_nil,
    List.isEmpty_nil, Bool.not_true]
  by_cases hfe : l.fracDigits.isEmpty = true
  · -- no fraction
    have hfnil : l.fracDigits = [] := by simpa using hfe
    have hDI : l.sigVal = digitsFrom (digitVal c) cs := by rw [hDdef, hfnil]; rfl
    simp only [hfe, Bool.not_true, Bool.false_eq_true, if_false]
    by_cases hee : l.expDigits.isEmpty = true
    · -- pure integer
      have henil : l.expDigits = [] := by simpa using hee
      have hnet : l.netExp = 0 := by
        unfold NumLit.netExp NumLit.expVal
        rw [henil, hfnil]; simp [digitsVal]
      simp only [hee, Bool.not_true, Bool.false_eq_true, if_false, ← hDI]
      by_cases hneg : l.neg = true
      · simp only [hneg, Bool.not_true, Bool.false_eq_true, if_false]
        by_cases hz : l.sigVal = 0
        · right; right; left
          simp only [hz, decide_true, Bool.true_or, if_true]
          simp [hnet]
        · right; right; right
          have : ¬ (l.sigVal > 2 ^ 63) := by
            have : (2 : Nat) ^ 53 ≤ 2 ^ 63 := by decide
            omega
          simp only [hz, this, decide_false, Bool.or_self, Bool.false_eq_true, if_false]
          simp [hnet]
      · have hneg' : l.neg = false := by simpa using hneg
        right; left
        simp only [hneg', Bool.not_false, if_true]
        simp [hnet]
    · -- exponent only
      left
      simp only [hee, Bool.not_false, if_true]
      obtain ⟨c', cs', hex⟩ : ∃ c' cs', l.expDigits = c' :: cs' := by
        cases hx : l.expDigits with
        | nil => rw [hx] at hee; simp at hee
        | cons a b => exact ⟨a, b, rfl⟩
      unfold parseExponent
      rw [hex]
      simp only [hE c' cs' hex hEb, ← hDI]
      have hnet : l.netExp = (if l.expNeg then -(l.expVal : Int) else (l.expVal : Int)) := by
        unfold NumLit.netExp; rw [hfnil]; simp
      congr 1
      cases hx : l.expNeg
      · simp only [Bool.not_false, if_true]
        rw [hnet, hx] at h1 h2 ⊢
        simp only [Bool.false_eq_true, if_false] at h1 h2 ⊢
        rw [satI32_id _ (by omega) (by omega)]; omega
      · simp only [Bool.not_true, Bool.false_eq_true, if_false]
        rw [hnet, hx] at h1 h2 ⊢
        simp only [if_true] at h1 h2 ⊢
        rw [satI32_id _ (by omega) (by omega)]; omega
  · -- with a fraction
    left
    simp only [hfe, Bool.not_false, if_true]
    unfold parseDecimal
    rw [show ((0 : Nat) : Int) = 0 from rfl, hfrac]
    simp only
    by_cases hee : l.expDigits.isEmpty = true
    · have henil : l.expDigits = [] := by simpa using hee
      simp only [hee, if_true]
      congr 1
      unfold NumLit.netExp NumLit.expVal
      rw [henil]; simp [digitsVal]
    · simp only [hee, Bool.false_eq_true, if_false]
      obtain ⟨c', cs', hex⟩ : ∃ c' cs', l.expDigits = c' :: cs' := by
        cases hx : l.expDigits with
        | nil => rw [hx] at hee; simp at hee
        | cons a b => exact ⟨a, b, rfl⟩
      unfold parseExponent
      rw [hex]
      simp only [hE c' cs' hex hEb]
      congr 1
      unfold NumLit.netExp at h1 h2 ⊢
      cases hx : l.expNeg
      · simp only [Bool.not_false, if_true]
        rw [hx] at h1 h2
        simp only [Bool.false_eq_true, if_false] at h1 h2 ⊢
        rw [satI32_id _ (by omega) (by omega)]; omega
      · simp only [Bool.not_true, Bool.false_eq_true, if_false]
        rw [hx] at h1 h2
        simp only [if_true] at h1 h2 ⊢
        rw [satI32_id _ (by omega) (by omega)]; omega


theorem scale10_zero53 (D : Nat) : scale10 D 0 = (D, 1) := by
  unfold scale10; simp

/-- **Exactness on the short domain, literal level.** -/
theorem floatOfLiteral_exact53 (l : NumLit) (hwf : l.WF = true) (hD : l.sigVal < 2 ^ 53)
    (h1 : -22 ≤ l.netExp) (h2 : l.netExp ≤ 22) (hlen : l.fracDigits.length < 2 ^ 30) :
    floatOfLiteral l = roundNE64 l.neg l.exact.1 l.exact.2 := by
  have h53 : l.sigVal < 2 ^ 53 := hD
  obtain ⟨hof, _, _⟩ := F64.ofU64_finite l.sigVal (by omega)
  unfold floatOfLiteral NumLit.exact
  rcases partsOfLiteral_short53 l hwf hD h1 h2 hlen with h | ⟨hn, hneg, h⟩ | ⟨hn, hneg, hz, h⟩ | ⟨hn, hneg, h⟩
  · rw [h]
    simp only [Parts.toF64]
    rw [f64FromParts_exact _ _ _ h53 h1 h2, Bool.not_not]
  · rw [h, hn, hneg, scale10_zero53]
    simp only [Parts.toF64]
    exact hof.symm
  · rw [h, hn, hneg, scale10_zero53, hz]
    rw [hz] at hof
    simp only [Parts.toF64]
    have := roundNE64_neg false 0 1
    rw [hof] at this; exact this
  · rw [h, hn, hneg, scale10_zero53]
    simp only [Parts.toF64, Int.natAbs_neg, Int.natAbs_natCast]
    have := roundNE64_neg false l.sigVal 1
    rw [hof] at this; exact this

end SJ.Proofs.FloatDefault
