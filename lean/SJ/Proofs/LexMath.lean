import Mathlib.Tactic.Ring
import Mathlib.Tactic.Linarith
import SJ.Model.LexMath
/-!
# Limb arithmetic of `lexical/math.rs`: `scalar` and `small` refine arithmetic on the numbers denoted

`value l = Σ l[i]·2^(64 i)`. For every operation of `mod scalar` and `mod small` (except the shifts, normalisation and
`imul_pow5`: `LexMathShift`, `LexMathPow`): the result denotes the expected number, its entries are limbs again, and
normalisation (no zero top limb) is preserved where the Rust relies on it.
-/
namespace SJ.Proofs.LexMath
open SJ.Model.LexMath

/-! ## `value`, `Valid`, `Normal` -/

@[simp] theorem value_nil : value [] = 0 := rfl
@[simp] theorem value_cons (x : Nat) (xs : Limbs) : value (x :: xs) = x + 2 ^ 64 * value xs := rfl

theorem value_append (a b : Limbs) : value (a ++ b) = value a + 2 ^ (64 * a.length) * value b := by
  induction a with
  | nil => simp
  | cons x xs ih =>
    simp only [List.cons_append, value_cons, ih, List.length_cons]
    have : (2 : Nat) ^ (64 * (xs.length + 1)) = 2 ^ 64 * 2 ^ (64 * xs.length) := by
      rw [← Nat.pow_add]; congr 1; omega
    rw [this]; ring

theorem value_replicate_zero (n : Nat) : value (List.replicate n 0) = 0 := by
  induction n with
  | zero => rfl
  | succ n ih => simp [List.replicate_succ, ih]

theorem value_singleton (x : Nat) : value [x] = x := by simp

@[simp] theorem valid_nil : Valid [] := by intro x hx; cases hx
theorem valid_cons {x : Nat} {xs : Limbs} : Valid (x :: xs) ↔ x < 2 ^ 64 ∧ Valid xs := by
  constructor
  · intro h; exact ⟨h x (by simp), fun y hy => h y (by simp [hy])⟩
  · rintro ⟨h1, h2⟩ y hy
    rcases List.mem_cons.mp hy with rfl | hy
    · exact h1
    · exact h2 y hy

theorem valid_append {a b : Limbs} : Valid (a ++ b) ↔ Valid a ∧ Valid b := by
  constructor
  · intro h; exact ⟨fun x hx => h x (by simp [hx]), fun x hx => h x (by simp [hx])⟩
  · rintro ⟨h1, h2⟩ x hx
    rcases List.mem_append.mp hx with hx | hx
    · exact h1 x hx
    · exact h2 x hx

theorem valid_replicate_zero (n : Nat) : Valid (List.replicate n 0) := by
  intro x hx; rw [(List.mem_replicate.mp hx).2]; exact Nat.two_pow_pos 64

theorem valid_take {l : Limbs} (h : Valid l) (n : Nat) : Valid (l.take n) :=
  fun x hx => h x (List.mem_of_mem_take hx)
theorem valid_drop {l : Limbs} (h : Valid l) (n : Nat) : Valid (l.drop n) :=
  fun x hx => h x (List.mem_of_mem_drop hx)
theorem valid_singleton {x : Nat} (h : x < 2 ^ 64) : Valid [x] := valid_cons.mpr ⟨h, valid_nil⟩

theorem validB_iff (l : Limbs) : validB l = true ↔ Valid l := by
  simp [validB, Valid, List.all_eq_true]

theorem value_lt {l : Limbs} (h : Valid l) : value l < 2 ^ (64 * l.length) := by
  induction l with
  | nil => simp
  | cons x xs ih =>
    have ⟨hx, hxs⟩ := valid_cons.mp h
    have := ih hxs
    have e : (2 : Nat) ^ (64 * (xs.length + 1)) = 2 ^ 64 * 2 ^ (64 * xs.length) := by
      rw [← Nat.pow_add]; congr 1; omega
    simp only [value_cons, List.length_cons, e]
    nlinarith [Nat.two_pow_pos (64 * xs.length)]

theorem value_take_add_drop (l : Limbs) (n : Nat) :
    value l = value (l.take n) + 2 ^ (64 * (l.take n).length) * value (l.drop n) := by
  conv => lhs; rw [← List.take_append_drop n l]
  exact value_append _ _

theorem normal_nil : Normal [] := by simp [Normal]
theorem normal_iff (l : Limbs) : Normal l ↔ ∀ a r, l = r ++ [a] → a ≠ 0 := by
  constructor
  · intro h a r e; subst e; intro h0; subst h0; exact h (by simp)
  · intro h hl
    rcases List.getLast?_eq_some_iff.mp hl with ⟨r, e⟩
    exact h 0 r e rfl

theorem normal_append_singleton {r : Limbs} {a : Nat} : Normal (r ++ [a]) ↔ a ≠ 0 := by
  simp [Normal]

theorem normalB_iff (l : Limbs) : normalB l = true ↔ Normal l := by simp [normalB, Normal]

theorem normal_cons_of_normal {x : Nat} {xs : Limbs} (h : Normal xs) (hne : xs ≠ []) : Normal (x :: xs) := by
  unfold Normal at *
  rwa [List.getLast?_cons_of_ne_nil hne]

/-- a normalised non-empty vector denotes a number with its top limb set: `2^(64 (len-1)) ≤ value` -/
theorem value_ge_of_normal {l : Limbs} (hn : Normal l) (hne : l ≠ []) : 2 ^ (64 * (l.length - 1)) ≤ value l := by
  rcases List.eq_nil_or_concat l with h | ⟨r, a, rfl⟩
  · exact absurd h hne
  · have ha : a ≠ 0 := normal_append_singleton.mp (by simpa using hn)
    simp only [List.concat_eq_append, value_append, List.length_append, List.length_singleton, Nat.add_sub_cancel,
      value_singleton]
    have : 1 ≤ a := Nat.pos_of_ne_zero ha
    nlinarith [Nat.two_pow_pos (64 * r.length)]

theorem value_eq_zero_of_normal {l : Limbs} (hn : Normal l) (h0 : value l = 0) : l = [] := by
  by_contra hne
  have := value_ge_of_normal hn hne
  have := Nat.two_pow_pos (64 * (l.length - 1))
  omega

/-! ## `mod scalar` -/

theorem limb_lt (x : Nat) : limb x < 2 ^ 64 := Nat.mod_lt _ (Nat.two_pow_pos 64)
theorem limb_of_lt {x : Nat} (h : x < 2 ^ 64) : limb x = x := Nat.mod_eq_of_lt h
theorem wide_of_lt {x : Nat} (h : x < 2 ^ 128) : wide x = x := Nat.mod_eq_of_lt h

theorem scalar_add_spec {x y : Nat} (hx : x < 2 ^ 64) (hy : y < 2 ^ 64) :
    (scalar.add x y).1 + 2 ^ 64 * (if (scalar.add x y).2 then 1 else 0) = x + y ∧ (scalar.add x y).1 < 2 ^ 64 := by
  unfold scalar.add limb
  by_cases h : 2 ^ 64 ≤ x + y
  · simp only [h, decide_true, if_true]
    refine ⟨?_, Nat.mod_lt _ (Nat.two_pow_pos 64)⟩
    have : (x + y) % 2 ^ 64 = x + y - 2 ^ 64 := by
      rw [Nat.mod_eq_sub_mod h, Nat.mod_eq_of_lt (by omega)]
    omega
  · simp only [h, decide_false]
    refine ⟨?_, Nat.mod_lt _ (Nat.two_pow_pos 64)⟩
    rw [Nat.mod_eq_of_lt (by omega)]; simp

theorem scalar_sub_spec {x y : Nat} (hx : x < 2 ^ 64) (hy : y < 2 ^ 64) :
    (scalar.sub x y).1 + y = x + 2 ^ 64 * (if (scalar.sub x y).2 then 1 else 0) ∧ (scalar.sub x y).1 < 2 ^ 64 := by
  unfold scalar.sub limb
  by_cases h : x < y
  · simp only [h, decide_true, if_true]
    refine ⟨?_, Nat.mod_lt _ (Nat.two_pow_pos 64)⟩
    rw [Nat.mod_eq_of_lt (by omega)]; omega
  · simp only [h, decide_false]
    refine ⟨?_, Nat.mod_lt _ (Nat.two_pow_pos 64)⟩
    have : (x + 2 ^ 64 - y) % 2 ^ 64 = x - y := by
      have e : x + 2 ^ 64 - y = (x - y) + 2 ^ 64 := by omega
      rw [e, Nat.add_mod_right, Nat.mod_eq_of_lt (by omega)]
    simp only [this, Bool.false_eq_true, if_false]; omega

theorem mul_add_lt_wide {x y c : Nat} (hx : x < 2 ^ 64) (hy : y < 2 ^ 64) (hc : c < 2 ^ 64) : x * y + c < 2 ^ 128 := by
  have h1 : x * y ≤ (2 ^ 64 - 1) * (2 ^ 64 - 1) := Nat.mul_le_mul (by omega) (by omega)
  have : (2 ^ 64 - 1) * (2 ^ 64 - 1) + 2 ^ 64 ≤ 2 ^ 128 := by norm_num
  omega

theorem scalar_mul_spec {x y c : Nat} (hx : x < 2 ^ 64) (hy : y < 2 ^ 64) (hc : c < 2 ^ 64) :
    (scalar.mul x y c).1 + 2 ^ 64 * (scalar.mul x y c).2 = x * y + c ∧
    (scalar.mul x y c).1 < 2 ^ 64 ∧ (scalar.mul x y c).2 < 2 ^ 64 := by
  have hw := mul_add_lt_wide hx hy hc
  have hxy : x * y < 2 ^ 128 := by omega
  unfold scalar.mul
  simp only [wide_of_lt (show x < 2 ^ 128 by omega), wide_of_lt (show y < 2 ^ 128 by omega),
    wide_of_lt (show c < 2 ^ 128 by omega), wide_of_lt hxy, wide_of_lt hw, Nat.shiftRight_eq_div_pow]
  have hd : (x * y + c) / 2 ^ 64 < 2 ^ 64 := by
    apply Nat.div_lt_of_lt_mul; rw [← Nat.pow_add]; exact hw
  refine ⟨?_, limb_lt _, limb_lt _⟩
  rw [limb_of_lt hd]; unfold limb
  exact Nat.mod_add_div _ _

/-! ## `mod small`: `iadd_impl`, `iadd` -/

theorem carryLoop_spec (c : Bool) (xs : Limbs) (hv : Valid xs) :
    value (small.carryLoop c xs) = value xs + (if c then 1 else 0) ∧ Valid (small.carryLoop c xs) := by
  induction xs generalizing c with
  | nil => cases c <;> simp [small.carryLoop, valid_singleton]
  | cons x xs ih =>
    have ⟨hx, hxs⟩ := valid_cons.mp hv
    cases c with
    | false => simp [small.carryLoop, hv]
    | true =>
      simp only [small.carryLoop, scalar.iadd]
      have ⟨h1, h2⟩ := scalar_add_spec hx (show (1 : Nat) < 2 ^ 64 by norm_num)
      have ⟨i1, i2⟩ := ih (scalar.add x 1).2 hxs
      refine ⟨?_, valid_cons.mpr ⟨h2, i2⟩⟩
      simp only [value_cons, i1, if_true]
      cases hc : (scalar.add x 1).2 <;> simp only [hc] at h1 <;> simp at h1 ⊢ <;> nlinarith

theorem carryLoop_length_le (c : Bool) (xs : Limbs) : xs.length ≤ (small.carryLoop c xs).length := by
  induction xs generalizing c with
  | nil => cases c <;> simp [small.carryLoop]
  | cons x xs ih => cases c <;> simp [small.carryLoop]; exact ih _

/-- the carry loop never produces a zero top limb out of a normalised tail -/
theorem carryLoop_normal (c : Bool) (xs : Limbs) (hv : Valid xs) (hn : Normal xs) : Normal (small.carryLoop c xs) := by
  induction xs generalizing c with
  | nil => cases c <;> simp [small.carryLoop, Normal]
  | cons x xs ih =>
    have ⟨hx, hxs⟩ := valid_cons.mp hv
    cases c with
    | false => simpa [small.carryLoop] using hn
    | true =>
      simp only [small.carryLoop, scalar.iadd]
      by_cases hne : xs = []
      · subst hne
        have hx0 : x ≠ 0 := by
          have := (normal_iff [x]).mp hn x [] rfl; exact this
        have ⟨h1, h2⟩ := scalar_add_spec hx (show (1 : Nat) < 2 ^ 64 by norm_num)
        cases hc : (scalar.add x 1).2
        · simp only [hc] at h1
          simp only [small.carryLoop, Normal, List.getLast?_singleton, ne_eq, Option.some.injEq]
          simp at h1; omega
        · simp [small.carryLoop, Normal]
      · have hn' : Normal xs := by
          unfold Normal at *; rwa [List.getLast?_cons_of_ne_nil hne] at hn
        have := ih (scalar.add x 1).2 hxs hn'
        have hne' : small.carryLoop (scalar.add x 1).2 xs ≠ [] := by
          intro e
          have := carryLoop_length_le (scalar.add x 1).2 xs
          rw [e] at this
          exact hne (List.length_eq_zero_iff.mp (by simpa using this))
        exact normal_cons_of_normal this hne'

theorem small_iaddImpl_spec (x : Limbs) (y xstart : Nat) (hv : Valid x) (hy : y < 2 ^ 64) (hs : xstart ≤ x.length) :
    value (small.iaddImpl x y xstart) = value x + y * 2 ^ (64 * xstart) ∧ Valid (small.iaddImpl x y xstart) := by
  unfold small.iaddImpl
  by_cases h : x.length ≤ xstart
  · have e : xstart = x.length := by omega
    subst e
    simp only [Nat.le_refl, if_true]
    exact ⟨by rw [value_append, value_singleton]; ring, valid_append.mpr ⟨hv, valid_singleton hy⟩⟩
  · simp only [h, if_false]
    have hlt : xstart < x.length := by omega
    cases hd : x.drop xstart with
    | nil => exact absurd (List.drop_eq_nil_iff.mp hd) (by omega)
    | cons xi rest =>
      simp only [scalar.iadd]
      have hvd : Valid (xi :: rest) := hd ▸ valid_drop hv xstart
      have ⟨hxi, hrest⟩ := valid_cons.mp hvd
      have ⟨a1, a2⟩ := scalar_add_spec hxi hy
      have ⟨c1, c2⟩ := carryLoop_spec (scalar.add xi y).2 rest hrest
      have hlen : (x.take xstart).length = xstart := by simp; omega
      refine ⟨?_, valid_append.mpr ⟨valid_take hv _, valid_cons.mpr ⟨a2, c2⟩⟩⟩
      rw [value_append, value_cons, c1, hlen, value_take_add_drop x xstart, hd, hlen, value_cons]
      cases hc : (scalar.add xi y).2 <;> simp only [hc] at a1 <;> simp at a1 ⊢ <;> nlinarith [Nat.two_pow_pos (64 * xstart)]

theorem small_iadd_spec (x : Limbs) (y : Nat) (hv : Valid x) (hy : y < 2 ^ 64) :
    value (small.iadd x y) = value x + y ∧ Valid (small.iadd x y) := by
  have := small_iaddImpl_spec x y 0 hv hy (Nat.zero_le _)
  simpa [small.iadd] using this

/-- `iadd_small` keeps a non-empty normalised vector normalised (and an empty one iff the addend is non-zero) -/
theorem small_iadd_normal (x : Limbs) (y : Nat) (hv : Valid x) (hy : y < 2 ^ 64) (hn : Normal x) (h : x ≠ [] ∨ y ≠ 0) :
    Normal (small.iadd x y) := by
  unfold small.iadd small.iaddImpl
  cases x with
  | nil =>
    simp only [List.length_nil, Nat.le_refl, if_true, List.nil_append]
    rcases h with h | h
    · exact absurd rfl h
    · simpa [Normal] using h
  | cons xi rest =>
    simp only [List.length_cons, Nat.le_zero_eq, Nat.add_one_ne_zero, if_false, List.drop_zero, List.take_zero,
      List.nil_append, scalar.iadd]
    have ⟨hxi, hrest⟩ := valid_cons.mp hv
    have ⟨h1, _⟩ := scalar_add_spec hxi hy
    by_cases hne : rest = []
    · subst hne
      have hx0 : xi ≠ 0 := (normal_iff [xi]).mp hn xi [] rfl
      cases hc : (scalar.add xi y).2
      · simp only [hc] at h1
        simp only [small.carryLoop, Normal, List.getLast?_singleton, ne_eq, Option.some.injEq]
        simp at h1; omega
      · simp [small.carryLoop, Normal]
    · have hn' : Normal rest := by
        unfold Normal at *; rwa [List.getLast?_cons_of_ne_nil hne] at hn
      have := carryLoop_normal (scalar.add xi y).2 rest hrest hn'
      have hne' : small.carryLoop (scalar.add xi y).2 rest ≠ [] := by
        intro e
        have := carryLoop_length_le (scalar.add xi y).2 rest
        rw [e] at this
        exact hne (List.length_eq_zero_iff.mp (by simpa using this))
      exact normal_cons_of_normal this hne'

end SJ.Proofs.LexMath
