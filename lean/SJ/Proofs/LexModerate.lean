import SJ.Proofs.LexModerateErr
/-!
# C07 moderate path, part 4: `moderate_path` in the table range is within its booked error

`mee_main` rewrites `multiply_exponent_extended` (for `-350 ≤ exponent < 310`) as: stage 1 (small power, exact integer
product or one rounded multiplication), one rounded multiplication by the truncated large power, normalisation.
`moderate_main`: the result `M · 2^X` is normalised and the exact decimal `(w·10^j + r) · 10^(e − j)` (mantissa `w`,
`j` digits `r` cut off) has a true mantissa strictly within `err` units of `M`, `err` the count handed to
`error_is_accurate` (`4 ≤ err ≤ 68`). This needs the repaired booking `error_scale()` for a truncated mantissa
(finding C07-moderate-truncated): with `error_halfscale()` the claim is false.
-/
namespace SJ.Proofs.LexModerate
open SJ SJ.Gen SJ.Model.Lexical SJ.Proofs.LexRound SJ.Proofs.LexModerateMul SJ.Proofs.LexTables SJ.Proofs.LexModerateErr

def stage1 (w i : Nat) (t : Bool) : ExtFloat × Nat :=
  if w * 10 ^ i ≥ 2 ^ 64 then (mul (normalize { mant := w, exp := 0 }).1 (getSmall i), (if t then 8 else 0) + 4)
  else ((normalize { mant := w * 10 ^ i, exp := 0 }).1, if t then 8 else 0)

def errors2 (e1 : Nat) : Nat := (if e1 > 0 then e1 + 1 else e1) + 4

/-- the bound on the part of the literal that `parse_truncated_float` cut off, in units of the normalised mantissa -/
def U0 (r : Nat) : ℚ := if r = 0 then 0 else 10

theorem U0_nonneg (r : Nat) : 0 ≤ U0 r := by unfold U0; split <;> norm_num

/-- stage 0: `w · c0` normalised, against the exact `(w + r/10^j) · c0` -/
theorem stage0 (w j r c0 : Nat) (hw0 : 0 < w) (hr : r < 10 ^ j) (hbig : r ≠ 0 → 2 ^ 64 ≤ 11 * w) (hc0 : 0 < c0)
    (hprod : w * c0 < 2 ^ 64) :
    Tracks (normalize { mant := w * c0, exp := 0 }).1 (((w * 10 ^ j + r : Nat) : ℚ) / 10 ^ j * c0) 0 (U0 r) ∧
      2 ^ 63 ≤ (normalize { mant := w * c0, exp := 0 }).1.mant ∧ (normalize { mant := w * c0, exp := 0 }).1.mant < 2 ^ 64 := by
  obtain ⟨s, _, hn, hM1, hM2⟩ := normalize_spec { mant := w * c0, exp := 0 } (Nat.mul_pos hw0 hc0) hprod
  simp only [] at hn hM1 hM2
  rw [hn]
  refine ⟨?_, hM1, hM2⟩
  have h10 : (0 : ℚ) < 10 ^ j := by positivity
  have h2s : (0 : ℚ) < 2 ^ s := by positivity
  refine ⟨((w * 10 ^ j + r : Nat) : ℚ) / 10 ^ j * c0 * 2 ^ s, ?_, ?_, ?_⟩
  · simp only []
    rw [zero_sub, zpow_neg, zpow_natCast]
    field_simp
  · simp only []
    push_cast
    have e : ((w : ℚ) * 10 ^ j + r) / 10 ^ j * c0 * 2 ^ s - w * c0 * 2 ^ s = (r : ℚ) / 10 ^ j * (c0 * 2 ^ s) := by
      field_simp; ring
    rw [e]
    positivity
  · simp only []
    push_cast
    have e : ((w : ℚ) * 10 ^ j + r) / 10 ^ j * c0 * 2 ^ s - w * c0 * 2 ^ s = (r : ℚ) / 10 ^ j * (c0 * 2 ^ s) := by
      field_simp; ring
    rw [e]
    unfold U0
    by_cases hr0 : r = 0
    · rw [if_pos hr0, hr0]; simp
    · rw [if_neg hr0]
      have hb := hbig hr0
      have hc : c0 * 2 ^ s < 11 := by
        apply Nat.lt_of_mul_lt_mul_left (a := w)
        calc w * (c0 * 2 ^ s) = w * c0 * 2 ^ s := by ring
          _ < 2 ^ 64 := hM2
          _ ≤ w * 11 := by omega
      have hc' : ((c0 * 2 ^ s : Nat) : ℚ) ≤ 10 := by exact_mod_cast (show c0 * 2 ^ s ≤ 10 by omega)
      push_cast at hc'
      have hr' : (r : ℚ) / 10 ^ j ≤ 1 := by
        rw [div_le_one h10]
        exact_mod_cast (le_of_lt hr)
      have hr0' : (0 : ℚ) ≤ (r : ℚ) / 10 ^ j := by positivity
      have hc0' : (0 : ℚ) ≤ (c0 : ℚ) * 2 ^ s := by positivity
      nlinarith

theorem mee_main (c : FC) (w : Nat) (e : Int) (t : Bool) (x : Nat) (hx : e + 350 = x) (hx660 : x < 660) :
    moderatePath c w e t =
      ((normalize (mul (stage1 w (x % 10) t).1 (getLarge (x / 10)))).1,
        errorIsAccurate c (u32 (errors2 (stage1 w (x % 10) t).2 <<< (normalize (mul (stage1 w (x % 10) t).1 (getLarge (x / 10)))).2))
          (normalize (mul (stage1 w (x % 10) t).1 (getLarge (x / 10)))).1) := by
  have hb : base10Bias = 350 := lengths.2.2.2.2.2.2.1
  have hs : base10Step = 10 := lengths.2.2.2.2.2.1
  have hl : base10LargeMantissa.length = 66 := lengths.2.2.2.1
  have hc := misc_consts
  have hsat : satI32 (e + 350) = (x : Int) := by
    rw [hx]; unfold satI32; rw [if_neg (by omega), if_neg (by omega)]
  have hi10 : x % 10 < 10 := Nat.mod_lt _ (by decide)
  have hpow : base10SmallIntPowers.getD (x % 10) 0 = 10 ^ (x % 10) := (getSmall_q _ hi10).2.2.2
  unfold moderatePath multiplyExponentExtended
  simp only [hb, hs, hl, hsat]
  have h1 : ¬ ((x : Int) < 0) := by omega
  have e1 : (Int.tmod (x : Int) 10).toNat = x % 10 := by
    rw [Int.tmod_eq_emod_of_nonneg (by omega)]; omega
  have e2 : (Int.tdiv (x : Int) 10).toNat = x / 10 := by
    rw [Int.tdiv_eq_ediv_of_nonneg (by omega)]; omega
  rw [if_neg h1, e1, e2, if_neg (by omega), hpow]
  simp only [hc.2.2.2.2.1, hc.2.2.2.2.2.1]
  unfold stage1 errors2
  by_cases hp : w * 10 ^ (x % 10) ≥ 2 ^ 64
  · simp only [if_pos hp]
  · simp only [if_neg hp]

/-- after the small power: within `[-½, U0 + ½]`, top bits set, and the booked errors -/
theorem stage1_tracks (w j r i : Nat) (t : Bool) (hw0 : 0 < w) (hw : w < 2 ^ 64) (hr : r < 10 ^ j)
    (hbig : r ≠ 0 → 2 ^ 64 ≤ 11 * w) (hi : i < 10) :
    Tracks (stage1 w i t).1 (((w * 10 ^ j + r : Nat) : ℚ) / 10 ^ j * 10 ^ i) (-(1 / 2)) (U0 r + 1 / 2) ∧
      2 ^ 62 ≤ (stage1 w i t).1.mant ∧ (stage1 w i t).1.mant < 2 ^ 64 ∧
      ((stage1 w i t).2 = (if t then 8 else 0) ∨ (stage1 w i t).2 = (if t then 8 else 0) + 4) := by
  have hU := U0_nonneg r
  unfold stage1
  by_cases hp : w * 10 ^ i ≥ 2 ^ 64
  · rw [if_pos hp]
    simp only []
    obtain ⟨ht, hM1, hM2⟩ := stage0 w j r 1 hw0 hr hbig Nat.one_pos (by omega)
    simp only [Nat.cast_one, mul_one] at ht hM1 hM2
    obtain ⟨hq, hs1, hs2, _⟩ := getSmall_q i hi
    have hm := tracks_mul _ (getSmall i) _ (10 ^ i) 0 (U0 r) 0 (getSmall i).mant hM2 hs2 hq.symm (le_refl _)
      (by simp) (by exact_mod_cast (le_of_lt hs2)) (le_refl _) hU ht
    refine ⟨tracks_mono hm (by norm_num) (by linarith), ?_, ?_, by simp⟩
    · rw [mul_eq _ _ hM2 hs2]
      exact mul_lower _ _ 63 hM1 hs1 (by decide)
    · rw [mul_eq _ _ hM2 hs2]
      exact (mul_bounds _ _ hM2 hs2).2.2
  · rw [if_neg hp]
    simp only []
    obtain ⟨ht, hM1, hM2⟩ := stage0 w j r (10 ^ i) hw0 hr hbig (by positivity) (by omega)
    refine ⟨tracks_mono (by exact_mod_cast ht) (by norm_num) (by linarith), by omega, hM2, by simp⟩


/-- **the error bookkeeping is sufficient**: in the table range the value returned by `moderate_path` is within the
    booked number of units of the exact decimal value -/
theorem moderate_main (c : FC) (w j r x : Nat) (e : Int) (t : Bool) (hw0 : 0 < w) (hw : w < 2 ^ 64) (hr : r < 10 ^ j)
    (hbig : r ≠ 0 → 2 ^ 64 ≤ 11 * w) (hexact : t = false → r = 0) (hx : e + 350 = x) (hx660 : x < 660) :
    ∃ (M : Nat) (X : Int) (err : Nat),
      moderatePath c w e t = ({ mant := M, exp := X }, errorIsAccurate c err { mant := M, exp := X }) ∧
      2 ^ 63 ≤ M ∧ M < 2 ^ 64 ∧ 4 ≤ err ∧ err ≤ 68 ∧
      ∃ t3 : ℚ, ((w * 10 ^ j + r : Nat) : ℚ) * 10 ^ (e - j) = t3 * 2 ^ X ∧ (M : ℚ) - err < t3 ∧ t3 < M + err := by
  have hi10 : x % 10 < 10 := Nat.mod_lt _ (by decide)
  have hl66 : x / 10 < 66 := by omega
  rw [mee_main c w e t x hx hx660]
  obtain ⟨ht1, hm1a, hm1b, he1⟩ := stage1_tracks w j r (x % 10) t hw0 hw hr hbig hi10
  generalize stage1 w (x % 10) t = s1 at *
  obtain ⟨tp, hP, htp1, htp2, hL1, hL2⟩ := getLarge_q (x / 10) hl66
  have hU := U0_nonneg r
  have ht2 := tracks_mul s1.1 (getLarge (x / 10)) _ _ (-(1 / 2)) (U0 r + 1 / 2) 1 tp hm1b hL2 hP.symm htp1
    (le_of_lt htp2) (by
      have : ((getLarge (x / 10)).mant : ℚ) + 1 ≤ 2 ^ 64 := by exact_mod_cast (show (getLarge (x / 10)).mant + 1 ≤ 2 ^ 64 by omega)
      linarith) (by norm_num) (by linarith) ht1
  have hm2a : 2 ^ 61 ≤ (mul s1.1 (getLarge (x / 10))).mant := by
    rw [mul_eq _ _ hm1b hL2]; exact mul_lower _ _ 62 hm1a hL1 (by decide)
  have hm2b : (mul s1.1 (getLarge (x / 10))).mant < 2 ^ 64 := by
    rw [mul_eq _ _ hm1b hL2]; exact (mul_bounds _ _ hm1b hL2).2.2
  generalize mul s1.1 (getLarge (x / 10)) = fp2 at *
  obtain ⟨s, hs, hmant, hM1, hM2, ht3⟩ := tracks_normalize fp2 _ _ _ (by omega) hm2b ht2
  have hs2 : 2 ^ s ≤ 4 := by
    have h1 : 2 ^ 61 * 2 ^ s ≤ fp2.mant * 2 ^ s := Nat.mul_le_mul_right _ hm2a
    have h2 : 2 ^ 61 * 2 ^ s < 2 ^ 61 * 8 := by
      have : (2 : Nat) ^ 61 * 8 = 2 ^ 64 := by norm_num
      omega
    have := Nat.lt_of_mul_lt_mul_left h2
    have hs3 : s < 3 := by
      by_contra hc
      have : 2 ^ 3 ≤ 2 ^ s := Nat.pow_le_pow_right (by decide) (by omega)
      omega
    have : 2 ^ s ≤ 2 ^ 2 := Nat.pow_le_pow_right (by decide) (by omega)
    omega
  have hs1 : 1 ≤ 2 ^ s := Nat.one_le_two_pow
  -- the booked errors
  have he2 : (U0 r + 2 < (errors2 s1.2 : ℚ)) ∧ 4 ≤ errors2 s1.2 ∧ errors2 s1.2 ≤ 17 := by
    unfold errors2 U0
    cases t
    · have hr0 := hexact rfl
      simp only [hr0, if_true]
      simp only [Bool.false_eq_true, if_false] at he1
      rcases he1 with h | h <;> rw [h] <;> norm_num
    · simp only [if_true] at he1
      rcases he1 with h | h <;> rw [h] <;> split <;> norm_num
  obtain ⟨he2a, he2b, he2c⟩ := he2
  have hu32 : u32 (errors2 s1.2 <<< s) = errors2 s1.2 * 2 ^ s := by
    unfold u32
    rw [Nat.shiftLeft_eq, Nat.mod_eq_of_lt]
    have : errors2 s1.2 * 2 ^ s ≤ 17 * 4 := Nat.mul_le_mul he2c hs2
    omega
  refine ⟨fp2.mant * 2 ^ s, (normalize fp2).1.exp, errors2 s1.2 * 2 ^ s, ?_, hM1, hM2, ?_, ?_, ?_⟩
  · rw [hs, hu32, ← hmant]
  · calc 4 = 4 * 1 := rfl
      _ ≤ errors2 s1.2 * 2 ^ s := Nat.mul_le_mul he2b hs1
  · calc errors2 s1.2 * 2 ^ s ≤ 17 * 4 := Nat.mul_le_mul he2c hs2
      _ = 68 := rfl
  · obtain ⟨t3, hV, h1, h2⟩ := ht3
    rw [hmant] at h1 h2
    refine ⟨t3, ?_, ?_, ?_⟩
    · rw [← hV]
      have h10 : (10 : ℚ) ≠ 0 := by norm_num
      have he : e - (j : Int) = -(j : Int) + (((x % 10 : Nat) : Int) + (-350 + 10 * ((x / 10 : Nat) : Int))) := by
        have := Nat.div_add_mod x 10
        omega
      rw [he, zpow_add₀ h10, zpow_add₀ h10, zpow_neg, zpow_natCast, zpow_natCast]
      field_simp
    · push_cast at h1 ⊢
      have : (0 : ℚ) < 2 ^ s := by positivity
      nlinarith
    · push_cast at h2 ⊢
      have : (0 : ℚ) < 2 ^ s := by positivity
      nlinarith

end SJ.Proofs.LexModerate
