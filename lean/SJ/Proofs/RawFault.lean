import SJ.Model.IoFault
import SJ.Proofs.RawSim
import SJ.Proofs.RawSpan
import SJ.Proofs.TypedFaultEq
import SJ.Proofs.TypedPrefix
import SJ.Proofs.RawSources
import SJ.Proofs.StreamDepth
/-!
# C13 helper lemmas: a `RawValue` captured from a reader that fails

* `rawOneTop_clean`: the typed model's `deserialize_raw_value` entry point followed by `end()`
  (`Model.RawNested.rawOneTop`, clean end of input) IS `Model.Raw.rawTop`;
* `rawTop_err`: every error of `rawTop` is Syntax- or Eof-classified and positioned within the input;
* `runPfx_clean_err_fault`: an error the scanner raises on a delivered byte is raised under a failing reader too;
  `runPfx_io_end`: if the failing reader's error surfaced where the clean run succeeded, the clean run had used all
  the delivered bytes.
-/
namespace SJ.Proofs.RawFault
open SJ SJ.Gen SJ.Model SJ.Model.Typed SJ.Model.RawNested SJ.Proofs.Typed SJ.Proofs.RawSim
open SJ.Model.Machine (St init Src step1 errIdx)
open SJ.Model.Stream (skipWs runPrefix POut)
open SJ.Model.Raw (rawTop trailing)

theorem trailing_skipWs : ∀ (r : Bytes) (i : Nat),
    trailing i r = (match skipWs r i with | ([], _) => none | (_ :: _, q) => some q)
  | [], _ => rfl
  | b :: r, i => by
    unfold trailing skipWs
    split
    · exact trailing_skipWs r (i + 1)
    · rfl

/-- the value captured by `rawTop`, as the typed model shows it -/
def topOfRaw (bs : Bytes) : Raw.ROut → Top
  | .ok p e => .ok (.str ((bs.drop p).take (e - p)))
  | .err c i => .err c i

/-- `from_*::<Box<RawValue>>` through the typed model's entry point is `Model.Raw.rawTop` -/
theorem rawOneTop_clean (cfg : Machine.Cfg) (src : Src) (bs : Bytes) :
    rawOneTop { cfg := cfg, src := src, flt := false } bs = topOfRaw bs (rawTop cfg src bs) := by
  unfold rawOneTop rawTop
  rw [deRaw_eq]
  obtain ⟨w, hw1, _, hw3⟩ := SJ.Props.C19.skipWs_prefix bs 0
  generalize skipWs bs 0 = x at hw1 hw3
  obtain ⟨r, p⟩ := x
  simp only at hw1 hw3
  have hdrop : bs.drop p = r := by
    have hp : p = w.length := by omega
    rw [hw1, hp, List.drop_left' rfl]
  simp only [machine, ignEnv]
  rw [SJ.Proofs.RawSpan.runPfx_false_eq]
  cases hrun : runPrefix { cfg := cfg, src := src, tgt := .ignored } init p r with
  | err c i => rfl
  | ok v e =>
    simp only [Res.bind]
    split
    · rfl
    · rw [trailing_skipWs]
      simp only [finishTop]
      generalize skipWs (List.drop (e - p) r) e = y
      obtain ⟨l, q⟩ := y
      cases l with
      | nil => simp [topOfRaw, hdrop]
      | cons b l' => rfl

theorem runPrefix_err (env : Machine.Env) (henv : env.tgt = .ignored) (bs : Bytes) : ∀ (s : St) (i : Nat) (c : Code) (idx : Nat),
    runPrefix env s i bs = .err c idx → (classify c = .syntax ∨ classify c = .eof) := by
  induction bs with
  | nil =>
    intro s i c idx h
    unfold runPrefix at h
    split at h
    · cases h
    · rename_i c' hf
      simp only [POut.err.injEq] at h
      rw [← h.1]
      exact .inr (SJ.Proofs.Machine.finish_eof_clean_ignored env henv s c' hf)
  | cons b bs ih =>
    intro s i c idx h
    unfold runPrefix at h
    repeat' split at h
    all_goals first
      | (cases h; done)
      | exact ih _ _ _ _ h
      | (rename_i c' a' hs; simp only [POut.err.injEq] at h; rw [← h.1]
         exact .inl (SJ.Proofs.Machine.step1_err env _ b _ _ hs).2)
      | (simp only [POut.err.injEq] at h; rw [← h.1]; exact .inl rfl)

/-- every error of `from_*::<Box<RawValue>>` is Syntax- or Eof-classified, at an index within the input -/
theorem rawTop_err (cfg : Machine.Cfg) (src : Src) (bs : Bytes) (c : Code) (i : Nat) (h : rawTop cfg src bs = .err c i) :
    (classify c = .syntax ∨ classify c = .eof) ∧ i ≤ bs.length := by
  constructor
  · unfold rawTop at h
    generalize skipWs bs 0 = x at h
    obtain ⟨r, p⟩ := x
    simp only at h
    cases hrun : runPrefix { cfg := cfg, src := src, tgt := .ignored } init p r with
    | err c' i' =>
      rw [hrun] at h
      simp only [Raw.ROut.err.injEq] at h
      rw [← h.1]
      exact runPrefix_err _ rfl r init p c' i' hrun
    | ok v e =>
      rw [hrun] at h
      simp only at h
      split at h
      · simp only [Raw.ROut.err.injEq] at h; rw [← h.1]; exact .inl rfl
      · split at h
        · cases h
        · simp only [Raw.ROut.err.injEq] at h; rw [← h.1]; exact .inl rfl
  · have hw : Win bs.length (deRaw { cfg := cfg, src := src, flt := false } bs 0) := win_deRaw bs 0 (by omega)
    have hc := rawOneTop_clean cfg src bs
    rw [h] at hc
    unfold rawOneTop finishTop at hc
    cases hd : deRaw { cfg := cfg, src := src, flt := false } bs 0 with
    | ok v rest pos =>
      rw [hd] at hc
      have hp := hw.2.2.2 _ _ _ hd
      have hs := skipWs_pos rest pos
      simp only at hc
      generalize skipWs rest pos = y at hs hc
      obtain ⟨l, q⟩ := y
      cases l with
      | nil => simp [topOfRaw] at hc
      | cons b l' =>
        simp only [topOfRaw, Top.err.injEq] at hc
        simp only [List.length_cons] at hs
        omega
    | err c' i' => rw [hd] at hc; simp only [topOfRaw, Top.err.injEq] at hc; rw [← hc.2]; exact hw.1 _ _ hd
    | data i' => rw [hd] at hc; cases hc
    | raw r' p' => rw [hd] at hc; cases hc
    | io => rw [hd] at hc; cases hc
    | fuel => rw [hd] at hc; cases hc

/-! ## the fault run against the clean run, exactly -/

/-- an error raised on a delivered byte (not `Eof`-classified) is raised under a failing reader too -/
theorem runPfx_clean_err_fault (menv : Machine.Env) (t : Nat)
    (hfin : ∀ s c, finishT menv t s = .error c → classify c = .eof) (bs : Bytes) : ∀ (s : St) (i : Nat) (c : Code) (idx : Nat),
    runPfx menv false t s i bs = .err c idx → classify c ≠ .eof → runPfx menv true t s i bs = .err c idx := by
  induction bs with
  | nil =>
    intro s i c idx h hc
    simp only [runPfx, Bool.false_eq_true, if_false] at h
    split at h
    · cases h
    · rename_i c' hf
      simp only [MOut.err.injEq] at h
      exact absurd (h.1 ▸ hfin s c' hf) hc
  | cons b bs ih =>
    intro s i c idx h hc
    simp only [runPfx] at h ⊢
    cases h1 : step1 menv s b with
    | err c' a => rw [h1] at h; exact h
    | next s' =>
      rw [h1] at h
      dsimp only at h ⊢
      cases hcm : completed t s' with
      | some v => rw [hcm] at h; cases h
      | none => rw [hcm] at h; exact ih _ _ _ _ h hc
    | again s' =>
      rw [h1] at h
      dsimp only at h ⊢
      cases hcm : completed t s' with
      | some v => rw [hcm] at h; cases h
      | none =>
        rw [hcm] at h
        dsimp only at h ⊢
        cases h2 : step1 menv s' b with
        | err c' a => rw [h2] at h; exact h
        | next s'' =>
          rw [h2] at h
          dsimp only at h ⊢
          cases hcm2 : completed t s'' with
          | some v => rw [hcm2] at h; cases h
          | none => rw [hcm2] at h; exact ih _ _ _ _ h hc
        | again s'' => rw [h2] at h; exact h

/-- if the fault surfaced (`Io`) where the clean run returned a value, the clean run had consumed every delivered byte -/
theorem runPfx_io_end (menv : Machine.Env) (t : Nat) (bs : Bytes) : ∀ (s : St) (i : Nat) (v : JV) (e : Nat),
    runPfx menv true t s i bs = .io → runPfx menv false t s i bs = .ok v e → e = i + bs.length := by
  induction bs with
  | nil =>
    intro s i v e _ h
    simp only [runPfx, Bool.false_eq_true, if_false] at h
    split at h
    · simp only [MOut.ok.injEq] at h; simp [h.2]
    · cases h
  | cons b bs ih =>
    intro s i v e hF hC
    simp only [runPfx] at hF hC
    cases h1 : step1 menv s b with
    | err c' a => rw [h1] at hF; cases hF
    | next s' =>
      rw [h1] at hF hC
      dsimp only at hF hC
      cases hcm : completed t s' with
      | some v' => rw [hcm] at hF; cases hF
      | none =>
        rw [hcm] at hF hC
        have := ih _ _ _ _ hF hC
        simp only [List.length_cons]; omega
    | again s' =>
      rw [h1] at hF hC
      dsimp only at hF hC
      cases hcm : completed t s' with
      | some v' => rw [hcm] at hF; cases hF
      | none =>
        rw [hcm] at hF hC
        dsimp only at hF hC
        cases h2 : step1 menv s' b with
        | err c' a => rw [h2] at hF; cases hF
        | next s'' =>
          rw [h2] at hF hC
          dsimp only at hF hC
          cases hcm2 : completed t s'' with
          | some v' => rw [hcm2] at hF; cases hF
          | none =>
            rw [hcm2] at hF hC
            have := ih _ _ _ _ hF hC
            simp only [List.length_cons]; omega
        | again s'' => rw [h2] at hF; cases hF

/-- `deserialize_raw_value` returns a captured text, a parser error or `Io`: it raises no visitor error -/
theorem deRaw_cases (env : Env) (rest : Bytes) (pos : Nat) :
    (∃ c r p, deRaw env rest pos = .ok (.str c) r p) ∨ (∃ c i, deRaw env rest pos = .err c i) ∨ deRaw env rest pos = .io := by
  rw [deRaw_eq]
  unfold machine
  split
  · simp only [Res.bind]
    split
    · exact .inr (.inl ⟨_, _, rfl⟩)
    · exact .inl ⟨_, _, _, rfl⟩
  · exact .inr (.inl ⟨_, _, rfl⟩)
  · exact .inr (.inr rfl)

theorem finishT_ignored_eof (cfg : Machine.Cfg) (src : Src) (s : St) (c : Code)
    (h : finishT { cfg := cfg, src := src, tgt := .ignored } 0 s = .error c) : classify c = .eof := by
  rw [SJ.Proofs.RawSpan.finishT_zero] at h
  exact SJ.Proofs.Machine.finish_eof_clean_ignored _ rfl s c h

/-! ## the one case in which the fault pre-empts the UTF-8 check: a bare number, which is ASCII -/

/-- if the failing reader's error surfaced, every delivered byte was fed without completing the value -/
theorem runPfx_io_feed (menv : Machine.Env) (t : Nat) (bs : Bytes) : ∀ (s : St) (i : Nat), completed t s = none →
    runPfx menv true t s i bs = .io →
    ∃ s', SJ.Proofs.Machine.feed menv s i bs = .ok (s', i + bs.length) ∧ completed t s' = none ∧
      runPfx menv false t s i bs = runPfx menv false t s' (i + bs.length) [] := by
  induction bs with
  | nil => intro s i hc _; exact ⟨s, by simp [SJ.Proofs.Machine.feed], hc, rfl⟩
  | cons b bs ih =>
    intro s i hc hF
    simp only [runPfx] at hF ⊢
    cases h1 : step1 menv s b with
    | err c' a => rw [h1] at hF; cases hF
    | next s' =>
      rw [h1] at hF
      dsimp only at hF ⊢
      cases hcm : completed t s' with
      | some v' => rw [hcm] at hF; cases hF
      | none =>
        rw [hcm] at hF
        obtain ⟨s2, hf, hc2, hr⟩ := ih s' (i + 1) hcm hF
        refine ⟨s2, ?_, hc2, ?_⟩
        · simp only [SJ.Proofs.Machine.feed, SJ.Props.C19.step_of_next menv s b s' h1, List.length_cons]
          rw [hf]; congr 2; omega
        · dsimp only; rw [hr]; simp only [List.length_cons]
          have : i + 1 + bs.length = i + (bs.length + 1) := by omega
          rw [this]; simp only [runPfx]
    | again s' =>
      rw [h1] at hF
      dsimp only at hF ⊢
      cases hcm : completed t s' with
      | some v' => rw [hcm] at hF; cases hF
      | none =>
        rw [hcm] at hF
        dsimp only at hF ⊢
        cases h2 : step1 menv s' b with
        | err c' a => rw [h2] at hF; cases hF
        | next s'' =>
          rw [h2] at hF
          dsimp only at hF ⊢
          cases hcm2 : completed t s'' with
          | some v' => rw [hcm2] at hF; cases hF
          | none =>
            rw [hcm2] at hF
            obtain ⟨s2, hf, hc2, hr⟩ := ih s'' (i + 1) hcm2 hF
            refine ⟨s2, ?_, hc2, ?_⟩
            · simp only [SJ.Proofs.Machine.feed, SJ.Props.C19.step_of_again_next menv s b s' s'' h1 h2, List.length_cons]
              rw [hf]; congr 2; omega
            · dsimp only; rw [hr]; simp only [List.length_cons]
              have : i + 1 + bs.length = i + (bs.length + 1) := by omega
              rw [this]; simp only [runPfx]
        | again s'' => rw [h2] at hF; cases hF

open SJ.Proofs.Sound in
/-- … and if the clean run then succeeds at the end of the delivered bytes, they are whitespace and a number literal:
    ASCII -/
theorem io_ok_ascii (menv : Machine.Env) (r : Bytes) (p : Nat) (v : JV) (e : Nat)
    (hF : runPfx menv true 0 init p r = .io) (hC : runPfx menv false 0 init p r = .ok v e) : ∀ x ∈ r, x < 0x80 := by
  have hinit : completed 0 init = none := by simp [SJ.Proofs.RawSpan.completed_zero, init]
  obtain ⟨s', hfeed, hnc, hr⟩ := runPfx_io_feed menv 0 r init p hinit hF
  rw [hr] at hC
  simp only [runPfx, Bool.false_eq_true, if_false, SJ.Proofs.RawSpan.finishT_zero] at hC
  have hfin : Machine.finish menv s' = .ok v := by
    cases hf : Machine.finish menv s' with
    | ok v' => rw [hf] at hC; simp only [MOut.ok.injEq] at hC; rw [hC.1]
    | error c => rw [hf] at hC; cases hC
  have hinv := feed_inv menv init [] p r s' _ (Inv.init menv) hfeed
  simp only [List.nil_append] at hinv
  rw [SJ.Proofs.RawSpan.completed_zero] at hnc
  obtain ⟨mode, fs⟩ := s'
  cases mode with
  | num n =>
    unfold Machine.finish at hfin
    simp only at hfin
    have hphase : FinalPhase n.phase := by
      cases hp : n.phase <;> simp only [hp] at hfin <;> first | trivial | cases hfin
    have hfs : fs = [] := by
      have : ∃ s2, Machine.endNumber menv ⟨.num n, fs⟩ n = .ok s2 ∧ Machine.finishMode menv s2 = .ok v := by
        cases hp : n.phase <;> simp only [hp] at hfin <;> first
          | cases hfin
          | (cases he : Machine.endNumber menv ⟨.num n, fs⟩ n with
             | ok s2 => rw [he] at hfin; exact ⟨s2, rfl, hfin⟩
             | error x => obtain ⟨c, a⟩ := x; rw [he] at hfin; cases hfin)
      obtain ⟨s2, he, hm⟩ := this
      obtain ⟨val, rfl⟩ := SJ.Proofs.Machine.endNumber_ok menv _ n s2 he
      have hd := SJ.Proofs.StreamDepth.finishMode_ok menv _ v hm
      cases fs with
      | nil => rfl
      | cons f fs' => cases f <;> simp [Machine.complete] at hd
    subst hfs
    cases hinv with
    | num n' fs' pre cs hvp hni hcs =>
      cases hvp with
      | top w hw =>
        obtain ⟨q, hwf, hb, _⟩ := numInv_final n hni hphase
        intro x hx
        rw [hcs, List.mem_append] at hx
        rcases hx with hx | hx
        · have := SJ.Proofs.RawSpan.all_of_ws hw
          exact SJ.Proofs.Utf8.mWs_ascii (List.all_eq_true.mp this x hx)
        · rw [← hb] at hx
          exact SJ.Proofs.RawSources.num_ascii q hwf x hx
  | done v' => simp at hnc
  | _ =>
    exfalso
    unfold Machine.finish at hfin
    simp only at hfin
    have := SJ.Proofs.StreamDepth.finishMode_ok menv _ v hfin
    simp at this

end SJ.Proofs.RawFault
