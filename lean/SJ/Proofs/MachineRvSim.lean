import SJ.Proofs.MachineRvTail
import SJ.Proofs.MachineRvSync
/-!
# `MachineRv` against the machine on the same bytes: soundness

`R2 s m`: the state `s` of `MachineRv` and the state `m` of the machine after the same bytes — `MachineAp`'s relation `R`
outside a raw-token object, and inside one: `MachineRv` in a raw phase while the machine reads the member
`"<raw token>": <value>` of an ordinary object. `sim_step`: a successful step of `MachineRv` (whatever the nested parser)
is a successful step of the machine. Hence `rv_sound`: what the faithful model accepts, the machine accepts — so the OUTER
text is an RFC 8259 text meeting the side conditions. (Nothing is claimed here about the values: the value of a raw-token
object is the value of the nested text.)
-/
namespace SJ.Proofs.MachineRv
open SJ SJ.Gen SJ.Model SJ.Model.Machine SJ.Proofs.Sound
open SJ.Model.MachineRv (REnv RPhase stepRaw parseFuel parseTop nestedResult escalate ofAp Expect Msg)
open SJ.Model.MachineRv renaming step1 → rstep1, step → rstep, run → rrun, Outcome → ROut, Step → RStep, St → RSt,
  finish → rfinish, init → rinit, triggered → rtriggered, liftStep → rliftStep, Fail → RFail
open SJ.Proofs.MachineAp (ASt arun astep R Eqv ModeEqv StackEqv FrameEqv eqv_complete stepStr_cases stepNum_cases numFinish
  startValue_scalar step_of_str)

inductive R2 : RSt → St → Prop
  | ap {a : ASt} {m : St} : R a m → R2 (.ap a) m
  | val {fs fs' : List Frame} : StackEqv fs fs' → R2 (.raw .val fs) ⟨.val .objVal, .obj [] MachineRv.token :: fs'⟩
  | str {st : StrSt} {fs fs' : List Frame} : st.isKey = false → StackEqv fs fs' →
      R2 (.raw (.str st) fs) ⟨.str st, .obj [] MachineRv.token :: fs'⟩
  | otherLit {rest : Bytes} {v v' : JV} {fs fs' : List Frame} : StackEqv fs fs' →
      R2 (.raw (.other ⟨.lit rest v, []⟩) fs) ⟨.lit rest v', .obj [] MachineRv.token :: fs'⟩
  | otherNum {n : NumSt} {fs fs' : List Frame} : StackEqv fs fs' →
      R2 (.raw (.other ⟨.num n, []⟩) fs) ⟨.num n, .obj [] MachineRv.token :: fs'⟩
  | endMap {v : JV} {ms' : List (Bytes × JV)} {fs fs' : List Frame} : ms' ≠ [] → StackEqv fs fs' →
      R2 (.raw (.endMap v) fs) ⟨.afterMember, .obj ms' MachineRv.token :: fs'⟩

theorem rstep_base_triggered (f : Bytes → ROut) (renv : REnv) (s : St) (b : UInt8) (fs : List Frame)
    (h : rtriggered renv s b = some fs) : rstep f renv (.ap (.base s)) b = .ok (.raw .val fs) := by
  unfold rstep rstep1
  simp [h]

/-- **a successful step of `MachineRv` is a successful step of the machine** -/
theorem sim_step (f : Bytes → ROut) (renv : REnv) {s s' : RSt} {m : St} (b : UInt8) (hr : R2 s m)
    (hs : rstep f renv s b = .ok s') : ∃ m', step renv.env m b = .ok m' ∧ R2 s' m' := by
  cases hr with
  | @ap a _ hra =>
    by_cases htr : ∃ m0 fs, a = .base m0 ∧ rtriggered renv m0 b = some fs
    · obtain ⟨m0, fs, rfl, ht⟩ := htr
      rw [rstep_base_triggered f renv m0 b fs ht] at hs
      simp only [Except.ok.injEq] at hs
      subst hs
      obtain ⟨_, _, hb, hm, hst⟩ := rtriggered_some ht
      cases hra with
      | base he =>
        obtain ⟨hm', fs', hst', hfs⟩ := eqv_afterKey he fs hm hst
        obtain ⟨md, stk⟩ := m
        simp only at hm' hst'
        subst hm' hst' hb
        exact ⟨_, SJ.Proofs.Complete.step_colon renv.env _, .val hfs⟩
    · have hnone : ∀ m0, a = .base m0 → rtriggered renv m0 b = none := by
        intro m0 ha
        cases ht : rtriggered renv m0 b with
        | none => rfl
        | some fs => exact absurd ⟨m0, fs, ha, ht⟩ htr
      rw [rstep_ap_eq f renv a b hnone] at hs
      cases h1 : MachineAp.step renv.env a b with
      | error e => rw [h1] at hs; cases e <;> cases hs
      | ok a' =>
        rw [h1] at hs
        simp only [liftRes, Except.ok.injEq] at hs
        subst hs
        obtain ⟨m', hm', hr'⟩ := SJ.Proofs.MachineAp.sim_step renv.env b hra h1
        exact ⟨m', hm', .ap hr'⟩
  | @val fs fs' hfs =>
    by_cases hw : isWs b = true
    · rw [rstep_val_ws f renv fs b hw] at hs
      simp only [Except.ok.injEq] at hs; subst hs
      exact ⟨_, SJ.Proofs.Complete.step_ws renv.env ⟨.val .objVal, _⟩ trivial b hw, .val hfs⟩
    · have hw' : isWs b = false := by simpa using hw
      by_cases hq : (b == 0x22) = true
      · have : b = 0x22 := by simpa using hq
        subst this
        rw [rstep_val_quote f renv fs] at hs
        simp only [Except.ok.injEq] at hs; subst hs
        exact ⟨_, SJ.Proofs.Complete.step_quote_open renv.env .objVal _, .str rfl hfs⟩
      · have hq' : (b == 0x22) = false := by simpa using hq
        by_cases hc : (b == 0x5b || b == 0x7b) = true
        · rw [rstep_val_container f renv fs b hc] at hs; cases hs
        · have hc' : (b == 0x5b || b == 0x7b) = false := by simpa using hc
          rw [rstep_val_scalar f renv fs b hw' hq' hc'] at hs
          cases h1 : startValue renv.env ⟨.val .top, []⟩ b with
          | err c a => rw [h1] at hs; cases hs
          | again t => rw [h1] at hs; cases hs
          | next t =>
            rw [h1] at hs
            simp only [Except.ok.injEq] at hs; subst hs
            have h5d : (b == 0x5d) = false := by
              cases hx : (b == 0x5d) with
              | false => rfl
              | true =>
                have : b = 0x5d := by simpa using hx
                subst this
                have : startValue renv.env ⟨.val .top, []⟩ 0x5d = .err .ExpectedSomeValue .incl := by
                  simp [startValue, isDigit]
                rw [this] at h1; cases h1
            rcases startValue_scalar renv.env _ b t hq' hc' h1 with ⟨rest, v, rfl, hall⟩ | ⟨n, rfl, hall⟩
            · exact ⟨_, SJ.Proofs.Complete.step_val renv.env .objVal _ b _ hw' h5d (hall _), .otherLit hfs⟩
            · exact ⟨_, SJ.Proofs.Complete.step_val renv.env .objVal _ b _ hw' h5d (hall _), .otherNum hfs⟩
  | @str st fs fs' hk hfs =>
    rw [rstep_str f renv fs st b] at hs
    rcases stepStr_cases renv.env st b with ⟨st', hk', he⟩ | he | ⟨c, a, he⟩
    · rw [he renv.env _ rfl] at hs
      simp only [Except.ok.injEq] at hs; subst hs
      exact ⟨_, step_of_str renv.env st _ b _ (he renv.env _ rfl), .str (hk' ▸ hk) hfs⟩
    · rw [he renv.env _ rfl] at hs
      cases h1 : endStr renv.env ⟨.str st, []⟩ st with
      | err c a => rw [h1] at hs; cases hs
      | again t => rw [h1] at hs; cases hs
      | next t =>
        rw [h1] at hs
        obtain ⟨_, rfl⟩ := SJ.Proofs.MachineAp.endStr_scratch renv.env _ st t h1
        -- the machine closes the string as the value of the member
        have hm : endStr renv.env ⟨.str st, .obj [] MachineRv.token :: fs'⟩ st =
            .next ⟨.afterMember, .obj [(MachineRv.token, if renv.env.tgt = .value then .str st.out.reverse else .null)]
              MachineRv.token :: fs'⟩ := by
          unfold endStr at h1 ⊢
          simp only at h1 ⊢
          split at h1
          · cases h1
          · rename_i hbad
            simp only [hbad, if_false, hk, Bool.false_eq_true]
            rfl
        by_cases hv : renv.env.tgt = .value
        · simp only [hv, if_true] at hs hm
          cases hf : f st.out.reverse with
          | ok v0 =>
            rw [hf] at hs
            simp only [closeRes, Except.ok.injEq] at hs; subst hs
            exact ⟨_, step_of_str renv.env st _ b _ ((he renv.env _ rfl).trans hm), .endMap (by simp) hfs⟩
          | err c k => rw [hf] at hs; cases hs
          | data e k => rw [hf] at hs; cases hs
          | custom mm l k => rw [hf] at hs; cases hs
        · simp only [hv, if_false] at hs; cases hs
    · rw [he renv.env _ rfl] at hs; cases hs
  | @otherLit rest v v' fs fs' hfs =>
    rw [rstep_other f renv fs _ b] at hs
    cases rest with
    | nil => simp only [step1] at hs; cases hs
    | cons e es =>
      simp only [step1] at hs
      by_cases hbe : (b == e) = true
      · simp only [hbe, if_true] at hs
        by_cases hes : es.isEmpty = true
        · simp only [hes, if_true, complete] at hs; cases hs
        · simp only [hes, Bool.false_eq_true, if_false, Except.ok.injEq] at hs
          subst hs
          refine ⟨⟨.lit es v', _⟩, ?_, .otherLit hfs⟩
          simp [step, step1, hbe, hes]
      · simp only [hbe, Bool.false_eq_true, if_false] at hs; cases hs
  | @otherNum n fs fs' hfs =>
    rw [rstep_other f renv fs _ b] at hs
    simp only [step1] at hs
    rcases stepNum_cases renv.env n b with ⟨n', he⟩ | he | ⟨c, a, he⟩
    · rw [he renv.env _ rfl rfl] at hs
      simp only [Except.ok.injEq] at hs; subst hs
      refine ⟨⟨.num n', _⟩, ?_, .otherNum hfs⟩
      simp [step, step1, he renv.env ⟨.num n, _⟩ rfl rfl]
    · rw [he renv.env _ rfl rfl] at hs
      unfold numFinish at hs
      cases h1 : endNumber renv.env ⟨.num n, []⟩ n with
      | ok t => rw [h1] at hs; cases hs
      | error e => rw [h1] at hs; obtain ⟨c, a⟩ := e; cases hs
    · rw [he renv.env _ rfl rfl] at hs; cases hs
  | @endMap v0 ms' fs fs' hne hfs =>
    by_cases hw : isWs b = true
    · rw [rstep_endMap_ws f renv fs v0 b hw] at hs
      simp only [Except.ok.injEq] at hs; subst hs
      exact ⟨_, SJ.Proofs.Complete.step_ws renv.env ⟨.afterMember, _⟩ trivial b hw, .endMap hne hfs⟩
    · have hw' : isWs b = false := by simpa using hw
      by_cases h1 : (b == 0x7d) = true
      · have : b = 0x7d := by simpa using h1
        subst this
        rw [rstep_endMap_close f renv fs v0] at hs
        simp only [Except.ok.injEq] at hs; subst hs
        exact ⟨_, SJ.Proofs.Complete.step_close_obj renv.env ms' _ fs', .ap (.base (eqv_complete hfs _ _))⟩
      · by_cases h2 : (b == 0x2c) = true
        · have : b = 0x2c := by simpa using h2
          subst this
          rw [rstep_endMap_comma f renv fs v0] at hs; cases hs
        · rw [rstep_endMap_other f renv fs v0 b hw' (by simpa using h1) (by simpa using h2)] at hs; cases hs

/-! ## runs -/

theorem rfinish_ok (renv : REnv) {s : RSt} {m : St} (hr : R2 s m) (v : JV) (h : rfinish renv s = .ok v) :
    ∃ v', finish renv.env m = .ok v' := by
  cases hr with
  | @ap a _ hra =>
    simp only [MachineRv.finish] at h
    cases hf : MachineAp.finish renv.env a with
    | ok v0 => exact SJ.Proofs.MachineAp.afinish_ok renv.env hra v0 hf
    | error e => rw [hf] at h; cases e <;> cases h
  | val _ => simp only [MachineRv.finish] at h; cases h
  | str _ _ => simp only [MachineRv.finish] at h; cases h
  | @otherLit rest v1 v' fs fs' _ =>
    simp only [MachineRv.finish] at h
    cases hf : finish renv.env ⟨.lit rest v1, []⟩ <;> rw [hf] at h <;> cases h
  | @otherNum n fs fs' _ =>
    simp only [MachineRv.finish] at h
    cases hf : finish renv.env ⟨.num n, []⟩ <;> rw [hf] at h <;> cases h
  | endMap _ _ => simp only [MachineRv.finish] at h; cases h

theorem sim_run (f : Bytes → ROut) (renv : REnv) : ∀ (bs : Bytes) (s : RSt) (m : St) (i j : Nat) (v : JV), R2 s m →
    rrun f renv s i bs = .ok v → ∃ v', run renv.env m j bs = .ok v'
  | [], s, m, i, j, v, hr, h => by
    rw [rrun_nil] at h
    cases hf : rfinish renv s with
    | error e => rw [hf] at h; cases e <;> cases h
    | ok v0 =>
      obtain ⟨v', hv'⟩ := rfinish_ok renv hr v0 hf
      exact ⟨v', by rw [SJ.Proofs.MachineAp.run_nil, hv']⟩
  | b :: bs, s, m, i, j, v, hr, h => by
    obtain ⟨s', hs, hrun⟩ := rrun_cons_ok' f renv s i b bs v h
    obtain ⟨m', hm, hr'⟩ := sim_step f renv b hr hs
    obtain ⟨v', hv'⟩ := sim_run f renv bs s' m' (i + 1) (j + 1) v hr' hrun
    exact ⟨v', by rw [SJ.Proofs.MachineAp.run_cons_ok renv.env m m' j b bs hm]; exact hv'⟩

/-- **the faithful model accepts nothing the machine rejects**: with `raw_value` (and `arbitrary_precision`) too, whatever
    `Value` parsing accepts is accepted by the machine — hence an RFC 8259 text meeting the side conditions -/
theorem rv_sound (renv : REnv) (bs : Bytes) (v : JV) (h : parseTop renv bs = .ok v) :
    ∃ v', Machine.parseTop renv.env bs = .ok v' :=
  sim_run _ renv bs rinit init 0 0 v (.ap (.base (SJ.Proofs.MachineAp.eqv_refl init))) h

end SJ.Proofs.MachineRv
