import SJ.Proofs.LexTopExp
import SJ.Proofs.LexTopParser
import SJ.Proofs.FloatLift
import SJ.Proofs.RoundTripWF
import SJ.Spec.Range
/-!
# `Spec.Range` against the configured conversions, one literal at a time

* `litOf_eq`: the specification's reading of a grammar-level literal is the one C07/C08 are stated about;
* `numOf_fr_isSome_iff`: under `float_roundtrip` the conversion answers exactly when the literal is within finite f64
  range (`LitFinite`): integers classified, otherwise nearest-even rounding of the exact value is finite;
* `numOf_default_*`: in the default build only the band is known.
-/
namespace SJ.Proofs.RangeLit
open SJ SJ.Gen SJ.Model.Lexical SJ.Model.Num SJ.Spec.Ieee SJ.Spec.Decimal
open SJ.Proofs.LexSplit SJ.Proofs.LexTopFloat SJ.Proofs.LexTopSpec SJ.Proofs.LexTopRoundtrip SJ.Proofs.LexTopExp
open SJ.Proofs.NumLink (PartsWF toNumLit numOfNRes numOfLit)
open SJ.Spec.Grammar (NumParts CST StrItem)
open SJ.Spec.Canon (partsOf numOf)
open SJ.Spec.Range (LitFinite IntLitInRange allNums allNumsList allNumsMembers finiteRange)

/-- the specification's reading of a literal is the literal C07 / C08 speak about -/
theorem litOf_eq (p : NumParts) : Spec.Range.litOf p = SJ.Proofs.NumLinkParser.litOf p := by
  obtain ⟨minus, int, frac, exp⟩ := p
  unfold Spec.Range.litOf SJ.Proofs.NumLinkParser.litOf toNumLit partsOf
  simp only [SJ.Proofs.Complete.fracOf_getD]
  cases exp with
  | nil => rfl
  | cons c r =>
    cases r with
    | nil => rfl
    | cons s ds =>
      simp only []
      by_cases h1 : (s == 0x2d) = true
      · simp [h1]
      · have h1' : (s == 0x2d) = false := by simpa using h1
        by_cases h2 : (s == 0x2b) = true
        · simp [h1', h2]
        · have h2' : (s == 0x2b) = false := by simpa using h2
          simp [h1', h2']

theorem exact_den_pos (l : NumLit) : 0 < l.exact.2 := by
  unfold NumLit.exact; exact scale10_den_pos _ _

/-- an integer literal within `[i64::MIN, u64::MAX]` is far below the overflow threshold -/
theorem intLit_not_overflow (l : NumLit) (h : IntLitInRange l) : ¬ Overflows64 l.exact.1 l.exact.2 := by
  obtain ⟨hf, he, hv⟩ := h
  have hs : l.sigVal < 2 ^ 64 + 1 := by split at hv <;> omega
  have hnet : l.netExp = 0 := by
    unfold NumLit.netExp NumLit.expVal
    rw [he, hf]; simp [digitsVal]
  apply SJ.Proofs.Ieee.not_overflows64_of_lt
  unfold NumLit.exact scale10
  rw [hnet]
  simp only [ge_iff_le, Int.le_refl, if_true, Int.toNat_zero, Nat.pow_zero, Nat.mul_one]
  have : (2 : Nat) ^ 64 + 1 ≤ 2 ^ 1023 := by decide +kernel
  omega

/-- the first clause of `LitFinite` is implied by the second -/
theorem litFinite_iff (l : NumLit) : LitFinite l ↔ ¬ Overflows64 l.exact.1 l.exact.2 :=
  ⟨fun h => h.elim (intLit_not_overflow l) id, Or.inr⟩

/-- `roundNE64` answers exactly on the literals within finite range -/
theorem roundNE64_isSome_iff (neg : Bool) (l : NumLit) :
    (roundNE64 neg l.exact.1 l.exact.2).isSome = true ↔ LitFinite l := by
  rw [litFinite_iff]
  obtain ⟨a1, a2⟩ := SJ.Proofs.Ieee.roundNE64_correct neg _ _ (exact_den_pos l)
  constructor
  · intro h ho; rw [a2 ho] at h; cases h
  · intro h; obtain ⟨r, hr, _⟩ := a1 h; rw [hr]; rfl

theorem wf_of_numParts (p : NumParts) (hwf : p.WF = true) (hlen : p.int.length + p.frac.length + 20 < 2 ^ 29) :
    WF (partsOf p) ∧ ((partsOf p).int ++ (partsOf p).frac.getD []).length + 20 < 2 ^ 29 := by
  have hpw := SJ.Proofs.NumLinkParser.partsOf_wf p hwf
  have hfr' : ((partsOf p).frac.getD []) = p.frac.drop 1 := SJ.Proofs.Complete.fracOf_getD p.frac
  have hint : (partsOf p).int = p.int := rfl
  exact ⟨wf_of_partsWF _ hpw (by rw [hfr', List.length_drop]; omega),
    by rw [hfr', hint, List.length_append, List.length_drop]; omega⟩

/-- the integer classes of the model are the specification's integer literals in range -/
theorem intClass_some (p : NumParts) (r : NRes) (h : intClass (partsOf p) = some r) :
    IntLitInRange (SJ.Proofs.NumLinkParser.litOf p) ∧ (numOfNRes r).isSome = true := by
  unfold intClass at h
  cases hf : (partsOf p).frac with
  | some f => rw [hf] at h; cases h
  | none =>
    cases he : (partsOf p).exp with
    | some e => rw [hf, he] at h; cases h
    | none =>
      rw [hf, he] at h
      simp only [] at h
      have hfd : (SJ.Proofs.NumLinkParser.litOf p).fracDigits = [] := by
        unfold SJ.Proofs.NumLinkParser.litOf toNumLit; rw [hf]; rfl
      have hed : (SJ.Proofs.NumLinkParser.litOf p).expDigits = [] := by
        unfold SJ.Proofs.NumLinkParser.litOf toNumLit; rw [he]; rfl
      have hsv : (SJ.Proofs.NumLinkParser.litOf p).sigVal = natOfDigits (partsOf p).int := by
        unfold NumLit.sigVal NumLit.digits
        rw [hfd, List.append_nil]; rfl
      have hneg : (SJ.Proofs.NumLinkParser.litOf p).neg = (partsOf p).neg := rfl
      refine ⟨⟨hfd, hed, ?_⟩, ?_⟩
      · rw [hsv, hneg]
        cases hn : (partsOf p).neg
        · rw [hn] at h
          simp only [Bool.not_false, if_true] at h
          split at h
          · simpa using ‹_›
          · cases h
        · rw [hn] at h
          simp only [Bool.not_true, Bool.false_eq_true, if_false] at h
          split at h
          · cases h
          · split at h
            · simpa using ‹_›
            · cases h
      · cases hn : (partsOf p).neg
        · rw [hn] at h
          simp only [Bool.not_false, if_true] at h
          split at h
          · cases h; rfl
          · cases h
        · rw [hn] at h
          simp only [Bool.not_true, Bool.false_eq_true, if_false] at h
          split at h
          · cases h
          · split at h
            · cases h; rfl
            · cases h

/-- **`float_roundtrip`: the conversion answers iff the literal is within finite f64 range** -/
theorem numOf_fr_isSome_iff (cfg : Spec.Canon.Cfg) (hfr : cfg.fr = true) (hap : cfg.ap = false) (p : NumParts)
    (hwf : p.WF = true) (hlen : p.int.length + p.frac.length + 20 < 2 ^ 29) :
    (numOf cfg p).isSome = true ↔ LitFinite (Spec.Range.litOf p) := by
  rw [litOf_eq, SJ.Proofs.LexTopParser.numOf_fr cfg hfr hap p hwf hlen]
  obtain ⟨wf, hl⟩ := wf_of_numParts p hwf hlen
  cases hic : intClass (partsOf p) with
  | some r =>
    obtain ⟨h1, h2⟩ := intClass_some p r hic
    have : deFloatRoundtrip false (partsOf p) = r := by
      rw [deFloat_eq false _ wf hl, specG_eq, hic]
    rw [this]
    exact ⟨fun _ => Or.inl h1, fun _ => h2⟩
  | none =>
    rw [deFloat64_nearest_all _ wf hl hic]
    have hneg : (partsOf p).neg = (SJ.Proofs.NumLinkParser.litOf p).neg := rfl
    rw [← roundNE64_isSome_iff (partsOf p).neg]
    unfold SJ.Proofs.NumLinkParser.litOf
    cases roundNE64 (partsOf p).neg (toNumLit (partsOf p)).exact.1 (toNumLit (partsOf p)).exact.2 <;> simp [numOfNRes]

/-! ## the default build: only the band -/

theorem numOf_default_isSome_iff (cfg : Spec.Canon.Cfg) (hfr : cfg.fr = false) (hap : cfg.ap = false) (p : NumParts)
    (hwf : p.WF = true) :
    (numOf cfg p).isSome = true ↔ (Model.FloatDefault.floatOfLiteral (Spec.Range.litOf p)).isSome = true := by
  rw [litOf_eq, SJ.Proofs.NumLinkParser.numOf_eq_numOfLit cfg hfr hap p hwf]
  have := SJ.Proofs.NumLink.numOfLit_none_iff (SJ.Proofs.NumLinkParser.litOf p)
  cases h1 : numOfLit (SJ.Proofs.NumLinkParser.litOf p) with
  | none => rw [this.1 h1]; exact Iff.rfl
  | some x =>
    cases h2 : Model.FloatDefault.floatOfLiteral (SJ.Proofs.NumLinkParser.litOf p) with
    | none => rw [this.2 h2] at h1; cases h1
    | some b => simp

/-- accepted in the default build ⇒ exact value `< 2^1024 + 2^972 + 2^965` -/
theorem numOf_default_upper (cfg : Spec.Canon.Cfg) (hfr : cfg.fr = false) (hap : cfg.ap = false) (p : NumParts)
    (hwf : p.WF = true) (hlen : p.int.length + p.frac.length < 2 ^ 30)
    (h : (numOf cfg p).isSome = true) :
    (Spec.Range.litOf p).exact.1 < (2 ^ 1024 + 2 ^ 972 + 2 ^ 965) * (Spec.Range.litOf p).exact.2 := by
  rw [numOf_default_isSome_iff cfg hfr hap p hwf] at h
  rw [litOf_eq] at h ⊢
  have hl : (SJ.Proofs.NumLinkParser.litOf p).digits.length < 2 ^ 30 := by
    unfold NumLit.digits
    rw [List.length_append, SJ.Proofs.NumLinkParser.litOf_int, SJ.Proofs.NumLinkParser.litOf_frac, List.length_drop]
    omega
  by_contra hc
  have := (SJ.Proofs.FloatQ.floatOfLiteral_overflow _ (SJ.Proofs.NumLinkParser.litOf_wf p hwf) hl).2 (by omega)
  rw [this] at h; cases h

/-- exact value `< 2^1024 − 2^970 − 2^972` ⇒ accepted in the default build -/
theorem numOf_default_lower (cfg : Spec.Canon.Cfg) (hfr : cfg.fr = false) (hap : cfg.ap = false) (p : NumParts)
    (hwf : p.WF = true) (hlen : p.int.length + p.frac.length < 2 ^ 30)
    (h : (Spec.Range.litOf p).exact.1 < (2 ^ 1024 - 2 ^ 970 - 2 ^ 972) * (Spec.Range.litOf p).exact.2) :
    (numOf cfg p).isSome = true := by
  rw [numOf_default_isSome_iff cfg hfr hap p hwf]
  rw [litOf_eq] at h ⊢
  have hl : (SJ.Proofs.NumLinkParser.litOf p).digits.length < 2 ^ 30 := by
    unfold NumLit.digits
    rw [List.length_append, SJ.Proofs.NumLinkParser.litOf_int, SJ.Proofs.NumLinkParser.litOf_frac, List.length_drop]
    omega
  cases hf : Model.FloatDefault.floatOfLiteral (SJ.Proofs.NumLinkParser.litOf p) with
  | some b => rfl
  | none =>
    have := (SJ.Proofs.FloatQ.floatOfLiteral_overflow _ (SJ.Proofs.NumLinkParser.litOf_wf p hwf) hl).1 hf
    omega

/-! ## lifting through syntax trees -/

mutual
theorem allNums_mono {P Q : NumParts → Prop} (h : ∀ p, P p → Q p) : (t : CST) → allNums P t → allNums Q t
  | .null, _ => by simp only [allNums]
  | .true_, _ => by simp only [allNums]
  | .false_, _ => by simp only [allNums]
  | .str _, _ => by simp only [allNums]
  | .num p, hp => by simp only [allNums] at hp ⊢; exact h p hp
  | .arr xs, hp => by simp only [allNums] at hp ⊢; exact allNumsList_mono h xs hp
  | .obj ms, hp => by simp only [allNums] at hp ⊢; exact allNumsMembers_mono h ms hp
theorem allNumsList_mono {P Q : NumParts → Prop} (h : ∀ p, P p → Q p) :
    (xs : List CST) → allNumsList P xs → allNumsList Q xs
  | [], _ => by simp only [allNumsList]
  | x :: xs, hp => by
    simp only [allNumsList] at hp ⊢
    exact ⟨allNums_mono h x hp.1, allNumsList_mono h xs hp.2⟩
theorem allNumsMembers_mono {P Q : NumParts → Prop} (h : ∀ p, P p → Q p) :
    (ms : List (List StrItem × CST)) → allNumsMembers P ms → allNumsMembers Q ms
  | [], _ => by simp only [allNumsMembers]
  | (_, x) :: ms, hp => by
    simp only [allNumsMembers] at hp ⊢
    exact ⟨allNums_mono h x hp.1, allNumsMembers_mono h ms hp.2⟩
end

mutual
theorem allNums_and {P Q : NumParts → Prop} : (t : CST) → allNums P t → allNums Q t → allNums (fun p => P p ∧ Q p) t
  | .null, _, _ => by simp only [allNums]
  | .true_, _, _ => by simp only [allNums]
  | .false_, _, _ => by simp only [allNums]
  | .str _, _, _ => by simp only [allNums]
  | .num p, hp, hq => by simp only [allNums] at hp hq ⊢; exact ⟨hp, hq⟩
  | .arr xs, hp, hq => by simp only [allNums] at hp hq ⊢; exact allNumsList_and xs hp hq
  | .obj ms, hp, hq => by simp only [allNums] at hp hq ⊢; exact allNumsMembers_and ms hp hq
theorem allNumsList_and {P Q : NumParts → Prop} :
    (xs : List CST) → allNumsList P xs → allNumsList Q xs → allNumsList (fun p => P p ∧ Q p) xs
  | [], _, _ => by simp only [allNumsList]
  | x :: xs, hp, hq => by
    simp only [allNumsList] at hp hq ⊢
    exact ⟨allNums_and x hp.1 hq.1, allNumsList_and xs hp.2 hq.2⟩
theorem allNumsMembers_and {P Q : NumParts → Prop} :
    (ms : List (List StrItem × CST)) → allNumsMembers P ms → allNumsMembers Q ms →
      allNumsMembers (fun p => P p ∧ Q p) ms
  | [], _, _ => by simp only [allNumsMembers]
  | (_, x) :: ms, hp, hq => by
    simp only [allNumsMembers] at hp hq ⊢
    exact ⟨allNums_and x hp.1 hq.1, allNumsMembers_and ms hp.2 hq.2⟩
end

mutual
/-- `Spec.Canon.numbersInRange` is "the configured conversion answers on every literal" -/
theorem numbersInRange_iff (cfg : Spec.Canon.Cfg) :
    (t : CST) → (Spec.Canon.numbersInRange cfg t = true ↔ allNums (fun p => (numOf cfg p).isSome = true) t)
  | .null => by simp only [Spec.Canon.numbersInRange, allNums]
  | .true_ => by simp only [Spec.Canon.numbersInRange, allNums]
  | .false_ => by simp only [Spec.Canon.numbersInRange, allNums]
  | .str _ => by simp only [Spec.Canon.numbersInRange, allNums]
  | .num p => by simp only [Spec.Canon.numbersInRange, allNums]
  | .arr xs => by simp only [Spec.Canon.numbersInRange, allNums]; exact numbersInRangeList_iff cfg xs
  | .obj ms => by simp only [Spec.Canon.numbersInRange, allNums]; exact numbersInRangeMembers_iff cfg ms
theorem numbersInRangeList_iff (cfg : Spec.Canon.Cfg) :
    (xs : List CST) → (Spec.Canon.numbersInRangeList cfg xs = true ↔
      allNumsList (fun p => (numOf cfg p).isSome = true) xs)
  | [] => by simp only [Spec.Canon.numbersInRangeList, allNumsList]
  | x :: xs => by
    simp only [Spec.Canon.numbersInRangeList, allNumsList, Bool.and_eq_true, numbersInRange_iff cfg x,
      numbersInRangeList_iff cfg xs]
theorem numbersInRangeMembers_iff (cfg : Spec.Canon.Cfg) :
    (ms : List (List StrItem × CST)) → (Spec.Canon.numbersInRangeMembers cfg ms = true ↔
      allNumsMembers (fun p => (numOf cfg p).isSome = true) ms)
  | [] => by simp only [Spec.Canon.numbersInRangeMembers, allNumsMembers]
  | (_, x) :: ms => by
    simp only [Spec.Canon.numbersInRangeMembers, allNumsMembers, Bool.and_eq_true, numbersInRange_iff cfg x,
      numbersInRangeMembers_iff cfg ms]
end

mutual
theorem allNums_of_numsWF : (t : CST) → SJ.Proofs.RoundTripWF.numsWF t = true → allNums (fun p => p.WF = true) t
  | .null, _ => by simp only [allNums]
  | .true_, _ => by simp only [allNums]
  | .false_, _ => by simp only [allNums]
  | .str _, _ => by simp only [allNums]
  | .num p, h => by simpa only [allNums, SJ.Proofs.RoundTripWF.numsWF] using h
  | .arr xs, h => by
    simp only [allNums, SJ.Proofs.RoundTripWF.numsWF] at h ⊢; exact allNumsList_of_numsWF xs h
  | .obj ms, h => by
    simp only [allNums, SJ.Proofs.RoundTripWF.numsWF] at h ⊢; exact allNumsMembers_of_numsWF ms h
theorem allNumsList_of_numsWF :
    (xs : List CST) → SJ.Proofs.RoundTripWF.numsWFList xs = true → allNumsList (fun p => p.WF = true) xs
  | [], _ => by simp only [allNumsList]
  | x :: xs, h => by
    simp only [allNumsList, SJ.Proofs.RoundTripWF.numsWFList, Bool.and_eq_true] at h ⊢
    exact ⟨allNums_of_numsWF x h.1, allNumsList_of_numsWF xs h.2⟩
theorem allNumsMembers_of_numsWF : (ms : List (List StrItem × CST)) →
    SJ.Proofs.RoundTripWF.numsWFMembers ms = true → allNumsMembers (fun p => p.WF = true) ms
  | [], _ => by simp only [allNumsMembers]
  | (_, x) :: ms, h => by
    simp only [allNumsMembers, SJ.Proofs.RoundTripWF.numsWFMembers, Bool.and_eq_true] at h ⊢
    exact ⟨allNums_of_numsWF x h.1, allNumsMembers_of_numsWF ms h.2⟩
end

/-! ## every literal of a text is no longer than the text -/

open SJ.Spec.Grammar (Derives Elems Members JsonText) in
theorem nums_le_of_derives {bs : Bytes} {t : CST} (h : Derives bs t) :
    allNums (fun p => p.bytes.length ≤ bs.length) t := by
  refine Derives.rec (motive_1 := fun vb t _ => allNums (fun p => p.bytes.length ≤ vb.length) t)
    (motive_2 := fun vb xs _ => allNumsList (fun p => p.bytes.length ≤ vb.length) xs)
    (motive_3 := fun vb ms _ => allNumsMembers (fun p => p.bytes.length ≤ vb.length) ms)
    ?_ ?_ ?_ ?_ ?_ ?_ ?_ ?_ ?_ ?_ ?_ ?_ ?_ h
  · simp only [allNums]
  · simp only [allNums]
  · simp only [allNums]
  · intro p _; simp only [allNums]; exact Nat.le_refl _
  · intro _ _; simp only [allNums]
  · intro _ _; simp only [allNums, allNumsList]
  · intro w₁ body w₂ xs _ _ _ _ ih
    simp only [allNums]
    exact allNumsList_mono (fun p hp => by simp only [List.length_append, List.length_cons, List.length_nil]; omega) xs ih
  · intro _ _; simp only [allNums, allNumsMembers]
  · intro w₁ body w₂ ms _ _ _ _ ih
    simp only [allNums]
    exact allNumsMembers_mono (fun p hp => by simp only [List.length_append, List.length_cons, List.length_nil]; omega) ms ih
  · intro vb t _ ih; simp only [allNumsList]; exact ⟨ih, trivial⟩
  · intro vb w₁ w₂ rest t ts _ _ _ _ ih1 ih2
    simp only [allNumsList]
    exact ⟨allNums_mono (fun p hp => by simp only [List.length_append, List.length_cons, List.length_nil]; omega) t ih1,
      allNumsList_mono (fun p hp => by simp only [List.length_append, List.length_cons, List.length_nil]; omega) ts ih2⟩
  · intro k _ w₁ w₂ vb t _ _ _ ih
    simp only [allNumsMembers]
    exact ⟨allNums_mono (fun p hp => by simp only [List.length_append, List.length_cons, List.length_nil]; omega) t ih, trivial⟩
  · intro k _ w₁ w₂ vb w₃ w₄ rest t ms _ _ _ _ _ _ ih1 ih2
    simp only [allNumsMembers]
    exact ⟨allNums_mono (fun p hp => by simp only [List.length_append, List.length_cons, List.length_nil]; omega) t ih1,
      allNumsMembers_mono (fun p hp => by simp only [List.length_append, List.length_cons, List.length_nil]; omega) ms ih2⟩

open SJ.Spec.Grammar (JsonText) in
/-- in a JSON text of `n` bytes every literal is well-formed and has at most `n` digits -/
theorem nums_of_jsonText {bs : Bytes} {t : CST} (h : JsonText bs t) :
    allNums (fun p => p.WF = true ∧ p.int.length + p.frac.length ≤ bs.length) t := by
  obtain ⟨w₁, v, w₂, rfl, _, _, hd⟩ := h
  apply allNums_and
  · exact allNums_of_numsWF t (SJ.Proofs.RoundTripWF.numsWF_of_derives hd)
  · refine allNums_mono (fun p hp => ?_) t (nums_le_of_derives hd)
    have : p.int.length + p.frac.length ≤ p.bytes.length := by
      unfold NumParts.bytes; simp only [List.length_append]; omega
    simp only [List.length_append]; omega

end SJ.Proofs.RangeLit
