import SJ.Spec.Utf8
import SJ.Spec.Denote
/-!
# UTF-8 algebra: `validUtf8` is closed under concatenation, cuts at ASCII bytes, and accepts the
# encoding of every Unicode scalar value

* `validUtf8_append_eq` / `validUtf8_append`: a well-formed prefix can be dropped / two well-formed
  strings concatenate;
* `validUtf8_ascii_split_eq`: `validUtf8 (a ++ c :: b) = (validUtf8 a && validUtf8 b)` for an ASCII
  byte `c` — a well-formed string cut before/after any ASCII byte gives well-formed pieces and
  conversely (no multi-byte sequence contains a byte `< 0x80`);
* `validUtf8_utf8`: `Spec.Denote.utf8 cp` is well-formed for every scalar value `cp` (≤ U+10FFFF, not
  a surrogate).
-/
namespace SJ.Proofs.Utf8
open SJ SJ.Spec.Utf8 SJ.Spec.Denote

theorem cont_ascii {c : UInt8} (h : c < 0x80) : cont c = false := by
  simp only [cont, UInt8.lt_iff_toNat_lt, UInt8.le_iff_toNat_le] at *
  simp at *; omega

theorem ascii_not_ge {c : UInt8} (h : c < 0x80) :
    decide (128 ≤ c) = false ∧ decide (144 ≤ c) = false ∧ decide (160 ≤ c) = false := by
  simp only [UInt8.lt_iff_toNat_lt, UInt8.le_iff_toNat_le, decide_eq_false_iff_not] at *
  simp at *; omega

/-- an ASCII byte is a complete character -/
theorem validUtf8_cons_ascii {c : UInt8} (h : c < 0x80) (r : Bytes) : validUtf8 (c :: r) = validUtf8 r := by
  rw [validUtf8.eq_def]; simp only [h, if_true]

/-- truncated sequence: `r` is shorter than the lead byte demands -/
syntax "utf8_trunc " ident ident : tactic
macro_rules
  | `(tactic| utf8_trunc $r $hx) => `(tactic|
    (rcases $r:ident with _ | ⟨b1, _ | ⟨b2, _ | ⟨b3, r⟩⟩⟩
     all_goals first
      | (exfalso; exact $hx _ _ rfl)
      | (exfalso; exact $hx _ _ _ rfl)
      | (exfalso; exact $hx _ _ _ _ rfl)
      | (simp only [List.cons_append, List.nil_append]
         rw [validUtf8.eq_def]
         simp only [*, if_true, if_false, Bool.true_and,
          Bool.false_eq_true, Bool.and_assoc, Bool.false_and, Bool.and_false]
         try (split <;> first | rfl | (rename_i heq; cases heq; simp only [*, Bool.false_and, Bool.and_false])))))

/-- **cutting at an ASCII byte**: no multi-byte sequence contains a byte below 0x80, so the string
    is well-formed iff both sides of the ASCII byte are -/
theorem validUtf8_ascii_split_eq (a b : Bytes) (c : UInt8) (hc : c < 0x80) :
    validUtf8 (a ++ c :: b) = (validUtf8 a && validUtf8 b) := by
  have hcc := cont_ascii hc
  obtain ⟨hc1, hc2, hc3⟩ := ascii_not_ge hc
  fun_induction validUtf8 a
  case case1 => simp only [List.nil_append, validUtf8_cons_ascii hc, Bool.true_and]
  case case2 b0 r h ih => rw [List.cons_append, validUtf8_cons_ascii h, ih]
  case case4 b0 r _ _ hx => utf8_trunc r hx
  case case6 b0 r _ _ _ hx => utf8_trunc r hx
  case case8 b0 r _ _ _ _ hx => utf8_trunc r hx
  case case10 b0 r _ _ _ _ _ hx => utf8_trunc r hx
  case case12 b0 r _ _ _ _ _ _ hx => utf8_trunc r hx
  case case14 b0 r _ _ _ _ _ _ _ hx => utf8_trunc r hx
  case case16 b0 r _ _ _ _ _ _ _ _ hx => utf8_trunc r hx
  case case17 b0 r _ _ _ _ _ _ _ _ =>
    rw [List.cons_append, validUtf8.eq_def]
    simp only [*, if_false, Bool.false_eq_true, Bool.false_and]
  all_goals
    (simp only [List.cons_append, validUtf8, *, if_true, if_false, Bool.false_eq_true, Bool.and_assoc]
     done)

/-- a well-formed prefix can be dropped -/
theorem validUtf8_append_eq (a b : Bytes) : validUtf8 a = true → validUtf8 (a ++ b) = validUtf8 b := by
  fun_induction validUtf8 a
  case case2 b0 r h ih => intro h'; rw [List.cons_append, validUtf8_cons_ascii h, ih h']
  all_goals first
    | (intro _; rfl)
    | (intro h; cases h; done)
    | (intro h; simp only [Bool.and_eq_true] at h
       simp only [List.cons_append, validUtf8, *, if_true, if_false, Bool.true_and, Bool.false_eq_true]
       done)

/-- **concatenation** -/
theorem validUtf8_append {a b : Bytes} (ha : validUtf8 a = true) (hb : validUtf8 b = true) :
    validUtf8 (a ++ b) = true := by
  rw [validUtf8_append_eq a b ha]; exact hb

/-- `é` ++ `😀` -/
example : validUtf8 ([0xc3, 0xa9] ++ [0xf0, 0x9f, 0x98, 0x80]) = true :=
  validUtf8_append (by decide +kernel) (by decide +kernel)
/-- the converse fails: a valid string cut inside a character gives invalid pieces -/
example : validUtf8 ([0xc3] ++ [0xa9]) = true ∧ validUtf8 [0xc3] = false ∧ validUtf8 [0xa9] = false := by
  decide +kernel

/-- **ASCII splitting**: `a`, an ASCII byte, `b` -/
theorem validUtf8_ascii_split {a b : Bytes} {c : UInt8} (hc : c < 0x80)
    (h : validUtf8 (a ++ [c] ++ b) = true) : validUtf8 a = true ∧ validUtf8 b = true := by
  rw [List.append_assoc, List.singleton_append, validUtf8_ascii_split_eq a b c hc, Bool.and_eq_true] at h
  exact h

/-- `é"😀` cut at the quote -/
example : validUtf8 [0xc3, 0xa9] = true ∧ validUtf8 [0xf0, 0x9f, 0x98, 0x80] = true :=
  validUtf8_ascii_split (c := 0x22) (by decide) (by decide +kernel)
/-- `c < 0x80` is needed: `é` cut at its second byte -/
example : validUtf8 ([0xc3] ++ [0xa9] ++ []) = true ∧ validUtf8 [0xc3] = false := by decide +kernel

/-- cut *before* an ASCII byte: both pieces (the second one starting with the ASCII byte) are valid -/
theorem validUtf8_cut_before {a b : Bytes} {c : UInt8} (hc : c < 0x80)
    (h : validUtf8 (a ++ c :: b) = true) : validUtf8 a = true ∧ validUtf8 (c :: b) = true := by
  rw [validUtf8_ascii_split_eq a b c hc, Bool.and_eq_true] at h
  exact ⟨h.1, by rw [validUtf8_cons_ascii hc]; exact h.2⟩

/-- cut *after* an ASCII byte: both pieces (the first one ending with the ASCII byte) are valid -/
theorem validUtf8_cut_after {a b : Bytes} {c : UInt8} (hc : c < 0x80)
    (h : validUtf8 (a ++ c :: b) = true) : validUtf8 (a ++ [c]) = true ∧ validUtf8 b = true := by
  rw [validUtf8_ascii_split_eq a b c hc, Bool.and_eq_true] at h
  exact ⟨by rw [validUtf8_ascii_split_eq a [] c hc, h.1]; rfl, h.2⟩

/-- conversely the pieces glue -/
theorem validUtf8_ascii_join {a b : Bytes} {c : UInt8} (hc : c < 0x80)
    (ha : validUtf8 a = true) (hb : validUtf8 b = true) : validUtf8 (a ++ c :: b) = true := by
  rw [validUtf8_ascii_split_eq a b c hc, ha, hb]; rfl

/-- a string of ASCII bytes is well-formed -/
theorem validUtf8_of_ascii : ∀ (l : Bytes), (∀ x ∈ l, x < 0x80) → validUtf8 l = true
  | [], _ => rfl
  | x :: l, h => by
    rw [validUtf8_cons_ascii (h x (by simp))]
    exact validUtf8_of_ascii l (fun y hy => h y (by simp [hy]))

/-- an ASCII prefix can be dropped / added -/
theorem validUtf8_ascii_prefix_eq (l b : Bytes) (h : ∀ x ∈ l, x < 0x80) : validUtf8 (l ++ b) = validUtf8 b :=
  validUtf8_append_eq l b (validUtf8_of_ascii l h)

/-- an ASCII block in the middle: `a ++ l ++ b` is well-formed iff `a` and `b` are (`l ≠ []`) -/
theorem validUtf8_ascii_block_eq (a l b : Bytes) (c : UInt8) (hc : c < 0x80) (h : ∀ x ∈ l, x < 0x80) :
    validUtf8 (a ++ c :: (l ++ b)) = (validUtf8 a && validUtf8 b) := by
  rw [validUtf8_ascii_split_eq a _ c hc, validUtf8_ascii_prefix_eq l b h]

/-! ## encodings of scalar values -/

theorem cont_iff (b : UInt8) : cont b = true ↔ 0x80 ≤ b.toNat ∧ b.toNat ≤ 0xBF := by
  simp [cont, UInt8.le_iff_toNat_le]

theorem valid2 (b0 b1 : UInt8) (r : Bytes)
    (h0 : 0xC2 ≤ b0.toNat ∧ b0.toNat ≤ 0xDF) (h1 : 0x80 ≤ b1.toNat ∧ b1.toNat ≤ 0xBF)
    (hr : validUtf8 r = true) : validUtf8 (b0 :: b1 :: r) = true := by
  have c1 := (cont_iff b1).2 h1
  rw [validUtf8.eq_def]
  simp only [c1, hr, Bool.and_true]
  repeat' split
  all_goals (simp [UInt8.lt_iff_toNat_lt, UInt8.le_iff_toNat_le, ← UInt8.toNat_inj] at * <;> omega)

theorem valid3 (b0 b1 b2 : UInt8) (r : Bytes)
    (h0 : 0xE0 ≤ b0.toNat ∧ b0.toNat ≤ 0xEF) (h1 : 0x80 ≤ b1.toNat ∧ b1.toNat ≤ 0xBF)
    (hE0 : b0.toNat = 0xE0 → 0xA0 ≤ b1.toNat) (hED : b0.toNat = 0xED → b1.toNat ≤ 0x9F)
    (h2 : 0x80 ≤ b2.toNat ∧ b2.toNat ≤ 0xBF) (hr : validUtf8 r = true) :
    validUtf8 (b0 :: b1 :: b2 :: r) = true := by
  have c1 := (cont_iff b1).2 h1
  have c2 := (cont_iff b2).2 h2
  rw [validUtf8.eq_def]
  simp only [c1, c2, hr, Bool.and_true, Bool.true_and]
  repeat' split
  all_goals (simp [UInt8.lt_iff_toNat_lt, UInt8.le_iff_toNat_le, ← UInt8.toNat_inj] at * <;> omega)

theorem valid4 (b0 b1 b2 b3 : UInt8) (r : Bytes)
    (h0 : 0xF0 ≤ b0.toNat ∧ b0.toNat ≤ 0xF4) (h1 : 0x80 ≤ b1.toNat ∧ b1.toNat ≤ 0xBF)
    (hF0 : b0.toNat = 0xF0 → 0x90 ≤ b1.toNat) (hF4 : b0.toNat = 0xF4 → b1.toNat ≤ 0x8F)
    (h2 : 0x80 ≤ b2.toNat ∧ b2.toNat ≤ 0xBF) (h3 : 0x80 ≤ b3.toNat ∧ b3.toNat ≤ 0xBF)
    (hr : validUtf8 r = true) :
    validUtf8 (b0 :: b1 :: b2 :: b3 :: r) = true := by
  have c1 := (cont_iff b1).2 h1
  have c2 := (cont_iff b2).2 h2
  have c3 := (cont_iff b3).2 h3
  rw [validUtf8.eq_def]
  simp only [c1, c2, c3, hr, Bool.and_true, Bool.true_and]
  repeat' split
  all_goals (simp [UInt8.lt_iff_toNat_lt, UInt8.le_iff_toNat_le, ← UInt8.toNat_inj] at * <;> omega)

/-- **the encoding of a Unicode scalar value is well-formed UTF-8** -/
theorem validUtf8_utf8 (cp : Nat) (h : cp ≤ 0x10FFFF ∧ ¬ (0xD800 ≤ cp ∧ cp ≤ 0xDFFF)) :
    validUtf8 (utf8 cp) = true := by
  unfold utf8
  split
  · rw [validUtf8.eq_def]
    have : UInt8.ofNat cp < 0x80 := by simp [UInt8.lt_iff_toNat_lt]; omega
    simp only [this, if_true, validUtf8]
  split
  · apply valid2 <;> first | rfl | (simp only [UInt8.toNat_ofNat']; omega)
  split
  · apply valid3 <;> first | rfl | (simp only [UInt8.toNat_ofNat']; omega)
  · apply valid4 <;> first | rfl | (simp only [UInt8.toNat_ofNat']; omega)

/-- the conditions are needed: a surrogate's generalized encoding and U+110000 are rejected -/
example : validUtf8 (utf8 0xD800) = false ∧ validUtf8 (utf8 0x110000) = false := by decide +kernel
/-- `é`, `€`, `😀`, and the extremes of every length class -/
example : (([0xE9, 0x20AC, 0x1F600, 0x7F, 0x80, 0x7FF, 0x800, 0xD7FF, 0xE000, 0xFFFF, 0x10000, 0x10FFFF].map
    utf8).all validUtf8) = true := by decide +kernel

end SJ.Proofs.Utf8
