import SJ.Spec.Canon
/-! Under `arbitrary_precision` every number is in range (the literal text is kept). -/
namespace SJ.Proofs.Complete
open SJ SJ.Spec.Grammar SJ.Spec.Canon

mutual
theorem numbersInRange_ap (cfg : Spec.Canon.Cfg) (h : cfg.ap = true) :
    ∀ t : CST, numbersInRange cfg t = true
  | .null => rfl
  | .true_ => rfl
  | .false_ => rfl
  | .str _ => rfl
  | .num p => by simp [numbersInRange, numOf, h]
  | .arr xs => by rw [numbersInRange]; exact numbersInRangeList_ap cfg h xs
  | .obj ms => by rw [numbersInRange]; exact numbersInRangeMembers_ap cfg h ms
theorem numbersInRangeList_ap (cfg : Spec.Canon.Cfg) (h : cfg.ap = true) :
    ∀ xs : List CST, numbersInRangeList cfg xs = true
  | [] => rfl
  | x :: xs => by
    rw [numbersInRangeList, numbersInRange_ap cfg h x, numbersInRangeList_ap cfg h xs]; rfl
theorem numbersInRangeMembers_ap (cfg : Spec.Canon.Cfg) (h : cfg.ap = true) :
    ∀ ms : List (List StrItem × CST), numbersInRangeMembers cfg ms = true
  | [] => rfl
  | (_, x) :: ms => by
    rw [numbersInRangeMembers, numbersInRange_ap cfg h x, numbersInRangeMembers_ap cfg h ms]; rfl
end

end SJ.Proofs.Complete
