import SJ.Proofs.Complete.Arr
/-!
# Driving lemma: string literals (values and keys)
-/
namespace SJ.Proofs.Complete
open SJ SJ.Gen SJ.Model.Machine SJ.Proofs.Machine SJ.Proofs.CanonM
open SJ.Spec.Grammar (CST StrItem Ws StrWF strBytes isHex isUnescaped isSimpleEscape uniVal hexVal
  isHighSurrogate isLowSurrogate surrogatesPairedStr)
open SJ.Spec.Denote (decodeItems utf8 simpleEscape)

/-- string state between two items -/
abbrev sst (o : Bytes) (k e : Bool) : StrSt := { out := o, esc := .none, isKey := k, escaped := e }

/-! ## one item -/

theorem feeds_raw (env : Env) (fr : List Frame) (o : Bytes) (k e : Bool) (b : UInt8)
    (hb : isUnescaped b = true) :
    Feeds env ⟨.str (sst o k e), fr⟩ [b] ⟨.str (sst (b :: o) k e), fr⟩ := by
  simp only [isUnescaped, Bool.and_eq_true, bne_iff_ne, ne_eq, decide_eq_true_eq] at hb
  obtain ⟨⟨h1, h2⟩, h3⟩ := hb
  have h4 : ¬ b < 0x20 := UInt8.not_lt.mpr h1
  apply Feeds.one
  simp [step, step1, stepStr, h2, h3, h4]

theorem simpleEscape_ne_u (c : UInt8) (hc : isSimpleEscape c = true) : (c == 0x75) = false := by
  simp only [isSimpleEscape, Bool.or_eq_true, beq_iff_eq] at hc
  rcases hc with ((((((h | h) | h) | h) | h) | h) | h) | h <;> subst h <;> decide

theorem feeds_esc (env : Env) (fr : List Frame) (o : Bytes) (k e : Bool) (c : UInt8)
    (hc : isSimpleEscape c = true) :
    Feeds env ⟨.str (sst o k e), fr⟩ [0x5c, c] ⟨.str (sst (simpleEscape c :: o) k true), fr⟩ := by
  have hu := simpleEscape_ne_u c hc
  simp only [beq_eq_false_iff_ne, ne_eq] at hu
  refine Feeds.cons (s' := ⟨.str { out := o, esc := .bs, isKey := k, escaped := true }, fr⟩) ?_
    (Feeds.one ?_)
  · simp [step, step1, stepStr]
  · simp [step, step1, stepStr, hu, hc]

theorem hex4_eq (a b c d : UInt8) (ha : isHex a = true) (hb : isHex b = true) (hc : isHex c = true)
    (hd : isHex d = true) : hex4 [a, b, c, d] = some (uniVal a b c d) := by
  simp [hex4, hexDigitVal, ha, hb, hc, hd, uniVal]

/-- `\u` then three hex digits, from any escape-free state: the accumulator holds the digits -/
theorem feeds_u3 (env : Env) (fr : List Frame) (o : Bytes) (k e : Bool) (lead : Option Nat)
    (a b c : UInt8) :
    Feeds env ⟨.str { out := o, esc := .hex [] lead, isKey := k, escaped := e }, fr⟩ [a, b, c]
      ⟨.str { out := o, esc := .hex [a, b, c] lead, isKey := k, escaped := e }, fr⟩ := by
  refine Feeds.cons (s' := ⟨.str { out := o, esc := .hex [a] lead, isKey := k, escaped := e }, fr⟩) ?_
    (Feeds.cons (s' := ⟨.str { out := o, esc := .hex [a, b] lead, isKey := k, escaped := e }, fr⟩) ?_
      (Feeds.one ?_))
  all_goals simp [step, step1, stepStr]

theorem feeds_bs_u (env : Env) (fr : List Frame) (o : Bytes) (k e : Bool) :
    Feeds env ⟨.str (sst o k e), fr⟩ [0x5c, 0x75]
      ⟨.str { out := o, esc := .hex [] none, isKey := k, escaped := true }, fr⟩ := by
  refine Feeds.cons (s' := ⟨.str { out := o, esc := .bs, isKey := k, escaped := true }, fr⟩) ?_
    (Feeds.one ?_)
  all_goals simp [step, step1, stepStr]

/-- the fourth hex digit, skipped content: the escape is dropped -/
theorem step_hex_last_ignored (env : Env) (henv : env.tgt = .ignored) (fr : List Frame) (o : Bytes)
    (k e : Bool) (lead : Option Nat) (a b c d : UInt8) (ha : isHex a = true) (hb : isHex b = true)
    (hc : isHex c = true) (hd : isHex d = true) :
    step env ⟨.str { out := o, esc := .hex [a, b, c] lead, isKey := k, escaped := e }, fr⟩ d
      = .ok ⟨.str (sst o k e), fr⟩ := by
  simp [step, step1, stepStr, hex4_eq a b c d ha hb hc hd, henv]

theorem tgt_ne_ignored {env : Env} (henv : env.tgt = .value) : ¬ env.tgt = .ignored := by
  rw [henv]; simp

/-- the fourth hex digit of an escape that is not a surrogate -/
theorem step_hex_last_bmp (env : Env) (henv : env.tgt = .value) (fr : List Frame) (o : Bytes)
    (k e : Bool) (a b c d : UInt8) (ha : isHex a = true) (hb : isHex b = true)
    (hc : isHex c = true) (hd : isHex d = true)
    (hh : isHighSurrogate (uniVal a b c d) = false) (hl : isLowSurrogate (uniVal a b c d) = false) :
    step env ⟨.str { out := o, esc := .hex [a, b, c] none, isKey := k, escaped := e }, fr⟩ d
      = .ok ⟨.str (sst ((utf8 (uniVal a b c d)).reverse ++ o) k e), fr⟩ := by
  simp only [isHighSurrogate, isLowSurrogate] at hh hl
  simp [step, step1, stepStr, hex4_eq a b c d ha hb hc hd, tgt_ne_ignored henv, hh, hl]

/-- the fourth hex digit of a leading surrogate -/
theorem step_hex_last_high (env : Env) (henv : env.tgt = .value) (fr : List Frame) (o : Bytes)
    (k e : Bool) (a b c d : UInt8) (ha : isHex a = true) (hb : isHex b = true)
    (hc : isHex c = true) (hd : isHex d = true)
    (hh : isHighSurrogate (uniVal a b c d) = true) :
    step env ⟨.str { out := o, esc := .hex [a, b, c] none, isKey := k, escaped := e }, fr⟩ d
      = .ok ⟨.str { out := o, esc := .lead1 (uniVal a b c d), isKey := k, escaped := e }, fr⟩ := by
  have hl : ¬ (0xDC00 ≤ uniVal a b c d ∧ uniVal a b c d ≤ 0xDFFF) := by
    simp only [isHighSurrogate, Bool.and_eq_true, decide_eq_true_eq] at hh; omega
  simp only [isHighSurrogate] at hh
  simp [step, step1, stepStr, hex4_eq a b c d ha hb hc hd, tgt_ne_ignored henv, hh, hl]

/-- the fourth hex digit of a trailing surrogate after a leading one -/
theorem step_hex_last_low (env : Env) (henv : env.tgt = .value) (fr : List Frame) (o : Bytes)
    (k e : Bool) (n1 : Nat) (a b c d : UInt8) (ha : isHex a = true) (hb : isHex b = true)
    (hc : isHex c = true) (hd : isHex d = true)
    (hl : isLowSurrogate (uniVal a b c d) = true) :
    step env ⟨.str { out := o, esc := .hex [a, b, c] (some n1), isKey := k, escaped := e }, fr⟩ d
      = .ok ⟨.str (sst ((utf8 (0x10000 + (n1 - 0xD800) * 0x400 + (uniVal a b c d - 0xDC00))).reverse
          ++ o) k e), fr⟩ := by
  simp only [isLowSurrogate, Bool.and_eq_true, decide_eq_true_eq] at hl
  have h1 : ¬ uniVal a b c d < 0xDC00 := by omega
  have h2 : ¬ uniVal a b c d > 0xDFFF := by omega
  simp [step, step1, stepStr, hex4_eq a b c d ha hb hc hd, tgt_ne_ignored henv, h1, h2]

theorem feeds_lead (env : Env) (fr : List Frame) (o : Bytes) (k e : Bool) (n1 : Nat) :
    Feeds env ⟨.str { out := o, esc := .lead1 n1, isKey := k, escaped := e }, fr⟩ [0x5c, 0x75]
      ⟨.str { out := o, esc := .hex [] (some n1), isKey := k, escaped := e }, fr⟩ := by
  refine Feeds.cons (s' := ⟨.str { out := o, esc := .lead2 n1, isKey := k, escaped := e }, fr⟩) ?_
    (Feeds.one ?_)
  all_goals simp [step, step1, stepStr]

theorem uni_wf {a b c d : UInt8} (h : (StrItem.uni a b c d).WF = true) :
    isHex a = true ∧ isHex b = true ∧ isHex c = true ∧ isHex d = true := by
  simpa [StrItem.WF, and_assoc] using h

theorem feeds_uni_ignored (env : Env) (henv : env.tgt = .ignored) (fr : List Frame) (o : Bytes)
    (k e : Bool) (a b c d : UInt8) (hwf : (StrItem.uni a b c d).WF = true) :
    Feeds env ⟨.str (sst o k e), fr⟩ [0x5c, 0x75, a, b, c, d] ⟨.str (sst o k true), fr⟩ := by
  obtain ⟨ha, hb, hc, hd⟩ := uni_wf hwf
  exact Feeds.append (xs := [0x5c, 0x75]) (feeds_bs_u env fr o k e)
    (Feeds.append (xs := [a, b, c]) (ys := [d]) (feeds_u3 env fr o k true none a b c)
      (Feeds.one (step_hex_last_ignored env henv fr o k true none a b c d ha hb hc hd)))

theorem feeds_uni_bmp (env : Env) (henv : env.tgt = .value) (fr : List Frame) (o : Bytes)
    (k e : Bool) (a b c d : UInt8) (hwf : (StrItem.uni a b c d).WF = true)
    (hh : isHighSurrogate (uniVal a b c d) = false) (hl : isLowSurrogate (uniVal a b c d) = false) :
    Feeds env ⟨.str (sst o k e), fr⟩ [0x5c, 0x75, a, b, c, d]
      ⟨.str (sst ((utf8 (uniVal a b c d)).reverse ++ o) k true), fr⟩ := by
  obtain ⟨ha, hb, hc, hd⟩ := uni_wf hwf
  exact Feeds.append (xs := [0x5c, 0x75]) (feeds_bs_u env fr o k e)
    (Feeds.append (xs := [a, b, c]) (ys := [d]) (feeds_u3 env fr o k true none a b c)
      (Feeds.one (step_hex_last_bmp env henv fr o k true a b c d ha hb hc hd hh hl)))

theorem feeds_uni_pair (env : Env) (henv : env.tgt = .value) (fr : List Frame) (o : Bytes)
    (k e : Bool) (a b c d a' b' c' d' : UInt8) (hwf : (StrItem.uni a b c d).WF = true)
    (hwf' : (StrItem.uni a' b' c' d').WF = true)
    (hh : isHighSurrogate (uniVal a b c d) = true) (hl : isLowSurrogate (uniVal a' b' c' d') = true) :
    Feeds env ⟨.str (sst o k e), fr⟩ ([0x5c, 0x75, a, b, c, d] ++ [0x5c, 0x75, a', b', c', d'])
      ⟨.str (sst ((utf8 (0x10000 + (uniVal a b c d - 0xD800) * 0x400
          + (uniVal a' b' c' d' - 0xDC00))).reverse ++ o) k true), fr⟩ := by
  obtain ⟨ha, hb, hc, hd⟩ := uni_wf hwf
  obtain ⟨ha', hb', hc', hd'⟩ := uni_wf hwf'
  refine Feeds.append
    (s' := ⟨.str { out := o, esc := .lead1 (uniVal a b c d), isKey := k, escaped := true }, fr⟩) ?_ ?_
  · exact Feeds.append (xs := [0x5c, 0x75]) (feeds_bs_u env fr o k e)
      (Feeds.append (xs := [a, b, c]) (ys := [d]) (feeds_u3 env fr o k true none a b c)
        (Feeds.one (step_hex_last_high env henv fr o k true a b c d ha hb hc hd hh)))
  · exact Feeds.append (xs := [0x5c, 0x75]) (feeds_lead env fr o k true _)
      (Feeds.append (xs := [a', b', c']) (ys := [d']) (feeds_u3 env fr o k true _ a' b' c')
        (Feeds.one (step_hex_last_low env henv fr o k true _ a' b' c' d' ha' hb' hc' hd' hl)))

/-! ## the item list -/

/-- skipped content: every well-formed item list is scanned, whatever the surrogates -/
theorem scan_ignored (env : Env) (henv : env.tgt = .ignored) (fr : List Frame) (k : Bool)
    (items : List StrItem) (hwf : StrWF items = true) (o : Bytes) (e : Bool) :
    ∃ o' e', Feeds env ⟨.str (sst o k e), fr⟩ (items.flatMap StrItem.bytes)
      ⟨.str (sst o' k e'), fr⟩ := by
  induction items generalizing o e with
  | nil => exact ⟨o, e, Feeds.nil _ _⟩
  | cons it rest ih =>
    simp only [StrWF, List.all_cons, Bool.and_eq_true] at hwf
    obtain ⟨h1, h2⟩ := hwf
    simp only [List.flatMap_cons]
    cases it with
    | raw b =>
      obtain ⟨o', e', hf⟩ := ih h2 (b :: o) e
      exact ⟨o', e', Feeds.append (feeds_raw env fr o k e b h1) hf⟩
    | esc c =>
      obtain ⟨o', e', hf⟩ := ih h2 (simpleEscape c :: o) true
      exact ⟨o', e', Feeds.append (feeds_esc env fr o k e c h1) hf⟩
    | uni a b c d =>
      obtain ⟨o', e', hf⟩ := ih h2 o true
      exact ⟨o', e', Feeds.append (feeds_uni_ignored env henv fr o k e a b c d h1) hf⟩

/-- values: with paired surrogates the machine's output is the decoded text -/
theorem scan_value (env : Env) (henv : env.tgt = .value) (fr : List Frame) (k : Bool)
    (items : List StrItem) (hwf : StrWF items = true) (hsur : surrogatesPairedStr items = true)
    (o : Bytes) (e : Bool) :
    ∃ dec e', decodeItems items = some dec ∧
      Feeds env ⟨.str (sst o k e), fr⟩ (items.flatMap StrItem.bytes)
        ⟨.str (sst (dec.reverse ++ o) k e'), fr⟩ := by
  fun_induction surrogatesPairedStr items generalizing o e with
  | case1 => exact ⟨[], e, rfl, Feeds.nil _ _⟩
  | case2 a b c d n hh e' f g h rest' ih =>
    simp only [StrWF, List.all_cons, Bool.and_eq_true] at hwf
    obtain ⟨h1, h2, h3⟩ := hwf
    simp only [Bool.and_eq_true] at hsur
    obtain ⟨hl, hs⟩ := hsur
    obtain ⟨dec, e'', hd, hf⟩ := ih h3 hs
      ((utf8 (0x10000 + (uniVal a b c d - 0xD800) * 0x400 + (uniVal e' f g h - 0xDC00))).reverse ++ o)
      true
    refine ⟨utf8 (0x10000 + (uniVal a b c d - 0xD800) * 0x400 + (uniVal e' f g h - 0xDC00)) ++ dec,
      e'', ?_, ?_⟩
    · simp only [decodeItems]; simp [n] at hh; simp [hh, hl, hd]
    · simp only [List.flatMap_cons, StrItem.bytes, ← List.append_assoc]
      have := Feeds.append (feeds_uni_pair env henv fr o k e a b c d e' f g h h1 h2 hh hl) hf
      simpa using this
  | case3 a b c d rest n hh hne => simp at hsur
  | case4 a b c d rest n hh hl => simp at hsur
  | case5 a b c d rest n hh hl ih =>
    simp only [StrWF, List.all_cons, Bool.and_eq_true] at hwf
    obtain ⟨h1, h2⟩ := hwf
    simp only [Bool.not_eq_true] at hh hl
    have hh : isHighSurrogate (uniVal a b c d) = false := hh
    have hl : isLowSurrogate (uniVal a b c d) = false := hl
    obtain ⟨dec, e'', hd, hf⟩ := ih h2 hsur ((utf8 (uniVal a b c d)).reverse ++ o) true
    refine ⟨utf8 (uniVal a b c d) ++ dec, e'', ?_, ?_⟩
    · unfold decodeItems; simp [hh, hl, hd]
    · simp only [List.flatMap_cons, StrItem.bytes]
      have := Feeds.append (feeds_uni_bmp env henv fr o k e a b c d h1 hh hl) hf
      simpa using this
  | case6 it rest hnot ih =>
    simp only [StrWF, List.all_cons, Bool.and_eq_true] at hwf
    obtain ⟨h1, h2⟩ := hwf
    cases it with
    | raw b =>
      obtain ⟨dec, e'', hd, hf⟩ := ih h2 hsur (b :: o) e
      refine ⟨b :: dec, e'', by simp [decodeItems, hd], ?_⟩
      have := Feeds.append (feeds_raw env fr o k e b h1) hf
      simpa [StrItem.bytes] using this
    | esc c =>
      obtain ⟨dec, e'', hd, hf⟩ := ih h2 hsur (simpleEscape c :: o) true
      refine ⟨simpleEscape c :: dec, e'', by simp [decodeItems, hd], ?_⟩
      have := Feeds.append (feeds_esc env fr o k e c h1) hf
      simpa [StrItem.bytes] using this
    | uni a b c d => exact absurd rfl (hnot a b c d)

/-- both targets: the item list is scanned; for values the output is the decoded text, which
    passes the UTF-8 check of byte sources -/
theorem scan_str (env : Env) (fr : List Frame) (k : Bool) (items : List StrItem)
    (hwf : StrWF items = true) (hside : SideStr env items) (o : Bytes) (e : Bool) :
    ∃ o' e', Feeds env ⟨.str (sst o k e), fr⟩ (items.flatMap StrItem.bytes) ⟨.str (sst o' k e'), fr⟩ ∧
      (env.tgt = .value → ∃ dec, decodeItems items = some dec ∧ o' = dec.reverse ++ o ∧
        (env.src ≠ .str → Spec.Utf8.validUtf8 dec = true)) := by
  rcases tgt_cases env with hv | hv
  · obtain ⟨hsur, hutf⟩ := hside hv
    obtain ⟨dec, e', hd, hf⟩ := scan_value env hv fr k items hwf hsur o e
    refine ⟨_, e', hf, fun _ => ⟨dec, hd, rfl, fun hs => ?_⟩⟩
    have := hutf hs
    rw [hd] at this
    simpa using this
  · obtain ⟨o', e', hf⟩ := scan_ignored env hv fr k items hwf o e
    exact ⟨o', e', hf, fun h => by rw [hv] at h; cases h⟩

/-! ## quotes -/

theorem step_quote_open (env : Env) (ctx : ValCtx) (st : List Frame) :
    step env ⟨.val ctx, st⟩ 0x22 = .ok ⟨.str (sst [] false false), st⟩ := by
  apply step_val env ctx st 0x22 _ (by decide) (by decide)
  unfold startValue
  simp [isDigit]

theorem step_quote_key_first (env : Env) (fr : List Frame) :
    step env ⟨.objFirst, fr⟩ 0x22 = .ok ⟨.str (sst [] true false), fr⟩ := rfl

theorem step_quote_key_next (env : Env) (fr : List Frame) :
    step env ⟨.objNextKey, fr⟩ 0x22 = .ok ⟨.str (sst [] true false), fr⟩ := rfl

theorem utf8_check_passes (env : Env) (bytes : Bytes)
    (h : env.tgt = .value → env.src ≠ .str → Spec.Utf8.validUtf8 bytes = true) :
    (decide (env.tgt = .value) && env.src != .str && !Spec.Utf8.validUtf8 bytes) = false := by
  by_cases hv : env.tgt = .value
  · by_cases hs : env.src = .str
    · simp [hs]
    · simp [h hv hs]
  · simp [hv]

theorem step_quote_close (env : Env) (st : List Frame) (o : Bytes) (e : Bool)
    (h : env.tgt = .value → env.src ≠ .str → Spec.Utf8.validUtf8 o.reverse = true) :
    step env ⟨.str (sst o false e), st⟩ 0x22
      = .ok (complete st (if env.tgt = .value then .str o.reverse else .null)) := by
  have := utf8_check_passes env o.reverse h
  simp [step, step1, stepStr, endStr, this]

theorem step_quote_close_key (env : Env) (ms : List (Bytes × JV)) (k0 : Bytes) (fs : List Frame)
    (o : Bytes) (e : Bool)
    (h : env.tgt = .value → env.src ≠ .str → Spec.Utf8.validUtf8 o.reverse = true) :
    step env ⟨.str (sst o true e), .obj ms k0 :: fs⟩ 0x22
      = .ok ⟨.afterKey, .obj ms o.reverse :: fs⟩ := by
  have := utf8_check_passes env o.reverse h
  simp [step, step1, stepStr, endStr, this]

/-! ## string values and keys -/

theorem drive_str (env : Env) (items : List StrItem) (hwf : StrWF items = true) :
    DriveV env (strBytes items) (.str items) := by
  intro st ctx hside
  obtain ⟨o', e', hf, hdec⟩ := scan_str env st false items hwf hside.str [] false
  refine ⟨if env.tgt = .value then .str o'.reverse else .null, _, ⟨?_, ?_⟩, ?_, Pending.refl _ _⟩
  · intro hv
    obtain ⟨dec, hd, ho, _⟩ := hdec hv
    simp [hv, canonM, hd, ho]
  · intro hv; simp [hv]
  · refine Feeds.append (Feeds.append (Feeds.one (step_quote_open env ctx st)) hf)
      (Feeds.one (step_quote_close env st o' e' ?_))
    intro hv hs
    obtain ⟨dec, hd, ho, hu⟩ := hdec hv
    simpa [ho] using hu hs

/-- a key, from the state after its opening quote has been dispatched to the closing quote -/
theorem drive_key (env : Env) (items : List StrItem) (hwf : StrWF items = true)
    (hside : SideStr env items) (m : Mode) (hm : m = .objFirst ∨ m = .objNextKey)
    (ms : List (Bytes × JV)) (k0 : Bytes) (fs : List Frame) :
    ∃ kb, (env.tgt = .value → decodeItems items = some kb) ∧
      Feeds env ⟨m, .obj ms k0 :: fs⟩ (strBytes items) ⟨.afterKey, .obj ms kb :: fs⟩ := by
  obtain ⟨o', e', hf, hdec⟩ := scan_str env (.obj ms k0 :: fs) true items hwf hside [] false
  refine ⟨o'.reverse, ?_, ?_⟩
  · intro hv
    obtain ⟨dec, hd, ho, _⟩ := hdec hv
    simp [hd, ho]
  · have hopen : step env ⟨m, .obj ms k0 :: fs⟩ 0x22 = .ok ⟨.str (sst [] true false), .obj ms k0 :: fs⟩ := by
      rcases hm with rfl | rfl
      · exact step_quote_key_first env _
      · exact step_quote_key_next env _
    refine Feeds.append (Feeds.append (Feeds.one hopen) hf)
      (Feeds.one (step_quote_close_key env ms k0 fs o' e' ?_))
    intro hv hs
    obtain ⟨dec, hd, ho, hu⟩ := hdec hv
    simpa [ho] using hu hs

end SJ.Proofs.Complete
