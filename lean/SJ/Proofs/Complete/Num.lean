import SJ.Proofs.Complete.Arr
import SJ.Proofs.Complete.NumConv
/-!
# Driving lemma: number literals

Scanning `p.bytes` from a value context ends in a number state `n` with `n.parts = partsOf p` in a
phase where the literal may end; `numValue` of that state is `numOf` of the literal.
-/
namespace SJ.Proofs.Complete
open SJ SJ.Gen SJ.Model.Machine SJ.Model.Num SJ.Proofs.Machine SJ.Proofs.CanonM
open SJ.Spec.Grammar (CST NumParts isInt isFrac isExp isDigit19)
open SJ.Spec.Canon (partsOf numOf)

/-! ## byte facts -/

theorem gdigit_eq (b : UInt8) : Spec.Grammar.isDigit b = isDigit b := rfl
theorem digitB_eq (b : UInt8) : isDigitB b = isDigit b := rfl

theorem all_gdigit (ds : Bytes) : ds.all Spec.Grammar.isDigit = ds.all isDigit := rfl

/-- a digit differs from every byte outside `0`–`9` -/
theorem digit_ne (d c : UInt8) (hd : isDigit d = true) (hc : c.toNat < 0x30 ∨ 0x39 < c.toNat) :
    (d == c) = false := by
  simp only [isDigit, Bool.and_eq_true, decide_eq_true_eq, UInt8.le_iff_toNat_le] at hd
  simp only [beq_eq_false_iff_ne, ne_eq, ← UInt8.toNat_inj]
  simp at hd
  omega

theorem digit_not_ws (d : UInt8) (hd : isDigit d = true) : isWs d = false := by
  simp only [isWs, Gen.wsBytes, List.contains_cons, List.contains_nil, Bool.or_false,
    Bool.or_eq_false_iff]
  refine ⟨digit_ne d _ hd (by decide), digit_ne d _ hd (by decide), digit_ne d _ hd (by decide),
    digit_ne d _ hd (by decide)⟩

/-! ## single steps (all nine fields of the number state explicit) -/

theorem step_val_minus (env : Env) (ctx : ValCtx) (st : List Frame) :
    step env ⟨.val ctx, st⟩ 0x2d
      = .ok ⟨.num ⟨.afterMinus, true, [], false, [], false, false, [], [0x2d]⟩, st⟩ := rfl

theorem step_val_zero (env : Env) (ctx : ValCtx) (st : List Frame) :
    step env ⟨.val ctx, st⟩ 0x30
      = .ok ⟨.num ⟨.zero, false, [0x30], false, [], false, false, [], [0x30]⟩, st⟩ := rfl

theorem step_val_digit (env : Env) (ctx : ValCtx) (st : List Frame) (d : UInt8)
    (hd : isDigit d = true) (hz : (d == 0x30) = false) :
    step env ⟨.val ctx, st⟩ d
      = .ok ⟨.num ⟨.int, false, [d], false, [], false, false, [], [d]⟩, st⟩ := by
  apply step_val env ctx st d _ (digit_not_ws d hd) (digit_ne d _ hd (by decide))
  unfold startValue
  simp only [digit_ne d 0x6e hd (by decide), digit_ne d 0x74 hd (by decide),
    digit_ne d 0x66 hd (by decide), digit_ne d 0x2d hd (by decide), hz, hd]
  rfl

theorem step_minus_zero (env : Env) (st : List Frame) :
    step env ⟨.num ⟨.afterMinus, true, [], false, [], false, false, [], [0x2d]⟩, st⟩ 0x30
      = .ok ⟨.num ⟨.zero, true, [0x30], false, [], false, false, [], [0x30, 0x2d]⟩, st⟩ := rfl

theorem step_minus_digit (env : Env) (st : List Frame) (d : UInt8)
    (hd : isDigit d = true) (hz : (d == 0x30) = false) :
    step env ⟨.num ⟨.afterMinus, true, [], false, [], false, false, [], [0x2d]⟩, st⟩ d
      = .ok ⟨.num ⟨.int, true, [d], false, [], false, false, [], [d, 0x2d]⟩, st⟩ := by
  simp [step, step1, stepNum, hd, hz]

theorem step_int_digit (env : Env) (st : List Frame) (neg : Bool) (int raw : Bytes) (d : UInt8)
    (hd : isDigit d = true) :
    step env ⟨.num ⟨.int, neg, int, false, [], false, false, [], raw⟩, st⟩ d
      = .ok ⟨.num ⟨.int, neg, d :: int, false, [], false, false, [], d :: raw⟩, st⟩ := by
  simp [step, step1, stepNum, hd]

theorem step_frac_digit (env : Env) (st : List Frame) (neg : Bool) (int frac raw : Bytes) (d : UInt8)
    (hd : isDigit d = true) :
    step env ⟨.num ⟨.frac, neg, int, true, frac, false, false, [], raw⟩, st⟩ d
      = .ok ⟨.num ⟨.frac, neg, int, true, d :: frac, false, false, [], d :: raw⟩, st⟩ := by
  simp [step, step1, stepNum, hd]

theorem step_dot (env : Env) (st : List Frame) (ph : NPhase) (hph : ph = .zero ∨ ph = .int)
    (neg : Bool) (int raw : Bytes) :
    step env ⟨.num ⟨ph, neg, int, false, [], false, false, [], raw⟩, st⟩ 0x2e
      = .ok ⟨.num ⟨.fracStart, neg, int, true, [], false, false, [], 0x2e :: raw⟩, st⟩ := by
  rcases hph with rfl | rfl <;> rfl

theorem step_fracStart_digit (env : Env) (st : List Frame) (neg : Bool) (int raw : Bytes) (d : UInt8)
    (hd : isDigit d = true) :
    step env ⟨.num ⟨.fracStart, neg, int, true, [], false, false, [], raw⟩, st⟩ d
      = .ok ⟨.num ⟨.frac, neg, int, true, [d], false, false, [], d :: raw⟩, st⟩ := by
  simp [step, step1, stepNum, hd]

theorem step_e (env : Env) (st : List Frame) (ph : NPhase)
    (hph : ph = .zero ∨ ph = .int ∨ ph = .frac) (neg : Bool) (int : Bytes) (hf : Bool)
    (frac raw : Bytes) (c : UInt8) (hc : (c == 0x65 || c == 0x45) = true) :
    step env ⟨.num ⟨ph, neg, int, hf, frac, false, false, [], raw⟩, st⟩ c
      = .ok ⟨.num ⟨.expStart, neg, int, hf, frac, true, false, [], c :: raw⟩, st⟩ := by
  have hnd : isDigit c = false := by
    simp only [Bool.or_eq_true, beq_iff_eq] at hc
    rcases hc with rfl | rfl <;> decide
  have hndot : (c == 0x2e) = false := by
    simp only [Bool.or_eq_true, beq_iff_eq] at hc
    rcases hc with rfl | rfl <;> decide
  simp only [beq_eq_false_iff_ne, ne_eq] at hndot
  simp only [Bool.or_eq_true, beq_iff_eq] at hc
  rcases hph with rfl | rfl | rfl <;> simp [step, step1, stepNum, hnd, hndot, hc]

theorem step_exp_plus (env : Env) (st : List Frame) (neg : Bool) (int : Bytes) (hf : Bool)
    (frac raw : Bytes) :
    step env ⟨.num ⟨.expStart, neg, int, hf, frac, true, false, [], raw⟩, st⟩ 0x2b
      = .ok ⟨.num ⟨.expSign, neg, int, hf, frac, true, false, [], 0x2b :: raw⟩, st⟩ := rfl

theorem step_exp_minus (env : Env) (st : List Frame) (neg : Bool) (int : Bytes) (hf : Bool)
    (frac raw : Bytes) :
    step env ⟨.num ⟨.expStart, neg, int, hf, frac, true, false, [], raw⟩, st⟩ 0x2d
      = .ok ⟨.num ⟨.expSign, neg, int, hf, frac, true, true, [], 0x2d :: raw⟩, st⟩ := rfl

theorem step_expStart_digit (env : Env) (st : List Frame) (neg : Bool) (int : Bytes) (hf : Bool)
    (frac raw : Bytes) (d : UInt8) (hd : isDigit d = true) :
    step env ⟨.num ⟨.expStart, neg, int, hf, frac, true, false, [], raw⟩, st⟩ d
      = .ok ⟨.num ⟨.exp, neg, int, hf, frac, true, false, [d], d :: raw⟩, st⟩ := by
  have h1 := digit_ne d 0x2b hd (by decide)
  have h2 := digit_ne d 0x2d hd (by decide)
  simp only [beq_eq_false_iff_ne, ne_eq] at h1 h2
  simp [step, step1, stepNum, hd, h1, h2]

theorem step_expSign_digit (env : Env) (st : List Frame) (neg : Bool) (int : Bytes) (hf : Bool)
    (frac : Bytes) (en : Bool) (raw : Bytes) (d : UInt8) (hd : isDigit d = true) :
    step env ⟨.num ⟨.expSign, neg, int, hf, frac, true, en, [], raw⟩, st⟩ d
      = .ok ⟨.num ⟨.exp, neg, int, hf, frac, true, en, [d], d :: raw⟩, st⟩ := by
  simp [step, step1, stepNum, hd]

/-- the condition under which the eager exponent-overflow rejection is armed -/
def Armed (env : Env) (int frac : Bytes) (en : Bool) : Prop :=
  env.tgt = .value ∧ env.cfg.ap = false ∧ (int.reverse ++ frac.reverse).all (· == 0x30) = false ∧
    en = false

theorem step_exp_digit (env : Env) (st : List Frame) (neg : Bool) (int : Bytes) (hf : Bool)
    (frac : Bytes) (en : Bool) (eds raw : Bytes) (d : UInt8) (hd : isDigit d = true)
    (hov : Armed env int frac en → expOverflows (d :: eds).reverse = false) :
    step env ⟨.num ⟨.exp, neg, int, hf, frac, true, en, eds, raw⟩, st⟩ d
      = .ok ⟨.num ⟨.exp, neg, int, hf, frac, true, en, d :: eds, d :: raw⟩, st⟩ := by
  have hg : (decide (env.tgt = .value) && !env.cfg.ap && expOverflows (d :: eds).reverse
      && !((int.reverse ++ frac.reverse).all (· == 0x30)) && !en) = false := by
    by_cases h1 : env.tgt = .value
    · cases h2 : env.cfg.ap
      · cases h3 : (int.reverse ++ frac.reverse).all (· == 0x30)
        · cases h4 : en
          · have := hov ⟨h1, h2, h3, h4⟩
            simp only [List.reverse_cons] at this
            simp [this]
          · simp
        · simp
      · simp
    · simp [h1]
  simp only [step, step1, stepNum, hd, if_true, hg]
  simp

/-! ## digit runs -/

theorem feeds_int_digits (env : Env) (st : List Frame) (neg : Bool) (int raw ds : Bytes)
    (hds : ds.all isDigit = true) :
    Feeds env ⟨.num ⟨.int, neg, int, false, [], false, false, [], raw⟩, st⟩ ds
      ⟨.num ⟨.int, neg, ds.reverse ++ int, false, [], false, false, [], ds.reverse ++ raw⟩, st⟩ := by
  induction ds generalizing int raw with
  | nil => exact Feeds.nil _ _
  | cons d ds ih =>
    simp only [List.all_cons, Bool.and_eq_true] at hds
    have := Feeds.cons (step_int_digit env st neg int raw d hds.1) (ih (d :: int) (d :: raw) hds.2)
    simpa using this

theorem feeds_frac_digits (env : Env) (st : List Frame) (neg : Bool) (int frac raw ds : Bytes)
    (hds : ds.all isDigit = true) :
    Feeds env ⟨.num ⟨.frac, neg, int, true, frac, false, false, [], raw⟩, st⟩ ds
      ⟨.num ⟨.frac, neg, int, true, ds.reverse ++ frac, false, false, [], ds.reverse ++ raw⟩, st⟩ := by
  induction ds generalizing frac raw with
  | nil => exact Feeds.nil _ _
  | cons d ds ih =>
    simp only [List.all_cons, Bool.and_eq_true] at hds
    have := Feeds.cons (step_frac_digit env st neg int frac raw d hds.1)
      (ih (d :: frac) (d :: raw) hds.2)
    simpa using this

theorem feeds_exp_digits (env : Env) (st : List Frame) (neg : Bool) (int : Bytes) (hf : Bool)
    (frac : Bytes) (en : Bool) (eds raw ds : Bytes) (hds : ds.all isDigit = true)
    (hov : Armed env int frac en → expOverflows (eds.reverse ++ ds) = false) :
    Feeds env ⟨.num ⟨.exp, neg, int, hf, frac, true, en, eds, raw⟩, st⟩ ds
      ⟨.num ⟨.exp, neg, int, hf, frac, true, en, ds.reverse ++ eds, ds.reverse ++ raw⟩, st⟩ := by
  induction ds generalizing eds raw with
  | nil => exact Feeds.nil _ _
  | cons d ds ih =>
    simp only [List.all_cons, Bool.and_eq_true] at hds
    have h1 : Armed env int frac en → expOverflows (d :: eds).reverse = false := by
      intro ha
      have := hov ha
      rw [show eds.reverse ++ d :: ds = (d :: eds).reverse ++ ds by simp] at this
      exact expOverflows_mono _ _ this
    have h2 : Armed env int frac en → expOverflows ((d :: eds).reverse ++ ds) = false := by
      intro ha
      have := hov ha
      rwa [show eds.reverse ++ d :: ds = (d :: eds).reverse ++ ds by simp] at this
    have := Feeds.cons (step_exp_digit env st neg int hf frac en eds raw d hds.1 h1)
      (ih (d :: eds) (d :: raw) hds.2 h2)
    simpa using this

/-! ## the three sections of a literal -/

theorem int_shape (int : Bytes) (h : isInt int = true) :
    int = [0x30] ∨ ∃ d ds, int = d :: ds ∧ isDigit d = true ∧ (d == 0x30) = false ∧
      ds.all isDigit = true := by
  cases int with
  | nil => simp [isInt] at h
  | cons d ds =>
    cases ds with
    | nil =>
      simp only [isInt] at h
      by_cases hz : d = 0x30
      · left; rw [hz]
      · right; exact ⟨d, [], rfl, h, by simpa using hz, rfl⟩
    | cons d2 ds =>
      simp only [isInt, Bool.and_eq_true] at h
      right
      refine ⟨d, d2 :: ds, rfl, ?_, ?_, h.2⟩
      · have := h.1
        simp only [isDigit19, Bool.and_eq_true, decide_eq_true_eq, UInt8.le_iff_toNat_le] at this
        simp only [isDigit, Bool.and_eq_true, decide_eq_true_eq, UInt8.le_iff_toNat_le]
        simp at this ⊢; omega
      · have := h.1
        simp only [isDigit19, Bool.and_eq_true, decide_eq_true_eq, UInt8.le_iff_toNat_le] at this
        simp only [beq_eq_false_iff_ne, ne_eq, ← UInt8.toNat_inj]
        simp at this ⊢; omega

def signBytes (minus : Bool) : Bytes := if minus then [0x2d] else []

/-- sign and integer part -/
theorem feeds_sign_int (env : Env) (ctx : ValCtx) (st : List Frame) (minus : Bool) (int : Bytes)
    (h : isInt int = true) :
    ∃ ph, (ph = .zero ∨ ph = .int) ∧
      Feeds env ⟨.val ctx, st⟩ (signBytes minus ++ int)
        ⟨.num ⟨ph, minus, int.reverse, false, [], false, false, [], (signBytes minus ++ int).reverse⟩,
          st⟩ := by
  rcases int_shape int h with rfl | ⟨d, ds, rfl, hd, hz, hds⟩
  · refine ⟨.zero, Or.inl rfl, ?_⟩
    cases minus
    · exact Feeds.one (step_val_zero env ctx st)
    · exact Feeds.cons (step_val_minus env ctx st) (Feeds.one (step_minus_zero env st))
  · refine ⟨.int, Or.inr rfl, ?_⟩
    cases minus
    · have := Feeds.cons (step_val_digit env ctx st d hd hz)
        (feeds_int_digits env st false [d] [d] ds hds)
      simpa [signBytes] using this
    · have := Feeds.cons (step_val_minus env ctx st) (Feeds.cons (step_minus_digit env st d hd hz)
        (feeds_int_digits env st true [d] [d, 0x2d] ds hds))
      simpa [signBytes] using this

/-- a non-empty fraction -/
theorem feeds_frac (env : Env) (st : List Frame) (ph : NPhase) (hph : ph = .zero ∨ ph = .int)
    (neg : Bool) (int raw frac : Bytes) (h : isFrac frac = true) (hne : frac ≠ []) :
    Feeds env ⟨.num ⟨ph, neg, int, false, [], false, false, [], raw⟩, st⟩ frac
      ⟨.num ⟨.frac, neg, int, true, (frac.drop 1).reverse, false, false, [], frac.reverse ++ raw⟩,
        st⟩ := by
  cases frac with
  | nil => exact absurd rfl hne
  | cons c ds =>
    cases ds with
    | nil => simp [isFrac] at h
    | cons d ds =>
      simp only [isFrac, Bool.and_eq_true, beq_iff_eq, List.all_cons] at h
      obtain ⟨⟨rfl, _⟩, hd, hds⟩ := h
      have := Feeds.cons (step_dot env st ph hph neg int raw)
        (Feeds.cons (step_fracStart_digit env st neg int (0x2e :: raw) d hd)
          (feeds_frac_digits env st neg int [d] (d :: 0x2e :: raw) ds hds))
      simpa using this

/-- the exponent field of `partsOf` -/
def expOf (exp : Bytes) : Option (Bool × Bytes) :=
  match exp with
  | [] => none
  | _ :: r => match r with
    | s :: ds => if s == 0x2d then some (true, ds) else if s == 0x2b then some (false, ds)
      else some (false, s :: ds)
    | [] => some (false, [])

theorem partsOf_exp (p : NumParts) : (partsOf p).exp = expOf p.exp := rfl

theorem exp_shape (exp : Bytes) (h : isExp exp = true) (hne : exp ≠ []) :
    ∃ c sgn en d ds, exp = c :: (sgn ++ d :: ds) ∧ (c == 0x65 || c == 0x45) = true ∧
      ((sgn = [] ∧ en = false) ∨ (sgn = [0x2b] ∧ en = false) ∨ (sgn = [0x2d] ∧ en = true)) ∧
      isDigit d = true ∧ ds.all isDigit = true ∧ expOf exp = some (en, d :: ds) := by
  cases exp with
  | nil => exact absurd rfl hne
  | cons c r =>
    cases r with
    | nil => simp [isExp] at h
    | cons s ds =>
      simp only [isExp, Bool.and_eq_true] at h
      obtain ⟨hc, h⟩ := h
      by_cases hm : s = 0x2d
      · subst hm
        cases ds with
        | nil => simp at h
        | cons d ds =>
          rw [if_pos (by decide)] at h
          simp only [List.all_cons, Bool.and_eq_true] at h
          exact ⟨c, [0x2d], true, d, ds, rfl, hc, Or.inr (Or.inr ⟨rfl, rfl⟩), h.2.1, h.2.2, rfl⟩
      · by_cases hp : s = 0x2b
        · subst hp
          cases ds with
          | nil => simp at h
          | cons d ds =>
            rw [if_pos (by decide)] at h
            simp only [List.all_cons, Bool.and_eq_true] at h
            exact ⟨c, [0x2b], false, d, ds, rfl, hc, Or.inr (Or.inl ⟨rfl, rfl⟩), h.2.1, h.2.2, rfl⟩
        · rw [if_neg (by simp [hm, hp])] at h
          simp only [Bool.and_eq_true] at h
          refine ⟨c, [], false, s, ds, rfl, hc, Or.inl ⟨rfl, rfl⟩, h.1, h.2, ?_⟩
          simp [expOf, hm, hp]

/-- a non-empty exponent -/
theorem feeds_exp (env : Env) (st : List Frame) (ph : NPhase)
    (hph : ph = .zero ∨ ph = .int ∨ ph = .frac) (neg : Bool) (int : Bytes) (hf : Bool)
    (frac raw : Bytes) (c : UInt8) (sgn : Bytes) (en : Bool) (d : UInt8) (ds : Bytes)
    (hc : (c == 0x65 || c == 0x45) = true)
    (hs : (sgn = [] ∧ en = false) ∨ (sgn = [0x2b] ∧ en = false) ∨ (sgn = [0x2d] ∧ en = true))
    (hd : isDigit d = true) (hds : ds.all isDigit = true)
    (hov : Armed env int frac en → expOverflows (d :: ds) = false) :
    Feeds env ⟨.num ⟨ph, neg, int, hf, frac, false, false, [], raw⟩, st⟩ (c :: (sgn ++ d :: ds))
      ⟨.num ⟨.exp, neg, int, hf, frac, true, en, (d :: ds).reverse,
        (c :: (sgn ++ d :: ds)).reverse ++ raw⟩, st⟩ := by
  have he := step_e env st ph hph neg int hf frac raw c hc
  rcases hs with ⟨rfl, rfl⟩ | ⟨rfl, rfl⟩ | ⟨rfl, rfl⟩
  · have := Feeds.cons he (Feeds.cons (step_expStart_digit env st neg int hf frac (c :: raw) d hd)
      (feeds_exp_digits env st neg int hf frac false [d] (d :: c :: raw) ds hds (by simpa using hov)))
    simpa using this
  · have := Feeds.cons he (Feeds.cons (step_exp_plus env st neg int hf frac (c :: raw))
      (Feeds.cons (step_expSign_digit env st neg int hf frac false (0x2b :: c :: raw) d hd)
        (feeds_exp_digits env st neg int hf frac false [d] (d :: 0x2b :: c :: raw) ds hds
          (by simpa using hov))))
    simpa using this
  · have := Feeds.cons he (Feeds.cons (step_exp_minus env st neg int hf frac (c :: raw))
      (Feeds.cons (step_expSign_digit env st neg int hf frac true (0x2d :: c :: raw) d hd)
        (feeds_exp_digits env st neg int hf frac true [d] (d :: 0x2d :: c :: raw) ds hds
          (by simpa using hov))))
    simpa using this

/-! ## the whole literal -/

theorem tgt_absurd {env : Env} (h1 : env.tgt = .value) (h2 : env.tgt = .ignored) : False := by
  rw [h1] at h2; cases h2


theorem fracOf_getD (frac : Bytes) :
    (if frac.isEmpty then none else some (frac.drop 1) : Option Bytes).getD [] = frac.drop 1 := by
  cases frac <;> rfl

theorem scan_num (env : Env) (ctx : ValCtx) (st : List Frame) (p : NumParts) (hwf : p.WF = true)
    (hov : ∀ eds, (partsOf p).exp = some (false, eds) → env.tgt = .value → env.cfg.ap = false →
      ((partsOf p).int ++ (partsOf p).frac.getD []).all (· == 0x30) = false →
      expOverflows eds = false) :
    ∃ n, Feeds env ⟨.val ctx, st⟩ p.bytes ⟨.num n, st⟩ ∧ GoodPhase n.phase ∧ n.parts = partsOf p := by
  obtain ⟨minus, int, frac, exp⟩ := p
  simp only [NumParts.WF, Bool.and_eq_true] at hwf
  obtain ⟨⟨hi, hf⟩, he⟩ := hwf
  obtain ⟨ph, hph, fA⟩ := feeds_sign_int env ctx st minus int hi
  have hAB : ∃ ph2, (ph2 = .zero ∨ ph2 = .int ∨ ph2 = .frac) ∧
      Feeds env ⟨.val ctx, st⟩ (signBytes minus ++ int ++ frac)
        ⟨.num ⟨ph2, minus, int.reverse, !frac.isEmpty, (frac.drop 1).reverse, false, false, [],
          (signBytes minus ++ int ++ frac).reverse⟩, st⟩ := by
    by_cases hfe : frac = []
    · subst hfe
      exact ⟨ph, hph.imp id Or.inl, by simpa using fA⟩
    · refine ⟨.frac, Or.inr (Or.inr rfl), ?_⟩
      have := Feeds.append fA (feeds_frac env st ph hph minus int.reverse _ frac hf hfe)
      have hne : frac.isEmpty = false := by cases frac <;> simp_all
      simpa [hne] using this
  obtain ⟨ph2, hph2, fAB⟩ := hAB
  by_cases hee : exp = []
  · subst hee
    refine ⟨_, by simpa [NumParts.bytes, signBytes] using fAB, ?_, ?_⟩
    · rcases hph2 with rfl | rfl | rfl <;> trivial
    · cases frac <;> simp [NumSt.parts, partsOf, NumParts.bytes]
  · obtain ⟨c, sgn, en, d, ds, rfl, hc, hs, hd, hds, hexpOf⟩ := exp_shape exp he hee
    have hov' : Armed env int.reverse (frac.drop 1).reverse en → expOverflows (d :: ds) = false := by
      rintro ⟨h1, h2, h3, rfl⟩
      refine hov (d :: ds) (by rw [partsOf_exp]; exact hexpOf) h1 h2 ?_
      simp only [List.reverse_reverse] at h3
      simp only [partsOf, fracOf_getD]
      exact h3
    have := Feeds.append fAB (feeds_exp env st ph2 hph2 minus int.reverse (!frac.isEmpty)
      (frac.drop 1).reverse _ c sgn en d ds hc hs hd hds hov')
    refine ⟨⟨.exp, minus, int.reverse, !frac.isEmpty, (frac.drop 1).reverse, true, en,
      (d :: ds).reverse, _⟩, by simpa [NumParts.bytes, signBytes] using this, trivial, ?_⟩
    have hx : (partsOf ⟨minus, int, frac, c :: (sgn ++ d :: ds)⟩).exp = some (en, d :: ds) := by
      rw [partsOf_exp]; exact hexpOf
    simp only [NumSt.parts, List.reverse_reverse, if_true]
    simp only [partsOf] at hx ⊢
    rw [hx]
    cases frac <;> simp [NumParts.bytes]

theorem numValue_eq (env : Env) (n : NumSt) (p : NumParts) (hn : n.parts = partsOf p) (x : Num)
    (hx : numOf (specCfg env.cfg) p = some x) : numValue env n = .ok (.num x) := by
  unfold numValue
  unfold numOf Spec.Canon.convert at hx
  simp only [specCfg] at hx
  rw [hn]
  cases hap : env.cfg.ap
  · simp only [hap, Bool.false_eq_true, if_false] at hx ⊢
    cases hfr : env.cfg.fr <;> simp only [hfr, Bool.false_eq_true, if_false, if_true] at hx ⊢
    · cases hc : convertDefault (partsOf p) <;> rw [hc] at hx <;> simp_all
    · cases hc : convertRoundtrip (partsOf p) <;> rw [hc] at hx <;> simp_all
  · simp only [hap, if_true, Option.some.injEq] at hx ⊢
    subst hx; rfl

theorem isInt_all (int : Bytes) (h : isInt int = true) : int.all isDigitB = true := by
  rcases int_shape int h with rfl | ⟨d, ds, rfl, hd, _, hds⟩
  · decide
  · simp only [List.all_cons, Bool.and_eq_true]; exact ⟨hd, hds⟩

theorem isFrac_all (frac : Bytes) (h : isFrac frac = true) : (frac.drop 1).all isDigitB = true := by
  cases frac with
  | nil => rfl
  | cons c ds =>
    simp only [isFrac, Bool.and_eq_true] at h
    exact h.2

/-- a literal that converts is never rejected by the eager exponent-overflow guard -/
theorem no_eager_overflow (cfg : Spec.Canon.Cfg) (p : NumParts) (hwf : p.WF = true)
    (hap : cfg.ap = false) (x : Num) (hx : numOf cfg p = some x) (eds : Bytes)
    (hexp : (partsOf p).exp = some (false, eds))
    (hz : ((partsOf p).int ++ (partsOf p).frac.getD []).all (· == 0x30) = false) :
    expOverflows eds = false := by
  cases ho : expOverflows eds with
  | false => rfl
  | true =>
    exfalso
    simp only [NumParts.WF, Bool.and_eq_true] at hwf
    have hint : (partsOf p).int.all isDigitB = true := isInt_all p.int hwf.1.1
    have hfrac : ((partsOf p).frac.getD []).all isDigitB = true := by
      simp only [partsOf, fracOf_getD]; exact isFrac_all p.frac hwf.1.2
    unfold numOf Spec.Canon.convert at hx
    simp only [hap, Bool.false_eq_true, if_false] at hx
    cases hfr : cfg.fr
    · simp only [hfr, Bool.false_eq_true, if_false,
        convertDefault_overflow (partsOf p) eds hexp hint hfrac hz ho] at hx
      cases hx
    · simp only [hfr, if_true, convertRoundtrip_overflow (partsOf p) eds hexp hz ho] at hx
      cases hx

theorem drive_num (env : Env) (p : NumParts) (hwf : p.WF = true) : DriveV env p.bytes (.num p) := by
  intro st ctx hside
  have hnum : env.tgt = .value → ∃ x, numOf (specCfg env.cfg) p = some x := by
    intro hv
    have := (hside hv).2.2.2
    simp only [Spec.Canon.numbersInRange] at this
    exact Option.isSome_iff_exists.mp this
  obtain ⟨n, hf, hgood, hparts⟩ := scan_num env ctx st p hwf (by
    intro eds hexp hv hap hz
    obtain ⟨x, hx⟩ := hnum hv
    exact no_eager_overflow (specCfg env.cfg) p hwf hap x hx eds hexp hz)
  rcases tgt_cases env with hv | hv
  · obtain ⟨x, hx⟩ := hnum hv
    refine ⟨.num x, _, ⟨fun _ => by simp [canonM, hx], fun h => (tgt_absurd hv h).elim⟩, hf,
      Or.inr ⟨n, rfl, hgood, ?_⟩⟩
    simp [endNumber, hv, numValue_eq env n p hparts x hx]
  · refine ⟨.null, _, ⟨fun h => (tgt_absurd h hv).elim, fun _ => rfl⟩, hf,
      Or.inr ⟨n, rfl, hgood, ?_⟩⟩
    simp [endNumber, hv]

end SJ.Proofs.Complete
