import SJ.Proofs.Complete.Basic
/-!
# Side conditions and result relations of the driving lemma, for both targets at once

For target `value` the side conditions of C01 are required (`k` is the height of the machine's
stack where the value starts) and the result is the `canonM` denotation; for target `ignored`
nothing is required and every completed value is `null`.
-/
namespace SJ.Proofs.Complete
open SJ SJ.Gen SJ.Model.Machine SJ.Proofs.Machine SJ.Proofs.CanonM
open SJ.Spec.Grammar (CST StrItem depth depthList depthMembers surrogatesPaired surrogatesPairedList
  surrogatesPairedMembers surrogatesPairedStr)
open SJ.Spec.Canon (stringsUtf8 stringsUtf8List stringsUtf8Members numbersInRange numbersInRangeList
  numbersInRangeMembers)
open SJ.Spec.Denote (decodeItems)

def Side (env : Env) (k : Nat) (t : CST) : Prop :=
  env.tgt = .value →
    (env.cfg.limitOff = true ∨ k + depth t ≤ 127) ∧ surrogatesPaired t = true ∧
    (env.src ≠ .str → stringsUtf8 t = true) ∧ numbersInRange (specCfg env.cfg) t = true

def SideList (env : Env) (k : Nat) (xs : List CST) : Prop :=
  env.tgt = .value →
    (env.cfg.limitOff = true ∨ k + depthList xs ≤ 127) ∧ surrogatesPairedList xs = true ∧
    (env.src ≠ .str → stringsUtf8List xs = true) ∧ numbersInRangeList (specCfg env.cfg) xs = true

def SideMembers (env : Env) (k : Nat) (ms : List (List StrItem × CST)) : Prop :=
  env.tgt = .value →
    (env.cfg.limitOff = true ∨ k + depthMembers ms ≤ 127) ∧ surrogatesPairedMembers ms = true ∧
    (env.src ≠ .str → stringsUtf8Members ms = true) ∧
    numbersInRangeMembers (specCfg env.cfg) ms = true

/-- side conditions of a string (value or key) -/
def SideStr (env : Env) (items : List StrItem) : Prop :=
  env.tgt = .value →
    surrogatesPairedStr items = true ∧
    (env.src ≠ .str → (decodeItems items).all Spec.Utf8.validUtf8 = true)

theorem Side.arr {env : Env} {k : Nat} {xs : List CST} (h : Side env k (.arr xs)) :
    SideList env (k + 1) xs := by
  intro hv
  obtain ⟨h1, h2, h3, h4⟩ := h hv
  simp only [depth, surrogatesPaired, stringsUtf8, numbersInRange] at h1 h2 h3 h4
  exact ⟨h1.imp id (fun h => by omega), h2, h3, h4⟩

theorem Side.obj {env : Env} {k : Nat} {ms : List (List StrItem × CST)} (h : Side env k (.obj ms)) :
    SideMembers env (k + 1) ms := by
  intro hv
  obtain ⟨h1, h2, h3, h4⟩ := h hv
  simp only [depth, surrogatesPaired, stringsUtf8, numbersInRange] at h1 h2 h3 h4
  exact ⟨h1.imp id (fun h => by omega), h2, h3, h4⟩

theorem Side.room {env : Env} {k : Nat} {t : CST} (h : Side env k t) (hd : 1 ≤ depth t) :
    env.tgt = .value → env.cfg.limitOff = true ∨ k + 1 ≤ 127 := by
  intro hv
  rcases (h hv).1 with h1 | h1
  · exact Or.inl h1
  · exact Or.inr (by omega)

theorem Side.str {env : Env} {k : Nat} {items : List StrItem} (h : Side env k (.str items)) :
    SideStr env items := by
  intro hv
  obtain ⟨_, h2, h3, _⟩ := h hv
  simp only [surrogatesPaired, stringsUtf8] at h2 h3
  exact ⟨h2, h3⟩

theorem SideList.head {env : Env} {k : Nat} {x : CST} {xs : List CST}
    (h : SideList env k (x :: xs)) : Side env k x := by
  intro hv
  obtain ⟨h1, h2, h3, h4⟩ := h hv
  simp only [depthList, surrogatesPairedList, stringsUtf8List, numbersInRangeList,
    Bool.and_eq_true] at h1 h2 h3 h4
  exact ⟨h1.imp id (fun h => by omega), h2.1, fun hs => (h3 hs).1, h4.1⟩

theorem SideList.tail {env : Env} {k : Nat} {x : CST} {xs : List CST}
    (h : SideList env k (x :: xs)) : SideList env k xs := by
  intro hv
  obtain ⟨h1, h2, h3, h4⟩ := h hv
  simp only [depthList, surrogatesPairedList, stringsUtf8List, numbersInRangeList,
    Bool.and_eq_true] at h1 h2 h3 h4
  exact ⟨h1.imp id (fun h => by omega), h2.2, fun hs => (h3 hs).2, h4.2⟩

theorem SideMembers.key {env : Env} {k : Nat} {key : List StrItem} {x : CST}
    {ms : List (List StrItem × CST)} (h : SideMembers env k ((key, x) :: ms)) : SideStr env key := by
  intro hv
  obtain ⟨_, h2, h3, _⟩ := h hv
  simp only [surrogatesPairedMembers, stringsUtf8Members, Bool.and_eq_true] at h2 h3
  exact ⟨h2.1.1, fun hs => (h3 hs).1.1⟩

theorem SideMembers.head {env : Env} {k : Nat} {key : List StrItem} {x : CST}
    {ms : List (List StrItem × CST)} (h : SideMembers env k ((key, x) :: ms)) : Side env k x := by
  intro hv
  obtain ⟨h1, h2, h3, h4⟩ := h hv
  simp only [depthMembers, surrogatesPairedMembers, stringsUtf8Members, numbersInRangeMembers,
    Bool.and_eq_true] at h1 h2 h3 h4
  exact ⟨h1.imp id (fun h => by omega), h2.1.2, fun hs => (h3 hs).1.2, h4.1⟩

theorem SideMembers.tail {env : Env} {k : Nat} {key : List StrItem} {x : CST}
    {ms : List (List StrItem × CST)} (h : SideMembers env k ((key, x) :: ms)) :
    SideMembers env k ms := by
  intro hv
  obtain ⟨h1, h2, h3, h4⟩ := h hv
  simp only [depthMembers, surrogatesPairedMembers, stringsUtf8Members, numbersInRangeMembers,
    Bool.and_eq_true] at h1 h2 h3 h4
  exact ⟨h1.imp id (fun h => by omega), h2.2, fun hs => (h3 hs).2, h4.2⟩

/-! ## results -/

/-- the value the machine completes for the tree `t` -/
def Res (env : Env) (t : CST) (v : JV) : Prop :=
  (env.tgt = .value → canonM env.cfg t = some v) ∧ (env.tgt = .ignored → v = .null)

def ResList (env : Env) (xs : List CST) (vs : List JV) : Prop :=
  env.tgt = .value → canonMList env.cfg xs = some vs

def ResMembers (env : Env) (ms : List (List StrItem × CST)) (kvs : List (Bytes × JV)) : Prop :=
  env.tgt = .value → canonMMembers env.cfg ms = some kvs

theorem tgt_cases (env : Env) : env.tgt = .value ∨ env.tgt = .ignored := by
  cases env.tgt <;> simp

end SJ.Proofs.Complete
