import SJ.Proofs.SharedAux
import SJ.Proofs.Machine
import SJ.Proofs.CanonM
/-!
# Completeness of the byte-step machine — basic vocabulary

* `feedS` / `Feeds env s bs s'`: feeding `bs` from `s` succeeds and ends in `s'` (index-free `feed`);
* `Pending env t s`: `s` is the *settled* state `t` (a value has just been completed:
  `afterElem` / `afterMember` / `done`), or `s` is still scanning a number literal that is complete
  as far as the grammar is concerned and whose `endNumber` is `t`. Both kinds of state react
  identically to every byte that cannot continue a number, and to end of input;
* whitespace lemmas.
-/
namespace SJ.Proofs.Complete
open SJ SJ.Gen SJ.Model.Machine SJ.Proofs.Machine

/-! ## index-free feeding -/

def feedS (env : Env) (s : St) : Bytes → Except (Code × Adj) St
  | [] => .ok s
  | b :: bs => match step env s b with
    | .ok s' => feedS env s' bs
    | .error e => .error e

def Feeds (env : Env) (s : St) (bs : Bytes) (s' : St) : Prop := feedS env s bs = .ok s'

theorem Feeds.nil (env : Env) (s : St) : Feeds env s [] s := rfl

theorem Feeds.cons {env : Env} {s s' s'' : St} {b : UInt8} {bs : Bytes}
    (h : step env s b = .ok s') (h' : Feeds env s' bs s'') : Feeds env s (b :: bs) s'' := by
  unfold Feeds at *; simp only [feedS, h]; exact h'

theorem Feeds.one {env : Env} {s s' : St} {b : UInt8} (h : step env s b = .ok s') :
    Feeds env s [b] s' := Feeds.cons h (Feeds.nil _ _)

theorem Feeds.append {env : Env} {s s' s'' : St} {xs ys : Bytes}
    (h : Feeds env s xs s') (h' : Feeds env s' ys s'') : Feeds env s (xs ++ ys) s'' := by
  induction xs generalizing s with
  | nil => simp only [Feeds, feedS, Except.ok.injEq] at h; subst h; exact h'
  | cons b bs ih =>
    unfold Feeds at h
    simp only [feedS] at h
    cases hs : step env s b with
    | ok s1 => rw [hs] at h; exact Feeds.cons hs (ih h)
    | error e => rw [hs] at h; cases h

theorem Feeds.to_feed {env : Env} {s s' : St} {xs : Bytes} (h : Feeds env s xs s') (i : Nat) :
    feed env s i xs = .ok (s', i + xs.length) := by
  induction xs generalizing s i with
  | nil => simp only [Feeds, feedS, Except.ok.injEq] at h; subst h; rfl
  | cons b bs ih =>
    unfold Feeds at h
    simp only [feedS] at h
    cases hs : step env s b with
    | ok s1 =>
      rw [hs] at h
      simp only [SJ.Proofs.Machine.feed, hs, List.length_cons]
      rw [ih h]; congr 2; omega
    | error e => rw [hs] at h; cases h

theorem Feeds.to_run {env : Env} {s s' : St} {xs : Bytes} (h : Feeds env s xs s') (i : Nat) :
    run env s i xs = match finish env s' with
      | .ok v => .ok v
      | .error c => .err c (i + xs.length) := by
  rw [run_eq_feed_finish, h.to_feed i]
  rfl

/-! ## lexical classes -/

theorem isWs_eq (b : UInt8) : isWs b = Spec.Grammar.isWs b := by
  simp only [isWs, Spec.Grammar.isWs, Gen.wsBytes, List.contains_cons, List.contains_nil,
    Bool.or_false]
  rw [Bool.eq_iff_iff]; simp only [Bool.or_eq_true, beq_iff_eq]
  grind

/-- `b` can continue a number literal (digit, `.`, `e`, `E`) -/
def numCont (b : UInt8) : Bool := isDigit b || b == 0x2e || b == 0x65 || b == 0x45

theorem isWs_not_numCont (b : UInt8) (h : isWs b = true) : numCont b = false := by
  simp only [isWs, Gen.wsBytes, List.contains_cons, List.contains_nil, Bool.or_false,
    Bool.or_eq_true, beq_iff_eq] at h
  rcases h with h | h | h | h <;> subst h <;> decide

/-! ## settled states and pending numbers -/

def GoodPhase : NPhase → Prop
  | .zero | .int | .frac | .exp => True
  | _ => False

/-- a value has just been completed -/
def Settled (t : St) : Prop :=
  match t.mode with
  | .afterElem | .afterMember | .done _ => True
  | _ => False

theorem settled_complete (st : List Frame) (v : JV) : Settled (complete st v) := by
  unfold complete; split <;> trivial

def Pending (env : Env) (t s : St) : Prop :=
  s = t ∨ ∃ n, s.mode = .num n ∧ GoodPhase n.phase ∧ endNumber env s n = .ok t

theorem Pending.refl (env : Env) (t : St) : Pending env t t := Or.inl rfl

theorem closeArr_not_again (env : Env) (s s' : St) : closeArr env s ≠ .again s' := by
  unfold closeArr; split <;> simp

theorem closeObj_not_again (env : Env) (s s' : St) : closeObj env s ≠ .again s' := by
  unfold closeObj; split <;> simp

theorem settled_not_again (env : Env) (t : St) (ht : Settled t) (b : UInt8) (s' : St) :
    step1 env t b ≠ .again s' := by
  unfold Settled at ht
  unfold step1
  split at ht
  all_goals first
    | exact ht.elim
    | (rename_i hm; simp only [hm]
       repeat' split
       all_goals first
         | exact closeArr_not_again env _ _
         | exact closeObj_not_again env _ _
         | simp)

/-- a settled state steps with a single `step1` -/
theorem step_settled (env : Env) (t : St) (ht : Settled t) (b : UInt8) :
    step env t b = match step1 env t b with
      | .next s' => .ok s'
      | .err c a => .error (c, a)
      | .again _ => .error (.ExpectedSomeValue, .incl) := by
  unfold step
  cases h : step1 env t b with
  | next s' => rfl
  | err c a => rfl
  | again s' => exact absurd h (settled_not_again env t ht b s')

theorem stepNum_end (env : Env) (s : St) (n : NumSt) (b : UInt8) (t : St)
    (hp : GoodPhase n.phase) (hb : numCont b = false) (he : endNumber env s n = .ok t) :
    stepNum env s n b = .again t := by
  simp only [numCont, Bool.or_eq_false_iff] at hb
  obtain ⟨⟨⟨h1, h2⟩, h3⟩, h4⟩ := hb
  unfold stepNum
  cases hph : n.phase <;> simp only [hph, GoodPhase] at hp ⊢
  all_goals simp [h1, h2, h3, h4, he]

/-- a pending number and the settled state it ends in react identically to a byte that cannot
    continue a number -/
theorem Pending.step_eq {env : Env} {t s : St} (h : Pending env t s) (ht : Settled t) (b : UInt8)
    (hb : numCont b = false) : step env s b = step env t b := by
  rcases h with rfl | ⟨n, hm, hp, he⟩
  · rfl
  · have h1 : step1 env s b = .again t := by
      unfold step1; simp only [hm]; exact stepNum_end env s n b t hp hb he
    rw [step_settled env t ht b]
    unfold Model.Machine.step
    simp only [h1]
    cases step1 env t b <;> rfl

theorem finish_settled (env : Env) (t : St) (ht : Settled t) : finish env t = finishMode env t := by
  unfold Settled at ht
  unfold finish
  split at ht <;> first | exact ht.elim | (rename_i hm; simp only [hm])

theorem Pending.finish_eq {env : Env} {t s : St} (h : Pending env t s) (ht : Settled t) :
    finish env s = finishMode env t := by
  rcases h with rfl | ⟨n, hm, hp, he⟩
  · exact finish_settled env _ ht
  · unfold Model.Machine.finish
    simp only [hm]
    cases hph : n.phase <;> simp only [hph, GoodPhase] at hp ⊢
    all_goals simp only [he]

theorem Pending.step_ok {env : Env} {t s s' : St} (h : Pending env t s) (ht : Settled t) {b : UInt8}
    (hb : numCont b = false) (hs : step env t b = .ok s') : Feeds env s [b] s' :=
  Feeds.one (by rw [h.step_eq ht b hb]; exact hs)

/-! ## whitespace -/

/-- modes in which whitespace is skipped -/
def WsStable (s : St) : Prop :=
  match s.mode with
  | .val _ | .afterElem | .objFirst | .objNextKey | .afterKey | .afterMember | .done _ => True
  | _ => False

theorem settled_wsStable (t : St) (ht : Settled t) : WsStable t := by
  unfold Settled at ht; unfold WsStable
  split at ht <;> first | exact ht.elim | (rename_i hm; simp only [hm])

theorem step_ws (env : Env) (s : St) (hs : WsStable s) (b : UInt8) (hb : isWs b = true) :
    step env s b = .ok s := by
  unfold WsStable at hs
  unfold Model.Machine.step step1
  split at hs <;> first | exact hs.elim | (rename_i hm; simp only [hm, hb, if_true])

theorem feeds_ws (env : Env) (s : St) (hs : WsStable s) (w : Bytes) (hw : Spec.Grammar.Ws w) :
    Feeds env s w s := by
  induction w with
  | nil => exact Feeds.nil _ _
  | cons b w ih =>
    simp only [Spec.Grammar.Ws, List.all_cons, Bool.and_eq_true] at hw
    exact Feeds.cons (step_ws env s hs b (by rw [isWs_eq]; exact hw.1)) (ih hw.2)

theorem Pending.ws {env : Env} {t s : St} (h : Pending env t s) (ht : Settled t) (w : Bytes)
    (hw : Spec.Grammar.Ws w) : ∃ s', Feeds env s w s' ∧ Pending env t s' := by
  cases w with
  | nil => exact ⟨s, Feeds.nil _ _, h⟩
  | cons b w =>
    simp only [Spec.Grammar.Ws, List.all_cons, Bool.and_eq_true] at hw
    have hb : isWs b = true := by rw [isWs_eq]; exact hw.1
    refine ⟨t, Feeds.cons ?_ (feeds_ws env t (settled_wsStable t ht) w hw.2), Pending.refl _ _⟩
    rw [h.step_eq ht b (isWs_not_numCont b hb)]
    exact step_ws env t (settled_wsStable t ht) b hb

end SJ.Proofs.Complete
