import SJ.Proofs.Complete.Side
/-!
# Driving lemma: statements (`DriveV`, `DriveE`, `DriveM`), literals, arrays
-/
namespace SJ.Proofs.Complete
open SJ SJ.Gen SJ.Model.Machine SJ.Proofs.Machine SJ.Proofs.CanonM
open SJ.Spec.Grammar (CST StrItem Ws)

/-- feeding the bytes of one value from a state expecting a value completes that value (or leaves
    a complete number pending) -/
def DriveV (env : Env) (vb : Bytes) (t : CST) : Prop :=
  ∀ (st : List Frame) (ctx : ValCtx), Side env st.length t →
    ∃ v s', Res env t v ∧ Feeds env ⟨.val ctx, st⟩ vb s' ∧ Pending env (complete st v) s'

/-- the elements of a non-empty array, pushed onto the frame in reverse -/
def DriveE (env : Env) (body : Bytes) (xs : List CST) : Prop :=
  ∀ (fs : List Frame) (es : List JV) (ctx : ValCtx), SideList env (fs.length + 1) xs →
    ∃ vs s', ResList env xs vs ∧ Feeds env ⟨.val ctx, .arr es :: fs⟩ body s' ∧
      Pending env ⟨.afterElem, .arr (vs.reverse ++ es) :: fs⟩ s'

/-- the members of a non-empty object, starting where a key is expected -/
def DriveM (env : Env) (body : Bytes) (ms : List (List StrItem × CST)) : Prop :=
  ∀ (fs : List Frame) (acc : List (Bytes × JV)) (k0 : Bytes) (m : Mode),
    (m = .objFirst ∨ m = .objNextKey) → SideMembers env (fs.length + 1) ms →
    ∃ kvs kl s', ResMembers env ms kvs ∧ Feeds env ⟨m, .obj acc k0 :: fs⟩ body s' ∧
      Pending env ⟨.afterMember, .obj (kvs.reverse ++ acc) kl :: fs⟩ s'

/-! ## single steps -/

theorem wsStable_val (ctx : ValCtx) (st : List Frame) : WsStable ⟨.val ctx, st⟩ := trivial


/-- in a value context, a byte that is neither whitespace nor `]` starts a value -/
theorem step_val (env : Env) (ctx : ValCtx) (st : List Frame) (b : UInt8) (s' : St)
    (hws : isWs b = false) (hb : (b == 0x5d) = false)
    (h : startValue env ⟨.val ctx, st⟩ b = .next s') : step env ⟨.val ctx, st⟩ b = .ok s' := by
  unfold step step1
  simp only [hws, hb, Bool.false_and, Bool.false_eq_true, if_false, h]

theorem step_comma_arr (env : Env) (fr : List Frame) :
    step env ⟨.afterElem, fr⟩ 0x2c = .ok ⟨.val .arrNext, fr⟩ := rfl

theorem step_close_arr (env : Env) (es : List JV) (fs : List Frame) :
    step env ⟨.afterElem, .arr es :: fs⟩ 0x5d
      = .ok (complete fs (if env.tgt = .value then .arr es.reverse else .null)) := rfl

theorem step_close_arr_first (env : Env) (es : List JV) (fs : List Frame) :
    step env ⟨.val .arrFirst, .arr es :: fs⟩ 0x5d
      = .ok (complete fs (if env.tgt = .value then .arr es.reverse else .null)) := rfl

theorem not_depthExceeded (env : Env) (ctx : ValCtx) (st : List Frame)
    (h : env.tgt = .value → env.cfg.limitOff = true ∨ st.length + 1 ≤ 127) :
    depthExceeded env ⟨.val ctx, st⟩ = false := by
  unfold depthExceeded
  rcases tgt_cases env with hv | hv
  · rcases h hv with h | h
    · simp [h]
    · simp [Gen.remainingDepthInit]; intro _ _; omega
  · simp [hv]

theorem step_open_arr (env : Env) (ctx : ValCtx) (st : List Frame)
    (h : env.tgt = .value → env.cfg.limitOff = true ∨ st.length + 1 ≤ 127) :
    step env ⟨.val ctx, st⟩ 0x5b = .ok ⟨.val .arrFirst, .arr [] :: st⟩ := by
  apply step_val env ctx st 0x5b _ (by decide) (by decide)
  unfold startValue
  simp [not_depthExceeded env ctx st h, isDigit]

theorem step_open_obj (env : Env) (ctx : ValCtx) (st : List Frame)
    (h : env.tgt = .value → env.cfg.limitOff = true ∨ st.length + 1 ≤ 127) :
    step env ⟨.val ctx, st⟩ 0x7b = .ok ⟨.objFirst, .obj [] [] :: st⟩ := by
  apply step_val env ctx st 0x7b _ (by decide) (by decide)
  unfold startValue
  simp [not_depthExceeded env ctx st h, isDigit]

/-! ## literals -/

theorem drive_null (env : Env) : DriveV env [0x6e, 0x75, 0x6c, 0x6c] .null := by
  intro st ctx _
  refine ⟨.null, complete st .null, ⟨fun _ => rfl, fun _ => rfl⟩, ?_, Pending.refl _ _⟩
  rfl

theorem drive_true (env : Env) : DriveV env [0x74, 0x72, 0x75, 0x65] .true_ := by
  intro st ctx _
  refine ⟨if env.tgt = .value then .bool true else .null, _, ⟨?_, ?_⟩, ?_, Pending.refl _ _⟩
  · intro hv; simp [hv, canonM]
  · intro hv; simp [hv]
  · rfl

theorem drive_false (env : Env) : DriveV env [0x66, 0x61, 0x6c, 0x73, 0x65] .false_ := by
  intro st ctx _
  refine ⟨if env.tgt = .value then .bool false else .null, _, ⟨?_, ?_⟩, ?_, Pending.refl _ _⟩
  · intro hv; simp [hv, canonM]
  · intro hv; simp [hv]
  · rfl

/-! ## arrays -/

theorem settled_afterElem (fr : List Frame) : Settled ⟨.afterElem, fr⟩ := trivial
theorem settled_afterMember (fr : List Frame) : Settled ⟨.afterMember, fr⟩ := trivial

theorem res_arr (env : Env) (xs : List CST) (vs : List JV) (h : ResList env xs vs) :
    Res env (.arr xs) (if env.tgt = .value then .arr vs else .null) := by
  constructor
  · intro hv; simp [hv, canonM, h hv]
  · intro hv; simp [hv]

theorem drive_arrEmpty (env : Env) (w : Bytes) (hw : Ws w) :
    DriveV env ([0x5b] ++ w ++ [0x5d]) (.arr []) := by
  intro st ctx hside
  refine ⟨_, _, res_arr env [] [] (fun _ => rfl), ?_, Pending.refl _ _⟩
  refine Feeds.append (Feeds.append (Feeds.one (step_open_arr env ctx st (hside.room ?_)))
    (feeds_ws env _ (wsStable_val _ _) w hw)) (Feeds.one (step_close_arr_first env [] st))
  simp [Spec.Grammar.depth]

theorem drive_arr (env : Env) (w₁ body w₂ : Bytes) (xs : List CST) (h₁ : Ws w₁) (h₂ : Ws w₂)
    (ih : DriveE env body xs) : DriveV env ([0x5b] ++ w₁ ++ body ++ w₂ ++ [0x5d]) (.arr xs) := by
  intro st ctx hside
  obtain ⟨vs, s1, hres, hf, hp⟩ := ih st [] .arrFirst hside.arr
  obtain ⟨s2, hf2, hp2⟩ := hp.ws (settled_afterElem _) w₂ h₂
  refine ⟨_, _, res_arr env xs vs hres, ?_, Pending.refl _ _⟩
  have hopen := step_open_arr env ctx st (hside.room (by simp [Spec.Grammar.depth]))
  have hclose := hp2.step_ok (settled_afterElem _) (b := 0x5d) (by decide)
    (step_close_arr env (vs.reverse ++ []) st)
  simp only [List.append_nil, List.reverse_reverse] at hclose
  exact Feeds.append (Feeds.append (Feeds.append (Feeds.append (Feeds.one hopen)
    (feeds_ws env _ (wsStable_val _ _) w₁ h₁)) hf) hf2) hclose

theorem drive_elems_one (env : Env) (bs : Bytes) (t : CST) (ih : DriveV env bs t) :
    DriveE env bs [t] := by
  intro fs es ctx hside
  obtain ⟨v, s1, hres, hf, hp⟩ := ih (.arr es :: fs) ctx hside.head
  refine ⟨[v], s1, ?_, hf, hp⟩
  intro hv; simp [canonMList, hres.1 hv]

theorem drive_elems_cons (env : Env) (bs w₁ w₂ rest : Bytes) (t : CST) (ts : List CST)
    (h₁ : Ws w₁) (h₂ : Ws w₂) (ihv : DriveV env bs t) (ihr : DriveE env rest ts) :
    DriveE env (bs ++ w₁ ++ [0x2c] ++ w₂ ++ rest) (t :: ts) := by
  intro fs es ctx hside
  obtain ⟨v, s1, hres, hf, hp⟩ := ihv (.arr es :: fs) ctx hside.head
  obtain ⟨s2, hf2, hp2⟩ := hp.ws (settled_complete _ _) w₁ h₁
  have hcomma := hp2.step_ok (settled_complete _ _) (b := 0x2c) (by decide)
    (step_comma_arr env (.arr (v :: es) :: fs))
  obtain ⟨vs, s3, hres3, hf3, hp3⟩ := ihr fs (v :: es) .arrNext hside.tail
  refine ⟨v :: vs, s3, ?_, ?_, ?_⟩
  · intro hv; simp [canonMList, hres.1 hv, hres3 hv]
  · exact Feeds.append (Feeds.append (Feeds.append (Feeds.append hf hf2) hcomma)
      (feeds_ws env _ (wsStable_val _ _) w₂ h₂)) hf3
  · simpa using hp3

end SJ.Proofs.Complete
