import SJ.Proofs.Complete.Main
/-!
# Whitespace closure of acceptance (machine level, no grammar involved)
-/
namespace SJ.Proofs.Complete
open SJ SJ.Gen SJ.Model.Machine SJ.Proofs.Machine
open SJ.Spec.Grammar (Ws)

theorem feeds_of_feed {env : Env} {s s' : St} {xs : Bytes} {i j : Nat}
    (h : feed env s i xs = .ok (s', j)) : Feeds env s xs s' := by
  induction xs generalizing s i with
  | nil => simp only [feed, Except.ok.injEq, Prod.mk.injEq] at h; rw [h.1]; exact Feeds.nil _ _
  | cons b bs ih =>
    simp only [feed] at h
    cases hs : step env s b with
    | ok s1 => rw [hs] at h; exact Feeds.cons hs (ih h)
    | error e => obtain ⟨c, a⟩ := e; rw [hs] at h; cases h

/-- an accepting run, decomposed -/
theorem run_ok_iff (env : Env) (s : St) (i : Nat) (xs : Bytes) (v : JV) :
    run env s i xs = .ok v ↔ ∃ s', Feeds env s xs s' ∧ finish env s' = .ok v := by
  constructor
  · intro h
    rw [run_eq_feed_finish] at h
    cases hf : feed env s i xs with
    | error e => obtain ⟨c, j⟩ := e; rw [hf] at h; cases h
    | ok p =>
      obtain ⟨s', j⟩ := p
      rw [hf] at h
      simp only at h
      refine ⟨s', feeds_of_feed hf, ?_⟩
      cases hfin : finish env s' with
      | ok v' => rw [hfin] at h; simp only [Outcome.ok.injEq] at h; rw [h]
      | error c => rw [hfin] at h; cases h
  · rintro ⟨s', hf, hfin⟩
    rw [hf.to_run i, hfin]

theorem finishMode_ok (env : Env) (s : St) (v : JV) (h : finishMode env s = .ok v) :
    s.mode = .done v := by
  unfold finishMode at h
  split at h <;> first | (simp at h; done) | (rename_i hm; simp only [Except.ok.injEq] at h; rw [hm, h])

/-- a state in which the input may end is (pending to) a settled `done` state -/
theorem finish_ok_pending (env : Env) (s : St) (v : JV) (h : finish env s = .ok v) :
    ∃ t, Settled t ∧ finishMode env t = .ok v ∧ Pending env t s := by
  unfold finish at h
  split at h
  · rename_i n hm
    split at h
    · cases h
    · cases h
    · cases h
    · cases h
    · rename_i hph
      split at h
      · rename_i s' he
        have hd := finishMode_ok env s' v h
        refine ⟨s', by unfold Settled; rw [hd]; trivial, h, Or.inr ⟨n, hm, ?_, he⟩⟩
        cases hp : n.phase <;> first | trivial | (exfalso; simp [hp] at hph)
      · cases h
  · have hd := finishMode_ok env s v h
    exact ⟨s, by unfold Settled; rw [hd]; trivial, h, Pending.refl _ _⟩

theorem run_ok_trailing_ws (env : Env) (s : St) (i : Nat) (xs w : Bytes) (v : JV)
    (h : run env s i xs = .ok v) (hw : Ws w) : run env s i (xs ++ w) = .ok v := by
  obtain ⟨s', hf, hfin⟩ := (run_ok_iff env s i xs v).mp h
  obtain ⟨t, ht, hft, hp⟩ := finish_ok_pending env s' v hfin
  obtain ⟨s'', hf2, hp2⟩ := hp.ws ht w hw
  exact (run_ok_iff env s i (xs ++ w) v).mpr ⟨s'', Feeds.append hf hf2, by rw [hp2.finish_eq ht]; exact hft⟩

theorem run_ok_leading_ws (env : Env) (xs w : Bytes) (v : JV)
    (h : run env init 0 xs = .ok v) (hw : Ws w) : run env init 0 (w ++ xs) = .ok v := by
  obtain ⟨s', hf, hfin⟩ := (run_ok_iff env init 0 xs v).mp h
  exact (run_ok_iff env init 0 (w ++ xs) v).mpr
    ⟨s', Feeds.append (feeds_ws env init trivial w hw) hf, hfin⟩

/-! ## the grammar derives no empty value -/

theorem derives_ne_nil {vb : Bytes} {t : Spec.Grammar.CST} (h : Spec.Grammar.Derives vb t) :
    vb ≠ [] := by
  cases h with
  | num p hwf =>
    obtain ⟨m, i, f, e⟩ := p
    simp only [Spec.Grammar.NumParts.WF, Bool.and_eq_true] at hwf
    cases i with
    | nil => simp [Spec.Grammar.isInt] at hwf
    | cons d ds => simp [Spec.Grammar.NumParts.bytes]
  | _ => simp [Spec.Grammar.strBytes]

theorem no_empty_text : ¬ ∃ t, Spec.Grammar.JsonText [] t := by
  rintro ⟨t, w₁, v, w₂, h, _, _, hd⟩
  have := congrArg List.length h
  simp only [List.length_nil, List.length_append] at this
  exact derives_ne_nil hd (List.eq_nil_of_length_eq_zero (by omega))

end SJ.Proofs.Complete
