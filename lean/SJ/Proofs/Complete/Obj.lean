import SJ.Proofs.Complete.Str
/-!
# Driving lemma: objects
-/
namespace SJ.Proofs.Complete
open SJ SJ.Gen SJ.Model.Machine SJ.Proofs.Machine SJ.Proofs.CanonM
open SJ.Spec.Grammar (CST StrItem Ws StrWF strBytes)
open SJ.Spec.Denote (decodeItems)

theorem step_colon (env : Env) (fr : List Frame) :
    step env ⟨.afterKey, fr⟩ 0x3a = .ok ⟨.val .objVal, fr⟩ := rfl

theorem step_comma_obj (env : Env) (fr : List Frame) :
    step env ⟨.afterMember, fr⟩ 0x2c = .ok ⟨.objNextKey, fr⟩ := rfl

theorem step_close_obj (env : Env) (ms : List (Bytes × JV)) (k : Bytes) (fs : List Frame) :
    step env ⟨.afterMember, .obj ms k :: fs⟩ 0x7d
      = .ok (complete fs (if env.tgt = .value then mkObj env.cfg ms.reverse else .null)) := rfl

theorem step_close_obj_first (env : Env) (ms : List (Bytes × JV)) (k : Bytes) (fs : List Frame) :
    step env ⟨.objFirst, .obj ms k :: fs⟩ 0x7d
      = .ok (complete fs (if env.tgt = .value then mkObj env.cfg ms.reverse else .null)) := rfl

theorem wsStable_objFirst (fr : List Frame) : WsStable ⟨.objFirst, fr⟩ := trivial
theorem wsStable_afterKey (fr : List Frame) : WsStable ⟨.afterKey, fr⟩ := trivial
theorem wsStable_objNextKey (fr : List Frame) : WsStable ⟨.objNextKey, fr⟩ := trivial

theorem res_obj (env : Env) (ms : List (List StrItem × CST)) (kvs : List (Bytes × JV))
    (h : ResMembers env ms kvs) :
    Res env (.obj ms) (if env.tgt = .value then mkObj env.cfg kvs else .null) := by
  constructor
  · intro hv; simp [hv, canonM, h hv]
  · intro hv; simp [hv]

theorem drive_objEmpty (env : Env) (w : Bytes) (hw : Ws w) :
    DriveV env ([0x7b] ++ w ++ [0x7d]) (.obj []) := by
  intro st ctx hside
  refine ⟨_, _, res_obj env [] [] (fun _ => rfl), ?_, Pending.refl _ _⟩
  refine Feeds.append (Feeds.append (Feeds.one (step_open_obj env ctx st (hside.room ?_)))
    (feeds_ws env _ (wsStable_objFirst _) w hw)) (Feeds.one (step_close_obj_first env [] [] st))
  simp [Spec.Grammar.depth]

theorem drive_obj (env : Env) (w₁ body w₂ : Bytes) (ms : List (List StrItem × CST)) (h₁ : Ws w₁)
    (h₂ : Ws w₂) (ih : DriveM env body ms) :
    DriveV env ([0x7b] ++ w₁ ++ body ++ w₂ ++ [0x7d]) (.obj ms) := by
  intro st ctx hside
  obtain ⟨kvs, kl, s1, hres, hf, hp⟩ := ih st [] [] .objFirst (Or.inl rfl) hside.obj
  obtain ⟨s2, hf2, hp2⟩ := hp.ws (settled_afterMember _) w₂ h₂
  refine ⟨_, _, res_obj env ms kvs hres, ?_, Pending.refl _ _⟩
  have hopen := step_open_obj env ctx st (hside.room (by simp [Spec.Grammar.depth]))
  have hclose := hp2.step_ok (settled_afterMember _) (b := 0x7d) (by decide)
    (step_close_obj env (kvs.reverse ++ []) kl st)
  simp only [List.append_nil, List.reverse_reverse] at hclose
  exact Feeds.append (Feeds.append (Feeds.append (Feeds.append (Feeds.one hopen)
    (feeds_ws env _ (wsStable_objFirst _) w₁ h₁)) hf) hf2) hclose

/-- `key ws : ws value` from a state expecting a key -/
theorem drive_member (env : Env) (k : List StrItem) (hk : StrWF k = true) (w₁ w₂ vb : Bytes)
    (t : CST) (h₁ : Ws w₁) (h₂ : Ws w₂) (ihv : DriveV env vb t) (fs : List Frame)
    (acc : List (Bytes × JV)) (k0 : Bytes) (m : Mode) (hm : m = .objFirst ∨ m = .objNextKey)
    (hsk : SideStr env k) (hst : Side env (fs.length + 1) t) :
    ∃ kb v s', (env.tgt = .value → decodeItems k = some kb) ∧ Res env t v ∧
      Feeds env ⟨m, .obj acc k0 :: fs⟩ (strBytes k ++ w₁ ++ [0x3a] ++ w₂ ++ vb) s' ∧
      Pending env ⟨.afterMember, .obj ((kb, v) :: acc) kb :: fs⟩ s' := by
  obtain ⟨kb, hkb, hfk⟩ := drive_key env k hk hsk m hm acc k0 fs
  obtain ⟨v, s1, hres, hfv, hp⟩ := ihv (.obj acc kb :: fs) .objVal hst
  refine ⟨kb, v, s1, hkb, hres, ?_, hp⟩
  exact Feeds.append (Feeds.append (Feeds.append (Feeds.append hfk
    (feeds_ws env _ (wsStable_afterKey _) w₁ h₁)) (Feeds.one (step_colon env _)))
    (feeds_ws env _ (wsStable_val _ _) w₂ h₂)) hfv

theorem drive_members_one (env : Env) (k : List StrItem) (hk : StrWF k = true) (w₁ w₂ vb : Bytes)
    (t : CST) (h₁ : Ws w₁) (h₂ : Ws w₂) (ihv : DriveV env vb t) :
    DriveM env (strBytes k ++ w₁ ++ [0x3a] ++ w₂ ++ vb) [(k, t)] := by
  intro fs acc k0 m hm hside
  obtain ⟨kb, v, s1, hkb, hres, hf, hp⟩ :=
    drive_member env k hk w₁ w₂ vb t h₁ h₂ ihv fs acc k0 m hm hside.key hside.head
  refine ⟨[(kb, v)], kb, s1, ?_, hf, hp⟩
  intro hv; simp [canonMMembers, hkb hv, hres.1 hv]

theorem drive_members_cons (env : Env) (k : List StrItem) (hk : StrWF k = true)
    (w₁ w₂ vb w₃ w₄ rest : Bytes) (t : CST) (ms : List (List StrItem × CST)) (h₁ : Ws w₁)
    (h₂ : Ws w₂) (h₃ : Ws w₃) (h₄ : Ws w₄) (ihv : DriveV env vb t) (ihr : DriveM env rest ms) :
    DriveM env (strBytes k ++ w₁ ++ [0x3a] ++ w₂ ++ vb ++ w₃ ++ [0x2c] ++ w₄ ++ rest)
      ((k, t) :: ms) := by
  intro fs acc k0 m hm hside
  obtain ⟨kb, v, s1, hkb, hres, hf, hp⟩ :=
    drive_member env k hk w₁ w₂ vb t h₁ h₂ ihv fs acc k0 m hm hside.key hside.head
  obtain ⟨s2, hf2, hp2⟩ := hp.ws (settled_afterMember _) w₃ h₃
  have hcomma := hp2.step_ok (settled_afterMember _) (b := 0x2c) (by decide)
    (step_comma_obj env (.obj ((kb, v) :: acc) kb :: fs))
  obtain ⟨kvs, kl, s3, hres3, hf3, hp3⟩ :=
    ihr fs ((kb, v) :: acc) kb .objNextKey (Or.inr rfl) hside.tail
  refine ⟨(kb, v) :: kvs, kl, s3, ?_, ?_, ?_⟩
  · intro hv; simp [canonMMembers, hkb hv, hres.1 hv, hres3 hv]
  · exact Feeds.append (Feeds.append (Feeds.append (Feeds.append hf hf2) hcomma)
      (feeds_ws env _ (wsStable_objNextKey _) w₄ h₄)) hf3
  · simpa using hp3

end SJ.Proofs.Complete
