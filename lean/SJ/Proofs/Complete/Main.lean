import SJ.Proofs.Complete.Num
import SJ.Proofs.Complete.Obj
/-!
# Completeness of the machine: every derivation drives the machine to the denoted value
-/
namespace SJ.Proofs.Complete
open SJ SJ.Gen SJ.Model.Machine SJ.Proofs.Machine SJ.Proofs.CanonM
open SJ.Spec.Grammar (CST StrItem Ws Derives Elems Members JsonText)

/-- the driving lemma, by mutual induction on the derivation -/
theorem drive (env : Env) {vb : Bytes} {t : CST} (h : Derives vb t) : DriveV env vb t := by
  refine Derives.rec (motive_1 := fun vb t _ => DriveV env vb t)
    (motive_2 := fun b xs _ => DriveE env b xs) (motive_3 := fun b ms _ => DriveM env b ms)
    ?_ ?_ ?_ ?_ ?_ ?_ ?_ ?_ ?_ ?_ ?_ ?_ ?_ h
  · exact drive_null env
  · exact drive_true env
  · exact drive_false env
  · intro p hp; exact drive_num env p hp
  · intro items hwf; exact drive_str env items hwf
  · intro w hw; exact drive_arrEmpty env w hw
  · intro w₁ body w₂ xs h₁ h₂ _ _ ih; exact drive_arr env w₁ body w₂ xs h₁ h₂ ih
  · intro w hw; exact drive_objEmpty env w hw
  · intro w₁ body w₂ ms h₁ h₂ _ _ ih; exact drive_obj env w₁ body w₂ ms h₁ h₂ ih
  · intro bs t _ ih; exact drive_elems_one env bs t ih
  · intro bs w₁ w₂ rest t ts _ h₁ h₂ _ ihv ihr
    exact drive_elems_cons env bs w₁ w₂ rest t ts h₁ h₂ ihv ihr
  · intro k hk w₁ w₂ vb t h₁ h₂ _ ihv; exact drive_members_one env k hk w₁ w₂ vb t h₁ h₂ ihv
  · intro k hk w₁ w₂ vb w₃ w₄ rest t ms h₁ h₂ _ h₃ h₄ _ ihv ihr
    exact drive_members_cons env k hk w₁ w₂ vb w₃ w₄ rest t ms h₁ h₂ h₃ h₄ ihv ihr

theorem settled_done (v : JV) : Settled ⟨.done v, []⟩ := trivial

/-- a JSON text meeting the side conditions (none for skipped content) is accepted with the value
    `Res` describes -/
theorem complete_text (env : Env) (bs : Bytes) (t : CST) (h : JsonText bs t) (hside : Side env 0 t) :
    ∃ v, Res env t v ∧ parseTop env bs = .ok v := by
  obtain ⟨w₁, vb, w₂, rfl, hw₁, hw₂, hd⟩ := h
  obtain ⟨v, s1, hres, hf, hp⟩ := drive env hd [] .top hside
  obtain ⟨s2, hf2, hp2⟩ := hp.ws (settled_done v) w₂ hw₂
  refine ⟨v, hres, ?_⟩
  have hall := Feeds.append (Feeds.append (feeds_ws env init trivial w₁ hw₁) hf) hf2
  unfold parseTop
  rw [hall.to_run 0, hp2.finish_eq (settled_done v)]
  rfl

end SJ.Proofs.Complete
