import SJ.Model.Num
/-!
# The eager exponent-overflow rejection of the scanner agrees with the conversions

`stepNum` raises `NumberOutOfRange` as soon as the exponent digits overflow `i32` (unless the
significand is all zeros or the exponent is negative). Here: whenever that guard would fire on the
complete literal, the conversion of the literal (`convertDefault` / `convertRoundtrip`) is
`outOfRange` as well — so a literal that converts is never rejected eagerly — and the guard is
monotone along digit prefixes.
-/
namespace SJ.Proofs.Complete
open SJ SJ.Model.Num

def isDigitB (b : UInt8) : Bool := 0x30 ≤ b && b ≤ 0x39

/-! ## `expOverflows` along prefixes -/

theorem expOverflows_go_mono (exp : Nat) (xs ys : Bytes) (h : expOverflows.go exp (xs ++ ys) = false) :
    expOverflows.go exp xs = false := by
  induction xs generalizing exp with
  | nil => simp [expOverflows.go]
  | cons c cs ih =>
    simp only [List.cons_append, expOverflows.go] at h ⊢
    split at h
    · cases h
    · rename_i hc; simp only [hc]; exact ih _ h

theorem expOverflows_mono (xs ys : Bytes) (h : expOverflows (xs ++ ys) = false) :
    expOverflows xs = false := by
  cases xs with
  | nil => rfl
  | cons d rest =>
    simp only [List.cons_append, expOverflows] at h ⊢
    exact expOverflows_go_mono _ _ _ h

theorem parseExponent_go_none (exp : Nat) (cs : Bytes) (h : expOverflows.go exp cs = true) :
    parseExponent.go exp cs = none := by
  induction cs generalizing exp with
  | nil => simp [expOverflows.go] at h
  | cons c cs ih =>
    simp only [expOverflows.go] at h
    simp only [parseExponent.go]
    split
    · rfl
    · rename_i hc; simp only [hc] at h; exact ih _ h

/-- an overflowing positive exponent on a non-zero significand is out of range -/
theorem parseExponent_overflow (positive : Bool) (sig : Nat) (startExp : Int) (eds : Bytes)
    (hsig : 0 < sig) (h : expOverflows eds = true) :
    parseExponent positive sig startExp false eds = .outOfRange := by
  cases eds with
  | nil => simp [expOverflows] at h
  | cons d rest =>
    simp only [expOverflows] at h
    have hne : (sig == 0) = false := by simp; omega
    simp [parseExponent, parseExponent_go_none _ _ h, exponentOverflow, hne]

/-! ## the significand of a literal with a non-zero digit is non-zero -/

theorem dig_pos (c : UInt8) (hd : isDigitB c = true) (hz : (c == 0x30) = false) : 0 < dig c := by
  simp only [isDigitB, Bool.and_eq_true, decide_eq_true_eq, UInt8.le_iff_toNat_le] at hd
  simp only [beq_eq_false_iff_ne, ne_eq, ← UInt8.toNat_inj] at hz
  simp at hd hz
  unfold dig; omega

theorem overflowMacro_pos (sig d : Nat) (h : overflowMacro sig d u64Max = true) : 0 < sig := by
  simp [overflowMacro, u64Max] at h
  omega

theorem goInt_pos (sig : Nat) (ds : Bytes) (hd : ds.all isDigitB = true)
    (h : 0 < sig ∨ ds.all (· == 0x30) = false) : 0 < (convertDefault.goInt sig ds).1 := by
  induction ds generalizing sig with
  | nil => simpa [convertDefault.goInt] using h
  | cons c cs ih =>
    simp only [List.all_cons, Bool.and_eq_true] at hd
    simp only [convertDefault.goInt]
    split
    · rename_i ho; exact overflowMacro_pos _ _ ho
    · apply ih _ hd.2
      rcases h with h | h
      · left; omega
      · simp only [List.all_cons, Bool.and_eq_false_iff] at h
        rcases h with h | h
        · left; have := dig_pos c hd.1 h; omega
        · right; exact h

theorem decGo_pos (sig : Nat) (e : Int) (ds : Bytes) (hd : ds.all isDigitB = true)
    (h : 0 < sig ∨ ds.all (· == 0x30) = false) : 0 < (parseDecimal.go sig e ds).1 := by
  induction ds generalizing sig e with
  | nil => simpa [parseDecimal.go] using h
  | cons c cs ih =>
    simp only [List.all_cons, Bool.and_eq_true] at hd
    simp only [parseDecimal.go]
    split
    · rename_i ho; exact overflowMacro_pos _ _ ho
    · apply ih _ _ hd.2
      rcases h with h | h
      · left; omega
      · simp only [List.all_cons, Bool.and_eq_false_iff] at h
        rcases h with h | h
        · left; have := dig_pos c hd.1 h; omega
        · right; exact h

theorem parseDecimal_overflow (positive : Bool) (sig : Nat) (expBefore : Int) (fds eds : Bytes)
    (hd : fds.all isDigitB = true) (hz : 0 < sig ∨ fds.all (· == 0x30) = false)
    (h : expOverflows eds = true) :
    parseDecimal positive sig expBefore fds (some (false, eds)) = .outOfRange := by
  unfold parseDecimal
  have := decGo_pos sig 0 fds hd hz
  simp only
  exact parseExponent_overflow _ _ _ _ this h

/-- **default build**: the eager guard implies the conversion rejects -/
theorem convertDefault_overflow (P : Parts) (eds : Bytes) (hexp : P.exp = some (false, eds))
    (hint : P.int.all isDigitB = true) (hfrac : (P.frac.getD []).all isDigitB = true)
    (hz : (P.int ++ P.frac.getD []).all (· == 0x30) = false) (h : expOverflows eds = true) :
    convertDefault P = .outOfRange := by
  unfold convertDefault
  simp only [hexp]
  have key : 0 < (convertDefault.goInt 0 P.int).1 ∨ (P.frac.getD []).all (· == 0x30) = false := by
    simp only [List.all_append, Bool.and_eq_false_iff] at hz
    rcases hz with hz | hz
    · left; exact goInt_pos 0 P.int hint (Or.inr hz)
    · right; exact hz
  cases hg : convertDefault.goInt 0 P.int with
  | mk sig over =>
    rw [hg] at key
    simp only at key
    cases hf : P.frac with
    | none =>
      simp only [hf, Option.getD_none, List.all_nil, Bool.true_eq_false, or_false] at key
      cases over <;> simp only <;> exact parseExponent_overflow _ _ _ _ key h
    | some fds =>
      simp only [hf, Option.getD_some] at key hfrac
      cases over <;> simp only <;> exact parseDecimal_overflow _ _ _ _ _ hfrac key h

/-- **float_roundtrip build**: the eager guard implies the conversion rejects -/
theorem convertRoundtrip_overflow (P : Parts) (eds : Bytes) (hexp : P.exp = some (false, eds))
    (hz : (P.int ++ P.frac.getD []).all (· == 0x30) = false) (h : expOverflows eds = true) :
    convertRoundtrip P = .outOfRange := by
  have hic : intClass P = none := by
    unfold intClass; rw [hexp]; cases P.frac <;> rfl
  unfold convertRoundtrip
  simp only [hic, hexp, h, if_true, hz, exponentOverflow]
  rfl

end SJ.Proofs.Complete
