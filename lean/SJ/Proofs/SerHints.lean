import SJ.Proofs.SerModel
/-!
# C03 helper lemmas, part 6: length hints `None` / `Some(exact)` give the same list of buffers
-/
namespace SJ.Proofs.SerHints
open SJ SJ.Model.Ser SJ.Spec.Program SJ.Proofs.SerModel

/-- closing an array after running `g` for its elements: the hint does not matter as long as it is
    exact (`g` stands for `serElems … xs`, which writes nothing and keeps the state when `len = 0`) -/
theorem seq_hint (f : Fmt) (g : State → FState → Except SerErr WS) (len : Nat)
    (hg : len = 0 → ∀ s st, g s st = .ok ⟨[], s, st⟩) (hint : Option Nat) (hh : hintOK hint len = true)
    (st : FState) :
    finishSeq f (serializeSeq f hint st) (g (serializeSeq f hint st).state (serializeSeq f hint st).st)
    = finishSeq f (serializeSeq f none st) (g (serializeSeq f none st).state (serializeSeq f none st).st) := by
  cases hint with
  | none => rfl
  | some k =>
    simp only [hintOK, beq_iff_eq] at hh
    subst hh
    by_cases h0 : k = 0
    · subst h0
      simp [finishSeq, serializeSeq, hg rfl, seqEnd, W.andThen, write]
    · rw [serializeSeq_slow f (some k) st (by simp [h0]), serializeSeq_slow f none st rfl]

theorem map_hint (f : Fmt) (g : State → FState → Except SerErr WS) (len : Nat)
    (hg : len = 0 → ∀ s st, g s st = .ok ⟨[], s, st⟩) (hint : Option Nat) (hh : hintOK hint len = true)
    (st : FState) :
    finishMap f (serializeMap f hint st) (g (serializeMap f hint st).state (serializeMap f hint st).st)
    = finishMap f (serializeMap f none st) (g (serializeMap f none st).state (serializeMap f none st).st) := by
  cases hint with
  | none => rfl
  | some k =>
    simp only [hintOK, beq_iff_eq] at hh
    subst hh
    by_cases h0 : k = 0
    · subst h0
      simp [finishMap, serializeMap, hg rfl, mapEnd, W.andThen, write]
    · rw [serializeMap_slow f (some k) st (by simp [h0]), serializeMap_slow f none st rfl]

theorem serElems_nil (ext : Ext) (f : Fmt) (xs : List SVal) (h : xs.length = 0) (s : State) (st : FState) :
    serElems ext f xs s st = .ok ⟨[], s, st⟩ := by
  cases xs with
  | nil => simp [serElems]
  | cons x xs => simp at h

theorem serEntries_nil (ext : Ext) (f : Fmt) (xs : List (SVal × SVal)) (h : xs.length = 0) (s : State) (st : FState) :
    serEntries ext f xs s st = .ok ⟨[], s, st⟩ := by
  cases xs with
  | nil => simp [serEntries]
  | cons x xs => simp at h

theorem serFields_nil (ext : Ext) (f : Fmt) (xs : List (Bytes × SVal)) (h : xs.length = 0) (s : State) (st : FState) :
    serFields ext f xs s st = .ok ⟨[], s, st⟩ := by
  cases xs with
  | nil => simp [serFields]
  | cons x xs => simp at h

theorem length_setHintsList (b : Bool) : ∀ xs : List SVal, (setHintsList b xs).length = xs.length
  | [] => rfl
  | x :: xs => by simp [setHintsList, length_setHintsList b xs]
theorem length_setHintsEntries (b : Bool) : ∀ xs : List (SVal × SVal), (setHintsEntries b xs).length = xs.length
  | [] => rfl
  | (k, v) :: xs => by simp [setHintsEntries, length_setHintsEntries b xs]
theorem length_setHintsFields (b : Bool) : ∀ xs : List (Bytes × SVal), (setHintsFields b xs).length = xs.length
  | [] => rfl
  | (k, v) :: xs => by simp [setHintsFields, length_setHintsFields b xs]

theorem hintOK_set (b : Bool) (len : Nat) : hintOK (if b = true then some len else none) len = true := by
  cases b <;> simp [hintOK]

section
variable (ext : Ext) (f : Fmt) (b : Bool)

/-- the key serializer never looks at hints of valid keys (compound keys are rejected either way) -/
theorem keySer_setHints : ∀ k : SVal, keySer ext (k.setHints b) = keySer ext k
  | .some k => by simp [SVal.setHints, keySer, keySer_setHints k]
  | .newtypeStruct k => by simp [SVal.setHints, keySer, keySer_setHints k]
  | .bool _ | .int _ _ | .f32 _ | .f64 _ | .char _ | .str _ | .bytes _ | .none | .unit | .unitStruct
  | .unitVariant _ | .collectStr _ | .numberLit _ => by simp [SVal.setHints]
  | .newtypeVariant _ _ | .seq _ _ | .tuple _ | .tupleStruct _ | .tupleVariant _ _ | .map _ _ | .struct_ _
  | .structVariant _ _ => by simp [SVal.setHints, keySer]

mutual
theorem ser_setHints : ∀ (p : SVal) (st : FState), p.wf = true → ser ext f (p.setHints b) st = ser ext f p st
  | .bool _, _, _ | .int _ _, _, _ | .f32 _, _, _ | .f64 _, _, _ | .char _, _, _ | .str _, _, _ | .bytes _, _, _
  | .none, _, _ | .unit, _, _ | .unitStruct, _, _ | .unitVariant _, _, _ | .collectStr _, _, _
  | .numberLit _, _, _ => by simp [SVal.setHints]
  | .some p, st, hw => by simpa [SVal.setHints, ser] using ser_setHints p st (by simpa [SVal.wf] using hw)
  | .newtypeStruct p, st, hw => by simpa [SVal.setHints, ser] using ser_setHints p st (by simpa [SVal.wf] using hw)
  | .newtypeVariant v p, st, hw => by
    simp only [SVal.setHints, ser, ser_setHints p _ (by simpa [SVal.wf] using hw)]
  | .seq hint xs, st, hw => by
    simp only [SVal.wf, Bool.and_eq_true] at hw
    have he : ∀ s st', serElems ext f (setHintsList b xs) s st' = serElems ext f xs s st' :=
      fun s st' => serElems_setHints xs s st' hw.2
    simp only [SVal.setHints, ser, he]
    rw [seq_hint f (serElems ext f xs) xs.length (fun h => serElems_nil ext f xs h) _ (hintOK_set b xs.length) st,
      seq_hint f (serElems ext f xs) xs.length (fun h => serElems_nil ext f xs h) hint hw.1 st]
  | .tuple xs, st, hw => by
    have he : ∀ s st', serElems ext f (setHintsList b xs) s st' = serElems ext f xs s st' :=
      fun s st' => serElems_setHints xs s st' (by simpa [SVal.wf] using hw)
    simp only [SVal.setHints, ser, he, length_setHintsList]
  | .tupleStruct xs, st, hw => by
    have he : ∀ s st', serElems ext f (setHintsList b xs) s st' = serElems ext f xs s st' :=
      fun s st' => serElems_setHints xs s st' (by simpa [SVal.wf] using hw)
    simp only [SVal.setHints, ser, he, length_setHintsList]
  | .tupleVariant v xs, st, hw => by
    have he : ∀ s st', serElems ext f (setHintsList b xs) s st' = serElems ext f xs s st' :=
      fun s st' => serElems_setHints xs s st' (by simpa [SVal.wf] using hw)
    simp only [SVal.setHints, ser, he, length_setHintsList]
  | .map hint es, st, hw => by
    simp only [SVal.wf, Bool.and_eq_true] at hw
    have he : ∀ s st', serEntries ext f (setHintsEntries b es) s st' = serEntries ext f es s st' :=
      fun s st' => serEntries_setHints es s st' hw.2
    simp only [SVal.setHints, ser, he]
    rw [map_hint f (serEntries ext f es) es.length (fun h => serEntries_nil ext f es h) _ (hintOK_set b es.length) st,
      map_hint f (serEntries ext f es) es.length (fun h => serEntries_nil ext f es h) hint hw.1 st]
  | .struct_ fs, st, hw => by
    have he : ∀ s st', serFields ext f (setHintsFields b fs) s st' = serFields ext f fs s st' :=
      fun s st' => serFields_setHints fs s st' (by simpa [SVal.wf] using hw)
    simp only [SVal.setHints, ser, he, length_setHintsFields]
  | .structVariant v fs, st, hw => by
    have he : ∀ s st', serFields ext f (setHintsFields b fs) s st' = serFields ext f fs s st' :=
      fun s st' => serFields_setHints fs s st' (by simpa [SVal.wf] using hw)
    simp only [SVal.setHints, ser, he, length_setHintsFields]
theorem serElems_setHints : ∀ (xs : List SVal) (s : State) (st : FState), wfList xs = true →
    serElems ext f (setHintsList b xs) s st = serElems ext f xs s st
  | [], _, _, _ => rfl
  | x :: xs, s, st, hw => by
    simp only [wfList, Bool.and_eq_true] at hw
    have he : ∀ s st', serElems ext f (setHintsList b xs) s st' = serElems ext f xs s st' :=
      fun s st' => serElems_setHints xs s st' hw.2
    simp only [setHintsList, serElems, ser_setHints x _ hw.1, he]
theorem serEntries_setHints : ∀ (es : List (SVal × SVal)) (s : State) (st : FState), wfEntries es = true →
    serEntries ext f (setHintsEntries b es) s st = serEntries ext f es s st
  | [], _, _, _ => rfl
  | (k, v) :: es, s, st, hw => by
    simp only [wfEntries, Bool.and_eq_true] at hw
    have he : ∀ s st', serEntries ext f (setHintsEntries b es) s st' = serEntries ext f es s st' :=
      fun s st' => serEntries_setHints es s st' hw.2
    simp only [setHintsEntries, serEntries, keySer_setHints, ser_setHints v _ hw.1.2, he]
theorem serFields_setHints : ∀ (fs : List (Bytes × SVal)) (s : State) (st : FState), wfFields fs = true →
    serFields ext f (setHintsFields b fs) s st = serFields ext f fs s st
  | [], _, _, _ => rfl
  | (k, v) :: fs, s, st, hw => by
    simp only [wfFields, Bool.and_eq_true] at hw
    have he : ∀ s st', serFields ext f (setHintsFields b fs) s st' = serFields ext f fs s st' :=
      fun s st' => serFields_setHints fs s st' hw.2
    simp only [setHintsFields, serFields, ser_setHints v _ hw.1, he]
end
end

end SJ.Proofs.SerHints
